(* C14 at connection level — the step predicates c14_datagram_ok and c14_segments_ok of
   Conn/C14C08_Pred.v as THEOREMS about every step of the model and every trace from vsock_new.

   Plan.  Everything the predicates read is a function of [core s] = (size state, segment table,
   inbox, datagrams emitted).  Each function called by poll_body is summarised by a relation on
   the core:
     [sr]  the sending path: the table keeps its shape (on_sent), the size state and the inbox are
           untouched, the datagrams added carry at most C payload bytes;
     [gr]  send_tx_queue: [sr], then possibly the pop of the failed probe;
     [ir0]/[ir] incoming messages: a prefix of the table goes, segments get marked delivered,
           mss only grows and stays below max_ss, max_ss is fixed;
     split_tx_queue_into_segments is treated directly ([split_c14]).
   The invariant of every reachable state is [J0] (bounds of the size state, every segment at most
   C bytes, the only undelivered probe is the newest segment, the table ends at the offset); the
   per-poll part [St e] (e = the table's end before the poll) adds: segments cut at or beyond e are
   probes exactly when they exceed the proven size. *)
From Utp Require Import Base.Prelude Wire.SeqNr Wire.Header Rtt.Rtte Mtu.SegSizes Mtu.SegSizes_Proofs
  Rx.Rx Tx.Ring Tx.Segments Tx.Segments_Proofs Conn.Recovery Conn.Msg Conn.VSockRec Conn.VSock
  Conn.VSockRun Conn.VObs Conn.C10_Pred Conn.C05_Pred Conn.C14C08_Pred Conn.VSock_Lemmas Conn.VSock_LemmasStep
  Conn.C14_StepLemmas Conn.C17_StepLemmas Conn.C17_Step.

Section WithCC.
Context {CC : Type} (cci : cc_iface CC).
Notation vsock := (vsock CC).

Section Bounds.
(* C = the payload ceiling, F = the protocol floor *)
Variables C F : Z.
Hypothesis HF : 1 <= F.

Definition core (s : vsock) : segsizes * segments * list msg * list packet :=
  (v_ss s, v_segs s, v_inbox s, v_out s).

Definition pktC (p : packet) : Prop := Z.of_nat (length (p_payload p)) <= C.
Definition outC (s : vsock) : Prop := Forall pktC (v_out s).

(* ------------------------------------------------------------------ the sending path *)
Definition sr (s s' : vsock) : Prop :=
  v_ss s' = v_ss s /\ v_inbox s' = v_inbox s /\
  ss_offset (v_segs s') = ss_offset (v_segs s) /\
  sle (ss_segs (v_segs s')) (ss_segs (v_segs s)) /\
  (outC s -> outC s').

Lemma sr_refl : forall s, sr s s.
Proof. intro s. unfold sr. repeat split; auto using sle_refl. Qed.

Lemma sr_trans : forall a b c, sr a b -> sr b c -> sr a c.
Proof.
  unfold sr. intros a b c (A1 & A2 & A3 & A4 & A5) (B1 & B2 & B3 & B4 & B5).
  repeat split; try congruence; [eapply sle_trans; eauto|auto].
Qed.

Lemma sr_core : forall s a b, sr s a -> core b = core a -> sr s b.
Proof.
  unfold sr, core, outC. intros s a b (A1 & A2 & A3 & A4 & A5) E. injection E as E1 E2 E3 E4.
  rewrite E1, E2, E3, E4. auto.
Qed.

Lemma sr_emit : forall s a b p, sr s a -> pktC p ->
  v_ss b = v_ss a -> v_inbox b = v_inbox a -> v_segs b = v_segs a -> v_out b = p :: v_out a -> sr s b.
Proof.
  unfold sr, outC. intros s a b p (A1 & A2 & A3 & A4 & A5) Hp E1 E2 E3 E4.
  rewrite E1, E2, E3, E4. repeat split; auto.
Qed.

Lemma sr_sent : forall s a b p i now, sr s a -> pktC p ->
  v_ss b = v_ss a -> v_inbox b = v_inbox a -> v_segs b = on_sent (v_segs a) i now ->
  v_out b = p :: v_out a -> sr s b.
Proof.
  unfold sr, outC. intros s a b p i now (A1 & A2 & A3 & A4 & A5) Hp E1 E2 E3 E4.
  destruct (on_sent_sle (v_segs a) i now) as [S1 S2].
  rewrite E1, E2, E3, E4, S2. repeat split; auto. eapply sle_trans; eauto.
Qed.

Lemma sr_same : forall s a b, sr s a -> v_ss b = v_ss a -> v_segs b = v_segs a ->
  v_inbox b = v_inbox a -> v_out b = v_out a -> sr s b.
Proof. intros s a b H E1 E2 E3 E4. eapply sr_core; [exact H|]. unfold core. congruence. Qed.

(* kernel-friendly: one projection of a stack of setters at a time *)
Ltac sr_leaf := eapply sr_same; [apply sr_refl | exact eq_refl ..].
Ltac sr_via H := eapply sr_same; [exact H | exact eq_refl ..].

Notation sts := (stR sr).

Lemma next_send_sr : forall (s : vsock) n s1 o, next_send s n = (s1, o) -> sr s s1.
Proof.
  intros s n s1 o H. unfold next_send in H.
  repeat break_match_hyp H; inversion H; subst; try inversion Heqp; subst; sr_leaf.
Qed.

Hypothesis HC : 0 <= C.

Lemma pktC_nil : forall h, pktC {| p_hdr := h; p_payload := [] |}.
Proof. intro h. unfold pktC. cbn [p_payload length]. lia. Qed.

Lemma send_control_packet_sr : forall (s : vsock) h, sts s (send_control_packet s h).
Proof.
  intros s h. unfold send_control_packet.
  destruct (v_transport_pending s); [apply sr_refl|].
  destruct (next_send s _) as [s1 o] eqn:E. apply next_send_sr in E.
  destruct o; cbn [stR]; [|sr_via E|exact E|exact E].
  unfold on_packet_sent, emit. eapply sr_emit; [exact E|apply pktC_nil|exact eq_refl ..].
Qed.

Lemma send_ack_sr : forall (s : vsock), sts s (send_ack s).
Proof. intros s. unfold send_ack. apply send_control_packet_sr. Qed.

Lemma maybe_send_fin_sr : forall (s : vsock), sts s (maybe_send_fin s).
Proof.
  intros s. unfold maybe_send_fin.
  destruct (v_transport_pending s); [apply sr_refl|].
  destruct (our_fin_if_unacked (v_state s)); [|apply sr_refl].
  destruct (negb _); [apply sr_refl|].
  apply (stR_sbind sr sr_trans); [apply send_control_packet_sr|].
  intros s1 [|]; cbn [stR]; [sr_leaf | apply sr_refl].
Qed.

Lemma pktC_data : forall h (l : list Z) n off, n <= C ->
  pktC {| p_hdr := h; p_payload := firstn (Z.to_nat n) (skipn off l) |}.
Proof.
  intros h l n off Hn. unfold pktC. cbn [p_payload].
  pose proof (firstn_le_length (Z.to_nat n) (skipn off l)). lia.
Qed.

Lemma send_data_sr : forall (s : vsock) h f, sg_size (fs_seg f) <= C -> sts s (send_data s h f).
Proof.
  intros s h f Hsz. unfold send_data.
  destruct (_ =? o_max_retx _); [apply sr_refl|].
  destruct (_ <? 0); [exact I|].
  destruct (_ <? fs_payload_offset f); [apply sr_refl|].
  destruct (_ <? _ + _); [apply sr_refl|].
  destruct (next_send s _) as [s1 o] eqn:E. apply next_send_sr in E.
  destruct o; cbn [stR]; [|sr_via E|exact E|exact E].
  unfold on_packet_sent, emit.
  destruct (seq_gt _ _); try destruct (seq_gt _ _);
    (eapply sr_sent; [exact E|apply pktC_data; exact Hsz|exact eq_refl ..]).
Qed.

Lemma on_rto_reactions_sr : forall (s s1 : vsock), on_rto_reactions cci s = Some s1 -> sr s s1.
Proof.
  intros s s1 H. unfold on_rto_reactions in H.
  destruct (Rtte.on_rto_timeout _); inversion H; subst. sr_leaf.
Qed.

Definition itemsC (items : list for_sending) : Prop := Forall (fun f => sg_size (fs_seg f) <= C) items.

Lemma recovery_loop_sr : forall items (s : vsock) h mss0 st,
  itemsC items -> sts s (recovery_loop items s h mss0 st).
Proof.
  induction items as [|f rest IH]; intros s h mss0 st Hi; cbn [recovery_loop].
  - apply sr_refl.
  - inversion Hi; subst.
    destruct (negb _); [apply sr_refl|].
    destruct (_ && negb (sg_lost _)); [apply IH; assumption|].
    destruct (_ && negb (sg_sacks_after _)); [apply sr_refl|].
    pose proof (send_data_sr s h f H1) as Fd.
    destruct (send_data s h f) as [s1 r|s1 e|]; cbn [stR] in *; auto.
    destruct r; cbn [stR]; auto.
    eapply (stR_weaken sr sr_trans); [exact Fd | apply IH; assumption].
Qed.

Lemma new_data_loop_sr : forall items (s : vsock) h remaining,
  itemsC items -> sts s (new_data_loop items s h remaining).
Proof.
  induction items as [|f rest IH]; intros s h remaining Hi; cbn [new_data_loop].
  - apply sr_refl.
  - inversion Hi; subst.
    destruct (_ <? _); [apply sr_refl|].
    pose proof (send_data_sr s h f H1) as Fd.
    destruct (send_data s h f) as [s1 r|s1 e|]; cbn [stR] in *; auto.
    destruct r; cbn [stR]; auto.
    eapply (stR_weaken sr sr_trans); [exact Fd | apply IH; assumption].
Qed.

Lemma set_recovering_sr : forall (s : vsock) rc, sr s (set_recovering s rc).
Proof. intros. unfold set_recovering. sr_leaf. Qed.

Lemma maybe_send_ack_sr : forall (s : vsock), sts s (maybe_send_ack s).
Proof.
  intros s. unfold maybe_send_ack.
  pose proof (send_ack_sr s) as G.
  destruct (immediate_ack_to_transmit s); [exact G|].
  destruct (should_send_window_update s); [exact G|].
  destruct (timer_expired _ _).
  - destruct (ack_to_transmit s); [exact G|]. cbn [stR]. sr_leaf.
  - destruct (0 <? v_cbu s); cbn [stR]; sr_leaf.
Qed.

Lemma maybe_send_syn_ack_sr : forall (s : vsock), sts s (maybe_send_syn_ack s).
Proof.
  intros s. unfold maybe_send_syn_ack.
  assert (G : forall c, sts s
     (if c =? o_max_retx (v_opts s) then SErr s ErrMaxSynAckRetransmissionsReached
      else sbind (send_ack s) (fun s1 sent =>
        if sent then SOk (set_t_syn_ack_resend (set_state s1 (SynAckSent (c + 1)))
               (timer_arm (v_t_syn_ack_resend s1) (v_now s1) SYNACK_RESEND_INTERNAL true)) tt
        else SOk s1 tt))).
  { intros c. destruct (_ =? _); [apply sr_refl|].
    apply (stR_sbind sr sr_trans); [apply send_ack_sr|].
    intros s1 [|]; cbn [stR]; [sr_leaf | apply sr_refl]. }
  destruct (v_state s); try (cbn [stR]; sr_leaf).
  - apply G.
  - destruct (timer_expired _ _); [apply G | apply sr_refl].
Qed.

(* items of the iterator: sizes of table segments *)
Lemma iter_itemsC : forall (t : segments) st, szC C (ss_segs t) -> itemsC (iter_for_sending t st).
Proof.
  intros t st Hz. apply Forall_forall. intros f Hf. apply iter_seg_in in Hf.
  unfold szC in Hz. rewrite Forall_forall in Hz. apply Hz. exact Hf.
Qed.

Lemma itemsC_incl : forall a b, incl a b -> itemsC b -> itemsC a.
Proof. intros a b Hi Hb. unfold itemsC in *. rewrite Forall_forall in *. auto. Qed.

Lemma sr_szC : forall s s', sr s s' -> szC C (ss_segs (v_segs s)) -> szC C (ss_segs (v_segs s')).
Proof. intros s s' (_ & _ & _ & H & _). apply szC_subseg. apply sle_subseg. exact H. Qed.

(* ------------------------------------------------------------------ send_tx_queue *)
Definition gr (s s' : vsock) : Prop :=
  v_inbox s' = v_inbox s /\ (outC s -> outC s') /\
  ((v_ss s' = v_ss s /\ ss_offset (v_segs s') = ss_offset (v_segs s) /\
    sle (ss_segs (v_segs s')) (ss_segs (v_segs s)))
   \/ (exists t x n, sle (ss_segs t) (ss_segs (v_segs s)) /\ ss_offset t = ss_offset (v_segs s) /\
         popped t (v_segs s') x /\ v_ss s' = disarm_cooldown (on_probe_failed (v_ss s) n))).

Lemma sr_gr : forall s s', sr s s' -> gr s s'.
Proof. intros s s' (A1 & A2 & A3 & A4 & A5). unfold gr. split; [exact A2|]. split; [exact A5|]. left. auto. Qed.

Lemma sr_gr_trans : forall a b c, sr a b -> gr b c -> gr a c.
Proof.
  intros a b c (A1 & A2 & A3 & A4 & A5) (B1 & B2 & B3). unfold gr.
  split; [congruence|]. split; [auto|].
  destruct B3 as [(B3 & B4 & B5)|(t & x & n & B3 & B4 & B5 & B6)].
  - left. split; [congruence|]. split; [congruence|]. eapply sle_trans; eauto.
  - right. exists t, x, n. split; [eapply sle_trans; eauto|]. split; [congruence|].
    split; [exact B5|congruence].
Qed.

Lemma stR_sr_gr : forall A (m : step A) s0 s, sr s0 s -> stR gr s m -> stR gr s0 m.
Proof. intros A m s0 s H Hm. destruct m; cbn [stR] in *; auto; eapply sr_gr_trans; eauto. Qed.

Lemma sts_gr : forall A (s : vsock) (m : step A), sts s m -> stR gr s m.
Proof. intros A s m H. destruct m; cbn [stR] in *; auto using sr_gr. Qed.

(* sequencing a send-path stage (which must keep the precondition Q) with a gr stage *)
Lemma stR_sbind_gr : forall A B (m : step A) (f : vsock -> A -> step B) s,
  sts s m -> (forall s1 a, sr s s1 -> stR gr s1 (f s1 a)) -> stR gr s (sbind m f).
Proof.
  intros A B m f s Hm Hf. destruct m as [s1 a|s1 e|]; cbn [sbind stR] in *; auto using sr_gr.
  eapply stR_sr_gr; [exact Hm|]. apply Hf. exact Hm.
Qed.

Lemma In_take_while' {A} (p : A -> bool) x : forall l, In x (take_while p l) -> In x l.
Proof.
  induction l as [|y ys IH]; cbn [take_while]; [auto|].
  destruct (p y); cbn [In]; [intros [H|H]; auto|contradiction].
Qed.

Lemma In_skip_while' {A} (p : A -> bool) x : forall l, In x (skip_while p l) -> In x l.
Proof.
  induction l as [|y ys IH]; cbn [skip_while]; [auto|].
  destruct (p y); [intro H; right; auto|auto].
Qed.

Lemma In_firstn' {A} (x : A) : forall n l, In x (firstn n l) -> In x l.
Proof.
  induction n as [|n IH]; intros [|y ys]; cbn [firstn In]; try tauto. intros [H|H]; auto.
Qed.

Lemma send_tx_queue_gr : forall (s : vsock),
  szC C (ss_segs (v_segs s)) -> stR gr s (send_tx_queue cci s).
Proof.
  intros s Hz. unfold send_tx_queue.
  destruct (v_transport_pending s); [apply sr_gr, sr_refl|].
  apply stR_sbind_gr.
  - destruct (timer_expired _ _); [|apply sr_refl].
    destruct (iter_for_sending _ _) as [|f l] eqn:Ei.
    + destruct (our_fin_if_unacked _); [|cbn [stR]; sr_leaf].
      destruct (_ =? _); [|cbn [stR]; sr_leaf].
      apply (stR_weaken sr sr_trans) with (s := set_last_sent_seq_nr s (wsub16 (v_last_sent_seq_nr s) 1));
        [sr_leaf|].
      apply (stR_sbind sr sr_trans); [apply maybe_send_fin_sr|].
      intros s1 a. destruct a; [|apply sr_refl].
      destruct (on_rto_reactions cci s1) eqn:E; [|exact I]. apply on_rto_reactions_sr in E.
      cbn [stR]. sr_via E.
    + assert (Hf : sg_size (fs_seg f) <= C).
      { pose proof (iter_itemsC (v_segs s) None Hz) as Hi. rewrite Ei in Hi. inversion Hi; assumption. }
      pose proof (send_data_sr s (outgoing_header s) f Hf) as Hd.
      destruct (send_data _ _ f) as [s1 r|s1 e|]; cbn [stR] in *; auto.
      destruct r; cbn [stR]; auto.
      cbv zeta.
      match goal with |- stR _ _ (match ?o with _ => _ end) => destruct o as [s2|] eqn:E end; [|exact I].
      assert (F2 : sr s1 s2).
      { destruct (negb _); [apply on_rto_reactions_sr; exact E|injection E as <-; apply sr_refl]. }
      cbn [stR]. pose proof (sr_trans _ _ _ Hd F2) as F3. sr_via F3.
  - intros s1 ret F1. pose proof (sr_szC _ _ F1 Hz) as Hz1.
    destruct ret; [apply sr_gr, sr_refl|].
    destruct (0 <? _); [apply sr_gr, sr_refl|]. destruct (ss_segs (v_segs s1)) eqn:Esg; [apply sr_gr, sr_refl|].
    rewrite <- Esg in *. clear Esg.
    apply stR_sbind_gr.
    + destruct (rv_phase _); try apply sr_refl.
      apply (stR_sbind sr sr_trans).
      { apply recovery_loop_sr. eapply itemsC_incl; [|apply (iter_itemsC (v_segs s1) None Hz1)].
        intros x Hx. apply In_take_while' in Hx. apply In_skip_while' in Hx. apply In_firstn' in Hx. exact Hx. }
      intros s2 [st early]. cbv beta iota zeta.
      destruct early; [apply set_recovering_sr|].
      match goal with |- stR _ _ (match our_fin_if_unacked (v_state ?y) with _ => _ end) =>
        assert (F3 : sr s2 y); [|revert F3; generalize y; intros sy F3] end.
      { eapply sr_trans; [apply set_recovering_sr|].
        destruct (_ <? _); [|apply sr_refl]. destruct (rc_recalc _); [sr_leaf|].
        destruct (0 <? _); [sr_leaf|apply sr_refl]. }
      destruct (our_fin_if_unacked _); [destruct (_ =? _)|]; cbn [stR]; exact F3.
    + intros s2 ret F2. pose proof (sr_szC _ _ F2 Hz1) as Hz2.
      destruct ret; [apply sr_gr, sr_refl|].
      apply stR_sbind_gr; [apply new_data_loop_sr; apply iter_itemsC; exact Hz2|].
      intros s3 tl F3. destruct tl as [[sq sz]|]; [|apply sr_gr, sr_refl].
      destruct (pop_mtu_probe _ _) as [segs' popd] eqn:Ep.
      destruct (pop_mtu_probe_cases _ _ _ _ Ep) as [[-> ->]|[-> [x Hx]]]; cbn [stR]; [apply sr_gr, sr_refl|].
      unfold gr. split; [exact eq_refl|]. split; [exact (fun H => H)|].
      right. exists (v_segs s3), x, sz. split; [apply sle_refl|]. split; [reflexivity|].
      split; [exact Hx|exact eq_refl].
Qed.

(* ------------------------------------------------------------------ incoming messages *)
Definition ssr (a b : segsizes) : Prop :=
  max_ss b = max_ss a /\ min_ss a <= min_ss b /\ (min_ss b = min_ss a \/ min_ss b <= max_ss a).

Lemma ssr_refl : forall a, ssr a a.
Proof. intro a. unfold ssr. lia. Qed.

Lemma ssr_trans : forall a b c, ssr a b -> ssr b c -> ssr a c.
Proof. unfold ssr. intros a b c (A1 & A2 & A3) (B1 & B2 & B3). lia. Qed.

Lemma ssr_delivered : forall a n, ssr a (on_payload_delivered a n).
Proof. intros a n. unfold ssr, on_payload_delivered. cbn [min_ss max_ss]. lia. Qed.

Lemma ssr_eq : forall a b, b = a -> ssr a b.
Proof. intros a b ->. apply ssr_refl. Qed.

Definition ir0 (s s' : vsock) : Prop :=
  ssr (v_ss s) (v_ss s') /\ v_inbox s' = v_inbox s /\
  ss_offset (v_segs s') = ss_offset (v_segs s) /\
  subseg (ss_segs (v_segs s')) (ss_segs (v_segs s)) /\ (outC s -> outC s').

Lemma ir0_refl : forall s, ir0 s s.
Proof.
  intro s. unfold ir0. split; [apply ssr_refl|]. split; [reflexivity|]. split; [reflexivity|].
  split; [apply subseg_refl|auto].
Qed.

Lemma ir0_trans : forall a b c, ir0 a b -> ir0 b c -> ir0 a c.
Proof.
  unfold ir0. intros a b c (A1 & A2 & A3 & A4 & A5) (B1 & B2 & B3 & B4 & B5).
  split; [eapply ssr_trans; eauto|]. split; [congruence|]. split; [congruence|].
  split; [eapply subseg_trans; eauto|auto].
Qed.

Lemma sr_ir0 : forall s s', sr s s' -> ir0 s s'.
Proof.
  intros s s' (A1 & A2 & A3 & A4 & A5). unfold ir0.
  split; [apply ssr_eq; exact A1|]. split; [exact A2|]. split; [exact A3|].
  split; [apply sle_subseg; exact A4|exact A5].
Qed.

Lemma ir0_upd : forall s a b, ir0 s a ->
  ssr (v_ss a) (v_ss b) -> v_inbox b = v_inbox a -> ss_offset (v_segs b) = ss_offset (v_segs a) ->
  subseg (ss_segs (v_segs b)) (ss_segs (v_segs a)) -> v_out b = v_out a -> ir0 s b.
Proof.
  intros s a b H E1 E2 E3 E4 E5. eapply ir0_trans; [exact H|]. unfold ir0, outC.
  rewrite E5. auto.
Qed.

Lemma ir0_core : forall s a b, ir0 s a -> core b = core a -> ir0 s b.
Proof.
  intros s a b H E. unfold core in E. injection E as E1 E2 E3 E4.
  eapply ir0_upd; [exact H|apply ssr_eq; exact E1|exact E3|rewrite E2; reflexivity|rewrite E2; apply subseg_refl|exact E4].
Qed.

Lemma ir0_same : forall s a b, ir0 s a -> v_ss b = v_ss a -> v_segs b = v_segs a ->
  v_inbox b = v_inbox a -> v_out b = v_out a -> ir0 s b.
Proof. intros s a b H E1 E2 E3 E4. eapply ir0_core; [exact H|]. unfold core. congruence. Qed.

Ltac ir0_leaf := eapply ir0_same; [apply ir0_refl | exact eq_refl ..].
Ltac ir0_via H := eapply ir0_same; [exact H | exact eq_refl ..].

Lemma state_table_core : forall (s : vsock) h,
  match state_table s h with TblDrop s1 | TblErr s1 _ | TblContinue s1 =>
    v_ss s1 = v_ss s /\ v_segs s1 = v_segs s /\ v_inbox s1 = v_inbox s /\ v_out s1 = v_out s end.
Proof.
  intros s h. unfold state_table, restart_remote_inactivity_timer.
  repeat break_match; (split; [|split; [|split]]); exact eq_refl.
Qed.

Lemma sts_ir0 : forall A (s : vsock) (m : step A), sts s m -> stR ir0 s m.
Proof. intros A s m H. destruct m; cbn [stR] in *; auto using sr_ir0. Qed.

Lemma process_incoming_message_ir0 : forall (s : vsock) m,
  stR ir0 s (process_incoming_message cci s m).
Proof.
  intros s m. unfold process_incoming_message.
  pose proof (state_table_core s (m_hdr m)) as T.
  destruct (state_table s (m_hdr m)) as [s1|s1 e|s1]; cbn [stR] in *;
    destruct T as (T1 & T2 & T3 & T4);
    try (eapply ir0_same; [apply ir0_refl|assumption ..]).
  destruct (remove_up_to_ack _ _ _ _) as [segs1 res] eqn:Er.
  destruct (match is_recovering _, _ with | false, Some rtt => _ | _, _ => _ end) as [rtte1|]; [|exact I].
  destruct (cc_on_ack _ _ _ _ _) as [cc3|]; [|exact I].
  destruct (recovery_on_ack _ _ _ _ _ _ _ _) as [[[rec1 segs2] cc4]|] eqn:Ero; [|exact I].
  match goal with |- context [seq_sub _ (wadd16 (v_last_consumed ?x) 1)] => set (s2 := x) end.
  assert (F2 : ir0 s s2).
  { destruct (remove_up_to_ack_sub _ _ _ _ _ _ Er) as [R1 R2].
    destruct (recovery_on_ack_sle _ _ _ _ _ _ _ _ _ _ _ Ero) as [R3 R4].
    eapply ir0_upd; [eapply ir0_same; [apply ir0_refl|eassumption ..]|..]; subst s2.
    - exact (ssr_delivered _ _).
    - exact eq_refl.
    - change (ss_offset segs2 = ss_offset (v_segs s1)). congruence.
    - change (subseg (ss_segs segs2) (ss_segs (v_segs s1))).
      eapply subseg_trans; [apply sle_subseg; exact R3|exact R1].
    - exact eq_refl. }
  clearbody s2.
  destruct (ch_type (m_hdr m)); try exact F2.
  - (* ST_DATA *)
    destruct (_ <? 0) eqn:Eoff; [cbn [stR]; unfold force_immediate_ack; ir0_via F2|].
    match goal with |- context [rx_add_remove (v_rx ?x)] => set (s3 := x) end.
    assert (F3 : ir0 s s3).
    { eapply ir0_upd; [exact F2|..]; subst s3;
        [exact (ssr_delivered _ _)|exact eq_refl|exact eq_refl|exact (subseg_refl _)|exact eq_refl]. }
    clearbody s3.
    destruct (rx_add_remove _ _ _ _) as [[rx1 ar] w] eqn:Ea.
    assert (F4 : ir0 s (add_wakes (set_rx s3 rx1) (rx_wakes w))) by (unfold add_wakes; ir0_via F3).
    set (s4 := add_wakes (set_rx s3 rx1) (rx_wakes w)) in *. clearbody s4.
    destruct ar as [r|]; [|exact I].
    destruct (add_err r); [exact F4|].
    match goal with |- context [send_ack (force_immediate_ack ?x)] => set (s5 := x) end.
    assert (F5 : ir0 s s5).
    { subst s5. unfold restart_remote_inactivity_timer. destruct r; first [exact F4 | ir0_via F4]. }
    clearbody s5.
    destruct (_ || _); [|exact F5].
    assert (F6 : ir0 s (force_immediate_ack s5)) by (unfold force_immediate_ack; ir0_via F5).
    set (s6 := force_immediate_ack s5) in *. clearbody s6.
    apply (stR_weaken ir0 ir0_trans) with (s := s6); [exact F6|].
    apply (stR_sbind ir0 ir0_trans); [apply sts_ir0, send_ack_sr|].
    intros s7 _. apply ir0_refl.
  - (* ST_FIN *)
    destruct (_ && _) eqn:Eoff; [|cbn [stR]; unfold force_immediate_ack; ir0_via F2].
    match goal with |- context [rx_add_remove (v_rx ?x)] => set (s4 := x) end.
    assert (F3 : ir0 s s4) by (subst s4; unfold force_immediate_ack; ir0_via F2).
    clearbody s4.
    destruct (rx_add_remove _ _ _ _) as [[rx1 ar] w] eqn:Ea.
    assert (F4 : ir0 s (add_wakes (set_rx s4 rx1) (rx_wakes w))) by (unfold add_wakes; ir0_via F3).
    set (s5 := add_wakes (set_rx s4 rx1) (rx_wakes w)) in *. clearbody s5.
    destruct ar as [r|]; [|exact I].
    destruct (add_err r); [exact F4|].
    destruct (mark_vsock_closed _) as [tx1 w2] eqn:Em. cbn [stR]. unfold add_wakes. ir0_via F4.
Qed.

(* the receive loop: once the inbox is empty the size state is not touched any more *)
Definition ir (s s' : vsock) : Prop :=
  ssr (v_ss s) (v_ss s') /\
  ss_offset (v_segs s') = ss_offset (v_segs s) /\
  subseg (ss_segs (v_segs s')) (ss_segs (v_segs s)) /\ (outC s -> outC s') /\
  (v_inbox s = [] -> v_inbox s' = [] /\ v_ss s' = v_ss s).

Lemma ir_refl : forall s, ir s s.
Proof.
  intro s. unfold ir. split; [apply ssr_refl|]. split; [reflexivity|].
  split; [apply subseg_refl|]. split; [auto|]. intro E. split; [exact E|reflexivity].
Qed.

Lemma ir_trans : forall a b c, ir a b -> ir b c -> ir a c.
Proof.
  unfold ir. intros a b c (A1 & A2 & A3 & A4 & A5) (B1 & B2 & B3 & B4 & B5).
  split; [eapply ssr_trans; eauto|]. split; [congruence|].
  split; [eapply subseg_trans; eauto|]. split; [auto|].
  intro E. destruct (A5 E) as [E1 E2]. destruct (B5 E1) as [E3 E4]. split; congruence.
Qed.

Lemma sr_ir : forall s s', sr s s' -> ir s s'.
Proof.
  intros s s' (A1 & A2 & A3 & A4 & A5). unfold ir.
  split; [apply ssr_eq; exact A1|]. split; [exact A3|].
  split; [apply sle_subseg; exact A4|]. split; [exact A5|]. intro E. split; congruence.
Qed.

Lemma ir_upd : forall s a b, ir s a ->
  v_ss b = v_ss a -> v_inbox b = v_inbox a -> ss_offset (v_segs b) = ss_offset (v_segs a) ->
  sle (ss_segs (v_segs b)) (ss_segs (v_segs a)) -> v_out b = v_out a -> ir s b.
Proof.
  intros s a b H E1 E2 E3 E4 E5. eapply ir_trans; [exact H|]. apply sr_ir. unfold sr, outC.
  rewrite E5. auto.
Qed.

Lemma ir_core : forall s a b, ir s a -> core b = core a -> ir s b.
Proof.
  intros s a b H E. unfold core in E. injection E as E1 E2 E3 E4.
  eapply ir_upd; [exact H|exact E1|exact E3|rewrite E2; reflexivity|rewrite E2; apply sle_refl|exact E4].
Qed.

Lemma ir_same : forall s a b, ir s a -> v_ss b = v_ss a -> v_segs b = v_segs a ->
  v_inbox b = v_inbox a -> v_out b = v_out a -> ir s b.
Proof. intros s a b H E1 E2 E3 E4. eapply ir_core; [exact H|]. unfold core. congruence. Qed.

Ltac ir_leaf := eapply ir_same; [apply ir_refl | exact eq_refl ..].
Ltac ir_via H := eapply ir_same; [exact H | exact eq_refl ..].

Lemma sts_ir : forall A (s : vsock) (m : step A), sts s m -> stR ir s m.
Proof. intros A s m H. destruct m; cbn [stR] in *; auto using sr_ir. Qed.

(* a message popped from a non-empty inbox *)
Lemma ir0_ir_pop : forall (s a s1 : vsock), v_inbox s <> [] ->
  v_ss a = v_ss s -> v_segs a = v_segs s -> v_out a = v_out s -> ir0 a s1 -> ir s s1.
Proof.
  unfold ir0, ir, outC. intros s a s1 Hne E1 E2 E3 (A1 & A2 & A3 & A4 & A5).
  rewrite E1, E2, E3 in *. split; [exact A1|]. split; [exact A3|]. split; [exact A4|].
  split; [exact A5|]. intro E. contradiction.
Qed.

Lemma stR_ir0_ir_pop : forall A (m : step A) (s a : vsock), v_inbox s <> [] ->
  v_ss a = v_ss s -> v_segs a = v_segs s -> v_out a = v_out s -> stR ir0 a m -> stR ir s m.
Proof. intros A m s a Hne E1 E2 E3 H. destruct m; cbn [stR] in *; eauto using ir0_ir_pop. Qed.

Lemma recv_loop_ir : forall fuel (s : vsock) acc, stR ir s (recv_loop cci fuel s acc).
Proof.
  assert (Hclosed : forall (s : vsock) (acc : on_ack_result),
    stR ir s (sbind (maybe_send_fin (transition_to_fin_wait_1 s))
                   (fun s2 _ => SOk (set_state s2 Closed) (acc, true)))).
  { intros s acc.
    apply (stR_weaken ir ir_trans) with (s := transition_to_fin_wait_1 s).
    { unfold transition_to_fin_wait_1. destruct (v_state s); first [apply ir_refl | ir_leaf]. }
    apply (stR_sbind ir ir_trans); [apply sts_ir, maybe_send_fin_sr|].
    intros s2 _. cbn [stR]. ir_leaf. }
  induction fuel as [|x fuel IH]; intros s acc.
  - cbn [recv_loop]. destruct (v_inbox s).
    + destruct (v_inbox_closed s); [apply Hclosed|cbn [stR]; ir_leaf].
    + exact I.
  - cbn [recv_loop]. destruct (v_inbox s) as [|m rest] eqn:Ei.
    + destruct (v_inbox_closed s); [apply Hclosed|cbn [stR]; ir_leaf].
    + apply (stR_sbind ir ir_trans).
      * apply (stR_ir0_ir_pop _ _ s (set_inbox s rest)); try reflexivity; [rewrite Ei; discriminate|].
        apply process_incoming_message_ir0.
      * intros s1 r. destruct (_ || _); [apply ir_refl|]. apply IH.
Qed.

Lemma process_all_incoming_messages_ir : forall (s : vsock),
  stR ir s (process_all_incoming_messages cci s).
Proof.
  intros s. unfold process_all_incoming_messages.
  apply (stR_sbind ir ir_trans); [apply recv_loop_ir|].
  intros s1 [r early].
  match goal with |- context [acked_counts_as_sent ?x] => set (s2 := x) end.
  assert (F2 : ir s1 s2).
  { subst s2. unfold restart_remote_inactivity_timer.
    repeat break_match; first [apply ir_refl | ir_leaf]. }
  clearbody s2.
  apply (stR_weaken ir ir_trans) with (s := s2); [exact F2|].
  apply (stR_sbind ir ir_trans).
  - destruct (0 <? _); [|apply ir_refl].
    assert (F2' : ir s2 (acked_counts_as_sent s2)).
    { unfold acked_counts_as_sent. destruct (seq_gt _ _ && seq_lt _ _); [ir_leaf | apply ir_refl]. }
    apply (stR_weaken ir ir_trans) with (s := acked_counts_as_sent s2); [exact F2'|].
    generalize (acked_counts_as_sent s2). intro s2'.
    destruct (truncate_front _ _) as [tx1 tr] eqn:Et.
    destruct tr; [|cbn [stR]; ir_leaf].
    destruct (wake_writer tx1) as [tx2 w] eqn:Ew. cbn [stR]. unfold add_wakes. ir_leaf.
  - intros s3 _. destruct (rv_phase _); try apply ir_refl.
    destruct (calc_pipe _ _ _ _ _) as [[[segs' pipe] recalc]|] eqn:Ec; [|exact I].
    destruct (calc_pipe_sle _ _ _ _ _ _ _ _ Ec) as [R1 R2].
    cbn [stR]. unfold set_recovering.
    eapply ir_upd; [apply ir_refl|exact eq_refl|exact eq_refl|exact R2|exact R1|exact eq_refl].
Qed.

(* ------------------------------------------------------------------ the invariants *)
Definition sb (ss : segsizes) : Prop := F <= min_ss ss <= max_ss ss /\ max_ss ss <= C.

Definition J0 (s : vsock) : Prop :=
  sb (v_ss s) /\ szC C (ss_segs (v_segs s)) /\ tok (ss_segs (v_segs s)) /\
  til (ss_segs (v_segs s)) (ss_offset (v_segs s)).

Definition J (s : vsock) : Prop := J0 s /\ outC s.

(* the per-poll part: e = the end of the table when the poll began *)
Definition X (e : Z) (s : vsock) : Prop :=
  NP e (min_ss (v_ss s)) (ss_segs (v_segs s)) /\ PP e (min_ss (v_ss s)) (ss_segs (v_segs s)) /\
  (v_inbox s = [] \/ nonew e (ss_segs (v_segs s))).

Definition St (e : Z) (s : vsock) : Prop := J0 s /\ X e s.

Lemma sb_ssr : forall a b, ssr a b -> sb a -> sb b.
Proof. unfold ssr, sb. intros a b (A1 & A2 & A3) (B1 & B2). lia. Qed.

Lemma sb_failed : forall a n, sb a -> sb (disarm_cooldown (on_probe_failed a n)).
Proof. unfold sb, disarm_cooldown, on_probe_failed. cbn [min_ss max_ss]. intros a n (B1 & B2). lia. Qed.

Lemma J0_ir : forall s s', ir s s' -> J0 s -> J0 s'.
Proof.
  intros s s' (A1 & A2 & A3 & A4 & A5) (B1 & B2 & B3 & B4). unfold J0. rewrite A2.
  split; [eapply sb_ssr; eauto|]. split; [eapply szC_subseg; eauto|].
  split; [eapply tok_subseg; eauto|eapply til_subseg; eauto].
Qed.

Lemma J0_sr : forall s s', sr s s' -> J0 s -> J0 s'.
Proof. intros s s' H. apply J0_ir, sr_ir, H. Qed.

Lemma J0_gr : forall s s', gr s s' -> J0 s -> J0 s'.
Proof.
  intros s s' (A1 & A2 & [(A3 & A4 & A5)|(t & x & n & A3 & A4 & A5 & A6)]) (B1 & B2 & B3 & B4).
  - unfold J0. rewrite A3, A4. pose proof (sle_subseg _ _ A5) as A5'.
    split; [exact B1|]. split; [eapply szC_subseg; eauto|].
    split; [eapply tok_subseg; eauto|eapply til_subseg; eauto].
  - pose proof (sle_subseg _ _ A3) as A3'.
    destruct (popped_props t (v_segs s') x C 0 0 A5) as (P1 & P2 & P3 & _).
    unfold J0. rewrite A6. split; [apply sb_failed; exact B1|].
    split; [apply P1; eapply szC_subseg; eauto|].
    split; [apply noup_tok, P2; eapply tok_subseg; eauto|].
    apply P3. rewrite A4. eapply til_subseg; eauto.
Qed.

Lemma J_ir : forall s s', ir s s' -> J s -> J s'.
Proof. intros s s' H [H0 H1]. split; [eapply J0_ir; eauto|apply H; exact H1]. Qed.

Lemma J_sr : forall s s', sr s s' -> J s -> J s'.
Proof. intros s s' H. apply J_ir, sr_ir, H. Qed.

Lemma J_gr : forall s s', gr s s' -> J s -> J s'.
Proof. intros s s' H [H0 H1]. split; [eapply J0_gr; eauto|apply H; exact H1]. Qed.

Lemma J_core : forall s s', core s' = core s -> J s -> J s'.
Proof. intros s s' E. apply J_sr. eapply sr_core; [apply sr_refl|exact E]. Qed.

Lemma X_ir : forall e s s', ir s s' -> X e s -> X e s'.
Proof.
  intros e s s' ((A0 & A0' & _) & A2 & A3 & A4 & A5) (B1 & B2 & B3). unfold X.
  split; [eapply NP_mono; [exact A0'|]; eapply NP_subseg; eauto|].
  destruct B3 as [B3|B3].
  - destruct (A5 B3) as [E1 E2]. rewrite E2. split; [eapply PP_subseg; eauto|left; exact E1].
  - pose proof (nonew_subseg _ _ _ A3 B3) as N. split; [apply nonew_PP; exact N|right; exact N].
Qed.

Lemma X_sr : forall e s s', sr s s' -> X e s -> X e s'.
Proof. intros e s s' H. apply X_ir, sr_ir, H. Qed.

Lemma X_gr : forall e s s', gr s s' -> X e s -> X e s'.
Proof.
  intros e s s' (A1 & A2 & [(A3 & A4 & A5)|(t & x & n & A3 & A4 & A5 & A6)]) (B1 & B2 & B3).
  - unfold X. rewrite A1, A3. pose proof (sle_subseg _ _ A5) as A5'.
    split; [eapply NP_subseg; eauto|]. split; [eapply PP_subseg; eauto|].
    destruct B3 as [B3|B3]; [left; exact B3|right; eapply nonew_subseg; eauto].
  - pose proof (sle_subseg _ _ A3) as A3'.
    destruct (popped_props t (v_segs s') x C e (min_ss (v_ss s)) A5) as (_ & _ & _ & P4 & P5 & P6).
    unfold X. rewrite A1, A6.
    change (min_ss (disarm_cooldown (on_probe_failed (v_ss s) n))) with (min_ss (v_ss s)).
    split; [apply P4; eapply NP_subseg; eauto|]. split; [apply P5; eapply PP_subseg; eauto|].
    destruct B3 as [B3|B3]; [left; exact B3|right; apply P6; eapply nonew_subseg; eauto].
Qed.

Lemma St_ir : forall e s s', ir s s' -> St e s -> St e s'.
Proof. intros e s s' H [H0 H1]. split; [eapply J0_ir; eauto|eapply X_ir; eauto]. Qed.

Lemma St_sr : forall e s s', sr s s' -> St e s -> St e s'.
Proof. intros e s s' H. apply St_ir, sr_ir, H. Qed.

Lemma St_gr : forall e s s', gr s s' -> St e s -> St e s'.
Proof. intros e s s' H [H0 H1]. split; [eapply J0_gr; eauto|eapply X_gr; eauto]. Qed.

Lemma St_core : forall e s s', core s' = core s -> St e s -> St e s'.
Proof. intros e s s' E. apply St_sr. eapply sr_core; [apply sr_refl|exact E]. Qed.

(* at the start of a poll nothing is new *)
Lemma J0_X_start : forall s, J0 s -> X (ss_offset (v_segs s)) s.
Proof.
  intros s (_ & _ & _ & B4). pose proof (til_nonew _ _ B4) as N. unfold X.
  split; [apply nonew_NP; exact N|]. split; [apply nonew_PP; exact N|right; exact N].
Qed.

End Bounds.
End WithCC.

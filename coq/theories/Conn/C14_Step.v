(* C14 at connection level — the step predicates c14_datagram_ok and c14_segments_ok of
   Conn/C14C08_Pred.v as THEOREMS about every step of the model and every trace from vsock_new.

   Plan.  Everything the predicates read is a function of [core s] = (size state, segment table,
   inbox, datagrams emitted).  Each function called by poll_body is summarised by a relation on
   the core:
     [sr]  the sending path: the table keeps its shape (on_sent), the size state and the inbox are
           untouched, the datagrams added carry at most C payload bytes;
     [gr]  send_tx_queue: [sr], then possibly the pop of the failed probe;
     [ir0]/[ir] incoming messages: a prefix of the table goes, segments get marked delivered,
           mss only grows and stays below max_ss, max_ss is fixed;
     split_tx_queue_into_segments is treated directly ([split_c14]).
   The invariant of every reachable state is [J0] (bounds of the size state, every segment at most
   C bytes, the only undelivered probe is the newest segment, the table ends at the offset); the
   per-poll part [St e] (e = the table's end before the poll) adds: segments cut at or beyond e are
   probes exactly when they exceed the proven size. *)
From Utp Require Import Base.Prelude Wire.SeqNr Wire.Header Rtt.Rtte Mtu.SegSizes Mtu.SegSizes_Proofs
  Rx.Rx Tx.Ring Tx.Segments Tx.Segments_Proofs Conn.Recovery Conn.Msg Conn.VSockRec Conn.VSock
  Conn.VSockRun Conn.VObs Conn.C10_Pred Conn.C05_Pred Conn.C14C08_Pred Conn.C14_Pred2 Conn.VSock_Lemmas Conn.VSock_LemmasStep
  Conn.C14_StepLemmas Conn.C17_StepLemmas Conn.C17_Step Conn.VSock_Inv Conn.C10_Proofs.

Section WithCC.
Context {CC : Type} (cci : cc_iface CC).
Notation vsock := (vsock CC).

Section Bounds.
(* C = the payload ceiling, F = the protocol floor *)
Variables C F TB : Z.
Hypothesis HF : 1 <= F.

Definition core (s : vsock) : segsizes * segments * list msg * list packet * vopts :=
  (v_ss s, v_segs s, v_inbox s, v_out s, v_opts s).

(* TB = the length of the scratch buffer the header is serialised into (fixed at creation): a SACK
   extension is written only if it fits (fit_sack), and only control packets carry one *)
Definition tb (s : vsock) : Prop := o_tmp_buf_len (v_opts s) = TB.

Definition pktC (p : packet) : Prop :=
  Z.of_nat (length (p_payload p)) <= C /\
  (ch_sack (p_hdr p) = None \/ (p_payload p = [] /\ 30 <= TB)).
Definition outC (s : vsock) : Prop := tb s -> Forall pktC (v_out s).

(* ------------------------------------------------------------------ the sending path *)
Definition sr (s s' : vsock) : Prop :=
  v_ss s' = v_ss s /\ v_inbox s' = v_inbox s /\
  ss_offset (v_segs s') = ss_offset (v_segs s) /\
  sle (ss_segs (v_segs s')) (ss_segs (v_segs s)) /\
  (outC s -> outC s').

Lemma sr_refl : forall s, sr s s.
Proof. intro s. unfold sr. repeat split; auto using sle_refl. Qed.

Lemma sr_trans : forall a b c, sr a b -> sr b c -> sr a c.
Proof.
  unfold sr. intros a b c (A1 & A2 & A3 & A4 & A5) (B1 & B2 & B3 & B4 & B5).
  repeat split; try congruence; [eapply sle_trans; eauto|auto].
Qed.

Lemma sr_core : forall s a b, sr s a -> core b = core a -> sr s b.
Proof.
  unfold sr, core, outC, tb. intros s a b (A1 & A2 & A3 & A4 & A5) E. injection E as E1 E2 E3 E4 E5.
  rewrite E1, E2, E3, E4, E5. auto.
Qed.

Lemma sr_emit : forall s a b p, sr s a -> (tb a -> pktC p) ->
  v_ss b = v_ss a -> v_inbox b = v_inbox a -> v_segs b = v_segs a -> v_out b = p :: v_out a ->
  v_opts b = v_opts a -> sr s b.
Proof.
  unfold sr, outC, tb. intros s a b p (A1 & A2 & A3 & A4 & A5) Hp E1 E2 E3 E4 E5.
  rewrite E1, E2, E3, E4, E5. split; [exact A1|]. split; [exact A2|]. split; [exact A3|]. split; [exact A4|].
  intros HO T. constructor; [apply Hp; exact T|apply A5; assumption].
Qed.

Lemma sr_sent : forall s a b p i now, sr s a -> (tb a -> pktC p) ->
  v_ss b = v_ss a -> v_inbox b = v_inbox a -> v_segs b = on_sent (v_segs a) i now ->
  v_out b = p :: v_out a -> v_opts b = v_opts a -> sr s b.
Proof.
  unfold sr, outC, tb. intros s a b p i now (A1 & A2 & A3 & A4 & A5) Hp E1 E2 E3 E4 E5.
  destruct (on_sent_sle (v_segs a) i now) as [S1 S2].
  rewrite E1, E2, E3, E4, E5, S2. split; [exact A1|]. split; [exact A2|]. split; [exact A3|].
  split; [eapply sle_trans; eauto|].
  intros HO T. constructor; [apply Hp; exact T|apply A5; assumption].
Qed.

Lemma sr_same : forall s a b, sr s a -> v_ss b = v_ss a -> v_segs b = v_segs a ->
  v_inbox b = v_inbox a -> v_out b = v_out a -> v_opts b = v_opts a -> sr s b.
Proof. intros s a b H E1 E2 E3 E4 E5. eapply sr_core; [exact H|]. unfold core. congruence. Qed.

(* kernel-friendly: one projection of a stack of setters at a time *)
Ltac sr_leaf := eapply sr_same; [apply sr_refl | exact eq_refl ..].
Ltac sr_via H := eapply sr_same; [exact H | exact eq_refl ..].

Notation sts := (stR sr).

Lemma next_send_sr : forall (s : vsock) n s1 o, next_send s n = (s1, o) -> sr s s1.
Proof.
  intros s n s1 o H. unfold next_send in H.
  repeat break_match_hyp H; inversion H; subst; try inversion Heqp; subst; sr_leaf.
Qed.

Hypothesis HC : 0 <= C.

Lemma pktC_nil : forall (s : vsock) h t q sk, tb s ->
  pktC {| p_hdr := hdr_with h t q (fit_sack s sk); p_payload := [] |}.
Proof.
  intros s h t q sk Hb. unfold pktC. cbn [p_payload length p_hdr hdr_with ch_sack]. split; [lia|].
  unfold fit_sack. unfold tb in Hb. rewrite Hb.
  destruct (Z.leb_spec 30 TB); [right; split; [reflexivity|assumption]|left; reflexivity].
Qed.

Lemma next_send_opts : forall (s : vsock) n s1 o, next_send s n = (s1, o) -> v_opts s1 = v_opts s.
Proof.
  intros s n s1 o H. unfold next_send in H.
  repeat break_match_hyp H; inversion H; subst; try inversion Heqp; subst; reflexivity.
Qed.

Lemma send_control_packet_sr : forall (s : vsock) h, sts s (send_control_packet s h).
Proof.
  intros s h. unfold send_control_packet.
  destruct (v_transport_pending s); [apply sr_refl|].
  destruct (next_send s _) as [s1 o] eqn:E. pose proof (next_send_opts _ _ _ _ E) as Eo.
  apply next_send_sr in E.
  destruct o; cbn [stR]; [|sr_via E|exact E|exact E].
  unfold on_packet_sent, emit.
  eapply sr_emit; [exact E| |exact eq_refl ..].
  intro Hb. apply pktC_nil. unfold tb in *. rewrite <- Eo. exact Hb.
Qed.

Lemma send_ack_sr : forall (s : vsock), sts s (send_ack s).
Proof. intros s. unfold send_ack. apply send_control_packet_sr. Qed.

Lemma maybe_send_fin_sr : forall (s : vsock), sts s (maybe_send_fin s).
Proof.
  intros s. unfold maybe_send_fin.
  destruct (v_transport_pending s); [apply sr_refl|].
  destruct (our_fin_if_unacked (v_state s)); [|apply sr_refl].
  destruct (negb _); [apply sr_refl|].
  apply (stR_sbind sr sr_trans); [apply send_control_packet_sr|].
  intros s1 [|]; cbn [stR]; [sr_leaf | apply sr_refl].
Qed.

Lemma pktC_data : forall h (l : list Z) n off, ch_sack h = None -> n <= C ->
  pktC {| p_hdr := h; p_payload := firstn (Z.to_nat n) (skipn off l) |}.
Proof.
  intros h l n off Hs Hn. unfold pktC. cbn [p_payload p_hdr]. split; [|left; exact Hs].
  pose proof (firstn_le_length (Z.to_nat n) (skipn off l)). lia.
Qed.

Lemma send_data_sr : forall (s : vsock) h f, sg_size (fs_seg f) <= C -> sts s (send_data s h f).
Proof.
  intros s h f Hsz. unfold send_data.
  destruct (_ =? o_max_retx _); [apply sr_refl|].
  destruct (_ <? 0); [exact I|].
  destruct (_ <? fs_payload_offset f); [apply sr_refl|].
  destruct (_ <? _ + _); [apply sr_refl|].
  destruct (next_send s _) as [s1 o] eqn:E. apply next_send_sr in E.
  destruct o; cbn [stR]; [|sr_via E|exact E|exact E].
  unfold on_packet_sent, emit.
  destruct (seq_gt _ _); try destruct (seq_gt _ _);
    (eapply sr_sent; [exact E| |exact eq_refl ..]; intros _; apply pktC_data; [exact eq_refl|exact Hsz]).
Qed.

Lemma on_rto_reactions_sr : forall (s s1 : vsock), on_rto_reactions cci s = Some s1 -> sr s s1.
Proof.
  intros s s1 H. unfold on_rto_reactions in H.
  destruct (Rtte.on_rto_timeout _); inversion H; subst. sr_leaf.
Qed.

Definition itemsC (items : list for_sending) : Prop := Forall (fun f => sg_size (fs_seg f) <= C) items.

Lemma recovery_loop_sr : forall items (s : vsock) h mss0 st,
  itemsC items -> sts s (recovery_loop items s h mss0 st).
Proof.
  induction items as [|f rest IH]; intros s h mss0 st Hi; cbn [recovery_loop].
  - apply sr_refl.
  - inversion Hi; subst.
    destruct (negb _); [apply sr_refl|].
    destruct (_ && negb (sg_lost _)); [apply IH; assumption|].
    destruct (_ && negb (sg_sacks_after _)); [apply sr_refl|].
    pose proof (send_data_sr s h f H1) as Fd.
    destruct (send_data s h f) as [s1 r|s1 e|]; cbn [stR] in *; auto.
    destruct r; cbn [stR]; auto.
    eapply (stR_weaken sr sr_trans); [exact Fd | apply IH; assumption].
Qed.

Lemma new_data_loop_sr : forall items (s : vsock) h remaining,
  itemsC items -> sts s (new_data_loop items s h remaining).
Proof.
  induction items as [|f rest IH]; intros s h remaining Hi; cbn [new_data_loop].
  - apply sr_refl.
  - inversion Hi; subst.
    destruct (_ <? _); [apply sr_refl|].
    pose proof (send_data_sr s h f H1) as Fd.
    destruct (send_data s h f) as [s1 r|s1 e|]; cbn [stR] in *; auto.
    destruct r; cbn [stR]; auto.
    eapply (stR_weaken sr sr_trans); [exact Fd | apply IH; assumption].
Qed.

Lemma set_recovering_sr : forall (s : vsock) rc, sr s (set_recovering s rc).
Proof. intros. unfold set_recovering. sr_leaf. Qed.

Lemma maybe_send_ack_sr : forall (s : vsock), sts s (maybe_send_ack s).
Proof.
  intros s. unfold maybe_send_ack.
  pose proof (send_ack_sr s) as G.
  destruct (immediate_ack_to_transmit s); [exact G|].
  destruct (should_send_window_update s); [exact G|].
  destruct (timer_expired _ _).
  - destruct (ack_to_transmit s); [exact G|]. cbn [stR]. sr_leaf.
  - destruct (0 <? v_cbu s); cbn [stR]; sr_leaf.
Qed.

Lemma maybe_send_syn_ack_sr : forall (s : vsock), sts s (maybe_send_syn_ack s).
Proof.
  intros s. unfold maybe_send_syn_ack.
  assert (G : forall c, sts s
     (if c =? o_max_retx (v_opts s) then SErr s ErrMaxSynAckRetransmissionsReached
      else sbind (send_ack s) (fun s1 sent =>
        if sent then SOk (set_t_syn_ack_resend (set_state s1 (SynAckSent (c + 1)))
               (timer_arm (v_t_syn_ack_resend s1) (v_now s1) SYNACK_RESEND_INTERNAL true)) tt
        else SOk s1 tt))).
  { intros c. destruct (_ =? _); [apply sr_refl|].
    apply (stR_sbind sr sr_trans); [apply send_ack_sr|].
    intros s1 [|]; cbn [stR]; [sr_leaf | apply sr_refl]. }
  destruct (v_state s); try (cbn [stR]; sr_leaf).
  - apply G.
  - destruct (timer_expired _ _); [apply G | apply sr_refl].
Qed.

(* items of the iterator: sizes of table segments *)
Lemma iter_itemsC : forall (t : segments) st, szC C (ss_segs t) -> itemsC (iter_for_sending t st).
Proof.
  intros t st Hz. apply Forall_forall. intros f Hf. apply iter_seg_in in Hf.
  unfold szC in Hz. rewrite Forall_forall in Hz. apply Hz. exact Hf.
Qed.

Lemma itemsC_incl : forall a b, incl a b -> itemsC b -> itemsC a.
Proof. intros a b Hi Hb. unfold itemsC in *. rewrite Forall_forall in *. auto. Qed.

Lemma sr_szC : forall s s', sr s s' -> szC C (ss_segs (v_segs s)) -> szC C (ss_segs (v_segs s')).
Proof. intros s s' (_ & _ & _ & H & _). apply szC_subseg. apply sle_subseg. exact H. Qed.

(* ------------------------------------------------------------------ send_tx_queue *)
Definition gr (s s' : vsock) : Prop :=
  v_inbox s' = v_inbox s /\ (outC s -> outC s') /\
  ((v_ss s' = v_ss s /\ ss_offset (v_segs s') = ss_offset (v_segs s) /\
    sle (ss_segs (v_segs s')) (ss_segs (v_segs s)))
   \/ (exists t x n, sle (ss_segs t) (ss_segs (v_segs s)) /\ ss_offset t = ss_offset (v_segs s) /\
         popped t (v_segs s') x /\ v_ss s' = disarm_cooldown (on_probe_failed (v_ss s) n))).

Lemma sr_gr : forall s s', sr s s' -> gr s s'.
Proof. intros s s' (A1 & A2 & A3 & A4 & A5). unfold gr. split; [exact A2|]. split; [exact A5|]. left. auto. Qed.

Lemma sr_gr_trans : forall a b c, sr a b -> gr b c -> gr a c.
Proof.
  intros a b c (A1 & A2 & A3 & A4 & A5) (B1 & B2 & B3). unfold gr.
  split; [congruence|]. split; [auto|].
  destruct B3 as [(B3 & B4 & B5)|(t & x & n & B3 & B4 & B5 & B6)].
  - left. split; [congruence|]. split; [congruence|]. eapply sle_trans; eauto.
  - right. exists t, x, n. split; [eapply sle_trans; eauto|]. split; [congruence|].
    split; [exact B5|congruence].
Qed.

Lemma stR_sr_gr : forall A (m : step A) s0 s, sr s0 s -> stR gr s m -> stR gr s0 m.
Proof. intros A m s0 s H Hm. destruct m; cbn [stR] in *; auto; eapply sr_gr_trans; eauto. Qed.

Lemma sts_gr : forall A (s : vsock) (m : step A), sts s m -> stR gr s m.
Proof. intros A s m H. destruct m; cbn [stR] in *; auto using sr_gr. Qed.

(* sequencing a send-path stage (which must keep the precondition Q) with a gr stage *)
Lemma stR_sbind_gr : forall A B (m : step A) (f : vsock -> A -> step B) s,
  sts s m -> (forall s1 a, sr s s1 -> stR gr s1 (f s1 a)) -> stR gr s (sbind m f).
Proof.
  intros A B m f s Hm Hf. destruct m as [s1 a|s1 e|]; cbn [sbind stR] in *; auto using sr_gr.
  eapply stR_sr_gr; [exact Hm|]. apply Hf. exact Hm.
Qed.

Lemma In_take_while' {A} (p : A -> bool) x : forall l, In x (take_while p l) -> In x l.
Proof.
  induction l as [|y ys IH]; cbn [take_while]; [auto|].
  destruct (p y); cbn [In]; [intros [H|H]; auto|contradiction].
Qed.

Lemma In_skip_while' {A} (p : A -> bool) x : forall l, In x (skip_while p l) -> In x l.
Proof.
  induction l as [|y ys IH]; cbn [skip_while]; [auto|].
  destruct (p y); [intro H; right; auto|auto].
Qed.

Lemma In_firstn' {A} (x : A) : forall n l, In x (firstn n l) -> In x l.
Proof.
  induction n as [|n IH]; intros [|y ys]; cbn [firstn In]; try tauto. intros [H|H]; auto.
Qed.

Lemma send_tx_queue_gr : forall (s : vsock),
  szC C (ss_segs (v_segs s)) -> stR gr s (send_tx_queue cci s).
Proof.
  intros s Hz. unfold send_tx_queue.
  destruct (v_transport_pending s); [apply sr_gr, sr_refl|].
  apply stR_sbind_gr.
  - destruct (timer_expired _ _); [|apply sr_refl].
    destruct (iter_for_sending _ _) as [|f l] eqn:Ei.
    + destruct (our_fin_if_unacked _); [|cbn [stR]; sr_leaf].
      destruct (_ =? _); [|cbn [stR]; sr_leaf].
      apply (stR_weaken sr sr_trans) with (s := set_last_sent_seq_nr s (wsub16 (v_last_sent_seq_nr s) 1));
        [sr_leaf|].
      apply (stR_sbind sr sr_trans); [apply maybe_send_fin_sr|].
      intros s1 a. destruct a; [|apply sr_refl].
      destruct (on_rto_reactions cci s1) eqn:E; [|exact I]. apply on_rto_reactions_sr in E.
      cbn [stR]. sr_via E.
    + assert (Hf : sg_size (fs_seg f) <= C).
      { pose proof (iter_itemsC (v_segs s) None Hz) as Hi. rewrite Ei in Hi. inversion Hi; assumption. }
      pose proof (send_data_sr s (outgoing_header s) f Hf) as Hd.
      destruct (send_data _ _ f) as [s1 r|s1 e|]; cbn [stR] in *; auto.
      destruct r; cbn [stR]; auto.
      cbv zeta.
      match goal with |- stR _ _ (match ?o with _ => _ end) => destruct o as [s2|] eqn:E end; [|exact I].
      assert (F2 : sr s1 s2).
      { destruct (negb _); [apply on_rto_reactions_sr; exact E|injection E as <-; apply sr_refl]. }
      cbn [stR]. pose proof (sr_trans _ _ _ Hd F2) as F3. sr_via F3.
  - intros s1 ret F1. pose proof (sr_szC _ _ F1 Hz) as Hz1.
    destruct ret; [apply sr_gr, sr_refl|].
    destruct (0 <? _); [apply sr_gr, sr_refl|]. destruct (ss_segs (v_segs s1)) eqn:Esg; [apply sr_gr, sr_refl|].
    rewrite <- Esg in *. clear Esg.
    apply stR_sbind_gr.
    + destruct (rv_phase _); try apply sr_refl.
      apply (stR_sbind sr sr_trans).
      { apply recovery_loop_sr. eapply itemsC_incl; [|apply (iter_itemsC (v_segs s1) None Hz1)].
        intros x Hx. apply In_take_while' in Hx. apply In_skip_while' in Hx. apply In_firstn' in Hx. exact Hx. }
      intros s2 [st early]. cbv beta iota zeta.
      destruct early; [apply set_recovering_sr|].
      match goal with |- stR _ _ (match our_fin_if_unacked (v_state ?y) with _ => _ end) =>
        assert (F3 : sr s2 y); [|revert F3; generalize y; intros sy F3] end.
      { eapply sr_trans; [apply set_recovering_sr|].
        destruct (_ <? _); [|apply sr_refl]. destruct (rc_recalc _); [sr_leaf|].
        destruct (0 <? _); [sr_leaf|apply sr_refl]. }
      destruct (our_fin_if_unacked _); [destruct (_ =? _)|]; cbn [stR]; exact F3.
    + intros s2 ret F2. pose proof (sr_szC _ _ F2 Hz1) as Hz2.
      destruct ret; [apply sr_gr, sr_refl|].
      apply stR_sbind_gr; [apply new_data_loop_sr; apply iter_itemsC; exact Hz2|].
      intros s3 tl F3. destruct tl as [[sq sz]|]; [|apply sr_gr, sr_refl].
      destruct (pop_mtu_probe _ _) as [segs' popd] eqn:Ep.
      destruct (pop_mtu_probe_cases _ _ _ _ Ep) as [[-> ->]|[-> [x Hx]]]; cbn [stR]; [apply sr_gr, sr_refl|].
      unfold gr. split; [exact eq_refl|]. split; [exact (fun H => H)|].
      right. exists (v_segs s3), x, sz. split; [apply sle_refl|]. split; [reflexivity|].
      split; [exact Hx|exact eq_refl].
Qed.

(* ------------------------------------------------------------------ incoming messages *)
Definition ssr (a b : segsizes) : Prop :=
  max_ss b = max_ss a /\ min_ss a <= min_ss b /\ (min_ss b = min_ss a \/ min_ss b <= max_ss a).

Lemma ssr_refl : forall a, ssr a a.
Proof. intro a. unfold ssr. lia. Qed.

Lemma ssr_trans : forall a b c, ssr a b -> ssr b c -> ssr a c.
Proof. unfold ssr. intros a b c (A1 & A2 & A3) (B1 & B2 & B3). lia. Qed.

Lemma ssr_delivered : forall a n, ssr a (on_payload_delivered a n).
Proof. intros a n. unfold ssr, on_payload_delivered. cbn [min_ss max_ss]. lia. Qed.

Lemma ssr_eq : forall a b, b = a -> ssr a b.
Proof. intros a b ->. apply ssr_refl. Qed.

Definition ir0 (s s' : vsock) : Prop :=
  ssr (v_ss s) (v_ss s') /\ v_inbox s' = v_inbox s /\
  ss_offset (v_segs s') = ss_offset (v_segs s) /\
  subseg (ss_segs (v_segs s')) (ss_segs (v_segs s)) /\ (outC s -> outC s').

Lemma ir0_refl : forall s, ir0 s s.
Proof.
  intro s. unfold ir0. split; [apply ssr_refl|]. split; [reflexivity|]. split; [reflexivity|].
  split; [apply subseg_refl|auto].
Qed.

Lemma ir0_trans : forall a b c, ir0 a b -> ir0 b c -> ir0 a c.
Proof.
  unfold ir0. intros a b c (A1 & A2 & A3 & A4 & A5) (B1 & B2 & B3 & B4 & B5).
  split; [eapply ssr_trans; eauto|]. split; [congruence|]. split; [congruence|].
  split; [eapply subseg_trans; eauto|auto].
Qed.

Lemma sr_ir0 : forall s s', sr s s' -> ir0 s s'.
Proof.
  intros s s' (A1 & A2 & A3 & A4 & A5). unfold ir0.
  split; [apply ssr_eq; exact A1|]. split; [exact A2|]. split; [exact A3|].
  split; [apply sle_subseg; exact A4|exact A5].
Qed.

Lemma ir0_upd : forall s a b, ir0 s a ->
  ssr (v_ss a) (v_ss b) -> v_inbox b = v_inbox a -> ss_offset (v_segs b) = ss_offset (v_segs a) ->
  subseg (ss_segs (v_segs b)) (ss_segs (v_segs a)) -> v_out b = v_out a -> v_opts b = v_opts a -> ir0 s b.
Proof.
  intros s a b H E1 E2 E3 E4 E5 E6. eapply ir0_trans; [exact H|]. unfold ir0, outC, tb.
  rewrite E5, E6. auto.
Qed.

Lemma ir0_core : forall s a b, ir0 s a -> core b = core a -> ir0 s b.
Proof.
  intros s a b H E. unfold core in E. injection E as E1 E2 E3 E4 E5.
  eapply ir0_upd; [exact H|apply ssr_eq; exact E1|exact E3|rewrite E2; reflexivity|rewrite E2; apply subseg_refl|exact E4|exact E5].
Qed.

Lemma ir0_same : forall s a b, ir0 s a -> v_ss b = v_ss a -> v_segs b = v_segs a ->
  v_inbox b = v_inbox a -> v_out b = v_out a -> v_opts b = v_opts a -> ir0 s b.
Proof. intros s a b H E1 E2 E3 E4 E5. eapply ir0_core; [exact H|]. unfold core. congruence. Qed.

Ltac ir0_leaf := eapply ir0_same; [apply ir0_refl | exact eq_refl ..].
Ltac ir0_via H := eapply ir0_same; [exact H | exact eq_refl ..].

Lemma state_table_core : forall (s : vsock) h,
  match state_table s h with TblDrop s1 | TblErr s1 _ | TblContinue s1 =>
    v_ss s1 = v_ss s /\ v_segs s1 = v_segs s /\ v_inbox s1 = v_inbox s /\ v_out s1 = v_out s /\
    v_opts s1 = v_opts s end.
Proof.
  intros s h. unfold state_table, restart_remote_inactivity_timer.
  repeat break_match; (split; [|split; [|split; [|split]]]); exact eq_refl.
Qed.

Lemma sts_ir0 : forall A (s : vsock) (m : step A), sts s m -> stR ir0 s m.
Proof. intros A s m H. destruct m; cbn [stR] in *; auto using sr_ir0. Qed.

Lemma process_incoming_message_ir0 : forall (s : vsock) m,
  stR ir0 s (process_incoming_message cci s m).
Proof.
  intros s m. unfold process_incoming_message.
  pose proof (state_table_core s (m_hdr m)) as T.
  destruct (state_table s (m_hdr m)) as [s1|s1 e|s1]; cbn [stR] in *;
    destruct T as (T1 & T2 & T3 & T4 & T5);
    try (eapply ir0_same; [apply ir0_refl|assumption ..]).
  destruct (remove_up_to_ack _ _ _ _) as [segs1 res] eqn:Er.
  destruct (match is_recovering _, _ with | false, Some rtt => _ | _, _ => _ end) as [rtte1|]; [|exact I].
  destruct (cc_on_ack _ _ _ _ _) as [cc3|]; [|exact I].
  destruct (recovery_on_ack _ _ _ _ _ _ _ _) as [[[rec1 segs2] cc4]|] eqn:Ero; [|exact I].
  match goal with |- context [seq_sub _ (wadd16 (v_last_consumed ?x) 1)] => set (s2 := x) end.
  assert (F2 : ir0 s s2).
  { destruct (remove_up_to_ack_sub _ _ _ _ _ _ Er) as [R1 R2].
    destruct (recovery_on_ack_sle _ _ _ _ _ _ _ _ _ _ _ Ero) as [R3 R4].
    eapply ir0_upd; [eapply ir0_same; [apply ir0_refl|eassumption ..]|..]; subst s2.
    - exact (ssr_delivered _ _).
    - exact eq_refl.
    - change (ss_offset segs2 = ss_offset (v_segs s1)). congruence.
    - change (subseg (ss_segs segs2) (ss_segs (v_segs s1))).
      eapply subseg_trans; [apply sle_subseg; exact R3|exact R1].
    - exact eq_refl.
    - exact eq_refl. }
  clearbody s2.
  destruct (ch_type (m_hdr m)); try exact F2.
  - (* ST_DATA *)
    destruct (_ <? 0) eqn:Eoff; [cbn [stR]; unfold force_immediate_ack; ir0_via F2|].
    match goal with |- context [rx_add_remove (v_rx ?x)] => set (s3 := x) end.
    assert (F3 : ir0 s s3).
    { eapply ir0_upd; [exact F2|..]; subst s3;
        [exact (ssr_delivered _ _)|exact eq_refl|exact eq_refl|exact (subseg_refl _)|exact eq_refl|exact eq_refl]. }
    clearbody s3.
    destruct (rx_add_remove _ _ _ _) as [[rx1 ar] w] eqn:Ea.
    assert (F4 : ir0 s (add_wakes (set_rx s3 rx1) (rx_wakes w))) by (unfold add_wakes; ir0_via F3).
    set (s4 := add_wakes (set_rx s3 rx1) (rx_wakes w)) in *. clearbody s4.
    destruct ar as [r|]; [|exact I].
    destruct (add_err r); [exact F4|].
    match goal with |- context [send_ack (force_immediate_ack ?x)] => set (s5 := x) end.
    assert (F5 : ir0 s s5).
    { subst s5. unfold restart_remote_inactivity_timer. destruct r; first [exact F4 | ir0_via F4]. }
    clearbody s5.
    destruct (_ || _); [|exact F5].
    assert (F6 : ir0 s (force_immediate_ack s5)) by (unfold force_immediate_ack; ir0_via F5).
    set (s6 := force_immediate_ack s5) in *. clearbody s6.
    apply (stR_weaken ir0 ir0_trans) with (s := s6); [exact F6|].
    apply (stR_sbind ir0 ir0_trans); [apply sts_ir0, send_ack_sr|].
    intros s7 _. apply ir0_refl.
  - (* ST_FIN *)
    destruct (_ && _) eqn:Eoff; [|cbn [stR]; unfold force_immediate_ack; ir0_via F2].
    match goal with |- context [rx_add_remove (v_rx ?x)] => set (s4 := x) end.
    assert (F3 : ir0 s s4) by (subst s4; unfold force_immediate_ack; ir0_via F2).
    clearbody s4.
    destruct (rx_add_remove _ _ _ _) as [[rx1 ar] w] eqn:Ea.
    assert (F4 : ir0 s (add_wakes (set_rx s4 rx1) (rx_wakes w))) by (unfold add_wakes; ir0_via F3).
    set (s5 := add_wakes (set_rx s4 rx1) (rx_wakes w)) in *. clearbody s5.
    destruct ar as [r|]; [|exact I].
    destruct (add_err r); [exact F4|].
    destruct (mark_vsock_closed _) as [tx1 w2] eqn:Em. cbn [stR]. unfold add_wakes. ir0_via F4.
Qed.

(* the receive loop: once the inbox is empty the size state is not touched any more *)
Definition ir (s s' : vsock) : Prop :=
  ssr (v_ss s) (v_ss s') /\
  ss_offset (v_segs s') = ss_offset (v_segs s) /\
  subseg (ss_segs (v_segs s')) (ss_segs (v_segs s)) /\ (outC s -> outC s') /\
  (v_inbox s = [] -> v_inbox s' = [] /\ v_ss s' = v_ss s).

Lemma ir_refl : forall s, ir s s.
Proof.
  intro s. unfold ir. split; [apply ssr_refl|]. split; [reflexivity|].
  split; [apply subseg_refl|]. split; [auto|]. intro E. split; [exact E|reflexivity].
Qed.

Lemma ir_trans : forall a b c, ir a b -> ir b c -> ir a c.
Proof.
  unfold ir. intros a b c (A1 & A2 & A3 & A4 & A5) (B1 & B2 & B3 & B4 & B5).
  split; [eapply ssr_trans; eauto|]. split; [congruence|].
  split; [eapply subseg_trans; eauto|]. split; [auto|].
  intro E. destruct (A5 E) as [E1 E2]. destruct (B5 E1) as [E3 E4]. split; congruence.
Qed.

Lemma sr_ir : forall s s', sr s s' -> ir s s'.
Proof.
  intros s s' (A1 & A2 & A3 & A4 & A5). unfold ir.
  split; [apply ssr_eq; exact A1|]. split; [exact A3|].
  split; [apply sle_subseg; exact A4|]. split; [exact A5|]. intro E. split; congruence.
Qed.

Lemma ir_upd : forall s a b, ir s a ->
  v_ss b = v_ss a -> v_inbox b = v_inbox a -> ss_offset (v_segs b) = ss_offset (v_segs a) ->
  sle (ss_segs (v_segs b)) (ss_segs (v_segs a)) -> v_out b = v_out a -> v_opts b = v_opts a -> ir s b.
Proof.
  intros s a b H E1 E2 E3 E4 E5 E6. eapply ir_trans; [exact H|]. apply sr_ir. unfold sr, outC, tb.
  rewrite E5, E6. auto.
Qed.

Lemma ir_core : forall s a b, ir s a -> core b = core a -> ir s b.
Proof.
  intros s a b H E. unfold core in E. injection E as E1 E2 E3 E4 E5.
  eapply ir_upd; [exact H|exact E1|exact E3|rewrite E2; reflexivity|rewrite E2; apply sle_refl|exact E4|exact E5].
Qed.

Lemma ir_same : forall s a b, ir s a -> v_ss b = v_ss a -> v_segs b = v_segs a ->
  v_inbox b = v_inbox a -> v_out b = v_out a -> v_opts b = v_opts a -> ir s b.
Proof. intros s a b H E1 E2 E3 E4 E5. eapply ir_core; [exact H|]. unfold core. congruence. Qed.

Ltac ir_leaf := eapply ir_same; [apply ir_refl | exact eq_refl ..].
Ltac ir_via H := eapply ir_same; [exact H | exact eq_refl ..].

Lemma sts_ir : forall A (s : vsock) (m : step A), sts s m -> stR ir s m.
Proof. intros A s m H. destruct m; cbn [stR] in *; auto using sr_ir. Qed.

(* a message popped from a non-empty inbox *)
Lemma ir0_ir_pop : forall (s a s1 : vsock), v_inbox s <> [] ->
  v_ss a = v_ss s -> v_segs a = v_segs s -> v_out a = v_out s -> v_opts a = v_opts s -> ir0 a s1 -> ir s s1.
Proof.
  unfold ir0, ir, outC, tb. intros s a s1 Hne E1 E2 E3 E4 (A1 & A2 & A3 & A4 & A5).
  rewrite E1, E2, E3, E4 in *. split; [exact A1|]. split; [exact A3|]. split; [exact A4|].
  split; [exact A5|]. intro E. contradiction.
Qed.

Lemma stR_ir0_ir_pop : forall A (m : step A) (s a : vsock), v_inbox s <> [] ->
  v_ss a = v_ss s -> v_segs a = v_segs s -> v_out a = v_out s -> v_opts a = v_opts s ->
  stR ir0 a m -> stR ir s m.
Proof. intros A m s a Hne E1 E2 E3 E4 H. destruct m; cbn [stR] in *; eauto using ir0_ir_pop. Qed.

Lemma recv_loop_ir : forall fuel (s : vsock) acc, stR ir s (recv_loop cci fuel s acc).
Proof.
  assert (Hclosed : forall (s : vsock) (acc : on_ack_result),
    stR ir s (sbind (maybe_send_fin (transition_to_fin_wait_1 s))
                   (fun s2 _ => SOk (set_state s2 Closed) (acc, true)))).
  { intros s acc.
    apply (stR_weaken ir ir_trans) with (s := transition_to_fin_wait_1 s).
    { unfold transition_to_fin_wait_1. destruct (v_state s); first [apply ir_refl | ir_leaf]. }
    apply (stR_sbind ir ir_trans); [apply sts_ir, maybe_send_fin_sr|].
    intros s2 _. cbn [stR]. ir_leaf. }
  induction fuel as [|x fuel IH]; intros s acc.
  - cbn [recv_loop]. destruct (v_inbox s).
    + destruct (v_inbox_closed s); [apply Hclosed|cbn [stR]; ir_leaf].
    + exact I.
  - cbn [recv_loop]. destruct (v_inbox s) as [|m rest] eqn:Ei.
    + destruct (v_inbox_closed s); [apply Hclosed|cbn [stR]; ir_leaf].
    + apply (stR_sbind ir ir_trans).
      * apply (stR_ir0_ir_pop _ _ s (set_inbox s rest)); try reflexivity; [rewrite Ei; discriminate|].
        apply process_incoming_message_ir0.
      * intros s1 r. destruct (_ || _); [apply ir_refl|]. apply IH.
Qed.

Lemma process_all_incoming_messages_ir : forall (s : vsock),
  stR ir s (process_all_incoming_messages cci s).
Proof.
  intros s. unfold process_all_incoming_messages.
  apply (stR_sbind ir ir_trans); [apply recv_loop_ir|].
  intros s1 [r early].
  match goal with |- context [acked_counts_as_sent ?x] => set (s2 := x) end.
  assert (F2 : ir s1 s2).
  { subst s2. unfold restart_remote_inactivity_timer.
    repeat break_match; first [apply ir_refl | ir_leaf]. }
  clearbody s2.
  apply (stR_weaken ir ir_trans) with (s := s2); [exact F2|].
  apply (stR_sbind ir ir_trans).
  - destruct (0 <? _); [|apply ir_refl].
    assert (F2' : ir s2 (acked_counts_as_sent s2)).
    { unfold acked_counts_as_sent. destruct (seq_gt _ _ && seq_lt _ _); [ir_leaf | apply ir_refl]. }
    apply (stR_weaken ir ir_trans) with (s := acked_counts_as_sent s2); [exact F2'|].
    generalize (acked_counts_as_sent s2). intro s2'.
    destruct (truncate_front _ _) as [tx1 tr] eqn:Et.
    destruct tr; [|cbn [stR]; ir_leaf].
    destruct (wake_writer tx1) as [tx2 w] eqn:Ew. cbn [stR]. unfold add_wakes. ir_leaf.
  - intros s3 _. destruct (rv_phase _); try apply ir_refl.
    destruct (calc_pipe _ _ _ _ _) as [[[segs' pipe] recalc]|] eqn:Ec; [|exact I].
    destruct (calc_pipe_sle _ _ _ _ _ _ _ _ Ec) as [R1 R2].
    cbn [stR]. unfold set_recovering.
    eapply ir_upd; [apply ir_refl|exact eq_refl|exact eq_refl|exact R2|exact R1|exact eq_refl|exact eq_refl].
Qed.

(* ------------------------------------------------------------------ the invariants *)
Definition sb (ss : segsizes) : Prop := F <= min_ss ss <= max_ss ss /\ max_ss ss <= C.

Definition J0 (s : vsock) : Prop :=
  sb (v_ss s) /\ szC C (ss_segs (v_segs s)) /\ tok (ss_segs (v_segs s)) /\
  til (ss_segs (v_segs s)) (ss_offset (v_segs s)).

Definition J (s : vsock) : Prop := J0 s /\ outC s.

(* the per-poll part: e = the end of the table when the poll began *)
Definition X (e : Z) (s : vsock) : Prop :=
  NP e (min_ss (v_ss s)) (ss_segs (v_segs s)) /\ PP e (min_ss (v_ss s)) (ss_segs (v_segs s)) /\
  (v_inbox s = [] \/ nonew e (ss_segs (v_segs s))).

Definition St (e : Z) (s : vsock) : Prop := J0 s /\ X e s.

Lemma sb_ssr : forall a b, ssr a b -> sb a -> sb b.
Proof. unfold ssr, sb. intros a b (A1 & A2 & A3) (B1 & B2). lia. Qed.

Lemma sb_failed : forall a n, sb a -> sb (disarm_cooldown (on_probe_failed a n)).
Proof. unfold sb, disarm_cooldown, on_probe_failed. cbn [min_ss max_ss]. intros a n (B1 & B2). lia. Qed.

Lemma J0_ir : forall s s', ir s s' -> J0 s -> J0 s'.
Proof.
  intros s s' (A1 & A2 & A3 & A4 & A5) (B1 & B2 & B3 & B4). unfold J0. rewrite A2.
  split; [eapply sb_ssr; eauto|]. split; [eapply szC_subseg; eauto|].
  split; [eapply tok_subseg; eauto|eapply til_subseg; eauto].
Qed.

Lemma J0_sr : forall s s', sr s s' -> J0 s -> J0 s'.
Proof. intros s s' H. apply J0_ir, sr_ir, H. Qed.

Lemma J0_gr : forall s s', gr s s' -> J0 s -> J0 s'.
Proof.
  intros s s' (A1 & A2 & [(A3 & A4 & A5)|(t & x & n & A3 & A4 & A5 & A6)]) (B1 & B2 & B3 & B4).
  - unfold J0. rewrite A3, A4. pose proof (sle_subseg _ _ A5) as A5'.
    split; [exact B1|]. split; [eapply szC_subseg; eauto|].
    split; [eapply tok_subseg; eauto|eapply til_subseg; eauto].
  - pose proof (sle_subseg _ _ A3) as A3'.
    destruct (popped_props t (v_segs s') x C 0 0 A5) as (P1 & P2 & P3 & _).
    unfold J0. rewrite A6. split; [apply sb_failed; exact B1|].
    split; [apply P1; eapply szC_subseg; eauto|].
    split; [apply noup_tok, P2; eapply tok_subseg; eauto|].
    apply P3. rewrite A4. eapply til_subseg; eauto.
Qed.

Lemma J_ir : forall s s', ir s s' -> J s -> J s'.
Proof. intros s s' H [H0 H1]. split; [eapply J0_ir; eauto|apply H; exact H1]. Qed.

Lemma J_sr : forall s s', sr s s' -> J s -> J s'.
Proof. intros s s' H. apply J_ir, sr_ir, H. Qed.

Lemma J_gr : forall s s', gr s s' -> J s -> J s'.
Proof. intros s s' H [H0 H1]. split; [eapply J0_gr; eauto|apply H; exact H1]. Qed.

Lemma J_core : forall s s', core s' = core s -> J s -> J s'.
Proof. intros s s' E. apply J_sr. eapply sr_core; [apply sr_refl|exact E]. Qed.

Lemma X_ir : forall e s s', ir s s' -> X e s -> X e s'.
Proof.
  intros e s s' ((A0 & A0' & _) & A2 & A3 & A4 & A5) (B1 & B2 & B3). unfold X.
  split; [eapply NP_mono; [exact A0'|]; eapply NP_subseg; eauto|].
  destruct B3 as [B3|B3].
  - destruct (A5 B3) as [E1 E2]. rewrite E2. split; [eapply PP_subseg; eauto|left; exact E1].
  - pose proof (nonew_subseg _ _ _ A3 B3) as N. split; [apply nonew_PP; exact N|right; exact N].
Qed.

Lemma X_sr : forall e s s', sr s s' -> X e s -> X e s'.
Proof. intros e s s' H. apply X_ir, sr_ir, H. Qed.

Lemma X_gr : forall e s s', gr s s' -> X e s -> X e s'.
Proof.
  intros e s s' (A1 & A2 & [(A3 & A4 & A5)|(t & x & n & A3 & A4 & A5 & A6)]) (B1 & B2 & B3).
  - unfold X. rewrite A1, A3. pose proof (sle_subseg _ _ A5) as A5'.
    split; [eapply NP_subseg; eauto|]. split; [eapply PP_subseg; eauto|].
    destruct B3 as [B3|B3]; [left; exact B3|right; eapply nonew_subseg; eauto].
  - pose proof (sle_subseg _ _ A3) as A3'.
    destruct (popped_props t (v_segs s') x C e (min_ss (v_ss s)) A5) as (_ & _ & _ & P4 & P5 & P6).
    unfold X. rewrite A1, A6.
    change (min_ss (disarm_cooldown (on_probe_failed (v_ss s) n))) with (min_ss (v_ss s)).
    split; [apply P4; eapply NP_subseg; eauto|]. split; [apply P5; eapply PP_subseg; eauto|].
    destruct B3 as [B3|B3]; [left; exact B3|right; apply P6; eapply nonew_subseg; eauto].
Qed.

Lemma St_ir : forall e s s', ir s s' -> St e s -> St e s'.
Proof. intros e s s' H [H0 H1]. split; [eapply J0_ir; eauto|eapply X_ir; eauto]. Qed.

Lemma St_sr : forall e s s', sr s s' -> St e s -> St e s'.
Proof. intros e s s' H. apply St_ir, sr_ir, H. Qed.

Lemma St_gr : forall e s s', gr s s' -> St e s -> St e s'.
Proof. intros e s s' H [H0 H1]. split; [eapply J0_gr; eauto|eapply X_gr; eauto]. Qed.

Lemma St_core : forall e s s', core s' = core s -> St e s -> St e s'.
Proof. intros e s s' E. apply St_sr. eapply sr_core; [apply sr_refl|exact E]. Qed.

(* at the start of a poll nothing is new *)
Lemma J0_X_start : forall s, J0 s -> X (ss_offset (v_segs s)) s.
Proof.
  intros s (_ & _ & _ & B4). pose proof (til_nonew _ _ B4) as N. unfold X.
  split; [apply nonew_NP; exact N|]. split; [apply nonew_PP; exact N|right; exact N].
Qed.

(* ------------------------------------------------------------------ segmentation *)
Definition splitQ (e : Z) (s s' : vsock) : Prop :=
  J0 s' /\ NP e (min_ss (v_ss s')) (ss_segs (v_segs s')) /\ PP e (min_ss (v_ss s')) (ss_segs (v_segs s')) /\
  v_out s' = v_out s /\ v_inbox s' = v_inbox s /\
  (is_remote_fin_or_later (v_state s) = true -> v_segs s' = v_segs s) /\
  v_opts s' = v_opts s.

Lemma splitQ_mk : forall e (s b : vsock) ss' segs',
  v_ss b = ss' -> v_segs b = segs' -> sb ss' -> szC C (ss_segs segs') -> tok (ss_segs segs') ->
  til (ss_segs segs') (ss_offset segs') -> NP e (min_ss ss') (ss_segs segs') -> PP e (min_ss ss') (ss_segs segs') ->
  v_out b = v_out s -> v_inbox b = v_inbox s ->
  (is_remote_fin_or_later (v_state s) = true -> segs' = v_segs s) -> v_opts b = v_opts s -> splitQ e s b.
Proof.
  intros e s b ss' segs' E1 E2 H1 H2 H3 H4 H5 H6 H7 H8 H9 H10. unfold splitQ, J0. rewrite E1, E2. tauto.
Qed.

Lemma splitQ_same : forall e (s b : vsock),
  J0 s -> NP e (min_ss (v_ss s)) (ss_segs (v_segs s)) -> PP e (min_ss (v_ss s)) (ss_segs (v_segs s)) ->
  v_ss b = v_ss s -> v_segs b = v_segs s -> v_inbox b = v_inbox s -> v_out b = v_out s ->
  v_opts b = v_opts s -> splitQ e s b.
Proof.
  intros e s b (H1 & H2 & H3 & H4) H5 H6 E1 E2 E3 E4 E5.
  apply (splitQ_mk e s b (v_ss s) (v_segs s)); auto.
Qed.

Lemma sb_probe_failed : forall a n, sb a -> sb (on_probe_failed a n).
Proof. unfold sb, on_probe_failed. cbn [min_ss max_ss]. intros a n (B1 & B2). lia. Qed.

Lemma split_c14 : forall e (s : vsock),
  J0 s -> NP e (min_ss (v_ss s)) (ss_segs (v_segs s)) -> PP e (min_ss (v_ss s)) (ss_segs (v_segs s)) ->
  stR (splitQ e) s (split_tx_queue_into_segments cci s).
Proof.
  intros e s HJ Hnp Hpp. unfold split_tx_queue_into_segments.
  destruct (_ =? 0); [cbn [stR]; apply splitQ_same; auto; exact eq_refl|].
  match goal with |- context [is_remote_fin_or_later (v_state ?x)] => set (s1 := x) end.
  assert (K : v_ss s1 = v_ss s /\ v_segs s1 = v_segs s /\ v_inbox s1 = v_inbox s /\ v_out s1 = v_out s /\
              v_state s1 = v_state s /\ v_opts s1 = v_opts s).
  { subst s1. destruct (_ && _); [|repeat (split; [exact eq_refl|]); exact eq_refl].
    destruct (grow _ _) as [tx1 g]. destruct g; [destruct (wake_writer tx1) as [tx2 w]|];
      repeat (split; [exact eq_refl|]); exact eq_refl. }
  clearbody s1. destruct K as (K1 & K2 & K3 & K4 & K5 & K6).
  destruct (is_remote_fin_or_later (v_state s1)) eqn:Efin.
  { cbn [stR]. apply splitQ_same; assumption. }
  assert (Hrf : forall t : segments, is_remote_fin_or_later (v_state s) = true -> t = v_segs s)
    by (intros t Hc; rewrite <- K5, Efin in Hc; discriminate).
  destruct (pop_expired_mtu_probe (v_segs s1) _ _) as [segs1 pe] eqn:Epe.
  pose proof (pop_expired_cases _ _ _ _ _ Epe) as Hpe.
  destruct HJ as (HJ1 & HJ2 & HJ3 & HJ4).
  assert (Hcont : forall (s2 : vsock) ss2 segs2,
     v_ss s2 = ss2 -> v_segs s2 = segs2 ->
     sb ss2 -> szC C (ss_segs segs2) -> noup (ss_segs segs2) -> til (ss_segs segs2) (ss_offset segs2) ->
     NP e (min_ss ss2) (ss_segs segs2) -> PP e (min_ss ss2) (ss_segs segs2) ->
     v_out s2 = v_out s -> v_inbox s2 = v_inbox s -> v_opts s2 = v_opts s ->
     stR (splitQ e) s
       (if Z.of_nat (length (ring (v_tx s))) <? ss_len_bytes (v_segs s2)
        then SErr s2 (ErrBug BugInBufferComputations)
        else match segment_loop (ring (v_tx s2)) (o_nagle (v_opts s2)) (v_ss s2) (v_segs s2)
                     (Z.of_nat (length (ring (v_tx s))) - ss_len_bytes (v_segs s2))
                     (v_last_remote_window s2) with
             | Some (ss', segs', remaining) =>
                 SOk (set_unsegmented (VSockRec.set_segs (set_ss s2 ss') segs') remaining) tt
             | None => SPanic
             end)).
  { intros s2 ss2 segs2 E1 E2 A1 A2 A3 A4 A5 A6 A7 A8 A9.
    destruct (_ <? _).
    { cbn [stR]. apply (splitQ_mk e s s2 ss2 segs2); auto using noup_tok. }
    rewrite E1, E2.
    destruct (segment_loop _ _ _ _ _ _) as [[[ss' segs'] rem']|] eqn:El; [|exact I].
    cbn [stR].
    assert (A1' : 1 <= min_ss ss2 <= max_ss ss2) by (unfold sb in A1; lia).
    destruct (segment_loop_c14 C e _ _ ss2 segs2 _ _ _ _ _ A1' (proj2 A1) A3 A4 A2 A5 A6 El)
      as (B1 & B2 & B3 & B4 & B5 & B6 & B7).
    apply (splitQ_mk e s _ ss' segs'); auto; try exact eq_refl.
    - unfold sb in *. rewrite B1, B2. exact A1.
    - rewrite B1. exact B6.
    - rewrite B1. exact B7. }
  destruct pe as [rewind_to payload_size| |].
  - (* the expired probe is popped *)
    destruct Hpe as (x & Hx & ->).
    destruct (popped_props (v_segs s1) segs1 x C e (min_ss (v_ss s1)) Hx) as (P1 & P2 & P3 & P4 & P5 & _).
    rewrite K1, K2 in *.
    apply (Hcont _ (on_probe_failed (v_ss s1) (sg_size x)) segs1);
      try (destruct (seq_gt _ _); exact eq_refl); rewrite ?K1; auto.
    + apply sb_probe_failed; exact HJ1.
    + destruct (seq_gt _ _); exact K4.
    + destruct (seq_gt _ _); exact K3.
    + destruct (seq_gt _ _); exact K6.
  - (* a probe is outstanding *)
    subst segs1. cbn [stR]. apply splitQ_same; unfold J0; auto.
  - destruct Hpe as [-> Hl].
    apply (Hcont s1 (v_ss s1) (v_segs s1)); auto; rewrite ?K1, ?K2; auto.
    apply tok_noup_if; [exact HJ3|]. rewrite <- K2. exact Hl.
Qed.

(* ------------------------------------------------------------------ the rest of poll_body *)
Lemma poll_start_sr : forall (s : vsock), sr s (poll_start s).
Proof. intros s. unfold poll_start. sr_leaf. Qed.

Lemma rx_flush_sr : forall (s : vsock) rx1 w, sr s (add_wakes (set_rx s rx1) w).
Proof. intros. unfold add_wakes. sr_leaf. Qed.

Lemma transition_to_fin_wait_1_sr : forall (s : vsock), sr s (transition_to_fin_wait_1 s).
Proof.
  intros s. unfold transition_to_fin_wait_1. destruct (v_state s); first [apply sr_refl | sr_leaf].
Qed.

Lemma mark_both_closed_sr : forall (s : vsock), sr s (mark_both_closed s).
Proof.
  intros s. unfold mark_both_closed.
  destruct (rx_mark_vsock_closed (v_rx s)) as [rx1 w1].
  destruct (mark_vsock_closed (v_tx s)) as [tx1 w2]. unfold add_wakes. sr_leaf.
Qed.

Lemma just_before_death_sr : forall (s : vsock) e, sr s (just_before_death s e).
Proof.
  intros s e. unfold just_before_death.
  match goal with |- context [mark_both_closed ?x] => set (s1 := x) end.
  assert (F1 : sr s s1).
  { subst s1. destruct e; [|apply sr_refl].
    destruct (rx_enqueue_error _) as [rx1 w]. unfold add_wakes. sr_leaf. }
  clearbody s1.
  pose proof (mark_both_closed_sr s1) as F2.
  set (s2 := mark_both_closed s1) in *. clearbody s2.
  pose proof (sr_trans _ _ _ F1 F2) as F3.
  destruct e; [|exact F3].
  destruct (negb _); [|exact F3].
  match goal with |- context [send_control_packet ?x ?h] =>
    pose proof (send_control_packet_sr x h) as F4; destruct (send_control_packet x h) end;
    cbn [stR] in F4.
  - eapply sr_trans; [exact F3|]. eapply sr_trans; [|exact F4]. sr_leaf.
  - eapply sr_trans; [exact F3|]. eapply sr_trans; [|exact F4]. sr_leaf.
  - eapply sr_trans; [exact F3|]. sr_leaf.
Qed.

Lemma poll_tail_sr : forall (s : vsock), sr s (poll_tail s).
Proof.
  intros s. unfold poll_tail.
  match goal with |- context [next_timer_to_poll ?x] => set (s1 := x) end.
  assert (F1 : sr s s1).
  { subst s1. destruct (is_local_fin_or_later _); [sr_leaf | apply sr_refl]. }
  clearbody s1. eapply sr_trans; [exact F1|].
  unfold next_timer_to_poll. destruct (v_transport_pending s1).
  - destruct (v_t_inactivity s1) as [i|]; [|apply sr_refl].
    unfold arm_in, add_wakes. destruct (_ <=? 0); sr_leaf.
  - match goal with |- context [match ?o with Some _ => _ | None => _ end] => destruct o as [i|] end.
    + unfold arm_in, add_wakes. destruct (_ <=? 0); sr_leaf.
    + sr_leaf.
Qed.

(* ------------------------------------------------------------------ every poll keeps J *)
Definition RJ (s s' : vsock) : Prop := J s -> J s'.

Lemma stR_RJ : forall (R0 : vsock -> vsock -> Prop),
  (forall a b, R0 a b -> J a -> J b) ->
  forall A (s : vsock) (m : step A), (J s -> stR R0 s m) -> stR RJ s m.
Proof.
  intros R0 HR A s m H. unfold RJ. destruct m; cbn [stR] in *; auto; intro HJ; eapply HR; eauto.
Qed.

Lemma J_splitQ : forall e s s', splitQ e s s' -> J s -> J s'.
Proof.
  intros e s s' (A1 & _ & _ & A4 & _ & _ & A7) (_ & B2). split; [exact A1|]. unfold outC, tb in *.
  rewrite A4, A7. exact B2.
Qed.

Theorem poll_J : forall (s s' : vsock) r, poll cci s = (s', r) -> J (poll_init s) -> J s'.
Proof.
  intros s s' r H.
  apply (poll_R cci RJ (fun s H => H) (fun a b c F G H => G (F H))) with (r := r); try exact H.
  - intros s0. exact (J_sr _ _ (poll_start_sr s0)).
  - intros s0. apply (stR_RJ sr J_sr). intros _. apply maybe_send_syn_ack_sr.
  - intros s0. apply (stR_RJ sr J_sr). intros _. apply send_ack_sr.
  - intros s0. apply (stR_RJ ir J_ir). intros _. apply process_all_incoming_messages_ir.
  - intros s0 rx1 fb w _. exact (J_sr _ _ (rx_flush_sr s0 rx1 (rx_wakes w))).
  - intros s0. apply (stR_RJ (splitQ (ss_offset (v_segs s0))) (J_splitQ _)). intros [HJ _].
    destruct (J0_X_start s0 HJ) as (X1 & X2 & _). apply split_c14; assumption.
  - intros s0. apply (stR_RJ gr J_gr). intros [(_ & HJ & _) _]. apply send_tx_queue_gr. exact HJ.
  - intros s0. exact (J_sr _ _ (transition_to_fin_wait_1_sr s0)).
  - intros s0. apply (stR_RJ sr J_sr). intros _. apply maybe_send_fin_sr.
  - intros s0. apply (stR_RJ sr J_sr). intros _. apply maybe_send_ack_sr.
  - intros s0 e. exact (J_sr _ _ (just_before_death_sr s0 e)).
  - intros s0. exact (J_sr _ _ (poll_tail_sr s0)).
Qed.

(* ------------------------------------------------------------------ Pending polls: a staged invariant *)
Section PollPendingInv.
Variables (P Bc : vsock -> Prop).
Hypothesis H_start : forall s, P s -> P (poll_start s).
Hypothesis H_syn_ack : forall s, P s -> stU P (maybe_send_syn_ack s).
Hypothesis H_send_ack : forall s, P s -> stU P (send_ack s).
Hypothesis H_pim : forall s, P s ->
  stU (fun s' => P s' /\ (v_transport_pending s' = false -> Bc s')) (process_all_incoming_messages cci s).
Hypothesis H_flush : forall s rx1 w, P s -> P (add_wakes (set_rx s rx1) w).
Hypothesis H_flush_B : forall s rx1 w, Bc s -> Bc (add_wakes (set_rx s rx1) w).
Hypothesis H_split : forall s, P s -> Bc s -> stU P (split_tx_queue_into_segments cci s).
Hypothesis H_stq : forall s, P s -> stU P (send_tx_queue cci s).
Hypothesis H_fw1 : forall s, P s -> P (transition_to_fin_wait_1 s).
Hypothesis H_fin : forall s, P s -> stU P (maybe_send_fin s).
Hypothesis H_msa : forall s, P s -> stU P (maybe_send_ack s).
Hypothesis H_tail : forall s, P s -> P (poll_tail s).

Definition brP (r : body_res (CC := CC)) : Prop :=
  match r with BrReturn s' PollPending => P s' | BrRestart s' => P s' | _ => True end.

Lemma bail_P : forall X (Q : vsock -> Prop) (m : step X) k,
  stU Q m -> (forall s1, Q s1 -> P s1) -> (forall s1 a, Q s1 -> brP (k s1 a)) -> brP (bail m k).
Proof.
  intros X Q m k Hm HQ Hk. unfold bail. destruct m as [s1 a|s1 e|]; cbn [stU] in *.
  - destruct (v_restart s1); [cbn [brP]; auto|auto].
  - unfold die. exact I.
  - exact I.
Qed.

Lemma pend_P : forall X (Q : vsock -> Prop) (m : step X) k,
  stU Q m -> (forall s1, Q s1 -> P s1) ->
  (forall s1 a, Q s1 -> v_transport_pending s1 = false -> brP (k s1 a)) -> brP (pend m k).
Proof.
  intros X Q m k Hm HQ Hk. unfold pend. apply (bail_P _ Q); auto.
  intros s1 a Q1. destruct (v_transport_pending s1) eqn:T; [cbn [brP]; auto|].
  destruct (v_restart s1); [cbn [brP]; auto|]. apply Hk; auto.
Qed.

Theorem poll_body_P : forall s0, P s0 -> brP (poll_body cci s0).
Proof.
  intros s0 HP. apply H_start in HP. unfold poll_body. fold (poll_start s0).
  generalize dependent (poll_start s0). clear s0. intros s0 HP.
  apply (pend_P _ P); [apply H_syn_ack; exact HP|auto|]. intros s1 _ HP1 _.
  apply (pend_P _ P);
    [destruct (immediate_ack_to_transmit s1); [apply H_send_ack; exact HP1|exact HP1]|auto|].
  intros s2 _ HP2 _.
  apply (pend_P _ (fun s' => P s' /\ (v_transport_pending s' = false -> Bc s')));
    [apply H_pim; exact HP2|tauto|].
  intros s3 _ [HP3 HB3] T3. specialize (HB3 T3).
  destruct (rx_flush (v_rx s3)) as [[rx1 fr] w] eqn:Efl. destruct fr as [fb|]; [|exact I].
  pose proof (H_flush s3 rx1 (rx_wakes w) HP3) as HP4.
  pose proof (H_flush_B s3 rx1 (rx_wakes w) HB3) as HB4.
  set (s4 := add_wakes (set_rx s3 rx1) (rx_wakes w)) in *. clearbody s4.
  destruct (timer_expired _ _); [unfold die; exact I|].
  apply (bail_P _ P); [apply H_split; assumption|auto|]. intros s5 _ HP5.
  apply (pend_P _ P); [apply H_stq; exact HP5|auto|]. intros s6 _ HP6 _.
  assert (HP7 : P (if should_close_on_own_initiative s6 then transition_to_fin_wait_1 s6 else s6)).
  { destruct (should_close_on_own_initiative s6); [apply H_fw1|]; exact HP6. }
  set (s7 := if should_close_on_own_initiative s6 then transition_to_fin_wait_1 s6 else s6) in *.
  clearbody s7.
  apply (pend_P _ P); [apply H_fin; exact HP7|auto|]. intros s8 _ HP8 _.
  apply (pend_P _ P); [apply H_msa; exact HP8|auto|]. intros s9 _ HP9 _.
  destruct (state_is_closed _ _); [exact I|].
  pose proof (H_tail s9 HP9) as Ft. unfold poll_tail in Ft.
  destruct (next_timer_to_poll _) as [sx t]. destruct t; exact Ft.
Qed.

Theorem poll_loop_P : forall fuel s s',
  P s -> poll_loop cci fuel s = (s', PollPending) -> P s'.
Proof.
  induction fuel as [|fuel IH]; intros s s' HP H; cbn [poll_loop] in H; [discriminate|].
  pose proof (poll_body_P s HP) as Fb.
  destruct (poll_body cci s) as [s1 r1|s1|]; cbn [brP] in *.
  - inversion H; subst. exact Fb.
  - eapply IH; [exact Fb | exact H].
  - discriminate.
Qed.

Theorem poll_P : forall s s', P (poll_init s) -> poll cci s = (s', PollPending) -> P s'.
Proof. intros s s' HP H. rewrite poll_unfold in H. eapply poll_loop_P; [exact HP | exact H]. Qed.

End PollPendingInv.

Lemma stU_of_stR : forall (R0 : vsock -> vsock -> Prop) (Q Q' : vsock -> Prop),
  forall A (s : vsock) (m : step A), (forall b, R0 s b -> Q s -> Q' b) -> Q s -> stR R0 s m -> stU Q' m.
Proof. intros R0 Q Q' A s m HR HQ H. destruct m; cbn [stR stU] in *; auto. Qed.

Definition Bc (s : vsock) : Prop := v_inbox s = [] \/ is_remote_fin_or_later (v_state s) = true.

Theorem poll_St : forall e (s s' : vsock),
  St e (poll_init s) -> poll cci s = (s', PollPending) -> St e s'.
Proof.
  intros e s s'. apply (poll_P (St e) Bc).
  - intros s0. exact (St_sr e _ _ (poll_start_sr s0)).
  - intros s0 H0. eapply (stU_of_stR sr); [intros b Hb; apply St_sr; exact Hb|exact H0|apply maybe_send_syn_ack_sr].
  - intros s0 H0. eapply (stU_of_stR sr); [intros b Hb; apply St_sr; exact Hb|exact H0|apply send_ack_sr].
  - intros s0 H0. pose proof (process_all_incoming_messages_ir s0) as Hi.
    destruct (process_all_incoming_messages cci s0) as [s3 u|s3 e3|] eqn:E3; cbn [stR stU] in *; auto.
    split; [eapply St_ir; eauto|]. intro T3.
    destruct (process_all_D cci _ _ _ E3) as [D|[D|D]]; [left; exact D| |congruence].
    right. destruct (v_state s3); cbn [state_is_closed is_remote_fin_or_later] in *; congruence.
  - intros s0 rx1 w. exact (St_sr e _ _ (rx_flush_sr s0 rx1 w)).
  - intros s0 rx1 w H0. exact H0.
  - intros s0 [HJ (X1 & X2 & X3)] HB. pose proof (split_c14 e s0 HJ X1 X2) as Hs.
    destruct (split_tx_queue_into_segments cci s0) as [s5 u|s5 e5|]; cbn [stR stU] in *; auto.
    destruct Hs as (A1 & A2 & A3 & A4 & A5 & A6 & _). split; [exact A1|]. unfold X. rewrite A5.
    split; [exact A2|]. split; [exact A3|].
    destruct HB as [HB|HB]; [left; exact HB|]. rewrite (A6 HB). exact X3.
  - intros s0 H0. eapply (stU_of_stR gr); [intros b Hb; apply St_gr; exact Hb|exact H0|].
    apply send_tx_queue_gr. apply H0.
  - intros s0. exact (St_sr e _ _ (transition_to_fin_wait_1_sr s0)).
  - intros s0 H0. eapply (stU_of_stR sr); [intros b Hb; apply St_sr; exact Hb|exact H0|apply maybe_send_fin_sr].
  - intros s0 H0. eapply (stU_of_stR sr); [intros b Hb; apply St_sr; exact Hb|exact H0|apply maybe_send_ack_sr].
  - intros s0. exact (St_sr e _ _ (poll_tail_sr s0)).
Qed.

End Bounds.

(* ================================================================== the configuration's bounds *)
Definition cC (c : vconfig) : Z := ceiling_of (ss_config_of c).
Definition cF (c : vconfig) : Z := floor_of (ss_config_of c).

Lemma cF_pos : forall c, 1 <= cF c.
Proof. intro c. unfold cF, floor_of, ceiling_of, default_min_mtu, ip_header, IPV4_HEADER, IPV6_HEADER, UDP_HEADER, UTP_HEADER.
  destruct (cfg_ipv4 (ss_config_of c)); lia. Qed.

Lemma cC_nonneg : forall c, 0 <= cC c.
Proof. intro c. unfold cC, ceiling_of. lia. Qed.

Lemma cF_le_cC : forall c, cF c <= cC c.
Proof. intro c. unfold cF, cC, floor_of. lia. Qed.

Definition cT (c : vconfig) : Z := cC c + UTP_HEADER.

(* the invariant of every reachable state *)
Definition c14_inv (c : vconfig) (s : vsock) : Prop :=
  J0 (cC c) (cF c) s /\ o_tmp_buf_len (v_opts s) = cT c.

Lemma c14_inv_vsock_new : forall mk c s, vsock_new cci mk c = Some s -> c14_inv c s.
Proof.
  intros mk c s H. unfold vsock_new in H.
  destruct (match (if vc_incoming c then None else _) with Some r => _ | None => _ end); [|discriminate].
  inversion H; subst. unfold c14_inv, J0, sb, cT.
  cbn [v_ss v_segs segments_new ss_segs ss_offset v_opts o_tmp_buf_len].
  destruct (new_shape (ss_config_of c)) as (E1 & E2 & _). unfold ss_config_of in E1, E2.
  rewrite E1, E2. fold (ss_config_of c). fold (cF c). fold (cC c). pose proof (cF_le_cC c).
  split; [|unfold UTP_HEADER, cC; f_equal; exact (proj1 (proj2 (new_shape (ss_config_of c))))].
  split; [lia|]. split; [constructor|]. split; exact I.
Qed.

Lemma vstep_nonpoll_c14 : forall (s : vsock) o,
  match o with VoPoll _ => True | _ =>
    v_ss (vstep_state cci s o) = v_ss s /\ v_segs (vstep_state cci s o) = v_segs s
  end.
Proof.
  intros s o. unfold vstep_state. destruct o.
  - cbn [vstep fst]; split; exact eq_refl.
  - cbn [vstep fst]; split; exact eq_refl.
  - exact I.
  - cbn [vstep]. destruct (v_inbox_closed s); cbn [fst]; split; exact eq_refl.
  - cbn [vstep fst]; split; exact eq_refl.
  - cbn [vstep]. destruct (writer_dropped _); [|destruct (poll_write _ _) as [[tx1 r] w]];
      cbn [fst]; split; exact eq_refl.
  - cbn [vstep]. destruct (writer_dropped _); [|destruct (poll_flush _) as [[tx1 r] w]];
      cbn [fst]; split; exact eq_refl.
  - cbn [vstep]. destruct (writer_dropped _); [|destruct (poll_shutdown _) as [[tx1 r] w]];
      cbn [fst]; split; exact eq_refl.
  - cbn [vstep]. destruct (reader_dropped _); [|destruct (rx_read _ _) as [[rx1 r] w]];
      cbn [fst]; split; exact eq_refl.
  - cbn [vstep]. destruct (reader_dropped _); [|destruct (rx_drop_reader _) as [rx1 w]];
      cbn [fst]; split; exact eq_refl.
  - cbn [vstep]. destruct (drop_writer _) as [tx1 w]; cbn [fst]; split; exact eq_refl.
Qed.

Lemma J_poll_init : forall c (s : vsock) sc,
  c14_inv c s -> J (cC c) (cF c) (cT c) (poll_init (VSockRec.set_sends s sc)).
Proof. intros c s sc [H _]. split; [exact H|]. intros _. constructor. Qed.

(* what a poll leaves: the invariant, and the datagrams it emitted are bounded *)
Lemma poll_c14 : forall c (s : vsock) sc s' r,
  c14_inv c s -> poll cci (VSockRec.set_sends s sc) = (s', r) ->
  c14_inv c s' /\ Forall (pktC (cC c) (cT c)) (v_out s').
Proof.
  intros c s sc s' r H E.
  pose proof (poll_J (cC c) (cF c) (cT c) (cF_pos c) (cC_nonneg c) _ _ _ E (J_poll_init c s sc H)) as [HJ HO].
  destruct (poll_pframe0 cci _ _ _ E) as (P1 & _).
  assert (Hb : o_tmp_buf_len (v_opts s') = cT c) by (rewrite P1; exact (proj2 H)).
  split; [split; assumption|]. apply HO. exact Hb.
Qed.

Theorem c14_inv_vstep : forall c (s : vsock) o, c14_inv c s -> c14_inv c (vstep_state cci s o).
Proof.
  intros c s o H. pose proof (vstep_nonpoll_c14 s o) as K. pose proof (vstep_nonpoll_keeps cci s o) as K'.
  destruct o; try (destruct K as [K1 K2]; destruct K' as (K3 & _); unfold c14_inv, J0 in *;
                   rewrite K1, K2, K3; exact H).
  destruct (poll cci (VSockRec.set_sends s script)) as [s' r] eqn:E.
  destruct (vstep_poll cci s script s' r E) as [V1 _]. rewrite V1.
  exact (proj1 (poll_c14 c s script s' r H E)).
Qed.

(* only a poll has a poll result *)
Lemma nonpoll_result : forall (s : vsock) o,
  match o with VoPoll _ => True | _ =>
    forall r p w a, fs_result (fstep_of cci s o) <> FrPoll r p w a end.
Proof.
  intros s o. destruct o; try exact I; intros r0 p0 w0 a0; unfold fstep_of; cbn [vstep];
    repeat break_match; cbn [fs_result fresult_of]; try discriminate.
  destruct r1; discriminate.
Qed.

(* ================================================================== c14_datagram_ok *)
Theorem c14_datagram_ok_step : forall c (s : vsock) o,
  c14_inv c s -> c14_datagram_ok c (fstep_of cci s o) = true.
Proof.
  intros c s o H. pose proof (nonpoll_result s o) as N.
  destruct o; try (unfold c14_datagram_ok;
                   match goal with |- match ?x with _ => _ end = true => destruct x eqn:E end;
                   try reflexivity; exfalso; first [exact (N _ _ _ _ E) | exact (N _ _ _ _ eq_refl)]).
  destruct (poll cci (VSockRec.set_sends s script)) as [s' r] eqn:E.
  rewrite (fstep_of_poll cci s script s' r E). unfold c14_datagram_ok. cbn [fs_result].
  destruct (poll_c14 c s script s' r H E) as [_ HO].
  apply forallb_forall. intros p Hp. apply in_map_iff in Hp. destruct Hp as (q & <- & Hq).
  apply in_rev in Hq. rewrite Forall_forall in HO. destruct (HO q Hq) as [HO1 _].
  apply Z.leb_le. exact HO1.
Qed.

(* ================================================================== c14_wire_ok: the extension counted *)
Theorem c14_wire_ok_step : forall c (s : vsock) o,
  c14_inv c s -> c14_wire_ok c (fstep_of cci s o) = true.
Proof.
  intros c s o H. pose proof (nonpoll_result s o) as N.
  destruct o; try (unfold c14_wire_ok;
                   match goal with |- match ?x with _ => _ end = true => destruct x eqn:E end;
                   try reflexivity; exfalso; first [exact (N _ _ _ _ E) | exact (N _ _ _ _ eq_refl)]).
  destruct (poll cci (VSockRec.set_sends s script)) as [s' r] eqn:E.
  rewrite (fstep_of_poll cci s script s' r E). unfold c14_wire_ok. cbn [fs_result].
  destruct (poll_c14 c s script s' r H E) as [_ HO].
  apply forallb_forall. intros p Hp. apply in_map_iff in Hp. destruct Hp as (q & <- & Hq).
  apply in_rev in Hq. rewrite Forall_forall in HO. destruct (HO q Hq) as [HO1 HO2].
  unfold fq_wire_len, fpacket_of. cbn [fq_hdr fq_plen]. fold (cC c).
  unfold cT, UTP_HEADER, SACK_EXT_LEN in *.
  destruct (ch_sack (p_hdr q)) as [k|].
  - destruct HO2 as [HO2|[HO2 HO3]]; [discriminate|]. rewrite HO2. cbn [length Z.of_nat].
    apply andb_true_intro. split; [apply Z.leb_le; lia|reflexivity].
  - rewrite andb_true_r. apply Z.leb_le. lia.
Qed.

Theorem c14_wire_ok_trace : forall mk c (s0 : vsock) ops,
  vsock_new cci mk c = Some s0 -> forallb (c14_wire_ok c) (ftrace cci s0 ops) = true.
Proof.
  intros mk c s0 ops H0. apply (ftrace_forallb cci (c14_inv c)).
  - intros s o Hi. apply c14_wire_ok_step; exact Hi.
  - intros s o Hi. apply c14_inv_vstep; exact Hi.
  - eapply c14_inv_vsock_new; exact H0.
Qed.

Theorem c14_datagram_ok_trace : forall mk c (s0 : vsock) ops,
  vsock_new cci mk c = Some s0 -> forallb (c14_datagram_ok c) (ftrace cci s0 ops) = true.
Proof.
  intros mk c s0 ops H0. apply (ftrace_forallb cci (c14_inv c)).
  - intros s o Hi. apply c14_datagram_ok_step; exact Hi.
  - intros s o Hi. apply c14_inv_vstep; exact Hi.
  - eapply c14_inv_vsock_new; exact H0.
Qed.

(* ================================================================== c14_segments_ok *)
Lemma tok_table_ok : forall l, tok l -> c14_table_ok (map fseg_of l) = true.
Proof.
  induction l as [|g r IH]; intro H; [reflexivity|]. destruct H as [H1 H2].
  cbn [map c14_table_ok]. rewrite (IH H2), andb_true_r.
  unfold fseg_of at 1 2. cbn [fg_delivered fg_probe].
  destruct (sg_delivered g); [reflexivity|]. destruct (sg_probe g); [|reflexivity].
  cbn [negb andb]. rewrite (H1 eq_refl eq_refl). reflexivity.
Qed.

Lemma new_segments_ok : forall e m l, NP e m l -> PP e m l ->
  forallb (c14_new_segment_ok e m) (map fseg_of l) = true.
Proof.
  intros e m. induction l as [|g r IH]; intros Hn Hp; [reflexivity|].
  inversion Hn as [|? ? Hn1 Hn2]; inversion Hp as [|? ? Hp1 Hp2]; subst.
  cbn [map forallb]. rewrite (IH Hn2 Hp2), andb_true_r.
  unfold c14_new_segment_ok, fseg_of. cbn [fg_abs fg_probe fg_size].
  destruct (Z.leb_spec e (sg_abs g)) as [Hle|Hgt]; [|reflexivity].
  destruct (sg_probe g) eqn:Pb.
  - specialize (Hp1 Hle eq_refl). destruct (Z.ltb_spec m (sg_size g)); [reflexivity|lia].
  - specialize (Hn1 Hle eq_refl). destruct (Z.ltb_spec m (sg_size g)); [lia|reflexivity].
Qed.

Theorem c14_segments_ok_step : forall c (s : vsock) o,
  c14_inv c s -> c14_segments_ok c (fstep_of cci s o) = true.
Proof.
  intros c s o H. pose proof (nonpoll_result s o) as N.
  destruct o; try (unfold c14_segments_ok;
                   match goal with |- match ?x with _ => _ end = true => destruct x eqn:E end;
                   try reflexivity; exfalso; first [exact (N _ _ _ _ E) | exact (N _ _ _ _ eq_refl)]).
  destruct (poll cci (VSockRec.set_sends s script)) as [s' r] eqn:E.
  rewrite (fstep_of_poll cci s script s' r E). unfold c14_segments_ok. cbn [fs_result fs_post fs_pre].
  destruct r; try reflexivity.
  destruct H as [H Hb].
  assert (HS : St (cC c) (cF c) (ss_offset (v_segs s)) (poll_init (VSockRec.set_sends s script))).
  { split; [exact H|]. exact (J0_X_start (cC c) (cF c) s H). }
  pose proof (poll_St (cC c) (cF c) (cT c) (cF_pos c) (cC_nonneg c) _ _ _ HS E) as ((S1 & S2 & S3 & S4) & S5 & S6 & _).
  cbn [fp_of_vsock f_segs f_seg_offset f_mss f_max_ss]. unfold mss.
  destruct S1 as [[B1 B2] B3]. fold (cC c) (cF c).
  repeat (apply andb_true_intro; split).
  - apply tok_table_ok; exact S3.
  - apply new_segments_ok; assumption.
  - apply Z.leb_le; exact B1.
  - apply Z.leb_le; exact B2.
  - apply Z.leb_le; exact B3.
Qed.

Theorem c14_segments_ok_trace : forall mk c (s0 : vsock) ops,
  vsock_new cci mk c = Some s0 -> forallb (c14_segments_ok c) (ftrace cci s0 ops) = true.
Proof.
  intros mk c s0 ops H0. apply (ftrace_forallb cci (c14_inv c)).
  - intros s o Hi. apply c14_segments_ok_step; exact Hi.
  - intros s o Hi. apply c14_inv_vstep; exact Hi.
  - eapply c14_inv_vsock_new; exact H0.
Qed.

(* the invariant is kept by every event and makes both predicates true *)
Theorem c14_step : forall c (s : vsock) o,
  c14_inv c s ->
  c14_inv c (vstep_state cci s o) /\
  c14_datagram_ok c (fstep_of cci s o) = true /\ c14_segments_ok c (fstep_of cci s o) = true /\
  c14_wire_ok c (fstep_of cci s o) = true.
Proof.
  intros c s o H. split; [apply c14_inv_vstep; exact H|].
  split; [apply c14_datagram_ok_step|split; [apply c14_segments_ok_step|apply c14_wire_ok_step]]; exact H.
Qed.

End WithCC.

(* ------------------------------------------------------------------ the clauses are exercised by
   reachable steps (link MTU 1500, path limit 1000): the first poll cuts a 991-byte probe, the
   transport answers EMSGSIZE, the probe is popped (max_ss 1452 -> 990), the poll restarts and cuts
   and sends a 760-byte probe; after the acknowledgements the proven size is 760 and ordinary
   segments of 760 bytes are cut, followed by the next probe *)
Definition c14_ops : list vop :=
  [VoSetLimit (Some 1000); VoWrite (repeat 0 (Z.to_nat 5000)); VoPoll [];
   VoDeliver (wmsg ST_STATE 1 101 0); VoPoll []; VoDeliver (wmsg ST_STATE 1 104 0); VoPoll []].

Definition new_probe_cut (st : fstep) : bool :=
  match fs_result st with
  | FrPoll PollPending _ _ _ =>
      existsb (fun g => fg_probe g && (f_seg_offset (fs_pre st) <=? fg_abs g) && (f_mss (fs_post st) <? fg_size g))
              (f_segs (fs_post st))
  | _ => false
  end.

Definition new_ordinary_cut (st : fstep) : bool :=
  match fs_result st with
  | FrPoll PollPending _ _ _ =>
      existsb (fun g => negb (fg_probe g) && (f_seg_offset (fs_pre st) <=? fg_abs g)) (f_segs (fs_post st))
  | _ => false
  end.

Definition probe_failed_step (c : vconfig) (st : fstep) : bool :=
  (f_max_ss (fs_pre st) =? ceiling_of (ss_config_of c)) && (f_max_ss (fs_post st) <? ceiling_of (ss_config_of c)).

Definition big_datagram (c : vconfig) (st : fstep) : bool :=
  match fs_result st with
  | FrPoll _ pkts _ _ => existsb (fun p => floor_of (ss_config_of c) <? fq_plen p) pkts
  | _ => false
  end.

Lemma c14_nonvacuous :
  exists w cfg ops,
    vconfig_ok cfg = true /\ Forall op_msg_ok ops /\
    existsb new_probe_cut (wtrace w cfg ops) = true /\
    existsb new_ordinary_cut (wtrace w cfg ops) = true /\
    existsb (probe_failed_step cfg) (wtrace w cfg ops) = true /\
    existsb (big_datagram cfg) (wtrace w cfg ops) = true /\
    forallb (c14_datagram_ok cfg) (wtrace w cfg ops) = true /\
    forallb (c14_segments_ok cfg) (wtrace w cfg ops) = true /\
    forallb (c14_wire_ok cfg) (wtrace w cfg ops) = true.
Proof.
  exists 1048576, (wcfg 1048576), c14_ops.
  split; [vm_compute; reflexivity|].
  split; [repeat constructor|].
  repeat split; vm_compute; reflexivity.
Qed.

(* a datagram with the selective-ACK extension is emitted (out-of-order data from the peer) *)
Definition c14_sack_ops : list vop := [VoPoll []; VoDeliver (wmsg ST_DATA 3 100 100); VoPoll []].

Definition sack_datagram (st : fstep) : bool :=
  match fs_result st with
  | FrPoll _ pkts _ _ => existsb (fun p => match ch_sack (fq_hdr p) with Some _ => true | None => false end) pkts
  | _ => false
  end.

Lemma c14_wire_nonvacuous :
  exists w cfg ops,
    vconfig_ok cfg = true /\ Forall op_msg_ok ops /\
    existsb sack_datagram (wtrace w cfg ops) = true /\
    forallb (c14_wire_ok cfg) (wtrace w cfg ops) = true.
Proof.
  exists 1048576, (wcfg 1048576), c14_sack_ops.
  split; [vm_compute; reflexivity|].
  split; [repeat constructor; cbv [op_msg_ok msg_ok wmsg m_hdr ch_type m_payload]; vm_compute; discriminate|].
  split; vm_compute; reflexivity.
Qed.

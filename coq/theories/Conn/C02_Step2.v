(* C02, second batch: step-level and trace-level theorems about the predicates of Conn/C02_Pred.v
   that Conn/C02_Step.v left open (c02_no_silent_stall, ...), and about the predicates of
   Conn/C02_Pred2.v. *)
From Utp Require Import Base.Prelude Wire.SeqNr Wire.Header Rtt.Rtte Rtt.Rtte_Proofs Mtu.SegSizes
  Rx.Rx Tx.Ring Tx.Segments Tx.Segments_Proofs Tx.Segments_ProofsOut
  Conn.Recovery Conn.Msg Conn.VSockRec Conn.VSock Conn.VSockRun Conn.VObs Conn.C10_Pred Conn.C02_Pred
  Conn.C02_Pred2 Conn.VSock_LemmasTx Conn.VSock_Lemmas Conn.VSock_LemmasStep Conn.VSock_LemmasReach
  Conn.VSock_LemmasTimers Conn.VSock_LemmasPipe Conn.C02_Step
  Conn.C02_SegLemmas2 Conn.C02_Lemmas2 Conn.C02_Stall2 Conn.C02_Fin2.

Section WithCC.
Context {CC : Type} (cci : cc_iface CC).
Notation vsock := (vsock CC).

(* ================================================================== c02_rto_mode_armed *)
Lemma rm_fp : forall (s : vsock), rm s ->
  (if 0 <? f_rto_retx (fp_of_vsock cci s)
   then match f_t_retransmit (fp_of_vsock cci s) with Some _ => true | None => false end &&
        existsb (fun g => negb (fg_delivered g)) (f_segs (fp_of_vsock cci s))
   else true) = true.
Proof.
  intros s H. cbn [fp_of_vsock f_rto_retx f_t_retransmit f_segs].
  destruct (Z.ltb_spec 0 (v_rto_retransmissions s)) as [L|L]; [|reflexivity].
  destruct (H L) as [H1 H2]. destruct (v_t_retransmit s); [|congruence]. cbn [andb].
  rewrite <- H2. unfold und. generalize (ss_segs (v_segs s)).
  induction l as [|x xs IH]; [reflexivity|]. cbn [map existsb fseg_of fg_delivered]. rewrite IH. reflexivity.
Qed.

Theorem c02_rto_mode_armed_step : forall cfg (s : vsock) o,
  rm s -> c02_rto_mode_armed cfg (fstep_of cci s o) = true.
Proof.
  intros cfg s o Hrm. unfold c02_rto_mode_armed.
  rewrite fstep_of_result, fstep_of_post.
  destruct (poll_ready (fresult_of (vstep_out cci s o))) eqn:Er; [reflexivity|].
  apply rm_fp. apply rm_vstep_live; [exact Hrm|].
  destruct (vstep_out cci s o) as [|r pk w a| | |]; try reflexivity.
  destruct r; cbn [fresult_of poll_ready poll_finished] in *; congruence.
Qed.

Theorem c02_rto_mode_armed_trace : forall cfg mk c (s0 : vsock) ops,
  vsock_new cci mk c = Some s0 -> forallb (c02_rto_mode_armed cfg) (ftrace cci s0 ops) = true.
Proof.
  intros cfg mk c s0 ops H0.
  apply (ftrace_forallb_live cci rm).
  - intros s o Hp. apply c02_rto_mode_armed_step; exact Hp.
  - intros s o Hp Hl. apply rm_vstep_live; assumption.
  - eapply rm_vsock_new; exact H0.
Qed.

(* ================================================================== c02_no_silent_stall *)
(* the frame of the stages after send_tx_queue *)
Lemma sd_unchanged_skr : forall s s' : vsock, sd_unchanged s s' -> skr s s'.
Proof.
  intros s s' (Uf & _ & Usegs & Uls & Utr & _). destruct Uf as (_ & Ucc & Ulrw & Urec & _).
  apply skr_same; assumption.
Qed.

Lemma send_control_packet_skr : forall (s s' : vsock) h b,
  send_control_packet s h = SOk s' b -> skr s s'.
Proof.
  intros s s' h b H. pose proof (send_control_packet_spec s h) as P. rewrite H in P.
  destruct b; [|apply sd_unchanged_skr; exact P].
  destruct P as (Uf & _ & Usegs & Uls & Utr & _). destruct Uf as (_ & Ucc & Ulrw & Urec & _).
  apply skr_same; assumption.
Qed.

Lemma maybe_send_fin_skr : forall (s s' : vsock) b, maybe_send_fin s = SOk s' b -> skr s s'.
Proof.
  intros s s' b H. pose proof (maybe_send_fin_spec s) as P. rewrite H in P.
  destruct b; [|apply sd_unchanged_skr; exact P].
  destruct P as (sq & _ & _ & _ & _ & _ & _ & Pt & _). left. rewrite Pt. apply timer_arm_some.
Qed.

Lemma maybe_send_ack_skr : forall (s s' : vsock) b, maybe_send_ack s = SOk s' b -> skr s s'.
Proof.
  intros s s' b H. unfold maybe_send_ack, send_ack in H.
  destruct (immediate_ack_to_transmit s); [eapply send_control_packet_skr; exact H|].
  destruct (should_send_window_update s); [eapply send_control_packet_skr; exact H|].
  destruct (timer_expired _ _).
  - destruct (ack_to_transmit s); [eapply send_control_packet_skr; exact H|].
    injection H as <- _. apply skr_same; exact eq_refl.
  - destruct (0 <? v_cbu s); injection H as <- _; [apply skr_same; exact eq_refl | apply skr_refl].
Qed.

Lemma poll_tail_skr : forall s : vsock, skr s (poll_tail s).
Proof.
  intros s. unfold poll_tail, next_timer_to_poll, arm_in, add_wakes.
  repeat break_match; try (inversion Heqp; subst); apply skr_same; exact eq_refl.
Qed.

Lemma stm_stU : forall X (s : vsock) (m : step X), stR rmR s m -> rm s -> stU rm m.
Proof. intros X s m H K. destruct m; cbn [stR stU] in *; auto. Qed.

Lemma stmk_stU : forall X (s : vsock) (m : step X), stRk rmR s m -> rm s -> stU rm m.
Proof. intros X s m H K. destruct m; cbn [stRk stU] in *; auto. Qed.

(* a Pending poll with a writable transport ends in the timer tail of a state that satisfies the clause *)
Theorem poll_stall : forall (s s' : vsock),
  rm s -> poll cci s = (s', PollPending) -> v_transport_pending s' = false -> stall_ok cci s'.
Proof.
  intros s s' Hrm H Hnp.
  assert (HS : tail_shape (stall_ok cci) s').
  { apply (poll_S cci rm rm rm rm (stall_ok cci) (stall_ok cci)) with (s := s); try exact H.
    - intros a Ha. apply (sdr_rm _ _ (poll_start_sdr a) Ha).
    - intros a Ha. apply stU_stC. apply (stm_stU _ a); [apply sts_stm, maybe_send_syn_ack_sdr | exact Ha].
    - intros a Ha. apply stU_stC. apply (stm_stU _ a); [apply sts_stm, send_ack_sdr | exact Ha].
    - intros a Ha. apply stU_stC. apply (stmk_stU _ a); [apply process_all_incoming_messages_rm | exact Ha].
    - intros a rx1 fb w Ha _. apply (sdr_rm _ _ (rx_flush_sdr a rx1 (rx_wakes w)) Ha).
    - intros a Ha. apply (stm_stU _ a); [apply split_tx_queue_into_segments_rm | exact Ha].
    - (* send_tx_queue *)
      intros a Ha Ra.
      pose proof (send_tx_queue_rm cci a) as M.
      pose proof (send_tx_queue_stall cci a) as St.
      destruct (send_tx_queue cci a) as [b u| |]; cbn [stU stR] in *; auto.
      split; [intros _; exact (M Ha)|]. intros Rb Tb. eapply St; eauto.
    - intros a Ha. apply (skr_ok cci a); [|exact Ha].
      unfold transition_to_fin_wait_1. destruct (v_state a); first [apply skr_refl | apply skr_same; exact eq_refl].
    - intros a Ha. pose proof (maybe_send_fin_skr a) as K.
      destruct (maybe_send_fin a) as [b x| |]; cbn [stC]; auto.
      intros _. apply (skr_ok cci a); [eapply K; reflexivity | exact Ha].
    - intros a Ha. pose proof (maybe_send_ack_skr a) as K.
      destruct (maybe_send_ack a) as [b x| |]; cbn [stC]; auto.
      intros _. apply (skr_ok cci a); [eapply K; reflexivity | exact Ha].
    - intro a. apply no_restart_qb, maybe_send_syn_ack_qb.
    - intro a. apply no_restart_qb, send_ack_qb.
    - intros a Ra. pose proof (process_all_incoming_messages_pimr cci a) as P'.
      destruct (process_all_incoming_messages cci a); cbn [stU stR] in *; auto.
      destruct P' as (_ & _ & _ & _ & _ & P6 & _). congruence.
    - intro a. apply no_restart_qb, split_tx_queue_into_segments_qb.
    - apply transition_to_fin_wait_1_restart.
    - intro a. apply no_restart_qb, maybe_send_fin_qb.
    - intro a. apply no_restart_qb, maybe_send_ack_qb.
    - exact Hrm. }
  destruct HS as [HS|(sb & Hb & _ & _ & _ & ->)]; [congruence|].
  apply (skr_ok cci sb); [apply poll_tail_skr | exact Hb].
Qed.

(* ---- on the fingerprint ---- *)
Lemma never_sent_und_fseg : forall g, never_sent_und (fseg_of g) = seg_nsu g.
Proof.
  intros g. unfold never_sent_und, seg_nsu, fseg_of. cbn [fg_sent_kind fg_delivered].
  destruct (sg_sent g); reflexivity.
Qed.

Lemma find_map_fseg : forall l,
  find never_sent_und (map fseg_of l) = option_map fseg_of (find seg_nsu l).
Proof.
  induction l as [|x xs IH]; [reflexivity|]. cbn [map find]. rewrite never_sent_und_fseg.
  destruct (seg_nsu x); [reflexivity|exact IH].
Qed.

Lemma existsb_map_fseg : forall l, existsb never_sent_und (map fseg_of l) = existsb seg_nsu l.
Proof.
  induction l as [|x xs IH]; [reflexivity|]. cbn [map existsb]. rewrite never_sent_und_fseg, IH. reflexivity.
Qed.

Lemma strand_free_fp : forall s : vsock, strand_free (fp_of_vsock cci s) = strand_free_s s.
Proof.
  intros s. unfold strand_free, strand_free_s. cbn [fp_of_vsock f_last_sent_seq_nr f_snd_una f_segs].
  rewrite firstn_map, existsb_map_fseg. reflexivity.
Qed.

Lemma stall_ok_fp : forall cfg (st : fstep) (s' : vsock) sc pk w a,
  fs_event st = FePoll sc -> fs_result st = FrPoll PollPending pk w a ->
  fs_post st = fp_of_vsock cci s' ->
  (v_transport_pending s' = false -> stall_ok cci s') ->
  c02_no_silent_stall_g cfg st = true.
Proof.
  intros cfg st s' sc pk w a Ee Er Ep Hs. unfold c02_no_silent_stall_g.
  destruct (strand_free (fs_post st)) eqn:Esf; [|reflexivity].
  unfold c02_no_silent_stall. rewrite Ee, Er, Ep in *.
  rewrite strand_free_fp in Esf.
  match goal with |- (if ?c then _ else _) = true => destruct c eqn:G end; [|reflexivity].
  repeat (apply andb_true_iff in G; destruct G as [G ?]).
  rename H into Grec, H0 into Gout.
  cbn [fp_of_vsock f_transport_pending] in G. apply negb_true_iff in G.
  apply negb_true_iff in Gout. rewrite outstanding_split in Gout. apply orb_false_iff in Gout.
  destruct Gout as [Gout _]. rewrite data_outstanding_fp in Gout.
  assert (Hrec : is_recovering (v_recovery s') = false).
  { cbn [fp_of_vsock f_recovery] in Grec. unfold is_recovering. destruct (rv_phase (v_recovery s')); [reflexivity|reflexivity|discriminate]. }
  unfold first_unsent. cbn [fp_of_vsock f_segs].
  change (fun g : fseg => (fg_sent_kind g =? 0) && negb (fg_delivered g)) with never_sent_und.
  rewrite find_map_fseg.
  destruct (find seg_nsu (ss_segs (v_segs s'))) as [g|] eqn:Ef; cbn [option_map]; [|reflexivity].
  cbn [fp_of_vsock fseg_of fg_size f_last_remote_window f_cc_window f_t_retransmit].
  destruct (Z.leb_spec (sg_size g) (v_last_remote_window s')) as [L1|L1]; [|reflexivity].
  destruct (Z.leb_spec (sg_size g) (cc_window cci (v_cc s'))) as [L2|L2]; [|reflexivity].
  cbn [andb].
  pose proof (Hs G Gout Hrec g Ef L1 L2 Esf) as K.
  destruct (v_t_retransmit s'); [reflexivity|congruence].
Qed.

Theorem c02_no_silent_stall_g_step : forall cfg (s : vsock) o,
  rm s -> c02_no_silent_stall_g cfg (fstep_of cci s o) = true.
Proof.
  intros cfg s o Hrm.
  destruct o; try (unfold c02_no_silent_stall_g, c02_no_silent_stall; rewrite fstep_of_event;
                   destruct (strand_free _); reflexivity).
  destruct (poll cci (VSockRec.set_sends s script)) as [s' r] eqn:E.
  rewrite (fstep_of_poll cci s script s' r E).
  destruct r; try (unfold c02_no_silent_stall_g, c02_no_silent_stall; cbn [fs_event fs_result];
                   destruct (strand_free _); reflexivity).
  eapply stall_ok_fp; try reflexivity.
  intro Tp. eapply poll_stall; [|exact E|exact Tp]. exact Hrm.
Qed.

Theorem c02_no_silent_stall_g_trace : forall cfg mk c (s0 : vsock) ops,
  vsock_new cci mk c = Some s0 -> forallb (c02_no_silent_stall_g cfg) (ftrace cci s0 ops) = true.
Proof.
  intros cfg mk c s0 ops H0.
  apply (ftrace_forallb_live cci rm).
  - intros s o Hp. apply c02_no_silent_stall_g_step; exact Hp.
  - intros s o Hp Hl. apply rm_vstep_live; assumption.
  - eapply rm_vsock_new; exact H0.
Qed.

(* ================================================================== c02_rto_armed, FIN half *)
Lemma fin_guard_K0 : forall (s : vsock) sc,
  ti s -> fin_alloc_guard (fp_of_vsock cci s) = true -> K0 (VSockRec.set_sends s sc).
Proof.
  intros s sc T G. unfold fin_alloc_guard in G.
  apply andb_true_iff in G. destruct G as [G Gn]. apply andb_true_iff in G. destruct G as [Gl Go].
  cbn [fp_of_vsock f_state] in Gl.
  split; [exact T|]. split; [exact Gl|]. split.
  - intros fin Hf Hl. unfold fin_of in Hf.
    change (v_state (VSockRec.set_sends s sc)) with (v_state s) in Hf.
    change (v_last_sent_seq_nr (VSockRec.set_sends s sc)) with (v_last_sent_seq_nr s) in Hl.
    change (v_t_retransmit (VSockRec.set_sends s sc)) with (v_t_retransmit s).
    unfold fo_fp, fin_out in Go. cbn [fp_of_vsock f_state f_last_sent_seq_nr f_t_retransmit] in Go.
    rewrite Hf, Hl, Z.eqb_refl in Go. destruct (v_t_retransmit s); [discriminate|discriminate Go].
  - intros fin E. left.
    change (v_state (VSockRec.set_sends s sc)) with (v_state s) in E.
    change (v_segs (VSockRec.set_sends s sc)) with (v_segs s).
    unfold fn_fp in Gn. cbn [fp_of_vsock f_state f_snd_una f_segs] in Gn. rewrite E in Gn.
    apply Z.eqb_eq in Gn. rewrite map_length in Gn. exact Gn.
Qed.

Theorem c02_rto_armed_fin_g_step : forall cfg (s : vsock) o,
  ti s -> c02_rto_armed_fin_g cfg (fstep_of cci s o) = true.
Proof.
  intros cfg s o T. unfold c02_rto_armed_fin_g. rewrite fstep_of_pre.
  destruct (fin_alloc_guard (fp_of_vsock cci s)) eqn:G; [|reflexivity].
  destruct o; try (unfold c02_rto_armed; rewrite fstep_of_event; reflexivity).
  destruct (poll cci (VSockRec.set_sends s script)) as [s' r] eqn:E.
  rewrite (fstep_of_poll cci s script s' r E).
  destruct r; try reflexivity.
  unfold c02_rto_armed. cbn [fs_event fs_result fs_post].
  cbn [fp_of_vsock f_transport_pending].
  destruct (v_transport_pending s') eqn:Tp; [reflexivity|]. cbn [negb andb].
  destruct (poll_fin_armed cci _ _ (fin_guard_K0 s script T G) E Tp) as [T' F'].
  rewrite outstanding_split.
  destruct (data_outstanding (fp_of_vsock cci s')) eqn:Ed; cbn [orb].
  - apply ti_timer_fp; assumption.
  - destruct (fin_outstanding (fp_of_vsock cci s')) eqn:Ef; [|reflexivity].
    unfold fin_outstanding in Ef. cbn [fp_of_vsock f_state f_last_sent_seq_nr f_t_retransmit] in *.
    destruct (our_fin_if_unacked (v_state s')) as [fin|] eqn:Eo; [|discriminate].
    apply Z.eqb_eq in Ef. specialize (F' fin Eo Ef). destruct (v_t_retransmit s'); [reflexivity|congruence].
Qed.

Theorem c02_rto_armed_fin_g_trace : forall cfg mk c (s0 : vsock) ops,
  vsock_new cci mk c = Some s0 -> forallb (c02_rto_armed_fin_g cfg) (ftrace cci s0 ops) = true.
Proof.
  intros cfg mk c s0 ops H0.
  apply (ftrace_forallb cci ti).
  - intros s o Hp. apply c02_rto_armed_fin_g_step; exact Hp.
  - intros s o Hp. apply ti_vstep; exact Hp.
  - eapply ti_vsock_new; exact H0.
Qed.

End WithCC.

(* ------------------------------------------------------------------ the guards are met by reachable
   states (the theorems above are not vacuous) *)
From Utp Require Import Conn.VSock_Inv Conn.C10_Proofs Conn.C02_Proofs.

Definition s2_cfg : vconfig :=
  {| vc_incoming := false; vc_ipv4 := true; vc_link_mtu := 1500; vc_rx_buf := 1048576;
     vc_tx_init := 32768; vc_tx_max := 1048576; vc_nagle := false; vc_max_retx := 5;
     vc_inactivity := 10000000000; vc_wait_last_ack := true; vc_mtu_probe_max_retx := 1;
     vc_isn := 100; vc_remote_seq := 1; vc_remote_conn_id := 7; vc_remote_wnd := 1048576;
     vc_remote_ts := 5; vc_syn_sent := 0; vc_now0 := 1000000 |}.

(* write 528, poll (sent), three seconds later poll: the segment is resent, the counter is 1 *)
Definition rto_mode_ops : list vop :=
  [VoWrite (repeat 0 (Z.to_nat 528)); VoPoll []; VoSetNow 3000000000; VoPoll []].

Lemma rto_mode_armed_nonvacuous :
  exists w cfg ops,
    vconfig_ok cfg = true /\ Forall op_msg_ok ops /\
    existsb (fun st => (0 <? f_rto_retx (fs_post st)) && negb (poll_ready (fs_result st))) (wtrace w cfg ops) = true /\
    forallb (c02_rto_mode_armed cfg) (wtrace w cfg ops) = true.
Proof.
  exists 1056, s2_cfg, rto_mode_ops.
  split; [vm_compute; reflexivity|]. split; [repeat constructor|].
  split; vm_compute; reflexivity.
Qed.

(* every guard of c02_no_silent_stall but the window test, and no stranded segment: a segment cut
   but larger than the congestion window (constant window of 100 bytes) *)
Definition stall_guard_but_window (st : fstep) : bool :=
  match fs_event st, fs_result st with
  | FePoll _, FrPoll PollPending _ _ _ =>
      let f := fs_post st in
      negb (f_transport_pending f) && negb (is_remote_fin_or_later (f_state f)) &&
      match f_state f with SynReceived | SynAckSent _ | Closed => false | _ => true end &&
      negb (outstanding f) && match f_recovery f with Recovering _ => false | _ => true end &&
      match first_unsent (f_segs f) with Some _ => true | None => false end && strand_free f
  | _, _ => false
  end.

Lemma no_silent_stall_g_nonvacuous :
  exists w cfg ops,
    vconfig_ok cfg = true /\ Forall op_msg_ok ops /\
    existsb stall_guard_but_window (wtrace w cfg ops) = true /\
    forallb (c02_no_silent_stall cfg) (wtrace w cfg ops) = true.
Proof.
  exists 100, s2_cfg, [VoWrite (repeat 0 (Z.to_nat 528)); VoPoll []].
  split; [vm_compute; reflexivity|]. split; [repeat constructor|].
  split; vm_compute; reflexivity.
Qed.

(* FIN half: 528 bytes sent, both halves dropped (FIN 102 sent behind the data), RTO (data and FIN
   resent), the data acknowledged, RTO of the FIN alone: at every poll from the third on the guard
   holds before the poll and our FIN is outstanding after it *)
Definition fin_half_ops : list vop :=
  [VoWrite (repeat 0 (Z.to_nat 528)); VoPoll []; VoDropWriter; VoDropReader; VoPoll [];
   VoSetNow 300000000; VoPoll []; VoDeliver (wmsg ST_STATE 1 101 0); VoPoll [];
   VoSetNow 950000000; VoPoll []].

Lemma rto_armed_fin_g_nonvacuous :
  exists w cfg ops,
    vconfig_ok cfg = true /\ Forall op_msg_ok ops /\
    existsb (fun st => fin_alloc_guard (fs_pre st) && fin_out (fs_post st) &&
                       negb (f_transport_pending (fs_post st)) &&
                       match fs_result st with FrPoll PollPending _ _ _ => true | _ => false end)
            (wtrace w cfg ops) = true /\
    forallb (c02_rto_armed cfg) (wtrace w cfg ops) = true.
Proof.
  exists 1056, s2_cfg, fin_half_ops.
  split; [vm_compute; reflexivity|]. split; [repeat constructor|].
  split; vm_compute; reflexivity.
Qed.

(* the write half of c02_prompt: the guards are met and the poll after the write emits ST_DATA *)
Lemma prompt_write_g_nonvacuous :
  exists w cfg ops,
    vconfig_ok cfg = true /\ 1 <= vc_max_retx cfg /\
    match wtrace w cfg ops with
    | [st0; st1; st2] =>
        prompt_window cfg (c10_acc_next c10_acc0 st0) st0 st1 st2 && idle_seq_ok (fs_pre st1) &&
        no_imm_ack (fs_pre st1) && can_send_new (fs_now st1) 528 (fs_pre st1) && emits_data st2
    | _ => false
    end = true /\
    c02_prompt_write_g cfg (wtrace w cfg ops) = true.
Proof.
  exists 1056, s2_cfg, [VoPoll []; VoWrite (repeat 0 (Z.to_nat 528)); VoPoll []].
  split; [vm_compute; reflexivity|]. split; [vm_compute; discriminate|].
  split; vm_compute; reflexivity.
Qed.

(* c02_prompt is FALSE of the model for a configuration with max_segment_retransmissions = 0, which
   vconfig_ok admits (the Rust option is a NonZeroUsize: not reachable in the implementation): the first
   transmission of the first segment already reports ErrMaxRetransmissionsReached.  Hence the hypothesis
   1 <= vc_max_retx of c02_prompt_write_g_every_trace. *)
Definition retx0_cfg : vconfig :=
  {| vc_incoming := false; vc_ipv4 := true; vc_link_mtu := 1500; vc_rx_buf := 1048576;
     vc_tx_init := 32768; vc_tx_max := 1048576; vc_nagle := false; vc_max_retx := 0;
     vc_inactivity := 10000000000; vc_wait_last_ack := true; vc_mtu_probe_max_retx := 1;
     vc_isn := 100; vc_remote_seq := 1; vc_remote_conn_id := 7; vc_remote_wnd := 1048576;
     vc_remote_ts := 5; vc_syn_sent := 0; vc_now0 := 1000000 |}.

Lemma prompt_max_retx_zero_refuted :
  exists w cfg ops,
    vconfig_ok cfg = true /\ vc_max_retx cfg = 0 /\
    c02_prompt cfg (wtrace w cfg ops) = false /\
    match rev (wtrace w cfg ops) with
    | st :: _ => match fs_result st with
                 | FrPoll (PollReadyErr ErrMaxRetransmissionsReached) _ _ _ => True
                 | _ => False
                 end
    | [] => False
    end.
Proof.
  exists 1056, retx0_cfg, [VoPoll []; VoWrite (repeat 0 (Z.to_nat 528)); VoPoll []].
  split; [vm_compute; reflexivity|]. split; [reflexivity|]. split; [vm_compute; reflexivity|].
  vm_compute. exact I.
Qed.

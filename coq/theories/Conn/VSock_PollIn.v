(* The incoming path of one poll and the joint invariant: process_incoming_message, recv_loop,
   process_all_incoming_messages never panic, report only allowed errors, and keep the extended
   invariant vs_x (VSock_PollAux.v); the state of every error exit is described too.
   (calc_pipe, the one panic site the invariant could not exclude, is total since the repair of
   D21: its witness was found here.) *)
From Utp Require Import Base.Prelude Wire.SeqNr Wire.SeqNr_Proofs Wire.Header Rtt.Rtte Rtt.Rtte_Proofs
  Mtu.SegSizes Rx.Rx Rx.Rx_Proofs Tx.Ring Tx.Ring_Proofs Tx.Segments Tx.Segments_Proofs
  Conn.Recovery Conn.Msg Conn.VSockRec Conn.VSock Conn.VSockRun Conn.VObs Conn.C10_Pred
  Conn.VSock_LemmasTx Conn.VSock_LemmasIn Conn.C06_RecProofs Conn.VSock_Inv Conn.VSock_PollAux.

(* ------------------------------------------------------------------ Recovery::on_ack *)
Lemma count_non_sack_nonneg h d la c la' :
  0 <= d -> count_non_sack_duplicates h d la = (c, la') -> 0 <= c.
Proof.
  intro Hd. unfold count_non_sack_duplicates. destruct la as [[w a]|].
  - destruct (_ && _ && _); intro H; injection H as <- _; lia.
  - intro H; injection H as <- _; lia.
Qed.

Lemma count_sack_some h d : 0 <= d < SACK_DUP_THRESH -> exists c, count_sack_duplicates h d = Some c /\ 0 <= c.
Proof.
  unfold count_sack_duplicates, SACK_DUP_THRESH. intro Hd. destruct (ch_sack h) as [k|].
  - destruct (3 <=? count_ones (sk_bits k)); [exists 3; split; [reflexivity|lia]|].
    destruct (Z.leb_spec (d + 1) 255); [|lia]. exists (d + 1). split; [reflexivity|lia].
  - exists 0. split; [reflexivity|lia].
Qed.

Section PollIn.
Context {CC : Type} (cci : cc_iface CC).
Notation vsock := (vsock CC).
Notation step := (@step CC).
Variable strict : bool.
Hypothesis Hcc : cc_total cci.

Definition rv_with (r : recovery) (sup : bool) (la : option (Z * Z)) (ph : rphase) : recovery :=
  {| rv_supports_sack := sup; rv_last_ack := la; rv_phase := ph |}.

(* what recovery_on_ack guarantees about the table it returns *)
Definition roa_post (segs segs' : segments) (r' : recovery) : Prop :=
  dup_ok r' /\ seg_inv segs' /\ ss_removed segs' = ss_removed segs /\ ss_offset segs' = ss_offset segs /\
  Forall2 seg_ev (ss_segs segs) (ss_segs segs') /\ ss_snd_una segs' = ss_snd_una segs.

Lemma roa_post_same segs r' : seg_inv segs -> dup_ok r' -> roa_post segs segs r'.
Proof.
  intros H1 H2. unfold roa_post. split; [exact H2|]. split; [exact H1|]. split; [reflexivity|].
  split; [reflexivity|]. split; [apply ev_refl|reflexivity].
Qed.

Lemma recovery_on_ack_x r h segs ls cc now rtt :
  seg_inv segs -> dup_ok r ->
  exists r' segs' cc',
    recovery_on_ack cci r h segs ls cc now rtt = Some (r', segs', cc') /\ roa_post segs segs' r'.
Proof.
  intros Hinv Hdup. unfold recovery_on_ack. cbn [rv_phase rv_supports_sack rv_last_ack].
  unfold dup_ok in Hdup.
  destruct (rv_phase r) as [rp|d|rc] eqn:Eph.
  - destruct (seq_ge _ _); eexists _, _, _; (split; [reflexivity|]); apply roa_post_same; auto;
      unfold dup_ok; cbn [rv_phase]; rewrite ?Eph; unfold SACK_DUP_THRESH; auto; lia.
  - destruct (ss_segs segs) as [|g0 gs] eqn:Es.
    { eexists _, _, _; (split; [reflexivity|]); apply roa_post_same; auto.
      unfold dup_ok; cbn [rv_phase]. unfold SACK_DUP_THRESH. lia. }
    (* the tail shared by the two ways of counting *)
    assert (Htail : forall sup c la', 0 <= c ->
      exists r' segs' cc',
        (if c <? SACK_DUP_THRESH then
           Some ({| rv_supports_sack := sup; rv_last_ack := la'; rv_phase := CountingDuplicates c |}, segs, cc)
         else
           match calc_pipe segs (wsub16 (ss_snd_una segs) 1) ls rtt now with
           | None => None
           | Some (segs', pipe, recalc) =>
               Some ({| rv_supports_sack := sup; rv_last_ack := la';
                        rv_phase := Recovering {| rc_recovery_point := ls; rc_high_rxt := wsub16 (ss_snd_una segs) 1;
                                                  rc_total_retx := 0; rc_pipe := pipe; rc_recalc := recalc;
                                                  rc_cwnd := cc_sshthresh cci (cc_on_enter_recovery cci cc now) |} |},
                     segs', cc_on_enter_recovery cci cc now)
           end) = Some (r', segs', cc') /\ roa_post segs segs' r').
    { intros sup c la' Hc. destruct (Z.ltb_spec c SACK_DUP_THRESH) as [Hlt|Hge].
      - eexists _, _, _; (split; [reflexivity|]); apply roa_post_same; auto.
        unfold dup_ok; cbn [rv_phase]. lia.
      - destruct (calc_pipe_some segs (wsub16 (ss_snd_una segs) 1) ls rtt now) as (t' & pp & rc & E).
        rewrite E. eexists _, _, _; (split; [reflexivity|]).
        destruct (calc_pipe_ev _ _ _ _ _ _ _ _ E) as (V1 & V2 & V3 & V4).
        unfold roa_post. split; [unfold dup_ok; cbn [rv_phase]; exact I|].
        split; [eapply calc_pipe_inv; eauto|]. auto. }
    destruct (rv_supports_sack r || _).
    + destruct (count_sack_some h d Hdup) as (c & -> & Hc). apply Htail. exact Hc.
    + destruct (count_non_sack_duplicates h d (rv_last_ack r)) as [c la'] eqn:Ec.
      apply Htail. eapply count_non_sack_nonneg; [|exact Ec]. lia.
  - destruct (seq_ge _ _); eexists _, _, _; (split; [reflexivity|]); apply roa_post_same; auto;
      unfold dup_ok; cbn [rv_phase]; rewrite ?Eph; unfold SACK_DUP_THRESH; auto; lia.
Qed.

(* ------------------------------------------------------------------ frames of the incoming path *)
Definition in_rel (s s' : vsock) : Prop :=
  v_opts s' = v_opts s /\ v_state s' = v_state s /\ v_inbox s' = v_inbox s /\
  v_inbox_closed s' = v_inbox_closed s /\ v_emsg_limit s' = v_emsg_limit s /\ v_now s' = v_now s /\
  v_restart s' = v_restart s /\ v_last_sent_seq_nr s' = v_last_sent_seq_nr s /\
  v_env_now s' = v_env_now s /\ v_seq_nr s' = v_seq_nr s /\ ss_mono (v_ss s) (v_ss s') /\
  (emsg_free s -> emsg_free s').

Lemma in_rel_refl s : in_rel s s.
Proof. unfold in_rel, ss_mono. repeat (split; [first [reflexivity|lia]|]). auto. Qed.

Lemma in_rel_trans a b c : in_rel a b -> in_rel b c -> in_rel a c.
Proof.
  unfold in_rel. intros (A1&A2&A3&A4&A5&A6&A7&A8&A9&A10&A11&A12) (B1&B2&B3&B4&B5&B6&B7&B8&B9&B10&B11&B12).
  repeat (split; [congruence|]). split; [eapply ss_mono_trans; eauto|auto].
Qed.

Lemma ctl_in_rel s s' : ctl_rel s s' -> v_last_sent_seq_nr s' = v_last_sent_seq_nr s -> in_rel s s'.
Proof.
  intros (((C1&C2&C3&C4&C5&C6&C7&C8&C9&C10&C11&C12&C13&C14) & Hf & Hr) & Hq & He) Hl.
  unfold in_rel, ss_mono. rewrite C4. repeat (split; [first [assumption|lia]|]). exact Hf.
Qed.

(* a state that differs in fields the invariant does not read, or reads through rx / ss / tx flags *)
Lemma x_update ti tm p q (s s' : vsock) :
  vs_x ti tm p q s ->
  rx_inv (v_rx s') ->
  tx_inv ti tm (v_tx s') -> ring (v_tx s') = ring (v_tx s) -> g_removed (v_tx s') = g_removed (v_tx s) ->
  v_opts s' = v_opts s -> v_state s' = v_state s -> v_segs s' = v_segs s -> ss_ok (v_ss s') ->
  min_ss (v_ss s) <= min_ss (v_ss s') ->
  v_rtte s' = v_rtte s -> v_recovery s' = v_recovery s -> v_now s' = v_now s ->
  vs_x ti tm p q s'.
Proof.
  unfold vs_x, vs_inv_p, ring_rel, sx.
  intros ((I1 & I2 & I3 & I4 & (R0 & R1 & R2 & R3) & I6 & I7 & I8) & A1 & A2) Hrx Htx Hring Hgr Ho Hst Hsg Hss Hmin Hrt Hrc Hnow.
  rewrite Hring, Hgr, Ho, Hst, Hsg, Hrt, Hrc, Hnow.
  pose proof (aux_mono _ _ _ _ Hmin A1). tauto.
Qed.

(* ------------------------------------------------------------------ the ACK part *)
Lemma pim_ack_x ti tm p q (s1 : vsock) h :
  vs_x ti tm p q s1 ->
  exists s2 res, pim_ack cci s1 h = Some (s2, res) /\
    vs_x ti tm (p + ar_acked_bytes res) q s2 /\ acc_ok res /\ in_rel s1 s2.
Proof.
  intros [Hinv [Haux Hnow]].
  destruct (inv_parts _ _ _ _ Hinv) as (I1 & I2 & I3 & I4 & (R0 & R1 & R2 & R3) & I6 & I7 & I8).
  unfold pim_ack.
  destruct (remove_up_to_ack (v_segs s1) (v_now s1) (ch_ack h) (ch_sack h)) as [segs1 res] eqn:Er.
  destruct (remove_up_to_ack_inv _ _ _ _ _ _ I2 Er) as (J1 & B1 & B2 & O1 & L1 & C1).
  pose proof (remove_up_to_ack_zero _ _ _ _ _ _ Er) as Hz.
  pose proof (remove_up_to_ack_aux q _ _ _ _ _ _ _ Er Haux) as Haux1.
  (* the RTT sample *)
  assert (Hrt : exists rtte1,
            match is_recovering (v_recovery s1), ar_new_rtt res with
            | false, Some rtt => sample (v_rtte s1) rtt
            | _, _ => Some (v_rtte s1)
            end = Some rtte1 /\ no_ovf_inv rtte1).
  { destruct (is_recovering (v_recovery s1)); [eauto|].
    destruct (ar_new_rtt res) as [x|] eqn:Ex; [|eauto].
    destruct (karn_sample_source _ _ _ _ _ _ _ Er Ex) as (g & ts & Hin & Hs & ->).
    apply sample_no_overflow; [exact I7|].
    destruct Haux as (Ht & _). rewrite Forall_forall in Ht. specialize (Ht _ Hin).
    unfold seg_time_ok, seg_last_sent in Ht. rewrite Hs in Ht. unfold sat_sub. lia. }
  destruct Hrt as (rtte1 & -> & Hrt1).
  destruct (cc_on_ack cci _ (v_now s1) (ar_acked_bytes res) (roundtrip_time rtte1)) as [cc3|] eqn:Ecc;
    [|exfalso; eapply Hcc; exact Ecc].
  destruct (recovery_on_ack_x (v_recovery s1) h segs1 (v_last_sent_seq_nr s1) cc3 (v_now s1)
              (roundtrip_time rtte1) J1 I8) as (rec1 & segs2 & cc4 & -> & (D1 & J2 & Rm & Of & Ev & Un)).
  eexists _, _. split; [reflexivity|].
  destruct (delivered_ss_ok (v_ss s1) (ar_max_acked_payload res) I6) as (S1 & S2 & S3).
  pose proof (ev_length _ _ Ev) as Hlen.
  split.
  { split.
    - unfold vs_inv_p, ring_rel. vsimpl. rewrite Rm.
      assert (0 <= p + ar_acked_bytes res) by lia.
      assert (g_removed (v_tx s1) + (p + ar_acked_bytes res) <= ss_removed segs1) by lia.
      assert (v_state s1 <> Closed -> g_removed (v_tx s1) + (p + ar_acked_bytes res) = ss_removed segs1)
        by (intro Hc; specialize (R2 Hc); lia).
      assert (ss_offset segs2 <= g_removed (v_tx s1) + Z.of_nat (length (ring (v_tx s1)))) by lia.
      tauto.
    - unfold sx. vsimpl. split; [eapply aux_mono; [exact S3|]; eapply aux_ev; eauto|exact Hnow]. }
  split; [unfold acc_ok; auto|].
  unfold in_rel, emsg_free, ss_mono. vsimpl. repeat split; auto; try lia; try tauto.
Qed.

(* ------------------------------------------------------------------ ST_DATA *)
Lemma add_err_cases a :
  a <> ArErrBugInvalidMessage -> a <> ArErrBugMissingSlot ->
  add_err a = None \/ add_err a = Some ErrZeroPayloadStData.
Proof. destruct a; cbn [add_err]; auto; congruence. Qed.

Definition data_post ti tm p q (s2 : vsock) (res : on_ack_result) (s' : vsock) (r : on_ack_result) : Prop :=
  r = res /\ vs_x ti tm p q s' /\ in_rel s2 s' /\ v_segs s' = v_segs s2.

Lemma pim_data_x ti tm p q (s2 : vsock) m res offset :
  vs_x ti tm p q s2 ->
  spx strict (pim_data cci s2 m res offset) (data_post ti tm p q s2 res) (vs_xe ti tm q).
Proof.
  intros Hx. pose proof Hx as [Hinv _].
  destruct (inv_parts _ _ _ _ Hinv) as (I1 & I2 & I3 & I4 & I5 & I6 & I7 & I8).
  unfold pim_data. destruct (Z.ltb_spec offset 0) as [Hneg|Hoff].
  { cbn [spx]. unfold data_post, force_immediate_ack. split; [reflexivity|].
    split; [eapply x_update; [exact Hx|..]; vsimpl; auto; try lia|].
    split; [unfold in_rel, emsg_free, ss_mono; vsimpl; repeat split; auto; try lia; try tauto|reflexivity]. }
  cbv zeta.
  destruct (rx_add_remove _ KData (m_payload m) offset) as [[rx1 ar] w] eqn:Erx. vsimpl.
  assert (Hk : KData <> KOther) by discriminate.
  destruct (rx_add_remove_no_bug _ _ _ _ _ _ _ I1 Hoff Hk Erx) as (Hrx1 & a & -> & Na1 & Na2).
  destruct (delivered_ss_ok (v_ss s2) (Z.of_nat (length (m_payload m))) I6) as (S1 & S2 & S3).
  set (s4 := add_wakes _ _).
  assert (H4 : vs_x ti tm p q s4 /\ in_rel s2 s4 /\ v_segs s4 = v_segs s2).
  { unfold s4, add_wakes. split; [eapply x_update; [exact Hx|..]; vsimpl; auto; try lia|].
    split; [|reflexivity]. unfold in_rel, emsg_free, ss_mono; vsimpl. repeat split; auto; try lia; try tauto. }
  clearbody s4. destruct H4 as (Hx4 & Hr4 & Hs4).
  destruct (add_err_cases a Na1 Na2) as [-> | ->]; [|cbn [spx allowed]; split; [exact I|eapply x_xe; exact Hx4]].
  set (s5 := match a with ArConsumed _ _ => _ | _ => s4 end).
  assert (H5 : vs_x ti tm p q s5 /\ in_rel s2 s5 /\ v_segs s5 = v_segs s2).
  { unfold s5. destruct a; (split; [exact Hx4|split; [exact Hr4|exact Hs4]]). }
  clearbody s5. destruct H5 as (Hx5 & Hr5 & Hs5).
  destruct (_ || _); [|cbn [spx]; unfold data_post; auto].
  assert (Hf : vs_x ti tm p q (force_immediate_ack s5) /\ in_rel s5 (force_immediate_ack s5) /\
               v_segs (force_immediate_ack s5) = v_segs s5).
  { unfold force_immediate_ack.
    destruct (inv_parts _ _ _ _ (proj1 Hx5)) as (K1 & K2 & K3 & K4 & K5 & K6 & K7 & K8).
    split; [eapply x_update; [exact Hx5|..]; vsimpl; auto; try lia|].
    split; [|reflexivity]. unfold in_rel, emsg_free, ss_mono; vsimpl; repeat split; auto; try lia; try tauto. }
  destruct Hf as (Hxf & Hrf & Hsf).
  eapply spx_bind with (Q1 := fun s6 (_ : bool) =>
     ctl_rel (force_immediate_ack s5) s6 /\ v_last_sent_seq_nr s6 = v_last_sent_seq_nr (force_immediate_ack s5)).
  - eapply spx_weaken; [apply (send_ack_x strict)|auto|].
    intros s6 [[[Hcore _] _] _]. eapply x_xe, x_same_core; eauto.
  - intros s6 b [Hc Hl]. cbn [spx]. unfold data_post. split; [reflexivity|].
    pose proof Hc as [[Hcore _] _].
    split; [eapply x_same_core; eauto|].
    split; [eapply in_rel_trans; [exact Hr5|]; eapply in_rel_trans; [exact Hrf|]; apply ctl_in_rel; assumption|].
    destruct Hcore as (_ & _ & E3 & _). congruence.
Qed.

(* ------------------------------------------------------------------ ST_FIN *)
Lemma pim_fin_x ti tm p q (s2 : vsock) m res offset seen :
  vs_x ti tm p q s2 ->
  spx strict (pim_fin s2 m res offset seen) (data_post ti tm p q s2 res) (vs_xe ti tm q).
Proof.
  intros Hx. pose proof Hx as [Hinv _].
  destruct (inv_parts _ _ _ _ Hinv) as (I1 & I2 & I3 & I4 & I5 & I6 & I7 & I8).
  unfold pim_fin. cbv zeta.
  destruct (negb seen && (0 <=? offset)) eqn:Ec.
  2:{ cbn [spx]. unfold data_post. split; [reflexivity|]. split; [exact Hx|].
      split; [exact (in_rel_refl s2)|reflexivity]. }
  apply andb_true_iff in Ec. destruct Ec as [_ Hoff]. apply Z.leb_le in Hoff.
  destruct (rx_add_remove _ KFin (m_payload m) offset) as [[rx1 ar] w] eqn:Erx.
  unfold force_immediate_ack in Erx. vsimpl.
  assert (Hk : KFin <> KOther) by discriminate.
  destruct (rx_add_remove_no_bug _ _ _ _ _ _ _ I1 Hoff Hk Erx) as (Hrx1 & a & -> & Na1 & Na2).
  set (s5 := add_wakes _ _).
  assert (H5 : vs_x ti tm p q s5 /\ in_rel s2 s5 /\ v_segs s5 = v_segs s2).
  { unfold s5, add_wakes, force_immediate_ack.
    split; [eapply x_update; [exact Hx|..]; vsimpl; auto; try lia|].
    split; [exact (in_rel_refl s2)|reflexivity]. }
  destruct H5 as (Hx5 & Hr5 & Hs5).
  destruct (add_err_cases a Na1 Na2) as [-> | ->]; [|cbn [spx allowed]; split; [exact I|eapply x_xe; exact Hx5]].
  destruct (mark_vsock_closed (v_tx s5)) as [tx1 w2] eqn:Em.
  destruct (mark_closed_fields _ _ _ Em) as (M1 & M2 & M3).
  cbn [spx]. unfold data_post. split; [reflexivity|].
  destruct (inv_parts _ _ _ _ (proj1 Hx5)) as (K1 & K2 & K3 & K4 & K5 & K6 & K7 & K8).
  split; [unfold add_wakes; eapply x_update; [exact Hx5|..]; vsimpl; auto; try lia|].
  split; [exact Hr5|exact Hs5].
Qed.

(* ------------------------------------------------------------------ one message *)
Definition msg_rel (s s' : vsock) : Prop :=
  v_opts s' = v_opts s /\ v_inbox s' = v_inbox s /\ v_inbox_closed s' = v_inbox_closed s /\
  v_emsg_limit s' = v_emsg_limit s /\ v_now s' = v_now s /\ v_restart s' = v_restart s /\
  v_last_sent_seq_nr s' = v_last_sent_seq_nr s /\ v_env_now s' = v_env_now s /\
  ss_mono (v_ss s) (v_ss s') /\ (emsg_free s -> emsg_free s').

Lemma msg_rel_refl s : msg_rel s s.
Proof. unfold msg_rel, ss_mono. repeat (split; [first [reflexivity|lia]|]). auto. Qed.

Lemma tbl_msg_rel s s1 : tbl_rel s s1 -> msg_rel s s1.
Proof.
  intros (E1&E2&E3&E4&E5&E6&E7&E8&E9&E10&E11&E12&E13&E14&E15&E16&E17&E18&Hst&Hfc).
  unfold msg_rel, ss_mono, emsg_free. rewrite E4, E14, E10. repeat (split; [first [assumption|reflexivity|lia]|]).
  auto.
Qed.

Lemma in_msg_rel s s' : in_rel s s' -> msg_rel s s'.
Proof.
  intros (A1&A2&A3&A4&A5&A6&A7&A8&A9&A10&A11&A12).
  unfold msg_rel. repeat (split; [assumption|]). exact A12.
Qed.

Lemma msg_rel_trans a b c : msg_rel a b -> msg_rel b c -> msg_rel a c.
Proof.
  unfold msg_rel. intros (A1&A2&A3&A4&A5&A6&A7&A8&A9&A10) (B1&B2&B3&B4&B5&B6&B7&B8&B9&B10).
  repeat (split; [congruence|]). split; [eapply ss_mono_trans; eauto|auto].
Qed.

Definition pim_post ti tm p q (s s' : vsock) (r : on_ack_result) : Prop :=
  vs_x ti tm (p + ar_acked_bytes r) q s' /\ acc_ok r /\ msg_rel s s' /\
  v_state s' <> SynReceived.

Lemma process_incoming_message_x ti tm p q (s : vsock) m :
  vs_x ti tm p q s -> v_state s <> SynReceived ->
  spx strict (process_incoming_message cci s m) (pim_post ti tm p q s) (vs_xe ti tm q).
Proof.
  intros Hx Hst. rewrite process_incoming_message_eq.
  pose proof (state_table_rel s (m_hdr m)) as Ht.
  pose proof (state_table_no_bug s (m_hdr m) Hst) as Hnb.
  pose proof (state_table_err s (m_hdr m)) as Herr.
  destruct (state_table s (m_hdr m)) as [s1|s1 e|s1]; cbn [tbl_st] in Ht.
  - (* dropped *)
    cbn [spx]. unfold pim_post. cbn [on_ack_result_default ar_acked_bytes].
    replace (p + 0) with p by lia. split; [eapply x_tbl; eauto|].
    split; [apply acc_ok_default|]. split; [apply tbl_msg_rel; exact Ht|exact Hnb].
  - (* ST_RESET *)
    destruct (Herr s1 e Hst eq_refl) as [-> _]. cbn [spx allowed]. split; [exact I|].
    eapply x_xe, x_tbl; eauto.
  - (* the common part *)
    pose proof (x_tbl _ _ _ _ _ _ Hx Ht) as Hx1.
    unfold pim_cont.
    destruct (pim_ack_x ti tm p q s1 (m_hdr m) Hx1) as (s2 & res & -> & Hx2 & Hok & Hr2).
    assert (Hfin : forall s' r, data_post ti tm (p + ar_acked_bytes res) q s2 res s' r -> pim_post ti tm p q s s' r).
    { intros s' r (-> & A1 & A2 & A3). unfold pim_post. split; [exact A1|]. split; [exact Hok|].
      split; [eapply msg_rel_trans; [apply tbl_msg_rel; exact Ht|];
              eapply msg_rel_trans; apply in_msg_rel; eassumption|].
      destruct A2 as (_ & B2 & _). destruct Hr2 as (_ & C2 & _). rewrite B2, C2. exact Hnb. }
    cbv zeta. destruct (ch_type (m_hdr m)).
    + eapply spx_weaken; [apply pim_data_x; exact Hx2|exact Hfin|auto].
    + eapply spx_weaken; [apply pim_fin_x; exact Hx2|exact Hfin|auto].
    + cbn [spx]. apply Hfin. unfold data_post. split; [reflexivity|]. split; [exact Hx2|]. split; [apply in_rel_refl|reflexivity].
    + cbn [spx]. apply Hfin. unfold data_post. split; [reflexivity|]. split; [exact Hx2|]. split; [apply in_rel_refl|reflexivity].
    + cbn [spx]. apply Hfin. unfold data_post. split; [reflexivity|]. split; [exact Hx2|]. split; [apply in_rel_refl|reflexivity].
Qed.

(* ------------------------------------------------------------------ the receive loop *)
Lemma x_state ti tm p q (s s' : vsock) :
  vs_x ti tm p q s -> v_rx s' = v_rx s -> v_tx s' = v_tx s -> v_segs s' = v_segs s -> v_ss s' = v_ss s ->
  v_rtte s' = v_rtte s -> v_recovery s' = v_recovery s -> v_opts s' = v_opts s -> v_now s' = v_now s ->
  (v_state s' <> Closed -> v_state s <> Closed) -> vs_x ti tm p q s'.
Proof.
  intros [H1 [H2 H3]] E1 E2 E3 E4 E5 E6 E7 E8 Hst. split.
  - eapply inv_update; [exact H1|..]; rewrite ?E3, ?E4, ?E5, ?E6; try assumption; try reflexivity; try lia;
      apply (inv_parts _ _ _ _ H1).
  - unfold sx. rewrite E3, E4, E8. auto.
Qed.

Lemma x_update_segs ti tm p q (s s' : vsock) :
  vs_x ti tm p q s -> v_rx s' = v_rx s -> v_tx s' = v_tx s -> v_opts s' = v_opts s -> v_state s' = v_state s ->
  seg_inv (v_segs s') -> ss_removed (v_segs s') = ss_removed (v_segs s) ->
  ss_offset (v_segs s') = ss_offset (v_segs s) ->
  Forall2 seg_ev (ss_segs (v_segs s)) (ss_segs (v_segs s')) ->
  v_ss s' = v_ss s -> v_rtte s' = v_rtte s -> dup_ok (v_recovery s') -> v_now s' = v_now s ->
  vs_x ti tm p q s'.
Proof.
  intros [H1 [H2 H3]] E1 E2 E3 E4 Hsi Hrm Hof Hev E5 E6 Hd E7. split.
  - eapply inv_update; [exact H1|..]; rewrite ?E4, ?E5, ?E6; try assumption; try reflexivity; try lia; auto;
      apply (inv_parts _ _ _ _ H1).
  - unfold sx. rewrite E5, E7. split; [eapply aux_ev; eauto|exact H3].
Qed.

Definition rl_inv ti tm q p (s : vsock) : Prop :=
  vs_x ti tm p q s /\ ef strict s /\ v_state s <> SynReceived.

Definition loop_rel (s s' : vsock) : Prop :=
  v_opts s' = v_opts s /\ v_inbox_closed s' = v_inbox_closed s /\ v_emsg_limit s' = v_emsg_limit s /\
  v_now s' = v_now s /\ v_restart s' = v_restart s /\ v_env_now s' = v_env_now s /\
  ss_mono (v_ss s) (v_ss s').

Lemma loop_rel_refl s : loop_rel s s.
Proof. unfold loop_rel, ss_mono. repeat (split; [reflexivity|]). lia. Qed.

Lemma loop_rel_trans a b c : loop_rel a b -> loop_rel b c -> loop_rel a c.
Proof.
  unfold loop_rel. intros (A1&A2&A3&A4&A5&A6&A7) (B1&B2&B3&B4&B5&B6&B7).
  repeat (split; [congruence|]). eapply ss_mono_trans; eauto.
Qed.

Lemma msg_loop_rel s s' : msg_rel s s' -> loop_rel s s'.
Proof. unfold msg_rel, loop_rel. tauto. Qed.

Lemma ctl_loop_rel s s' : ctl_rel s s' -> loop_rel s s'.
Proof.
  intros (((C1&C2&C3&C4&C5&C6&C7&C8&C9&C10&C11&C12&C13&C14) & Hf & Hr) & Hq & He).
  unfold loop_rel, ss_mono. rewrite C4. repeat (split; [assumption|]). lia.
Qed.

Definition rl_post ti tm q (s s' : vsock) (res : on_ack_result * bool) : Prop :=
  vs_x ti tm (ar_acked_bytes (fst res)) q s' /\ acc_ok (fst res) /\ ef strict s' /\ loop_rel s s'.

Lemma transition_x ti tm p q (s : vsock) :
  vs_x ti tm p q s ->
  vs_x ti tm p q (transition_to_fin_wait_1 s) /\
  v_segs (transition_to_fin_wait_1 s) = v_segs s /\
  v_last_sent_seq_nr (transition_to_fin_wait_1 s) = v_last_sent_seq_nr s /\
  v_sends (transition_to_fin_wait_1 s) = v_sends s /\
  loop_rel s (transition_to_fin_wait_1 s).
Proof.
  intro Hx. unfold transition_to_fin_wait_1.
  destruct (v_state s) eqn:Est;
    (split; [first [exact Hx|eapply x_state; [exact Hx|..]; vsimpl; try reflexivity; rewrite Est; intros _; discriminate]|]);
    vsimpl; (split; [reflexivity|]); (split; [reflexivity|]); (split; [reflexivity|]);
    unfold loop_rel, ss_mono; vsimpl; repeat (split; [reflexivity|]); lia.
Qed.

Lemma ef_rel (s s' : vsock) : (emsg_free s -> emsg_free s') -> ef strict s -> ef strict s'.
Proof. unfold ef. auto. Qed.

Lemma recv_loop_x ti tm q : forall fuel (s : vsock) acc,
  (length (v_inbox s) < length fuel)%nat -> acc_ok acc -> rl_inv ti tm q (ar_acked_bytes acc) s ->
  spx strict (recv_loop cci fuel s acc) (rl_post ti tm q s) (vs_xe ti tm q).
Proof.
  induction fuel as [|m0 fuel IH]; intros s acc Hlen Hacc (Hx & Hef & Hst);
    [cbn [length] in Hlen; lia|].
  cbn [recv_loop]. destruct (v_inbox s) as [|m rest] eqn:Ei.
  - (* the inbox is drained *)
    destruct (v_inbox_closed s) eqn:Eic.
    + destruct (transition_x _ _ _ _ _ Hx) as (Hx1 & Hs1 & Hl1 & Hsd1 & Hr1).
      set (s1 := transition_to_fin_wait_1 s) in *.
      eapply spx_bind with (Q1 := fun s2 (_ : bool) => ctl_rel s1 s2).
      * eapply spx_weaken; [apply (maybe_send_fin_x strict)|intros s2 b [Hc _]; exact Hc|].
        intros s2 [[[Hcore _] _] _]. eapply x_xe, x_same_core; eauto.
      * intros s2 b Hc. cbn [spx]. unfold rl_post. cbn [fst].
        pose proof Hc as [[Hcore [Hfr _]] _].
        pose proof (x_same_core _ _ _ _ _ _ Hx1 Hcore) as Hx2.
        split; [eapply x_state; [exact Hx2|..]; vsimpl; try reflexivity; congruence|].
        split; [exact Hacc|].
        split.
        { unfold ef, emsg_free in *. vsimpl. intro Hs. apply Hfr. unfold emsg_free.
          rewrite Hsd1. unfold s1, transition_to_fin_wait_1. destruct (v_state s); vsimpl; apply Hef; exact Hs. }
        eapply loop_rel_trans; [exact Hr1|]. eapply loop_rel_trans; [apply ctl_loop_rel; exact Hc|].
        unfold loop_rel, ss_mono; vsimpl; repeat (split; [reflexivity|]); lia.
    + cbn [spx]. unfold rl_post. cbn [fst]. split; [exact Hx|]. split; [exact Hacc|]. split; [exact Hef|].
      exact (loop_rel_refl s).
  - (* one more message *)
    assert (Hx0 : vs_x ti tm (ar_acked_bytes acc) q (set_inbox s rest)) by exact Hx.
    eapply spx_bind; [apply process_incoming_message_x; [exact Hx0|exact Hst]|].
    intros s1 r (Hx1 & Hok1 & Hm1 & Hst1).
    assert (Hacc1 : acc_ok (result_update acc r)) by (apply acc_ok_update; assumption).
    assert (Hx1' : vs_x ti tm (ar_acked_bytes (result_update acc r)) q s1) by exact Hx1.
    pose proof Hm1 as (M1&M2&M3&M4&M5&M6&M7&M8&M9&M10). vsimpl.
    assert (Hef1 : ef strict s1) by (eapply ef_rel; [exact M10|exact Hef]).
    assert (Hrel : loop_rel s s1) by (apply (msg_loop_rel (set_inbox s rest)); exact Hm1).
    destruct (_ || _).
    + cbn [spx]. unfold rl_post. cbn [fst]. auto.
    + eapply spx_weaken; [apply IH| |auto].
      * rewrite M2. cbn [length] in Hlen. lia.
      * exact Hacc1.
      * split; [exact Hx1'|]. split; [exact Hef1|exact Hst1].
      * intros s' res (A1 & A2 & A3 & A5). unfold rl_post. repeat (split; [assumption|]).
        eapply loop_rel_trans; eauto.
Qed.

(* ------------------------------------------------------------------ process_all_incoming_messages *)
Lemma acked_counts_x ti tm p q (s : vsock) :
  vs_x ti tm p q s -> ef strict s ->
  vs_x ti tm p q (acked_counts_as_sent s) /\ ef strict (acked_counts_as_sent s) /\
  loop_rel s (acked_counts_as_sent s).
Proof.
  intros Hx Hef. unfold acked_counts_as_sent. destruct (seq_gt _ _ && seq_lt _ _).
  - split; [exact Hx|]. split; [exact Hef|exact (loop_rel_refl s)].
  - split; [exact Hx|]. split; [exact Hef|apply loop_rel_refl].
Qed.

Lemma pa_tail_x ti tm q (s3 : vsock) :
  vs_x ti tm 0 q s3 -> ef strict s3 ->
  spx strict
    (match rv_phase (v_recovery s3) with
     | Recovering rc =>
         match calc_pipe (v_segs s3) (rc_high_rxt rc) (v_last_sent_seq_nr s3)
                         (roundtrip_time (v_rtte s3)) (v_now s3) with
         | None => SPanic
         | Some (segs', pipe, recalc) =>
             SOk (set_recovering (VSockRec.set_segs s3 segs')
                    {| rc_recovery_point := rc_recovery_point rc; rc_high_rxt := rc_high_rxt rc;
                       rc_total_retx := rc_total_retx rc; rc_pipe := pipe; rc_recalc := recalc;
                       rc_cwnd := rc_cwnd rc |}) tt
         end
     | _ => SOk s3 tt
     end)
    (fun s4 _ => vs_x ti tm 0 q s4 /\ ef strict s4 /\ loop_rel s3 s4) (vs_xe ti tm q).
Proof.
  intros Hx Hef.
  destruct (rv_phase (v_recovery s3)) as [rp|d|rc]; try (cbn [spx]; split; [exact Hx|split; [exact Hef|apply loop_rel_refl]]).
  destruct (calc_pipe_some (v_segs s3) (rc_high_rxt rc) (v_last_sent_seq_nr s3)
              (roundtrip_time (v_rtte s3)) (v_now s3)) as (t' & pp & rcl & E).
  rewrite E. cbn [spx].
  destruct (calc_pipe_ev _ _ _ _ _ _ _ _ E) as (V1 & V2 & V3 & V4).
  pose proof Hx as [Hinv _]. destruct (inv_parts _ _ _ _ Hinv) as (I1 & I2 & I3 & I4 & I5 & I6 & I7 & I8).
  unfold set_recovering. split.
  - eapply x_update_segs; [exact Hx|..]; vsimpl; try reflexivity; try assumption.
    eapply calc_pipe_inv; eauto.
  - split; [unfold ef, emsg_free in *; vsimpl; exact Hef|].
    unfold loop_rel, ss_mono; vsimpl; repeat (split; [reflexivity|]); lia.
Qed.

Lemma process_all_x ti tm q (s : vsock) :
  vs_x ti tm 0 q s -> ef strict s -> v_state s <> SynReceived ->
  spx strict (process_all_incoming_messages cci s)
      (fun s' _ => vs_x ti tm 0 q s' /\ ef strict s' /\ loop_rel s s') (vs_xe ti tm q).
Proof.
  intros Hx Hef Hst. unfold process_all_incoming_messages.
  eapply spx_bind.
  { apply (recv_loop_x ti tm q).
    - rewrite app_length. cbn [length]. lia.
    - apply acc_ok_default.
    - split; [exact Hx|]. split; [exact Hef|exact Hst]. }
  intros s1 [r early] (Hx1 & (Hs0 & Hb0 & Hz) & Hef1 & Hrel1). cbn [fst] in *.
  set (s2 := if (0 <? ar_acked_segments r) || (0 <? ar_newly_sacked_segments r) then _ else s1).
  assert (H2 : vs_x ti tm (ar_acked_bytes r) q s2 /\ ef strict s2 /\ loop_rel s s2).
  { unfold s2, restart_remote_inactivity_timer. destruct (_ || _); [|auto].
    destruct (ss_segs (v_segs (set_rto_retransmissions s1 0))); [destruct (our_fin_if_unacked _)|];
      (split; [exact Hx1|split; [exact Hef1|exact Hrel1]]). }
  clearbody s2. destruct H2 as (Hx2 & Hef2 & Hrel2).
  eapply spx_bind with (Q1 := fun s3 (_ : unit) => vs_x ti tm 0 q s3 /\ ef strict s3 /\ loop_rel s s3).
  - destruct (Z.ltb_spec 0 (ar_acked_segments r)) as [Hpos|Hneg].
    + destruct (acked_counts_x _ _ _ _ _ Hx2 Hef2) as (Hx2b & Hef2b & Hrel2b).
      generalize dependent (acked_counts_as_sent s2). intros s2b Hx2b Hef2b Hrel2b.
      destruct (truncate_ok ti tm (ar_acked_bytes r) s2b (proj1 Hx2b)) as (tx1 & -> & Hinv3).
      destruct (wake_writer tx1) as [tx2 w] eqn:Ew.
      destruct (wake_writer_fields _ _ _ Ew) as (W1 & W2 & W3 & W4).
      cbn [spx].
      assert (Hx3 : vs_x ti tm 0 q (set_tx s2b tx1)) by (split; [exact Hinv3|exact (proj2 Hx2b)]).
      destruct (inv_parts _ _ _ _ Hinv3) as (K1 & K2 & K3 & K4 & K5 & K6 & K7 & K8). vsimpl.
      split; [unfold add_wakes; eapply x_update; [exact Hx3|..]; vsimpl; auto; try lia|].
      split; [unfold ef, emsg_free, add_wakes in *; vsimpl; exact Hef2b|].
      eapply loop_rel_trans; [exact Hrel2|]. eapply loop_rel_trans; [exact Hrel2b|].
      unfold loop_rel, ss_mono, add_wakes; vsimpl; repeat (split; [reflexivity|]); lia.
    + cbn [spx]. assert (Hz0 : ar_acked_bytes r = 0) by (apply Hz; lia). rewrite Hz0 in Hx2. auto.
  - intros s3 _ (Hx3 & Hef3 & Hrel3).
    eapply spx_weaken; [exact (pa_tail_x ti tm q s3 Hx3 Hef3)| |auto].
    intros s4 _ (A1 & A2 & A3). split; [exact A1|]. split; [exact A2|eapply loop_rel_trans; eauto].
Qed.

End PollIn.

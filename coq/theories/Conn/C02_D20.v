(* Regression example for the repaired defect D20 (C02 / C17): after an RTO had rewound
   last_sent_seq_nr and one cumulative ACK then covered every outstanding segment, the connection
   was idle with last_sent_seq_nr still rewound; a shutdown then numbered its FIN seq_nr while
   maybe_send_fin waits for our_fin - last_sent_seq_nr = 1: the FIN was never sent and the
   connection died of inactivity one second later.  Since the repair an acknowledged sequence
   number counts as sent (acked_counts_as_sent in process_all_incoming_messages). *)
From Utp Require Import Base.Prelude Wire.SeqNr Wire.Header Rtt.Rtte Mtu.SegSizes Rx.Rx Tx.Ring
  Tx.Segments Conn.Recovery Conn.Msg Conn.VSockRec Conn.VSock Conn.VSockRun Conn.VObs
  Conn.C10_Pred Conn.C02_Pred Conn.VSock_Inv Conn.C10_Proofs.

(* case: vsock out 1 1500 1048576 32768 1048576 0 5 10000000000 1 1 100 1 7 1048576 5 1000000
         W1056,0 P T3000000000 P M2,1,102,1048576,10,0,0,- P H P *)
Definition d20_cfg : vconfig :=
  {| vc_incoming := false; vc_ipv4 := true; vc_link_mtu := 1500; vc_rx_buf := 1048576;
     vc_tx_init := 32768; vc_tx_max := 1048576; vc_nagle := false; vc_max_retx := 5;
     vc_inactivity := 10000000000; vc_wait_last_ack := true; vc_mtu_probe_max_retx := 1;
     vc_isn := 100; vc_remote_seq := 1; vc_remote_conn_id := 7; vc_remote_wnd := 1048576;
     vc_remote_ts := 5; vc_syn_sent := 0; vc_now0 := 1000000 |}.

Definition d20_ops : list vop :=
  [VoWrite (repeat 0 (Z.to_nat 1056)); VoPoll []; VoSetNow 3000000000; VoPoll [];
   VoDeliver (wmsg ST_STATE 1 102 0); VoPoll []; VoShutdown; VoPoll []].

(* the situation of D20: an RTO retransmission rewound last_sent_seq_nr below seq_nr - 1 ... *)
Definition rto_rewound (st : fstep) : bool :=
  match fs_event st, fs_result st with
  | FePoll _, FrPoll PollPending _ _ _ =>
      (0 <? f_rto_retx (fs_post st)) &&
      negb (f_last_sent_seq_nr (fs_post st) =? wsub16 (f_seq_nr (fs_post st)) 1)
  | _, _ => false
  end.

Definition emits_fin (st : fstep) : bool :=
  match fs_result st with
  | FrPoll _ pk _ _ => existsb (fun p => match ch_type (fq_hdr p) with ST_FIN => true | _ => false end) pk
  | _ => false
  end.

Lemma fin_after_rto_rewind_regression :
  exists w cfg ops,
    vconfig_ok cfg = true /\ Forall op_msg_ok ops /\
    (* ... the rewind happened, everything was then acknowledged ... *)
    existsb rto_rewound (wtrace w cfg ops) = true /\
    (* ... and the poll right after the shutdown, at the same clock, emits the FIN *)
    c02_prompt cfg (wtrace w cfg ops) = true /\
    match rev (wtrace w cfg ops) with
    | st :: _ => emits_fin st = true /\
                 f_last_sent_seq_nr (fs_post st) = wsub16 (f_seq_nr (fs_post st)) 1
    | [] => False
    end.
Proof.
  exists 2000, d20_cfg, d20_ops.
  split; [vm_compute; reflexivity|]. split; [repeat constructor|].
  split; [vm_compute; reflexivity|]. split; [vm_compute; reflexivity|].
  vm_compute. split; reflexivity.
Qed.

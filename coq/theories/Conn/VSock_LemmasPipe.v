(* The recovery-pipe timer and the phase of the recovery state machine: after a Pending poll with a
   writable transport, started with the pipe timer idle, an armed pipe timer means the connection
   is in the Recovering phase.  (next_timer_to_poll clears the pipe timer, so this is about the
   state the timer tail sees.)  The proof follows poll_body stage by stage through the restart
   loop (Conn/VSock_LemmasStep.v, PollStaged). *)
From Utp Require Import Base.Prelude Wire.SeqNr Wire.Header Rtt.Rtte Rtt.Rtte_Proofs Mtu.SegSizes
  Rx.Rx Tx.Ring Tx.Segments Tx.Segments_Proofs Tx.Segments_ProofsOut
  Conn.Recovery Conn.Msg Conn.VSockRec Conn.VSock Conn.VSockRun Conn.VObs
  Conn.VSock_LemmasTx Conn.VSock_Lemmas Conn.VSock_LemmasStep Conn.VSock_LemmasReach Conn.VSock_LemmasTimers.

Lemma rto_pos : forall rt, rto_in_bounds rt -> 0 < retransmission_timeout rt.
Proof. intros rt [H _]. unfold RTTE_MIN_RTO, MS in H. lia. Qed.

Lemma ne_arm : forall t now d,
  0 < d -> timer_expired t now = false -> timer_expired (timer_arm t now d false) now = false.
Proof.
  intros t now d Hd H. unfold timer_arm, timer_expired in *. destruct t as [e|]; lia.
Qed.

Section WithCC.
Context {CC : Type} (cci : cc_iface CC).
Notation vsock := (vsock CC).

Definition SC (s : vsock) : Prop :=
  state_is_closed (v_state s) (o_wait_for_last_ack (v_opts s)) = true.
Definition PN (s : vsock) : Prop := v_t_recovery_pipe s = None.
Definition REC (s : vsock) : Prop := is_recovering (v_recovery s) = true.
Definition NE (s : vsock) : Prop := timer_expired (v_t_retransmit s) (v_now s) = false.
Definition NW (s : vsock) : Prop := v_now s = v_env_now s.
Definition IBE (s : vsock) : Prop := v_inbox s = [] /\ v_inbox_closed s = false.

(* ------------------------------------------------------------------ what the control-packet
   family, send_data, the segmentation and the transitions leave alone *)
Definition qb (s s' : vsock) : Prop :=
  v_opts s' = v_opts s /\ v_t_recovery_pipe s' = v_t_recovery_pipe s /\
  v_recovery s' = v_recovery s /\ v_now s' = v_now s /\ v_env_now s' = v_env_now s /\
  v_inbox s' = v_inbox s /\ v_inbox_closed s' = v_inbox_closed s /\ v_rtte s' = v_rtte s /\
  v_restart s' = v_restart s /\
  (v_transport_pending s = true -> v_transport_pending s' = true) /\
  (SC s -> SC s') /\
  (rto_in_bounds (v_rtte s) -> NE s -> NE s').

Lemma qb_refl : forall s, qb s s.
Proof. intros s. unfold qb. repeat split; auto. Qed.

Lemma qb_trans : forall a b c, qb a b -> qb b c -> qb a c.
Proof.
  unfold qb. intros a b c (A1 & A2 & A3 & A4 & A5 & A6 & A7 & A8 & A9 & A10 & A11 & A12)
    (B1 & B2 & B3 & B4 & B5 & B6 & B7 & B8 & B9 & B10 & B11 & B12).
  repeat split; try congruence; auto.
  intros Hb Hn. apply B12; [rewrite A8; exact Hb | apply A12; assumption].
Qed.

Notation stq := (stR qb).

(* everything qb looks at, and the state, the transport flag and the retransmission timer, equal *)
Lemma qb_same : forall (s s' : vsock),
  v_opts s' = v_opts s -> v_t_recovery_pipe s' = v_t_recovery_pipe s ->
  v_recovery s' = v_recovery s -> v_now s' = v_now s -> v_env_now s' = v_env_now s ->
  v_inbox s' = v_inbox s -> v_inbox_closed s' = v_inbox_closed s -> v_rtte s' = v_rtte s ->
  v_restart s' = v_restart s -> v_transport_pending s' = v_transport_pending s \/ v_transport_pending s' = true ->
  v_state s' = v_state s -> v_t_retransmit s' = v_t_retransmit s -> qb s s'.
Proof.
  intros s s' E1 E2 E3 E4 E5 E6 E7 E8 E9 E10 E11 E12. unfold qb, SC, NE.
  rewrite E1, E4, E11, E12. repeat split; auto. destruct E10 as [E10|E10]; congruence.
Qed.

(* the same with the retransmission timer armed for one RTO (never earlier than before) *)
Lemma qb_armed : forall (s s' : vsock),
  v_opts s' = v_opts s -> v_t_recovery_pipe s' = v_t_recovery_pipe s ->
  v_recovery s' = v_recovery s -> v_now s' = v_now s -> v_env_now s' = v_env_now s ->
  v_inbox s' = v_inbox s -> v_inbox_closed s' = v_inbox_closed s -> v_rtte s' = v_rtte s ->
  v_restart s' = v_restart s -> v_transport_pending s' = v_transport_pending s ->
  v_state s' = v_state s ->
  v_t_retransmit s' = timer_arm (v_t_retransmit s) (v_now s) (retransmission_timeout (v_rtte s)) false ->
  qb s s'.
Proof.
  intros s s' E1 E2 E3 E4 E5 E6 E7 E8 E9 E10 E11 E12. unfold qb, SC, NE.
  rewrite E1, E4, E11, E12. repeat split; auto; try congruence.
  intros Hb Hn. apply ne_arm; [apply rto_pos; exact Hb | exact Hn].
Qed.

Ltac qb_same_tac := apply qb_same; first [exact eq_refl | left; exact eq_refl | right; exact eq_refl].
Ltac qb_via H := eapply qb_trans; [exact H | qb_same_tac].

Lemma next_send_qb : forall (s : vsock) n s1 o, next_send s n = (s1, o) -> qb s s1.
Proof.
  intros s n s1 o H. unfold next_send in H.
  repeat break_match_hyp H; inversion H; subst; try inversion Heqp; subst; qb_same_tac.
Qed.

Lemma send_control_packet_qb : forall (s : vsock) h, stq s (send_control_packet s h).
Proof.
  intros s h. unfold send_control_packet.
  destruct (v_transport_pending s); [apply qb_refl|].
  destruct (next_send s _) as [s1 o] eqn:E. apply next_send_qb in E.
  destruct o; cbn [stR]; auto; unfold on_packet_sent, emit; qb_via E.
Qed.

Lemma send_ack_qb : forall (s : vsock), stq s (send_ack s).
Proof. intros s. unfold send_ack. apply send_control_packet_qb. Qed.

Lemma maybe_send_fin_qb : forall (s : vsock), stq s (maybe_send_fin s).
Proof.
  intros s. unfold maybe_send_fin.
  destruct (v_transport_pending s); [apply qb_refl|].
  destruct (our_fin_if_unacked (v_state s)); [|apply qb_refl].
  destruct (negb _); [apply qb_refl|].
  apply (stR_sbind qb qb_trans); [apply send_control_packet_qb|].
  intros s1 [|]; cbn [stR]; [|apply qb_refl].
  apply qb_armed; exact eq_refl.
Qed.

Lemma maybe_send_ack_qb : forall (s : vsock), stq s (maybe_send_ack s).
Proof.
  intros s. unfold maybe_send_ack.
  pose proof (send_ack_qb s) as G.
  destruct (immediate_ack_to_transmit s); [exact G|].
  destruct (should_send_window_update s); [exact G|].
  destruct (timer_expired _ _).
  - destruct (ack_to_transmit s); [exact G|]. cbn [stR]. qb_same_tac.
  - destruct (0 <? v_cbu s); cbn [stR]; qb_same_tac.
Qed.

Lemma send_data_qb : forall (s : vsock) h f, stq s (send_data s h f).
Proof.
  intros s h f. unfold send_data.
  destruct (_ =? o_max_retx _); [apply qb_refl|].
  destruct (_ <? 0); [exact I|].
  destruct (_ <? fs_payload_offset f); [apply qb_refl|].
  destruct (_ <? _ + _); [apply qb_refl|].
  destruct (next_send s _) as [s1 o] eqn:E. apply next_send_qb in E.
  destruct o; cbn [stR]; auto; try (qb_via E).
  eapply qb_trans; [exact E|]. unfold on_packet_sent, emit.
  destruct (seq_gt _ _); try destruct (seq_gt _ _); apply qb_armed; exact eq_refl.
Qed.

Lemma recovery_loop_qb : forall items (s : vsock) h mss0 st,
  stq s (recovery_loop items s h mss0 st).
Proof.
  induction items as [|f rest IH]; intros s h mss0 st; cbn [recovery_loop].
  - apply qb_refl.
  - destruct (negb _); [apply qb_refl|].
    destruct (_ && negb (sg_lost _)); [apply IH|].
    destruct (_ && negb (sg_sacks_after _)); [apply qb_refl|].
    pose proof (send_data_qb s h f) as F.
    destruct (send_data s h f) as [s1 r|s1 e|]; cbn [stR] in *; auto.
    destruct r; cbn [stR]; auto.
    eapply (stR_weaken qb qb_trans); [exact F | apply IH].
Qed.

Lemma new_data_loop_qb : forall items (s : vsock) h remaining,
  stq s (new_data_loop items s h remaining).
Proof.
  induction items as [|f rest IH]; intros s h remaining; cbn [new_data_loop].
  - apply qb_refl.
  - destruct (_ <? _); [apply qb_refl|].
    pose proof (send_data_qb s h f) as F.
    destruct (send_data s h f) as [s1 r|s1 e|]; cbn [stR] in *; auto.
    destruct r; cbn [stR]; auto.
    eapply (stR_weaken qb qb_trans); [exact F | apply IH].
Qed.

Lemma sc_not_syn : forall (s : vsock), SC s ->
  v_state s <> SynReceived /\ (forall k, v_state s <> SynAckSent k) /\ v_state s <> Established.
Proof. intros s H. unfold SC in H. destruct (v_state s); try discriminate; repeat split; discriminate. Qed.

Lemma maybe_send_syn_ack_qb : forall (s : vsock), stq s (maybe_send_syn_ack s).
Proof.
  intros s. unfold maybe_send_syn_ack.
  assert (G : forall c, (SC s -> False) -> stq s
     (if c =? o_max_retx (v_opts s) then SErr s ErrMaxSynAckRetransmissionsReached
      else sbind (send_ack s) (fun s1 sent =>
        if sent then SOk (set_t_syn_ack_resend (set_state s1 (SynAckSent (c + 1)))
               (timer_arm (v_t_syn_ack_resend s1) (v_now s1) SYNACK_RESEND_INTERNAL true)) tt
        else SOk s1 tt))).
  { intros c Hn. destruct (_ =? _); [apply qb_refl|].
    pose proof (send_ack_qb s) as Q. pose proof (send_ack_txf s) as T.
    destruct (send_ack s) as [s1 b|s1 e|]; cbn [sbind stR] in *; auto.
    destruct b; cbn [stR]; [|exact Q].
    eapply qb_trans; [exact Q|].
    destruct T as (_ & _ & _ & _ & _ & _ & T7 & _). destruct Q as (Q1 & _).
    unfold qb, SC, NE. vsimpl_goal. repeat split; auto.
    intro H. exfalso. apply Hn. unfold SC. rewrite <- T7, <- Q1. exact H. }
  destruct (v_state s) eqn:Est; try (cbn [stR]; qb_same_tac).
  - apply G. intro H. unfold SC in H. rewrite Est in H. discriminate.
  - destruct (timer_expired _ _); [|apply qb_refl]. apply G. intro H. unfold SC in H.
    rewrite Est in H. discriminate.
Qed.

Lemma transition_to_fin_wait_1_qb : forall (s : vsock), qb s (transition_to_fin_wait_1 s).
Proof.
  intros s. unfold transition_to_fin_wait_1.
  destruct (v_state s) eqn:Est; try apply qb_refl;
    (unfold qb, SC, NE; vsimpl_goal; rewrite Est; repeat split; auto; discriminate).
Qed.

Lemma rx_flush_qb : forall (s : vsock) rx1 w, qb s (add_wakes (set_rx s rx1) w).
Proof. intros. unfold add_wakes. qb_same_tac. Qed.

(* ---- segmentation: the retransmission timer is touched only when it has expired ---- *)
Lemma pop_expired_not_timed_out : forall t mr t' pe,
  pop_expired_mtu_probe t false mr = (t', pe) -> forall a b, pe <> PeExpired a b.
Proof.
  intros t mr t' pe H a b. unfold pop_expired_mtu_probe in H.
  destruct (last_and_init _) as [[init x]|]; [|inversion H; discriminate].
  destruct (sg_delivered x); [inversion H; discriminate|]. cbn [andb] in H.
  destruct (sg_probe x); inversion H; discriminate.
Qed.

Lemma split_tx_queue_into_segments_qb : forall (s : vsock),
  stq s (split_tx_queue_into_segments cci s).
Proof.
  intros s. unfold split_tx_queue_into_segments.
  destruct (_ =? 0); [cbn [stR]; qb_same_tac|].
  match goal with |- context [is_remote_fin_or_later (v_state ?x)] => set (s1 := x) end.
  assert (F1 : qb s s1).
  { subst s1. destruct (_ && _); [|apply qb_refl].
    destruct (grow _ _) as [tx1 g]. destruct g; [destruct (wake_writer tx1)|]; unfold add_wakes; qb_same_tac. }
  clearbody s1.
  destruct (is_remote_fin_or_later _); [exact F1|].
  destruct (pop_expired_mtu_probe _ _ _) as [segs1 pe] eqn:Ep.
  assert (Hcont : forall s2 : vsock, qb s s2 ->
    stq s
      (if Z.of_nat (length (ring (v_tx s))) <? ss_len_bytes (v_segs s2)
       then SErr s2 (ErrBug BugInBufferComputations)
       else match segment_loop (ring (v_tx s2)) (o_nagle (v_opts s2)) (v_ss s2) (v_segs s2)
                    (Z.of_nat (length (ring (v_tx s))) - ss_len_bytes (v_segs s2))
                    (v_last_remote_window s2) with
            | Some (ss', segs', remaining) =>
                SOk (set_unsegmented (VSockRec.set_segs (set_ss s2 ss') segs') remaining) tt
            | None => SPanic
            end)).
  { intros s2 F2. destruct (_ <? _); [exact F2|].
    destruct (segment_loop _ _ _ _ _ _) as [[[ss' segs'] rem']|]; [|exact I].
    cbn [stR]. qb_via F2. }
  destruct pe.
  - apply Hcont. eapply qb_trans; [exact F1|].
    (* the timer had expired: nothing to keep about NE *)
    assert (Hx : timer_expired (v_t_retransmit s1) (v_now s1) = true).
    { destruct (timer_expired (v_t_retransmit s1) (v_now s1)) eqn:X; [reflexivity|].
      exfalso. exact (pop_expired_not_timed_out _ _ _ _ Ep _ _ eq_refl). }
    unfold qb, SC, NE. destruct (seq_gt _ _); vsimpl_goal; repeat split; auto;
      intros _ Hn; unfold NE in Hn; congruence.
  - cbn [stR]. qb_via F1.
  - apply Hcont. exact F1.
Qed.

(* ------------------------------------------------------------------ incoming messages *)
Definition pimr (s s' : vsock) : Prop :=
  v_opts s' = v_opts s /\ v_t_recovery_pipe s' = v_t_recovery_pipe s /\ v_now s' = v_now s /\
  v_env_now s' = v_env_now s /\ v_inbox_closed s' = v_inbox_closed s /\ v_restart s' = v_restart s /\
  (SC s -> SC s').

Lemma pimr_refl : forall s, pimr s s.
Proof. intros s. unfold pimr. repeat split; auto. Qed.

Lemma pimr_trans : forall a b c, pimr a b -> pimr b c -> pimr a c.
Proof.
  unfold pimr. intros a b c (A1 & A2 & A3 & A4 & A5 & A6 & A7) (B1 & B2 & B3 & B4 & B5 & B6 & B7).
  repeat split; try congruence; auto.
Qed.

Notation stp := (stR pimr).

Lemma qb_pimr : forall s s', qb s s' -> pimr s s'.
Proof.
  intros s s' (A1 & A2 & A3 & A4 & A5 & A6 & A7 & A8 & A9 & A10 & A11 & A12). unfold pimr. auto 10.
Qed.

Lemma stq_stp : forall X (s : vsock) (m : step X), stq s m -> stp s m.
Proof. intros X s m H. destruct m; cbn [stR] in *; auto using qb_pimr. Qed.

Lemma pimr_same : forall (s s' : vsock),
  v_opts s' = v_opts s -> v_t_recovery_pipe s' = v_t_recovery_pipe s -> v_now s' = v_now s ->
  v_env_now s' = v_env_now s -> v_inbox_closed s' = v_inbox_closed s -> v_restart s' = v_restart s ->
  v_state s' = v_state s -> pimr s s'.
Proof.
  intros s s' E1 E2 E3 E4 E5 E6 E7. unfold pimr, SC. rewrite E1, E7. repeat split; auto.
Qed.

Ltac pimr_same_tac := apply pimr_same; exact eq_refl.
Ltac pimr_via H := eapply pimr_trans; [exact H | pimr_same_tac].

Lemma state_table_pimr : forall (s : vsock) h,
  match state_table s h with TblDrop s1 | TblErr s1 _ | TblContinue s1 => pimr s s1 end.
Proof.
  intros s h. unfold state_table, restart_remote_inactivity_timer.
  destruct (ch_type h); destruct (v_state s) eqn:Est; repeat break_match;
    first [ apply pimr_refl
          | unfold pimr, SC; vsimpl_goal; rewrite ?Est; cbn [state_is_closed];
            repeat split; auto; try discriminate ].
Qed.

Lemma process_incoming_message_pimr : forall (s : vsock) m,
  stp s (process_incoming_message cci s m).
Proof.
  intros s m. unfold process_incoming_message.
  pose proof (state_table_pimr s (m_hdr m)) as T.
  destruct (state_table s (m_hdr m)) as [s1|s1 e|s1]; cbn [stR] in *; auto.
  destruct (remove_up_to_ack _ _ _ _) as [segs1 res].
  destruct (match is_recovering _, _ with | false, Some rtt => _ | _, _ => _ end) as [rtte1|]; [|exact I].
  destruct (cc_on_ack _ _ _ _ _) as [cc3|]; [|exact I].
  destruct (recovery_on_ack _ _ _ _ _ _ _ _) as [[[rec1 segs2] cc4]|]; [|exact I].
  match goal with |- context [seq_sub _ (wadd16 (v_last_consumed ?x) 1)] => set (s2 := x) end.
  assert (F2 : pimr s s2) by (subst s2; pimr_via T).
  clearbody s2.
  destruct (ch_type (m_hdr m)); try exact F2.
  - (* ST_DATA *)
    destruct (_ <? 0); [cbn [stR]; unfold force_immediate_ack; pimr_via F2|].
    match goal with |- context [rx_add_remove (v_rx ?x)] => set (s3 := x) end.
    assert (F3 : pimr s s3) by (subst s3; pimr_via F2).
    clearbody s3.
    destruct (rx_add_remove _ _ _ _) as [[rx1 ar] w].
    assert (F4 : pimr s (add_wakes (set_rx s3 rx1) (rx_wakes w))) by (unfold add_wakes; pimr_via F3).
    set (s4 := add_wakes (set_rx s3 rx1) (rx_wakes w)) in *. clearbody s4.
    destruct ar as [r|]; [|exact I].
    destruct (add_err r); [exact F4|].
    match goal with |- context [send_ack (force_immediate_ack ?x)] => set (s5 := x) end.
    assert (F5 : pimr s s5).
    { subst s5. unfold restart_remote_inactivity_timer. destruct r; first [exact F4 | pimr_via F4]. }
    clearbody s5.
    destruct (_ || _); [|exact F5].
    assert (F6 : pimr s (force_immediate_ack s5)) by (unfold force_immediate_ack; pimr_via F5).
    set (s6 := force_immediate_ack s5) in *. clearbody s6.
    apply (stR_weaken pimr pimr_trans) with (s := s6); [exact F6|].
    apply (stR_sbind pimr pimr_trans); [apply stq_stp, send_ack_qb|].
    intros s7 _. apply pimr_refl.
  - (* ST_FIN *)
    destruct (_ && _); [|cbn [stR]; unfold force_immediate_ack; pimr_via F2].
    match goal with |- context [rx_add_remove (v_rx ?x)] => set (s4 := x) end.
    assert (F3 : pimr s s4) by (subst s4; unfold force_immediate_ack; pimr_via F2).
    clearbody s4.
    destruct (rx_add_remove _ _ _ _) as [[rx1 ar] w].
    assert (F4 : pimr s (add_wakes (set_rx s4 rx1) (rx_wakes w))) by (unfold add_wakes; pimr_via F3).
    set (s5 := add_wakes (set_rx s4 rx1) (rx_wakes w)) in *. clearbody s5.
    destruct ar as [r|]; [|exact I].
    destruct (add_err r); [exact F4|].
    destruct (mark_vsock_closed _) as [tx1 w2]. cbn [stR]. unfold add_wakes. pimr_via F4.
Qed.

Lemma recv_loop_pimr : forall fuel (s : vsock) acc, stp s (recv_loop cci fuel s acc).
Proof.
  assert (Hclosed : forall (s : vsock) (acc : on_ack_result),
    stp s (sbind (maybe_send_fin (transition_to_fin_wait_1 s))
                 (fun s2 _ => SOk (set_state s2 Closed) (acc, true)))).
  { intros s acc.
    apply (stR_weaken pimr pimr_trans) with (s := transition_to_fin_wait_1 s);
      [apply qb_pimr, transition_to_fin_wait_1_qb|].
    apply (stR_sbind pimr pimr_trans); [apply stq_stp, maybe_send_fin_qb|].
    intros s2 _. cbn [stR]. unfold pimr, SC. vsimpl_goal. cbn [state_is_closed]. repeat split; auto. }
  induction fuel as [|x fuel IH]; intros s acc.
  - cbn [recv_loop]. destruct (v_inbox s).
    + destruct (v_inbox_closed s); [apply Hclosed|cbn [stR]; pimr_same_tac].
    + exact I.
  - cbn [recv_loop]. destruct (v_inbox s) as [|m rest].
    + destruct (v_inbox_closed s); [apply Hclosed|cbn [stR]; pimr_same_tac].
    + apply (stR_weaken pimr pimr_trans) with (s := set_inbox s rest); [pimr_same_tac|].
      apply (stR_sbind pimr pimr_trans).
      * apply process_incoming_message_pimr.
      * intros s1 r. destruct (_ || _); [apply pimr_refl|]. apply IH.
Qed.

(* what the bookkeeping after the receive loop keeps *)
Definition pst (s s' : vsock) : Prop :=
  v_state s' = v_state s /\ v_opts s' = v_opts s /\ v_inbox s' = v_inbox s /\
  v_inbox_closed s' = v_inbox_closed s /\ v_transport_pending s' = v_transport_pending s /\
  v_t_recovery_pipe s' = v_t_recovery_pipe s /\ v_now s' = v_now s /\ v_env_now s' = v_env_now s /\
  v_restart s' = v_restart s /\ v_rx s' = v_rx s.

Lemma pst_refl : forall s, pst s s.
Proof. intros s. unfold pst. repeat split. Qed.

Lemma pst_trans : forall a b c, pst a b -> pst b c -> pst a c.
Proof.
  unfold pst. intros a b c (A1&A2&A3&A4&A5&A6&A7&A8&A9&A10) (B1&B2&B3&B4&B5&B6&B7&B8&B9&B10).
  repeat split; congruence.
Qed.

Ltac pst_tac := unfold pst; repeat split; exact eq_refl.

Definition paim_rest (s1 : vsock) (r : on_ack_result) : step unit :=
      let s2 :=
        if (0 <? ar_acked_segments r) || (0 <? ar_newly_sacked_segments r) then
          let s' := set_rto_retransmissions s1 0 in
          match ss_segs (v_segs s'), our_fin_if_unacked (v_state s') with
          | [], None => set_t_inactivity (set_t_retransmit s' None) None
          | _, _ =>
              restart_remote_inactivity_timer
                (set_t_retransmit s' (timer_arm (v_t_retransmit s') (v_now s')
                                        (retransmission_timeout (v_rtte s')) true))
          end
        else s1 in
      let s3o : step unit :=
        if 0 <? ar_acked_segments r then
          let s2 := acked_counts_as_sent s2 in
          let '(tx1, tr) := truncate_front (v_tx s2) (ar_acked_bytes r) in
          match tr with
          | TrBug _ _ => SErr (set_tx s2 tx1) (ErrBug BugTruncateFront)
          | TrOk => let '(tx2, w) := wake_writer tx1 in
                    SOk (add_wakes (set_tx s2 tx2) (tx_wakes w)) tt
          end
        else SOk s2 tt in
      sbind s3o (fun s3 _ =>
        match rv_phase (v_recovery s3) with
        | Recovering rc =>
            match calc_pipe (v_segs s3) (rc_high_rxt rc) (v_last_sent_seq_nr s3)
                            (roundtrip_time (v_rtte s3)) (v_now s3) with
            | None => SPanic
            | Some (segs', pipe, recalc) =>
                SOk (set_recovering (set_segs s3 segs')
                       {| rc_recovery_point := rc_recovery_point rc; rc_high_rxt := rc_high_rxt rc;
                          rc_total_retx := rc_total_retx rc; rc_pipe := pipe; rc_recalc := recalc;
                          rc_cwnd := rc_cwnd rc |}) tt
            end
        | _ => SOk s3 tt
        end).

Lemma paim_eq : forall (s : vsock),
  process_all_incoming_messages cci s =
  sbind (recv_loop cci (v_inbox s ++ [ {| m_hdr := outgoing_header s; m_payload := [] |} ]) s
                   on_ack_result_default)
        (fun s1 res => paim_rest s1 (fst res)).
Proof.
  intros s. unfold process_all_incoming_messages, paim_rest.
  destruct (recv_loop _ _ _ _) as [s1 [r b]| |]; reflexivity.
Qed.

Lemma paim_rest_pst : forall (s1 : vsock) r, stR pst s1 (paim_rest s1 r).
Proof.
  intros s1 r. unfold paim_rest.
  match goal with |- stR pst s1 (sbind ?m _) =>
    match m with context [acked_counts_as_sent ?x] => set (s2 := x) end end.
  assert (F2 : pst s1 s2).
  { subst s2. unfold restart_remote_inactivity_timer. repeat break_match; first [apply pst_refl | pst_tac]. }
  clearbody s2.
  apply (stR_weaken pst pst_trans) with (s := s2); [exact F2|].
  apply (stR_sbind pst pst_trans).
  - destruct (0 <? _); [|apply pst_refl].
    assert (F2' : pst s2 (acked_counts_as_sent s2)).
    { unfold acked_counts_as_sent. destruct (seq_gt _ _ && seq_lt _ _); [pst_tac | apply pst_refl]. }
    apply (stR_weaken pst pst_trans) with (s := acked_counts_as_sent s2); [exact F2'|].
    generalize (acked_counts_as_sent s2). intro s2'.
    destruct (truncate_front _ _) as [tx1 tr].
    destruct tr; [|cbn [stR]; pst_tac].
    destruct (wake_writer tx1) as [tx2 w]. cbn [stR]. unfold add_wakes. pst_tac.
  - intros s3 _. unfold set_recovering. repeat break_match; cbn [stR]; first [exact I | apply pst_refl | pst_tac].
Qed.

Lemma pst_pimr : forall s s', pst s s' -> pimr s s'.
Proof.
  intros s s' (A1&A2&A3&A4&A5&A6&A7&A8&A9&A10). unfold pimr, SC. rewrite A1, A2. repeat split; auto.
Qed.

Lemma process_all_incoming_messages_pimr : forall (s : vsock),
  stp s (process_all_incoming_messages cci s).
Proof.
  intros s. rewrite paim_eq.
  apply (stR_sbind pimr pimr_trans); [apply recv_loop_pimr|].
  intros s1 res. pose proof (paim_rest_pst s1 (fst res)) as H.
  destruct (paim_rest s1 (fst res)); cbn [stR] in *; auto using pst_pimr.
Qed.

(* after the receive loop: the connection is closed, or the transport blocked, or the inbox is
   drained and its channel open *)
Lemma recv_loop_post : forall fuel (s : vsock) acc s1 res,
  recv_loop cci fuel s acc = SOk s1 res -> SC s1 \/ v_transport_pending s1 = true \/ IBE s1.
Proof.
  assert (Hclosed : forall (s : vsock) (acc : on_ack_result) s1 res,
    sbind (maybe_send_fin (transition_to_fin_wait_1 s))
          (fun s2 _ => SOk (set_state s2 Closed) (acc, true)) = SOk s1 res -> SC s1).
  { intros s acc s1 res H. destruct (maybe_send_fin _) as [s2 b| |]; cbn [sbind] in H; try discriminate.
    inversion H; subst. unfold SC. reflexivity. }
  induction fuel as [|x fuel IH]; intros s acc s1 res; cbn [recv_loop].
  - destruct (v_inbox s) eqn:Ei.
    + destruct (v_inbox_closed s) eqn:Ec; [intro H; left; eapply Hclosed; exact H|].
      intro H; inversion H; subst. right; right. unfold IBE. vsimpl_goal. auto.
    + discriminate.
  - destruct (v_inbox s) as [|m rest] eqn:Ei.
    + destruct (v_inbox_closed s) eqn:Ec; [intro H; left; eapply Hclosed; exact H|].
      intro H; inversion H; subst. right; right. unfold IBE. vsimpl_goal. auto.
    + destruct (process_incoming_message cci (set_inbox s rest) m) as [s2 r| |]; cbn [sbind]; try discriminate.
      destruct (state_is_closed _ _ || v_transport_pending s2) eqn:Eo.
      * intro H; inversion H; subst. apply orb_true_iff in Eo. unfold SC. tauto.
      * apply IH.
Qed.

Lemma process_all_incoming_messages_post : forall (s s' : vsock) u,
  process_all_incoming_messages cci s = SOk s' u ->
  SC s' \/ v_transport_pending s' = true \/ IBE s'.
Proof.
  intros s s' u H. rewrite paim_eq in H.
  destruct (recv_loop _ _ _ _) as [s1 res| |] eqn:E; cbn [sbind] in H; try discriminate.
  apply recv_loop_post in E. pose proof (paim_rest_pst s1 (fst res)) as P. rewrite H in P. cbn [stR] in P.
  destruct P as (A1&A2&A3&A4&A5&_). unfold SC, IBE in *. rewrite A1, A2, A3, A4, A5. exact E.
Qed.

(* with a drained inbox nothing is processed: the recovery phase and the retransmission timer stay *)
Lemma process_all_incoming_messages_idle : forall (s s' : vsock) u,
  IBE s -> process_all_incoming_messages cci s = SOk s' u ->
  v_t_retransmit s' = v_t_retransmit s /\ (REC s -> REC s') /\ v_inbox s' = [] /\
  v_inbox_closed s' = false.
Proof.
  intros s s' u [Hi Hc] H. rewrite paim_eq in H. rewrite Hi in H. cbn [app recv_loop] in H.
  rewrite Hi, Hc in H. cbn [sbind fst] in H. unfold paim_rest in H.
  cbn [on_ack_result_default ar_acked_segments ar_newly_sacked_segments Z.ltb Z.compare orb sbind] in H.
  destruct (rv_phase (v_recovery (set_inbox_waker s true))) eqn:Ep.
  - inversion H; subst. vsimpl_goal. unfold REC, is_recovering. repeat split; auto.
  - inversion H; subst. vsimpl_goal. unfold REC, is_recovering. repeat split; auto.
  - destruct (calc_pipe _ _ _ _ _) as [[[sg pp] rcl]|]; [|discriminate].
    inversion H; subst. unfold set_recovering. vsimpl_goal. unfold REC, is_recovering. cbn [rv_phase].
    repeat split; auto.
Qed.

(* ------------------------------------------------------------------ send_tx_queue *)
Definition ITN (s : vsock) : Prop := iter_for_sending (v_segs s) None = [].
Definition V2 (s : vsock) : Prop := (PN s \/ REC s) /\ (NE s \/ ITN s).
Definition RB (s : vsock) : Prop := rto_in_bounds (v_rtte s).

Lemma filter_all_false : forall A (p : A -> bool) l, (forall x, In x l -> p x = false) -> filter p l = [].
Proof.
  intros A p l. induction l as [|y ys IH]; intro G; [reflexivity|]. cbn [filter].
  rewrite (G y (or_introl eq_refl)). apply IH. intros x Hx. apply G. right; exact Hx.
Qed.

Lemma iter_some_nil : forall t st, iter_for_sending t None = [] -> iter_for_sending t (Some st) = [].
Proof.
  intros t st H. unfold iter_for_sending in *. cbn [skipn] in H.
  pose proof (filter_nil_forall _ _ H) as F.
  match goal with |- filter ?p (map ?mk (enum_from ?o (skipn ?o ?l))) = [] =>
    assert (G : forall x, In x (map mk (enum_from o (skipn o l))) -> p x = false) end.
  { intros x Hx. apply in_map_iff in Hx. destruct Hx as ([i g] & <- & Hin).
    cbn [fs_seg]. apply enum_from_In in Hin.
    assert (Hg : In g (ss_segs t)).
    { rewrite <- (firstn_skipn (Z.to_nat (Z.max (seq_sub st (ss_snd_una t)) 0)) (ss_segs t)).
      apply in_or_app. right. exact Hin. }
    assert (Hex : exists j, In (j, g) (enum_from 0 (ss_segs t))).
    { generalize 0%nat. revert Hg. generalize (ss_segs t). induction l as [|y ys IH]; intros [] j.
      - subst. exists j. left; reflexivity.
      - destruct (IH H0 (S j)) as (k & K). exists k. right; exact K. }
    destruct Hex as (j & Hj).
    match type of F with forall x, In x (map ?mk0 ?items) -> _ =>
      specialize (F (mk0 (j, g)) (in_map mk0 _ _ Hj)) end.
    cbn [fs_seg] in F. exact F. }
  apply filter_all_false. exact G.
Qed.

Lemma on_rto_reactions_pp : forall (s s1 : vsock), on_rto_reactions cci s = Some s1 ->
  v_t_recovery_pipe s1 = v_t_recovery_pipe s /\ v_now s1 = v_now s /\ v_restart s1 = v_restart s /\
  v_t_retransmit s1 = v_t_retransmit s /\ RB s1 /\ v_segs s1 = v_segs s.
Proof.
  intros s s1 H. unfold on_rto_reactions in H.
  destruct (Rtte.on_rto_timeout (v_rtte s)) as [rt|] eqn:E; inversion H; subst.
  assert (B : rto_in_bounds rt) by (eapply timeout_in_bounds; exact E).
  unfold RB. vsimpl_goal. repeat split; try reflexivity; apply B.
Qed.

Lemma send_control_packet_segs : forall (s : vsock) h,
  stR (fun a b : vsock => v_segs b = v_segs a) s (send_control_packet s h).
Proof.
  intros s h. unfold send_control_packet. destruct (v_transport_pending s); [reflexivity|].
  unfold next_send.
  repeat break_match; try (inversion Heqp; subst); cbn [stR]; reflexivity.
Qed.

Lemma maybe_send_fin_segs : forall (s s' : vsock) b, maybe_send_fin s = SOk s' b -> v_segs s' = v_segs s.
Proof.
  intros s s' b H. unfold maybe_send_fin in H.
  destruct (v_transport_pending s); [inversion H; reflexivity|].
  destruct (our_fin_if_unacked _); [|inversion H; reflexivity].
  destruct (negb _); [inversion H; reflexivity|].
  pose proof (send_control_packet_segs s (hdr_with (outgoing_header s) ST_FIN z None)) as G.
  destruct (send_control_packet s _) as [s2 sent| |]; cbn [sbind stR] in *; try discriminate.
  destruct sent; inversion H; subst; exact G.
Qed.

(* the RTO branch *)
Lemma rto_branch_kn : forall (s : vsock) h,
  ti s -> (PN s \/ (REC s /\ NE s)) ->
  match rto_branch cci s h with
  | SOk s1 ret =>
      RB s1 /\ v_restart s1 = v_restart s /\ (PN s1 \/ REC s1) /\
      (ret = false -> v_rto_retransmissions s1 <= 0 -> V2 s1)
  | _ => True
  end.
Proof.
  intros s h Hti Hkn. unfold rto_branch.
  destruct (timer_expired (v_t_retransmit s) (v_now s)) eqn:Ex.
  2:{ split; [apply Hti|]. split; [reflexivity|]. split; [tauto|].
      intros _ _. unfold V2, NE. split; [tauto|left; exact Ex]. }
  assert (Hpn : PN s).
  { destruct Hkn as [H|[_ H]]; [exact H|]. unfold NE in H. congruence. }
  destruct (iter_for_sending (v_segs s) None) as [|f l] eqn:Eit.
  - (* nothing left to resend *)
    assert (Hoff : RB (set_t_retransmit s None) /\ v_restart (set_t_retransmit s None) = v_restart s /\
                   (PN (set_t_retransmit s None) \/ REC (set_t_retransmit s None)) /\
                   (false = false -> v_rto_retransmissions (set_t_retransmit s None) <= 0 ->
                    V2 (set_t_retransmit s None))).
    { split; [apply Hti|]. split; [reflexivity|]. split; [left; exact Hpn|].
      intros _ _. unfold V2. split; [left; exact Hpn|]. left. reflexivity. }
    destruct (our_fin_if_unacked _); [|exact Hoff].
    destruct (_ =? _); [|exact Hoff].
    set (s1 := set_last_sent_seq_nr s (wsub16 (v_last_sent_seq_nr s) 1)).
    pose proof (maybe_send_fin_qb s1) as Q. pose proof (maybe_send_fin_segs s1) as Sg.
    destruct (maybe_send_fin s1) as [s2 sent| |]; cbn [sbind stR] in *; auto.
    destruct Q as (Q1 & Q2 & Q3 & Q4 & Q5 & Q6 & Q7 & Q8 & Q9 & Q10 & Q11 & Q12).
    specialize (Sg s2 sent eq_refl).
    destruct sent.
    + destruct (on_rto_reactions cci s2) as [s3|] eqn:Er; [|exact I].
      apply on_rto_reactions_pp in Er. destruct Er as (R1 & R2 & R3 & R4 & R5 & R6).
      split; [exact R5|]. split; [vsimpl_goal; rewrite R3, Q9; exact eq_refl|].
      assert (Hp3 : PN (set_t_retransmit s3 (timer_arm (v_t_retransmit s3) (v_now s3)
                          (retransmission_timeout (v_rtte s3)) true))).
      { unfold PN. vsimpl_goal. rewrite R1, Q2. exact Hpn. }
      split; [left; exact Hp3|]. intros _ _. unfold V2. split; [left; exact Hp3|].
      left. unfold NE. vsimpl_goal. unfold timer_arm, timer_expired. pose proof (rto_pos _ R5).
      destruct (v_t_retransmit s3); lia.
    + split; [unfold RB; rewrite Q8; apply Hti|]. split; [rewrite Q9; exact eq_refl|].
      assert (Hp2 : PN s2) by (unfold PN; rewrite Q2; exact Hpn).
      split; [left; exact Hp2|]. intros _ _. unfold V2. split; [left; exact Hp2|].
      right. unfold ITN. rewrite Sg. exact Eit.
  - (* the first unacknowledged segment is resent *)
    pose proof (send_data_qb s h f) as Q. pose proof (send_data_ti s h f) as T.
    destruct (send_data s h f) as [s1 r|s1 e|]; cbn [stR] in *; auto.
    destruct Q as (Q1 & Q2 & Q3 & Q4 & Q5 & Q6 & Q7 & Q8 & Q9 & Q10 & Q11 & Q12).
    specialize (T Hti).
    assert (Hp1 : PN s1) by (unfold PN; rewrite Q2; exact Hpn).
    destruct r; auto.
    + cbv zeta.
      match goal with |- match (match ?o with _ => _ end) with _ => _ end => destruct o as [s2|] eqn:E end; [|exact I].
      assert (F2 : RB s2 /\ v_restart s2 = v_restart s1 /\ v_t_recovery_pipe s2 = v_t_recovery_pipe s1 /\
                   0 <= v_rto_retransmissions s2).
      { destruct (negb _).
        - pose proof (on_rto_reactions_ti cci _ _ E T) as T2.
          apply on_rto_reactions_pp in E. destruct E as (R1 & R2 & R3 & R4 & R5 & R6).
          split; [exact R5|]. split; [exact R3|]. split; [exact R1|]. apply T2.
        - injection E as <-. split; [apply T|]. split; [reflexivity|]. split; [reflexivity|]. apply T. }
      destruct F2 as (G1 & G2 & G3 & G4).
      split; [exact G1|]. split; [vsimpl_goal; congruence|].
      split; [left; unfold PN; vsimpl_goal; rewrite G3; exact Hp1|].
      intros _ Hr. cbn [v_rto_retransmissions set_rto_retransmissions set_last_sent_seq_nr set_t_retransmit] in Hr. lia.
    + split; [unfold RB; rewrite Q8; apply Hti|]. split; [exact Q9|]. split; [left; exact Hp1|].
      intro H; discriminate H.
Qed.

(* the recovery branch *)
Lemma rec_branch_kn : forall (s : vsock) h,
  RB s -> V2 s ->
  match rec_branch s h with
  | SOk s1 ret => RB s1 /\ v_restart s1 = v_restart s /\ V2 s1
  | _ => True
  end.
Proof.
  intros s h Hrb [Hpr Hni]. unfold rec_branch.
  destruct (rv_phase (v_recovery s)) as [rp|dup|rc] eqn:Ep.
  1,2: (split; [exact Hrb|]; split; [reflexivity|]; split; assumption).
  assert (Hafter : forall (s1 : vsock) res,
     RB s1 -> v_restart s1 = v_restart s -> (NE s1 \/ ITN s1) ->
     match rec_after rc h (mss (v_ss s)) s1 res with
     | SOk s2 ret => RB s2 /\ v_restart s2 = v_restart s /\ V2 s2
     | _ => True
     end).
  { intros s1 [st early] B1 R1 N1. unfold rec_after.
    assert (Hrec : forall x, REC (set_recovering s1 x)) by (intro x; exact eq_refl).
    destruct early.
    { split; [exact B1|]. split; [exact R1|]. split; [right; apply Hrec | exact N1]. }
    match goal with |- match (match our_fin_if_unacked (v_state ?y) with _ => _ end) with _ => _ end =>
      assert (F3 : RB y /\ v_restart y = v_restart s /\ REC y /\ (NE y \/ ITN y));
      [|revert F3; generalize y; intros sy F3] end.
    { destruct (_ <? _); [|split; [exact B1|]; split; [exact R1|]; split; [apply Hrec | exact N1]].
      destruct (rc_recalc rc); [split; [exact B1|]; split; [exact R1|]; split; [apply Hrec | exact N1]|].
      destruct (0 <? _); (split; [exact B1|]; split; [exact R1|]; split; [apply Hrec | exact N1]). }
    destruct F3 as (G1 & G2 & G3 & G4).
    destruct (our_fin_if_unacked _); [destruct (_ =? _)|];
      (split; [exact G1|]; split; [exact G2|]; split; [right; first [exact G3 | exact eq_refl] | exact G4]). }
  destruct Hni as [Hne|Hit].
  - pose proof (recovery_loop_qb (rec_items s rc) s h (mss (v_ss s)) (rec_st0 rc)) as Q.
    destruct (recovery_loop _ s h _ _) as [s1 res| |]; cbn [sbind stR] in *; auto.
    destruct Q as (Q1 & Q2 & Q3 & Q4 & Q5 & Q6 & Q7 & Q8 & Q9 & Q10 & Q11 & Q12).
    apply Hafter; [unfold RB; rewrite Q8; exact Hrb | exact Q9 | left; apply Q12; assumption].
  - assert (Ei : rec_items s rc = []).
    { unfold rec_items. unfold ITN in Hit. rewrite Hit. rewrite firstn_nil. reflexivity. }
    rewrite Ei. cbn [recovery_loop sbind]. apply Hafter; auto.
Qed.

(* never-sent data; the only place that requests a restart *)
Lemma new_branch_kn : forall (s : vsock) h,
  RB s -> V2 s ->
  match new_branch cci s h with
  | SOk s1 _ =>
      (v_restart s1 = v_restart s /\ (PN s1 \/ REC s1)) \/
      (v_restart s1 = true /\ (PN s1 \/ (REC s1 /\ NE s1)))
  | _ => True
  end.
Proof.
  intros s h Hrb [Hpr Hni]. unfold new_branch.
  destruct Hni as [Hne|Hit].
  - pose proof (new_data_loop_qb (new_items s) s h (new_remaining cci s)) as Q.
    destruct (new_data_loop _ s h _) as [s1 tl| |]; cbn [sbind stR] in *; auto.
    destruct Q as (Q1 & Q2 & Q3 & Q4 & Q5 & Q6 & Q7 & Q8 & Q9 & Q10 & Q11 & Q12).
    assert (Hpr1 : PN s1 \/ REC s1) by (unfold PN, REC; rewrite Q2, Q3; exact Hpr).
    assert (Hne1 : NE s1) by (apply Q12; assumption).
    unfold new_after. destruct tl as [[sq sz]|]; [|left; auto].
    destruct (pop_mtu_probe _ _) as [segs' popped]. destruct popped; [|exact I].
    right. split; [reflexivity|]. destruct Hpr1 as [H|H]; [left; exact H|right; split; [exact H|exact Hne1]].
  - unfold new_items, ITN in *. rewrite (iter_some_nil _ _ Hit). cbn [new_data_loop sbind new_after].
    left. auto.
Qed.

Theorem send_tx_queue_kn : forall (s : vsock),
  ti s -> (PN s \/ (REC s /\ NE s)) -> v_restart s = false ->
  match send_tx_queue cci s with
  | SOk s' _ =>
      (v_restart s' = true -> PN s' \/ (REC s' /\ NE s')) /\
      (v_restart s' = false -> PN s' \/ REC s')
  | _ => True
  end.
Proof.
  intros s Hti Hkn Hr. rewrite send_tx_queue_eq.
  destruct (v_transport_pending s).
  { split; [congruence|]. intros _. tauto. }
  pose proof (rto_branch_kn s (outgoing_header s) Hti Hkn) as H1.
  destruct (rto_branch cci s _) as [s1 ret| |]; cbn [sbind]; auto.
  destruct H1 as (B1 & R1 & P1 & V1). unfold after_rto_k.
  assert (Hstop : (v_restart s1 = true -> PN s1 \/ (REC s1 /\ NE s1)) /\ (v_restart s1 = false -> PN s1 \/ REC s1)).
  { split; [congruence|]. intros _. exact P1. }
  destruct ret; [exact Hstop|].
  destruct (0 <? v_rto_retransmissions s1) eqn:Ez; [exact Hstop|].
  destruct (ss_segs (v_segs s1)); [exact Hstop|].
  assert (V1' : V2 s1) by (apply V1; [reflexivity|lia]).
  pose proof (rec_branch_kn s1 (outgoing_header s) B1 V1') as H2.
  destruct (rec_branch s1 _) as [s2 ret2| |]; cbn [sbind]; auto.
  destruct H2 as (B2 & R2 & V2s).
  destruct ret2.
  { split; [congruence|]. intros _. apply V2s. }
  pose proof (new_branch_kn s2 (outgoing_header s) B2 V2s) as H3.
  destruct (new_branch cci s2 _) as [s3 u| |]; auto.
  destruct H3 as [[E3 P3]|[E3 P3]].
  - split; [congruence|]. intros _. exact P3.
  - split; [intros _; exact P3|congruence].
Qed.

Lemma classic_sc : forall (s : vsock), SC s \/ (SC s -> False).
Proof. intros s. unfold SC. destruct (state_is_closed _ _); [left; reflexivity | right; discriminate]. Qed.

(* ------------------------------------------------------------------ the stages of a poll *)
Definition ARM0 (s : vsock) : Prop := v_arm_in s = None.

Definition pA0 (s : vsock) : Prop :=
  ti s /\ ARM0 s /\ (SC s \/ PN s \/ (REC s /\ NE s /\ NW s /\ IBE s)).
Definition pA (s : vsock) : Prop :=
  ti s /\ ARM0 s /\ NW s /\ (SC s \/ PN s \/ (REC s /\ NE s /\ IBE s)).
Definition pB (s : vsock) : Prop :=
  ti s /\ ARM0 s /\ NW s /\ (SC s \/ (IBE s /\ (PN s \/ (REC s /\ NE s)))).
Definition pC (s : vsock) : Prop :=
  ti s /\ ARM0 s /\ NW s /\ (SC s \/ PN s \/ REC s).

Lemma reach_arm0 : forall (s s' : vsock), reach false false s s' -> ARM0 s -> ARM0 s'.
Proof. intros s s' H A. unfold ARM0 in *. rewrite (reach_arm_in _ _ _ H). exact A. Qed.

Lemma qb_pA : forall s s', qb s s' -> ti s' -> ARM0 s' -> pA s -> pA s'.
Proof.
  intros s s' (Q1 & Q2 & Q3 & Q4 & Q5 & Q6 & Q7 & Q8 & Q9 & Q10 & Q11 & Q12) T' A' (T & _ & W & H).
  unfold pA. split; [exact T'|]. split; [exact A'|]. split; [unfold NW in *; congruence|].
  destruct H as [H|[H|(H1 & H2 & H3)]].
  - left. auto.
  - right; left. unfold PN in *. congruence.
  - right; right. split; [unfold REC in *; congruence|]. split; [apply Q12; [apply T|exact H2]|].
    unfold IBE in *. rewrite Q6, Q7. exact H3.
Qed.

Lemma qb_pB : forall s s', qb s s' -> ti s' -> ARM0 s' -> pB s -> pB s'.
Proof.
  intros s s' (Q1 & Q2 & Q3 & Q4 & Q5 & Q6 & Q7 & Q8 & Q9 & Q10 & Q11 & Q12) T' A' (T & _ & W & H).
  unfold pB. split; [exact T'|]. split; [exact A'|]. split; [unfold NW in *; congruence|].
  destruct H as [H|(H0 & H)].
  - left. auto.
  - right. split; [unfold IBE in *; rewrite Q6, Q7; exact H0|].
    destruct H as [H|(H1 & H2)]; [left; unfold PN in *; congruence|].
    right. split; [unfold REC in *; congruence | apply Q12; [apply T|exact H2]].
Qed.

Lemma qb_pC : forall s s', qb s s' -> ti s' -> ARM0 s' -> pC s -> pC s'.
Proof.
  intros s s' (Q1 & Q2 & Q3 & Q4 & Q5 & Q6 & Q7 & Q8 & Q9 & Q10 & Q11 & Q12) T' A' (T & _ & W & H).
  unfold pC. split; [exact T'|]. split; [exact A'|]. split; [unfold NW in *; congruence|].
  destruct H as [H|[H|H]]; [left; auto | right; left; unfold PN in *; congruence |
                            right; right; unfold REC in *; congruence].
Qed.

(* a step that satisfies qb, keeps ti and does not touch arm_in keeps a stage predicate *)
Lemma stage_qb : forall (P : vsock -> Prop) X (s : vsock) (m : step X),
  (forall a b, qb a b -> ti b -> ARM0 b -> P a -> P b) ->
  (forall a, P a -> ti a /\ ARM0 a) ->
  stq s m -> stR tiR s m -> stR (reach false false) s m -> P s -> stU P m.
Proof.
  intros P X s m HP Hti Q T R Hs. destruct m as [s' a|s' e|]; cbn [stR stU] in *; auto.
  destruct (Hti _ Hs) as [T0 A0]. apply (HP s s'); auto. eapply reach_arm0; eassumption.
Qed.

Lemma pA_ti : forall a, pA a -> ti a /\ ARM0 a. Proof. intros a H. split; apply H. Qed.
Lemma pB_ti : forall a, pB a -> ti a /\ ARM0 a. Proof. intros a H. split; apply H. Qed.
Lemma pC_ti : forall a, pC a -> ti a /\ ARM0 a. Proof. intros a H. split; apply H. Qed.

Lemma no_restart_qb : forall X (s : vsock) (m : step X), stq s m -> no_restart s m.
Proof.
  intros X s m Q R. destruct m as [s' a|s' e|]; cbn [stR stU] in *; auto.
  destruct Q as (_ & _ & _ & _ & _ & _ & _ & _ & Q9 & _). congruence.
Qed.

Theorem poll_pipe_tail : forall (s s' : vsock),
  ti s -> PN s -> poll cci s = (s', PollPending) -> v_transport_pending s' = false ->
  exists sb, ti sb /\ v_arm_in sb = None /\ v_now sb = v_env_now sb /\
             (PN sb \/ REC sb) /\ v_transport_pending sb = false /\ s' = poll_tail sb.
Proof.
  intros s s' Hti Hpn H Hnp.
  assert (HS : tail_shape pC s').
  { apply (poll_S cci pA0 pA pB pB pC pC) with (s := s); try exact H.
    - (* poll_start *)
      intros a (T & A & Q). unfold pA. split; [apply poll_start_ti; exact T|].
      split; [exact A|]. split; [reflexivity|].
      destruct Q as [Q|[Q|(Q1 & Q2 & Q3 & Q4)]]; [left; exact Q | right; left; exact Q | right; right].
      split; [exact Q1|]. split; [|exact Q4]. unfold NE, NW in *. unfold poll_start. vsimpl_goal.
      rewrite <- Q3. exact Q2.
    - intros a Ha. apply stU_stC.
      apply (stage_qb pA _ a _ qb_pA pA_ti); auto using maybe_send_syn_ack_qb, maybe_send_syn_ack_ti, maybe_send_syn_ack_reach.
    - intros a Ha. apply stU_stC.
      apply (stage_qb pA _ a _ qb_pA pA_ti); auto using send_ack_qb, send_ack_ti.
      apply stf_strch, send_ack_txf.
    - (* process_all_incoming_messages *)
      intros a (T & A & W & Q).
      pose proof (process_all_incoming_messages_ti cci a) as T'.
      pose proof (process_all_incoming_messages_pimr a) as P'.
      pose proof (process_all_incoming_messages_reach cci false false a) as R'.
      pose proof (process_all_incoming_messages_post a) as Post.
      pose proof (process_all_incoming_messages_idle a) as Idle.
      destruct (process_all_incoming_messages cci a) as [b u| |]; cbn [stC stR] in *; auto.
      intro Tp. specialize (T' T). specialize (Post b u eq_refl). specialize (Idle b u).
      destruct P' as (P1 & P2 & P3 & P4 & P5 & P6 & P7).
      unfold pB. split; [exact T'|]. split; [eapply reach_arm0; eassumption|].
      split; [unfold NW in *; congruence|].
      destruct Q as [Q|Q]; [left; auto|].
      destruct Post as [Po|[Po|Po]]; [left; exact Po | congruence | right].
      split; [exact Po|].
      destruct Q as [Q|(Q1 & Q2 & Q3)]; [left; unfold PN in *; congruence|].
      destruct (Idle Q3 eq_refl) as (I1 & I2 & _). right. split; [auto|].
      unfold NE in *. rewrite I1, P3. exact Q2.
    - intros a rx1 fb w Ha _. apply (qb_pB a); [apply rx_flush_qb | | exact (proj1 (proj2 Ha)) | exact Ha].
      apply (rx_flush_ti a rx1 (rx_wakes w)). apply Ha.
    - intros a Ha.
      apply (stage_qb pB _ a _ qb_pB pB_ti); auto using split_tx_queue_into_segments_qb,
        split_tx_queue_into_segments_ti, split_tx_queue_into_segments_reach.
    - (* send_tx_queue *)
      intros a (T & A & W & Q) Ra.
      pose proof (send_tx_queue_ti cci a) as T'.
      pose proof (send_tx_queue_txf cci a) as X'.
      pose proof (send_tx_queue_frame cci a) as F'.
      assert (K' : (SC a -> False) ->
                   match send_tx_queue cci a with
                   | SOk s1 _ => (v_restart s1 = true -> PN s1 \/ (REC s1 /\ NE s1)) /\
                                 (v_restart s1 = false -> PN s1 \/ REC s1)
                   | _ => True end).
      { intro Hn. apply send_tx_queue_kn; [exact T| |exact Ra].
        destruct Q as [Q|(_ & Q)]; [contradiction | exact Q]. }
      destruct (send_tx_queue cci a) as [b u| |]; cbn [stU stR step_frame] in *; auto.
      specialize (T' T).
      destruct X' as (X1 & X2 & X3 & X4 & X5 & X6 & X7 & X8).
      destruct F' as (F1 & F2 & F3 & _).
      assert (Ab : ARM0 b) by (unfold ARM0 in *; congruence).
      assert (Wb : NW b) by (unfold NW in *; congruence).
      assert (Sb : SC a -> SC b) by (unfold SC; rewrite X7, F1; auto).
      assert (Ib : IBE a -> IBE b) by (unfold IBE; rewrite X5, X6; auto).
      destruct Q as [Q|(Q0 & Q)].
      + split; intros; [unfold pA0 | unfold pC]; repeat (split; [assumption|]); left; auto.
      + destruct (classic_sc a) as [Hs|Hs].
        * split; intros; [unfold pA0 | unfold pC]; repeat (split; [assumption|]); left; auto.
        * destruct (K' Hs) as [K1 K2]. split.
          -- intro Rb. unfold pA0. split; [exact T'|]. split; [exact Ab|].
             destruct (K1 Rb) as [K|[K3 K4]]; [right; left; exact K|right; right]. auto.
          -- intros Rb _. unfold pC. split; [exact T'|]. split; [exact Ab|]. split; [exact Wb|].
             right. exact (K2 Rb).
    - intros a Ha. apply (qb_pC a); [apply transition_to_fin_wait_1_qb | | | exact Ha].
      + apply transition_to_fin_wait_1_ti. apply Ha.
      + eapply reach_arm0; [apply transition_to_fin_wait_1_reach | apply Ha].
    - intros a Ha. apply stU_stC.
      apply (stage_qb pC _ a _ qb_pC pC_ti); auto using maybe_send_fin_qb, maybe_send_fin_ti.
      apply stf_strch, maybe_send_fin_txf.
    - intros a Ha. apply stU_stC.
      apply (stage_qb pC _ a _ qb_pC pC_ti); auto using maybe_send_ack_qb, maybe_send_ack_ti.
      apply stf_strch, maybe_send_ack_txf.
    - intro a. apply no_restart_qb, maybe_send_syn_ack_qb.
    - intro a. apply no_restart_qb, send_ack_qb.
    - intros a Ra. pose proof (process_all_incoming_messages_pimr a) as P'.
      destruct (process_all_incoming_messages cci a); cbn [stU stR] in *; auto.
      destruct P' as (_ & _ & _ & _ & _ & P6 & _). congruence.
    - intro a. apply no_restart_qb, split_tx_queue_into_segments_qb.
    - apply transition_to_fin_wait_1_restart.
    - intro a. apply no_restart_qb, maybe_send_fin_qb.
    - intro a. apply no_restart_qb, maybe_send_ack_qb.
    - unfold pA0. split; [exact Hti|]. split; [reflexivity|]. right; left. exact Hpn. }
  destruct HS as [HS|(sb & (T & A & W & Q) & Tp & Rs & Cl & ->)]; [congruence|].
  exists sb. split; [exact T|]. split; [exact A|]. split; [exact W|].
  split; [|split; [exact Tp|reflexivity]].
  destruct Q as [Q|[Q|Q]]; [unfold SC in Q; congruence | left; exact Q | right; exact Q].
Qed.

End WithCC.

(* C04 at connection level — acknowledgements never overstate and never move backwards.
   Model-only file.  Trace predicate over Conn/VObs.fstep, evaluated on the implementation's traces.
   "Every acknowledgement number an endpoint emits equals the highest sequence number it has received and
   stored in order": an emitted ack_nr that lies k above the number the connection started with requires
   that ALL of the k sequence numbers in between were delivered to the endpoint (as ST_DATA with payload or
   as ST_FIN); what the endpoint may additionally refuse (window, capacity) only makes the ack lower, which
   is the honest direction.  "Never moves backwards": successive emitted ack numbers are non-decreasing in
   sequence order.  Judged while the distances stay within the wrap tolerance (D4). *)
From Utp Require Import Base.Prelude Wire.SeqNr Wire.Header Conn.Recovery Conn.Msg Conn.VSockRun Conn.VObs.

Definition carries_seq (h : chdr) (plen : Z) : bool :=
  match ch_type h with ST_DATA => 0 <? plen | ST_FIN => true | _ => false end.

(* all of base+1 .. base+k were received *)
Fixpoint contiguous (recv : list Z) (base : Z) (k : nat) : bool :=
  match k with
  | O => true
  | S k' => existsb (Z.eqb (wadd16 base (Z.of_nat k))) recv && contiguous recv base k'
  end.

Definition ack_honest (recv : list Z) (base ack : Z) : bool :=
  let k := seq_sub ack base in
  if k <? 0 then false
  else if k <=? 1000 then contiguous recv base (Z.to_nat k) else true.

Definition pkt_acks (p : fpacket) : bool :=
  match ch_type (fq_hdr p) with ST_SYN => false | _ => true end.

Fixpoint ack_scan (pk : list fpacket) (recv : list Z) (base last : Z) : option Z :=
  match pk with
  | [] => Some last
  | p :: r =>
      if pkt_acks p then
        let a := ch_ack (fq_hdr p) in
        if ack_honest recv base a && (0 <=? seq_sub a last) then ack_scan r recv base a else None
      else ack_scan r recv base last
  end.

Fixpoint c04_ack_trace (tr : list fstep) (recv : list Z) (base last : Z) : bool :=
  match tr with
  | [] => true
  | st :: r =>
      match fs_event st, fs_result st with
      | FeDeliver h plen, _ =>
          c04_ack_trace r (if carries_seq h plen then ch_seq h :: recv else recv) base last
      | FePoll _, FrPoll _ pkts _ _ =>
          match ack_scan pkts recv base last with
          | Some last' => c04_ack_trace r recv base last'
          | None => false
          end
      | _, _ => c04_ack_trace r recv base last
      end
  end.

(* base = the last consumed remote sequence number the connection starts with *)
Definition c04_vsock_ack_ok (cfg : vconfig) (tr : list fstep) : bool :=
  match tr with
  | [] => true
  | st :: _ => let b := f_last_consumed (fs_pre st) in c04_ack_trace tr [] b b
  end.

(* known class D19 (repaired by a fix: commit, kept as a regression classifier): an ST_FIN that is not the
   next sequence number is delivered while the connection is still in its handshake states *)
Definition c04_d19_class (cfg : vconfig) (tr : list fstep) : bool :=
  existsb (fun st =>
    match fs_event st with
    | FeDeliver h _ =>
        match ch_type h, f_state (fs_pre st) with
        | ST_FIN, (SynReceived | SynAckSent _) =>
            negb (ch_seq h =? wadd16 (f_last_consumed (fs_pre st)) 1)
        | _, _ => false
        end
    | _ => false
    end) tr.

(* C04: c04_consumed_honest_ok (Conn/C04_Pred2.v: after EVERY event the number the endpoint would acknowledge is
   honest and has not moved back) under the same guard as c04_vsock_ack_ok (Conn/C04_Guard.v c04_peer_ok), for
   every trace of the model.  Uses the trace invariant TI of Conn/C04_Step.v. *)
From Utp Require Import Base.Prelude Wire.SeqNr Wire.SeqNr_Proofs Wire.Header Rtt.Rtte Mtu.SegSizes
  Rx.Rx Rx.Rx_Proofs Tx.Ring Tx.Segments Conn.Recovery Conn.Msg Conn.VSockRec Conn.VSock Conn.VSockRun Conn.VObs
  Conn.VSock_Lemmas Conn.VSock_LemmasStep Conn.C04_Pred Conn.C04_Pred2 Conn.C04_Guard Conn.C17_TraceLemmas Conn.C04_Step.

Section WithCC.
Context {CC : Type} (cci : cc_iface CC).
Notation vsock := (vsock CC).

(* what the invariant says about the number that would be acknowledged now *)
Lemma TI_check b recv Rd Rf last (s : vsock) :
  TI b recv Rd Rf last s ->
  ack_honest recv b (v_last_consumed s) = true /\ 0 <= seq_sub (v_last_consumed s) last /\
  TI b recv Rd Rf (v_last_consumed s) s.
Proof.
  intros (Hb & G3 & Htol & Hrecv & K & Kl & P & -> & HKl).
  pose proof (PI_K_tol b Rd Rf G3 Htol _ _ P) as HK.
  assert (Hlc : v_last_consumed s = wadd16 b K) by (apply (pi_lc _ _ _ _ _ P)).
  rewrite Hlc. split; [|split].
  - unfold ack_honest. rewrite (seq_sub_base b K Hb) by lia.
    destruct (Z.ltb_spec K 0); [lia|]. destruct (K <=? 1000); [|reflexivity].
    apply contiguous_ok. intros i Hi. apply Hrecv. apply (pi_contig _ _ _ _ _ P). lia.
  - rewrite seq_sub_small by lia. lia.
  - split; [exact Hb|]. split; [exact G3|]. split; [exact Htol|]. split; [exact Hrecv|].
    exists K, K. split; [exact P|]. split; [reflexivity|lia].
Qed.

(* a whole poll keeps the invariant with the same `last` *)
Lemma c04_poll_TI b recv Rd Rf last (s : vsock) sc s' r :
  TI b recv Rd Rf last s -> poll cci (VSockRec.set_sends s sc) = (s', r) -> TI b recv Rd Rf last s'.
Proof.
  intros (Hb & G3 & Htol & Hrecv & K & Kl & P & -> & HKl) E.
  assert (H0 : PO b Rd Rf Kl (poll_init (VSockRec.set_sends s sc))).
  { exists K. split; [|unfold poll_init; vsimpl; cbn [AckL]; lia].
    eapply PI_fields; [exact P|reflexivity..]. }
  pose proof (poll_Inv cci (PO b Rd Rf Kl) (PO_RX b Rd Rf G3 Htol Kl) (PO_msg cci b Rd Rf Hb G3 Htol Kl)
                (PO_closed b Rd Rf Kl) _ _ _ E H0) as (K' & P' & A').
  assert (Hle : Kl <= K') by (eapply AckL_lo_hi; eauto).
  split; [exact Hb|]. split; [exact G3|]. split; [exact Htol|]. split; [exact Hrecv|].
  exists K', Kl. split; [exact P'|]. split; [reflexivity|lia].
Qed.

Lemma consumed_trace_cons st r recv b last :
  c04_consumed_trace (st :: r) recv b last =
  let recv' := match fs_event st with
               | FeDeliver h plen => if carries_seq h plen then ch_seq h :: recv else recv
               | _ => recv
               end in
  let c := f_last_consumed (fs_post st) in
  if ack_honest recv' b c && (0 <=? seq_sub c last) then c04_consumed_trace r recv' b c else false.
Proof. reflexivity. Qed.

Theorem c04_consumed_walk : forall ops (s : vsock) b recv Rd Rf last,
  TI b recv Rd Rf last s ->
  c04_guard_scan (ftrace cci s ops) b Rd Rf = true ->
  c04_consumed_trace (ftrace cci s ops) recv b last = true.
Proof.
  induction ops as [|o ops IH]; intros s b recv Rd Rf last Hi Hg; [reflexivity|].
  rewrite ftrace_cons in Hg |- *. rewrite consumed_trace_cons. cbv zeta.
  rewrite fstep_of_post. cbn [fp_of_vsock f_last_consumed].
  assert (Hcase : (exists sc, o = VoPoll sc) \/ (exists m, o = VoDeliver m) \/
                  match o with VoPoll _ | VoDeliver _ => False | _ => True end)
    by (destruct o; eauto).
  destruct Hcase as [[sc ->]|[[m ->]|Ho]].
  - (* poll *)
    destruct (poll cci (VSockRec.set_sends s sc)) as [s' r] eqn:E.
    pose proof (c04_poll_TI b recv Rd Rf last s sc s' r Hi E) as Hi'.
    assert (Hf : snd (fst (fst (vstep cci s (VoPoll sc)))) = VrPoll r (rev (v_out s')) (rev (v_wakes s')) (v_arm_in s')).
    { cbn [vstep]. rewrite E. reflexivity. }
    assert (Hs : vstep_state cci s (VoPoll sc) = s').
    { unfold vstep_state. cbn [vstep]. rewrite E. reflexivity. }
    rewrite Hf, Hs in Hg |- *.
    rewrite guard_scan_other in Hg by (rewrite (fstep_of_poll cci s sc s' r E); discriminate).
    rewrite fstep_of_event. cbn [fevent_of].
    destruct (TI_check _ _ _ _ _ _ Hi') as (C1 & C2 & Hi'').
    rewrite C1. destruct (Z.leb_spec 0 (seq_sub (v_last_consumed s') last)); [|lia]. cbn [andb].
    unfold poll_finished in Hg |- *. destruct r; try reflexivity. eapply IH; eauto.
  - (* deliver *)
    assert (Hf : poll_finished (snd (fst (fst (vstep cci s (VoDeliver m))))) = false).
    { cbn [vstep]. destruct (v_inbox_closed s); reflexivity. }
    rewrite Hf in Hg |- *.
    assert (Ev : fs_event (fstep_of cci s (VoDeliver m)) = FeDeliver (m_hdr m) (Z.of_nat (length (m_payload m))))
      by (rewrite fstep_of_event; reflexivity).
    rewrite (guard_scan_deliver _ _ _ _ _ _ _ Ev) in Hg. rewrite Ev.
    pose proof (TI_deliver cci b recv Rd Rf last s m Hi) as Hd. cbv zeta in Hd.
    destruct (carries_seq (m_hdr m) (Z.of_nat (length (m_payload m)))) eqn:Ec.
    + apply andb_true_iff in Hg. destruct Hg as [Hg1 Hg2].
      destruct (ptype_eqb (ch_type (m_hdr m)) ST_FIN) eqn:Ef;
        apply andb_true_iff in Hg2; destruct Hg2 as [Hg2 Hg3];
        (assert (Hi' := Hd ltac:(rewrite Hg1, Hg2; reflexivity));
         destruct (TI_check _ _ _ _ _ _ Hi') as (C1 & C2 & Hi'');
         rewrite C1; destruct (Z.leb_spec 0 (seq_sub (v_last_consumed (vstep_state cci s (VoDeliver m))) last)); [|lia];
         cbn [andb]; eapply IH; [exact Hi''|exact Hg3]).
    + assert (Hi' := Hd eq_refl).
      destruct (TI_check _ _ _ _ _ _ Hi') as (C1 & C2 & Hi'').
      rewrite C1. destruct (Z.leb_spec 0 (seq_sub (v_last_consumed (vstep_state cci s (VoDeliver m))) last)); [|lia].
      cbn [andb]. eapply IH; [exact Hi''|exact Hg].
  - (* the application, the clock, the path limit, the channel *)
    destruct (vstep_event_other cci s o Ho) as (N1 & N2 & N3).
    rewrite N3 in Hg |- *. rewrite (guard_scan_other _ _ _ _ _ N1) in Hg.
    assert (Hi' : TI b recv Rd Rf last (vstep_state cci s o)) by (apply TI_other; assumption).
    destruct (TI_check _ _ _ _ _ _ Hi') as (C1 & C2 & Hi'').
    assert (Er : match fs_event (fstep_of cci s o) with
                 | FeDeliver h plen => if carries_seq h plen then ch_seq h :: recv else recv
                 | _ => recv end = recv).
    { destruct (fs_event (fstep_of cci s o)) eqn:Ev; try reflexivity. exfalso. eapply N1; reflexivity. }
    rewrite Er, C1. destruct (Z.leb_spec 0 (seq_sub (v_last_consumed (vstep_state cci s o)) last)); [|lia].
    cbn [andb]. eapply IH; [exact Hi''|exact Hg].
Qed.

Definition c04_consumed_honest_guarded (cfg : vconfig) (tr : list fstep) : bool :=
  if c04_peer_ok cfg tr then c04_consumed_honest_ok cfg tr else true.

Theorem c04_consumed_honest_guarded_trace : forall mk c cfg (s0 : vsock) ops,
  C10_Pred.vconfig_ok c = true -> vsock_new cci mk c = Some s0 ->
  c04_consumed_honest_guarded cfg (ftrace cci s0 ops) = true.
Proof.
  intros mk c cfg s0 ops Hc Hn. unfold c04_consumed_honest_guarded.
  destruct (c04_peer_ok cfg (ftrace cci s0 ops)) eqn:Hg; [|reflexivity].
  unfold c04_peer_ok, c04_consumed_honest_ok in *.
  destruct ops as [|o ops]; [reflexivity|].
  rewrite ftrace_cons in Hg |- *. rewrite fstep_of_pre in Hg |- *.
  cbn [fp_of_vsock f_last_consumed] in Hg |- *.
  rewrite <- ftrace_cons in Hg |- *.
  apply (c04_consumed_walk (o :: ops) s0 (v_last_consumed s0) [] [] [] (v_last_consumed s0)); [|exact Hg].
  eapply vsock_new_TI; eauto.
Qed.

End WithCC.

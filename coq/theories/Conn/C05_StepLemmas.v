(* C05, step level: relational lemmas about every function a poll calls, for the sender-side clauses
   (single-segment mode after an RTO, exit from it, zero window, window budget).
   - [dout]: the ST_DATA datagrams among v_out;
   - [SQ]:  what the functions that do not touch the sender do (control datagrams only, RTO counter,
            retransmission timer, last_sent_seq_nr, table, congestion state kept);
   - [QREL now]: what the functions that do not send data do to (counter, timer expiry at `now`,
            last_sent_seq_nr): either all kept (the FIN may move last_sent_seq_nr by one), or the counter
            is reset to 0 and the timer is not expired at `now`;
   - [J r0 e0 now]: the ghost invariant of one poll for c05_rto_single_ok. *)
From Utp Require Import Base.Prelude Wire.SeqNr Wire.Header Rtt.Rtte Rtt.Rtte_Proofs Mtu.SegSizes Rx.Rx Tx.Ring
  Tx.Segments Tx.Segments_Proofs Tx.Segments_ProofsOut Conn.Recovery Conn.Msg Conn.VSockRec Conn.VSock
  Conn.VSockRun Conn.VObs Conn.VSock_Lemmas Conn.VSock_LemmasTx Conn.VSock_LemmasIn Conn.VSock_LemmasStep
  Conn.VSock_LemmasTimers Conn.C17_StepLemmas Conn.C05_Pred.

(* ------------------------------------------------------------------ arithmetic *)
Lemma seq_sub_refl a : seq_sub a a = 0.
Proof. unfold seq_sub, seq_nr_offset. rewrite Z.ltb_irrefl, Z.eqb_refl. reflexivity. Qed.

Lemma seq_sub_one a b : seq_sub a b = 1 -> 0 <= b < M16 -> wsub16 a 1 = b.
Proof.
  unfold seq_sub, seq_nr_offset, wsub16, WRAP_TOLERANCE, M16. intros H Hb.
  destruct (Z.ltb_spec a b).
  - destruct (Z.leb_spec ((a - b) mod 65536) 1024); lia.
  - destruct (Z.eqb_spec a b); [lia|].
    destruct (Z.leb_spec ((b - a) mod 65536) 1024); lia.
Qed.

Lemma timer_arm_expired t now d r :
  0 < d -> timer_expired (timer_arm t now d r) now = true -> r = false /\ timer_expired t now = true.
Proof.
  unfold timer_arm, timer_expired. intros Hd H.
  destruct t as [e|]; [destruct r|]; apply Z.leb_le in H; try (exfalso; lia).
  split; [reflexivity|]. apply Z.leb_le. lia.
Qed.

Lemma timer_arm_restart_fresh t now d : 0 < d -> timer_expired (timer_arm t now d true) now = false.
Proof.
  intro Hd. destruct (timer_expired (timer_arm t now d true) now) eqn:E; [|reflexivity].
  apply timer_arm_expired in E; [destruct E; discriminate|exact Hd].
Qed.

Lemma rto_pos r : rto_in_bounds r -> 0 < retransmission_timeout r.
Proof. unfold rto_in_bounds, RTTE_MIN_RTO, MS. lia. Qed.

Section WithCC.
Context {CC : Type} (cci : cc_iface CC).
Notation vsock := (vsock CC).

(* ------------------------------------------------------------------ data datagrams *)
Definition is_data (p : packet) : bool :=
  match ch_type (p_hdr p) with ST_DATA => true | _ => false end.

Definition dout (s : vsock) : list packet := filter is_data (v_out s).

Definition texp (s : vsock) (now : Z) : bool := timer_expired (v_t_retransmit s) now.

Lemma is_data_ctrl (s : vsock) h : ch_type h <> ST_DATA -> is_data (ctrl_pkt s h) = false.
Proof. unfold is_data, ctrl_pkt, hdr_with; cbn [p_hdr ch_type]. destruct (ch_type h); congruence. Qed.

Lemma is_data_data_pkt (s : vsock) h f : is_data (data_pkt s h f) = true.
Proof. reflexivity. Qed.

Lemma dout_cons_ctrl (s s' : vsock) p :
  v_out s' = p :: v_out s -> is_data p = false -> dout s' = dout s.
Proof. unfold dout. intros -> H. cbn [filter]. rewrite H. reflexivity. Qed.

Lemma dout_eq (s s' : vsock) : v_out s' = v_out s -> dout s' = dout s.
Proof. unfold dout. intros ->. reflexivity. Qed.

(* ------------------------------------------------------------------ the bundle every lemma carries *)
Definition B (now : Z) (s : vsock) : Prop := ti s /\ v_now s = now /\ v_env_now s = now.

Lemma B_keep now (s s' : vsock) :
  tiR s s' -> v_now s' = v_now s -> v_env_now s' = v_env_now s -> B now s -> B now s'.
Proof. intros T N E (H1 & H2 & H3). split; [auto|]. split; congruence. Qed.

Lemma B_frame now (s s' : vsock) : tiR s s' -> frame s s' -> B now s -> B now s'.
Proof. intros T (_ & E & N & _). apply B_keep; assumption. Qed.

Lemma B_frame0 now (s s' : vsock) : tiR s s' -> frame0 s s' -> B now s -> B now s'.
Proof. intros T (_ & E & N & _). apply B_keep; assumption. Qed.

Lemma B_rto_pos now (s : vsock) : B now s -> 0 < retransmission_timeout (v_rtte s).
Proof. intros ((H & _) & _). apply rto_pos. exact H. Qed.

(* ------------------------------------------------------------------ SQ: the sender is left alone *)
Definition SQ (s s' : vsock) : Prop :=
  dout s' = dout s /\ st_rel (v_state s) (v_state s') /\
  v_rto_retransmissions s' = v_rto_retransmissions s /\ v_t_retransmit s' = v_t_retransmit s /\
  v_last_sent_seq_nr s' = v_last_sent_seq_nr s /\ v_segs s' = v_segs s /\ v_cc s' = v_cc s /\
  v_last_remote_window s' = v_last_remote_window s /\ v_recovery s' = v_recovery s /\
  v_ss s' = v_ss s /\ v_rtte s' = v_rtte s.

Lemma SQ_refl s : SQ s s.
Proof. unfold SQ. repeat split; try reflexivity. apply st_rel_refl. Qed.

Lemma SQ_trans a b c : SQ a b -> SQ b c -> SQ a c.
Proof.
  unfold SQ. intros (A1&A2&A3&A4&A5&A6&A7&A8&A9&A10&A11) (B1&B2&B3&B4&B5&B6&B7&B8&B9&B10&B11).
  repeat split; try congruence. eapply st_rel_trans; eauto.
Qed.

(* b = a with only fields outside SQ changed, the datagram list kept *)
Lemma SQ_same (s s' : vsock) :
  v_out s' = v_out s -> v_state s' = v_state s ->
  v_rto_retransmissions s' = v_rto_retransmissions s -> v_t_retransmit s' = v_t_retransmit s ->
  v_last_sent_seq_nr s' = v_last_sent_seq_nr s -> v_segs s' = v_segs s -> v_cc s' = v_cc s ->
  v_last_remote_window s' = v_last_remote_window s -> v_recovery s' = v_recovery s ->
  v_ss s' = v_ss s -> v_rtte s' = v_rtte s -> SQ s s'.
Proof.
  intros E1 E2 E3 E4 E5 E6 E7 E8 E9 E10 E11. unfold SQ. repeat split; try assumption.
  - apply dout_eq; exact E1.
  - rewrite E2. apply st_rel_refl.
Qed.

Ltac sq_same := apply SQ_same; exact eq_refl.

Lemma sd_unchanged_SQ (s s' : vsock) : sd_unchanged s s' -> SQ s s'.
Proof.
  intros (Hf & Ho & Hs & Hl & Ht & _). unfold sd_frame in Hf.
  destruct Hf as (F1 & F2 & F3 & F4 & F5 & F6 & F7 & F8 & F9 & F10 & _).
  apply SQ_same; assumption.
Qed.

Definition stk (R : vsock -> vsock -> Prop) {A} (s : vsock) (m : step A) : Prop :=
  match m with SOk s' _ => R s s' | _ => True end.

Lemma stk_bind (R : vsock -> vsock -> Prop) (Rt : forall a b c, R a b -> R b c -> R a c)
  {A X} (m : step A) (f : vsock -> A -> step X) s :
  stk R s m -> (forall s1 a, stk R s1 (f s1 a)) -> stk R s (sbind m f).
Proof.
  intros Hm Hf. destruct m as [s1 a|s1 e|]; cbn [sbind stk] in *; auto.
  specialize (Hf s1 a). destruct (f s1 a); cbn [stk] in *; auto. eapply Rt; eauto.
Qed.

Lemma stk_weaken (R : vsock -> vsock -> Prop) (Rt : forall a b c, R a b -> R b c -> R a c)
  {A} (m : step A) s0 s : R s0 s -> stk R s m -> stk R s0 m.
Proof. intros H Hm. destruct m; cbn [stk] in *; auto. eapply Rt; eauto. Qed.

Lemma send_control_packet_SQ (s : vsock) h :
  ch_type h <> ST_DATA -> stk SQ s (send_control_packet s h).
Proof.
  intro Ht. pose proof (send_control_packet_spec s h) as H.
  destruct (send_control_packet s h) as [s' [|]|s' e|]; cbn [stk]; auto.
  - destruct H as (Hf & Ho & Hs & Hl & Htr & _). unfold sd_frame in Hf.
    destruct Hf as (F1 & F2 & F3 & F4 & F5 & F6 & F7 & F8 & F9 & F10 & _).
    unfold SQ. repeat split; try assumption.
    + eapply dout_cons_ctrl; [exact Ho|]. apply is_data_ctrl. exact Ht.
    + rewrite F10. apply st_rel_refl.
  - apply sd_unchanged_SQ. exact H.
Qed.

Lemma send_ack_SQ (s : vsock) : stk SQ s (send_ack s).
Proof. unfold send_ack. apply send_control_packet_SQ. cbn [hdr_with ch_type]. discriminate. Qed.

Lemma maybe_send_ack_SQ (s : vsock) : stk SQ s (maybe_send_ack s).
Proof.
  unfold maybe_send_ack. pose proof (send_ack_SQ s) as G.
  destruct (immediate_ack_to_transmit s); [exact G|].
  destruct (should_send_window_update s); [exact G|].
  destruct (timer_expired _ _).
  - destruct (ack_to_transmit s); [exact G|]. cbn [stk]. sq_same.
  - destruct (0 <? v_cbu s); cbn [stk]; sq_same.
Qed.

Lemma maybe_send_syn_ack_SQ (s : vsock) : stk SQ s (maybe_send_syn_ack s).
Proof.
  unfold maybe_send_syn_ack.
  assert (G : forall c, is_local_fin_or_later (v_state s) = false -> stk SQ s
     (if c =? o_max_retx (v_opts s) then SErr s ErrMaxSynAckRetransmissionsReached
      else sbind (send_ack s) (fun s1 sent =>
        if sent then SOk (set_t_syn_ack_resend (set_state s1 (SynAckSent (c + 1)))
               (timer_arm (v_t_syn_ack_resend s1) (v_now s1) SYNACK_RESEND_INTERNAL true)) tt
        else SOk s1 tt))).
  { intros c Hl. destruct (_ =? _); [exact I|].
    pose proof (send_ack_SQ s) as Ha.
    destruct (send_ack s) as [s1 [|]|s1 e|]; cbn [sbind stk] in *; auto.
    destruct Ha as (A1&A2&A3&A4&A5&A6&A7&A8&A9&A10&A11).
    unfold SQ. vsimpl_goal. repeat split; try assumption.
    destruct (v_state s); cbn [st_rel]; try exact I; discriminate. }
  destruct (v_state s) eqn:Es; try (cbn [stk]; sq_same).
  - apply G. reflexivity.
  - destruct (timer_expired _ _); [apply G; reflexivity|apply SQ_refl].
Qed.

Lemma poll_start_SQ (s : vsock) : SQ s (poll_start s).
Proof. unfold poll_start. sq_same. Qed.

Lemma add_wakes_rx_SQ (s : vsock) rx1 w : SQ s (add_wakes (set_rx s rx1) w).
Proof. unfold add_wakes. sq_same. Qed.

Lemma transition_to_fin_wait_1_SQ (s : vsock) : SQ s (transition_to_fin_wait_1 s).
Proof.
  unfold transition_to_fin_wait_1.
  destruct (v_state s) eqn:Es; try apply SQ_refl;
    (unfold SQ; vsimpl_goal; rewrite Es; cbn [st_rel]; repeat split).
Qed.

Lemma poll_tail_SQ (s : vsock) : SQ s (poll_tail s).
Proof.
  unfold poll_tail, next_timer_to_poll, arm_in, add_wakes.
  repeat break_match; try (inversion Heqp; subst); sq_same.
Qed.

(* ------------------------------------------------------------------ QREL *)
Definition FINREL (s s' : vsock) : Prop :=
  v_last_sent_seq_nr s' = v_last_sent_seq_nr s \/
  exists stm, st_rel (v_state s) stm /\ st_rel stm (v_state s') /\
     our_fin_if_unacked stm = Some (v_last_sent_seq_nr s') /\
     seq_sub (v_last_sent_seq_nr s') (v_last_sent_seq_nr s) = 1.

Definition QREL (now : Z) (s s' : vsock) : Prop :=
  dout s' = dout s /\ st_rel (v_state s) (v_state s') /\
  ((v_rto_retransmissions s' = v_rto_retransmissions s /\ (texp s' now = true -> texp s now = true) /\
    FINREL s s')
   \/ (v_rto_retransmissions s' = 0 /\ texp s' now = false)).

Lemma FINREL_trans a b c :
  st_rel (v_state a) (v_state b) -> st_rel (v_state b) (v_state c) ->
  FINREL a b -> FINREL b c -> FINREL a c.
Proof.
  intros Sab Sbc [H1|(m1 & A1 & A2 & A3 & A4)] [H2|(m2 & B1 & B2 & B3 & B4)].
  - left. congruence.
  - right. exists m2. rewrite <- H1. repeat split; auto. eapply st_rel_trans; eauto.
  - right. exists m1. rewrite H2. repeat split; auto. eapply st_rel_trans; eauto.
  - exfalso. assert (S12 : st_rel m1 m2) by (eapply st_rel_trans; eauto).
    pose proof (st_rel_fin _ _ _ _ S12 A3 B3) as E. rewrite E, seq_sub_refl in B4. discriminate.
Qed.

Lemma QREL_refl now s : QREL now s s.
Proof. unfold QREL. split; [reflexivity|]. split; [apply st_rel_refl|]. left. split; [reflexivity|]. split; [auto|left; reflexivity]. Qed.

Lemma QREL_trans now a b c : QREL now a b -> QREL now b c -> QREL now a c.
Proof.
  intros (A1 & A2 & A3) (B1 & B2 & B3). split; [congruence|]. split; [eapply st_rel_trans; eauto|].
  destruct B3 as [(B3 & B4 & B5)|(B3 & B4)]; [|right; auto].
  destruct A3 as [(A3 & A4 & A5)|(A3 & A4)].
  - left. split; [congruence|]. split; [auto|]. eapply FINREL_trans; eauto.
  - right. split; [congruence|]. destruct (texp c now) eqn:E; [|reflexivity]. rewrite (B4 eq_refl) in A4. discriminate.
Qed.

Lemma SQ_QREL now (s s' : vsock) : SQ s s' -> QREL now s s'.
Proof.
  intros (A1&A2&A3&A4&A5&_). split; [exact A1|]. split; [exact A2|]. left.
  split; [exact A3|]. split; [unfold texp; rewrite A4; auto|left; exact A5].
Qed.

(* dout, the state relation, counter, timer and last_sent_seq_nr kept *)
Definition MQ (s s' : vsock) : Prop :=
  dout s' = dout s /\ st_rel (v_state s) (v_state s') /\
  v_rto_retransmissions s' = v_rto_retransmissions s /\ v_t_retransmit s' = v_t_retransmit s /\
  v_last_sent_seq_nr s' = v_last_sent_seq_nr s.

Lemma MQ_QREL now (s s' : vsock) : MQ s s' -> QREL now s s'.
Proof.
  intros (A1&A2&A3&A4&A5). split; [exact A1|]. split; [exact A2|]. left.
  split; [exact A3|]. split; [unfold texp; rewrite A4; auto|left; exact A5].
Qed.

Lemma SQ_MQ (s s' : vsock) : SQ s s' -> MQ s s'.
Proof. intros (A1&A2&A3&A4&A5&_). repeat split; assumption. Qed.

Lemma MQ_refl s : MQ s s.
Proof. apply SQ_MQ, SQ_refl. Qed.

Lemma MQ_trans a b c : MQ a b -> MQ b c -> MQ a c.
Proof.
  intros (A1&A2&A3&A4&A5) (B1&B2&B3&B4&B5). repeat split; try congruence. eapply st_rel_trans; eauto.
Qed.

(* ------------------------------------------------------------------ the ghost invariant of a poll
   r0 = RTO counter at the start of the poll, e0 = the retransmission timer had expired at the start,
   now = the clock of the poll *)
Definition FSt (st : vstate) (ls : Z) : Prop :=
  is_local_fin_or_later st = true /\ forall f, our_fin_if_unacked st = Some f -> f = ls.

Lemma FSt_mono a b ls : st_rel a b -> FSt a ls -> FSt b ls.
Proof.
  intros R (L & F). split; [eapply st_rel_local; eauto|].
  intros f Hf. destruct a, b; cbn [st_rel our_fin_if_unacked is_local_fin_or_later] in *;
    try discriminate; try tauto; injection Hf as <-; subst; apply F; reflexivity.
Qed.

Inductive J (r0 : Z) (e0 : bool) (now : Z) (s : vsock) : Prop :=
| JA : dout s = [] -> v_rto_retransmissions s = r0 -> (texp s now = true -> e0 = true) -> J r0 e0 now s
| JC : v_rto_retransmissions s = 0 -> texp s now = false -> J r0 e0 now s
| JD (p : packet) :
    dout s = [p] -> v_rto_retransmissions s = r0 + 1 -> e0 = true -> texp s now = false ->
    0 <= ch_seq (p_hdr p) < M16 ->
    (ch_seq (p_hdr p) = v_last_sent_seq_nr s \/
     (ch_seq (p_hdr p) = wsub16 (v_last_sent_seq_nr s) 1 /\ FSt (v_state s) (v_last_sent_seq_nr s))) ->
    J r0 e0 now s.

Lemma J_QREL r0 e0 now (s s' : vsock) : J r0 e0 now s -> QREL now s s' -> J r0 e0 now s'.
Proof.
  intros HJ (Q1 & Q2 & Q3).
  destruct Q3 as [(Q3 & Q4 & Q5)|(Q3 & Q4)]; [|apply JC; assumption].
  destruct HJ as [A1 A2 A3|A1 A2|p A1 A2 A3 A4 A5 A6].
  - apply JA; [congruence|congruence|auto].
  - apply JC; [congruence|]. destruct (texp s' now) eqn:E; [|reflexivity]. rewrite (Q4 eq_refl) in A2. discriminate.
  - apply (JD _ _ _ _ p); try congruence.
    + destruct (texp s' now) eqn:E; [|reflexivity]. rewrite (Q4 eq_refl) in A4. discriminate.
    + destruct Q5 as [Q5|(stm & M1 & M2 & M3 & M4)].
      * rewrite Q5. destruct A6 as [A6|(A6 & A7)]; [left; exact A6|right]. split; [exact A6|].
        eapply FSt_mono; eauto.
      * destruct A6 as [A6|(A6 & A7)].
        -- right. split.
           ++ symmetry. rewrite A6. apply seq_sub_one; [exact M4|]. rewrite <- A6. exact A5.
           ++ split; [eapply st_rel_local; [exact M2|]; destruct stm; try discriminate; reflexivity|].
              intros f Hf. symmetry. eapply st_rel_fin; eauto.
        -- exfalso. pose proof (FSt_mono _ _ _ M1 A7) as (_ & F). specialize (F _ M3).
           rewrite F, seq_sub_refl in M4. discriminate.
Qed.

(* ------------------------------------------------------------------ the incoming path *)
(* MQ without the state clause *)
Definition MQ0 (s s' : vsock) : Prop :=
  dout s' = dout s /\ v_rto_retransmissions s' = v_rto_retransmissions s /\
  v_t_retransmit s' = v_t_retransmit s /\ v_last_sent_seq_nr s' = v_last_sent_seq_nr s.

Lemma MQ0_refl s : MQ0 s s.
Proof. unfold MQ0. repeat split. Qed.

Lemma MQ0_trans a b c : MQ0 a b -> MQ0 b c -> MQ0 a c.
Proof. unfold MQ0. intros (A1&A2&A3&A4) (B1&B2&B3&B4). repeat split; congruence. Qed.

Lemma MQ0_same (s s' : vsock) :
  v_out s' = v_out s -> v_rto_retransmissions s' = v_rto_retransmissions s ->
  v_t_retransmit s' = v_t_retransmit s -> v_last_sent_seq_nr s' = v_last_sent_seq_nr s -> MQ0 s s'.
Proof. intros E1 E2 E3 E4. unfold MQ0. repeat split; try assumption. apply dout_eq; exact E1. Qed.

Ltac mq0_same := apply MQ0_same; exact eq_refl.

Lemma SQ_MQ0 (s s' : vsock) : SQ s s' -> MQ0 s s'.
Proof. intros (A1&A2&A3&A4&A5&_). repeat split; assumption. Qed.

Lemma state_table_MQ0 (s : vsock) h : MQ0 s (tbl_state (state_table s h)).
Proof.
  unfold state_table, restart_remote_inactivity_timer.
  destruct (ch_type h); destruct (v_state s); cbn [tbl_state negb];
    repeat (match goal with |- context [if ?c then _ else _] => destruct c end);
    cbn [tbl_state]; mq0_same.
Qed.

Lemma pim_data_MQ0 s2 m res offset : stk MQ0 s2 (pim_data cci s2 m res offset).
Proof.
  unfold pim_data. destruct (offset <? 0).
  { cbn [stk]. unfold force_immediate_ack. mq0_same. }
  cbv zeta.
  destruct (rx_add_remove _ KData (m_payload m) offset) as [[rx1 ar] w].
  set (s4 := add_wakes _ _).
  assert (H4 : MQ0 s2 s4) by (unfold s4, add_wakes; mq0_same).
  clearbody s4.
  destruct ar as [r|]; [|exact I].
  destruct (add_err r); [exact I|].
  set (s5 := match r with ArConsumed _ _ => _ | _ => s4 end).
  assert (H5 : MQ0 s2 s5).
  { eapply MQ0_trans; [exact H4|]. unfold s5, restart_remote_inactivity_timer. destruct r; mq0_same. }
  clearbody s5.
  destruct (_ || _); [|exact H5].
  pose proof (send_ack_SQ (force_immediate_ack s5)) as Ha.
  destruct (send_ack (force_immediate_ack s5)) as [s6 b|s6 e|]; cbn [sbind stk] in *; auto.
  eapply MQ0_trans; [exact H5|]. eapply MQ0_trans; [|apply SQ_MQ0; exact Ha].
  unfold force_immediate_ack. mq0_same.
Qed.

Lemma pim_fin_MQ0 s2 m res offset seen : stk MQ0 s2 (pim_fin s2 m res offset seen).
Proof.
  unfold pim_fin. cbv zeta. destruct (_ && _).
  - destruct (rx_add_remove _ KFin _ _) as [[rx1 ar] w].
    destruct ar as [r|]; [|exact I].
    destruct (add_err r); [exact I|].
    destruct (mark_vsock_closed _) as [tx1 w2]. cbn [stk].
    unfold add_wakes, force_immediate_ack. mq0_same.
  - cbn [stk]. unfold force_immediate_ack. mq0_same.
Qed.

Lemma pim_ack_MQ0 s1 h s2 res : pim_ack cci s1 h = Some (s2, res) -> MQ0 s1 s2.
Proof.
  unfold pim_ack. destruct (remove_up_to_ack _ _ _ _) as [segs1 res0].
  destruct (match is_recovering (v_recovery s1) with true => _ | false => _ end) as [rtte1|]; [|discriminate].
  destruct (cc_on_ack cci _ _ _ _) as [cc3|]; [|discriminate].
  destruct (recovery_on_ack cci _ _ _ _ _ _ _) as [[[rec1 segs2] cc4]|]; [|discriminate].
  intro H; injection H as <- _. mq0_same.
Qed.

Lemma pim_cont_MQ0 s1 m seen : stk MQ0 s1 (pim_cont cci s1 m seen).
Proof.
  unfold pim_cont. destruct (pim_ack cci s1 (m_hdr m)) as [[s2 res]|] eqn:Ea; [|exact I].
  pose proof (pim_ack_MQ0 _ _ _ _ Ea) as H2. cbv zeta.
  destruct (ch_type (m_hdr m)); try exact H2.
  - eapply (stk_weaken MQ0 MQ0_trans); [exact H2|apply pim_data_MQ0].
  - eapply (stk_weaken MQ0 MQ0_trans); [exact H2|apply pim_fin_MQ0].
Qed.

Lemma process_incoming_message_MQ0 s m : stk MQ0 s (process_incoming_message cci s m).
Proof.
  rewrite process_incoming_message_eq.
  pose proof (state_table_MQ0 s (m_hdr m)) as Ht.
  destruct (state_table s (m_hdr m)) as [s1|s1 e|s1]; cbn [tbl_state] in Ht; [exact Ht|exact I|].
  eapply (stk_weaken MQ0 MQ0_trans); [exact Ht|apply pim_cont_MQ0].
Qed.

Lemma process_incoming_message_MQ s m : stk MQ s (process_incoming_message cci s m).
Proof.
  pose proof (process_incoming_message_MQ0 s m) as H0.
  pose proof (process_incoming_message_G cci s m) as HG.
  destruct (process_incoming_message cci s m) as [s' r|s' e|]; cbn [stk sGr] in *; auto.
  destruct H0 as (A1&A2&A3&A4). destruct HG as ((G1 & _) & _). repeat split; assumption.
Qed.

(* ---- maybe_send_fin ---- *)
Lemma maybe_send_fin_QREL now (s : vsock) : B now s -> stk (QREL now) s (maybe_send_fin s).
Proof.
  intros HB. pose proof (maybe_send_fin_spec s) as H.
  destruct (maybe_send_fin s) as [s' [|]|s' e|]; cbn [stk]; auto.
  - destruct H as (seq & Hfin & Hsub & Hf & Ho & Hsg & Hls & Htr & _).
    unfold sd_frame in Hf. destruct Hf as (F1 & F2 & F3 & F4 & F5 & F6 & F7 & F8 & F9 & F10 & _).
    split; [eapply dout_cons_ctrl; [exact Ho|]; apply is_data_ctrl; cbn [hdr_with ch_type]; discriminate|].
    split; [rewrite F10; apply st_rel_refl|]. left.
    split; [exact F5|]. split.
    + unfold texp. rewrite Htr. destruct HB as (Hti & Hn & _). rewrite Hn. intro E.
      apply timer_arm_expired in E; [tauto|]. apply rto_pos. apply Hti.
    + right. exists (v_state s). rewrite Hls. repeat split; auto; [apply st_rel_refl|rewrite F10; apply st_rel_refl].
  - apply SQ_QREL, sd_unchanged_SQ. exact H.
Qed.

Lemma set_state_closed_MQ (s : vsock) : MQ s (set_state s Closed).
Proof.
  unfold MQ. vsimpl_goal. repeat split; try reflexivity. destruct (v_state s); cbn [st_rel]; auto.
Qed.

(* ---- the receive loop ---- *)
Lemma recv_empty_QREL now (s : vsock) (acc : on_ack_result) : B now s ->
  stk (QREL now) s
    (if v_inbox_closed s
     then sbind (maybe_send_fin (transition_to_fin_wait_1 s))
                (fun s2 _ => SOk (set_state s2 Closed) (acc, true))
     else SOk (set_inbox_waker s true) (acc, false)).
Proof.
  intro HB. destruct (v_inbox_closed s).
  - assert (HB1 : B now (transition_to_fin_wait_1 s)).
    { eapply B_frame; [apply transition_to_fin_wait_1_ti|apply transition_to_fin_wait_1_frame|exact HB]. }
    pose proof (maybe_send_fin_QREL now _ HB1) as Hm.
    destruct (maybe_send_fin (transition_to_fin_wait_1 s)) as [s2 b|s2 e|]; cbn [sbind stk] in *; auto.
    eapply QREL_trans; [apply SQ_QREL, transition_to_fin_wait_1_SQ|].
    eapply QREL_trans; [exact Hm|]. apply MQ_QREL, set_state_closed_MQ.
  - cbn [stk]. apply SQ_QREL. sq_same.
Qed.

Definition KQ (now : Z) (s s' : vsock) : Prop := B now s -> B now s' /\ QREL now s s'.

Lemma KQ_refl now s : KQ now s s.
Proof. intro H. split; [exact H|apply QREL_refl]. Qed.

Lemma KQ_trans now a b c : KQ now a b -> KQ now b c -> KQ now a c.
Proof.
  intros H1 H2 HB. destruct (H1 HB) as [HB1 Q1]. destruct (H2 HB1) as [HB2 Q2].
  split; [exact HB2|eapply QREL_trans; eauto].
Qed.

(* KQ from the three ingredients *)
Lemma stk_KQ now {A} (s : vsock) (m : step A) :
  stR tiR s m -> step_frame s m -> (B now s -> stk (QREL now) s m) -> stk (KQ now) s m.
Proof.
  intros Ht Hf Hq. destruct m as [s' a|s' e|]; cbn [stk stR step_frame] in *; auto.
  intro HB. split; [eapply B_frame; eauto|auto].
Qed.

Lemma recv_loop_KQ now : forall fuel (s : vsock) acc, stk (KQ now) s (recv_loop cci fuel s acc).
Proof.
  assert (Hbase : forall (s : vsock) (acc : on_ack_result),
    stk (KQ now) s
      (if v_inbox_closed s
       then sbind (maybe_send_fin (transition_to_fin_wait_1 s))
                  (fun s2 _ => SOk (set_state s2 Closed) (acc, true))
       else SOk (set_inbox_waker s true) (acc, false))).
  { intros s acc. pose proof (recv_empty_QREL now s acc) as Hq.
    destruct (v_inbox_closed s).
    - pose proof (maybe_send_fin_ti (transition_to_fin_wait_1 s)) as Ht.
      pose proof (maybe_send_fin_frame (transition_to_fin_wait_1 s)) as Hf.
      destruct (maybe_send_fin (transition_to_fin_wait_1 s)) as [s2 b|s2 e|]; cbn [sbind stk stR step_frame] in *; auto.
      intro HB. split; [|apply Hq; exact HB].
      assert (HB1 : B now (transition_to_fin_wait_1 s)).
      { eapply B_frame; [apply transition_to_fin_wait_1_ti|apply transition_to_fin_wait_1_frame|exact HB]. }
      assert (HB2 : B now s2) by (eapply B_frame; eauto).
      eapply B_keep; [|reflexivity|reflexivity|exact HB2]. apply ti_same; exact eq_refl.
    - cbn [stk] in *. intro HB. split; [|apply Hq; exact HB].
      eapply B_keep; [|reflexivity|reflexivity|exact HB]. apply ti_same; exact eq_refl. }
  induction fuel as [|m0 fuel IH]; intros s acc; cbn [recv_loop];
    destruct (v_inbox s) as [|m rest] eqn:Ei; try apply Hbase; try exact I.
  apply (stk_weaken (KQ now) (KQ_trans now)) with (s := set_inbox s rest).
  { intro HB. split; [|apply SQ_QREL; sq_same]. eapply B_keep; [|reflexivity|reflexivity|exact HB]. apply ti_same; exact eq_refl. }
  apply (stk_bind (KQ now) (KQ_trans now)).
  - apply stk_KQ; [apply process_incoming_message_ti|apply process_incoming_message_frame|].
    intros _. pose proof (process_incoming_message_MQ (set_inbox s rest) m) as H.
    destruct (process_incoming_message cci (set_inbox s rest) m); cbn [stk] in *; auto. apply MQ_QREL; exact H.
  - intros s1 r. destruct (_ || _); [apply KQ_refl|apply IH].
Qed.

(* ---- the bookkeeping after the receive loop ---- *)
Definition LQL (keepls : bool) (s s' : vsock) : Prop :=
  v_out s' = v_out s /\ v_state s' = v_state s /\ v_rto_retransmissions s' = v_rto_retransmissions s /\
  v_t_retransmit s' = v_t_retransmit s /\ (keepls = true -> v_last_sent_seq_nr s' = v_last_sent_seq_nr s).

Lemma LQL_refl k s : LQL k s s.
Proof. unfold LQL. repeat split. Qed.

Lemma LQL_trans k a b c : LQL k a b -> LQL k b c -> LQL k a c.
Proof.
  unfold LQL. intros (A1&A2&A3&A4&A5) (B1&B2&B3&B4&B5). repeat split; try congruence.
  intro K. rewrite (B5 K), (A5 K). reflexivity.
Qed.

Ltac lql_same := unfold LQL; vsimpl_goal; repeat split; intros; reflexivity.

Definition pa_reset (r : on_ack_result) (s1 : vsock) : vsock :=
  if (0 <? ar_acked_segments r) || (0 <? ar_newly_sacked_segments r) then
    let s' := set_rto_retransmissions s1 0 in
    match ss_segs (v_segs s'), our_fin_if_unacked (v_state s') with
    | [], None => set_t_inactivity (set_t_retransmit s' None) None
    | _, _ =>
        restart_remote_inactivity_timer
          (set_t_retransmit s' (timer_arm (v_t_retransmit s') (v_now s')
                                  (retransmission_timeout (v_rtte s')) true))
    end
  else s1.

Definition pa_pipe (s3 : vsock) : step unit :=
  match rv_phase (v_recovery s3) with
  | Recovering rc =>
      match calc_pipe (v_segs s3) (rc_high_rxt rc) (v_last_sent_seq_nr s3)
                      (roundtrip_time (v_rtte s3)) (v_now s3) with
      | None => SPanic
      | Some (segs', pipe, recalc) =>
          SOk (set_recovering (VSockRec.set_segs s3 segs')
                 {| rc_recovery_point := rc_recovery_point rc; rc_high_rxt := rc_high_rxt rc;
                    rc_total_retx := rc_total_retx rc; rc_pipe := pipe; rc_recalc := recalc;
                    rc_cwnd := rc_cwnd rc |}) tt
      end
  | _ => SOk s3 tt
  end.

Definition pa_trunc (r : on_ack_result) (s2 : vsock) : step unit :=
  if 0 <? ar_acked_segments r then
    let s2 := acked_counts_as_sent s2 in
    let '(tx1, tr) := truncate_front (v_tx s2) (ar_acked_bytes r) in
    match tr with
    | TrBug _ _ => SErr (set_tx s2 tx1) (ErrBug BugTruncateFront)
    | TrOk => let '(tx2, w) := wake_writer tx1 in
              SOk (add_wakes (set_tx s2 tx2) (tx_wakes w)) tt
    end
  else SOk s2 tt.

Lemma pa_tail_eq (s1 : vsock) r early :
  pa_tail s1 (r, early) = sbind (pa_trunc r (pa_reset r s1)) (fun s3 _ => pa_pipe s3).
Proof. reflexivity. Qed.

Lemma pa_pipe_LQL k (s3 : vsock) : stk (LQL k) s3 (pa_pipe s3).
Proof.
  unfold pa_pipe. destruct (rv_phase _); try apply LQL_refl.
  destruct (calc_pipe _ _ _ _ _) as [[[segs' pipe] recalc]|]; [|exact I].
  cbn [stk]. unfold set_recovering. lql_same.
Qed.

Lemma pa_trunc_LQL (r : on_ack_result) (s2 : vsock) :
  stk (LQL (negb (0 <? ar_acked_segments r))) s2 (pa_trunc r s2).
Proof.
  unfold pa_trunc. destruct (0 <? ar_acked_segments r); cbn [negb]; [|apply LQL_refl].
  cbv zeta.
  assert (Ha : LQL false s2 (acked_counts_as_sent s2)).
  { unfold acked_counts_as_sent. destruct (seq_gt _ _ && seq_lt _ _); [|apply LQL_refl].
    unfold LQL; vsimpl_goal; repeat split; intros; discriminate. }
  revert Ha. generalize (acked_counts_as_sent s2). intros s2' Ha.
  destruct (truncate_front _ _) as [tx1 tr]. destruct tr; [|exact I].
  destruct (wake_writer tx1) as [tx2 w]. cbn [stk]. eapply LQL_trans; [exact Ha|].
  unfold add_wakes. unfold LQL; vsimpl_goal; repeat split; intros; discriminate.
Qed.

Lemma LQL_weaken k (s s' : vsock) : LQL k s s' -> LQL false s s'.
Proof. unfold LQL. intros (A1&A2&A3&A4&A5). repeat split; auto. intro; discriminate. Qed.

Lemma pa_tail_QREL now (s1 : vsock) res : B now s1 -> stk (QREL now) s1 (pa_tail s1 res).
Proof.
  intro HB. destruct res as [r early]. rewrite pa_tail_eq.
  pose proof (pa_trunc_LQL r (pa_reset r s1)) as Ht.
  destruct (pa_trunc r (pa_reset r s1)) as [s3 u|s3 e|]; cbn [sbind stk] in *; auto.
  pose proof (pa_pipe_LQL (negb (0 <? ar_acked_segments r)) s3) as Hp.
  destruct (pa_pipe s3) as [s4 u4|s4 e4|]; cbn [stk] in *; auto.
  pose proof (LQL_trans _ _ _ _ Ht Hp) as H. clear Ht Hp.
  destruct H as (A1&A2&A3&A4&A5).
  unfold pa_reset in *.
  destruct ((0 <? ar_acked_segments r) || (0 <? ar_newly_sacked_segments r)) eqn:Eprog.
  - (* reset *)
    assert (Hd : 0 < retransmission_timeout (v_rtte s1)) by (eapply B_rto_pos; eauto).
    assert (Hn : v_now s1 = now) by apply HB.
    split; [apply dout_eq; rewrite A1|split; [rewrite A2|right; rewrite A3; unfold texp; rewrite A4]].
    + destruct (ss_segs _); [destruct (our_fin_if_unacked _)|]; reflexivity.
    + assert (E : forall x y : vsock, v_state x = v_state y -> st_rel (v_state y) (v_state x))
        by (intros x y ->; apply st_rel_refl).
      apply E. destruct (ss_segs _); [destruct (our_fin_if_unacked _)|]; reflexivity.
    + destruct (ss_segs _); [destruct (our_fin_if_unacked _)|];
        unfold restart_remote_inactivity_timer; vsimpl_goal;
        (split; [reflexivity|]); try reflexivity; rewrite Hn; apply timer_arm_restart_fresh; exact Hd.
  - apply orb_false_iff in Eprog. destruct Eprog as [Ea _]. rewrite Ea in A5. cbn [negb] in A5.
    apply MQ_QREL. unfold MQ. repeat split; auto.
    + apply dout_eq; exact A1.
    + rewrite A2. apply st_rel_refl.
Qed.

Lemma process_all_KQ now (s : vsock) : stk (KQ now) s (process_all_incoming_messages cci s).
Proof.
  apply stk_KQ; [apply process_all_incoming_messages_ti|apply process_all_incoming_messages_frame|].
  intro HB. rewrite process_all_eq.
  pose proof (recv_loop_KQ now (v_inbox s ++ [ {| m_hdr := outgoing_header s; m_payload := [] |} ]) s
                on_ack_result_default) as Hl.
  destruct (recv_loop cci _ s on_ack_result_default) as [s1 res|s1 e|]; cbn [sbind stk] in *; auto.
  destruct (Hl HB) as [HB1 Q1].
  pose proof (pa_tail_QREL now s1 res HB1) as Hp.
  destruct (pa_tail s1 res); cbn [stk] in *; auto. eapply QREL_trans; eauto.
Qed.

(* ---- segmentation ---- *)
Lemma split_QREL now (s : vsock) : B now s -> stk (QREL now) s (split_tx_queue_into_segments cci s).
Proof.
  intro HB. unfold split_tx_queue_into_segments. cbv zeta.
  destruct (_ =? 0); [cbn [stk]; apply SQ_QREL; sq_same|].
  match goal with |- stk _ _ (if is_remote_fin_or_later (v_state ?x) then _ else _) =>
    assert (F : SQ s x /\ v_now x = v_now s /\ v_rtte x = v_rtte s); [|abs_as x F sx] end.
  { destruct (_ && _); [|split; [apply SQ_refl|auto]]. destruct (grow _ _) as [tx1 g]. destruct g.
    - destruct (wake_writer tx1) as [tx2 w]. unfold add_wakes. split; [sq_same|auto].
    - split; [sq_same|auto]. }
  destruct F as (F & Fn & Fr).
  destruct (is_remote_fin_or_later _); [apply SQ_QREL; exact F|].
  destruct (pop_expired_mtu_probe _ _ _) as [segs1 pe].
  assert (Hcont : forall (tl : Z) (s2 : vsock), QREL now s s2 ->
    stk (QREL now) s
      (if tl <? ss_len_bytes (v_segs s2) then SErr s2 (ErrBug BugInBufferComputations)
       else match segment_loop (ring (v_tx s2)) (o_nagle (v_opts s2)) (v_ss s2) (v_segs s2)
                    (tl - ss_len_bytes (v_segs s2)) (v_last_remote_window s2) with
            | Some (ss', segs', remaining) =>
                SOk (set_unsegmented (VSockRec.set_segs (set_ss s2 ss') segs') remaining) tt
            | None => SPanic
            end)).
  { intros tl s2 F2. destruct (_ <? _); [exact I|].
    destruct (segment_loop _ _ _ _ _ _) as [[[ss' segs'] rem]|]; [|exact I].
    cbn [stk]. eapply QREL_trans; [exact F2|]. apply MQ_QREL.
    unfold MQ; vsimpl_goal; repeat split. apply st_rel_refl. }
  destruct pe.
  - apply Hcont. eapply QREL_trans; [apply SQ_QREL; exact F|].
    assert (Hd : 0 < retransmission_timeout (v_rtte sx)) by (rewrite Fr; eapply B_rto_pos; eauto).
    assert (Hn : v_now sx = now) by (rewrite Fn; apply HB).
    split; [destruct (seq_gt _ _); reflexivity|].
    split; [destruct (seq_gt _ _); apply st_rel_refl|]. right.
    split; [destruct (seq_gt _ _); reflexivity|].
    unfold texp. destruct (seq_gt _ _); vsimpl_goal;
      (destruct (ss_segs segs1); [reflexivity|rewrite Hn; apply timer_arm_restart_fresh; exact Hd]).
  - cbn [stk]. eapply QREL_trans; [apply SQ_QREL; exact F|]. apply SQ_QREL. sq_same.
  - apply Hcont. apply SQ_QREL; exact F.
Qed.

Lemma split_KQ now (s : vsock) : stk (KQ now) s (split_tx_queue_into_segments cci s).
Proof.
  apply stk_KQ; [apply split_tx_queue_into_segments_ti|apply split_tx_queue_into_segments_frame|].
  apply split_QREL.
Qed.

(* ------------------------------------------------------------------ send_tx_queue *)
(* the sending loops: with the timer not expired at `now` (= the clock of the poll), it stays so, and
   the RTO counter is not touched *)
Definition CR (now : Z) (s s' : vsock) : Prop :=
  v_now s = now -> rto_in_bounds (v_rtte s) -> texp s now = false ->
  v_now s' = now /\ rto_in_bounds (v_rtte s') /\ texp s' now = false /\
  v_rto_retransmissions s' = v_rto_retransmissions s.

Lemma CR_refl now s : CR now s s.
Proof. intros H1 H2 H3. split; [exact H1|]. split; [exact H2|]. split; [exact H3|reflexivity]. Qed.

Lemma CR_trans now a b c : CR now a b -> CR now b c -> CR now a c.
Proof.
  intros F G H1 H2 H3. destruct (F H1 H2 H3) as (A1 & A2 & A3 & A4).
  destruct (G A1 A2 A3) as (B1 & B2 & B3 & B4).
  split; [exact B1|]. split; [exact B2|]. split; [exact B3|congruence].
Qed.

Lemma CR_same now (s s' : vsock) :
  v_now s' = v_now s -> v_rtte s' = v_rtte s -> v_t_retransmit s' = v_t_retransmit s ->
  v_rto_retransmissions s' = v_rto_retransmissions s -> CR now s s'.
Proof.
  intros E1 E2 E3 E4 H1 H2 H3. unfold texp in *. rewrite E1, E2, E3, E4.
  split; [exact H1|]. split; [exact H2|]. split; [exact H3|reflexivity].
Qed.

Lemma sd_unchanged_CR now (s s' : vsock) : sd_unchanged s s' -> CR now s s'.
Proof.
  intros (Hf & _ & _ & _ & Ht & _). unfold sd_frame in Hf.
  destruct Hf as (F1 & F2 & F3 & F4 & F5 & F6 & F7 & F8 & _). apply CR_same; assumption.
Qed.

Lemma send_data_CR now (s : vsock) h f : stk (CR now) s (send_data s h f).
Proof.
  pose proof (send_data_spec s h f) as H.
  destruct (send_data s h f) as [s' [| |]|s' e|]; cbn [stk]; auto.
  - destruct H as (Hf & _ & _ & _ & Htr & _). unfold sd_frame in Hf.
    destruct Hf as (F1 & F2 & F3 & F4 & F5 & F6 & F7 & F8 & _).
    intros H1 H2 H3. rewrite F7, F8. split; [exact H1|]. split; [exact H2|]. split; [|exact F5].
    unfold texp. rewrite Htr, H1.
    destruct (timer_expired (timer_arm _ _ _ _) now) eqn:E; [|reflexivity].
    apply timer_arm_expired in E; [|apply rto_pos; exact H2]. destruct E as [_ E].
    unfold texp in H3. congruence.
  - apply sd_unchanged_CR. apply H.
  - apply sd_unchanged_CR. apply H.
Qed.

Lemma recovery_loop_CR now : forall items (s : vsock) h mss0 st,
  stk (CR now) s (recovery_loop items s h mss0 st).
Proof.
  induction items as [|f rest IH]; intros s h mss0 st; cbn [recovery_loop].
  - apply CR_refl.
  - destruct (negb _); [apply CR_refl|].
    destruct (_ && negb (sg_lost _)); [apply IH|].
    destruct (_ && negb (sg_sacks_after _)); [apply CR_refl|].
    pose proof (send_data_CR now s h f) as F.
    destruct (send_data s h f) as [s1 r|s1 e|]; cbn [stk] in *; auto.
    destruct r; cbn [stk]; auto.
    eapply (stk_weaken (CR now) (CR_trans now)); [exact F|apply IH].
Qed.

Lemma new_data_loop_CR now : forall items (s : vsock) h rem,
  stk (CR now) s (new_data_loop items s h rem).
Proof.
  induction items as [|f rest IH]; intros s h rem; cbn [new_data_loop].
  - apply CR_refl.
  - destruct (_ <? _); [apply CR_refl|].
    pose proof (send_data_CR now s h f) as F.
    destruct (send_data s h f) as [s1 r|s1 e|]; cbn [stk] in *; auto.
    destruct r; cbn [stk]; auto.
    eapply (stk_weaken (CR now) (CR_trans now)); [exact F|apply IH].
Qed.

Lemma rec_branch_CR now (s : vsock) h : stk (CR now) s (rec_branch s h).
Proof.
  unfold rec_branch. destruct (rv_phase (v_recovery s)) as [rp|d|rc]; try apply CR_refl.
  apply (stk_bind (CR now) (CR_trans now)); [apply recovery_loop_CR|].
  intros s1 res.
  destruct (rec_after rc h (mss (v_ss s)) s1 res) as [s' b|s' e|] eqn:E; cbn [stk]; auto.
  assert (Hs : step_st (rec_after rc h (mss (v_ss s)) s1 res) = Some s') by (rewrite E; reflexivity).
  destruct (rec_after_spec _ _ _ _ _ _ Hs) as (P & A1 & A2 & A3 & A4 & A5 & A6 & A7 & A8 & _).
  destruct P as (_ & P2 & _). apply CR_same; assumption.
Qed.

Lemma new_branch_CR now (s : vsock) h : stk (CR now) s (new_branch cci s h).
Proof.
  unfold new_branch.
  apply (stk_bind (CR now) (CR_trans now)); [apply new_data_loop_CR|].
  intros s1 tl.
  destruct (new_after s1 tl) as [s' b|s' e|] eqn:E; cbn [stk]; auto.
  assert (Hs : step_st (new_after s1 tl) = Some s') by (rewrite E; reflexivity).
  destruct (new_after_spec _ _ _ Hs) as (P & A1 & A2 & A3 & A4 & A5 & A6 & A7 & _).
  destruct P as (_ & P2 & _). apply CR_same; assumption.
Qed.

Definition rec_new (s : vsock) (h : chdr) : step unit :=
  sbind (rec_branch s h) (fun s ret => if ret then SOk s tt else new_branch cci s h).

Lemma rec_new_CR now (s : vsock) h : stk (CR now) s (rec_new s h).
Proof.
  unfold rec_new. apply (stk_bind (CR now) (CR_trans now)); [apply rec_branch_CR|].
  intros s1 ret. destruct ret; [apply CR_refl|apply new_branch_CR].
Qed.

(* with nothing undelivered in the table the two loops are silent *)
Lemma rec_new_silent (s : vsock) h :
  iter_for_sending (v_segs s) None = [] ->
  stk (fun s s' => v_out s' = v_out s /\ v_rto_retransmissions s' = v_rto_retransmissions s /\
                   v_t_retransmit s' = v_t_retransmit s) s (rec_new s h).
Proof.
  intro Hnil. unfold rec_new.
  assert (Hrec : stk (fun s s' => v_out s' = v_out s /\ v_rto_retransmissions s' = v_rto_retransmissions s /\
                   v_t_retransmit s' = v_t_retransmit s /\ v_segs s' = v_segs s) s (rec_branch s h)).
  { unfold rec_branch. destruct (rv_phase (v_recovery s)) as [rp|d|rc]; cbn [stk]; auto.
    rewrite (rec_items_empty s rc Hnil). cbn [recovery_loop sbind].
    destruct (rec_after rc h (mss (v_ss s)) s (rec_st0 rc, false)) as [s' b|s' e|] eqn:E; cbn [stk]; auto.
    assert (Hs : step_st (rec_after rc h (mss (v_ss s)) s (rec_st0 rc, false)) = Some s') by (rewrite E; reflexivity).
    destruct (rec_after_spec _ _ _ _ _ _ Hs) as (P & A1 & A2 & A3 & A4 & A5 & A6 & A7 & A8 & _). auto. }
  destruct (rec_branch s h) as [s1 ret|s1 e|]; cbn [sbind stk] in *; auto.
  destruct Hrec as (R1 & R2 & R3 & R4).
  destruct ret; [cbn [stk]; auto|].
  unfold new_branch, new_items. rewrite R4, (iter_none_nil _ _ Hnil). cbn [new_data_loop sbind new_after stk].
  auto.
Qed.

Lemma fs_seq_range t st f : In f (iter_for_sending t st) -> 0 <= fs_seq f < M16.
Proof.
  intro H. apply iter_item_ok in H. destruct H as (_ & _ & H & _). rewrite H. unfold wadd16, M16. lia.
Qed.

Lemma J_A_of_expired r0 e0 now (s : vsock) :
  J r0 e0 now s -> texp s now = true -> dout s = [] /\ v_rto_retransmissions s = r0 /\ e0 = true.
Proof. intros [A1 A2 A3|A1 A2|p A1 A2 A3 A4 A5 A6] E; [auto|congruence|congruence]. Qed.

Lemma rto_branch_J now r0 e0 (s : vsock) h :
  B now s -> J r0 e0 now s ->
  match rto_branch cci s h with
  | SOk s1 ret =>
      J r0 e0 now s1 /\ v_now s1 = now /\ rto_in_bounds (v_rtte s1) /\
      (ret = false -> texp s1 now = true -> iter_for_sending (v_segs s1) None = [])
  | _ => True
  end.
Proof.
  intros HB HJ. destruct HB as ((Hrb & _ & _) & Hn & _).
  unfold rto_branch.
  destruct (timer_expired (v_t_retransmit s) (v_now s)) eqn:Eexp.
  2:{ split; [exact HJ|]. split; [exact Hn|]. split; [exact Hrb|].
      intros _ E. unfold texp in E. rewrite Hn in Eexp. congruence. }
  assert (Ee : texp s now = true) by (unfold texp; rewrite <- Hn; exact Eexp).
  destruct (J_A_of_expired _ _ _ _ HJ Ee) as (A1 & A2 & A3).
  destruct (iter_for_sending (v_segs s) None) as [|f rest] eqn:Eit.
  - (* nothing to retransmit *)
    assert (Hoff : J r0 e0 now (set_t_retransmit s None) /\ v_now (set_t_retransmit s None) = now /\
                   rto_in_bounds (v_rtte (set_t_retransmit s None)) /\
                   (false = false -> texp (set_t_retransmit s None) now = true ->
                    iter_for_sending (v_segs (set_t_retransmit s None)) None = [])).
    { split; [apply JA; [exact A1|exact A2|auto]|]. split; [exact Hn|]. split; [exact Hrb|].
      intros _ E. discriminate E. }
    destruct (our_fin_if_unacked (v_state s)) as [fin|]; [|exact Hoff].
    destruct (v_last_sent_seq_nr s =? fin); [|exact Hoff].
    set (s1 := set_last_sent_seq_nr s (wsub16 (v_last_sent_seq_nr s) 1)).
    pose proof (maybe_send_fin_spec s1) as Hm.
    destruct (maybe_send_fin s1) as [s2 [|]|s2 e|]; cbn [sbind]; auto.
    + destruct Hm as (seq & _ & _ & Hf & Ho & Hsg & _).
      unfold sd_frame in Hf. destruct Hf as (F1 & F2 & F3 & F4 & F5 & F6 & F7 & F8 & _).
      destruct (on_rto_reactions cci s2) as [s3|] eqn:Er; [|exact I].
      destruct (on_rto_reactions_spec _ _ _ Er) as (R1 & R2 & R3 & R4 & R5 & R6 & R7 & R8 & R9 & R10 & _).
      assert (Hb3 : rto_in_bounds (v_rtte s3)) by (eapply timeout_in_bounds; exact R1).
      assert (Hn3 : v_now s3 = now) by (rewrite R10, F7; exact Hn).
      assert (Hx : texp (set_t_retransmit s3 (timer_arm (v_t_retransmit s3) (v_now s3)
                            (retransmission_timeout (v_rtte s3)) true)) now = false).
      { unfold texp. vsimpl_goal. rewrite Hn3. apply timer_arm_restart_fresh. apply rto_pos; exact Hb3. }
      split; [|split; [exact Hn3|split; [exact Hb3|intros _ E; congruence]]].
      apply JA; [|vsimpl_goal; rewrite R8, F5; exact A2|auto].
      unfold dout. vsimpl_goal. rewrite R4, Ho. cbn [filter].
      unfold fin_pkt. rewrite is_data_ctrl by (cbn [hdr_with ch_type]; discriminate). exact A1.
    + destruct Hm as (Hf & Ho & Hsg & _ & Htr & _).
      unfold sd_frame in Hf. destruct Hf as (F1 & F2 & F3 & F4 & F5 & F6 & F7 & F8 & _).
      split; [apply JA; [unfold dout; rewrite Ho; exact A1|rewrite F5; exact A2|auto]|].
      split; [rewrite F7; exact Hn|]. split; [rewrite F8; exact Hrb|].
      intros _ _. rewrite Hsg. exact Eit.
  - pose proof (send_data_spec s h f) as Hsd.
    destruct (send_data s h f) as [s1 [| |]|s1 e|]; auto.
    + destruct Hsd as (Hf & Ho & Hs & Hl & Htr & _).
      unfold sd_frame in Hf. destruct Hf as (F1 & F2 & F3 & F4 & F5 & F6 & F7 & F8 & _).
      assert (Hsq : 0 <= fs_seq f < M16) by (apply (fs_seq_range (v_segs s) None); rewrite Eit; left; reflexivity).
      assert (Hfin : forall s2 : vsock, v_out s2 = v_out s1 -> v_rto_retransmissions s2 = v_rto_retransmissions s1 ->
                v_now s2 = v_now s1 -> rto_in_bounds (v_rtte s2) ->
                let s3 := set_t_retransmit s2 (timer_arm (v_t_retransmit s2) (v_now s2)
                                                 (retransmission_timeout (v_rtte s2)) true) in
                let s4 := set_rto_retransmissions (set_last_sent_seq_nr s3 (fs_seq f))
                                                  (v_rto_retransmissions s3 + 1) in
                J r0 e0 now s4 /\ v_now s4 = now /\ rto_in_bounds (v_rtte s4) /\
                (false = false -> texp s4 now = true -> iter_for_sending (v_segs s4) None = [])).
      { intros s2 E1 E2 E3 E4 s3 s4.
        assert (Hn2 : v_now s2 = now) by (rewrite E3, F7; exact Hn).
        assert (Hx : texp s4 now = false).
        { unfold texp, s4, s3. vsimpl_goal. rewrite Hn2. apply timer_arm_restart_fresh. apply rto_pos; exact E4. }
        split; [|split; [exact Hn2|split; [exact E4|intros _ E; congruence]]].
        apply (JD _ _ _ _ (data_pkt s h f)); auto.
        - unfold dout, s4, s3. vsimpl_goal. rewrite E1, Ho. cbn [filter]. rewrite is_data_data_pkt.
          fold (dout s). rewrite A1. reflexivity.
        - unfold s4, s3. vsimpl_goal. rewrite E2, F5, A2. reflexivity. }
      destruct (sg_probe (fs_seg f)); cbn [negb].
      * apply Hfin; auto. rewrite F8. exact Hrb.
      * destruct (on_rto_reactions cci s1) as [s2|] eqn:Er; [|exact I].
        destruct (on_rto_reactions_spec _ _ _ Er) as (R1 & R2 & R3 & R4 & R5 & R6 & R7 & R8 & R9 & R10 & _).
        apply Hfin; auto. eapply timeout_in_bounds; exact R1.
    + destruct Hsd as ((Hf & Ho & Hsg & _ & Htr & _) & _).
      unfold sd_frame in Hf. destruct Hf as (F1 & F2 & F3 & F4 & F5 & F6 & F7 & F8 & _).
      split; [apply JA; [unfold dout; rewrite Ho; exact A1|rewrite F5; exact A2|auto]|].
      split; [rewrite F7; exact Hn|]. split; [rewrite F8; exact Hrb|]. intros E; discriminate E.
Qed.

Lemma send_tx_queue_J now r0 e0 (s : vsock) :
  B now s -> 0 <= r0 -> J r0 e0 now s -> stk (fun _ s' => J r0 e0 now s') s (send_tx_queue cci s).
Proof.
  intros HB Hr0 HJ. rewrite send_tx_queue_eq.
  destruct (v_transport_pending s); [exact HJ|].
  pose proof (rto_branch_J now r0 e0 s (outgoing_header s) HB HJ) as Hr.
  destruct (rto_branch cci s (outgoing_header s)) as [s1 ret|s1 e|]; cbn [sbind]; [|exact I|exact I].
  destruct Hr as (J1 & Hn1 & Hb1 & Hit).
  unfold after_rto_k.
  destruct ret; [exact J1|].
  destruct (Z.ltb_spec 0 (v_rto_retransmissions s1)) as [Hpos|Hz]; [exact J1|].
  destruct (ss_segs (v_segs s1)) as [|g0 gs]; [exact J1|].
  fold (rec_new s1 (outgoing_header s)).
  destruct (texp s1 now) eqn:Ex.
  - pose proof (rec_new_silent s1 (outgoing_header s) (Hit eq_refl eq_refl)) as Hs.
    destruct (rec_new s1 (outgoing_header s)) as [s' u|s' e|]; cbn [stk] in *; auto.
    destruct Hs as (S1 & S2 & S3).
    destruct (J_A_of_expired _ _ _ _ J1 Ex) as (A1 & A2 & A3).
    apply JA; [unfold dout; rewrite S1; exact A1|congruence|auto].
  - pose proof (rec_new_CR now s1 (outgoing_header s)) as Hc.
    destruct (rec_new s1 (outgoing_header s)) as [s' u|s' e|]; cbn [stk] in *; auto.
    destruct (Hc Hn1 Hb1 Ex) as (C1 & C2 & C3 & C4).
    apply JC; [|exact C3]. rewrite C4.
    destruct J1 as [A1 A2 A3|A1 A2|p A1 A2 A3 A4 A5 A6]; lia.
Qed.

(* ------------------------------------------------------------------ the relation of a whole poll *)
Definition KJ (s s' : vsock) : Prop :=
  forall now r0 e0, 0 <= r0 -> B now s -> J r0 e0 now s -> B now s' /\ J r0 e0 now s'.

Lemma KJ_refl s : KJ s s.
Proof. intros now r0 e0 H0 HB HJ. auto. Qed.

Lemma KJ_trans a b c : KJ a b -> KJ b c -> KJ a c.
Proof.
  intros F G now r0 e0 H0 HB HJ. destruct (F now r0 e0 H0 HB HJ) as [HB1 HJ1]. apply G; assumption.
Qed.

Lemma KQ_KJ (s s' : vsock) : (forall now, KQ now s s') -> KJ s s'.
Proof.
  intros H now r0 e0 H0 HB HJ. destruct (H now HB) as [HB1 Q]. split; [exact HB1|].
  eapply J_QREL; eauto.
Qed.

Lemma stk_KQ_KJ {A} (s : vsock) (m : step A) : (forall now, stk (KQ now) s m) -> stRk KJ s m.
Proof.
  intro H. destruct m as [s' a|s' e|]; cbn [stRk]; auto. apply KQ_KJ. intro now. exact (H now).
Qed.

Lemma SQ_KJ (s s' : vsock) : SQ s s' -> tiR s s' -> v_now s' = v_now s -> v_env_now s' = v_env_now s -> KJ s s'.
Proof.
  intros HS Ht Hn He. apply KQ_KJ. intros now HB. split; [eapply B_keep; eauto|apply SQ_QREL; exact HS].
Qed.

Lemma stk_SQ_KJ {A} (s : vsock) (m : step A) :
  stR tiR s m -> step_frame0 s m -> stk SQ s m -> stRk KJ s m.
Proof.
  intros Ht Hf Hq. destruct m as [s' a|s' e|]; cbn [stk stR step_frame0 stRk] in *; auto.
  destruct Hf as (_ & E & N & _). apply SQ_KJ; assumption.
Qed.

End WithCC.

(* C02 (the wake-up half): blocked readers/writers and the parked dispatcher are woken when
   their condition changes; a write / shutdown on an idle connection is transmitted at once.
   Boolean predicates over the observations of a connection-level trace.  Model only. *)
From Utp Require Import Base.Prelude Wire.SeqNr Wire.Header Rtt.Rtte Mtu.SegSizes Rx.Rx Tx.Ring
  Tx.Segments Conn.Recovery Conn.Msg Conn.VSockRec Conn.VSock Conn.VSockRun Conn.VObs Conn.C10_Pred.

Definition is_established (f : vfp) : bool :=
  match f_state f with Established => true | _ => false end.

(* nothing buffered for sending, nothing outstanding *)
Definition tx_idle (f : vfp) : bool :=
  (f_tx_len f =? 0) && match f_segs f with [] => true | _ => false end.

Definition idle_established (f : vfp) : bool := is_established f && tx_idle f.

(* ---- application events: the wake-up owed to the parked dispatcher ---- *)

(* a write that stored bytes while the dispatcher was parked on the TX waker wakes it *)
Definition c02_write_wakes (c : vconfig) (st : fstep) : bool :=
  match fs_event st, fs_result st with
  | FeWrite _, FrWrite (WrOk _) =>
      if f_tx_disp_waker (fs_pre st) then fs_disp_woken st else true
  | _, _ => true
  end.

(* dropping the write half while the dispatcher is parked on the TX waker wakes it *)
Definition c02_drop_writer_wakes (c : vconfig) (st : fstep) : bool :=
  match fs_event st with
  | FeDropWriter =>
      if f_tx_disp_waker (fs_pre st) && negb (f_tx_writer_dropped (fs_pre st))
      then fs_disp_woken st else true
  | _ => true
  end.

(* a shutdown on an idle established connection wakes the parked dispatcher (D2 class) *)
Definition shutdown_idle_guard (st : fstep) : bool :=
  match fs_event st, fs_result st with
  | FeShutdown, FrUnit UrPending =>
      idle_established (fs_pre st) && f_tx_disp_waker (fs_pre st) &&
      negb (f_tx_writer_shutdown (fs_pre st)) && negb (f_tx_closed (fs_pre st))
  | _, _ => false
  end.

Definition c02_shutdown_wakes (c : vconfig) (st : fstep) : bool :=
  if shutdown_idle_guard st then fs_disp_woken st else true.

(* a read that returned bytes while the dispatcher was parked on the RX waker (its advertised
   window was too small) wakes it; so does dropping the read half *)
Definition c02_read_wakes (c : vconfig) (st : fstep) : bool :=
  match fs_event st, fs_result st with
  | FeRead _, FrReadBytes _ => if f_rx_disp_waker (fs_pre st) then fs_disp_woken st else true
  | FeDropReader, _ =>
      if f_rx_disp_waker (fs_pre st) && negb (f_rx_reader_dropped (fs_pre st))
      then fs_disp_woken st else true
  | _, _ => true
  end.

(* ---- state after every event: nobody stays parked on a condition that already holds ---- *)
(* a registered reader waker: no bytes in the user queue and the connection is alive;
   a registered writer waker: the connection is alive *)
Definition c02_parked_ok (c : vconfig) (st : fstep) : bool :=
  let f := fs_post st in
  (if f_rx_reader_waker f then (f_rx_qbytes f =? 0) && negb (f_rx_closed f) else true) &&
  (if f_tx_writer_waker f then negb (f_tx_closed f) else true).

Definition woke_reader (r : fresult) : bool :=
  match r with
  | FrPoll _ _ wakes _ => existsb (fun w => match w with VwReader => true | _ => false end) wakes
  | _ => false
  end.

(* the in-sequence FIN was consumed and flushed to the user queue by this poll while the
   reader was parked: it must be woken, poll_read now returns EOF (D8 class) *)
Definition eof_flush_guard (st : fstep) : bool :=
  match fs_event st, fs_result st with
  | FePoll _, FrPoll PollPending _ _ _ =>
      f_rx_reader_waker (fs_pre st) && negb (f_rx_reader_dropped (fs_pre st)) &&
      negb (is_remote_fin_or_later (f_state (fs_pre st))) &&
      match f_state (fs_post st) with LastAck _ _ => true | _ => false end &&
      (f_rx_ff (fs_post st) =? 0) && (f_rx_len (fs_post st) =? 0)
  | _, _ => false
  end.

Definition c02_eof_wakes (c : vconfig) (st : fstep) : bool :=
  if eof_flush_guard st then woke_reader (fs_result st) else true.

(* D8 classifier: the failing step flushed nothing but the EOF (no payload bytes moved) *)
Definition c02_d8_class (c : vconfig) (st : fstep) : bool :=
  eof_flush_guard st && (f_rx_qbytes (fs_post st) =? f_rx_qbytes (fs_pre st)) &&
  negb (woke_reader (fs_result st)).

(* the endpoint advertises a zero window (last ACK sent carries wnd = 0), nothing is held for
   reassembly, the reader is alive and has bytes to drain: when it drains them somebody must
   poll the dispatcher, i.e. the RX dispatcher waker is registered (D9 class) *)
Definition zero_window_guard (st : fstep) : bool :=
  match fs_event st, fs_result st with
  | FePoll _, FrPoll PollPending _ _ _ =>
      let f := fs_post st in
      negb (f_transport_pending f) && (f_last_sent_window f =? 0) &&
      negb (is_remote_fin_or_later (f_state f)) &&
      match f_state f with SynReceived | SynAckSent _ => false | _ => true end &&
      (f_rx_len f =? 0) && (0 <? f_rx_qbytes f) &&
      negb (f_rx_reader_dropped f) && negb (f_rx_closed f)
  | _, _ => false
  end.

Definition c02_zero_window_waker (c : vconfig) (st : fstep) : bool :=
  if zero_window_guard st then f_rx_disp_waker (fs_post st) else true.

(* D9 classifier: the segment size grew after the receive half was built *)
Definition c02_d9_class (c : vconfig) (st : fstep) : bool :=
  zero_window_guard st && negb (f_rx_disp_waker (fs_post st)) &&
  (floor_of (ss_config_of c) <? f_mss (fs_post st)).

(* D2 classifier = the guard of c02_shutdown_wakes with no wake-up *)
Definition c02_d2_class (c : vconfig) (st : fstep) : bool :=
  shutdown_idle_guard st && negb (fs_disp_woken st).

(* ---- timers ---- *)
Definition opt_min4 (f : vfp) : option Z :=
  opt_min (f_t_ack_delay f) (opt_min (f_t_retransmit f)
    (opt_min (f_t_inactivity f) (f_t_syn_ack_resend f))).

Definition woke_self (r : fresult) : bool :=
  match r with
  | FrPoll _ _ wakes _ => existsb (fun w => match w with VwSelf => true | _ => false end) wakes
  | _ => false
  end.

(* after a Pending poll with a writable transport the sleep is armed for the earliest armed
   timer (never later; exactly that one unless the recovery-pipe timer, which the snapshot no
   longer shows, was earlier), and a deadline already reached wakes the task itself *)
Definition c02_timer_ok (c : vconfig) (st : fstep) : bool :=
  match fs_event st, fs_result st with
  | FePoll _, FrPoll PollPending _ _ arm =>
      let f := fs_post st in
      if f_transport_pending f then true
      else
        match opt_min4 f, arm with
        | Some e, Some d =>
            (0 <=? d) && (d <=? sat_sub e (fs_now st)) &&
            (match f_recovery f with Recovering _ => true | _ => d =? sat_sub e (fs_now st) end) &&
            (if d =? 0 then woke_self (fs_result st) else true)
        | Some _, None => false
        | None, Some d =>
            match f_recovery f with Recovering _ => (0 <=? d) | _ => false end
        | None, None => true
        end
  | _, _ => true
  end.

(* data outstanding (a sent, undelivered segment) or our FIN sent and unacknowledged: the
   retransmission timer is armed after a Pending poll with a writable transport *)
Definition outstanding (f : vfp) : bool :=
  existsb (fun g => (0 <? fg_sent_kind g) && negb (fg_delivered g)) (f_segs f) ||
  match our_fin_if_unacked (f_state f) with
  | Some fin => f_last_sent_seq_nr f =? fin
  | None => false
  end.

Definition c02_rto_armed (c : vconfig) (st : fstep) : bool :=
  match fs_event st, fs_result st with
  | FePoll _, FrPoll PollPending _ _ _ =>
      let f := fs_post st in
      if negb (f_transport_pending f) && outstanding f
      then match f_t_retransmit f with Some _ => true | None => false end
      else true
  | _, _ => true
  end.

(* no silent stall: after a Pending poll with a writable transport, a segment that was cut but never sent,
   with nothing of ours in flight, no loss recovery and both windows wide enough for it, does not sit there
   with the retransmission timer off - either it went out in this poll or a timer is left that will send it *)
Definition first_unsent (l : list fseg) : option fseg :=
  find (fun g => (fg_sent_kind g =? 0) && negb (fg_delivered g)) l.

Definition c02_no_silent_stall (c : vconfig) (st : fstep) : bool :=
  match fs_event st, fs_result st with
  | FePoll _, FrPoll PollPending _ _ _ =>
      let f := fs_post st in
      if negb (f_transport_pending f) && negb (is_remote_fin_or_later (f_state f)) &&
         match f_state f with SynReceived | SynAckSent _ | Closed => false | _ => true end &&
         negb (outstanding f) &&
         match f_recovery f with Recovering _ => false | _ => true end
      then
        match first_unsent (f_segs f) with
        | Some g =>
            if (fg_size g <=? f_last_remote_window f) && (fg_size g <=? f_cc_window f)
            then match f_t_retransmit f with Some _ => true | None => false end
            else true
        | None => true
        end
      else true
  | _, _ => true
  end.

(* D14 classifier: the poll popped an expired MTU probe (max_ss lowered) and turned the
   retransmission timer off although other segments are still outstanding *)
Definition c02_d14_class (c : vconfig) (st : fstep) : bool :=
  negb (c02_rto_armed c st) && (f_max_ss (fs_post st) <? f_max_ss (fs_pre st)).

(* ---- promptness (trace level: an application event followed at once by a poll) ---- *)
Definition emits (r : fresult) (p : fpacket -> bool) : bool :=
  match r with FrPoll _ pk _ _ => existsb p pk | _ => false end.

Definition plain_poll (st : fstep) : bool :=
  match fs_event st, fs_result st with
  | FePoll [], FrPoll _ _ _ _ => true
  | _, _ => false
  end.

(* the connection can send one new segment of up to n bytes: window and congestion window open,
   no recovery, no RTO back-off, retransmission / inactivity timers not due *)
Definition can_send_new (now n : Z) (f : vfp) : bool :=
  (1 <=? f_last_remote_window f) && (Z.min (f_max_ss f) n <=? f_cc_window f) && (f_rto_retx f =? 0) &&
  match f_recovery f with Recovering _ => false | _ => true end &&
  negb (timer_expired (f_t_retransmit f) now) && negb (timer_expired (f_t_inactivity f) now) &&
  negb (f_tx_closed f) && negb (f_tx_writer_shutdown f).

(* st0: a poll that went to sleep on an idle established connection (so the inbox is drained);
   st1: the application event; st2: the next poll, at the same clock, transport writable *)
Definition parked_idle (st0 : fstep) : bool :=
  match fs_event st0, fs_result st0 with
  | FePoll _, FrPoll PollPending _ _ _ =>
      idle_established (fs_post st0) && negb (f_transport_pending (fs_post st0)) &&
      f_tx_disp_waker (fs_post st0)
  | _, _ => false
  end.

Fixpoint c02_prompt_from (c : vconfig) (a : c10_acc) (tr : list fstep) : bool :=
  match tr with
  | st0 :: ((st1 :: st2 :: _) as r) =>
      let a1 := c10_acc_next a st0 in
      (if parked_idle st0 && plain_poll st2 && (fs_now st2 =? fs_now st1) &&
          match ca_lim a1 with None => true | Some l => UTP_HEADER + f_max_ss (fs_pre st2) <=? l end
       then
         match fs_event st1, fs_result st1 with
         | FeWrite _, FrWrite (WrOk n) =>
             if can_send_new (fs_now st1) n (fs_pre st1)
             then emits (fs_result st2)
                    (fun p => match ch_type (fq_hdr p) with ST_DATA => 1 <=? fq_plen p | _ => false end)
             else true
         | FeShutdown, FrUnit UrPending =>
             if can_send_new (fs_now st1) 0 (fs_pre st1)
             then emits (fs_result st2)
                    (fun p => match ch_type (fq_hdr p) with ST_FIN => true | _ => false end)
             else true
         | _, _ => true
         end
       else true)
      && c02_prompt_from c a1 r
  | _ => true
  end.

Definition c02_prompt (c : vconfig) (tr : list fstep) : bool := c02_prompt_from c c10_acc0 tr.

(* ---- the form of c02_timer_ok that is a theorem of every model trace (Conn/C02_Step.v): the recovery-pipe
   timer was idle before the poll.  (A pipe timer armed by a poll that then blocked on the transport is kept -
   next_timer_to_poll clears it only when the transport is writable - and makes the NEXT poll's sleep earlier than
   the earliest timer of the fingerprint once recovery is over: a harmless early wake-up, refutation witness
   c02_timer_ok_stale_pipe_refuted.) ---- *)
Definition pipe_idle (f : vfp) : bool :=
  match f_t_recovery_pipe f with None => true | Some _ => false end.

Definition c02_timer_ok_g (c : vconfig) (st : fstep) : bool :=
  if pipe_idle (fs_pre st) then c02_timer_ok c st else true.


(* C08 at connection level — a trace-level predicate: the deadline fires.  Model-only file.
   "... its background task ends within a bounded time under any network behaviour": once a poll has
   returned Pending with a writable transport (the inbox is then drained), and nothing is delivered
   and the dispatcher's channel is not closed meanwhile, a later poll whose clock is at or after the
   inactivity / final-chance deadline that poll left armed, handed a transport that never answers
   Pending, does not return Pending again: the task ends.  (c08_deadline_ok says the deadline is
   armed, at most max(1 s, inactivity) away, once our FIN is out.) *)
From Utp Require Import Base.Prelude Wire.SeqNr Wire.Header Conn.Recovery Conn.Msg Conn.VSockRun Conn.VObs.

Definition script_nopending (sc : list send_outcome) : bool :=
  forallb (fun o => match o with TPending => false | _ => true end) sc.

(* one step, given the deadline known to be armed with an empty, open inbox (if any) *)
Definition c08_fires_at (dl : option Z) (st : fstep) : bool :=
  match fs_event st, fs_result st, dl with
  | FePoll sc, FrPoll PollPending _ _ _, Some t => negb (script_nopending sc && (t <=? fs_now st))
  | _, _, _ => true
  end.

Definition c08_fires_next (dl : option Z) (st : fstep) : option Z :=
  match fs_event st with
  | FeDeliver _ _ | FeCloseInbox => None
  | FePoll _ =>
      match fs_result st with
      | FrPoll PollPending _ _ _ =>
          if f_transport_pending (fs_post st) then None else f_t_inactivity (fs_post st)
      | _ => None
      end
  | _ => dl
  end.

Fixpoint c08_fires_from (dl : option Z) (tr : list fstep) : bool :=
  match tr with
  | [] => true
  | st :: r => c08_fires_at dl st && c08_fires_from (c08_fires_next dl st) r
  end.

Definition c08_fires_ok (cfg : vconfig) (tr : list fstep) : bool := c08_fires_from None tr.

(* the guard is met somewhere on the trace: a poll at or after a known deadline with a transport
   that does not block *)
Fixpoint c08_fires_guard_from (dl : option Z) (tr : list fstep) : bool :=
  match tr with
  | [] => false
  | st :: r =>
      match fs_event st, dl with
      | FePoll sc, Some t => script_nopending sc && (t <=? fs_now st)
      | _, _ => false
      end || c08_fires_guard_from (c08_fires_next dl st) r
  end.

(* C06, trace level: c06_rp_exit_ok (Conn/C06_Pred.v) as a THEOREM about every trace of the model from vsock_new.
   The phase IgnoringUntilRecoveryPoint rp (entered by an RTO during fast recovery) ends in the poll that takes an
   acknowledgement reaching rp from the inbox:
     - the retransmission timer, not expired when the poll starts, does not expire within the poll (ghost
       invariant J of Conn/C05_StepLemmas.v, relation KJ stage by stage), so the RTO branch of send_tx_queue is
       not taken and the phase cannot be re-entered (stq_pq);
     - the connection state only moves forward (rk, fpr): Established after the poll = Established throughout;
     - receive loop: "Established -> not Ignoring, or Ignoring rp with a message reaching rp still queued"
       (recv_loop_Sa); when the loop ends with the inbox empty the phase is over (Sn).
   The guards near_z / tol_ok of the predicate are not needed by the model. *)
From Utp Require Conn.VSock_Inv.
From Utp Require Import Base.Prelude Wire.SeqNr Wire.SeqNr_Proofs Wire.Header Rtt.Rtte Rtt.Rtte_Proofs
  Mtu.SegSizes Rx.Rx Tx.Ring Tx.Ring_Proofs Tx.Segments Tx.Segments_Proofs
  Conn.Recovery Conn.Msg Conn.VSockRec Conn.VSock Conn.VSockRun Conn.VObs
  Conn.VSock_Lemmas Conn.VSock_LemmasStep Conn.VSock_LemmasReach Conn.VSock_LemmasTx
  Conn.VSock_LemmasIn Conn.VSock_LemmasFin Conn.VSock_LemmasTimers Conn.VSock_LemmasPipe Conn.C17_StepLemmas
  Conn.C05_StepLemmas Conn.C05_StepZw
  Conn.C05_Pred Conn.C06_Pred Conn.C06_RecProofs Conn.C06_StepLemmas Conn.C06_Step Conn.C10_Pred Conn.C10_Proofs.

Definition ign (r : recovery) : option Z :=
  match rv_phase r with IgnoringUntilRecoveryPoint x => Some x | _ => None end.

Lemma seq_le_ge : forall a b, seq_le a b = seq_ge b a.
Proof.
  intros a b. unfold seq_le, seq_ge, seq_sub, seq_nr_offset, wsub16, WRAP_TOLERANCE, M16.
  destruct (Z.ltb_spec b a); destruct (Z.ltb_spec a b); try lia;
    repeat match goal with |- context [if ?c then _ else _] => destruct c eqn:? end; lia.
Qed.

Section WithCC.
Context {CC : Type} (cci : cc_iface CC).
Notation vsock := (vsock CC).

(* ------------------------------------------------------------------ recovery_on_ack and the Ignoring phase *)
Lemma roa_ign : forall r h segs ls cc now rtt r' segs' cc',
  recovery_on_ack cci r h segs ls cc now rtt = Some (r', segs', cc') ->
  (forall x, ign r' = Some x -> ign r = Some x) /\
  (forall x, ign r = Some x -> seq_ge (ch_ack h) x = true -> ign r' = None).
Proof.
  intros r h segs ls cc now rtt r' segs' cc'. unfold recovery_on_ack, ign. cbn [rv_phase rv_supports_sack rv_last_ack].
  destruct (rv_phase r) as [rp|d|rc] eqn:E; intro H.
  - destruct (seq_ge (ch_ack h) rp) eqn:G; inversion H; subst; cbn [rv_phase]; split; intros x Hx; try discriminate; auto.
    intro G'. inversion Hx; subst. congruence.
  - split; intros x Hx; [|discriminate]. exfalso.
    repeat match type of H with
           | context [match ?c with _ => _ end] => destruct c eqn:?
           end; try discriminate H; inversion H; subst; cbn [rv_phase] in Hx; discriminate Hx.
  - split; intros x Hx; [|discriminate]. exfalso.
    destruct (seq_ge _ _); inversion H; subst; cbn [rv_phase] in Hx; discriminate Hx.
Qed.

Lemma pim_ack_ign : forall (s1 s2 : vsock) h res, pim_ack cci s1 h = Some (s2, res) ->
  v_state s2 = v_state s1 /\ v_inbox s2 = v_inbox s1 /\
  (forall x, ign (v_recovery s2) = Some x -> ign (v_recovery s1) = Some x) /\
  (forall x, ign (v_recovery s1) = Some x -> seq_ge (ch_ack h) x = true -> ign (v_recovery s2) = None).
Proof.
  intros s1 s2 h res H. unfold pim_ack in H.
  destruct (remove_up_to_ack _ _ _ _) as [segs1 r0]. cbv zeta in H.
  match type of H with match ?c with _ => _ end = _ => destruct c as [rtte1|]; [|discriminate H] end.
  destruct (cc_on_ack _ _ _ _ _) as [cc3|]; [|discriminate H].
  destruct (recovery_on_ack _ _ _ _ _ _ _ _) as [[[rec1 segs2] cc4]|] eqn:Er; [|discriminate H].
  inversion H; subst. vsimpl_goal. split; [reflexivity|]. split; [reflexivity|].
  exact (roa_ign _ _ _ _ _ _ _ _ _ _ Er).
Qed.

(* ------------------------------------------------------------------ the two stage predicates *)
Variable rp : Z.

Definition Reach (s : vsock) : Prop := Exists (fun m => reaches_rp rp (m_hdr m) = true) (v_inbox s).
Definition PHI (s : vsock) : Prop :=
  match ign (v_recovery s) with Some x => x = rp /\ Reach s | None => True end.
Definition Sa (s : vsock) : Prop := 2 <= rk (v_state s) /\ (v_state s = Established -> PHI s).
Definition Sn (s : vsock) : Prop := 2 <= rk (v_state s) /\ (v_state s = Established -> ign (v_recovery s) = None).

Lemma Sn_Sa : forall s, Sn s -> Sa s.
Proof. intros s [H1 H2]. split; [exact H1|]. intro E. unfold PHI. rewrite (H2 E). exact I. Qed.

Lemma rk_est : forall st, rk st = 2 -> st = Established.
Proof. intros st. destruct st; cbn [rk]; intro H; try lia. reflexivity. Qed.

Lemma est_back : forall (s s' : vsock), rk (v_state s) <= rk (v_state s') -> 2 <= rk (v_state s) ->
  v_state s' = Established -> v_state s = Established.
Proof. intros s s' H1 H2 H3. rewrite H3 in H1. cbn [rk] in H1. apply rk_est. lia. Qed.

Lemma Sa_keep : forall s s' : vsock,
  rk (v_state s) <= rk (v_state s') -> v_recovery s' = v_recovery s -> v_inbox s' = v_inbox s -> Sa s -> Sa s'.
Proof.
  intros s s' K R I0 [H1 H2]. split; [lia|]. intro E. specialize (H2 (est_back s s' K H1 E)).
  unfold PHI, Reach in *. rewrite R, I0. exact H2.
Qed.

Lemma Sn_keep : forall s s' : vsock,
  rk (v_state s) <= rk (v_state s') -> v_recovery s' = v_recovery s -> Sn s -> Sn s'.
Proof.
  intros s s' K R [H1 H2]. split; [lia|]. intro E. rewrite R. exact (H2 (est_back s s' K H1 E)).
Qed.

Lemma Sa_fpr : forall s s', fpr s s' -> Sa s -> Sa s'.
Proof.
  intros s s' (_ & _ & _ & _ & _ & _ & _ & _ & _ & _ & R & I0 & _ & K). apply Sa_keep; assumption.
Qed.
Lemma Sn_fpr : forall s s', fpr s s' -> Sn s -> Sn s'.
Proof.
  intros s s' (_ & _ & _ & _ & _ & _ & _ & _ & _ & _ & R & I0 & _ & K). apply Sn_keep; assumption.
Qed.

(* ------------------------------------------------------------------ one message *)
Lemma reaches_type : forall h, reaches_rp rp h = true ->
  (ch_type h = ST_DATA \/ ch_type h = ST_STATE) /\ seq_ge (ch_ack h) rp = true.
Proof.
  intros h. unfold reaches_rp. rewrite seq_le_ge. destruct (ch_type h); intro H; try discriminate; auto.
Qed.

Lemma pim_data_fin_fpr : forall (s2 : vsock) m res seen,
  sfp s2 (let offset := seq_sub (ch_seq (m_hdr m)) (wadd16 (v_last_consumed s2) 1) in
          match ch_type (m_hdr m) with
          | ST_DATA => pim_data cci s2 m res offset
          | ST_FIN => pim_fin s2 m res offset seen
          | _ => SOk s2 res
          end).
Proof.
  intros s2 m res seen. cbv zeta. destruct (ch_type (m_hdr m)); try (cbn [sfp]; apply fpr_refl).
  - apply pim_data_fpr. - apply pim_fin_fpr.
Qed.

(* what one message does: the inbox is kept, the state moves forward, Ignoring is never entered, and a message
   reaching rp taken in Established ends Ignoring rp *)
Lemma pim_msg_ign : forall (s : vsock) m,
  match process_incoming_message cci s m with
  | SOk s1 _ =>
      v_inbox s1 = v_inbox s /\ rk (v_state s) <= rk (v_state s1) /\
      (forall x, ign (v_recovery s1) = Some x -> ign (v_recovery s) = Some x) /\
      (v_state s = Established -> reaches_rp rp (m_hdr m) = true -> ign (v_recovery s) = Some rp ->
       ign (v_recovery s1) = None)
  | _ => True
  end.
Proof.
  intros s m. rewrite process_incoming_message_eq.
  destruct (state_table_fpr s (m_hdr m)) as [Ht _].
  destruct (state_table s (m_hdr m)) as [s1|s1 e|s1] eqn:Et; cbn [tbl_state] in Ht; [|exact I|].
  - destruct Ht as (_ & _ & _ & _ & _ & _ & _ & _ & _ & _ & R & I0 & _ & K).
    split; [exact I0|]. split; [exact K|]. split; [intros x Hx; rewrite <- R; exact Hx|].
    intros Es Hr _. exfalso. destruct (reaches_type _ Hr) as [Hty _].
    unfold state_table in Et. rewrite Es in Et. destruct Hty as [Hty|Hty]; rewrite Hty in Et; discriminate Et.
  - destruct Ht as (_ & _ & _ & _ & _ & _ & _ & _ & _ & _ & R & I0 & _ & K).
    unfold pim_cont. destruct (pim_ack cci s1 (m_hdr m)) as [[s2 res]|] eqn:Ea; [|exact I].
    destruct (pim_ack_ign _ _ _ _ Ea) as (A1 & A2 & A3 & A4).
    pose proof (pim_data_fin_fpr s2 m res (is_remote_fin_or_later (v_state s))) as F. cbv zeta in F.
    match goal with |- match ?c with _ => _ end => destruct c as [s3 r3|s3 e3|]; [|exact I|exact I] end.
    cbn [sfp] in F. destruct F as (_ & _ & _ & _ & _ & _ & _ & _ & _ & _ & R3 & I3 & _ & K3).
    split; [congruence|]. split; [rewrite A1 in K3; lia|]. rewrite R3.
    split; [intros x Hx; rewrite <- R; apply A3; exact Hx|].
    intros Es Hr Hi. destruct (reaches_type _ Hr) as [_ Hge].
    apply (A4 rp); [rewrite R; exact Hi | exact Hge].
Qed.

(* ------------------------------------------------------------------ the receive loop *)
Definition spA {X} (m : step X) : Prop :=
  match m with
  | SOk s' _ => Sa s' /\
      (v_transport_pending s' = false -> state_is_closed (v_state s') (o_wait_for_last_ack (v_opts s')) = false ->
       v_inbox s' = [])
  | _ => True
  end.

Lemma closed_not_est : forall st w, st = Established -> state_is_closed st w = false.
Proof. intros st w ->. reflexivity. Qed.

Lemma recv_loop_Sa : forall fuel (s : vsock) acc, Sa s -> spA (recv_loop cci fuel s acc).
Proof.
  assert (Hbase : forall (s : vsock) (acc : on_ack_result), Sa s -> v_inbox s = [] ->
    spA (if v_inbox_closed s
         then sbind (maybe_send_fin (transition_to_fin_wait_1 s))
                    (fun s2 _ => SOk (set_state s2 Closed) (acc, true))
         else SOk (set_inbox_waker s true) (acc, false))).
  { intros s acc Hs Hi. destruct (v_inbox_closed s).
    - pose proof (maybe_send_fin_fpr (transition_to_fin_wait_1 s)) as F.
      destruct (maybe_send_fin (transition_to_fin_wait_1 s)) as [s2 b|s2 e|]; cbn [sbind spA sfp] in *; auto.
      pose proof (fpr_trans _ _ _ (transition_fpr s) F) as F2.
      destruct F2 as (_ & _ & _ & _ & _ & _ & _ & _ & _ & _ & R & I0 & _ & K).
      split.
      + split; [vsimpl_goal; cbn [rk]; lia|]. vsimpl_goal. discriminate.
      + intros _ _. vsimpl_goal. congruence.
    - cbn [spA]. split; [apply (Sa_keep s); try reflexivity; try apply Z.le_refl; exact Hs|].
      intros _ _. exact Hi. }
  induction fuel as [|m0 fuel IH]; intros s acc Hs; cbn [recv_loop];
    destruct (v_inbox s) as [|m rest] eqn:Ei; try (apply Hbase; assumption); try exact I.
  pose proof (pim_msg_ign (set_inbox s rest) m) as Hm.
  destruct (process_incoming_message cci (set_inbox s rest) m) as [s1 r|s1 e|]; cbn [sbind]; [|exact I|exact I].
  destruct Hm as (M1 & M2 & M3 & M4).
  change (v_inbox (set_inbox s rest)) with rest in M1.
  change (v_state (set_inbox s rest)) with (v_state s) in *.
  change (v_recovery (set_inbox s rest)) with (v_recovery s) in *.
  assert (Hs1 : Sa s1).
  { destruct Hs as [H1 H2]. split; [lia|]. intro E.
    assert (E0 : v_state s = Established) by (apply rk_est; rewrite E in M2; cbn [rk] in M2; lia).
    specialize (H2 E0). unfold PHI, Reach in *.
    destruct (ign (v_recovery s1)) as [x|] eqn:Ex; [|exact I].
    pose proof (M3 x eq_refl) as Hx. rewrite Hx in H2. cbv beta iota in H2. destruct H2 as [Hxr Hre]. subst x.
    rewrite Ei in Hre. rewrite M1. inversion Hre as [? ? Hh|? ? Hh]; subst.
    - pose proof (M4 E0 Hh Hx) as Hc. discriminate Hc.
    - split; [reflexivity | exact Hh]. }
  destruct (state_is_closed _ _ || v_transport_pending s1) eqn:Eb.
  - cbn [spA]. split; [exact Hs1|]. intros T Cc. rewrite T, Cc in Eb. discriminate.
  - apply IH. exact Hs1.
Qed.

(* ------------------------------------------------------------------ the bookkeeping after the loop *)
Lemma paim_rest_Sn : forall (s1 : vsock) r, Sn s1 -> stU Sn (paim_rest s1 r).
Proof.
  intros s1 r H1.
  assert (K : spI Sn (paim_rest s1 r)).
  { unfold paim_rest.
    match goal with |- spI _ (sbind ?m _) =>
      match m with context [acked_counts_as_sent ?x] => set (s2 := x) end end.
    assert (F2 : Sn s2).
    { subst s2. unfold restart_remote_inactivity_timer. destruct (_ || _); [|exact H1].
      destruct (ss_segs _); [destruct (our_fin_if_unacked _)|];
        (eapply Sn_keep; [| |exact H1]; [vsimpl_goal; apply Z.le_refl | reflexivity]). }
    clearbody s2.
    apply spI_bind.
    - destruct (0 <? _); [|exact F2].
      assert (F2' : Sn (acked_counts_as_sent s2)).
      { eapply Sn_fpr; [|exact F2]. unfold acked_counts_as_sent.
        destruct (seq_gt _ _ && seq_lt _ _); [apply fpr_same; first [reflexivity | apply Z.le_refl] | apply fpr_refl]. }
      revert F2'. generalize (acked_counts_as_sent s2). intros s2' F2'.
      destruct (truncate_front _ _) as [tx1 tr].
      destruct tr; cbn [spI].
      + destruct (wake_writer tx1) as [tx2 w]. cbn [spI]. eapply Sn_keep; [| |exact F2']; [apply Z.le_refl | reflexivity].
      + split; [eapply Sn_keep; [| |exact F2']; [apply Z.le_refl | reflexivity] | discriminate].
    - intros s3 _ H3. destruct (rv_phase (v_recovery s3)) eqn:Eph; try exact H3.
      destruct (calc_pipe _ _ _ _ _) as [[[sg pp] rcl]|] eqn:Ec; [|exact I].
      cbn [spI]. destruct H3 as [G1 G2]. split; [exact G1|]. intros _. reflexivity. }
  destruct (paim_rest s1 r); cbn [spI stU] in *; auto.
Qed.

Lemma paim_rest_frame : forall (s1 : vsock) r,
  stU (fun s' => v_inbox s' = v_inbox s1 /\ v_state s' = v_state s1 /\ v_opts s' = v_opts s1 /\
                  v_transport_pending s' = v_transport_pending s1) (paim_rest s1 r).
Proof.
  intros s1 r.
  assert (K : spI (fun s' => v_inbox s' = v_inbox s1 /\ v_state s' = v_state s1 /\ v_opts s' = v_opts s1 /\
                  v_transport_pending s' = v_transport_pending s1)
                  (paim_rest s1 r)).
  { unfold paim_rest.
    match goal with |- spI _ (sbind ?m _) =>
      match m with context [acked_counts_as_sent ?x] => set (s2 := x) end end.
    assert (F2 : v_inbox s2 = v_inbox s1 /\ v_state s2 = v_state s1 /\ v_opts s2 = v_opts s1 /\
                 v_transport_pending s2 = v_transport_pending s1).
    { subst s2. unfold restart_remote_inactivity_timer. destruct (_ || _); [|auto].
      destruct (ss_segs _); [destruct (our_fin_if_unacked _)|]; auto. }
    clearbody s2.
    apply spI_bind.
    - destruct (0 <? _); [|exact F2].
      assert (F2' : v_inbox (acked_counts_as_sent s2) = v_inbox s1 /\ v_state (acked_counts_as_sent s2) = v_state s1 /\
                    v_opts (acked_counts_as_sent s2) = v_opts s1 /\
                    v_transport_pending (acked_counts_as_sent s2) = v_transport_pending s1).
      { unfold acked_counts_as_sent. destruct (seq_gt _ _ && seq_lt _ _); exact F2. }
      revert F2'. generalize (acked_counts_as_sent s2). intros s2' F2'.
      destruct (truncate_front _ _) as [tx1 tr].
      destruct tr; cbn [spI].
      + destruct (wake_writer tx1) as [tx2 w]. cbn [spI]. exact F2'.
      + split; [exact F2' | discriminate].
    - intros s3 _ H3. destruct (rv_phase (v_recovery s3)) eqn:Eph; try exact H3.
      destruct (calc_pipe _ _ _ _ _) as [[[sg pp] rcl]|] eqn:Ec; [|exact I].
      cbn [spI]. exact H3. }
  destruct (paim_rest s1 r); cbn [spI stU] in *; auto.
Qed.

(* process_all_incoming_messages: from Sa to Sn (unless the transport blocked) *)
Lemma pim_Sa_Sn : forall s : vsock, Sa s ->
  match process_all_incoming_messages cci s with
  | SOk s' _ => v_transport_pending s' = false -> Sn s'
  | _ => True
  end.
Proof.
  intros s Hs. rewrite paim_eq.
  pose proof (recv_loop_Sa (v_inbox s ++ [ {| m_hdr := outgoing_header s; m_payload := [] |} ]) s
                on_ack_result_default Hs) as Hl.
  destruct (recv_loop cci _ s on_ack_result_default) as [s1 res|s1 e|]; cbn [sbind spA] in *; auto.
  destruct Hl as [[H1 H2] Hin].
  pose proof (paim_rest_Sn s1 (fst res)) as Kn. pose proof (paim_rest_frame s1 (fst res)) as Kf.
  destruct (paim_rest s1 (fst res)) as [s' u|s' e|] eqn:Er; cbn [stU stR] in *; auto.
  intro T. destruct Kf as (F1 & F2 & F3 & F4).
  assert (T1 : v_transport_pending s1 = false) by congruence.
  apply Kn. split; [exact H1|]. intro E.
  specialize (H2 E). unfold PHI, Reach in H2.
  destruct (ign (v_recovery s1)) as [x|]; [|reflexivity].
  destruct H2 as [_ Hre]. rewrite (Hin T1 (closed_not_est _ _ E)) in Hre. inversion Hre.
Qed.


(* ------------------------------------------------------------------ send_tx_queue without an expired timer:
   the state is kept and the Ignoring phase is not entered *)
Definition pq (s s' : vsock) : Prop :=
  v_state s' = v_state s /\ (ign (v_recovery s) = None -> ign (v_recovery s') = None).
Lemma pq_refl : forall s, pq s s. Proof. intro s. split; auto. Qed.
Lemma pq_trans : forall a b c, pq a b -> pq b c -> pq a c.
Proof. intros a b c [A1 A2] [B1 B2]. split; [congruence | auto]. Qed.
Lemma pq_same : forall s s' : vsock, v_state s' = v_state s -> v_recovery s' = v_recovery s -> pq s s'.
Proof. intros s s' E R. split; [exact E | rewrite R; auto]. Qed.
Lemma sd_frame_pq : forall s s' : vsock, sd_frame s s' -> pq s s'.
Proof. intros s s' (_ & _ & _ & R & _ & _ & _ & _ & _ & St & _). apply pq_same; assumption. Qed.

Lemma send_data_pq : forall (s : vsock) h f, stk pq s (send_data s h f).
Proof.
  intros s h f. pose proof (send_data_spec s h f) as H.
  destruct (send_data s h f) as [s1 r|s1 e|]; cbn [stk]; [|exact I|exact I].
  destruct r; [destruct H as [Hf _] | destruct H as [[Hf _] _] | destruct H as [[Hf _] _]]; apply sd_frame_pq; exact Hf.
Qed.

Lemma recovery_loop_pq : forall items (s : vsock) h mss0 st, stk pq s (recovery_loop items s h mss0 st).
Proof.
  induction items as [|f rest IH]; intros s h mss0 st; cbn [recovery_loop]; [apply pq_refl|].
  destruct (negb _); [apply pq_refl|].
  destruct (_ && negb (sg_lost _)); [apply IH|].
  destruct (_ && negb (sg_sacks_after _)); [apply pq_refl|].
  pose proof (send_data_pq s h f) as Hd.
  destruct (send_data s h f) as [s1 r|s1 e|]; cbn [stk] in *; auto.
  destruct r; cbn [stk]; auto.
  match goal with |- stk pq s (recovery_loop rest s1 h mss0 ?st') => pose proof (IH s1 h mss0 st') as H2;
    destruct (recovery_loop rest s1 h mss0 st') end; cbn [stk] in *; auto. eapply pq_trans; eauto.
Qed.

Lemma new_data_loop_pq : forall items (s : vsock) h remaining, stk pq s (new_data_loop items s h remaining).
Proof.
  induction items as [|f rest IH]; intros s h remaining; cbn [new_data_loop]; [apply pq_refl|].
  destruct (_ <? _); [apply pq_refl|].
  pose proof (send_data_pq s h f) as Hd.
  destruct (send_data s h f) as [s1 r|s1 e|]; cbn [stk] in *; auto.
  destruct r; cbn [stk]; auto.
  match goal with |- stk pq s (new_data_loop rest s1 h ?rem') => pose proof (IH s1 h rem') as H2;
    destruct (new_data_loop rest s1 h rem') end; cbn [stk] in *; auto. eapply pq_trans; eauto.
Qed.

Ltac pq_rec := split; [unfold set_recovering; vsimpl_goal; reflexivity
                      | intros _; unfold set_recovering, ign; vsimpl_goal; reflexivity].

Lemma stq_pq : forall s : vsock,
  timer_expired (v_t_retransmit s) (v_now s) = false -> stk pq s (send_tx_queue cci s).
Proof.
  intros s Hne. unfold send_tx_queue. destruct (v_transport_pending s); [apply pq_refl|].
  cbv zeta. rewrite Hne. cbn [sbind].
  destruct (0 <? _); [apply pq_refl|]. destruct (ss_segs (v_segs s)) eqn:Esg; [apply pq_refl|].
  apply (stk_bind pq pq_trans).
  - destruct (rv_phase (v_recovery s)) as [x|d|rc] eqn:Eph; try apply pq_refl.
    apply (stk_bind pq pq_trans); [apply recovery_loop_pq|].
    intros s2 [st early]. cbv beta iota zeta.
    destruct early; [cbn [stk]; pq_rec|].
    match goal with |- stk pq _ (match our_fin_if_unacked (v_state ?y) with _ => _ end) =>
      assert (F3 : pq s2 y); [|revert F3; generalize y; intros sy F3] end.
    { destruct (_ <? _); [|pq_rec]. destruct (rc_recalc _); [pq_rec|]. destruct (0 <? _); pq_rec. }
    destruct (our_fin_if_unacked _); [destruct (_ =? _)|]; cbn [stk]; auto.
    split; [unfold set_recovering; vsimpl_goal; exact (proj1 F3)
           | intros _; unfold set_recovering, ign; vsimpl_goal; reflexivity].
  - intros s1 ret. destruct ret; [apply pq_refl|].
    apply (stk_bind pq pq_trans); [apply new_data_loop_pq|].
    intros s2 tl. destruct tl as [[sq sz]|]; [|apply pq_refl].
    destruct (pop_mtu_probe _ _) as [segs' popped]. destruct popped; cbn [stk]; [|exact I].
    apply pq_same; reflexivity.
Qed.

Lemma split_state : forall (s s' : vsock) u,
  split_tx_queue_into_segments cci s = SOk s' u -> v_state s' = v_state s.
Proof.
  intros s s' u H. unfold split_tx_queue_into_segments in H.
  destruct (_ =? 0); [inversion H; reflexivity|].
  match type of H with context [is_remote_fin_or_later (v_state ?x)] => set (s1 := x) in * end.
  assert (F1 : v_state s1 = v_state s).
  { subst s1. destruct (_ && _); [|reflexivity].
    destruct (grow _ _) as [tx1 g]. destruct g; [destruct (wake_writer tx1)|]; reflexivity. }
  clearbody s1.
  destruct (is_remote_fin_or_later _); [inversion H; subst; exact F1|].
  destruct (pop_expired_mtu_probe _ _ _) as [segs1 pe].
  destruct pe.
  - destruct (seq_gt _ _);
      (destruct (_ <? _); [discriminate|]);
      (destruct (segment_loop _ _ _ _ _ _) as [[[ss' segs'] rem']|]; [|discriminate]);
      inversion H; subst; exact F1.
  - inversion H; subst; exact F1.
  - destruct (_ <? _); [discriminate|].
    destruct (segment_loop _ _ _ _ _ _) as [[[ss' segs'] rem']|]; [|discriminate].
    inversion H; subst; exact F1.
Qed.

(* ------------------------------------------------------------------ the whole poll *)
Variable now r0 : Z.
Hypothesis r0_nn : 0 <= r0.

Definition BJ (s : vsock) : Prop := B now s /\ J r0 false now s.

Lemma KJ_BJ : forall s s' : vsock, KJ s s' -> BJ s -> BJ s'.
Proof. intros s s' K [H1 H2]. exact (K now r0 false r0_nn H1 H2). Qed.

Lemma BJ_ne : forall s : vsock, BJ s -> timer_expired (v_t_retransmit s) (v_now s) = false.
Proof.
  intros s [(_ & Hn & _) HJ]. rewrite Hn. fold (texp s now).
  destruct (texp s now) eqn:E; [|reflexivity].
  destruct HJ as [_ _ A3|_ A2|p _ _ A3 _ _ _]; [symmetry; apply A3; exact E | congruence | discriminate A3].
Qed.

Definition QPt (s : vsock) : Prop := True.
Definition QEt (s : vsock) (e : verror) : Prop := True.
Definition ASa (s : vsock) : Prop := BJ s /\ Sa s.
Definition BSn (s : vsock) : Prop := BJ s /\ Sn s.

Lemma stH_of : forall X (S : vsock -> Prop) (s : vsock) (m : step X),
  (forall s', fpr s s' -> S s -> S s') ->
  BJ s -> S s -> stRk KJ s m -> sfp s m -> stH QPt QEt (fun s => BJ s /\ S s) m.
Proof.
  intros X S s m Sf Hb Hs Hk Hf. destruct m as [s' a|s' e|]; cbn [stH stRk sfp] in *; try exact I.
  split; [intros _; exact I|]. intros _. split; [eapply KJ_BJ; eauto | apply Sf; assumption].
Qed.

Theorem poll_loop_Sn : forall fuel (s s' : vsock),
  ASa s -> poll_loop cci fuel s = (s', PollPending) -> v_transport_pending s' = true \/ Sn s'.
Proof.
  intros fuel s s' HA H.
  refine (_ (poll_loop_H cci ASa ASa BSn BSn BSn BSn QPt QEt _ _ _ _ _ _ _ _ _ _ _ fuel s s' PollPending HA H)).
  - cbn [resH]. intros [[T _]|(sb & [_ Hs] & _ & _ & _ & ->)]; [left; exact T|right].
    eapply Sn_fpr; [apply poll_tail_fpr | exact Hs].
  - intros x [Hb Hs]. split; [eapply KJ_BJ; [apply poll_start_KJ | exact Hb]|].
    apply (Sa_keep x); try reflexivity; try apply Z.le_refl; exact Hs.
  - intros x [Hb Hs] _. apply (stH_of _ Sa x); auto; [intros; eapply Sa_fpr; eauto | apply maybe_send_syn_ack_KJ | apply maybe_send_syn_ack_fpr].
  - intros x [Hb Hs] _. apply (stH_of _ Sa x); auto; [intros; eapply Sa_fpr; eauto | apply send_ack_KJ | apply send_ack_fpr].
  - intros x [Hb Hs] _. pose proof (process_all_KJ cci x) as K. pose proof (pim_Sa_Sn x Hs) as P.
    destruct (process_all_incoming_messages cci x) as [x' a|x' e|]; cbn [stH stRk] in *; try exact I.
    split; [intros _; exact I|]. intro T. split; [eapply KJ_BJ; eauto | apply P; exact T].
  - intros x rx1 fb w [Hb Hs] _ _. split; [eapply KJ_BJ; [apply rx_flush_KJ | exact Hb]|].
    apply (Sn_keep x); try reflexivity; try apply Z.le_refl; exact Hs.
  - intros x _. exact I.
  - intros x [Hb Hs] _. pose proof (split_KJ cci x) as K. pose proof (split_state x) as St.
    pose proof (split_tx_queue_into_segments_qb cci x) as Q.
    destruct (split_tx_queue_into_segments cci x) as [x' a|x' e|]; cbn [stB stRk stR] in *; try exact I.
    split; [eapply KJ_BJ; eauto|]. destruct Q as (_ & _ & R & _).
    apply (Sn_keep x); [rewrite (St x' a eq_refl); apply Z.le_refl | exact R | exact Hs].
  - intros x [Hb Hs] _ _. pose proof (send_tx_queue_KJ cci x) as K. pose proof (stq_pq x (BJ_ne x Hb)) as P.
    destruct (send_tx_queue cci x) as [x' a|x' e|]; cbn [stQ stRk stk] in *; try exact I.
    assert (G : BSn x').
    { split; [eapply KJ_BJ; eauto|]. destruct P as [P1 P2]. destruct Hs as [H1 H2]. split; [rewrite P1; exact H1|].
      intro E. apply P2. apply H2. congruence. }
    split; [intros _; split; [exact (proj1 G) | apply Sn_Sa; exact (proj2 G)]|].
    split; [intros _ _; exact I | intros _ _; exact G].
  - intros x [Hb Hs] _. split; [eapply KJ_BJ; [apply transition_to_fin_wait_1_KJ | exact Hb]|].
    eapply Sn_fpr; [apply transition_fpr | exact Hs].
  - intros x [Hb Hs] _. apply (stH_of _ Sn x); auto; [intros; eapply Sn_fpr; eauto | apply maybe_send_fin_KJ | apply maybe_send_fin_fpr].
  - intros x [Hb Hs] _. apply (stH_of _ Sn x); auto; [intros; eapply Sn_fpr; eauto | apply maybe_send_ack_KJ | apply maybe_send_ack_fpr].
Qed.

End WithCC.

(* ================================================================== the poll, then every trace *)
Section Trace.
Context {CC : Type} (cci : cc_iface CC).
Notation vsock := (vsock CC).

Theorem poll_rp_exit : forall rp (s : vsock) sc s',
  ti s -> v_state s = Established -> ign (v_recovery s) = Some rp ->
  Exists (fun m => reaches_rp rp (m_hdr m) = true) (v_inbox s) ->
  timer_expired (v_t_retransmit s) (v_env_now s) = false ->
  poll cci (VSockRec.set_sends s sc) = (s', PollPending) ->
  v_transport_pending s' = true \/ (v_state s' = Established -> ign (v_recovery s') = None).
Proof.
  intros rp s sc s' Hti Est Hig Hre Hne H. rewrite poll_unfold in H. apply poll_loop_start in H.
  pose proof Hti as (T1 & T2 & T3).
  pose proof (poll_loop_Sn cci rp (v_env_now s) (v_rto_retransmissions s) T2 64%nat (poll_start (poll_init (VSockRec.set_sends s sc))) s') as L.
  refine (_ (L _ H)).
  - intros [T|[_ Hn]]; [left; exact T | right; exact Hn].
  - split; [split|].
    + split; [split; [exact T1|split; [exact T2|exact T3]]|]. split; reflexivity.
    + apply JA; [reflexivity|reflexivity|]. intro Hx.
      change (timer_expired (v_t_retransmit s) (v_env_now s) = true) in Hx. congruence.
    + apply (Sa_keep rp s); try reflexivity; try apply Z.le_refl.
      split; [rewrite Est; cbn [rk]; lia|]. intros _. unfold PHI. rewrite Hig. split; [reflexivity | exact Hre].
Qed.

Definition PInv (s : vsock) (pending : option (list chdr)) : Prop :=
  match pending with
  | Some l => v_inbox_closed s = false /\ incl l (map (@m_hdr) (v_inbox s))
  | None => True
  end.

Lemma vstep_inbox : forall (s : vsock) o,
  match o with
  | VoPoll _ => True
  | VoDeliver m =>
      if v_inbox_closed s then vstep_state cci s o = s
      else v_inbox (vstep_state cci s o) = v_inbox s ++ [m] /\ v_inbox_closed (vstep_state cci s o) = false
  | VoCloseInbox => True
  | _ => v_inbox (vstep_state cci s o) = v_inbox s /\ v_inbox_closed (vstep_state cci s o) = v_inbox_closed s
  end.
Proof.
  intros s o. unfold vstep_state. destruct o; try exact I; cbn [vstep].
  3: { destruct (v_inbox_closed s) eqn:E; cbn [fst]; [reflexivity | split; [reflexivity | exact E]]. }
  all: repeat break_match; cbn [fst]; split; reflexivity.
Qed.

Lemma existsb_reach : forall rp l (inbox : list msg),
  existsb (reaches_rp rp) l = true -> incl l (map (@m_hdr) inbox) ->
  Exists (fun m => reaches_rp rp (m_hdr m) = true) inbox.
Proof.
  intros rp l inbox He Hi. apply existsb_exists in He. destruct He as (h & Hh & Hr).
  apply Hi in Hh. apply in_map_iff in Hh. destruct Hh as (m & <- & Hm).
  apply Exists_exists. exists m. split; assumption.
Qed.

Lemma poll_env_closed : forall (s : vsock) sc s' r,
  poll cci (VSockRec.set_sends s sc) = (s', r) ->
  v_env_now s' = v_env_now s /\ v_inbox_closed s' = v_inbox_closed s.
Proof.
  intros s sc s' r E. rewrite poll_unfold in E.
  pose proof (VSock_LemmasFin.poll_loop_frame0 cci 64 (poll_init (VSockRec.set_sends s sc))) as F.
  rewrite E in F. cbn [fst] in F. destruct F as (_ & _ & _ & F4 & _ & F6 & _). split; [exact F4 | exact F6].
Qed.

Theorem rp_exit_poll : forall (s : vsock) sc s' l,
  ti s -> poll cci (VSockRec.set_sends s sc) = (s', PollPending) ->
  v_transport_pending s' = false -> incl l (map (@m_hdr) (v_inbox s)) ->
  rp_exit_poll_ok l (fstep_of cci s (VoPoll sc)) = true.
Proof.
  intros s sc s' l Hti E T Hi. rewrite (fstep_of_poll cci s sc s' _ E). unfold rp_exit_poll_ok.
  cbn [fs_pre fs_post fs_now]. cbn [fp_of_vsock f_recovery f_state f_t_retransmit f_segs f_snd_una].
  destruct (rv_phase (v_recovery s)) as [rp|d|rc] eqn:Eph; try reflexivity.
  destruct (v_state s) eqn:Est; try reflexivity. destruct (v_state s') eqn:Est'; try reflexivity.
  match goal with |- (if ?c then _ else _) = true => destruct c eqn:G end; [|reflexivity].
  apply andb_true_iff in G. destruct G as [G G4]. apply andb_true_iff in G. destruct G as [G G3].
  apply andb_true_iff in G. destruct G as [G1 G2]. apply negb_true_iff in G3.
  destruct (poll_env_closed _ _ _ _ E) as [Hen _]. rewrite Hen in G3.
  destruct (poll_rp_exit rp s sc s' Hti Est) as [K|K]; auto.
  - unfold ign. rewrite Eph. reflexivity.
  - eapply existsb_reach; eauto.
  - congruence.
  - specialize (K Est'). unfold ign in K. destruct (rv_phase (v_recovery s')); try reflexivity. discriminate K.
Qed.

Theorem rp_exit_scan_ok : forall ops (s : vsock) pending,
  ti s -> PInv s pending -> rp_exit_scan (ftrace cci s ops) pending = true.
Proof.
  induction ops as [|o rest IH]; intros s pending Hti Hp; [reflexivity|].
  rewrite ftrace_cons'. cbn [rp_exit_scan]. rewrite fstep_of_event.
  pose proof (ti_vstep cci s o Hti) as Hti'. pose proof (vstep_inbox s o) as Hin.
  assert (Hnon : (forall sc, o <> VoPoll sc) -> forall pending',
            PInv (vstep_state cci s o) pending' ->
            rp_exit_scan (if poll_finished (vstep_out cci s o) then [] else ftrace cci (vstep_state cci s o) rest)
              pending' = true).
  { intros Hnp pending' Hp'. destruct (C06_Step.vstep_nonpoll_out cci s o Hnp) as [Hf _]. rewrite Hf.
    apply IH; assumption. }
  assert (Hsame : v_inbox (vstep_state cci s o) = v_inbox s /\
                  v_inbox_closed (vstep_state cci s o) = v_inbox_closed s -> PInv (vstep_state cci s o) pending).
  { intros [I1 I2]. unfold PInv in *. destruct pending; [|exact I]. rewrite I1, I2. exact Hp. }
  destruct o as [t|m|sc|m| |buf| | |n| |]; cbn [fevent_of];
    try (apply Hnon; [discriminate | apply Hsame; exact Hin]).
  - (* poll *) clear Hnon Hsame Hin.
    destruct (poll cci (VSockRec.set_sends s sc)) as [s' r] eqn:E.
    destruct (vstep_poll cci s sc s' r E) as [V1 V2]. rewrite V1, V2 in *.
    assert (Hr : fs_result (fstep_of cci s (VoPoll sc)) =
                 FrPoll r (map fpacket_of (rev (v_out s'))) (rev (v_wakes s')) (v_arm_in s') /\
                 fs_post (fstep_of cci s (VoPoll sc)) = fp_of_vsock cci s').
    { rewrite (fstep_of_poll cci s sc s' r E). split; reflexivity. }
    destruct Hr as [Hr1 Hr2]. rewrite Hr1, Hr2. cbn [poll_finished].
    change (f_transport_pending (fp_of_vsock cci s')) with (v_transport_pending s').
    destruct r; try (destruct pending; reflexivity).
    destruct (poll_env_closed _ _ _ _ E) as [_ Hcl].
    apply andb_true_intro. split.
    + destruct pending as [l|]; [|reflexivity]. destruct (v_transport_pending s') eqn:T; [reflexivity|].
      destruct Hp as [_ Hi]. eapply rp_exit_poll; eauto.
    + apply IH; [exact Hti'|]. destruct (v_transport_pending s'); [exact I|].
      destruct pending as [l|]; [|exact I]. destruct Hp as [Hc _]. split; [congruence | intros x []].
  - (* deliver *) apply Hnon; [discriminate|]. unfold PInv in *. destruct pending as [l|]; [|exact I].
    destruct Hp as [Hc Hi]. rewrite Hc in Hin. destruct Hin as [I1 I2]. split; [exact I2|].
    rewrite I1, map_app. cbn [map]. apply incl_app; [apply incl_appl; exact Hi | apply incl_appr, incl_refl].
  - (* close *) apply Hnon; [discriminate | exact I].
Qed.

Theorem c06_rp_exit_ok_trace : forall cfg mk c (s0 : vsock) ops,
  vsock_new cci mk c = Some s0 -> c06_rp_exit_ok cfg (ftrace cci s0 ops) = true.
Proof.
  intros cfg mk c s0 ops H0. unfold c06_rp_exit_ok. apply rp_exit_scan_ok; [eapply ti_vsock_new; exact H0|].
  unfold vsock_new in H0.
  destruct (match (if vc_incoming c then None else _) with Some r => _ | None => _ end); [|discriminate].
  inversion H0; subst. split; [reflexivity | intros x []].
Qed.

End Trace.

(* ------------------------------------------------------------------ the clause is met by a reachable poll:
   three duplicate ACKs (Recovering, recovery point 101), the retransmission timer expires (Ignoring 101), the
   acknowledgement of 101 arrives, the next poll takes it with the timer running: the phase is over *)
Definition rpx_ops : list vop :=
  [VoWrite (repeat 0 (Z.to_nat 528)); VoPoll [];
   VoDeliver nv_dup; VoDeliver nv_dup; VoDeliver nv_dup; VoDeliver nv_dup; VoPoll [];
   VoSetNow 3000000000; VoPoll [];
   VoDeliver (wmsg ST_STATE 1 101 0); VoPoll []].

(* a Pending poll, transport writable, that starts in Ignoring rp, Established, with the timer running, and ends
   outside the phase *)
Definition rp_exit_seen (st : fstep) : bool :=
  match fs_event st, fs_result st, f_recovery (fs_pre st), f_state (fs_pre st), f_state (fs_post st),
        f_recovery (fs_post st) with
  | FePoll _, FrPoll PollPending _ _ _, IgnoringUntilRecoveryPoint _, Established, Established, CountingDuplicates _ =>
      negb (timer_expired (f_t_retransmit (fs_pre st)) (fs_now st)) && negb (f_transport_pending (fs_post st)) &&
      tol_ok (fs_pre st)
  | _, _, _, _, _, _ => false
  end.

Lemma rp_exit_nonvacuous :
  exists w cfg ops,
    vconfig_ok cfg = true /\ Forall op_msg_ok ops /\
    existsb rp_exit_seen (wtrace w cfg ops) = true /\
    c06_rp_exit_ok cfg (wtrace w cfg ops) = true.
Proof.
  exists 1000, nv_cfg, rpx_ops.
  split; [vm_compute; reflexivity|]. split.
  { unfold rpx_ops. repeat (apply Forall_cons; [try exact I|]); try apply Forall_nil; vm_compute; reflexivity. }
  split; vm_compute; reflexivity.
Qed.

(* C06 — retransmission discipline.  Theorems about the model's send path, Recovery and Segments.
   See Props/C06.v. *)
From Utp Require Import Base.Prelude Wire.SeqNr Wire.SeqNr_Proofs Wire.Header Rtt.Rtte Rtt.Rtte_Proofs
  Mtu.SegSizes Rx.Rx Tx.Ring Tx.Ring_Proofs Tx.Segments Tx.Segments_Proofs
  Conn.Recovery Conn.Msg Conn.VSockRec Conn.VSock Conn.VSock_LemmasTx Conn.VSock_LemmasIn Conn.C05_Proofs.

Section WithCC.
Context {CC : Type} (cci : cc_iface CC).
Notation vsock := (vsock CC).

(* ---- (e) what the RTO part retransmits, and the new timer ---- *)
Theorem rto_resends_first_unacked s s' f rest :
  v_transport_pending s = false ->
  timer_expired (v_t_retransmit s) (v_now s) = true ->
  iter_for_sending (v_segs s) None = f :: rest ->
  0 <= v_rto_retransmissions s ->
  step_st (send_tx_queue cci s) = Some s' ->
  (* f is the first undelivered segment of the table ... *)
  (item_ok (v_segs s) f /\
   forall j g, (j < fs_idx f)%nat -> nth_error (ss_segs (v_segs s)) j = Some g -> sg_delivered g = true) /\
  (* ... and it is the only thing this call sends, if the transport takes it *)
  (v_out s' = v_out s \/ v_out s' = data_pkt s (outgoing_header s) f :: v_out s).
Proof.
  intros Hp Hexp Hit Hcnt H. split; [exact (iter_head_first_undelivered _ _ _ Hit)|].
  destruct (after_rto_single cci s s' f rest Hp Hexp Hit Hcnt H) as [Ho|(Ho & _)]; [left|right]; exact Ho.
Qed.

(* the timer after the RTO part: doubled (capped at 60 s) for a data segment, NOT backed off for an
   MTU probe (boundary B6), doubled for a FIN *)
Theorem backoff_doubles s s1 :
  rto_in_bounds (v_rtte s) ->
  step_st (rto_branch cci s (outgoing_header s)) = Some s1 ->
  v_out s1 = v_out s \/
  (exists f rest, iter_for_sending (v_segs s) None = f :: rest /\
     v_out s1 = data_pkt s (outgoing_header s) f :: v_out s /\
     v_t_retransmit s1 = Some (v_now s +
        (if sg_probe (fs_seg f) then retransmission_timeout (v_rtte s)
         else Z.min (2 * retransmission_timeout (v_rtte s)) (60 * NS_PER_SEC))) /\
     (sg_probe (fs_seg f) = true -> v_rtte s1 = v_rtte s /\ v_cc s1 = v_cc s)) \/
  (exists fin, iter_for_sending (v_segs s) None = [] /\
     v_out s1 = fin_pkt (set_last_sent_seq_nr s (wsub16 fin 1)) fin :: v_out s /\
     v_t_retransmit s1 = Some (v_now s + Z.min (2 * retransmission_timeout (v_rtte s)) (60 * NS_PER_SEC))).
Proof.
  intros Hb H. pose proof (rto_branch_spec cci _ _ _ H) as Ho.
  destruct Ho as [Ho _ _ _ _ _
                 | f rest Hexp Hit Hr Ho Hok Hsg Hrto Hls Htx Hop Hnow Hrw Hst Hpr Htr _
                 | fin Hexp Hit Hfin Hls Hr Ho Hsg Hrto Hls' Htx Hop Hnow Hrt Htr _].
  - left; exact Ho.
  - right; left. exists f, rest. split; [exact Hit|]. split; [exact Ho|].
    destruct (sg_probe (fs_seg f)).
    + destruct Hpr as (R1 & R2 & _). split; [rewrite Htr, R1; reflexivity|auto].
    + destruct Hpr as (R1 & _). split; [|discriminate].
      rewrite Htr, (timeout_doubles_rto _ _ Hb R1). reflexivity.
  - right; right. exists fin. split; [exact Hit|]. split; [exact Ho|].
    rewrite Htr, (timeout_doubles_rto _ _ Hb Hrt). reflexivity.
Qed.

Theorem backoff_within_bounds s s1 :
  rto_in_bounds (v_rtte s) ->
  step_st (rto_branch cci s (outgoing_header s)) = Some s1 -> rto_in_bounds (v_rtte s1).
Proof.
  intros Hb H. pose proof (rto_branch_spec cci _ _ _ H) as Ho.
  destruct Ho as [_ Hf _ _ _ _
                 | f rest Hexp Hit Hr Ho Hok Hsg Hrto Hls Htx Hop Hnow Hrw Hst Hpr Htr _
                 | fin Hexp Hit Hfin Hls Hr Ho Hsg Hrto Hls' Htx Hop Hnow Hrt Htr _].
  - unfold sd_frame in Hf. repeat match goal with H : _ /\ _ |- _ => destruct H end. congruence.
  - destruct (sg_probe (fs_seg f)).
    + destruct Hpr as (R1 & _). rewrite R1; exact Hb.
    + destruct Hpr as (R1 & _). exact (timeout_in_bounds _ _ R1).
  - exact (timeout_in_bounds _ _ Hrt).
Qed.

(* ---- (f) the retry cap ---- *)
Theorem retry_cap_send_data (s : vsock) h f :
  seg_retransmit_count (fs_seg f) = o_max_retx (v_opts s) ->
  send_data s h f = SErr s ErrMaxRetransmissionsReached.
Proof. intro H. unfold send_data. rewrite H, Z.eqb_refl. reflexivity. Qed.

Theorem retry_cap_rto s f rest :
  v_transport_pending s = false ->
  timer_expired (v_t_retransmit s) (v_now s) = true ->
  iter_for_sending (v_segs s) None = f :: rest ->
  seg_retransmit_count (fs_seg f) = o_max_retx (v_opts s) ->
  send_tx_queue cci s = SErr s ErrMaxRetransmissionsReached.
Proof.
  intros Hp Hexp Hit Hc. rewrite send_tx_queue_eq, Hp. unfold rto_branch.
  rewrite Hexp, Hit, (retry_cap_send_data _ _ _ Hc). reflexivity.
Qed.

(* an error of send_tx_queue ends the poll with that error, after the death rites *)
Theorem retry_cap_poll {A} (s : vsock) e (k : vsock -> A -> body_res (CC:=CC)) :
  pend (SErr s e) k = BrReturn (just_before_death s (Some e)) (PollReadyErr e).
Proof. reflexivity. Qed.

(* a datagram that did go out was below the cap *)
Theorem sent_below_cap s s' :
  0 <= v_rto_retransmissions s ->
  step_st (send_tx_queue cci s) = Some s' ->
  exists ctl sent, stq_emits s s' ctl sent /\
    Forall (fun f => seg_retransmit_count (fs_seg f) <> o_max_retx (v_opts s)) sent.
Proof.
  intros Hc H. destruct (send_tx_queue_emits cci s s' Hc H) as (ctl & sent & He & _).
  exists ctl, sent. split; [exact He|]. destruct He as (_ & _ & Hok & _).
  eapply Forall_impl; [|exact Hok]. intros f (A & _). exact A.
Qed.

(* ---- (g) never resend what was acknowledged; (h, first half) what a datagram carries ---- *)
Theorem never_resend_acked s s' :
  0 <= v_rto_retransmissions s ->
  step_st (send_tx_queue cci s) = Some s' ->
  exists ctl sent,
    v_out s' = rev (map (data_pkt s (outgoing_header s)) sent) ++ ctl ++ v_out s /\
    (ctl = [] \/ (sent = [] /\ exists fin, ctl = [fin_pkt (set_last_sent_seq_nr s (wsub16 fin 1)) fin])) /\
    Forall (fun f =>
      exists g, nth_error (ss_segs (v_segs s)) (fs_idx f) = Some g /\ sg_delivered g = false /\
        sg_size g = sg_size (fs_seg f) /\ sg_abs g = sg_abs (fs_seg f) /\
        fs_seq f = wadd16 (ss_snd_una (v_segs s)) (Z.of_nat (fs_idx f) mod M16) /\
        p_payload (data_pkt s (outgoing_header s) f) =
          firstn (Z.to_nat (sg_size g)) (skipn (Z.to_nat (sg_abs g - ss_removed (v_segs s))) (ring (v_tx s))) /\
        0 <= sg_abs g - ss_removed (v_segs s) /\
        sg_abs g - ss_removed (v_segs s) + sg_size g <= Z.of_nat (length (ring (v_tx s)))) sent.
Proof.
  intros Hc H. destruct (send_tx_queue_emits cci s s' Hc H) as (ctl & sent & (Ho & Hit & Hok & Hctl) & _).
  exists ctl, sent. split; [exact Ho|]. split; [exact Hctl|].
  apply Forall_forall. intros f Hf. rewrite Forall_forall in Hit, Hok.
  destruct (Hit f Hf) as (Hn & Hd & Hq & Hoff). destruct (Hok f Hf) as (_ & Ho1 & Ho2).
  rewrite nth_error_map in Hn. destruct (nth_error (ss_segs (v_segs s)) (fs_idx f)) as [g|] eqn:Eg; [|discriminate].
  cbn [option_map] in Hn. unfold dview in Hn. injection Hn as H1 H2 H3.
  exists g. split; [reflexivity|]. split; [exact H3|]. split; [exact H1|]. split; [exact H2|]. split; [exact Hq|].
  cbn [data_pkt p_payload]. unfold data_payload. rewrite Hoff, H1, H2. split; [reflexivity|]. lia.
Qed.

End WithCC.

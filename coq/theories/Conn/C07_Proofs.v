(* C07 — acknowledgement timeliness: proofs about the connection model. *)
From Utp Require Import Base.Prelude Wire.SeqNr Wire.SeqNr_Proofs Wire.Header Rtt.Rtte Mtu.SegSizes
  Rx.Rx Tx.Ring Tx.Segments Conn.Recovery Conn.Msg Conn.VSockRec Conn.VSock Conn.VSockRun Conn.VObs
  Conn.VSock_Lemmas Conn.C07_Pred.


Section WithCC.
Context {CC : Type} (cci : cc_iface CC).
Notation vsock := (vsock CC).

(* ------------------------------------------------------------------ sending one ACK *)
Lemma next_send_fields : forall (s : vsock) n s0 o,
  next_send s n = (s0, o) ->
  v_cbu s0 = v_cbu s /\ v_ss s0 = v_ss s /\ v_rx s0 = v_rx s /\ v_state s0 = v_state s /\
  v_last_consumed s0 = v_last_consumed s /\ v_out s0 = v_out s /\
  v_last_sent_window s0 = v_last_sent_window s /\ v_last_sent_ack_nr s0 = v_last_sent_ack_nr s /\
  v_t_ack_delay s0 = v_t_ack_delay s /\ v_transport_pending s0 = v_transport_pending s /\
  v_now s0 = v_now s.
Proof.
  intros s n s0 o H. unfold next_send in H.
  repeat break_match_hyp H; inversion H; subst; try inversion Heqp; subst;
    repeat split; exact eq_refl.
Qed.

(* an ACK that went out: what it carries and what it resets *)
Lemma send_ack_sent : forall (s s1 : vsock) b,
  send_ack s = SOk s1 b -> v_transport_pending s1 = false ->
  v_cbu s1 = 0 /\ v_t_ack_delay s1 = None /\ v_last_sent_window s1 = rx_window s /\
  v_last_sent_ack_nr s1 = v_last_consumed s /\
  v_ss s1 = v_ss s /\ v_rx s1 = v_rx s /\ v_state s1 = v_state s /\
  v_last_consumed s1 = v_last_consumed s /\
  exists p, v_out s1 = p :: v_out s /\ ch_type (p_hdr p) = ST_STATE /\
            ch_ack (p_hdr p) = v_last_consumed s /\ p_payload p = [].
Proof.
  intros s s1 b H T. unfold send_ack, send_control_packet in H.
  destruct (v_transport_pending s) eqn:P; [inversion H; subst; congruence|].
  destruct (next_send s _) as [s0 o] eqn:E.
  apply next_send_fields in E.
  destruct E as (E1 & E2 & E3 & E4 & E5 & E6 & E7 & E8 & E9 & E10 & E11).
  destruct o; try discriminate.
  - inversion H; subst. unfold on_packet_sent, emit. vsimpl_goal.
    cbn [hdr_with outgoing_header ch_ack ch_wnd ch_type p_hdr p_payload].
    repeat split; auto.
    eexists. split; [rewrite E6; reflexivity|]. repeat split; reflexivity.
  - inversion H; subst. vsimpl. discriminate.
Qed.

(* ------------------------------------------------------------------ (a) no immediate-ACK
   obligation survives a completed poll *)
Lemma rx_window_eq : forall (a b : vsock),
  v_rx a = v_rx b -> v_ss a = v_ss b -> rx_window a = rx_window b.
Proof. intros a b R S. unfold rx_window. rewrite R, S. reflexivity. Qed.

Lemma maybe_send_ack_no_immediate : forall (s s1 : vsock) b,
  1 <= mss (v_ss s) ->
  maybe_send_ack s = SOk s1 b -> v_transport_pending s1 = false ->
  immediate_ack_to_transmit s1 = false /\ should_send_window_update s1 = false.
Proof.
  intros s s1 b M H T. unfold maybe_send_ack in H.
  assert (Sent : send_ack s = SOk s1 b ->
                 immediate_ack_to_transmit s1 = false /\ should_send_window_update s1 = false).
  { intros E. apply send_ack_sent in E; [|exact T].
    destruct E as (C & _ & W & _ & Ss & Rx & St & _).
    unfold immediate_ack_to_transmit, should_send_window_update, IMMEDIATE_ACK_EVERY_RMSS.
    rewrite C, Ss, St, W. rewrite (rx_window_eq s1 s Rx Ss).
    split; [lia|]. destruct (is_remote_fin_or_later _); [reflexivity|]. apply xorb_nilpotent. }
  destruct (immediate_ack_to_transmit s) eqn:I; [auto|].
  destruct (should_send_window_update s) eqn:W; [auto|].
  destruct (timer_expired _ _).
  - destruct (ack_to_transmit s); [auto|]. inversion H; subst. split; assumption.
  - destruct (0 <? v_cbu s); inversion H; subst; split; assumption.
Qed.

Theorem c07_no_pending_immediate_ack_lemma : forall (s s' : vsock),
  1 <= mss (v_ss s) ->
  poll cci s = (s', PollPending) -> v_transport_pending s' = false ->
  immediate_ack_to_transmit s' = false /\ should_send_window_update s' = false /\
  v_cbu s' < 2 * mss (v_ss s').
Proof.
  intros s s' M H T.
  cut (immediate_ack_to_transmit s' = false /\ should_send_window_update s' = false).
  { intros (I & W). repeat split; auto.
    unfold immediate_ack_to_transmit, IMMEDIATE_ACK_EVERY_RMSS in I. lia. }
  apply poll_pending_inv in H; [|exact T].
  destruct H as (sa & sb & b & _ & _ & _ & Ms & _ & E & Tb & S).
  apply maybe_send_ack_no_immediate in E; [|lia|exact Tb].
  destruct (poll_tail_fields sb) as (C & Ss & Rx & St & W & _).
  subst s'. unfold immediate_ack_to_transmit, should_send_window_update in *.
  rewrite C, Ss, St, W. rewrite (rx_window_eq (poll_tail sb) sb Rx Ss). exact E.
Qed.


(* ------------------------------------------------------------------ mss >= 1 is an invariant *)
Definition mss_pos (s : vsock) : Prop := 1 <= mss (v_ss s).

Lemma mss_pos_vsock_new : forall mk c s, vsock_new cci mk c = Some s -> mss_pos s.
Proof.
  intros mk c s H. unfold vsock_new in H.
  destruct (match (if vc_incoming c then None else _) with Some r => _ | None => _ end); [|discriminate].
  inversion H; subst. unfold mss_pos. cbn [v_ss]. apply mss_ss_new_pos.
Qed.

Lemma mss_pos_vstep : forall s o, mss_pos s -> mss_pos (vstep_state cci s o).
Proof. intros s o M. unfold mss_pos in *. destruct (vstep_keeps cci s o) as (_ & _ & K). lia. Qed.

(* ------------------------------------------------------------------ (b) delayed ACK *)
Lemma maybe_send_ack_out : forall (s s1 : vsock) b,
  maybe_send_ack s = SOk s1 b -> exists l, v_out s1 = l ++ v_out s.
Proof.
  intros s s1 b H. pose proof (maybe_send_ack_frame0 s) as F. rewrite H in F.
  destruct F as (_ & _ & _ & _ & _ & l & F). exists l; exact F.
Qed.

(* after maybe_send_ack with a writable transport: unacknowledged consumed bytes (that the
   sequence comparison recognises as such) leave the timer armed, within ACK_DELAY of now and
   never later than before when no packet went out *)
Lemma maybe_send_ack_delayed : forall (s s1 : vsock) b,
  maybe_send_ack s = SOk s1 b -> v_transport_pending s1 = false ->
  (0 < v_cbu s1 -> ack_to_transmit s1 = true) -> 0 < v_cbu s1 ->
  exists e, v_t_ack_delay s1 = Some e /\ e <= v_now s + ACK_DELAY /\
            (v_out s1 = v_out s -> forall e0, v_t_ack_delay s = Some e0 -> e <= e0).
Proof.
  intros s s1 b H T Pre C. unfold maybe_send_ack in H.
  assert (Sent : send_ack s = SOk s1 b -> False).
  { intros E. apply send_ack_sent in E; [|exact T]. destruct E as (C0 & _). lia. }
  destruct (immediate_ack_to_transmit s); [exfalso; auto|].
  destruct (should_send_window_update s); [exfalso; auto|].
  destruct (timer_expired _ _) eqn:X.
  - destruct (ack_to_transmit s) eqn:A; [exfalso; auto|].
    inversion H; subst. exfalso. specialize (Pre C). unfold ack_to_transmit in *.
    cbn [v_last_consumed v_last_sent_ack_nr set_t_ack_delay] in Pre. congruence.
  - destruct (0 <? v_cbu s) eqn:Z; inversion H; subst.
    + cbn [v_t_ack_delay set_t_ack_delay]. unfold timer_arm.
      destruct (v_t_ack_delay s) as [e0|].
      * exists (Z.min e0 (v_now s + ACK_DELAY)). split; [reflexivity|]. split; [lia|].
        intros _ e1 E1. inversion E1; subst. lia.
      * exists (v_now s + ACK_DELAY). split; [reflexivity|]. split; [lia|]. intros _ e1 E1. discriminate.
    + lia.
Qed.

Theorem c07_delayed_ack_armed_lemma : forall (s s' : vsock),
  poll cci s = (s', PollPending) -> v_transport_pending s' = false ->
  (0 < v_cbu s' -> ack_to_transmit s' = true) -> 0 < v_cbu s' ->
  exists e, v_t_ack_delay s' = Some e /\ e <= v_env_now s + 40000000 /\
            (v_out s' = [] -> forall e0, v_t_ack_delay s = Some e0 -> e <= e0).
Proof.
  intros s s' H T Pre C. apply poll_pending_inv in H; [|exact T].
  destruct H as (sa & sb & b & _ & _ & Now & _ & Ack & E & Tb & S).
  destruct (poll_tail_fields sb) as (F1 & _ & _ & _ & _ & F6 & _ & F8 & F9 & F10 & _).
  subst s'. unfold ack_to_transmit in Pre. rewrite F1, F8, F9 in Pre. rewrite F1 in C.
  destruct (maybe_send_ack_delayed sa sb b E Tb Pre C) as (e & E1 & E2 & E3).
  exists e. rewrite F6. split; [exact E1|]. split; [unfold ACK_DELAY in E2; lia|].
  rewrite F10. intros O e0 E0.
  destruct (maybe_send_ack_out sa sb b E) as (l & L). rewrite O in L.
  symmetry in L. apply app_eq_nil in L. destruct L as [_ L].
  apply (E3 (eq_trans O (eq_sym L))). rewrite (Ack L). exact E0.
Qed.

(* at/after the expiry: an ACK goes out, or the transport blocks, or nothing was owed *)
Lemma maybe_send_ack_fires : forall (s : vsock),
  timer_expired (v_t_ack_delay s) (v_now s) = true -> v_transport_pending s = false ->
  match maybe_send_ack s with
  | SOk s1 sent =>
      (sent = true /\ exists p, v_out s1 = p :: v_out s /\ ch_type (p_hdr p) = ST_STATE /\
                               ch_ack (p_hdr p) = v_last_consumed s) \/
      (sent = false /\ v_transport_pending s1 = true) \/
      (sent = false /\ ack_to_transmit s = false /\ v_t_ack_delay s1 = None /\ v_out s1 = v_out s)
  | SErr _ e => e = ErrSend
  | SPanic => False
  end.
Proof.
  intros s X T. unfold maybe_send_ack. rewrite X.
  assert (G : match send_ack s with
              | SOk s1 sent =>
                  (sent = true /\ exists p, v_out s1 = p :: v_out s /\ ch_type (p_hdr p) = ST_STATE /\
                                           ch_ack (p_hdr p) = v_last_consumed s) \/
                  (sent = false /\ v_transport_pending s1 = true) \/
                  (sent = false /\ ack_to_transmit s = false /\ v_t_ack_delay s1 = None /\ v_out s1 = v_out s)
              | SErr _ e => e = ErrSend
              | SPanic => False
              end).
  { unfold send_ack, send_control_packet. rewrite T.
    destruct (next_send s _) as [s0 o] eqn:N.
    pose proof (next_send_fields _ _ _ _ N) as (_ & _ & _ & _ & _ & O & _ & _ & _ & P & _).
    destruct o; try reflexivity.
    - left. split; [reflexivity|]. eexists. unfold on_packet_sent, emit. vsimpl_goal.
      split; [rewrite O; reflexivity|]. split; reflexivity.
    - right; left. split; reflexivity. }
  destruct (immediate_ack_to_transmit s); [exact G|].
  destruct (should_send_window_update s); [exact G|].
  destruct (ack_to_transmit s); [exact G|].
  right; right. repeat split; reflexivity.
Qed.


Lemma cons_neq_self : forall A (x : A) l, x :: l <> l.
Proof. intros A x l H. apply (f_equal (@length A)) in H. cbn [length] in H. lia. Qed.

Lemma maybe_send_ack_fires_quiet : forall (s s1 : vsock) b,
  maybe_send_ack s = SOk s1 b -> v_transport_pending s1 = false -> v_out s1 = v_out s ->
  timer_expired (v_t_ack_delay s) (v_now s) = true ->
  ack_to_transmit s1 = false /\ v_t_ack_delay s1 = None.
Proof.
  intros s s1 b H T O X. unfold maybe_send_ack in H. rewrite X in H.
  assert (Sent : send_ack s = SOk s1 b -> False).
  { intros E. apply send_ack_sent in E; [|exact T].
    destruct E as (_ & _ & _ & _ & _ & _ & _ & _ & p & P & _). rewrite O in P.
    symmetry in P. exact (cons_neq_self _ _ _ P). }
  destruct (immediate_ack_to_transmit s); [exfalso; auto|].
  destruct (should_send_window_update s); [exfalso; auto|].
  destruct (ack_to_transmit s) eqn:A; [exfalso; auto|].
  inversion H; subst. split; [exact A | reflexivity].
Qed.

Theorem c07_delayed_ack_fires_lemma : forall (s s' : vsock) e0,
  poll cci s = (s', PollPending) -> v_transport_pending s' = false ->
  v_t_ack_delay s = Some e0 -> e0 <= v_env_now s ->
  v_out s' <> [] \/ (ack_to_transmit s' = false /\ v_t_ack_delay s' = None).
Proof.
  intros s s' e0 H T E0 X. apply poll_pending_inv in H; [|exact T].
  destruct H as (sa & sb & b & _ & _ & Now & _ & Ack & E & Tb & S).
  destruct (poll_tail_fields sb) as (_ & _ & _ & _ & _ & F6 & _ & F8 & F9 & F10 & _).
  subst s'. rewrite F10, F6. unfold ack_to_transmit. rewrite F8, F9.
  destruct (v_out sb) as [|p l] eqn:O; [right | left; discriminate].
  destruct (maybe_send_ack_out sa sb b E) as (l & L). rewrite O in L.
  symmetry in L. apply app_eq_nil in L. destruct L as [_ L].
  apply (maybe_send_ack_fires_quiet sa sb b E Tb); [congruence|].
  rewrite (Ack L), E0, Now. unfold timer_expired. lia.
Qed.

(* ------------------------------------------------------------------ the predicates hold of every
   step of the model *)
Lemma not_poll_done : forall (s : vsock) o,
  (forall sc, o <> VoPoll sc) -> c07_poll_done (fstep_of cci s o) = false.
Proof.
  intros s o N. unfold c07_poll_done. rewrite fstep_of_event.
  destruct o; try reflexivity. exfalso. eapply N; reflexivity.
Qed.

Lemma poll_done_inv : forall (s : vsock) sc s' r,
  poll cci (VSockRec.set_sends s sc) = (s', r) ->
  c07_poll_done (fstep_of cci s (VoPoll sc)) = true ->
  r = PollPending /\ v_transport_pending s' = false.
Proof.
  intros s sc s' r E D. rewrite (fstep_of_poll cci s sc s' r E) in D.
  unfold c07_poll_done in D. cbn [fs_event fs_result fs_post fp_of_vsock f_transport_pending] in D.
  destruct r; try discriminate. split; [reflexivity|].
  destruct (v_transport_pending s'); [discriminate | reflexivity].
Qed.

Theorem c07_immediate_ok_step : forall cfg (s : vsock) o,
  mss_pos s -> c07_immediate_ok cfg (fstep_of cci s o) = true.
Proof.
  intros cfg s o M. unfold c07_immediate_ok.
  destruct (c07_poll_done (fstep_of cci s o)) eqn:D; [|reflexivity].
  destruct o; try (rewrite not_poll_done in D; [discriminate | intros sc; discriminate]).
  destruct (poll cci (VSockRec.set_sends s script)) as [s' r] eqn:E.
  destruct (poll_done_inv s script s' r E D) as (R & T). subst r.
  rewrite (fstep_of_poll cci s script s' _ E).
  cbn [fs_post fp_of_vsock f_cbu f_mss].
  assert (M' : 1 <= mss (v_ss (VSockRec.set_sends s script))) by exact M.
  destruct (c07_no_pending_immediate_ack_lemma _ s' M' E T) as (_ & _ & I). lia.
Qed.

Theorem c07_delayed_ok_step : forall cfg (s : vsock) o,
  c07_delayed_ok cfg (fstep_of cci s o) = true.
Proof.
  intros cfg s o. unfold c07_delayed_ok.
  destruct (c07_poll_done (fstep_of cci s o)) eqn:D; [|reflexivity].
  destruct o; try (rewrite not_poll_done in D; [discriminate | intros sc; discriminate]).
  destruct (poll cci (VSockRec.set_sends s script)) as [s' r] eqn:E.
  destruct (poll_done_inv s script s' r E D) as (R & T). subst r.
  rewrite (fstep_of_poll cci s script s' _ E).
  unfold c07_pre, c07_pkts.
  cbn [fs_post fs_pre fs_now fs_result fp_of_vsock f_cbu f_last_consumed f_last_sent_ack_nr f_t_ack_delay].
  destruct (0 <? v_cbu s') eqn:C; [|rewrite andb_false_r; reflexivity].
  destruct (seq_gt (v_last_consumed s') (v_last_sent_ack_nr s')) eqn:A; [|reflexivity].
  cbn [andb].
  assert (Pre : 0 < v_cbu s' -> ack_to_transmit s' = true) by (intros _; exact A).
  assert (C' : 0 < v_cbu s') by lia.
  destruct (c07_delayed_ack_armed_lemma _ s' E T Pre C') as (e & E1 & E2 & E3).
  rewrite E1.
  assert (N : v_env_now s' = v_env_now s).
  { destruct (poll_pframe0 cci _ _ _ E) as (_ & N & _). exact N. }
  rewrite N. change (v_env_now (VSockRec.set_sends s script)) with (v_env_now s) in E2.
  apply andb_true_intro. split; [lia|].
  destruct (map fpacket_of (rev (v_out s'))) eqn:O; [|reflexivity].
  destruct (v_t_ack_delay s) as [e0|] eqn:E0; [|reflexivity].
  apply map_eq_nil in O. assert (O' : v_out s' = []).
  { destruct (v_out s'); [reflexivity|]. cbn [rev] in O. apply app_eq_nil in O. destruct O; discriminate. }
  specialize (E3 O' e0 E0). lia.
Qed.

Theorem c07_fires_ok_step : forall cfg (s : vsock) o,
  c07_fires_ok cfg (fstep_of cci s o) = true.
Proof.
  intros cfg s o. unfold c07_fires_ok.
  destruct (c07_poll_done (fstep_of cci s o)) eqn:D; [|reflexivity].
  destruct o; try (rewrite not_poll_done in D; [discriminate | intros sc; discriminate]).
  destruct (poll cci (VSockRec.set_sends s script)) as [s' r] eqn:E.
  destruct (poll_done_inv s script s' r E D) as (R & T). subst r.
  rewrite (fstep_of_poll cci s script s' _ E).
  unfold c07_pkts.
  cbn [fs_post fs_pre fs_now fs_result fp_of_vsock f_last_consumed f_last_sent_ack_nr f_t_ack_delay].
  destruct (v_t_ack_delay s) as [e0|] eqn:E0; [|reflexivity].
  destruct (e0 <=? v_env_now s') eqn:X; [|reflexivity].
  assert (N : v_env_now s' = v_env_now s).
  { destruct (poll_pframe0 cci _ _ _ E) as (_ & N & _). exact N. }
  destruct (map fpacket_of (rev (v_out s'))) eqn:O; [|reflexivity].
  apply map_eq_nil in O. assert (O' : v_out s' = []).
  { destruct (v_out s'); [reflexivity|]. cbn [rev] in O. apply app_eq_nil in O. destruct O; discriminate. }
  assert (X' : e0 <= v_env_now (VSockRec.set_sends s script)).
  { change (v_env_now (VSockRec.set_sends s script)) with (v_env_now s). lia. }
  destruct (c07_delayed_ack_fires_lemma _ s' e0 E T E0 X') as [F|(F1 & F2)]; [congruence|].
  unfold ack_to_transmit in F1. rewrite F1, F2. reflexivity.
Qed.

(* the fingerprint's window is the one rx_window computes *)
Lemma fp_rx_window_spec (s : vsock) : fp_rx_window (fp_of_vsock cci s) = rx_window s.
Proof.
  unfold fp_rx_window, rx_window, remaining_rx_window.
  cbn [fp_of_vsock f_rx_reader_dropped f_rx_last_remaining f_rx_len_bytes f_mss]. reflexivity.
Qed.

Theorem c07_window_update_ok_step : forall cfg (s : vsock) o,
  mss_pos s -> c07_window_update_ok cfg (fstep_of cci s o) = true.
Proof.
  intros cfg s o M. unfold c07_window_update_ok.
  destruct (c07_poll_done (fstep_of cci s o)) eqn:D; [|reflexivity].
  destruct o; try (rewrite not_poll_done in D; [discriminate | intros sc; discriminate]).
  destruct (poll cci (VSockRec.set_sends s script)) as [s' r] eqn:E.
  destruct (poll_done_inv s script s' r E D) as (R & T). subst r.
  rewrite (fstep_of_poll cci s script s' _ E).
  cbn [fs_post andb]. rewrite fp_rx_window_spec.
  cbn [fp_of_vsock f_state f_last_sent_window].
  assert (M' : 1 <= mss (v_ss (VSockRec.set_sends s script))) by exact M.
  destruct (c07_no_pending_immediate_ack_lemma _ s' M' E T) as (_ & W & _).
  unfold should_send_window_update in W.
  destruct (is_remote_fin_or_later (v_state s')); [reflexivity|]. cbn [negb].
  destruct (rx_window s' =? 0), (v_last_sent_window s' =? 0); cbn in W |- *; congruence.
Qed.

Theorem c07_window_update_ok_trace : forall cfg ops (s : vsock),
  mss_pos s -> forallb (c07_window_update_ok cfg) (ftrace cci s ops) = true.
Proof.
  intros cfg. apply (ftrace_forallb cci mss_pos).
  - intros s o M. apply c07_window_update_ok_step; exact M.
  - apply mss_pos_vstep.
Qed.

(* along every trace from a state with mss >= 1 (every state built by vsock_new) *)
Theorem c07_immediate_ok_trace : forall cfg ops (s : vsock),
  mss_pos s -> forallb (c07_immediate_ok cfg) (ftrace cci s ops) = true.
Proof.
  intros cfg. apply (ftrace_forallb cci mss_pos).
  - intros s o M. apply c07_immediate_ok_step; exact M.
  - apply mss_pos_vstep.
Qed.

Theorem c07_delayed_ok_trace : forall cfg ops (s : vsock),
  forallb (c07_delayed_ok cfg) (ftrace cci s ops) = true.
Proof.
  intros cfg ops s. apply (ftrace_forallb cci (fun _ => True)); auto.
  intros s0 o _. apply c07_delayed_ok_step.
Qed.

Theorem c07_fires_ok_trace : forall cfg ops (s : vsock),
  forallb (c07_fires_ok cfg) (ftrace cci s ops) = true.
Proof.
  intros cfg ops s. apply (ftrace_forallb cci (fun _ => True)); auto.
  intros s0 o _. apply c07_fires_ok_step.
Qed.

End WithCC.

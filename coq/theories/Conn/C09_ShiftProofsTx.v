(* C09 trace shift, layer 2: the sending side of the connection model (control packets, FIN, data
   packets, the loops of send_tx_queue, split_tx_queue_into_segments) commutes with the relabelling. *)
From Utp Require Import Base.Prelude Wire.SeqNr Wire.SeqNr_Proofs Wire.Header Rtt.Rtte Mtu.SegSizes Rx.Rx Tx.Ring
  Tx.Segments Conn.Recovery Conn.Msg Conn.VSockRec Conn.VSock Conn.VSockRun Conn.VObs Conn.C09_Pred
  Conn.C09_Shift Conn.C09_ShiftProofsSeq Conn.C09_ShiftProofsSeg Conn.C09_ShiftProofsRec.

Section Tx.
Variables da db dc : Z.
Context {CC : Type} (cci : cc_iface CC).
Notation vsock := (vsock CC).
Notation sh := (shift_vsock da db dc (CC:=CC)).
Notation so := (shift_out_hdr da db dc).
Notation si := (shift_in_hdr da db).
Notation sst := (shift_step da db dc (CC:=CC)).

Definition idf {A} (x : A) : A := x.

Lemma timestamp_shift (s : vsock) : timestamp_microseconds (sh s) = timestamp_microseconds s.
Proof. reflexivity. Qed.

Lemma rx_window_shift (s : vsock) : rx_window (sh s) = rx_window s.
Proof. reflexivity. Qed.

Lemma outgoing_header_shift (s : vsock) : outgoing_header (sh s) = so (outgoing_header s).
Proof. reflexivity. Qed.

Lemma hdr_with_shift h t q sk : hdr_with (so h) t (sh16 da q) sk = so (hdr_with h t q sk).
Proof. reflexivity. Qed.

Lemma on_packet_sent_shift (s : vsock) h : on_packet_sent (sh s) (so h) = sh (on_packet_sent s h).
Proof. reflexivity. Qed.

Lemma emit_shift (s : vsock) p : emit (sh s) (shift_packet da db dc p) = sh (emit s p).
Proof. reflexivity. Qed.

Lemma add_wakes_shift (s : vsock) w : add_wakes (sh s) w = sh (add_wakes s w).
Proof. reflexivity. Qed.

Lemma restart_inactivity_shift (s : vsock) :
  restart_remote_inactivity_timer (sh s) = sh (restart_remote_inactivity_timer s).
Proof. reflexivity. Qed.

Lemma force_immediate_ack_shift (s : vsock) : force_immediate_ack (sh s) = sh (force_immediate_ack s).
Proof. reflexivity. Qed.

Lemma immediate_ack_shift (s : vsock) : immediate_ack_to_transmit (sh s) = immediate_ack_to_transmit s.
Proof. reflexivity. Qed.

Lemma is_remote_fin_shift st : is_remote_fin_or_later (shift_state da db st) = is_remote_fin_or_later st.
Proof. destruct st; reflexivity. Qed.
Lemma is_local_fin_shift st : is_local_fin_or_later (shift_state da db st) = is_local_fin_or_later st.
Proof. destruct st; reflexivity. Qed.
Lemma state_is_closed_shift st w : state_is_closed (shift_state da db st) w = state_is_closed st w.
Proof. destruct st; reflexivity. Qed.
Lemma our_fin_shift st :
  our_fin_if_unacked (shift_state da db st) =
  match our_fin_if_unacked st with Some f => Some (sh16 da f) | None => None end.
Proof. destruct st; reflexivity. Qed.

Lemma should_send_window_update_shift (s : vsock) :
  should_send_window_update (sh s) = should_send_window_update s.
Proof.
  unfold should_send_window_update. rewrite pj_state, is_remote_fin_shift. reflexivity.
Qed.

Lemma next_send_shift (s : vsock) n :
  next_send (sh s) n = (sh (fst (next_send s n)), snd (next_send s n)).
Proof.
  unfold next_send. rewrite pj_sends, pj_emsg_limit.
  destruct (v_sends s) as [|o r]; [|destruct o]; destruct (v_emsg_limit s) as [m|];
    try destruct (m <? n); reflexivity.
Qed.

Lemma send_control_packet_shift (s : vsock) h :
  send_control_packet (sh s) (so h) = sst idf (send_control_packet s h).
Proof.
  unfold send_control_packet. rewrite pj_transport_pending.
  destruct (v_transport_pending s); [reflexivity|].
  assert (E : fit_sack (sh s) (ch_sack (so h)) = fit_sack s (ch_sack h)) by reflexivity.
  rewrite E. clear E.
  assert (E : hdr_with (so h) (ch_type (so h)) (ch_seq (so h)) (fit_sack s (ch_sack h)) =
              so (hdr_with h (ch_type h) (ch_seq h) (fit_sack s (ch_sack h)))) by reflexivity.
  rewrite E. clear E.
  set (hw := hdr_with h (ch_type h) (ch_seq h) (fit_sack s (ch_sack h))).
  assert (E : ch_sack (so hw) = ch_sack hw) by reflexivity. rewrite E. clear E.
  rewrite next_send_shift.
  destruct (next_send s _) as [s1 o]. cbn [fst snd]. destruct o; reflexivity.
Qed.

Lemma send_ack_shift (s : vsock) : send_ack (sh s) = sst idf (send_ack s).
Proof.
  unfold send_ack. rewrite outgoing_header_shift, pj_rx.
  exact (send_control_packet_shift s (hdr_with (outgoing_header s) ST_STATE (ch_seq (outgoing_header s)) (sack_of_rx (v_rx s)))).
Qed.

(* sbind under the relabelling *)
Lemma sbind_shift {A B} (fa : A -> A) (fb : B -> B) (m m' : step (CC:=CC) A) k k' :
  m' = sst fa m ->
  (forall s a, m = SOk s a -> k' (sh s) (fa a) = sst fb (k s a)) ->
  sbind m' k' = sst fb (sbind m k).
Proof.
  intros -> H. destruct m as [s a|s e|]; cbn [sbind shift_step]; [now apply H|reflexivity|reflexivity].
Qed.

Lemma maybe_send_fin_shift (s : vsock) : g_maybe_send_fin s = true ->
  maybe_send_fin (sh s) = sst idf (maybe_send_fin s).
Proof.
  unfold g_maybe_send_fin, maybe_send_fin. intros G.
  rewrite pj_transport_pending. destruct (v_transport_pending s); [reflexivity|].
  rewrite pj_state, our_fin_shift.
  destruct (our_fin_if_unacked (v_state s)) as [q|]; [|reflexivity].
  rewrite pj_last_sent_seq_nr, (cmp_ok_seq_sub da _ _ G).
  destruct (negb (seq_sub q (v_last_sent_seq_nr s) =? 1)); [reflexivity|].
  rewrite outgoing_header_shift, hdr_with_shift.
  apply (sbind_shift idf idf). { apply send_control_packet_shift. }
  intros s1 sent _. unfold idf. destruct sent; reflexivity.
Qed.

Lemma next_send_lsn (s : vsock) n : v_last_sent_seq_nr (fst (next_send s n)) = v_last_sent_seq_nr s.
Proof.
  unfold next_send. destruct (v_sends s) as [|o r]; [|destruct o]; destruct (v_emsg_limit s) as [m|];
    try destruct (m <? n); reflexivity.
Qed.
Lemma next_send_seq (s : vsock) n : v_seq_nr (fst (next_send s n)) = v_seq_nr s.
Proof.
  unfold next_send. destruct (v_sends s) as [|o r]; [|destruct o]; destruct (v_emsg_limit s) as [m|];
    try destruct (m <? n); reflexivity.
Qed.

Lemma send_data_shift (s : vsock) h f : g_send_data s f = true ->
  send_data (sh s) (so h) (shift_fs da f) = sst idf (send_data s h f).
Proof.
  unfold g_send_data. intros G. apply andb_true_iff in G as [G1 G2].
  unfold send_data.
  cbn [shift_fs fs_seg fs_seq fs_idx fs_payload_offset].
  rewrite pj_opts, pj_tx, timestamp_shift, pj_last_remote_timestamp.
  destruct (seg_retransmit_count (fs_seg f) =? o_max_retx (v_opts s)); [reflexivity|].
  destruct (fs_payload_offset f <? 0); [reflexivity|].
  destruct (Z.of_nat (length (ring (v_tx s))) <? fs_payload_offset f); [reflexivity|].
  destruct (Z.of_nat (length (ring (v_tx s))) <? fs_payload_offset f + sg_size (fs_seg f)); [reflexivity|].
  rewrite next_send_shift.
  pose proof (next_send_lsn s (20 + sg_size (fs_seg f))) as L1.
  pose proof (next_send_seq s (20 + sg_size (fs_seg f))) as L2.
  destruct (next_send s _) as [s1 o]. cbn [fst snd] in *.
  destruct o; try reflexivity.
  set (hd := {| ch_type := ST_DATA; ch_conn_id := ch_conn_id h; ch_ts := timestamp_microseconds s;
                ch_ts_diff := (timestamp_microseconds s - v_last_remote_timestamp s) mod M32;
                ch_wnd := ch_wnd h; ch_seq := fs_seq f; ch_ack := ch_ack h; ch_sack := None;
                ch_close_reason := None |}).
  set (pl := firstn _ (skipn _ (ring (v_tx s)))).
  change {| ch_type := ST_DATA; ch_conn_id := ch_conn_id (so h); ch_ts := timestamp_microseconds s;
            ch_ts_diff := (timestamp_microseconds s - v_last_remote_timestamp s) mod M32;
            ch_wnd := ch_wnd (so h); ch_seq := sh16 da (fs_seq f); ch_ack := ch_ack (so h);
            ch_sack := None; ch_close_reason := None |} with (so hd).
  change (emit (sh s1) {| p_hdr := so hd; p_payload := pl |}) with (sh (emit s1 {| p_hdr := hd; p_payload := pl |})).
  set (s2 := emit s1 _).
  change (set_segs (sh s2) (on_sent (v_segs (sh s2)) (fs_idx f) (v_now (sh s2))))
    with (sh (set_segs s2 (on_sent (v_segs s2) (fs_idx f) (v_now s2)))).
  set (s3 := set_segs s2 _).
  change (on_packet_sent (sh s3) (so hd)) with (sh (on_packet_sent s3 hd)).
  set (s4 := on_packet_sent s3 hd).
  assert (E1 : v_last_sent_seq_nr s4 = v_last_sent_seq_nr s) by (rewrite <- L1; reflexivity).
  assert (E2 : v_seq_nr (set_last_sent_seq_nr s4 (fs_seq f)) = v_seq_nr s) by (rewrite <- L2; reflexivity).
  cbv zeta.
  change (v_seq_nr (set_last_sent_seq_nr (sh s4) (sh16 da (fs_seq f))))
    with (sh16 da (v_seq_nr (set_last_sent_seq_nr s4 (fs_seq f)))).
  rewrite pj_last_sent_seq_nr, E1, E2, sh16_wadd16, (cmp_ok_seq_gt da _ _ G1), (cmp_ok_seq_gt da _ _ G2).
  destruct (seq_gt (fs_seq f) (v_last_sent_seq_nr s)); [|reflexivity].
  destruct (seq_gt (wadd16 (fs_seq f) 1) (v_seq_nr s)); reflexivity.
Qed.

Definition shift_opt_vsock (o : option vsock) : option vsock :=
  match o with Some s => Some (sh s) | None => None end.

Lemma on_rto_reactions_shift (s : vsock) :
  on_rto_reactions cci (sh s) = shift_opt_vsock (on_rto_reactions cci s).
Proof.
  unfold on_rto_reactions. rewrite pj_rtte. destruct (on_rto_timeout (v_rtte s)) as [rt|]; [|reflexivity].
  rewrite pj_recovery, pj_last_sent_seq_nr, recovery_on_rto_shift. reflexivity.
Qed.

Definition shift_rlres (r : rec_loop_st * bool) : rec_loop_st * bool := (shift_rl da (fst r), snd r).

Lemma recovery_loop_shift h mss0 : forall items (s : vsock) st,
  g_recovery_loop items s h mss0 st = true ->
  recovery_loop (map (shift_fs da) items) (sh s) (so h) mss0 (shift_rl da st) =
  sst shift_rlres (recovery_loop items s h mss0 st).
Proof.
  induction items as [|f rest IH]; intros s st G; [reflexivity|].
  cbn [map recovery_loop g_recovery_loop] in *.
  cbn [shift_rl rl_total rl_cwnd rl_pipe rl_sent rl_high_rxt shift_fs fs_seg fs_seq].
  destruct (negb ((rl_total st =? 0) || (mss0 <? rl_cwnd st))); [reflexivity|].
  destruct ((0 <? rl_total st) && negb (sg_lost (fs_seg f))); [now apply IH|].
  destruct ((0 <? rl_total st) && negb (sg_sacks_after (fs_seg f))); [reflexivity|].
  apply andb_true_iff in G as [G1 G2].
  change {| fs_idx := fs_idx f; fs_seq := sh16 da (fs_seq f); fs_payload_offset := fs_payload_offset f;
            fs_seg := fs_seg f |} with (shift_fs da f).
  rewrite (send_data_shift s h f G1).
  destruct (send_data s h f) as [s1 r|s1 e|]; [|reflexivity|reflexivity].
  cbn [shift_step]. unfold idf. destruct r; try reflexivity.
  exact (IH s1 _ G2).
Qed.

Lemma new_data_loop_shift h : forall items (s : vsock) remaining,
  g_new_data_loop items s h remaining = true ->
  new_data_loop (map (shift_fs da) items) (sh s) (so h) remaining =
  sst (fun o => match o with Some (q, sz) => Some (sh16 da q, sz) | None => None end)
      (new_data_loop items s h remaining).
Proof.
  induction items as [|f rest IH]; intros s remaining G; [reflexivity|].
  cbn [map new_data_loop g_new_data_loop] in *.
  cbn [shift_fs fs_seg fs_seq].
  destruct (remaining <? sg_size (fs_seg f)); [reflexivity|].
  apply andb_true_iff in G as [G1 G2].
  change {| fs_idx := fs_idx f; fs_seq := sh16 da (fs_seq f); fs_payload_offset := fs_payload_offset f;
            fs_seg := fs_seg f |} with (shift_fs da f).
  rewrite (send_data_shift s h f G1).
  destruct (send_data s h f) as [s1 r|s1 e|]; [|reflexivity|reflexivity].
  cbn [shift_step]. unfold idf. destruct r; try reflexivity.
  exact (IH s1 _ G2).
Qed.

Lemma stq_after_rto_shift (s : vsock) : g_stq_after_rto s = true ->
  stq_after_rto cci (sh s) = sst idf (stq_after_rto cci s).
Proof.
  unfold g_stq_after_rto, stq_after_rto. intros G.
  rewrite pj_t_retransmit, pj_now. destruct (timer_expired (v_t_retransmit s) (v_now s)); [|reflexivity].
  rewrite pj_segs, iter_for_sending_shift_none.
  destruct (iter_for_sending (v_segs s) None) as [|f l]; cbn [map].
  - rewrite pj_state, our_fin_shift.
    destruct (our_fin_if_unacked (v_state s)) as [fin|]; [|reflexivity].
    apply andb_true_iff in G as [G1 G2]. apply andb_true_iff in G1 as [Ga Gb].
    rewrite pj_last_sent_seq_nr, (sh16_eqb da _ _ Ga Gb).
    destruct (v_last_sent_seq_nr s =? fin); [|reflexivity].
    rewrite sh16_wsub16, st_last_sent_seq_nr.
    apply (sbind_shift idf idf). { now apply maybe_send_fin_shift. }
    intros s2 sent _. unfold idf. destruct sent; [|reflexivity].
    rewrite on_rto_reactions_shift. destruct (on_rto_reactions cci s2); reflexivity.
  - rewrite outgoing_header_shift, (send_data_shift s _ f G).
    destruct (send_data s (outgoing_header s) f) as [s1 r|s1 e|]; [|reflexivity|reflexivity].
    cbn [shift_step]. unfold idf. destruct r; try reflexivity.
    cbn [shift_fs fs_seg fs_seq].
    destruct (negb (sg_probe (fs_seg f))); [|reflexivity].
    rewrite on_rto_reactions_shift. destruct (on_rto_reactions cci s1); reflexivity.
Qed.

Lemma take_while_map {A B} (f : A -> B) (P' : B -> bool) (P : A -> bool) l :
  (forall x, In x l -> P' (f x) = P x) ->
  take_while P' (map f l) = map f (take_while P l).
Proof.
  induction l as [|x r IH]; intros H; [reflexivity|].
  cbn [map take_while]. rewrite (H x (or_introl eq_refl)).
  destruct (P x); [|reflexivity]. cbn [map]. rewrite IH; [reflexivity|].
  intros y Hy. apply H. now right.
Qed.

Lemma skip_while_map {A B} (f : A -> B) (P' : B -> bool) (P : A -> bool) l :
  (forall x, In x l -> P' (f x) = P x) ->
  skip_while P' (map f l) = map f (skip_while P l).
Proof.
  induction l as [|x r IH]; intros H; [reflexivity|].
  cbn [map skip_while]. rewrite (H x (or_introl eq_refl)).
  destruct (P x); [|reflexivity]. apply IH. intros y Hy. apply H. now right.
Qed.

Lemma skip_while_incl {A} (P : A -> bool) l x : In x (skip_while P l) -> In x l.
Proof.
  induction l as [|y r IH]; [easy|]. cbn [skip_while]. destruct (P y); [|easy].
  intros H. right. now apply IH.
Qed.

Lemma stq_rec_items_shift (s : vsock) rc : g_stq_rec_items s rc = true ->
  stq_rec_items (sh s) (shift_recovering da rc) = map (shift_fs da) (stq_rec_items s rc).
Proof.
  unfold g_stq_rec_items, stq_rec_items. intros G.
  rewrite pj_segs, iter_for_sending_shift_none.
  cbn [shift_segments ss_sack_depth shift_recovering rc_recovery_point rc_high_rxt].
  rewrite firstn_map.
  set (l := firstn _ (iter_for_sending (v_segs s) None)) in *.
  rewrite forallb_forall in G.
  rewrite (skip_while_map (shift_fs da) _ (fun f => seq_le (fs_seq f) (rc_high_rxt rc))).
  2:{ intros x Hx. apply G in Hx. apply andb_true_iff in Hx as [H1 _].
      cbn [shift_fs fs_seq]. now apply cmp_ok_seq_le. }
  apply take_while_map. intros x Hx. apply skip_while_incl in Hx. apply G in Hx.
  apply andb_true_iff in Hx as [_ H2]. cbn [shift_fs fs_seq]. now apply cmp_ok_seq_le.
Qed.

Lemma stq_rec_finish_shift (s : vsock) rc (s1 : vsock) res : g_stq_rec_finish res = true ->
  stq_rec_finish (sh s) (shift_recovering da rc) (sh s1) (shift_rlres res) =
  sst idf (stq_rec_finish s rc s1 res).
Proof.
  unfold g_stq_rec_finish, stq_rec_finish. intros G. destruct res as [st early].
  cbn [fst snd shift_rlres] in *. cbv zeta.
  cbn [shift_rl rl_high_rxt rl_total rl_pipe rl_cwnd rl_sent shift_recovering rc_recovery_point
       rc_high_rxt rc_total_retx rc_pipe rc_recalc rc_cwnd].
  rewrite pj_ss.
  change (set_recovering (sh s1)
            {| rc_recovery_point := sh16 da (rc_recovery_point rc); rc_high_rxt := sh16 da (rl_high_rxt st);
               rc_total_retx := rl_total st; rc_pipe := rl_pipe st; rc_recalc := rc_recalc rc;
               rc_cwnd := rc_cwnd rc |})
    with (sh (set_recovering s1
            {| rc_recovery_point := rc_recovery_point rc; rc_high_rxt := rl_high_rxt st;
               rc_total_retx := rl_total st; rc_pipe := rl_pipe st; rc_recalc := rc_recalc rc;
               rc_cwnd := rc_cwnd rc |})).
  set (s2 := set_recovering s1 _).
  destruct early; [reflexivity|].
  set (s3' := if rl_cwnd st <? mss (v_ss s) then _ else sh s2).
  set (s3 := if rl_cwnd st <? mss (v_ss s) then _ else s2).
  assert (E : s3' = sh s3).
  { unfold s3', s3. destruct (rl_cwnd st <? mss (v_ss s)); [|reflexivity].
    destruct (rc_recalc rc); [reflexivity|]. destruct (0 <? rl_sent st); reflexivity. }
  rewrite E. clear E s3'.
  rewrite pj_state, our_fin_shift.
  destruct (our_fin_if_unacked (v_state s3)) as [fin|]; [|reflexivity].
  rewrite sh16_wsub16, (sh16_eqb da _ _ G (u16_ok_wsub16 _ _)).
  destruct (rl_high_rxt st =? wsub16 fin 1); reflexivity.
Qed.

Lemma sbind_shift_g {A B} (fa : A -> A) (fb : B -> B) (m m' : step (CC:=CC) A) k k' (gk : vsock -> A -> bool) :
  m' = sst fa m -> gstep m gk = true ->
  (forall s a, gk s a = true -> k' (sh s) (fa a) = sst fb (k s a)) ->
  sbind m' k' = sst fb (sbind m k).
Proof.
  intros -> G H. destruct m as [s a|s e|]; cbn [sbind shift_step gstep] in *;
    [now apply H|reflexivity|reflexivity].
Qed.

Lemma sbind_assoc {A B C} (m : step (CC:=CC) A) (k1 : vsock -> A -> step B) (k2 : vsock -> B -> step C) :
  sbind (sbind m k1) k2 = sbind m (fun s a => sbind (k1 s a) k2).
Proof. destruct m; reflexivity. Qed.

Lemma stq_remaining_shift (s : vsock) :
  match remaining_cwnd (v_recovery s) (v_last_remote_window s) with
  | Some _ => true
  | None => g_calc_flight_size (v_segs s) (v_last_sent_seq_nr s)
  end = true ->
  stq_remaining cci (sh s) = stq_remaining cci s.
Proof.
  unfold stq_remaining. intros G.
  rewrite pj_recovery, pj_last_remote_window, remaining_cwnd_shift.
  destruct (remaining_cwnd (v_recovery s) (v_last_remote_window s)); [reflexivity|].
  now rewrite pj_cc, pj_segs, pj_last_sent_seq_nr, calc_flight_size_shift.
Qed.

Lemma iter_for_sending_u16 t st f : In f (iter_for_sending t st) -> u16_ok (fs_seq f) = true.
Proof.
  unfold iter_for_sending. intros H. apply filter_In in H as [H _].
  apply in_map_iff in H as [[i g] [<- _]]. cbn [fs_seq]. apply u16_ok_wadd16.
Qed.

Lemma new_data_loop_too_long h : forall items (s : vsock) remaining s1 q sz,
  new_data_loop items s h remaining = SOk s1 (Some (q, sz)) ->
  exists f, In f items /\ q = fs_seq f.
Proof.
  induction items as [|f rest IH]; intros s remaining s1 q sz H; cbn [new_data_loop] in H; [discriminate|].
  destruct (remaining <? sg_size (fs_seg f)); [discriminate|].
  destruct (send_data s h f) as [s2 r|s2 e|]; [|discriminate|discriminate].
  destruct r.
  - apply IH in H as (g & Hg & ->). exists g. split; [now right|reflexivity].
  - discriminate.
  - injection H as _ <- _. exists f. split; [now left|reflexivity].
Qed.

Lemma stq_new_data_shift h (s : vsock) : g_stq_new_data cci h s = true ->
  stq_new_data cci (so h) (sh s) = sst idf (stq_new_data cci h s).
Proof.
  unfold g_stq_new_data, stq_new_data. intros G.
  apply andb_true_iff in G as [G G3]. apply andb_true_iff in G as [G1 G2].
  rewrite (stq_remaining_shift s G1), pj_segs, pj_last_sent_seq_nr, sh16_wadd16.
  change (Some (sh16 da (wadd16 (v_last_sent_seq_nr s) 1)))
    with (shift_start da (Some (wadd16 (v_last_sent_seq_nr s) 1))).
  rewrite (iter_for_sending_shift da _ _ G2).
  eapply sbind_shift. { now apply new_data_loop_shift. }
  intros s1 too_long Hm. destruct too_long as [[q sz]|]; [|reflexivity].
  apply new_data_loop_too_long in Hm as (f & Hf & ->). apply iter_for_sending_u16 in Hf.
  rewrite pj_segs, (pop_mtu_probe_shift da _ _ Hf).
  destruct (pop_mtu_probe (v_segs s1) (fs_seq f)) as [segs' popped]. cbn [fst snd].
  destruct popped; reflexivity.
Qed.

Lemma stq_tail2_shift h (s : vsock) ret : g_stq_tail2 cci h s ret = true ->
  stq_tail2 cci (so h) (sh s) (idf ret) = sst idf (stq_tail2 cci h s ret).
Proof.
  unfold g_stq_tail2, stq_tail2, idf. destruct ret; [reflexivity|]. apply stq_new_data_shift.
Qed.

Lemma stq_tail1_shift h (s : vsock) ret : g_stq_tail1 cci h s ret = true ->
  stq_tail1 cci (so h) (sh s) (idf ret) = sst idf (stq_tail1 cci h s ret).
Proof.
  unfold g_stq_tail1, stq_tail1, idf. intros G. destruct ret; [reflexivity|].
  rewrite pj_rto_retransmissions. destruct (0 <? v_rto_retransmissions s); [reflexivity|].
  rewrite pj_segs. cbn [shift_segments ss_segs].
  destruct (ss_segs (v_segs s)) as [|x l]; [reflexivity|].
  rewrite pj_recovery. cbn [shift_recovery rv_phase].
  destruct (rv_phase (v_recovery s)) as [rp|d|rc]; cbn [shift_rphase];
    [exact (stq_tail2_shift h s false G)|exact (stq_tail2_shift h s false G)|].
  apply andb_true_iff in G as [G G3]. apply andb_true_iff in G as [G1 G2].
  change {| rc_recovery_point := sh16 da (rc_recovery_point rc); rc_high_rxt := sh16 da (rc_high_rxt rc);
            rc_total_retx := rc_total_retx rc; rc_pipe := rc_pipe rc; rc_recalc := rc_recalc rc;
            rc_cwnd := rc_cwnd rc |} with (shift_recovering da rc).
  rewrite (stq_rec_items_shift s rc G1), pj_ss.
  change (stq_rec_st0 (shift_recovering da rc)) with (shift_rl da (stq_rec_st0 rc)).
  rewrite !sbind_assoc.
  eapply sbind_shift_g. { now apply recovery_loop_shift. } { exact G3. }
  intros s1 res Gr. cbv beta in Gr. apply andb_true_iff in Gr as [Gr1 Gr2].
  eapply sbind_shift_g. { now apply stq_rec_finish_shift. } { exact Gr2. }
  intros s2 ret Gt. now apply stq_tail2_shift.
Qed.

Lemma send_tx_queue_decompose (s : vsock) :
  send_tx_queue cci s =
  if v_transport_pending s then SOk s tt
  else sbind (stq_after_rto cci s) (stq_tail1 cci (outgoing_header s)).
Proof.
  unfold send_tx_queue. destruct (v_transport_pending s); [reflexivity|].
  fold (stq_after_rto cci s).
  destruct (stq_after_rto cci s) as [s1 ret|s1 e|]; [|reflexivity|reflexivity].
  cbn [sbind]. unfold stq_tail1. destruct ret; [reflexivity|].
  destruct (0 <? v_rto_retransmissions s1); [reflexivity|].
  destruct (ss_segs (v_segs s1)); [reflexivity|].
  destruct (rv_phase (v_recovery s1)); reflexivity.
Qed.

Lemma send_tx_queue_shift (s : vsock) : g_send_tx_queue cci s = true ->
  send_tx_queue cci (sh s) = sst idf (send_tx_queue cci s).
Proof.
  unfold g_send_tx_queue. intros G. rewrite !send_tx_queue_decompose, pj_transport_pending.
  destruct (v_transport_pending s); [reflexivity|].
  apply andb_true_iff in G as [G1 G2]. rewrite outgoing_header_shift.
  eapply sbind_shift_g. { now apply stq_after_rto_shift. } { exact G2. }
  intros s1 ret Gt. now apply stq_tail1_shift.
Qed.

(* ---- split_tx_queue_into_segments ---- *)
Definition split_cont (tx_len : Z) (s2 : vsock) : step unit :=
        let segmented_len := ss_len_bytes (v_segs s2) in
        if tx_len <? segmented_len then SErr s2 (ErrBug BugInBufferComputations)
        else
          match segment_loop (ring (v_tx s2)) (o_nagle (v_opts s2)) (v_ss s2) (v_segs s2)
                             (tx_len - segmented_len) (v_last_remote_window s2) with
          | None => SPanic
          | Some (ss', segs', remaining) =>
              SOk (set_unsegmented (set_segs (set_ss s2 ss') segs') remaining) tt
          end.

Definition split_rest (tx_len : Z) (s1 : vsock) : step unit :=
    if is_remote_fin_or_later (v_state s1) then SOk s1 tt
    else
      let '(segs1, pe) := pop_expired_mtu_probe (v_segs s1)
                            (timer_expired (v_t_retransmit s1) (v_now s1) && negb (is_local_fin_or_later (v_state s1)))
                            (o_mtu_probe_max_retx (v_opts s1)) in
      match pe with
      | PeExpired rewind_to payload_size =>
          let s1' := set_segs s1 segs1 in
          let s2 := set_rto_retransmissions
                      (set_t_retransmit s1'
                         (match ss_segs segs1 with
                          | [] => None
                          | _ => timer_arm (v_t_retransmit s1') (v_now s1')
                                           (retransmission_timeout (v_rtte s1')) true
                          end)) 0 in
          let s3 := if seq_gt (v_last_sent_seq_nr s2) rewind_to
                    then set_last_sent_seq_nr s2 rewind_to else s2 in
          split_cont tx_len (set_ss s3 (on_probe_failed (v_ss s3) payload_size))
      | PeNotExpired =>
          SOk (set_unsegmented s1 (sat_sub tx_len (ss_len_bytes (v_segs s1)))) tt
      | PeEmpty => split_cont tx_len s1
      end.

Lemma split_decompose (s : vsock) :
  split_tx_queue_into_segments cci s =
  let tx_len := Z.of_nat (length (ring (v_tx s))) in
  if tx_len =? 0 then SOk (set_tx s (register_dispatcher_if_empty (v_tx s))) tt
  else split_rest tx_len (split_s1 cci s).
Proof. reflexivity. Qed.

Lemma split_s1_shift (s : vsock) : split_s1 cci (sh s) = sh (split_s1 cci s).
Proof.
  unfold split_s1. rewrite pj_tx, pj_cc, pj_last_remote_window, pj_opts.
  destruct ((cap (v_tx s) <? _) && _); [|reflexivity].
  destruct (grow (v_tx s) (o_tx_max (v_opts s))) as [tx1 g]. destruct g; [|reflexivity].
  destruct (wake_writer tx1) as [tx2 w]. reflexivity.
Qed.

Lemma segment_loop_shift : forall fuel nagle ss segs remaining rwr,
  segment_loop fuel nagle ss (shift_segments da segs) remaining rwr =
  match segment_loop fuel nagle ss segs remaining rwr with
  | Some (ss', segs', r) => Some (ss', shift_segments da segs', r)
  | None => None
  end.
Proof.
  induction fuel as [|x fuel IH]; intros; cbn [segment_loop]; [reflexivity|].
  destruct ((0 <? remaining) && (0 <? rwr)); [|reflexivity].
  destruct (next_segment_size ss) as [[ss1 sz]|]; [|reflexivity].
  cbn [shift_segments ss_segs].
  destruct (nagle && _ && _); [reflexivity|].
  rewrite enqueue_shift.
  destruct (mss ss1 <? _); [reflexivity|]. apply IH.
Qed.

Lemma split_cont_shift tx_len (s : vsock) : split_cont tx_len (sh s) = sst idf (split_cont tx_len s).
Proof.
  unfold split_cont. rewrite pj_segs, pj_tx, pj_opts, pj_ss, pj_last_remote_window.
  cbn [shift_segments ss_len_bytes].
  destruct (tx_len <? ss_len_bytes (v_segs s)); [reflexivity|].
  fold (shift_segments da (v_segs s)). rewrite segment_loop_shift.
  destruct (segment_loop _ _ _ (v_segs s) _ _) as [[[ss' segs'] r]|]; reflexivity.
Qed.

Lemma split_rest_shift tx_len (s1 : vsock) :
  match snd (pop_expired_mtu_probe (v_segs s1) (timer_expired (v_t_retransmit s1) (v_now s1) && negb (is_local_fin_or_later (v_state s1)))
                                   (o_mtu_probe_max_retx (v_opts s1))) with
  | PeExpired rewind_to _ => cmp_ok (v_last_sent_seq_nr s1) rewind_to
  | _ => true
  end = true ->
  split_rest tx_len (sh s1) = sst idf (split_rest tx_len s1).
Proof.
  unfold split_rest. intros G. rewrite pj_state, is_remote_fin_shift.
  destruct (is_remote_fin_or_later (v_state s1)); [reflexivity|].
  rewrite pj_segs, pj_t_retransmit, pj_now, pj_opts, is_local_fin_shift, pop_expired_shift.
  destruct (pop_expired_mtu_probe (v_segs s1) _ _) as [segs1 pe]. cbn [fst snd] in *.
  destruct pe as [rw psz| |]; cbn [shift_pe].
  - cbv zeta. rewrite st_segs.
    set (s1' := set_segs s1 segs1).
    cbn [shift_segments ss_segs].
    rewrite pj_t_retransmit, pj_now, pj_rtte, st_t_retransmit, st_rto_retransmissions.
    set (s2 := set_rto_retransmissions _ 0).
    assert (E : v_last_sent_seq_nr s2 = v_last_sent_seq_nr s1) by reflexivity.
    rewrite pj_last_sent_seq_nr, E, (cmp_ok_seq_gt da _ _ G).
    destruct (seq_gt (v_last_sent_seq_nr s1) rw); rewrite ?st_last_sent_seq_nr, pj_ss, st_ss;
      apply split_cont_shift.
  - reflexivity.
  - apply split_cont_shift.
Qed.

Lemma split_shift (s : vsock) : g_split cci s = true ->
  split_tx_queue_into_segments cci (sh s) = sst idf (split_tx_queue_into_segments cci s).
Proof.
  unfold g_split. intros G. rewrite !split_decompose. cbv zeta. rewrite pj_tx.
  destruct (Z.of_nat (length (ring (v_tx s))) =? 0); [reflexivity|].
  rewrite split_s1_shift. now apply split_rest_shift.
Qed.

End Tx.

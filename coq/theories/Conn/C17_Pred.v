(* C17 — handshake and teardown follow the uTP state machine on the wire.
   Boolean predicates over one step / one trace of the connection-level correspondence
   (Conn/VObs.v).  Model only: no proofs here (they are in Conn/C17_Proofs.v). *)
From Utp Require Import Base.Prelude Wire.SeqNr Wire.Header Rtt.Rtte Mtu.SegSizes Rx.Rx Tx.Ring
  Tx.Segments Conn.Recovery Conn.Msg Conn.VSockRec Conn.VSock Conn.VSockRun Conn.VObs.

Definition pkt_is (t : ptype) (p : fpacket) : bool := ptype_eqb (ch_type (fq_hdr p)) t.
Definition pkt_seq (p : fpacket) : Z := ch_seq (fq_hdr p).
Definition pkt_ack (p : fpacket) : Z := ch_ack (fq_hdr p).

Definition optz_eqb (a b : option Z) : bool :=
  match a, b with Some x, Some y => x =? y | None, None => true | _, _ => false end.

Definition verror_is_reset (e : verror) : bool := match e with ErrStResetReceived => true | _ => false end.
Definition verror_is_max_synack (e : verror) : bool :=
  match e with ErrMaxSynAckRetransmissionsReached => true | _ => false end.

Definition state_is_closed_st (s : vstate) : bool := match s with Closed => true | _ => false end.

(* ------------------------------------------------------------------ (a) SYN-ACK *)
(* the SYN-ACK: a state packet numbered with our initial sequence number that acknowledges the
   sequence number of the remote SYN, no payload *)
Definition synack_shape (pre : vfp) (p : fpacket) : bool :=
  pkt_is ST_STATE p && (pkt_seq p =? f_seq_nr pre) && (pkt_ack p =? f_last_consumed pre) &&
  (fq_plen p =? 0).

Definition c17_synack_ok (cfg : vconfig) (st : fstep) : bool :=
  match fs_event st, fs_result st with
  | FePoll _, FrPoll r pkts _ _ =>
      let pre := fs_pre st in
      let post := fs_post st in
      let handshaking := match f_state pre with SynReceived | SynAckSent _ => true | _ => false end in
      let due := match f_state pre with
                 | SynReceived => true
                 | SynAckSent _ => timer_expired (f_t_syn_ack_resend pre) (fs_now st)
                 | _ => false
                 end in
      let k0 := match f_state pre with SynAckSent k => k | _ => 0 end in
      (* did this poll send a SYN-ACK?  (the counter moved, or the handshake moved on) *)
      let sent := match f_state post with
                  | SynReceived => false
                  | SynAckSent k' => negb (k' =? k0)
                  | _ => due
                  end in
      if handshaking then
        (* the SYN-ACK is the first datagram of the poll and has the right numbers *)
        (if sent then match pkts with p :: _ => synack_shape pre p | [] => false end else true) &&
        (* only a due SYN-ACK is sent *)
        (if sent then due else true) &&
        (* counter and resend timer: +1 and 200 ms from now when sent, untouched otherwise *)
        (match f_state post with
         | SynAckSent k' =>
             (if sent then (k' =? k0 + 1) &&
                           optz_eqb (f_t_syn_ack_resend post) (Some (fs_now st + SYNACK_RESEND_INTERNAL))
              else (k' =? k0) && optz_eqb (f_t_syn_ack_resend post) (f_t_syn_ack_resend pre)) &&
             (1 <=? k') && (k' <=? vc_max_retx cfg)
         | SynReceived => match f_state pre with SynReceived => true | _ => false end
         | _ => true
         end) &&
        (* the configured number of SYN-ACKs went unanswered: the connection fails *)
        (if due && (k0 =? vc_max_retx cfg) then
           match r with PollReadyErr e => verror_is_max_synack e | _ => false end
         else true)
      else
        (* past the handshake no state is a handshake state again *)
        match f_state post with SynReceived | SynAckSent _ => false | _ => true end
  | _, _ => true
  end.

(* ------------------------------------------------------------------ (c) own FIN *)
Definition pre_local_fin (s : vstate) : bool := is_local_fin_or_later s.

(* closing on own initiative (the poll moved from a data state to FinWait1): the send buffer is
   fully segmented and every segment has been transmitted at least once *)
Definition c17_fin_after_data_ok (cfg : vconfig) (st : fstep) : bool :=
  match fs_event st, fs_result st with
  | FePoll _, FrPoll _ _ _ _ =>
      match f_state (fs_post st) with
      | FinWait1 f =>
          if pre_local_fin (f_state (fs_pre st)) then true
          else (f_tx_len (fs_post st) =? f_seg_len_bytes (fs_post st)) &&
               forallb (fun g => negb (fg_sent_kind g =? 0) || fg_delivered g) (f_segs (fs_post st))
      | _ => true
      end
  | _, _ => true
  end.

(* every FIN a poll emits carries the number recorded in the state (FinWait1 f / LastAck f _),
   and while that number is recorded it does not change *)
Definition fin_of_state (s : vstate) : option Z := our_fin_if_unacked s.

Definition c17_fin_number_step_ok (cfg : vconfig) (st : fstep) : bool :=
  match fs_event st, fs_result st with
  | FePoll _, FrPoll r pkts _ _ =>
      (match fin_of_state (f_state (fs_pre st)), fin_of_state (f_state (fs_post st)) with
       | Some f, Some f' => f =? f'
       | _, _ => true
       end) &&
      (match fin_of_state (f_state (fs_post st)) with
       | Some f => forallb (fun p => if pkt_is ST_FIN p then pkt_seq p =? f else true) pkts
       | None => true
       end)
  | _, _ => true
  end.

(* trace level: all FINs carry one number; it is above every data segment's number; a data
   segment that follows the first FIN is a retransmission (its number was on the wire before) *)
Fixpoint all_pkts (tr : list fstep) : list fpacket :=
  match tr with
  | [] => []
  | st :: r => (match fs_result st with FrPoll _ pk _ _ => pk | _ => [] end) ++ all_pkts r
  end.

Fixpoint fin_scan (pk : list fpacket) (fin : option Z) (data_seen : list Z) : bool :=
  match pk with
  | [] => true
  | p :: r =>
      if pkt_is ST_FIN p then
        (match fin with Some f => pkt_seq p =? f | None => true end) &&
        forallb (fun d => seq_lt d (pkt_seq p)) data_seen &&
        fin_scan r (Some (pkt_seq p)) data_seen
      else if pkt_is ST_DATA p then
        (match fin with
         | Some f => seq_lt (pkt_seq p) f && existsb (fun d => d =? pkt_seq p) data_seen
         | None => true
         end) &&
        fin_scan r fin (pkt_seq p :: data_seen)
      else fin_scan r fin data_seen
  end.

(* The numbering clause of the property is about an endpoint that closes ON ITS OWN INITIATIVE.  Two
   other ways to a FIN exist in the code and are not judged by it: the dispatcher's channel closing
   (process_all_incoming_messages: the connection can no longer receive, a FIN is sent at once whatever is
   outstanding — teardown of the socket, C08), and the answer to the PEER's FIN taken in Established
   (LastAck{our_fin = seq_nr}: the peer has closed, segments already cut but not yet sent are abandoned).
   own_prefix keeps the steps before the first such event. *)
Definition peer_initiated (st : fstep) : bool :=
  negb (is_local_fin_or_later (f_state (fs_pre st))) &&
  match f_state (fs_post st) with LastAck _ _ | Closed => true | _ => false end.

Fixpoint own_prefix (tr : list fstep) : list fstep :=
  match tr with
  | [] => []
  | st :: r =>
      match fs_event st with
      | FeCloseInbox => []
      | _ => if peer_initiated st then [] else st :: own_prefix r
      end
  end.

Definition c17_fin_seq_ok (cfg : vconfig) (tr : list fstep) : bool :=
  fin_scan (all_pkts (own_prefix tr)) None [].

(* ------------------------------------------------------------------ (d) the peer's FIN *)
(* messages delivered since the last poll that drained the inbox; None = unknown (a poll stopped
   on a pending transport, or the inbox was closed) *)
Definition is_data_state (s : vstate) : bool :=
  match s with Established | FinWait1 _ | FinWait2 => true | _ => false end.

Definition peer_fin_poll_ok (pending : list chdr) (st : fstep) : bool :=
  let pre := fs_pre st in
  let post := fs_post st in
  match pending with
  | [] => true
  | _ =>
    if is_data_state (f_state pre) &&
       forallb (fun h => ptype_eqb (ch_type h) ST_FIN &&
                         negb (ch_seq h =? wadd16 (f_last_consumed pre) 1)) pending
    then
      (* out-of-sequence FINs only: not honoured, the receive side does not move *)
      (f_last_consumed post =? f_last_consumed pre) && negb (is_remote_fin_or_later (f_state post)) &&
      (f_rx_qbytes post =? f_rx_qbytes pre) && (f_rx_len post =? f_rx_len pre)
    else
      match pending, f_state pre with
      | [h], Established =>
          if ptype_eqb (ch_type h) ST_FIN && (ch_seq h =? wadd16 (f_last_consumed pre) 1) then
            (* in sequence: consumed, own FIN numbered with the next sequence number *)
            (f_last_consumed post =? ch_seq h) &&
            (match f_state post with
             | LastAck f r => (f =? f_seq_nr pre) && (r =? ch_seq h)
             | Closed => true
             | _ => false
             end) &&
            (* acknowledged at once unless the transport refused *)
            (if f_transport_pending post then true
             else match fs_result st with
                  | FrPoll PollPending pk _ _ => existsb (fun p => pkt_ack p =? ch_seq h) pk
                  | _ => true
                  end)
          else true
      | _, _ => true
      end
  end.

Fixpoint peer_fin_scan (tr : list fstep) (pending : option (list chdr)) : bool :=
  match tr with
  | [] => true
  | st :: r =>
      match fs_event st with
      | FeDeliver h _ =>
          peer_fin_scan r (match pending with Some l => Some (l ++ [h]) | None => None end)
      | FeCloseInbox => peer_fin_scan r None
      | FePoll _ =>
          (match pending with Some l => peer_fin_poll_ok l st | None => true end) &&
          peer_fin_scan r (if f_transport_pending (fs_post st) then None
                           else match pending with Some _ => Some [] | None => None end)
      | _ => peer_fin_scan r pending
      end
  end.

(* the inbox is known to be empty only when nothing stopped the previous polls early; the
   first poll of an incoming connection refuses messages (SynReceived), so start unknown there *)
Definition c17_peer_fin_ok (cfg : vconfig) (tr : list fstep) : bool :=
  peer_fin_scan tr (Some []).

(* ------------------------------------------------------------------ (e) RESET *)
(* a poll that reports the reset ends in Closed, and answers with neither FIN nor RESET *)
Definition c17_reset_ok (cfg : vconfig) (st : fstep) : bool :=
  match fs_event st, fs_result st with
  | FePoll _, FrPoll (PollReadyErr e) pkts _ _ =>
      if verror_is_reset e then
        state_is_closed_st (f_state (fs_post st)) &&
        forallb (fun p => negb (pkt_is ST_FIN p) && negb (pkt_is ST_RESET p)) pkts
      else true
  | _, _ => true
  end.

(* a reset delivered alone, past the handshake, ends the connection in the very next poll:
   Ready, with an error unless it acknowledges our FIN in LastAck *)
Fixpoint reset_scan (tr : list fstep) (pending : option (list chdr)) : bool :=
  match tr with
  | [] => true
  | st :: r =>
      match fs_event st with
      | FeDeliver h _ =>
          reset_scan r (match pending with Some l => Some (l ++ [h]) | None => None end)
      | FeCloseInbox => reset_scan r None
      | FePoll _ =>
          (match pending with
           | Some (h :: _) =>
               if ptype_eqb (ch_type h) ST_RESET &&
                  match f_state (fs_pre st) with SynReceived | SynAckSent _ => false | _ => true end &&
                  (f_cbu (fs_pre st) <? IMMEDIATE_ACK_EVERY_RMSS * f_mss (fs_pre st))
               then
                 let acks_fin := match f_state (fs_pre st) with
                                 | LastAck f _ => ch_ack h =? f | _ => false end in
                 match fs_result st with
                 | FrPoll (PollReadyErr e) pk _ _ =>
                     if acks_fin then true     (* see c17_reset_ok_poll: other errors possible *)
                     else verror_is_reset e && match pk with [] => true | _ => false end
                 | FrPoll PollReadyOk _ _ _ => acks_fin
                 | FrPoll PollPending _ _ _ => acks_fin && f_transport_pending (fs_post st)
                 | _ => true
                 end
               else true
           | _ => true
           end) &&
          reset_scan r (if f_transport_pending (fs_post st) then None
                        else match pending with Some _ => Some [] | None => None end)
      | _ => reset_scan r pending
      end
  end.

Definition c17_reset_trace_ok (cfg : vconfig) (tr : list fstep) : bool := reset_scan tr (Some []).

(* ---- the form of c17_fin_after_data_ok that is a theorem of every model trace (Conn/C17_Step.v):
   the poll does not die of a transport error.  (The one way into FinWait1 with data unsent is the
   channel-closed arm of recv_loop - teardown of the socket, not a close on own initiative - whose FIN
   then fails on the transport: c17_fin_after_data_ok_refuted.) ---- *)
Definition c17_not_err_send (r : fresult) : bool :=
  match r with FrPoll (PollReadyErr ErrSend) _ _ _ => false | _ => true end.

Definition c17_fin_after_data_noerr (cfg : vconfig) (st : fstep) : bool :=
  if c17_not_err_send (fs_result st) then c17_fin_after_data_ok cfg st else true.

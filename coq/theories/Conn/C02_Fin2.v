(* The FIN half of c02_rto_armed: our FIN outstanding (last_sent_seq_nr = our_fin, our_fin not
   acknowledged) => the retransmission timer is armed.
     FO s := our_fin_if_unacked (state) = Some fin -> last_sent_seq_nr = fin -> t_retransmit <> None
   is kept by every Pending poll that starts in a state where the FIN number is already allocated
   (is_local_fin_or_later) and - in FinWait1 - numbered right after the last segment of the table
   ([fnv]: fin = snd_una + number of segments).  The only place where the proof needs [fnv] is the
   expired-probe arm of split_tx_queue_into_segments, which turns the timer off when the popped probe
   was the only segment and rewinds last_sent_seq_nr only if it is above the number before the probe. *)
From Utp Require Import Base.Prelude Wire.SeqNr Wire.SeqNr_Proofs Wire.Header Rtt.Rtte Rtt.Rtte_Proofs Mtu.SegSizes
  Rx.Rx Tx.Ring Tx.Segments Tx.Segments_Proofs Tx.Segments_ProofsOut
  Conn.Recovery Conn.Msg Conn.VSockRec Conn.VSock Conn.VSockRun Conn.VObs Conn.C10_Pred Conn.C02_Pred
  Conn.C02_Pred2 Conn.VSock_LemmasTx Conn.VSock_LemmasIn Conn.VSock_Lemmas Conn.VSock_LemmasStep
  Conn.VSock_LemmasReach Conn.VSock_LemmasTimers Conn.VSock_LemmasPipe Conn.C02_SegLemmas2 Conn.C02_Lemmas2
  Conn.C02_Stall2.

(* ------------------------------------------------------------------ the frontier of the table *)
Definition cutf (t : segments) : Z := wadd16 (ss_snd_una t) (len_z (ss_segs t) mod M16).

Lemma dlv_length : forall l l', dlv l' = dlv l -> length l' = length l.
Proof. intros l l' H. apply (f_equal (@length _)) in H. unfold dlv in H. rewrite !map_length in H. exact H. Qed.

Lemma shape_length : forall l l', shape l' = shape l -> length l' = length l.
Proof. intros l l' H. apply (f_equal (@length _)) in H. unfold shape in H. rewrite !map_length in H. exact H. Qed.

Lemma sack_phase_length : forall t rest a1 su now ack sk l' a' dp lse,
  sack_phase t rest a1 su now ack sk = (l', a', dp, lse) -> length l' = length rest.
Proof.
  intros t rest a1 su now ack sk l' a' dp lse. unfold sack_phase.
  destruct rest as [|x xs]; [intro H; injection H as <- _ _ _; reflexivity|].
  destruct sk as [k|]; [|intro H; injection H as <- _ _ _; reflexivity].
  destruct (seq_gt su ack); [|intro H; injection H as <- _ _ _; reflexivity].
  set (rest := x :: xs). set (so := seq_sub (wadd16 ack 2) su).
  destruct (0 <=? so).
  - destruct (apply_sack (skipn (Z.to_nat so) rest) _ now _) as [tl' a''] eqn:E.
    intro H; injection H as <- _ _ _. apply apply_sack_shape, shape_length in E.
    rewrite app_length, E, <- app_length, firstn_skipn. reflexivity.
  - destruct (apply_sack rest _ now _) as [l2 a''] eqn:E.
    intro H; injection H as <- _ _ _. apply apply_sack_shape, shape_length in E. exact E.
Qed.

Lemma remove_up_to_ack_cutf : forall t now ack sk t' r,
  remove_up_to_ack t now ack sk = (t', r) -> cutf t' = cutf t.
Proof.
  intros t now ack sk t' r. unfold remove_up_to_ack.
  set (dc := if 0 <=? seq_sub ack (ss_snd_una t)
             then Z.to_nat (Z.min (seq_sub ack (ss_snd_una t) + 1) (len_z (ss_segs t))) else 0%nat).
  assert (Hdc : (dc <= length (ss_segs t))%nat).
  { subst dc. destruct (0 <=? _); [|lia]. unfold len_z. lia. }
  destruct (sack_phase t (skipn dc (ss_segs t)) _ _ now ack sk) as [[[rest2 a2] dp] lse] eqn:E2.
  destruct (strip_delivered rest2 0 0) as [[rest3 cnt3] bytes3] eqn:E3.
  intro H; injection H as <- _. unfold cutf. cbn [ss_segs ss_snd_una].
  apply sack_phase_length in E2. rewrite skipn_length in E2.
  destruct (strip_delivered_spec _ _ _ _ _ _ E3) as (dropped & Hd & Hc3 & _).
  assert (Hl : len_z (ss_segs t) = Z.of_nat dc + cnt3 + len_z rest3).
  { unfold len_z. rewrite Hd, app_length in E2. lia. }
  rewrite Hl. unfold wadd16, M16. lia.
Qed.

Lemma calc_pipe_cutf : forall t hr hd rtt now t' p rc,
  calc_pipe t hr hd rtt now = Some (t', p, rc) -> cutf t' = cutf t.
Proof.
  intros t hr hd rtt now t' p rc H. unfold cutf, len_z.
  rewrite (calc_pipe_una _ _ _ _ _ _ _ _ H), (dlv_length _ _ (calc_pipe_dlv _ _ _ _ _ _ _ _ H)). reflexivity.
Qed.

Lemma on_sent_cutf : forall t i now, cutf (on_sent t i now) = cutf t.
Proof.
  intros. unfold cutf, len_z. rewrite (dlv_length _ _ (on_sent_dlv t i now)). reflexivity.
Qed.

(* sequence arithmetic of the expired-probe arm: fin = una + (n+1), the probe is the last segment *)
Lemma wsub16_ne : forall x k, 0 < k < M16 -> wsub16 x k <> x.
Proof.
  intros x k Hk E. unfold wsub16, M16 in *.
  assert (0 <= x < 65536) by (rewrite <- E; lia). lia.
Qed.

Lemma seq_gt_back2 : forall x, 0 <= x < M16 -> seq_gt x (wsub16 x 2) = true.
Proof.
  intros x Hx. unfold seq_gt.
  assert (E : seq_sub x (wsub16 x 2) = 2).
  { unfold seq_sub. apply offset_true_distance_pair; unfold WRAP_TOLERANCE, wsub16, M16 in *; try lia. }
  rewrite E. reflexivity.
Qed.

Section WithCC.
Context {CC : Type} (cci : cc_iface CC).
Notation vsock := (vsock CC).

Definition LF (s : vsock) : Prop := is_local_fin_or_later (v_state s) = true.
Definition fin_of (s : vsock) : option Z := our_fin_if_unacked (v_state s).

Definition FO (s : vsock) : Prop :=
  forall fin, fin_of s = Some fin -> v_last_sent_seq_nr s = fin -> v_t_retransmit s <> None.

(* the state is kept; last_sent_seq_nr and the timer are kept, or the timer is armed *)
Definition fok (s s' : vsock) : Prop :=
  v_state s' = v_state s /\
  ((v_last_sent_seq_nr s' = v_last_sent_seq_nr s /\ v_t_retransmit s' = v_t_retransmit s) \/
   v_t_retransmit s' <> None).

Lemma fok_refl : forall s, fok s s.
Proof. intros s. split; [reflexivity|left; auto]. Qed.

Lemma fok_trans : forall a b c, fok a b -> fok b c -> fok a c.
Proof.
  intros a b c [A1 A2] [B1 B2]. split; [congruence|].
  destruct B2 as [[B2 B3]|B2]; [|right; exact B2].
  destruct A2 as [[A2 A3]|A2]; [left; split; congruence|right; congruence].
Qed.

Lemma fok_FO : forall s s', fok s s' -> FO s -> FO s'.
Proof.
  intros s s' [E [[E1 E2]|E1]] H fin Hf Hl; [|exact E1].
  unfold fin_of in *. rewrite E in Hf. rewrite E1 in Hl. rewrite E2. exact (H fin Hf Hl).
Qed.

Lemma fok_same : forall s s' : vsock,
  v_state s' = v_state s -> v_last_sent_seq_nr s' = v_last_sent_seq_nr s ->
  v_t_retransmit s' = v_t_retransmit s -> fok s s'.
Proof. intros s s' E1 E2 E3. split; [exact E1|left; auto]. Qed.

Lemma fok_armed : forall s s' : vsock, v_state s' = v_state s -> v_t_retransmit s' <> None -> fok s s'.
Proof. intros s s' E1 E2. split; [exact E1|right; exact E2]. Qed.

Ltac fok_same_tac := apply fok_same; exact eq_refl.
Ltac fok_via H := eapply fok_trans; [exact H | fok_same_tac].

Notation stk := (stR fok).

Lemma next_send_fok : forall (s : vsock) n s1 o, next_send s n = (s1, o) -> fok s s1.
Proof.
  intros s n s1 o H. unfold next_send in H.
  repeat break_match_hyp H; inversion H; subst; try inversion Heqp; subst; fok_same_tac.
Qed.

Lemma send_control_packet_fok : forall (s : vsock) h, stk s (send_control_packet s h).
Proof.
  intros s h. unfold send_control_packet.
  destruct (v_transport_pending s); [apply fok_refl|].
  destruct (next_send s _) as [s1 o] eqn:E. apply next_send_fok in E.
  destruct o; cbn [stR]; auto; unfold on_packet_sent, emit; fok_via E.
Qed.

Lemma send_ack_fok : forall (s : vsock), stk s (send_ack s).
Proof. intros s. unfold send_ack. apply send_control_packet_fok. Qed.

Lemma maybe_send_fin_fok : forall (s : vsock), stk s (maybe_send_fin s).
Proof.
  intros s. unfold maybe_send_fin.
  destruct (v_transport_pending s); [apply fok_refl|].
  destruct (our_fin_if_unacked (v_state s)); [|apply fok_refl].
  destruct (negb _); [apply fok_refl|].
  apply (stR_sbind fok fok_trans); [apply send_control_packet_fok|].
  intros s1 [|]; cbn [stR]; [|apply fok_refl].
  apply fok_armed; [exact eq_refl|]. vsimpl_goal. apply timer_arm_some.
Qed.

Lemma send_data_fok : forall (s : vsock) h f, stk s (send_data s h f).
Proof.
  intros s h f. unfold send_data.
  destruct (_ =? o_max_retx _); [apply fok_refl|].
  destruct (_ <? 0); [exact I|].
  destruct (_ <? fs_payload_offset f); [apply fok_refl|].
  destruct (_ <? _ + _); [apply fok_refl|].
  destruct (next_send s _) as [s1 o] eqn:E. apply next_send_fok in E.
  destruct o; cbn [stR]; auto; try (fok_via E).
  eapply fok_trans; [exact E|]. unfold on_packet_sent, emit.
  destruct (seq_gt _ _); try destruct (seq_gt _ _);
    (apply fok_armed; [exact eq_refl | vsimpl_goal; apply timer_arm_some]).
Qed.

Lemma on_rto_reactions_fok : forall (s s1 : vsock), on_rto_reactions cci s = Some s1 -> fok s s1.
Proof.
  intros s s1 H. unfold on_rto_reactions in H.
  destruct (Rtte.on_rto_timeout (v_rtte s)) as [rt|]; inversion H; subst. fok_same_tac.
Qed.

Lemma recovery_loop_fok : forall items (s : vsock) h mss0 st, stk s (recovery_loop items s h mss0 st).
Proof.
  induction items as [|f rest IH]; intros s h mss0 st; cbn [recovery_loop].
  - apply fok_refl.
  - destruct (negb _); [apply fok_refl|].
    destruct (_ && negb (sg_lost _)); [apply IH|].
    destruct (_ && negb (sg_sacks_after _)); [apply fok_refl|].
    pose proof (send_data_fok s h f) as F.
    destruct (send_data s h f) as [s1 r|s1 e|]; cbn [stR] in *; auto.
    destruct r; cbn [stR]; auto.
    eapply (stR_weaken fok fok_trans); [exact F | apply IH].
Qed.

Lemma new_data_loop_fok : forall items (s : vsock) h remaining, stk s (new_data_loop items s h remaining).
Proof.
  induction items as [|f rest IH]; intros s h remaining; cbn [new_data_loop].
  - apply fok_refl.
  - destruct (_ <? _); [apply fok_refl|].
    pose proof (send_data_fok s h f) as F.
    destruct (send_data s h f) as [s1 r|s1 e|]; cbn [stR] in *; auto.
    destruct r; cbn [stR]; auto.
    eapply (stR_weaken fok fok_trans); [exact F | apply IH].
Qed.

Lemma maybe_send_ack_fok : forall (s : vsock), stk s (maybe_send_ack s).
Proof.
  intros s. unfold maybe_send_ack.
  pose proof (send_ack_fok s) as G.
  destruct (immediate_ack_to_transmit s); [exact G|].
  destruct (should_send_window_update s); [exact G|].
  destruct (timer_expired _ _).
  - destruct (ack_to_transmit s); [exact G|]. cbn [stR]. fok_same_tac.
  - destruct (0 <? v_cbu s); cbn [stR]; fok_same_tac.
Qed.

(* ---- send_tx_queue: the state is kept and FO is kept ---- *)
Definition flr (s s' : vsock) : Prop := v_state s' = v_state s /\ (FO s -> FO s').

Lemma flr_refl : forall s, flr s s.
Proof. intros s. split; auto. Qed.

Lemma flr_trans : forall a b c, flr a b -> flr b c -> flr a c.
Proof. intros a b c [A1 A2] [B1 B2]. split; [congruence|auto]. Qed.

Lemma fok_flr : forall s s', fok s s' -> flr s s'.
Proof. intros s s' H. split; [apply H|apply fok_FO; exact H]. Qed.

Lemma stk_stl : forall A (s : vsock) (m : step A), stk s m -> stR flr s m.
Proof. intros A s m. apply stR_mono. apply fok_flr. Qed.

(* last_sent_seq_nr set to something that is not the FIN number *)
Lemma flr_not_fin : forall (s s' : vsock),
  v_state s' = v_state s -> (forall fin, fin_of s = Some fin -> v_last_sent_seq_nr s' <> fin) -> flr s s'.
Proof.
  intros s s' E H. split; [exact E|]. intros _ fin Hf Hl. exfalso.
  unfold fin_of in Hf. rewrite E in Hf. exact (H fin Hf Hl).
Qed.

Lemma send_tx_queue_flr : forall (s : vsock), stR flr s (send_tx_queue cci s).
Proof.
  intros s. unfold send_tx_queue.
  destruct (v_transport_pending s); [apply flr_refl|].
  apply (stR_sbind flr flr_trans).
  - destruct (timer_expired _ _); [|apply flr_refl].
    destruct (iter_for_sending _ _) as [|f l] eqn:Eit.
    + destruct (our_fin_if_unacked (v_state s)) as [fin|] eqn:Ef.
      2:{ cbn [stR]. apply flr_not_fin; [exact eq_refl|]. intros fin K. unfold fin_of in K. congruence. }
      destruct (Z.eqb_spec (v_last_sent_seq_nr s) fin) as [El|El].
      2:{ cbn [stR]. apply flr_not_fin; [exact eq_refl|]. intros fin' K. unfold fin_of in K.
          rewrite Ef in K. injection K as <-. exact El. }
      set (s1 := set_last_sent_seq_nr s (wsub16 (v_last_sent_seq_nr s) 1)).
      assert (F1 : flr s s1).
      { apply flr_not_fin; [exact eq_refl|]. intros fin' K. unfold fin_of in K. rewrite Ef in K.
        injection K as <-. subst s1. vsimpl_goal. rewrite El. apply wsub16_ne. unfold M16. lia. }
      clearbody s1.
      apply (stR_weaken flr flr_trans) with (s := s1); [exact F1|].
      apply (stR_sbind flr flr_trans); [apply stk_stl, maybe_send_fin_fok|].
      intros s2 sent. destruct sent; [|apply flr_refl].
      destruct (on_rto_reactions cci s2) as [s3|] eqn:Er; [|exact I].
      apply on_rto_reactions_fok in Er. cbn [stR]. apply fok_flr. eapply fok_trans; [exact Er|].
      apply fok_armed; [exact eq_refl|vsimpl_goal; apply timer_arm_some].
    + pose proof (send_data_fok s (outgoing_header s) f) as Hd.
      destruct (send_data _ _ f) as [s1 r|s1 e|]; cbn [stR] in *; auto using fok_flr.
      destruct r; cbn [stR]; auto using fok_flr.
      cbv zeta.
      match goal with |- stR _ _ (match ?o with _ => _ end) => destruct o as [s2|] eqn:E end; [|exact I].
      assert (F2 : fok s1 s2).
      { destruct (negb _); [apply on_rto_reactions_fok; exact E|injection E as <-; apply fok_refl]. }
      cbn [stR]. apply fok_flr. eapply fok_trans; [exact Hd|]. eapply fok_trans; [exact F2|].
      apply fok_armed; [exact eq_refl|vsimpl_goal; apply timer_arm_some].
  - intros s1 ret. destruct ret; [apply flr_refl|].
    destruct (0 <? v_rto_retransmissions s1); [apply flr_refl|].
    destruct (ss_segs _); [apply flr_refl|].
    apply (stR_sbind flr flr_trans).
    + destruct (rv_phase _); try apply flr_refl.
      apply (stR_sbind flr flr_trans); [apply stk_stl, recovery_loop_fok|].
      intros s2 [st early]. cbv beta iota zeta.
      destruct early; [apply fok_flr; unfold set_recovering; fok_same_tac|].
      match goal with |- stR _ _ (match our_fin_if_unacked (v_state ?y) with _ => _ end) =>
        assert (F3 : fok s2 y); [|revert F3; generalize y; intros sy F3] end.
      { unfold set_recovering. destruct (rl_cwnd st <? _); [|fok_same_tac]. destruct (rc_recalc _); [fok_same_tac|].
        destruct (0 <? rl_sent st); fok_same_tac. }
      destruct (our_fin_if_unacked (v_state sy)) as [fin|] eqn:Ef; [|cbn [stR]; apply fok_flr; exact F3].
      destruct (_ =? _); cbn [stR]; [|apply fok_flr; exact F3].
      eapply flr_trans; [apply fok_flr; exact F3|].
      apply flr_not_fin; [exact eq_refl|]. intros fin' K. unfold fin_of in K. rewrite Ef in K. injection K as <-.
      unfold set_recovering. vsimpl_goal. apply wsub16_ne. unfold M16. lia.
    + intros s2 ret. destruct ret; [apply flr_refl|].
      apply (stR_sbind flr flr_trans); [apply stk_stl, new_data_loop_fok|].
      intros s3 tl. destruct tl as [[sq sz]|]; [|apply flr_refl].
      destruct (pop_mtu_probe _ _) as [segs' popped]. destruct popped; cbn [stR]; [|apply flr_refl].
      apply fok_flr. fok_same_tac.
Qed.

End WithCC.

(* ------------------------------------------------------------------ staged reasoning with a
   separate predicate after the segmentation (variant of VSock_LemmasStep.PollStaged) *)
Section PollStaged3.
Context {CC : Type} (cci : cc_iface CC).
Notation vsock := (vsock CC).
Variables A0 A B1 B2 B3 C D : vsock -> Prop.

Hypothesis H_start : forall s, A0 s -> A (poll_start s).
Hypothesis H_syn_ack : forall s, A s -> stC A (maybe_send_syn_ack s).
Hypothesis H_send_ack : forall s, A s -> stC A (send_ack s).
Hypothesis H_pim : forall s, A s -> stC B1 (process_all_incoming_messages cci s).
Hypothesis H_flush : forall s rx1 fb w, B1 s ->
  rx_flush (v_rx s) = (rx1, FlOk fb, w) -> B2 (add_wakes (set_rx s rx1) (rx_wakes w)).
Hypothesis H_split : forall s, B2 s -> stU B3 (split_tx_queue_into_segments cci s).
Hypothesis H_stq : forall s, B3 s -> v_restart s = false ->
  stU (fun s' => (v_restart s' = true -> A0 s') /\
                 (v_restart s' = false -> v_transport_pending s' = false -> C s'))
      (send_tx_queue cci s).
Hypothesis H_fw1 : forall s, C s -> C (transition_to_fin_wait_1 s).
Hypothesis H_fin : forall s, C s -> stC C (maybe_send_fin s).
Hypothesis H_msa : forall s, C s -> stC D (maybe_send_ack s).

Hypothesis N_syn_ack : forall s : vsock, no_restart s (maybe_send_syn_ack s).
Hypothesis N_send_ack : forall s : vsock, no_restart s (send_ack s).
Hypothesis N_pim : forall s : vsock, no_restart s (process_all_incoming_messages cci s).
Hypothesis N_split : forall s : vsock, no_restart s (split_tx_queue_into_segments cci s).
Hypothesis N_fw1 : forall s : vsock, v_restart (transition_to_fin_wait_1 s) = v_restart s.
Hypothesis N_fin : forall s : vsock, no_restart s (maybe_send_fin s).
Hypothesis N_msa : forall s : vsock, no_restart s (maybe_send_ack s).

Theorem poll_body_S3 : forall s0, A0 s0 -> brS A0 D (poll_body cci s0).
Proof.
  intros s0 HA. apply H_start in HA. unfold poll_body. fold (poll_start s0).
  assert (R0 : v_restart (poll_start s0) = false) by reflexivity.
  generalize dependent (poll_start s0). clear s0. intros s0 HA R0.
  apply (pend_S A0 D _ A _ _ s0 R0); [apply N_syn_ack | apply H_syn_ack; exact HA |]. intros s1 _ HA1 R1 _.
  apply (pend_S A0 D _ A _ _ s1 R1).
  { destruct (immediate_ack_to_transmit s1); [apply N_send_ack | intros _; exact R1]. }
  { destruct (immediate_ack_to_transmit s1); [apply H_send_ack; exact HA1 | intros _; exact HA1]. }
  intros s2 _ HA2 R2 _.
  apply (pend_S A0 D _ B1 _ _ s2 R2); [apply N_pim | apply H_pim; exact HA2 |]. intros s3 _ HB3 R3 T3.
  destruct (rx_flush (v_rx s3)) as [[rx1 fr] w] eqn:Efl. destruct fr as [fb|]; [|exact I].
  pose proof (H_flush s3 rx1 fb w HB3 Efl) as HB4.
  assert (R4 : v_restart (add_wakes (set_rx s3 rx1) (rx_wakes w)) = false) by exact R3.
  set (s4 := add_wakes (set_rx s3 rx1) (rx_wakes w)) in *. clearbody s4.
  destruct (timer_expired _ _); [exact I|].
  unfold bail at 1.
  pose proof (H_split s4 HB4) as HB5. pose proof (N_split s4 R4) as R5.
  destruct (split_tx_queue_into_segments cci s4) as [s5 a5|s5 e5|]; try exact I.
  cbn [stU] in HB5, R5. rewrite R5.
  pose proof (H_stq s5 HB5 R5) as H6.
  unfold pend at 1, bail at 1.
  destruct (send_tx_queue cci s5) as [s6 a6|s6 e6|]; try exact I.
  cbn [stU] in H6. destruct H6 as [H6r H6c].
  destruct (v_restart s6) eqn:R6; [cbn [brS]; apply H6r; reflexivity|].
  destruct (v_transport_pending s6) eqn:T6; [cbn [brS]; left; exact T6|].
  specialize (H6c eq_refl eq_refl).
  assert (HC7 : C (if should_close_on_own_initiative s6 then transition_to_fin_wait_1 s6 else s6)).
  { destruct (should_close_on_own_initiative s6); [apply H_fw1|]; exact H6c. }
  assert (R7 : v_restart (if should_close_on_own_initiative s6 then transition_to_fin_wait_1 s6 else s6) = false).
  { destruct (should_close_on_own_initiative s6); [rewrite N_fw1|]; exact R6. }
  set (s7 := if should_close_on_own_initiative s6 then transition_to_fin_wait_1 s6 else s6) in *.
  clearbody s7.
  apply (pend_S A0 D _ C _ _ s7 R7); [apply N_fin | apply H_fin; exact HC7 |]. intros s8 _ HC8 R8 _.
  apply (pend_S A0 D _ D _ _ s8 R8); [apply N_msa | apply H_msa; exact HC8 |]. intros s9 _ HC9 R9 T9.
  destruct (state_is_closed _ _) eqn:C9; [exact I|].
  assert (Hs : forall sx, sx = poll_tail s9 -> tail_shape D sx).
  { intros sx ->. right. exists s9. repeat split; assumption. }
  unfold poll_tail in Hs.
  destruct (next_timer_to_poll _) as [sx t]. destruct t; cbn [brS]; apply Hs; reflexivity.
Qed.

Theorem poll_loop_S3 : forall fuel s s',
  A0 s -> poll_loop cci fuel s = (s', PollPending) -> tail_shape D s'.
Proof.
  induction fuel as [|fuel IH]; intros s s' HA H; cbn [poll_loop] in H; [discriminate|].
  pose proof (poll_body_S3 s HA) as F.
  destruct (poll_body cci s) as [s1 r1|s1|]; cbn [brS] in *.
  - inversion H; subst. exact F.
  - eapply IH; [exact F | exact H].
  - discriminate.
Qed.

Theorem poll_S3 : forall s s',
  A0 (poll_init s) -> poll cci s = (s', PollPending) -> tail_shape D s'.
Proof. intros s s' HA H. rewrite poll_unfold in H. eapply poll_loop_S3; [exact HA | exact H]. Qed.

End PollStaged3.

Section WithCC2.
Context {CC : Type} (cci : cc_iface CC).
Notation vsock := (vsock CC).

(* in FinWait1 the FIN is numbered right after the last segment, or no retransmission timeout is due *)
Definition FNE (s : vsock) : Prop :=
  forall fin, v_state s = FinWait1 fin -> fin = cutf (v_segs s) \/ (NE s /\ NW s).

Definition K0 (s : vsock) : Prop := ti s /\ LF s /\ FO s /\ FNE s.
Definition K1 (s : vsock) : Prop := K0 s /\ NW s.
Definition K3 (s : vsock) : Prop := ti s /\ LF s /\ FO s /\ NW s.

Lemma K3_frame : forall s s' : vsock, K3 s -> tiR s s' -> fok s s' -> qb s s' -> K3 s'.
Proof.
  intros s s' (T & L & F & W) Ht Hf Hq.
  destruct Hq as (_ & _ & _ & Q4 & Q5 & _).
  split; [exact (Ht T)|]. split; [unfold LF in *; rewrite (proj1 Hf); exact L|].
  split; [exact (fok_FO _ _ Hf F)|]. unfold NW in *. congruence.
Qed.

Lemma K1_frame : forall s s' : vsock,
  K1 s -> tiR s s' -> fok s s' -> qb s s' -> v_segs s' = v_segs s -> K1 s'.
Proof.
  intros s s' ((T & L & F & N) & W) Ht Hf Hq Hs.
  destruct Hq as (_ & _ & _ & Q4 & Q5 & _ & _ & _ & _ & _ & _ & Q12).
  assert (W' : NW s') by (unfold NW in *; congruence).
  split; [|exact W'].
  split; [exact (Ht T)|]. split; [unfold LF in *; rewrite (proj1 Hf); exact L|].
  split; [exact (fok_FO _ _ Hf F)|].
  intros fin E. rewrite (proj1 Hf) in E. destruct (N fin E) as [N1|[N1 N2]].
  - left. rewrite Hs. exact N1.
  - right. split; [apply Q12; [apply T|exact N1]|exact W'].
Qed.

Lemma stage_K1 : forall X (s : vsock) (m : step X),
  stR tiR s m -> stR fok s m -> stR qb s m -> stR (fun a b : vsock => v_segs b = v_segs a) s m ->
  K1 s -> stU K1 m.
Proof.
  intros X s m T F Q S H. destruct m as [s' a|s' e|]; cbn [stR stU] in *; auto.
  apply (K1_frame s); assumption.
Qed.

Lemma stage_K3 : forall X (s : vsock) (m : step X),
  stR tiR s m -> stR fok s m -> stR qb s m -> K3 s -> stU K3 m.
Proof.
  intros X s m T F Q H. destruct m as [s' a|s' e|]; cbn [stR stU] in *; auto.
  apply (K3_frame s); assumption.
Qed.

Lemma LF_syn_ack : forall s : vsock, LF s ->
  maybe_send_syn_ack s = SOk (set_t_syn_ack_resend s None) tt.
Proof.
  intros s H. unfold maybe_send_syn_ack, LF in *. destruct (v_state s); try discriminate; reflexivity.
Qed.

Lemma LF_transition : forall s : vsock, LF s -> transition_to_fin_wait_1 s = s.
Proof.
  intros s H. unfold transition_to_fin_wait_1, LF in *. destruct (v_state s); try discriminate; reflexivity.
Qed.

Lemma maybe_send_fin_segs_st : forall s : vsock,
  stR (fun a b : vsock => v_segs b = v_segs a) s (maybe_send_fin s).
Proof.
  intros s. unfold maybe_send_fin.
  destruct (v_transport_pending s); [reflexivity|].
  destruct (our_fin_if_unacked _); [|reflexivity].
  destruct (negb _); [reflexivity|].
  pose proof (send_control_packet_segs s (hdr_with (outgoing_header s) ST_FIN z None)) as G.
  destruct (send_control_packet s _) as [s2 sent| |]; cbn [sbind stR] in *; auto.
  destruct sent; cbn [stR]; exact G.
Qed.

(* ------------------------------------------------------------------ incoming messages *)
Definition st_later (x y : vstate) : Prop :=
  (is_local_fin_or_later x = true -> is_local_fin_or_later y = true) /\
  (forall fin, our_fin_if_unacked y = Some fin -> is_local_fin_or_later x = true ->
               our_fin_if_unacked x = Some fin) /\
  (forall fin, y = FinWait1 fin -> is_local_fin_or_later x = true -> x = FinWait1 fin).

Lemma st_later_refl : forall x, st_later x x.
Proof. intros x. unfold st_later. auto. Qed.

Lemma st_later_trans : forall x y z, st_later x y -> st_later y z -> st_later x z.
Proof.
  intros x y z (A1 & A2 & A3) (B1 & B2 & B3). unfold st_later. split; [auto|]. split.
  - intros fin H L. apply A2; auto.
  - intros fin H L. apply A3; auto.
Qed.

(* state later; last_sent, timer, clocks kept; frontier of the table kept *)
Definition pmr (s s' : vsock) : Prop :=
  st_later (v_state s) (v_state s') /\ v_last_sent_seq_nr s' = v_last_sent_seq_nr s /\
  v_t_retransmit s' = v_t_retransmit s /\ v_now s' = v_now s /\ v_env_now s' = v_env_now s /\
  cutf (v_segs s') = cutf (v_segs s).

Lemma pmr_refl : forall s, pmr s s.
Proof. intros s. unfold pmr. split; [apply st_later_refl|]. auto. Qed.

Lemma pmr_trans : forall a b c, pmr a b -> pmr b c -> pmr a c.
Proof.
  unfold pmr. intros a b c (A1 & A2 & A3 & A4 & A5 & A6) (B1 & B2 & B3 & B4 & B5 & B6).
  split; [eapply st_later_trans; eauto|]. repeat split; congruence.
Qed.

Definition sameF (s s' : vsock) : Prop :=
  v_state s' = v_state s /\ v_last_sent_seq_nr s' = v_last_sent_seq_nr s /\
  v_t_retransmit s' = v_t_retransmit s /\ v_now s' = v_now s /\ v_env_now s' = v_env_now s /\
  v_segs s' = v_segs s.

Lemma sameF_refl : forall s, sameF s s.
Proof. intros s. unfold sameF. auto 10. Qed.

Lemma sameF_trans : forall a b c, sameF a b -> sameF b c -> sameF a c.
Proof.
  unfold sameF. intros a b c (A1 & A2 & A3 & A4 & A5 & A6) (B1 & B2 & B3 & B4 & B5 & B6). repeat split; congruence.
Qed.

Lemma sameF_pmr : forall s s', sameF s s' -> pmr s s'.
Proof.
  intros s s' (A1 & A2 & A3 & A4 & A5 & A6). unfold pmr. rewrite A1, A6.
  split; [apply st_later_refl|]. auto.
Qed.

Ltac sameF_tac := unfold sameF; repeat split; exact eq_refl.

Lemma next_send_sameF : forall (s : vsock) n s1 o, next_send s n = (s1, o) -> sameF s s1.
Proof.
  intros s n s1 o H. unfold next_send in H.
  repeat break_match_hyp H; inversion H; subst; try inversion Heqp; subst; sameF_tac.
Qed.

Lemma send_control_packet_sameF : forall (s : vsock) h, stR sameF s (send_control_packet s h).
Proof.
  intros s h. unfold send_control_packet.
  destruct (v_transport_pending s); [apply sameF_refl|].
  destruct (next_send s _) as [s1 o] eqn:E. apply next_send_sameF in E.
  destruct o; cbn [stR]; auto; unfold on_packet_sent, emit; (eapply sameF_trans; [exact E|sameF_tac]).
Qed.

Lemma state_table_pmr : forall (s : vsock) h,
  match state_table s h with TblDrop s1 | TblErr s1 _ | TblContinue s1 =>
    st_later (v_state s) (v_state s1) /\ v_last_sent_seq_nr s1 = v_last_sent_seq_nr s /\
    v_t_retransmit s1 = v_t_retransmit s /\ v_now s1 = v_now s /\ v_env_now s1 = v_env_now s /\
    v_segs s1 = v_segs s end.
Proof.
  intros s h. unfold state_table, restart_remote_inactivity_timer.
  destruct (v_state s) eqn:Est; repeat break_match; vsimpl_goal; rewrite ?Est;
    (split; [unfold st_later; cbn [is_local_fin_or_later our_fin_if_unacked];
             repeat split; try discriminate; try (intros; congruence); auto|repeat split]).
Qed.

Lemma pim_ack_pmr : forall (s1 s2 : vsock) h res,
  pim_ack cci s1 h = Some (s2, res) ->
  v_state s2 = v_state s1 /\ v_last_sent_seq_nr s2 = v_last_sent_seq_nr s1 /\
  v_t_retransmit s2 = v_t_retransmit s1 /\ v_now s2 = v_now s1 /\ v_env_now s2 = v_env_now s1 /\
  cutf (v_segs s2) = cutf (v_segs s1).
Proof.
  intros s1 s2 h res. unfold pim_ack.
  destruct (remove_up_to_ack _ _ _ _) as [segs1 res0] eqn:Er.
  destruct (match is_recovering (v_recovery s1) with true => _ | false => _ end) as [rtte1|]; [|discriminate].
  destruct (cc_on_ack cci _ _ _ _) as [cc3|]; [|discriminate].
  destruct (recovery_on_ack cci _ _ _ _ _ _ _) as [[[rec1 segs2] cc4]|] eqn:Ero; [|discriminate].
  intro H; injection H as <- _. vsimpl_goal. repeat split.
  rewrite <- (remove_up_to_ack_cutf _ _ _ _ _ _ Er).
  unfold recovery_on_ack in Ero. cbn [rv_phase] in Ero. destruct (rv_phase (v_recovery s1)).
  - destruct (seq_ge _ _); inversion Ero; reflexivity.
  - destruct (ss_segs segs1) eqn:Es; [inversion Ero; reflexivity|].
    match type of Ero with match ?c with _ => _ end = _ => destruct c as [[dup' la']|] end; [|discriminate].
    destruct (_ <? _); [inversion Ero; reflexivity|].
    destruct (calc_pipe _ _ _ _ _) as [[[sg pipe] recalc]|] eqn:Ec; [|discriminate].
    inversion Ero; subst. eapply calc_pipe_cutf; exact Ec.
  - destruct (seq_ge _ _); inversion Ero; reflexivity.
Qed.

Lemma pim_data_sameF : forall (s2 : vsock) m res offset,
  match pim_data cci s2 m res offset with SOk s' r => sameF s2 s' | _ => True end.
Proof.
  intros s2 m res offset. unfold pim_data. destruct (offset <? 0).
  { unfold force_immediate_ack; sameF_tac. }
  cbv zeta.
  destruct (rx_add_remove _ KData (m_payload m) offset) as [[rx1 ar] w].
  destruct ar as [r|]; [|exact I].
  destruct (add_err r); [exact I|].
  match goal with |- context [send_ack (force_immediate_ack ?x)] => set (s5 := x) end.
  assert (F5 : sameF s2 s5).
  { subst s5. unfold restart_remote_inactivity_timer, add_wakes. destruct r; sameF_tac. }
  clearbody s5.
  destruct (_ || _); [|exact F5].
  unfold send_ack.
  match goal with |- context [send_control_packet ?x ?h] =>
    pose proof (send_control_packet_sameF x h) as F7; destruct (send_control_packet x h) end;
    cbn [sbind stR] in *; auto.
  eapply sameF_trans; [exact F5|]. eapply sameF_trans; [|exact F7].
  unfold force_immediate_ack. sameF_tac.
Qed.

Lemma pim_fin_sameF : forall (s2 : vsock) m res offset seen,
  match pim_fin s2 m res offset seen with SOk s' r => sameF s2 s' | _ => True end.
Proof.
  intros s2 m res offset seen. unfold pim_fin. cbv zeta. destruct (_ && _).
  - destruct (rx_add_remove _ KFin _ _) as [[rx1 ar] w].
    destruct ar as [r|]; [|exact I].
    destruct (add_err r); [exact I|].
    destruct (mark_vsock_closed _) as [tx1 w2]. unfold add_wakes, force_immediate_ack. sameF_tac.
  - unfold force_immediate_ack; sameF_tac.
Qed.

Lemma process_incoming_message_pmr : forall (s : vsock) m,
  match process_incoming_message cci s m with SOk s' r => pmr s s' | _ => True end.
Proof.
  intros s m. rewrite process_incoming_message_eq.
  pose proof (state_table_pmr s (m_hdr m)) as T.
  destruct (state_table s (m_hdr m)) as [s1|s1 e|s1]; auto.
  { destruct T as (T1 & T2 & T3 & T4 & T5 & T6). unfold pmr. rewrite T6. auto 10. }
  unfold pim_cont.
  destruct (pim_ack cci s1 (m_hdr m)) as [[s2 res]|] eqn:Ea; [|exact I].
  apply pim_ack_pmr in Ea.
  assert (F2 : pmr s s2).
  { destruct T as (T1 & T2 & T3 & T4 & T5 & T6). destruct Ea as (A1 & A2 & A3 & A4 & A5 & A6).
    unfold pmr. rewrite A1, A2, A3, A4, A5, A6, T6. auto 10. }
  cbv zeta.
  destruct (ch_type (m_hdr m)); try exact F2.
  - pose proof (pim_data_sameF s2 m res (seq_sub (ch_seq (m_hdr m)) (wadd16 (v_last_consumed s2) 1))) as D.
    destruct (pim_data cci s2 m res _) as [s' r| |]; auto.
    eapply pmr_trans; [exact F2|apply sameF_pmr; exact D].
  - pose proof (pim_fin_sameF s2 m res (seq_sub (ch_seq (m_hdr m)) (wadd16 (v_last_consumed s2) 1))
                              (is_remote_fin_or_later (v_state s))) as D.
    destruct (pim_fin s2 m res _ _) as [s' r| |]; auto.
    eapply pmr_trans; [exact F2|apply sameF_pmr; exact D].
Qed.

Lemma recv_loop_pmr : forall fuel (s : vsock) acc,
  match recv_loop cci fuel s acc with
  | SOk s' _ => v_state s' = Closed \/ pmr s s'
  | _ => True
  end.
Proof.
  assert (Hclosed : forall (s : vsock) (acc : on_ack_result),
    match sbind (maybe_send_fin (transition_to_fin_wait_1 s))
                (fun s2 _ => SOk (set_state s2 Closed) (acc, true)) with
    | SOk s' _ => v_state s' = Closed \/ pmr s s'
    | _ => True end).
  { intros s acc. destruct (maybe_send_fin _) as [s2 b| |]; cbn [sbind]; auto. }
  assert (Hopen : forall (s : vsock), pmr s (set_inbox_waker s true)).
  { intros s. apply sameF_pmr. sameF_tac. }
  induction fuel as [|x fuel IH]; intros s acc.
  - cbn [recv_loop]. destruct (v_inbox s).
    + destruct (v_inbox_closed s); [apply Hclosed|right; apply Hopen].
    + exact I.
  - cbn [recv_loop]. destruct (v_inbox s) as [|m rest].
    + destruct (v_inbox_closed s); [apply Hclosed|right; apply Hopen].
    + pose proof (process_incoming_message_pmr (set_inbox s rest) m) as P.
      destruct (process_incoming_message cci (set_inbox s rest) m) as [s1 r| |]; cbn [sbind]; auto.
      assert (P' : pmr s s1) by (eapply pmr_trans; [apply sameF_pmr; instantiate (1 := set_inbox s rest); sameF_tac|exact P]).
      destruct (_ || _); [right; exact P'|].
      specialize (IH s1 (result_update acc r)).
      destruct (recv_loop cci fuel s1 _) as [s2 res2| |]; auto.
      destruct IH as [IH|IH]; [left; exact IH|right; eapply pmr_trans; eauto].
Qed.

Lemma pmr_K : forall s s1 : vsock, pmr s s1 -> LF s -> FO s -> FNE s ->
  LF s1 /\ FO s1 /\ FNE s1 /\ (NW s -> NW s1).
Proof.
  intros s s1 ((S1 & S2 & S3) & P2 & P3 & P4 & P5 & P6) L F N. unfold LF in *.
  split; [auto|]. split.
  { intros fin Hf Hl. unfold fin_of in Hf. rewrite P3. apply (F fin); [apply S2; assumption|congruence]. }
  split.
  { intros fin E. specialize (S3 fin E L). destruct (N fin S3) as [N1|[N1 N2]].
    - left. congruence.
    - right. unfold NE, NW in *. rewrite P3, P4, P5. auto. }
  unfold NW. congruence.
Qed.

Lemma closed_K : forall s1 : vsock, v_state s1 = Closed -> LF s1 /\ FO s1 /\ FNE s1.
Proof.
  intros s1 E. unfold LF, FO, FNE, fin_of. rewrite E. cbn [is_local_fin_or_later our_fin_if_unacked].
  split; [reflexivity|]. split; intros; discriminate.
Qed.

(* the bookkeeping after the receive loop *)
Lemma paim_rest_K : forall (s1 s' : vsock) r u,
  paim_rest s1 r = SOk s' u -> RB s' -> LF s1 -> FO s1 -> FNE s1 ->
  LF s' /\ FO s' /\ FNE s'.
Proof.
  intros s1 s' r u H Hrb L F N.
  pose proof (paim_rest_pst s1 r) as P. rewrite H in P. cbn [stR] in P.
  destruct P as (P1 & _ & _ & _ & _ & _ & P7 & P8 & _).
  split; [unfold LF in *; congruence|].
  unfold paim_rest in H.
  destruct ((0 <? ar_acked_segments r) || (0 <? ar_newly_sacked_segments r)) eqn:Eb.
  - (* the timer is re-armed for one RTO from now, or our FIN is acknowledged and the table empty *)
    match type of H with sbind ?m _ = _ =>
      match m with context [acked_counts_as_sent ?x] => set (s2 := x) in * end end.
    assert (Z2 : v_state s2 = v_state s1 /\ v_now s2 = v_now s1 /\ v_segs s2 = v_segs s1 /\ v_rtte s2 = v_rtte s1 /\
                 ((fin_of s2 = None /\ v_t_retransmit s2 = None) \/
                  v_t_retransmit s2 = Some (v_now s2 + retransmission_timeout (v_rtte s2)))).
    { subst s2. unfold restart_remote_inactivity_timer, fin_of.
      destruct (ss_segs _); [destruct (our_fin_if_unacked _) eqn:Ef|]; vsimpl_goal;
        repeat (split; [reflexivity|]); first [left; split; [exact Ef|reflexivity] | right; apply timer_arm_restart]. }
    clearbody s2. destruct Z2 as (Z1 & Z2 & Z3 & Z4 & Z5).
    assert (Hfin : v_state s' = v_state s2 /\ v_t_retransmit s' = v_t_retransmit s2 /\ v_now s' = v_now s2 /\
                   v_rtte s' = v_rtte s2 /\ cutf (v_segs s') = cutf (v_segs s2)).
    { clear -H.
      destruct (0 <? ar_acked_segments r).
      - set (s2' := acked_counts_as_sent s2) in *.
        assert (Q : v_state s2' = v_state s2 /\ v_t_retransmit s2' = v_t_retransmit s2 /\ v_now s2' = v_now s2 /\
                    v_rtte s2' = v_rtte s2 /\ v_segs s2' = v_segs s2).
        { subst s2'. unfold acked_counts_as_sent. destruct (_ && _); repeat split. }
        clearbody s2'. destruct Q as (Q1 & Q2 & Q3 & Q4 & Q5).
        destruct (truncate_front _ _) as [tx1 tr]. destruct tr; [|discriminate].
        destruct (wake_writer tx1) as [tx2 w]. cbn [sbind] in H.
        match type of H with match rv_phase (v_recovery ?x) with _ => _ end = _ => set (s3 := x) in * end.
        assert (Q' : v_state s3 = v_state s2 /\ v_t_retransmit s3 = v_t_retransmit s2 /\ v_now s3 = v_now s2 /\
                     v_rtte s3 = v_rtte s2 /\ v_segs s3 = v_segs s2).
        { subst s3. unfold add_wakes. vsimpl_goal. auto. }
        clearbody s3. destruct Q' as (R1 & R2 & R3 & R4 & R5).
        destruct (rv_phase _); try (injection H as <-; rewrite R5; auto).
        destruct (calc_pipe _ _ _ _ _) as [[[segs' pipe] recalc]|] eqn:Ec; [|discriminate].
        injection H as <-. unfold set_recovering. vsimpl_goal.
        rewrite (calc_pipe_cutf _ _ _ _ _ _ _ _ Ec), R5. auto.
      - cbn [sbind] in H.
        destruct (rv_phase _); try (injection H as <-; auto).
        destruct (calc_pipe _ _ _ _ _) as [[[segs' pipe] recalc]|] eqn:Ec; [|discriminate].
        injection H as <-. unfold set_recovering. vsimpl_goal.
        rewrite (calc_pipe_cutf _ _ _ _ _ _ _ _ Ec). auto. }
    destruct Hfin as (H1 & H2 & H3 & H4 & H5).
    split.
    + intros fin Hf _. unfold fin_of in Hf. rewrite H1 in Hf. rewrite H2.
      destruct Z5 as [[Z5 _]|Z5]; [unfold fin_of in Z5; congruence|rewrite Z5; discriminate].
    + intros fin E. rewrite H1, Z1 in E. destruct (N fin E) as [N1|[N1 N2]].
      * left. rewrite H5, Z3. exact N1.
      * right. split; [|unfold NW in *; congruence].
        unfold NE. rewrite H2, H3. destruct Z5 as [[_ Z5]|Z5]; rewrite Z5; [reflexivity|].
        cbn [timer_expired]. pose proof (rto_pos _ Hrb) as Hp. rewrite H4 in Hp. lia.
  - apply orb_false_iff in Eb. destruct Eb as [Eb1 Eb2]. rewrite Eb1 in H. cbn [sbind] in H.
    assert (Hfin : v_state s' = v_state s1 /\ v_t_retransmit s' = v_t_retransmit s1 /\ v_now s' = v_now s1 /\
                   v_last_sent_seq_nr s' = v_last_sent_seq_nr s1 /\ cutf (v_segs s') = cutf (v_segs s1)).
    { destruct (rv_phase _); try (injection H as <-; auto 10).
      destruct (calc_pipe _ _ _ _ _) as [[[segs' pipe] recalc]|] eqn:Ec; [|discriminate].
      injection H as <-. unfold set_recovering. vsimpl_goal.
      rewrite (calc_pipe_cutf _ _ _ _ _ _ _ _ Ec). auto 10. }
    destruct Hfin as (H1 & H2 & H3 & H4 & H5).
    split.
    + intros fin Hf Hl. unfold fin_of in Hf. rewrite H1 in Hf. rewrite H2. apply (F fin); [exact Hf|congruence].
    + intros fin E. rewrite H1 in E. destruct (N fin E) as [N1|[N1 N2]].
      * left. congruence.
      * right. unfold NE, NW in *. rewrite H2, H3, P8. auto.
Qed.

Lemma process_all_incoming_messages_K1 : forall s : vsock,
  K1 s -> stU K1 (process_all_incoming_messages cci s).
Proof.
  intros s ((T & L & F & N) & W).
  pose proof (process_all_incoming_messages_ti cci s) as T'.
  pose proof (process_all_incoming_messages_pimr cci s) as P'.
  rewrite paim_eq in *.
  pose proof (recv_loop_pmr (v_inbox s ++ [ {| m_hdr := outgoing_header s; m_payload := [] |} ]) s
                            on_ack_result_default) as Lp.
  destruct (recv_loop _ _ _ _) as [s1 res| |]; cbn [sbind stU stR] in *; auto.
  destruct (paim_rest s1 (fst res)) as [s' u| |] eqn:E; cbn [stU stR] in *; auto.
  specialize (T' T).
  assert (K : LF s1 /\ FO s1 /\ FNE s1).
  { destruct Lp as [Lp|Lp]; [apply closed_K; exact Lp|].
    destruct (pmr_K _ _ Lp L F N) as (A & B & C & _). auto. }
  destruct K as (L1 & F1 & N1).
  destruct (paim_rest_K _ _ _ _ E (proj1 T') L1 F1 N1) as (L' & F' & N').
  destruct P' as (_ & _ & P3 & P4 & _).
  split; [split; [exact T'|]; split; [exact L'|]; split; [exact F'|exact N']|]. unfold NW in *. congruence.
Qed.

End WithCC2.

Ltac fok_same_tac := apply fok_same; exact eq_refl.
Ltac sameF_tac := unfold sameF; repeat split; exact eq_refl.

Section WithCC3.
Context {CC : Type} (cci : cc_iface CC).
Notation vsock := (vsock CC).

(* ------------------------------------------------------------------ segmentation *)
Lemma pop_expired_shape : forall t mr t' rw ps,
  pop_expired_mtu_probe t true mr = (t', PeExpired rw ps) ->
  exists init x, ss_segs t = init ++ [x] /\
    rw = wsub16 (wadd16 (ss_snd_una t) (len_z init mod M16)) 1.
Proof.
  intros t mr t' rw ps H. unfold pop_expired_mtu_probe in H.
  destruct (last_and_init (ss_segs t)) as [[init x]|] eqn:E; [|inversion H].
  destruct (sg_delivered x); [inversion H|].
  destruct (_ && _ && _); [|destruct (sg_probe x); inversion H].
  injection H as _ <- _. exists init, x. split; [apply last_and_init_app; exact E|reflexivity].
Qed.

Lemma split_FO : forall s : vsock, LF s -> FO s -> FNE s ->
  match split_tx_queue_into_segments cci s with
  | SOk s' _ => v_state s' = v_state s /\ FO s'
  | _ => True
  end.
Proof.
  intros s L F N. unfold split_tx_queue_into_segments.
  destruct (_ =? 0); [split; [reflexivity|]; revert F; apply fok_FO; fok_same_tac|].
  match goal with |- context [is_remote_fin_or_later (v_state ?x)] => set (s1 := x) end.
  assert (F1 : sameF s s1).
  { subst s1. destruct (_ && _); [|apply sameF_refl].
    destruct (grow _ _) as [tx1 g]. destruct g; [destruct (wake_writer tx1)|]; unfold add_wakes; sameF_tac. }
  clearbody s1. destruct F1 as (E1 & E2 & E3 & E4 & E5 & E6).
  assert (Fs1 : FO s1) by (revert F; apply fok_FO; apply fok_same; assumption).
  destruct (is_remote_fin_or_later (v_state s1)) eqn:Erf; [split; assumption|].
  destruct (pop_expired_mtu_probe _ _ _) as [segs1 pe] eqn:Ep.
  assert (Hcont : forall s2 : vsock, v_state s2 = v_state s -> FO s2 ->
    match
      (if Z.of_nat (length (ring (v_tx s))) <? ss_len_bytes (v_segs s2)
       then SErr s2 (ErrBug BugInBufferComputations)
       else match segment_loop (ring (v_tx s2)) (o_nagle (v_opts s2)) (v_ss s2) (v_segs s2)
                    (Z.of_nat (length (ring (v_tx s))) - ss_len_bytes (v_segs s2))
                    (v_last_remote_window s2) with
            | Some (ss', segs', remaining) =>
                SOk (set_unsegmented (VSockRec.set_segs (set_ss s2 ss') segs') remaining) tt
            | None => SPanic
            end)
    with SOk s' _ => v_state s' = v_state s /\ FO s' | _ => True end).
  { intros s2 Es2 F2. destruct (_ <? _); [exact I|].
    destruct (segment_loop _ _ _ _ _ _) as [[[ss' segs'] rem']|]; [|exact I].
    split; [exact Es2|]. revert F2. apply fok_FO. fok_same_tac. }
  destruct pe as [rw ps| |].
  - (* the expired probe is popped: not in a local-FIN state (repair of D6: the flag handed to
       pop_expired_mtu_probe is false there) *)
    exfalso. unfold LF in L. rewrite <- E1 in L. rewrite L in Ep. rewrite andb_false_r in Ep.
    exact (pop_expired_not_timed_out _ _ _ _ Ep _ _ eq_refl).
  - split; [exact E1|]. revert Fs1. apply fok_FO. fok_same_tac.
  - apply Hcont; assumption.
Qed.

Lemma split_K : forall s : vsock, K1 s -> stU K3 (split_tx_queue_into_segments cci s).
Proof.
  intros s ((T & L & F & N) & W).
  pose proof (split_tx_queue_into_segments_ti cci s) as T'.
  pose proof (split_tx_queue_into_segments_qb cci s) as Q.
  pose proof (split_FO s L F N) as P.
  destruct (split_tx_queue_into_segments cci s) as [s' u| |]; cbn [stU stR] in *; auto.
  destruct P as [P1 P2]. destruct Q as (_ & _ & _ & Q4 & Q5 & _).
  split; [exact (T' T)|]. split; [unfold LF in *; congruence|]. split; [exact P2|]. unfold NW in *. congruence.
Qed.

(* ------------------------------------------------------------------ a restart is requested only
   while no retransmission timeout is due *)
Lemma rto_branch_ne : forall (s : vsock) h s1,
  ti s -> rto_branch cci s h = SOk s1 false -> v_rto_retransmissions s1 <= 0 ->
  RB s1 /\ v_restart s1 = v_restart s /\ (NE s1 \/ ITN s1).
Proof.
  intros s h s1 Hti H Hr. unfold rto_branch in H.
  destruct (timer_expired (v_t_retransmit s) (v_now s)) eqn:Ex.
  2:{ injection H as <-. split; [apply Hti|]. split; [reflexivity|]. left. exact Ex. }
  destruct (iter_for_sending (v_segs s) None) as [|f l] eqn:Eit.
  - assert (Hoff : forall x : vsock, v_segs x = v_segs s -> v_rtte x = v_rtte s -> v_restart x = v_restart s ->
                   RB x /\ v_restart x = v_restart s /\ (NE x \/ ITN x)).
    { intros x A1 A2 A3. split; [unfold RB; rewrite A2; apply Hti|]. split; [exact A3|].
      right. unfold ITN. rewrite A1. exact Eit. }
    destruct (our_fin_if_unacked _); [|injection H as <-; apply Hoff; reflexivity].
    destruct (_ =? _); [|injection H as <-; apply Hoff; reflexivity].
    set (s0 := set_last_sent_seq_nr s (wsub16 (v_last_sent_seq_nr s) 1)) in *.
    assert (E0 : v_segs s0 = v_segs s /\ v_rtte s0 = v_rtte s /\ v_restart s0 = v_restart s) by (repeat split).
    clearbody s0. destruct E0 as (E01 & E02 & E03).
    pose proof (maybe_send_fin_qb s0) as Q. pose proof (maybe_send_fin_segs s0) as Sg.
    destruct (maybe_send_fin s0) as [s2 sent| |]; cbn [sbind stR] in *; try discriminate.
    destruct Q as (_ & _ & _ & _ & _ & _ & _ & Q8 & Q9 & _). specialize (Sg s2 sent eq_refl).
    destruct sent.
    + destruct (on_rto_reactions cci s2) as [s3|] eqn:Er; [|discriminate].
      apply on_rto_reactions_pp in Er. destruct Er as (_ & R2 & R3 & _ & R5 & R6).
      injection H as <-. split; [exact R5|]. split; [vsimpl_goal; congruence|].
      left. unfold NE. vsimpl_goal. unfold timer_arm, timer_expired. pose proof (rto_pos _ R5).
      destruct (v_t_retransmit s3); lia.
    + injection H as <-. apply Hoff; congruence.
  - exfalso.
    pose proof (send_data_spec s h f) as D. pose proof (send_data_ti s h f) as Tt.
    destruct (send_data s h f) as [s2 r|s2 e|]; try discriminate.
    destruct r; try discriminate. cbn [stR] in Tt. specialize (Tt Hti).
    cbv zeta in H.
    match type of H with (match ?o with _ => _ end) = _ => destruct o as [s3|] eqn:E3 end; [|discriminate].
    assert (Z3 : 0 <= v_rto_retransmissions s3).
    { destruct (negb _); [|injection E3 as <-; apply Tt].
      pose proof (on_rto_reactions_ti cci _ _ E3 Tt) as T3. apply T3. }
    injection H as <-.
    cbn [v_rto_retransmissions set_rto_retransmissions set_last_sent_seq_nr set_t_retransmit] in Hr. lia.
Qed.

Lemma rec_after_tm : forall rc h mss0 (s1 s2 : vsock) res r,
  rec_after rc h mss0 s1 res = SOk s2 r ->
  v_t_retransmit s2 = v_t_retransmit s1 /\ v_now s2 = v_now s1 /\ v_rtte s2 = v_rtte s1.
Proof.
  intros rc h mss0 s1 s2 [st early] r H. unfold rec_after in H.
  destruct early; [injection H as <- _; repeat split|].
  match type of H with (match our_fin_if_unacked (v_state ?y) with _ => _ end) = _ =>
    assert (F3 : v_t_retransmit y = v_t_retransmit s1 /\ v_now y = v_now s1 /\ v_rtte y = v_rtte s1);
    [|revert F3 H; generalize y; intros sy F3 H] end.
  { destruct (rl_cwnd st <? mss0); [|repeat split]. destruct (rc_recalc rc); [repeat split|].
    destruct (0 <? rl_sent st); repeat split. }
  destruct (our_fin_if_unacked _); [destruct (_ =? _)|]; injection H as <- _; exact F3.
Qed.

Lemma rec_branch_ne : forall (s s2 : vsock) h r,
  RB s -> (NE s \/ ITN s) -> rec_branch s h = SOk s2 r ->
  RB s2 /\ v_restart s2 = v_restart s /\ (NE s2 \/ ITN s2).
Proof.
  intros s s2 h r Hrb Hn H.
  destruct (rec_branch_keeps _ _ _ _ H) as (_ & Rr & _).
  split; [|split; [exact Rr|]].
  - unfold rec_branch in H. destruct (rv_phase (v_recovery s)) as [rp|d|rc];
      try (injection H as <- _; exact Hrb).
    pose proof (recovery_loop_qb (rec_items s rc) s h (mss (v_ss s)) (rec_st0 rc)) as Q.
    destruct (recovery_loop _ s h _ _) as [s1 res| |]; cbn [sbind stR] in *; try discriminate.
    destruct (rec_after_tm _ _ _ _ _ _ _ H) as (_ & _ & A3).
    destruct Q as (_ & _ & _ & _ & _ & _ & _ & Q8 & _). unfold RB in *. congruence.
  - unfold rec_branch in H. destruct (rv_phase (v_recovery s)) as [rp|d|rc] eqn:Ep;
      try (injection H as <- _; exact Hn).
    destruct Hn as [Hn|Hn].
    + pose proof (recovery_loop_qb (rec_items s rc) s h (mss (v_ss s)) (rec_st0 rc)) as Q.
      destruct (recovery_loop _ s h _ _) as [s1 res| |]; cbn [sbind stR] in *; try discriminate.
      destruct (rec_after_tm _ _ _ _ _ _ _ H) as (A1 & A2 & _).
      destruct Q as (_ & _ & _ & _ & _ & _ & _ & _ & _ & _ & _ & Q12).
      left. unfold NE in *. rewrite A1, A2. apply Q12; assumption.
    + assert (Ei : rec_items s rc = []).
      { unfold rec_items. unfold ITN in Hn. rewrite Hn. rewrite firstn_nil. reflexivity. }
      rewrite Ei in H. cbn [recovery_loop sbind] in H.
      destruct (rec_after_keeps _ _ _ _ _ _ _ H) as (_ & A2 & _).
      right. unfold ITN in *. rewrite A2. exact Hn.
Qed.

Theorem stq_restart_ne : forall (s s' : vsock) u,
  ti s -> send_tx_queue cci s = SOk s' u -> v_restart s = false -> v_restart s' = true -> NE s'.
Proof.
  intros s s' u Hti H R0 R'. rewrite send_tx_queue_eq in H.
  destruct (v_transport_pending s); [injection H as <-; congruence|].
  set (h := outgoing_header s) in *. clearbody h.
  destruct (rto_branch cci s h) as [s1 ret| |] eqn:Eb; cbn [sbind] in H; try discriminate.
  assert (Rs1 : v_restart s1 = false).
  { clear -Eb R0 Hti.
    unfold rto_branch in Eb.
    destruct (timer_expired _ _); [|injection Eb as <- _; exact R0].
    destruct (iter_for_sending _ _) as [|f l].
    - destruct (our_fin_if_unacked _); [|injection Eb as <- _; exact R0].
      destruct (_ =? _); [|injection Eb as <- _; exact R0].
      pose proof (maybe_send_fin_qb (set_last_sent_seq_nr s (wsub16 (v_last_sent_seq_nr s) 1))) as Q.
      destruct (maybe_send_fin _) as [s2 sent| |]; cbn [sbind stR] in *; try discriminate.
      destruct Q as (_ & _ & _ & _ & _ & _ & _ & _ & Q9 & _). cbn [v_restart set_last_sent_seq_nr] in Q9.
      destruct sent; [|injection Eb as <- _; congruence].
      destruct (on_rto_reactions cci s2) as [s3|] eqn:Er; [|discriminate].
      apply on_rto_reactions_pp in Er. destruct Er as (_ & _ & R3 & _).
      injection Eb as <- _. vsimpl_goal. congruence.
    - pose proof (send_data_qb s h f) as Q.
      destruct (send_data s h f) as [s2 r|s2 e|]; cbn [stR] in *; try discriminate.
      destruct Q as (_ & _ & _ & _ & _ & _ & _ & _ & Q9 & _).
      destruct r; try discriminate; [|injection Eb as <- _; congruence].
      cbv zeta in Eb.
      match type of Eb with (match ?o with _ => _ end) = _ => destruct o as [s3|] eqn:E3 end; [|discriminate].
      assert (R3 : v_restart s3 = v_restart s2).
      { destruct (negb _); [|injection E3 as <-; reflexivity].
        apply on_rto_reactions_pp in E3. destruct E3 as (_ & _ & E3 & _). exact E3. }
      injection Eb as <- _. vsimpl_goal. congruence. }
  unfold after_rto_k in H.
  destruct ret; [injection H as <-; congruence|].
  destruct (Z.ltb_spec 0 (v_rto_retransmissions s1)) as [Lz|Lz]; [injection H as <-; congruence|].
  destruct (ss_segs (v_segs s1)); [injection H as <-; congruence|].
  destruct (rto_branch_ne _ _ _ Hti Eb Lz) as (B1 & _ & N1).
  destruct (rec_branch s1 h) as [s2 r2| |] eqn:Er; cbn [sbind] in H; try discriminate.
  destruct (rec_branch_ne _ _ _ _ B1 N1 Er) as (B2 & R2 & N2).
  destruct r2; [injection H as <-; congruence|].
  unfold new_branch in H.
  destruct N2 as [N2|N2].
  - pose proof (new_data_loop_qb (new_items s2) s2 h (new_remaining cci s2)) as Q.
    destruct (new_data_loop _ s2 h _) as [s3 tl| |]; cbn [sbind stR] in *; try discriminate.
    destruct Q as (_ & _ & _ & _ & _ & _ & _ & _ & _ & _ & _ & Q12).
    pose proof (Q12 B2 N2) as N3.
    unfold new_after in H. destruct tl as [[sq sz]|]; [|injection H as <-; congruence].
    destruct (pop_mtu_probe _ _) as [segs' popped]. destruct popped; [|discriminate].
    injection H as <-. unfold NE in *. vsimpl_goal. exact N3.
  - unfold new_items, ITN in *. rewrite (iter_some_nil _ _ N2) in H. cbn [new_data_loop sbind new_after] in H.
    injection H as <-. congruence.
Qed.

End WithCC3.

Section WithCC4.
Context {CC : Type} (cci : cc_iface CC).
Notation vsock := (vsock CC).

Lemma K1_same : forall s s' : vsock, K1 s ->
  v_state s' = v_state s -> v_last_sent_seq_nr s' = v_last_sent_seq_nr s ->
  v_t_retransmit s' = v_t_retransmit s -> v_segs s' = v_segs s -> v_now s' = v_now s ->
  v_env_now s' = v_env_now s -> v_rtte s' = v_rtte s -> v_rto_retransmissions s' = v_rto_retransmissions s ->
  K1 s'.
Proof.
  intros s s' ((T & L & F & N) & W) E1 E2 E3 E4 E5 E6 E7 E8.
  assert (T' : ti s') by (revert T; apply ti_same; assumption).
  split; [|unfold NW in *; congruence].
  split; [exact T'|]. split; [unfold LF in *; congruence|].
  split; [revert F; apply fok_FO; apply fok_same; assumption|].
  intros fin E. rewrite E1 in E. destruct (N fin E) as [N1|[N1 N2]]; [left; congruence|].
  right. unfold NE, NW in *. rewrite E3, E5, E6. auto.
Qed.

(* a Pending poll with a writable transport, from a state with the FIN number allocated *)
Theorem poll_fin_armed : forall (s s' : vsock),
  K0 s -> poll cci s = (s', PollPending) -> v_transport_pending s' = false -> ti s' /\ FO s'.
Proof.
  intros s s' HK H Hnp.
  assert (HS : tail_shape K3 s').
  { apply (poll_S3 cci K0 K1 K1 K1 K3 K3 K3) with (s := s); try exact H.
    - (* poll_start *)
      intros a (T & L & F & N). split; [|reflexivity].
      split; [apply poll_start_ti; exact T|]. split; [exact L|].
      split; [revert F; apply fok_FO; unfold poll_start; fok_same_tac|].
      intros fin E. destruct (N fin E) as [N1|[N1 N2]]; [left; exact N1|].
      right. split; [|reflexivity]. unfold NE, NW, poll_start in *. vsimpl_goal. rewrite <- N2. exact N1.
    - intros a Ha. apply stU_stC. rewrite (LF_syn_ack a (proj1 (proj2 (proj1 Ha)))). cbn [stU].
      apply (K1_same a); try reflexivity. exact Ha.
    - intros a Ha. apply stU_stC. apply (stage_K1 _ a); try exact Ha.
      + apply send_ack_ti. + apply send_ack_fok. + apply send_ack_qb.
      + unfold send_ack. apply send_control_packet_segs.
    - intros a Ha. apply stU_stC. apply process_all_incoming_messages_K1. exact Ha.
    - intros a rx1 fb w Ha _. apply (K1_same a); try reflexivity. exact Ha.
    - intros a Ha. apply split_K. exact Ha.
    - (* send_tx_queue *)
      intros a (T & L & F & W) Ra.
      pose proof (send_tx_queue_ti cci a) as T'.
      pose proof (send_tx_queue_flr cci a) as Fl.
      pose proof (send_tx_queue_frame cci a) as Fr.
      pose proof (stq_restart_ne cci a) as Ne.
      destruct (send_tx_queue cci a) as [b u| |]; cbn [stU stR step_frame] in *; auto.
      specialize (T' T). destruct Fl as [Fl1 Fl2]. destruct Fr as (_ & Fr2 & Fr3 & _).
      assert (Wb : NW b) by (unfold NW in *; congruence).
      assert (Lb : LF b) by (unfold LF in *; congruence).
      split.
      + intro Rb. split; [exact T'|]. split; [exact Lb|]. split; [exact (Fl2 F)|].
        intros fin _. right. split; [eapply Ne; eauto|exact Wb].
      + intros _ _. split; [exact T'|]. split; [exact Lb|]. split; [exact (Fl2 F)|exact Wb].
    - intros a Ha. rewrite (LF_transition a (proj1 (proj2 Ha))). exact Ha.
    - intros a Ha. apply stU_stC. apply (stage_K3 _ a); try exact Ha.
      + apply maybe_send_fin_ti. + apply maybe_send_fin_fok. + apply maybe_send_fin_qb.
    - intros a Ha. apply stU_stC. apply (stage_K3 _ a); try exact Ha.
      + apply maybe_send_ack_ti. + apply maybe_send_ack_fok. + apply maybe_send_ack_qb.
    - intro a. apply no_restart_qb, maybe_send_syn_ack_qb.
    - intro a. apply no_restart_qb, send_ack_qb.
    - intros a Ra. pose proof (process_all_incoming_messages_pimr cci a) as P'.
      destruct (process_all_incoming_messages cci a); cbn [stU stR] in *; auto.
      destruct P' as (_ & _ & _ & _ & _ & P6 & _). congruence.
    - intro a. apply no_restart_qb, split_tx_queue_into_segments_qb.
    - apply transition_to_fin_wait_1_restart.
    - intro a. apply no_restart_qb, maybe_send_fin_qb.
    - intro a. apply no_restart_qb, maybe_send_ack_qb.
    - exact HK. }
  destruct HS as [HS|(sb & (T & L & F & W) & _ & _ & _ & ->)]; [congruence|].
  split; [apply poll_tail_ti; exact T|].
  revert F. apply fok_FO. unfold poll_tail, next_timer_to_poll, arm_in, add_wakes.
  repeat break_match; try (inversion Heqp; subst); fok_same_tac.
Qed.

End WithCC4.

(* Segment-table facts used by Conn/C02_Lemmas2.v and Conn/C02_Step2.v:
   - [und]: an undelivered segment exists; which operations of Tx/Segments.v can make it false;
   - accounting of remove_up_to_ack: if it reports no acknowledged and no newly SACKed segment,
     the table is unchanged;
   - calc_pipe / on_sent keep the delivered flags; enqueue only appends. *)
From Utp Require Import Base.Prelude Wire.SeqNr Tx.Segments Tx.Segments_Proofs Tx.Segments_ProofsOut.

Definition und (l : list seg) : bool := existsb (fun g => negb (sg_delivered g)) l.

Definition dlv (l : list seg) : list bool := map sg_delivered l.

Lemma und_dlv : forall l l', dlv l' = dlv l -> und l' = und l.
Proof.
  induction l as [|x xs IH]; intros [|y ys] H; cbn [dlv map] in H; try discriminate; [reflexivity|].
  injection H as H1 H2. unfold und. cbn [existsb]. rewrite H1. f_equal. apply IH. exact H2.
Qed.

Lemma und_app : forall a b, und (a ++ b) = und a || und b.
Proof. intros. apply existsb_app. Qed.

Lemma und_In : forall l, und l = true <-> exists g, In g l /\ sg_delivered g = false.
Proof.
  intros l. unfold und. rewrite existsb_exists. split; intros (g & G1 & G2); exists g; split; auto.
  - apply negb_true_iff. exact G2.
  - apply negb_true_iff. exact G2.
Qed.

(* ---- accounting of remove_up_to_ack ---- *)
Lemma apply_sack_cnt : forall l bits now a l' a',
  apply_sack l bits now a = (l', a') ->
  ac_cnt a <= ac_cnt a' /\ (ac_cnt a' = ac_cnt a -> l' = l).
Proof.
  induction l as [|s r IH]; intros bits now a l' a'; cbn [apply_sack].
  - intro H; injection H as <- <-. split; [lia|reflexivity].
  - destruct bits as [|b bs]; [intro H; injection H as <- <-; split; [lia|reflexivity]|].
    destruct (negb (sg_delivered s) && b).
    + destruct (apply_sack r bs now _) as [r' a''] eqn:E. intro H; injection H as <- <-.
      destruct (IH _ _ _ _ _ E) as [H1 H2]. cbn [ac_cnt] in H1. split; [lia|]. intro K. lia.
    + destruct (apply_sack r bs now a) as [r' a''] eqn:E. intro H; injection H as <- <-.
      destruct (IH _ _ _ _ _ E) as [H1 H2]. split; [exact H1|]. intro K. rewrite (H2 K). reflexivity.
Qed.

Lemma strip_delivered_cnt : forall l cnt bytes l' cnt' bytes',
  strip_delivered l cnt bytes = (l', cnt', bytes') -> cnt <= cnt' /\ (cnt' = cnt -> l' = l).
Proof.
  induction l as [|s r IH]; intros cnt bytes l' cnt' bytes'; cbn [strip_delivered].
  - intro H; injection H as <- <- _. split; [lia|reflexivity].
  - destruct (sg_delivered s).
    + intro H. destruct (IH _ _ _ _ _ H) as [H1 _]. split; [lia|]. intro K. lia.
    + intro H; injection H as <- <- _. split; [lia|reflexivity].
Qed.

Lemma sack_phase_cnt : forall t rest a1 su now ack sk l' a' dp lse,
  sack_phase t rest a1 su now ack sk = (l', a', dp, lse) ->
  0 <= ac_cnt a' /\ (ac_cnt a' = 0 -> l' = rest).
Proof.
  intros t rest a1 su now ack sk l' a' dp lse. unfold sack_phase.
  destruct rest as [|x xs]; [intro H; injection H as <- <- _ _; cbn [ac_cnt]; split; [lia|reflexivity]|].
  destruct sk as [k|]; [|intro H; injection H as <- <- _ _; cbn [ac_cnt]; split; [lia|reflexivity]].
  destruct (seq_gt su ack); [|intro H; injection H as <- <- _ _; cbn [ac_cnt]; split; [lia|reflexivity]].
  set (rest := x :: xs). set (so := seq_sub (wadd16 ack 2) su).
  destruct (0 <=? so).
  - destruct (apply_sack (skipn (Z.to_nat so) rest) _ now _) as [tl' a''] eqn:E.
    intro H; injection H as <- <- _ _. apply apply_sack_cnt in E. cbn [ac_cnt] in E.
    destruct E as [E1 E2]. split; [lia|]. intro K. rewrite (E2 K). apply firstn_skipn.
  - destruct (apply_sack rest _ now _) as [l2 a''] eqn:E.
    intro H; injection H as <- <- _ _. apply apply_sack_cnt in E. cbn [ac_cnt] in E.
    destruct E as [E1 E2]. split; [lia|]. exact E2.
Qed.

Lemma remove_up_to_ack_cnt : forall t now ack sk t' r,
  remove_up_to_ack t now ack sk = (t', r) ->
  0 <= ar_acked_segments r /\ 0 <= ar_newly_sacked_segments r /\
  (ar_acked_segments r = 0 -> ar_newly_sacked_segments r = 0 -> ss_segs t' = ss_segs t).
Proof.
  intros t now ack sk t' r. unfold remove_up_to_ack.
  set (dc := if 0 <=? seq_sub ack (ss_snd_una t) then _ else 0%nat).
  set (a1 := drain_acc (firstn dc (ss_segs t)) now {| ac_rtt := None; ac_maxp := 0; ac_cnt := 0; ac_bytes := 0 |}).
  destruct (drain_acc_spec (firstn dc (ss_segs t)) now {| ac_rtt := None; ac_maxp := 0; ac_cnt := 0; ac_bytes := 0 |})
    as [Hc1 _]. fold a1 in Hc1. cbn [ac_cnt] in Hc1.
  destruct (sack_phase t (skipn dc (ss_segs t)) a1 _ now ack sk) as [[[rest2 a2] dp] lse] eqn:E2.
  destruct (strip_delivered rest2 0 0) as [[rest3 cnt3] bytes3] eqn:E3.
  intro H; injection H as <- <-. cbn [ss_segs ar_acked_segments ar_newly_sacked_segments].
  destruct (sack_phase_cnt _ _ _ _ _ _ _ _ _ _ _ E2) as [S1 S2].
  destruct (strip_delivered_cnt _ _ _ _ _ _ E3) as [D1 D2].
  split; [lia|]. split; [exact S1|]. intros K1 K2.
  assert (Hl : length (firstn dc (ss_segs t)) = 0%nat) by lia.
  assert (Hc3 : cnt3 = 0) by lia.
  rewrite (D2 Hc3), (S2 K2).
  destruct (firstn dc (ss_segs t)) as [|y ys] eqn:Ef; [|discriminate Hl].
  rewrite <- (firstn_skipn dc (ss_segs t)) at 2. rewrite Ef. reflexivity.
Qed.

(* ---- flags only ---- *)
Lemma pipe_loop_dlv : forall l t hr th now a l' a',
  pipe_loop l t hr th now a = (l', a') -> dlv l' = dlv (map snd l).
Proof.
  induction l as [|[off s] r IH]; intros t hr th now a l' a'; cbn [pipe_loop].
  - intro H; injection H as <- _. reflexivity.
  - destruct (seg_last_sent s).
    + destruct (sg_delivered s) eqn:Ed.
      * destruct (pipe_loop r t hr th now _) as [r' a''] eqn:E. intro H; injection H as <- _.
        cbn [dlv map snd]. f_equal. exact (IH _ _ _ _ _ _ _ E).
      * destruct (pipe_loop r t hr th now _) as [r' a''] eqn:E. intro H; injection H as <- _.
        cbn [dlv map snd sg_delivered]. f_equal; [symmetry; exact Ed|]. exact (IH _ _ _ _ _ _ _ E).
    + destruct (pipe_loop r t hr th now a) as [r' a''] eqn:E. intro H; injection H as <- _.
      cbn [dlv map snd]. f_equal. exact (IH _ _ _ _ _ _ _ E).
Qed.

Lemma calc_pipe_dlv : forall t hr hd rtt now t' p rc,
  calc_pipe t hr hd rtt now = Some (t', p, rc) -> dlv (ss_segs t') = dlv (ss_segs t).
Proof.
  intros t hr hd rtt now t' p rc. unfold calc_pipe. destruct (_ <? _); [discriminate|].
  set (n := Z.to_nat _).
  destruct (pipe_loop _ t hr _ now _) as [upd a] eqn:E. intro H; injection H as <- _ _.
  cbn [set_segs ss_segs]. apply pipe_loop_dlv in E. unfold dlv in *.
  rewrite map_app, map_rev, E, map_rev, enum_from_snd, <- !map_rev, rev_involutive.
  rewrite <- map_app, firstn_skipn. reflexivity.
Qed.

Lemma calc_pipe_una : forall t hr hd rtt now t' p rc,
  calc_pipe t hr hd rtt now = Some (t', p, rc) -> ss_snd_una t' = ss_snd_una t.
Proof.
  intros t hr hd rtt now t' p rc. unfold calc_pipe. destruct (_ <? _); [discriminate|].
  destruct (pipe_loop _ t hr _ now _) as [upd a]. intro H; injection H as <- _ _. reflexivity.
Qed.

Lemma update_nth_dlv : forall (f : seg -> seg), (forall s, sg_delivered (f s) = sg_delivered s) ->
  forall l n, dlv (update_nth l n f) = dlv l.
Proof.
  intros f Hf. induction l as [|x xs IH]; intros [|n]; cbn [update_nth dlv map]; try reflexivity.
  - rewrite Hf. reflexivity.
  - f_equal. apply IH.
Qed.

Lemma on_sent_dlv : forall t i now, dlv (ss_segs (on_sent t i now)) = dlv (ss_segs t).
Proof. intros. unfold on_sent. cbn [set_segs ss_segs]. apply update_nth_dlv. reflexivity. Qed.

Lemma enqueue_segs : forall t len p, exists g,
  ss_segs (enqueue t len p) = ss_segs t ++ [g] /\ sg_delivered g = false /\ sg_sent g = NotSent /\
  sg_size g = len.
Proof. intros. unfold enqueue. cbn [set_segs ss_segs]. eexists. split; [reflexivity|]. repeat split. Qed.

(* ---- the iterator ---- *)
Lemma in_enum_from : forall {A} (l : list A) g i, In g l -> exists j, In (j, g) (enum_from i l).
Proof.
  induction l as [|y ys IH]; intros g i []; cbn [enum_from].
  - subst. exists i. left; reflexivity.
  - destruct (IH g (S i) H) as (j & J). exists j. right; exact J.
Qed.

Lemma iter_nil_und : forall t, iter_for_sending t None = [] -> und (ss_segs t) = false.
Proof.
  intros t H. destruct (und (ss_segs t)) eqn:K; [|reflexivity]. exfalso.
  apply und_In in K. destruct K as (g & G1 & G2).
  unfold iter_for_sending in H. cbn [skipn] in H.
  destruct (in_enum_from _ g 0%nat G1) as (i & Hi).
  pose proof (filter_nil_forall _ _ H) as F.
  match type of F with forall x, In x (map ?mk ?items) -> _ => specialize (F (mk (i, g)) (in_map mk _ _ Hi)) end.
  cbn [fs_seg] in F. rewrite G2 in F. discriminate.
Qed.

Lemma iter_cons_und : forall t st f l, iter_for_sending t st = f :: l -> und (ss_segs t) = true.
Proof.
  intros t st f l H.
  assert (Hin : In f (iter_for_sending t st)) by (rewrite H; left; reflexivity).
  unfold iter_for_sending in Hin. apply filter_In in Hin. destruct Hin as [Hin Hd].
  apply in_map_iff in Hin. destruct Hin as ([i g] & <- & Hin). cbn [fs_seg] in Hd.
  apply enum_from_In in Hin.
  apply und_In. exists g. split; [|apply negb_true_iff; exact Hd].
  rewrite <- (firstn_skipn (match st with Some s => Z.to_nat (Z.max (seq_sub s (ss_snd_una t)) 0) | None => 0%nat end)
                           (ss_segs t)).
  apply in_or_app. right. exact Hin.
Qed.

Lemma pop_back_und_false : forall l init (x : seg), last_and_init l = Some (init, x) ->
  und l = false -> und init = false.
Proof.
  intros l init x E H. apply last_and_init_app in E. rewrite E, und_app in H.
  apply orb_false_iff in H. tauto.
Qed.

(* C05 — boolean predicates over one observed step (Conn/VObs.fstep).  Model-only file: no proofs.
   Each predicate states one clause of the property on observable things; the guards say when the
   clause applies.  Proved about the model's send path in Conn/C05_Proofs.v (core functions) and
   evaluated on every implementation trace by tools/props/c05.py. *)
From Utp Require Import Base.Prelude Wire.SeqNr Wire.Header Tx.Segments Conn.Recovery Conn.Msg
  Conn.VSockRun Conn.VObs.

Definition fq_is_data (p : fpacket) : bool :=
  match ch_type (fq_hdr p) with ST_DATA => true | _ => false end.

Definition phase_recovering (p : rphase) : bool :=
  match p with Recovering _ => true | _ => false end.

(* payload not yet delivered, over a list of snapshot segments *)
Fixpoint fflight (l : list fseg) : Z :=
  match l with [] => 0 | g :: r => (if fg_delivered g then 0 else fg_size g) + fflight r end.

Fixpoint plen_sum (l : list fpacket) : Z :=
  match l with [] => 0 | p :: r => fq_plen p + plen_sum r end.

(* core of the window clause: bytes put on the wire by the new-data loop vs. its budget *)
Definition c05_window_core (cwnd rwnd flight sent_bytes : Z) : bool :=
  sent_bytes <=? Z.max 0 (Z.min cwnd rwnd - flight).

(* a poll that ended Pending, outside loss recovery and outside single-segment (RTO) mode: all
   ST_DATA of the poll come from the new-data loop; their payload fits into
   min(cwnd, rwnd) - flight, with cwnd/rwnd as the incoming ACKs of this poll left them and flight =
   undelivered payload of the segments before the first one sent (tolerance: <= 1024 segments) *)
Definition c05_window_ok (cfg : vconfig) (st : fstep) : bool :=
  match fs_event st, fs_result st with
  | FePoll _, FrPoll PollPending pkts _ _ =>
      let post := fs_post st in
      if (f_rto_retx post =? 0) && negb (phase_recovering (f_recovery post))
         && (Z.of_nat (length (f_segs post)) <=? 1024) then
        match filter fq_is_data pkts with
        | [] => true
        | p1 :: _ as data =>
            let k := seq_sub (ch_seq (fq_hdr p1)) (f_snd_una post) in
            let flight := fflight (firstn (Z.to_nat k) (f_segs post)) in
            c05_window_core (f_cc_window post) (f_last_remote_window post) flight (plen_sum data)
        end
      else true
  | _, _ => true
  end.

(* zero window, outside recovery: no ST_DATA at all unless the RTO part fired (counter positive
   afterwards), and then exactly one *)
Definition c05_zero_window_ok (cfg : vconfig) (st : fstep) : bool :=
  match fs_event st, fs_result st with
  | FePoll _, FrPoll PollPending pkts _ _ =>
      let post := fs_post st in
      if (f_last_remote_window post =? 0) && negb (phase_recovering (f_recovery post)) then
        let n := Z.of_nat (length (filter fq_is_data pkts)) in
        if f_rto_retx post =? 0 then n =? 0 else n <=? 1
      else true
  | _, _ => true
  end.

(* single-segment mode: while the counter is positive after the poll, the poll emitted at most one
   ST_DATA; exactly one iff the counter grew (by one), and then it is the segment the rewind names *)
Definition c05_rto_single_ok (cfg : vconfig) (st : fstep) : bool :=
  match fs_event st, fs_result st with
  | FePoll _, FrPoll PollPending pkts _ _ =>
      let pre := fs_pre st in let post := fs_post st in
      if 0 <? f_rto_retx post then
        match filter fq_is_data pkts with
        | [] => f_rto_retx post =? f_rto_retx pre
        | [p] => (f_rto_retx post =? f_rto_retx pre + 1) &&
                 ((ch_seq (fq_hdr p) =? f_last_sent_seq_nr post) ||
                  (* the FIN may follow the retransmitted last segment in the same poll *)
                  (ch_seq (fq_hdr p) =? wsub16 (f_last_sent_seq_nr post) 1)) &&
                 timer_expired (f_t_retransmit pre) (fs_now st)
        | _ => false
        end
      else true
  | _, _ => true
  end.

(* assumed-and-monitored preconditions of the C05 theorems, on every fingerprint
   (never-sent undelivered segments form a suffix; segments a hostile peer acknowledged before they
   were sent are ignored, as they are by both flight computations) *)
Fixpoint notsent_suffix (l : list fseg) (seen_unsent : bool) : bool :=
  match l with
  | [] => true
  | g :: r => if fg_delivered g then notsent_suffix r seen_unsent
              else if fg_sent_kind g =? 0 then notsent_suffix r true
              else negb seen_unsent && notsent_suffix r false
  end.

(* after the PEER's FIN was taken in Established (LastAck{our_fin = seq_nr}) the endpoint's own FIN takes
   the number of the first never-sent segment and later segments may still go out: the never-sent
   segments are then no longer a suffix.  The suffix shape is a hypothesis of the true-flight form of the
   window theorem only, and is monitored while the peer has not closed. *)
Definition c05_fp_ok (f : vfp) : bool :=
  forallb (fun g => 1 <=? fg_size g) (f_segs f) && (0 <=? f_rto_retx f) &&
  (is_remote_fin_or_later (f_state f) || notsent_suffix (f_segs f) false) && (1 <=? f_mss f).

(* the fingerprint a poll leaves when it ends the connection (Ready) is not monitored: the C05
   theorems are about calls of send_tx_queue in a connection that goes on, and c05_fp_ok of an
   ended connection is nobody's hypothesis.  (This exemption used to cite finding T1 = D17; that
   defect, repaired since, skipped a reset of the RTO counter, the ring truncation and calc_pipe,
   none of which decides a conjunct of c05_fp_ok; the exemption is kept because the stronger
   monitor is not a theorem of the model, not because of T1.) *)
Definition c05_monitor_ok (cfg : vconfig) (st : fstep) : bool :=
  c05_fp_ok (fs_pre st) &&
  match fs_result st with
  | FrPoll PollPending _ _ _ => c05_fp_ok (fs_post st)
  | FrPoll _ _ _ _ => true
  | _ => c05_fp_ok (fs_post st)
  end.

(* ---- the zero-window clause at full strength: "after a zero window it sends no NEW payload until
   the window re-opens".  A retransmission of a segment that was on the wire before is allowed; a
   first transmission is not, whichever branch of send_tx_queue produced it.  `was_sent_before`
   looks the packet's sequence number up in the segment table of the PRE fingerprint. *)
Definition was_sent_before (pre : vfp) (p : fpacket) : bool :=
  let k := seq_sub (ch_seq (fq_hdr p)) (f_snd_una pre) in
  if (0 <=? k) && (k <? Z.of_nat (length (f_segs pre))) then
    match nth_error (f_segs pre) (Z.to_nat k) with
    | Some g => negb (fg_sent_kind g =? 0)
    | None => false
    end
  else false.

Definition c05_zero_window_strict (cfg : vconfig) (st : fstep) : bool :=
  match fs_event st, fs_result st with
  | FePoll _, FrPoll PollPending pkts _ _ =>
      let post := fs_post st in
      if (f_last_remote_window post =? 0) && negb (phase_recovering (f_recovery post))
         && (Z.of_nat (length (f_segs (fs_pre st))) <=? 1024) then
        forallb (was_sent_before (fs_pre st)) (filter fq_is_data pkts)
      else true
  | _, _ => true
  end.

(* known class D16: the retransmission timer fired with a never-sent segment at the head of the
   table (it was armed by the ACK that closed the window) and the RTO branch transmits that segment:
   exactly one first transmission, the RTO counter grows by one — in effect a zero-window probe *)
Definition c05_d16_class (cfg : vconfig) (st : fstep) : bool :=
  match fs_event st, fs_result st with
  | FePoll _, FrPoll PollPending pkts _ _ =>
      let pre := fs_pre st in let post := fs_post st in
      (f_last_remote_window post =? 0) && timer_expired (f_t_retransmit pre) (fs_now st) &&
      (f_rto_retx post =? f_rto_retx pre + 1) &&
      match filter (fun p => negb (was_sent_before pre p)) (filter fq_is_data pkts) with
      | [p] => ch_seq (fq_hdr p) =? f_last_sent_seq_nr post
      | _ => false
      end
  | _, _ => false
  end.

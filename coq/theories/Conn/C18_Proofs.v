(* C18 — Nagle coalescing: proofs about segment_loop / split_tx_queue_into_segments. *)
From Utp Require Import Base.Prelude Wire.SeqNr Wire.Header Rtt.Rtte Mtu.SegSizes
  Rx.Rx Tx.Ring Tx.Segments Conn.Recovery Conn.Msg Conn.VSockRec Conn.VSock Conn.VSockRun Conn.VObs
  Conn.VSock_Lemmas Conn.C18_Pred.


(* ------------------------------------------------------------------ the log of one run of the
   segmentation loop: one record per segment enqueued (a specification device: the same
   recursion as segment_loop, returning what it enqueued and under which conditions) *)
Record enq := {
  e_inflight : bool;     (* the table was non-empty when the segment was cut *)
  e_offer : Z;           (* size offered by next_segment_size *)
  e_rwr : Z;             (* remaining remote window at that moment *)
  e_rem : Z;             (* unsegmented bytes at that moment *)
  e_size : Z;            (* payload size of the segment *)
  e_probe : bool;
}.

Fixpoint seg_log (fuel : list Z) (nagle : bool) (ss : segsizes) (segs : segments)
  (remaining rwr : Z) : list enq :=
  match fuel with
  | [] => []
  | _ :: fuel' =>
      if (0 <? remaining) && (0 <? rwr) then
        match next_segment_size ss with
        | None => []
        | Some (ss1, sz) =>
            let max_payload := Z.min sz rwr in
            let payload := Z.min max_payload remaining in
            let in_flight := match ss_segs segs with [] => false | _ => true end in
            if nagle && negb (payload =? max_payload) && in_flight then []
            else
              let is_probe := mss ss1 <? payload in
              let e := {| e_inflight := in_flight; e_offer := sz; e_rwr := rwr; e_rem := remaining;
                          e_size := payload; e_probe := is_probe |} in
              if is_probe then [e]
              else e :: seg_log fuel' nagle ss1 (enqueue segs payload is_probe)
                                (remaining - payload) (rwr - payload)
        end
      else []
  end.

Definition seg_of_enq (off : Z) (e : enq) : seg :=
  {| sg_size := e_size e; sg_abs := off; sg_delivered := false; sg_sent := NotSent;
     sg_probe := e_probe e; sg_lost := false; sg_expired := false; sg_sacks_after := false |}.

Fixpoint segs_of_log (off : Z) (l : list enq) : list seg :=
  match l with
  | [] => []
  | e :: r => seg_of_enq off e :: segs_of_log (off + e_size e) r
  end.

Lemma next_segment_size_ge_mss : forall ss ss1 sz,
  next_segment_size ss = Some (ss1, sz) -> mss ss <= sz.
Proof.
  intros ss ss1 sz H. unfold next_segment_size in H.
  destruct (cd_rem ss =? 0).
  - unfold bind, next_probe in H. cbn [min_ss max_ss] in H.
    match type of H with context [if ?c then _ else _] => destruct c eqn:C end; [|discriminate].
    inversion H; subst. unfold np_sum2, np_sum1, np_half, np_diff, mss in *. cbn [min_ss max_ss] in *. lia.
  - inversion H; subst. unfold mss. lia.
Qed.

Lemma enqueue_segs : forall t p b,
  ss_segs (enqueue t p b) =
  ss_segs t ++ [{| sg_size := p; sg_abs := ss_offset t; sg_delivered := false; sg_sent := NotSent;
                   sg_probe := b; sg_lost := false; sg_expired := false; sg_sacks_after := false |}].
Proof. reflexivity. Qed.

Lemma enqueue_offset : forall t p b, ss_offset (enqueue t p b) = ss_offset t + p.
Proof. reflexivity. Qed.

(* the loop appends exactly the logged segments, at consecutive offsets *)
Lemma segment_loop_log : forall fuel nagle ss segs rem rwr ss' segs' rem',
  segment_loop fuel nagle ss segs rem rwr = Some (ss', segs', rem') ->
  ss_segs segs' = ss_segs segs ++ segs_of_log (ss_offset segs) (seg_log fuel nagle ss segs rem rwr) /\
  ss_offset segs' = ss_offset segs + sumZ (map e_size (seg_log fuel nagle ss segs rem rwr)) /\
  rem' = rem - sumZ (map e_size (seg_log fuel nagle ss segs rem rwr)) /\
  mss ss' = mss ss.
Proof.
  induction fuel as [|x fuel IH]; intros nagle ss segs rem rwr ss' segs' rem' H;
    cbn [segment_loop seg_log] in *.
  - inversion H; subst. cbn [segs_of_log map sumZ]. rewrite app_nil_r. repeat split; lia.
  - destruct ((0 <? rem) && (0 <? rwr)).
    2:{ inversion H; subst. cbn [segs_of_log map sumZ]. rewrite app_nil_r. repeat split; lia. }
    destruct (next_segment_size ss) as [[ss1 sz]|] eqn:N; [|discriminate].
    pose proof (mss_next_segment_size _ _ _ N) as M.
    destruct (nagle && negb (_ =? _) && _).
    { inversion H; subst. cbn [segs_of_log map sumZ]. rewrite app_nil_r. repeat split; try lia. }
    destruct (mss ss1 <? _) eqn:P.
    + inversion H; subst. cbn [segs_of_log map sumZ e_size].
      rewrite enqueue_segs, enqueue_offset. unfold seg_of_enq; cbn [e_size e_probe].
      repeat split; try lia; try exact M.
    + apply IH in H. destruct H as (H1 & H2 & H3 & H4).
      cbn [segs_of_log map sumZ e_size].
      rewrite enqueue_segs in H1. rewrite enqueue_offset in H2. rewrite enqueue_offset in H1.
      rewrite H1, H2, H3, H4. rewrite <- app_assoc. cbn [app].
      unfold seg_of_enq at 1; cbn [e_size e_probe].
      repeat split; try lia; try exact M.
Qed.

(* (a) Nagle on: every segment cut while the table was non-empty has exactly the size
   min(size offered, remaining remote window): it is full or window-limited, never shortened
   by the amount of buffered data *)
Lemma seg_log_nagle : forall fuel ss segs rem rwr,
  Forall (fun e => e_inflight e = true -> e_size e = Z.min (e_offer e) (e_rwr e))
         (seg_log fuel true ss segs rem rwr).
Proof.
  induction fuel as [|x fuel IH]; intros ss segs rem rwr; cbn [seg_log]; [constructor|].
  destruct ((0 <? rem) && (0 <? rwr)); [|constructor].
  destruct (next_segment_size ss) as [[ss1 sz]|]; [|constructor].
  destruct (Z.min (Z.min sz rwr) rem =? Z.min sz rwr) eqn:F.
  - cbn [negb andb].
    destruct (mss ss1 <? _); constructor; try constructor; try apply IH; cbn [e_inflight e_size e_offer e_rwr]; lia.
  - cbn [negb andb].
    destruct (ss_segs segs) eqn:S; [|constructor].
    destruct (mss ss1 <? _); constructor; try constructor; try apply IH;
      cbn [e_inflight]; discriminate.
Qed.

(* equivalently: a segment smaller than that is cut only when the table was empty *)
Lemma seg_log_partial_only_when_idle : forall fuel ss segs rem rwr,
  Forall (fun e => e_size e < Z.min (e_offer e) (e_rwr e) -> e_inflight e = false)
         (seg_log fuel true ss segs rem rwr).
Proof.
  intros. eapply Forall_impl; [|apply seg_log_nagle].
  intros e H L. cbv beta in H. destruct (e_inflight e) eqn:I; [specialize (H eq_refl); lia | reflexivity].
Qed.

(* every logged segment: sizes offered are at least mss, what follows a segment in the same run
   was cut with a non-empty table and a window that was not exhausted *)
Lemma seg_log_shape : forall fuel nagle ss segs rem rwr e rest,
  seg_log fuel nagle ss segs rem rwr = e :: rest ->
  mss ss <= e_offer e /\ 0 < e_rwr e /\ 0 < e_rem e /\
  e_size e = Z.min (Z.min (e_offer e) (e_rwr e)) (e_rem e) /\
  (e_inflight e = nonempty (ss_segs segs)) /\ e_rwr e = rwr /\
  (rest <> [] -> e_size e < e_rwr e /\ e_probe e = false /\
                 exists fuel' ss1, mss ss1 = mss ss /\
                   rest = seg_log fuel' nagle ss1 (enqueue segs (e_size e) false)
                                  (rem - e_size e) (rwr - e_size e)).
Proof.
  intros fuel nagle ss segs rem rwr e rest H. destruct fuel as [|x fuel]; cbn [seg_log] in H; [discriminate|].
  destruct (0 <? rem) eqn:R; [|discriminate]. destruct (0 <? rwr) eqn:W; [|discriminate]. cbn [andb] in H.
  destruct (next_segment_size ss) as [[ss1 sz]|] eqn:N; [|discriminate].
  pose proof (next_segment_size_ge_mss _ _ _ N) as G.
  pose proof (mss_next_segment_size _ _ _ N) as M.
  destruct (nagle && negb (_ =? _) && _); [discriminate|].
  assert (NEq : match ss_segs segs with [] => false | _ :: _ => true end = nonempty (ss_segs segs))
    by (destruct (ss_segs segs); reflexivity).
  destruct (mss ss1 <? _) eqn:P; inversion H; subst; cbn [e_offer e_rwr e_rem e_size e_inflight e_probe];
    (split; [lia|]); (split; [lia|]); (split; [lia|]); (split; [lia|]); (split; [exact NEq|]); (split; [reflexivity|]).
  - intros C; exfalso; apply C; reflexivity.
  - intros C. split; [|split].
    + destruct fuel as [|y fuel]; cbn [seg_log] in C; [exfalso; apply C; reflexivity|].
      destruct (0 <? rem - _) eqn:R2; [|exfalso; apply C; reflexivity].
      destruct (0 <? rwr - _) eqn:W2; [|exfalso; apply C; reflexivity]. lia.
    + reflexivity.
    + exists fuel, ss1. split; [exact M | reflexivity].
Qed.

(* the observable Nagle rule on the appended segments: [acc] = bytes cut earlier in this run,
   [w] = the remote window the run started with *)
Fixpoint walk_app (m w acc : Z) (prev : bool) (app : list enq) : bool :=
  match app with
  | [] => true
  | e :: rest => (if prev then (m <=? e_size e) || (w <=? acc + e_size e) else true)
                 && walk_app m w (acc + e_size e) true rest
  end.

Lemma seg_log_walk : forall fuel ss segs rem rwr m w acc,
  m <= mss ss -> rwr = w - acc ->
  walk_app m w acc (nonempty (ss_segs segs)) (seg_log fuel true ss segs rem rwr) = true.
Proof.
  intros fuel ss segs rem rwr m w acc.
  remember (seg_log fuel true ss segs rem rwr) as l eqn:L.
  revert fuel ss segs rem rwr acc L.
  induction l as [|e rest IH]; intros fuel ss segs rem rwr acc L Hm Hw; [reflexivity|].
  symmetry in L.
  pose proof (seg_log_nagle fuel ss segs rem rwr) as NG. rewrite L in NG. inversion NG as [|? ? NGe _]; subst.
  destruct (seg_log_shape _ _ _ _ _ _ _ _ L) as (S1 & S2 & S3 & S4 & S5 & S5b & S6).
  cbn [walk_app]. apply andb_true_intro. split.
  - destruct (nonempty (ss_segs segs)) eqn:NE; [|reflexivity].
    rewrite S5 in NGe. specialize (NGe eq_refl). lia.
  - destruct rest as [|e2 rest2]; [reflexivity|].
    assert (C : e2 :: rest2 <> []) by discriminate.
    destruct (S6 C) as (_ & _ & fuel' & ss1 & M1 & R).
    assert (NE : nonempty (ss_segs (enqueue segs (e_size e) false)) = true).
    { unfold enqueue, Segments.set_segs; cbn [ss_segs]. destruct (ss_segs segs); reflexivity. }
    assert (Hm1 : m <= mss ss1) by lia.
    assert (Hw1 : w - acc - e_size e = w - (acc + e_size e)) by lia.
    pose proof (IH fuel' ss1 _ _ _ (acc + e_size e) R Hm1 Hw1) as Wk. rewrite NE in Wk. exact Wk.
Qed.

(* ------------------------------------------------------------------ from logs to the predicate *)
Lemma walk_old : forall off m w l prev rest,
  Forall (fun g => sg_abs g < off) l ->
  c18_walk off m w prev (map fseg_of l ++ rest) = c18_walk off m w (prev || nonempty l) rest.
Proof.
  induction l as [|g l IH]; intros prev rest F; cbn [map app nonempty].
  - rewrite orb_false_r. reflexivity.
  - inversion F as [|? ? Fg Fl]; subst. cbn [c18_walk].
    replace (off <=? fg_abs (fseg_of g)) with false by (cbn [fseg_of fg_abs]; lia).
    rewrite andb_false_r. cbn [andb]. rewrite IH by exact Fl. rewrite orb_true_r. reflexivity.
Qed.

Lemma walk_app_segs : forall off m w log acc prev,
  walk_app m w acc prev log = true ->
  c18_walk off m w prev (map fseg_of (segs_of_log (off + acc) log)) = true.
Proof.
  induction log as [|e rest IH]; intros acc prev H; [reflexivity|].
  cbn [walk_app] in H. apply andb_prop in H. destruct H as [H1 H2].
  cbn [segs_of_log map c18_walk]. apply andb_true_intro. split.
  - cbn [fseg_of seg_of_enq fg_abs fg_size sg_abs sg_size].
    destruct prev; [|reflexivity]. cbn [andb].
    destruct (off <=? off + acc); [|reflexivity].
    replace (off + acc + e_size e - off) with (acc + e_size e) by lia. exact H1.
  - replace (off + acc + e_size e) with (off + (acc + e_size e)) by lia. apply IH; exact H2.
Qed.

Section WithCC.
Context {CC : Type} (cci : cc_iface CC).
Notation vsock := (vsock CC).

(* the segment table after split_tx_queue_into_segments: a prefix of the old table (all of it,
   or all but an expired MTU probe) followed by what one run of the loop logged *)
Lemma split_segs_shape : forall (s s' : vsock) u,
  split_tx_queue_into_segments cci s = SOk s' u ->
  exists old' tl fuel ss0 segs0 rem,
    ss_segs (v_segs s) = old' ++ tl /\ ss_segs segs0 = old' /\ mss ss0 = mss (v_ss s) /\
    ss_segs (v_segs s') =
      old' ++ segs_of_log (ss_offset segs0)
                (seg_log fuel (o_nagle (v_opts s)) ss0 segs0 rem (v_last_remote_window s)) /\
    (exists r, segment_loop fuel (o_nagle (v_opts s)) ss0 segs0 rem (v_last_remote_window s) = Some r) /\
    (tl <> [] -> exists lst, tl = [lst] /\ sg_probe lst = true /\ sg_delivered lst = false) /\
    (tl = [] -> segs0 = v_segs s /\
                ((fuel = [] /\ (ring (v_tx s) = [] \/ is_remote_fin_or_later (v_state s) = true \/
                                ss_segs (v_segs s) <> [])) \/
                 (fuel = ring (v_tx s) /\ ss0 = v_ss s /\
                  rem = Z.of_nat (length (ring (v_tx s))) - ss_len_bytes (v_segs s)))).
Proof.
  intros s s' u H. unfold split_tx_queue_into_segments in H.
  assert (Triv : v_segs s' = v_segs s ->
    (ring (v_tx s) = [] \/ is_remote_fin_or_later (v_state s) = true \/ ss_segs (v_segs s) <> []) ->
    exists old' tl fuel ss0 segs0 rem,
    ss_segs (v_segs s) = old' ++ tl /\ ss_segs segs0 = old' /\ mss ss0 = mss (v_ss s) /\
    ss_segs (v_segs s') =
      old' ++ segs_of_log (ss_offset segs0)
                (seg_log fuel (o_nagle (v_opts s)) ss0 segs0 rem (v_last_remote_window s)) /\
    (exists r, segment_loop fuel (o_nagle (v_opts s)) ss0 segs0 rem (v_last_remote_window s) = Some r) /\
    (tl <> [] -> exists lst, tl = [lst] /\ sg_probe lst = true /\ sg_delivered lst = false) /\
    (tl = [] -> segs0 = v_segs s /\
                ((fuel = [] /\ (ring (v_tx s) = [] \/ is_remote_fin_or_later (v_state s) = true \/
                                ss_segs (v_segs s) <> [])) \/
                 (fuel = ring (v_tx s) /\ ss0 = v_ss s /\
                  rem = Z.of_nat (length (ring (v_tx s))) - ss_len_bytes (v_segs s))))).
  { intros E D. exists (ss_segs (v_segs s)), [], [], (v_ss s), (v_segs s), 0.
    cbn [seg_log segs_of_log segment_loop]. rewrite !app_nil_r. rewrite E.
    split; [reflexivity|]. split; [reflexivity|]. split; [reflexivity|]. split; [reflexivity|].
    split; [eexists; reflexivity|]. split; [intros C; exfalso; apply C; reflexivity|].
    intros _. split; [reflexivity|]. left. split; [reflexivity | exact D]. }
  destruct (_ =? 0) eqn:Z0.
  { inversion H; subst. apply Triv; [reflexivity|]. left. destruct (ring (v_tx s)); [reflexivity|].
    cbn [length] in Z0. lia. }
  match type of H with context [is_remote_fin_or_later (v_state ?x)] => set (s1 := x) in * end.
  assert (K : v_segs s1 = v_segs s /\ v_ss s1 = v_ss s /\ v_opts s1 = v_opts s /\
              v_state s1 = v_state s /\ v_last_remote_window s1 = v_last_remote_window s /\
              ring (v_tx s1) = ring (v_tx s) /\ v_t_retransmit s1 = v_t_retransmit s /\ v_now s1 = v_now s).
  { subst s1. destruct (_ && _); [|repeat split; reflexivity].
    unfold grow. destruct (_ <=? cap _); [repeat split; reflexivity|].
    cbn [wake_writer]. unfold add_wakes. repeat split; reflexivity. }
  destruct K as (K1 & K2 & K3 & K4 & K5 & K6 & K7 & K8). clearbody s1.
  destruct (is_remote_fin_or_later (v_state s1)) eqn:Fin.
  { inversion H; subst. apply Triv; [exact K1|]. right; left. rewrite <- K4. exact Fin. }
  unfold pop_expired_mtu_probe in H.
  destruct (last_and_init (ss_segs (v_segs s1))) as [[init lst]|] eqn:LI.
  - assert (Split : ss_segs (v_segs s) = init ++ [lst]).
    { rewrite <- K1. unfold last_and_init in LI. destruct (rev (ss_segs (v_segs s1))) eqn:R; [discriminate|].
      inversion LI; subst. rewrite <- (rev_involutive (ss_segs (v_segs s1))). rewrite R. reflexivity. }
    destruct (sg_delivered lst) eqn:Dl.
    + (* PeEmpty *)
      destruct (_ <? ss_len_bytes _); [discriminate|].
      destruct (segment_loop _ _ _ _ _ _) as [[[ss' segs'] rem']|] eqn:SL; [|discriminate].
      inversion H; subst. pose proof SL as SL0. apply segment_loop_log in SL. destruct SL as (L1 & _).
      exists (ss_segs (v_segs s)), [], (ring (v_tx s1)), (v_ss s1), (v_segs s1), (Z.of_nat (length (ring (v_tx s))) - ss_len_bytes (v_segs s1)).
      cbn [v_segs VSockRec.set_segs set_unsegmented]. rewrite app_nil_r. rewrite K1, K2, K3, K5 in L1.
      rewrite K1, K2.
      split; [reflexivity|]. split; [reflexivity|]. split; [reflexivity|]. split; [exact L1|].
      split; [rewrite K1, K2, K3, K5 in SL0; eexists; exact SL0|].
      split; [intros C; exfalso; apply C; reflexivity|].
      intros _. split; [reflexivity|]. right. rewrite K6. auto.
    + destruct (_ && sg_probe lst && _) eqn:Ex.
      * (* PeExpired *)
        match type of H with context [seq_gt ?a ?b] => destruct (seq_gt a b) end;
        (destruct (_ <? ss_len_bytes _); [discriminate|];
         destruct (segment_loop _ _ _ _ _ _) as [[[ss' segs'] rem']|] eqn:SL; [|discriminate];
         inversion H; subst; pose proof SL as SL0; apply segment_loop_log in SL; destruct SL as (L1 & _);
         cbn [v_segs v_ss v_opts v_tx v_last_remote_window VSockRec.set_segs set_unsegmented set_ss
              set_last_sent_seq_nr set_rto_retransmissions set_t_retransmit] in *;
         cbn [ss_segs Segments.set_segs] in L1, SL0; rewrite K3, K5 in L1, SL0;
         match type of L1 with context [seg_log ?f _ ?ss0 ?sg0 ?rm _] => exists init, [lst], f, ss0, sg0, rm end;
         split; [exact Split|]; split; [reflexivity|]; split; [cbn [mss on_probe_failed min_ss]; rewrite K2; reflexivity|];
         split; [exact L1|]; split; [eexists; exact SL0|];
         split; [intros _; exists lst; split; [reflexivity|]; split; [|exact Dl];
                 apply andb_prop in Ex; destruct Ex as [Ex _]; apply andb_prop in Ex; destruct Ex as [_ Ex]; exact Ex|];
         intros C; discriminate).
      * destruct (sg_probe lst).
        { inversion H; subst. apply Triv; [exact K1|]. right; right. rewrite Split.
          intros C. apply app_eq_nil in C. destruct C; discriminate. }
        destruct (_ <? ss_len_bytes _); [discriminate|].
        destruct (segment_loop _ _ _ _ _ _) as [[[ss' segs'] rem']|] eqn:SL; [|discriminate].
        inversion H; subst. pose proof SL as SL0. apply segment_loop_log in SL. destruct SL as (L1 & _).
        exists (ss_segs (v_segs s)), [], (ring (v_tx s1)), (v_ss s1), (v_segs s1), (Z.of_nat (length (ring (v_tx s))) - ss_len_bytes (v_segs s1)).
        cbn [v_segs VSockRec.set_segs set_unsegmented]. rewrite app_nil_r. rewrite K1, K2, K3, K5 in L1.
        rewrite K1, K2.
        split; [reflexivity|]. split; [reflexivity|]. split; [reflexivity|]. split; [exact L1|].
        split; [rewrite K1, K2, K3, K5 in SL0; eexists; exact SL0|].
        split; [intros C; exfalso; apply C; reflexivity|].
        intros _. split; [reflexivity|]. right. rewrite K6. auto.
  - (* empty table *)
    destruct (_ <? ss_len_bytes _); [discriminate|].
    destruct (segment_loop _ _ _ _ _ _) as [[[ss' segs'] rem']|] eqn:SL; [|discriminate].
    inversion H; subst. pose proof SL as SL0. apply segment_loop_log in SL. destruct SL as (L1 & _).
    exists (ss_segs (v_segs s)), [], (ring (v_tx s1)), (v_ss s1), (v_segs s1), (Z.of_nat (length (ring (v_tx s))) - ss_len_bytes (v_segs s1)).
    cbn [v_segs VSockRec.set_segs set_unsegmented]. rewrite app_nil_r. rewrite K1, K2, K3, K5 in L1.
    rewrite K1, K2.
    split; [reflexivity|]. split; [reflexivity|]. split; [reflexivity|]. split; [exact L1|].
    split; [rewrite K1, K2, K3, K5 in SL0; eexists; exact SL0|].
    split; [intros C; exfalso; apply C; reflexivity|].
    intros _. split; [reflexivity|]. right. rewrite K6. auto.
Qed.


(* (a) at the level of the loop: what is appended, and the Nagle rule for each appended segment *)
Theorem c18_no_partial_while_unacked_lemma : forall fuel ss segs rem rwr ss' segs' rem',
  segment_loop fuel true ss segs rem rwr = Some (ss', segs', rem') ->
  let log := seg_log fuel true ss segs rem rwr in
  ss_segs segs' = ss_segs segs ++ segs_of_log (ss_offset segs) log /\
  rem' = rem - sumZ (map e_size log) /\
  Forall (fun e => e_inflight e = true -> e_size e = Z.min (e_offer e) (e_rwr e)) log /\
  Forall (fun e => e_size e < Z.min (e_offer e) (e_rwr e) -> e_inflight e = false) log.
Proof.
  intros fuel ss segs rem rwr ss' segs' rem' H log.
  destruct (segment_loop_log _ _ _ _ _ _ _ _ _ H) as (L1 & _ & L3 & _).
  split; [exact L1|]. split; [exact L3|]. split; [apply seg_log_nagle | apply seg_log_partial_only_when_idle].
Qed.

(* what the log records is what the loop saw: offer >= mss, window and data positive, the
   in-flight flag is "the table was non-empty" *)
Theorem c18_log_head_faithful : forall fuel nagle ss segs rem rwr e rest,
  seg_log fuel nagle ss segs rem rwr = e :: rest ->
  mss ss <= e_offer e /\ 0 < e_rwr e /\ 0 < e_rem e /\
  e_size e = Z.min (Z.min (e_offer e) (e_rwr e)) (e_rem e) /\
  e_inflight e = nonempty (ss_segs segs).
Proof.
  intros fuel nagle ss segs rem rwr e rest H.
  destruct (seg_log_shape _ _ _ _ _ _ _ _ H) as (S1 & S2 & S3 & S4 & S5 & _ & _). auto.
Qed.

(* (a) for split_tx_queue_into_segments, in the observable form of the predicate *)
Theorem c18_split_nagle_walk : forall (s s' : vsock) u,
  split_tx_queue_into_segments cci s = SOk s' u ->
  o_nagle (v_opts s) = true ->
  Forall (fun g => sg_abs g < ss_offset (v_segs s)) (ss_segs (v_segs s)) ->
  (forall init lst, ss_segs (v_segs s) = init ++ [lst] -> sg_probe lst && negb (sg_delivered lst) = false) ->
  c18_walk (ss_offset (v_segs s)) (mss (v_ss s)) (v_last_remote_window s) false
           (map fseg_of (ss_segs (v_segs s'))) = true.
Proof.
  intros s s' u H Ng F NP.
  destruct (split_segs_shape s s' u H) as (old' & tl & fuel & ss0 & segs0 & rem & A1 & A2 & A3 & A4 & _ & A5 & A6).
  assert (T : tl = []).
  { destruct tl as [|x tl']; [reflexivity|]. exfalso.
    destruct A5 as (lst & E & P & D); [discriminate|]. rewrite E in A1.
    specialize (NP old' lst A1). rewrite P, D in NP. discriminate. }
  subst tl. destruct (A6 eq_refl) as (S0 & _). subst segs0.
  rewrite A4, map_app. rewrite app_nil_r in A1. rewrite <- A1.
  rewrite walk_old by exact F. cbn [orb].
  replace (ss_offset (v_segs s)) with (ss_offset (v_segs s) + 0) at 2 by lia.
  apply walk_app_segs. rewrite Ng. apply seg_log_walk; lia.
Qed.

Lemma rev_last_split : forall A (l : list A) x r, rev l = x :: r -> l = rev r ++ [x].
Proof. intros A l x r H. rewrite <- (rev_involutive l). rewrite H. reflexivity. Qed.

Theorem c18_nagle_fp_split : forall (s s' : vsock) u,
  split_tx_queue_into_segments cci s = SOk s' u ->
  v_last_remote_window s' = v_last_remote_window s /\
  c18_nagle_fp (o_nagle (v_opts s)) (fp_of_vsock cci s) (fp_of_vsock cci s') = true.
Proof.
  intros s s' u H.
  assert (W : v_last_remote_window s' = v_last_remote_window s).
  { pose proof H as H0. unfold split_tx_queue_into_segments in H0.
    repeat break_match_hyp H0; try discriminate;
      injection H0 as E0 _; rewrite <- E0; unfold add_wakes; exact eq_refl. }
  split; [exact W|].
  unfold c18_nagle_fp.
  destruct (o_nagle (v_opts s)) eqn:Ng; [|reflexivity].
  destruct (c18_pre (fp_of_vsock cci s)) eqn:P; [|reflexivity].
  destruct (c18_no_probe_last (fp_of_vsock cci s)) eqn:NP; [|reflexivity]. cbn [andb].
  cbn [fp_of_vsock f_seg_offset f_mss f_segs f_last_remote_window]. rewrite W.
  apply (c18_split_nagle_walk s s' u H Ng).
  - unfold c18_pre in P. cbn [fp_of_vsock f_segs f_seg_offset] in P.
    rewrite forallb_forall in P. apply Forall_forall. intros g In.
    specialize (P (fseg_of g) (in_map fseg_of _ _ In)). cbn [fseg_of fg_abs] in P. lia.
  - intros init lst E. unfold c18_no_probe_last in NP. cbn [fp_of_vsock f_segs] in NP.
    rewrite E, map_app, rev_app_distr in NP. cbn [map rev app] in NP.
    cbn [fseg_of fg_probe fg_delivered] in NP.
    destruct (sg_probe lst && negb (sg_delivered lst)); [discriminate | reflexivity].
Qed.

(* (b) when the pipe has drained, whatever is buffered is segmented at once *)
Theorem c18_drain_sends_lemma : forall (s s' : vsock) u,
  split_tx_queue_into_segments cci s = SOk s' u ->
  ss_segs (v_segs s) = [] ->
  0 <= ss_len_bytes (v_segs s) < Z.of_nat (length (ring (v_tx s))) ->
  0 < v_last_remote_window s ->
  is_remote_fin_or_later (v_state s) = false ->
  ss_segs (v_segs s') <> [].
Proof.
  intros s s' u H E L W Fin.
  destruct (split_segs_shape s s' u H) as (old' & tl & fuel & ss0 & segs0 & rem & A1 & A2 & A3 & A4 & (r & A5) & _ & A6).
  rewrite E in A1. symmetry in A1. apply app_eq_nil in A1. destruct A1 as [O T]. subst old' tl.
  destruct (A6 eq_refl) as (S0 & [(F0 & D)|(F1 & S1 & R1)]).
  - exfalso. destruct D as [D|[D|D]].
    + rewrite D in L. cbn [length] in L. lia.
    + congruence.
    + apply D. exact E.
  - subst. rewrite A4. cbn [app].
    destruct (ring (v_tx s)) as [|x fuel'] eqn:Rg; [cbn [length] in L; lia|].
    cbn [segment_loop seg_log] in *.
    replace (0 <? Z.of_nat (length (x :: fuel')) - ss_len_bytes (v_segs s)) with true in * by lia.
    replace (0 <? v_last_remote_window s) with true in * by lia. cbn [andb] in *.
    destruct (next_segment_size (v_ss s)) as [[ss1 sz]|]; [|discriminate].
    rewrite E in *. rewrite !andb_false_r in *.
    destruct (mss ss1 <? _); cbn [segs_of_log]; discriminate.
Qed.

End WithCC.

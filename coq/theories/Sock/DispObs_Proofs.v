From Utp Require Import Base.Prelude Wire.SeqNr Wire.Header Sock.Dispatcher Sock.Dispatcher_Proofs Sock.DispObs.

Lemma nodupb_true l : NoDup l -> nodupb l = true.
Proof.
  induction 1 as [|x l Hn Hd IH]; cbn [nodupb]; [reflexivity|]. rewrite IH, andb_true_r.
  apply negb_true_iff. destruct (existsb (skey_eqb x) l) eqn:E; [|reflexivity].
  apply existsb_exists in E. destruct E as (y & Hy & Hxy). apply skey_eqb_eq in Hxy. subst y. contradiction.
Qed.

Lemma syn_eqb_refl a : syn_eqb a a = true.
Proof. unfold syn_eqb. rewrite !Z.eqb_refl. reflexivity. Qed.
Lemma syns_eqb_refl l : syns_eqb l l = true.
Proof. induction l as [|x r IH]; cbn [syns_eqb]; [reflexivity|]. rewrite syn_eqb_refl, IH. reflexivity. Qed.

Lemma suffix_plus_same n pre : (n <= length pre)%nat -> is_suffix_plus pre (skipn n pre) = true.
Proof.
  intro H. unfold is_suffix_plus. apply existsb_exists. exists n. split; [apply in_seq; lia|].
  rewrite syns_eqb_refl. reflexivity.
Qed.

Lemma suffix_plus_app n pre y : (n <= length pre)%nat -> is_suffix_plus pre (skipn n pre ++ [y]) = true.
Proof.
  intro H. unfold is_suffix_plus. apply existsb_exists. exists n. split; [apply in_seq; lia|].
  rewrite rev_app_distr. cbn [rev app]. rewrite rev_involutive, syns_eqb_refl. apply orb_true_r.
Qed.

Lemma skipn_clip {A} n (l : list A) : exists m, (m <= length l)%nat /\ skipn n l = skipn m l.
Proof.
  destruct (Nat.le_gt_cases n (length l)) as [H|H]; [exists n; auto|].
  exists (length l). split; [lia|]. rewrite skipn_all, skipn_all2 by lia. reflexivity.
Qed.

Lemma keys_obs s : map fst (ob_streams (dobs_of s)) = keys (d_streams s).
Proof. unfold dobs_of, keys; cbn [ob_streams]. rewrite map_map. reflexivity. Qed.

(* ---- where events can come from ---- *)
Lemma on_control_events s c send s' e : on_control s c send = (s', e) ->
  forall x, In x e -> match x with EvSentSyn _ _ _ | EvConnectErr _ => True | _ => False end.
Proof.
  unfold on_control. destruct c as [a0 t0|a0 t0|k1].
  - destruct (streams_full _); [intro H; injection H as _ <-; intros x [<-|[]]; exact I|].
    destruct (next_random _) as [s4 q]. destruct send.
    + destruct (slots_insert _ _); intro H; injection H as _ <-; intros x Hx; cbn in Hx;
        repeat (destruct Hx as [<-|Hx]; [exact I|]); contradiction.
    + intro H; injection H as _ <-; intros x [<-|[]]; exact I.
    + intro H; injection H as _ <-; intros x [<-|[]]; exact I.
  - destruct (get_slots _ _); [destruct (slots_pop _ _) as [[? ?]|]|]; intro H; injection H as _ <-; intros x [].
  - destruct (find_stream _ _) as [en|]; [destruct (se_alive en)|]; intro H; injection H as _ <-; intros x [].
Qed.

Definition syn_events_only (e : list devent) : Prop :=
  forall x, In x e -> match x with EvAccepted _ _ | EvSentRst _ _ _ => True | _ => False end.

Lemma all_accepted_syn_events e : all_accepted e -> syn_events_only e.
Proof.
  unfold all_accepted, syn_events_only. rewrite Forall_forall. intros H x Hx. specialize (H _ Hx).
  destruct x; auto.
Qed.

(* the structure of one run_once, with everything the predicates need *)
Lemma run_once_facts s pushes a s' e :
  d_inv s -> dstep s (DoRunOnce pushes a) = (s', e) ->
  (* forwarding *)
  (forall k, In (EvForward k) e -> exists en, In en (d_streams s') /\ se_key en = k /\ se_alive en = true) /\
  (* cached SYNs *)
  (exists n, (n <= length (d_syns s))%nat /\
     (d_syns s' = skipn n (d_syns s) \/ exists y, d_syns s' = skipn n (d_syns s) ++ [y])) /\
  (* resets *)
  count_rst e <= 1 /\ (0 < count_rst e -> Z.of_nat (length (d_syns s)) = 32).
Proof.
  intros Hinv H. cbn [dstep] in H.
  destruct (cleanup_accept_queue s) as [s1 e1] eqn:Ec.
  pose proof Hinv as (I1 & I2 & I3 & I4 & I5).
  assert (Hst : st_inv s) by (split; assumption).
  destruct (cleanup_spec _ _ _ Hst Ec) as ([A1 A2] & Hacc & [B1 B2 B3 B4 B5] & C).
  destruct (cleanup_serves_from_front _ _ _ Ec) as [n0 Hn0].
  destruct (skipn_clip n0 (d_syns s)) as (n & Hn & Hclip). rewrite Hclip in Hn0.
  assert (Hinv1 : d_inv s1) by (unfold d_inv; rewrite B1, B2; repeat split; auto; lia).
  pose proof (push_acceptors_inv pushes s1 Hinv1) as Hinv2.
  assert (Hsyn2 : d_syns (fold_left push_acceptor pushes s1) = d_syns s1).
  { clear. revert s1. induction pushes as [|x r IH]; intro s1; cbn [fold_left]; [reflexivity|].
    rewrite IH. unfold push_acceptor. destruct (_ <? _); reflexivity. }
  set (s2 := fold_left push_acceptor pushes s1) in *.
  assert (Hrst1 : count_rst e1 = 0).
  { unfold count_rst. unfold all_accepted in Hacc. clear - Hacc.
    induction Hacc as [|x l Hx Hl IH]; [reflexivity|]. cbn [filter]. destruct x; try contradiction. exact IH. }
  assert (Hnofwd1 : forall k, ~ In (EvForward k) e1).
  { intros k Hin. unfold all_accepted in Hacc. rewrite Forall_forall in Hacc. exact (Hacc _ Hin). }
  assert (Hcount_app : forall a b, count_rst (a ++ b) = count_rst a + count_rst b).
  { intros a0 b0. unfold count_rst. rewrite filter_app, app_length. lia. }
  assert (Hquiet : forall s3 e3, d_syns s3 = d_syns s2 -> count_rst e3 = 0 -> (forall k, ~ In (EvForward k) e3) ->
     (s3, e1 ++ e3) = (s', e) ->
     (forall k, In (EvForward k) e -> exists en, In en (d_streams s') /\ se_key en = k /\ se_alive en = true) /\
     (exists n1, (n1 <= length (d_syns s))%nat /\
        (d_syns s' = skipn n1 (d_syns s) \/ exists y, d_syns s' = skipn n1 (d_syns s) ++ [y])) /\
     count_rst e <= 1 /\ (0 < count_rst e -> Z.of_nat (length (d_syns s)) = 32)).
  { intros s3 e3 Hs3 Hr3 Hf3 Heq. injection Heq as <- <-.
    split; [intros k Hin; apply in_app_or in Hin; destruct Hin as [Hin|Hin]; [destruct (Hnofwd1 _ Hin)|destruct (Hf3 _ Hin)]|].
    split; [exists n; split; [exact Hn|left; congruence]|].
    rewrite Hcount_app, Hrst1, Hr3. split; lia. }
  destruct a as [|send|addr om].
  - destruct (d_next_acc s2) eqn:En.
    { apply (Hquiet s2 []); auto. rewrite app_nil_r. exact H. }
    destruct (d_chan s2) as [|x r] eqn:Ech.
    { apply (Hquiet s2 []); auto. rewrite app_nil_r. exact H. }
    apply (Hquiet (upd_acc s2 (Some x) r) []); auto. rewrite app_nil_r. exact H.
  - destruct (d_control s2) as [|c r] eqn:Ectl.
    { apply (Hquiet s2 []); auto. rewrite app_nil_r. exact H. }
    destruct (on_control (upd_control s2 r) c send) as [s3 e3] eqn:Eoc.
    pose proof (on_control_events _ _ _ _ _ Eoc) as Hev.
    apply (Hquiet s3 e3); auto.
    + unfold on_control in Eoc. destruct c as [a0 t0|a0 t0|k1].
      * destruct (streams_full _); [injection Eoc as <- _; reflexivity|].
        destruct (next_random _) as [s4 q] eqn:Er.
        destruct (next_random_same _ _ _ Er) as (_ & _ & R3 & _). dsimpl.
        destruct send; [destruct (slots_insert _ _)| |]; injection Eoc as <- _; dsimpl; congruence.
      * destruct (get_slots _ _); [destruct (slots_pop _ _) as [[? ?]|]|]; injection Eoc as <- _; reflexivity.
      * destruct (find_stream _ _) as [en|]; [destruct (se_alive en)|]; injection Eoc as <- _; reflexivity.
    + unfold count_rst. clear - Hev. induction e3 as [|x l IH]; [reflexivity|]. cbn [filter].
      pose proof (Hev x (or_introl eq_refl)) as Hx. destruct x; try contradiction;
        apply IH; intros y Hy; apply Hev; right; exact Hy.
    + intros k Hin. exact (Hev _ Hin).
  - destruct om as [m|].
    + destruct (on_recv s2 addr m) as [s3 e3] eqn:Er. injection H as <- <-.
      destruct (on_recv_spec _ _ _ _ _ Hinv2 Er) as (_ & _ & Hf & _).
      unfold on_recv in Er.
      set (k := {| k_addr := addr; k_conn := dm_conn m |}) in *.
      destruct (find_stream s2 k) as [en|] eqn:Efind.
      * (* forwarded or dropped: syns untouched, no resets *)
        assert (Hs3 : d_syns s3 = d_syns s2 /\ count_rst e3 = 0).
        { destruct (se_alive en); injection Er as <- <-; split; reflexivity. }
        destruct Hs3 as [Hs3 Hr3].
        split.
        { intros k0 Hin. apply in_app_or in Hin. destruct Hin as [Hin|Hin]; [destruct (Hnofwd1 _ Hin)|].
          destruct (Hf _ Hin) as (-> & en0 & Hfi & Hal & -> & _).
          unfold find_stream in Hfi. apply find_some in Hfi. destruct Hfi as [Hi Hk].
          apply skey_eqb_eq in Hk. exists en0. auto. }
        split; [exists n; split; [exact Hn|left; congruence]|].
        rewrite Hcount_app, Hrst1, Hr3. split; lia.
      * destruct (dm_type m) eqn:Et.
        -- injection Er as <- <-. split; [intros k0 Hin; apply in_app_or in Hin;
             destruct Hin as [Hin|[Hin|[]]]; [destruct (Hnofwd1 _ Hin)|discriminate]|].
           split; [exists n; split; [exact Hn|left; congruence]|].
           rewrite Hcount_app, Hrst1. cbn. split; lia.
        -- injection Er as <- <-. split; [intros k0 Hin; apply in_app_or in Hin;
             destruct Hin as [Hin|[Hin|[]]]; [destruct (Hnofwd1 _ Hin)|discriminate]|].
           split; [exists n; split; [exact Hn|left; congruence]|].
           rewrite Hcount_app, Hrst1. cbn. split; lia.
        -- destruct (on_maybe_connect_ack_spec _ _ _ _ _ Hinv2 Efind Er) as (_ & _ & _ & _ & Hev).
           assert (Hs3 : d_syns s3 = d_syns s2).
           { unfold on_maybe_connect_ack in Er. destruct (streams_full s2); [injection Er as <- _; reflexivity|].
             destruct (get_slots s2 addr); [|injection Er as <- _; reflexivity].
             destruct (slots_pop _ _) as [[c0 sl']|]; [|injection Er as <- _; reflexivity].
             destruct (mem_z _ _); injection Er as <- _; reflexivity. }
           assert (Hr3 : count_rst e3 = 0).
           { unfold count_rst. clear - Hev. induction Hev as [|x l Hx Hl IH]; [reflexivity|].
             cbn [filter]. destruct x; try contradiction; exact IH. }
           split; [intros k0 Hin; apply in_app_or in Hin; destruct Hin as [Hin|Hin];
                   [destruct (Hnofwd1 _ Hin)|rewrite Forall_forall in Hev; destruct (Hev _ Hin)]|].
           split; [exists n; split; [exact Hn|left; congruence]|].
           rewrite Hcount_app, Hrst1, Hr3. split; lia.
        -- injection Er as <- <-. split; [intros k0 Hin; apply in_app_or in Hin;
             destruct Hin as [Hin|[Hin|[]]]; [destruct (Hnofwd1 _ Hin)|discriminate]|].
           split; [exists n; split; [exact Hn|left; congruence]|].
           rewrite Hcount_app, Hrst1. cbn. split; lia.
        -- (* a SYN *)
           assert (Hst2 : st_inv s2) by (destruct Hinv2 as (J1 & J2 & _); split; assumption).
           assert (Hlen2 : Z.of_nat (length (d_syns s2)) <= ACCEPT_QUEUE_MAX_SYNS) by (destruct Hinv2 as (_ & _ & J3 & _); exact J3).
           destruct (on_syn_spec _ _ _ _ Hst2 Hlen2 Er) as (_ & _ & _ & D & _).
           assert (Hacc_rst : forall e0, all_accepted e0 -> count_rst e0 = 0 /\ forall k0, ~ In (EvForward k0) e0).
           { intros e0 He0. split.
             - unfold count_rst. induction He0 as [|x l Hx Hl IH]; [reflexivity|]. cbn [filter].
               destruct x; try contradiction; exact IH.
             - intros k0 Hin. unfold all_accepted in He0. rewrite Forall_forall in He0. exact (He0 _ Hin). }
           destruct D as [[Hacc3 Hs3]|(e0 & Hacc0 & -> & Hs3 & Hfull)].
           ++ destruct (Hacc_rst _ Hacc3) as [Hr3 Hf3].
              split; [intros k0 Hin; apply in_app_or in Hin; destruct Hin as [Hin|Hin];
                      [destruct (Hnofwd1 _ Hin)|destruct (Hf3 _ Hin)]|].
              split.
              { exists n. split; [exact Hn|]. destruct Hs3 as [Hs3|Hs3]; [left; congruence|].
                right. exists {| sy_addr := addr; sy_conn := dm_conn m; sy_seq := dm_seq m |}. congruence. }
              rewrite Hcount_app, Hrst1, Hr3. split; lia.
           ++ destruct (Hacc_rst _ Hacc0) as [Hr0 Hf0].
              split; [intros k0 Hin; apply in_app_or in Hin; destruct Hin as [Hin|Hin];
                      [destruct (Hnofwd1 _ Hin)|apply in_app_or in Hin; destruct Hin as [Hin|[Hin|[]]];
                       [destruct (Hf0 _ Hin)|discriminate]]|].
              split; [exists n; split; [exact Hn|left; congruence]|].
              rewrite !Hcount_app, Hrst1, Hr0. cbn. split; [lia|]. intros _.
              (* the backlog was full after cleanup, cleanup only shrinks it, and it is bounded *)
              rewrite Hsyn2 in Hfull. unfold ACCEPT_QUEUE_MAX_SYNS in *. lia.
    + injection H as <- <-.
      split; [intros k0 Hin; apply in_app_or in Hin; destruct Hin as [Hin|[Hin|[]]];
              [destruct (Hnofwd1 _ Hin)|discriminate]|].
      split; [exists n; split; [exact Hn|left; congruence]|].
      rewrite Hcount_app, Hrst1. cbn. split; lia.
Qed.

(* ---- the other tasks' steps emit nothing and leave the SYN queue alone ---- *)
Lemma other_steps_quiet s o s' e :
  (forall pushes a, o <> DoRunOnce pushes a) -> dstep s o = (s', e) -> e = [] /\ d_syns s' = d_syns s.
Proof.
  intros Hne H. destruct o as [pushes a|id|id|id|addr token|addr token|addr token|k]; cbn [dstep] in H.
  - exfalso. exact (Hne pushes a eq_refl).
  - injection H as <- <-. split; [reflexivity|]. unfold push_acceptor. destruct (_ <? _); reflexivity.
  - destruct (find _ _) as [[x [k sid]]|]; injection H as <- <-; auto.
  - injection H as <- <-. auto.
  - injection H as <- <-. auto.
  - injection H as <- <-. auto.
  - injection H as <- <-. split; [reflexivity|]. destruct (existsb _ _); reflexivity.
  - injection H as <- <-. auto.
Qed.

Ltac quiet H Hs :=
  let Hq := fresh "Hq" in
  pose proof (fun Hne => other_steps_quiet _ _ _ _ Hne H) as Hq;
  destruct Hq as [-> Hs]; [intros ? ? Heq; discriminate Heq|].

Lemma c12_step_ok_model s o s' e :
  d_inv s -> dstep s o = (s', e) -> c12_step_ok (d_max_streams s) (dstep_obs_of s e s') = true.
Proof.
  intros Hinv H. destruct (dstep_inv _ _ _ _ Hinv H) as [(J1 & J2 & _) Hmax].
  unfold c12_step_ok, dstep_obs_of; cbn [so_pre so_post so_fwd].
  rewrite keys_obs, (nodupb_true _ J1). cbn [andb].
  unfold dobs_of at 1; cbn [ob_streams]. rewrite map_length.
  replace (Z.of_nat (length (d_streams s')) <=? Z.max 0 (d_max_streams s)) with true by (rewrite <- Hmax; lia).
  cbn [andb]. apply andb_true_iff. split.
  - apply forallb_forall. intros k Hk. unfold fwd_keys in Hk. apply in_flat_map in Hk.
    destruct Hk as (ev & Hev & Hk). destruct ev; try contradiction. destruct Hk as [<-|[]].
    assert (Hex : exists en, In en (d_streams s') /\ se_key en = k0 /\ se_alive en = true).
    { destruct o as [pushes a|id|id|id|addr token|addr token|addr token|k1].
      - destruct (run_once_facts _ _ _ _ _ Hinv H) as (Hf & _). exact (Hf _ Hev).
      - quiet H Hs. contradiction.
      - quiet H Hs. contradiction.
      - quiet H Hs. contradiction.
      - quiet H Hs. contradiction.
      - quiet H Hs. contradiction.
      - quiet H Hs. contradiction.
      - quiet H Hs. contradiction. }
    destruct Hex as (en & Hin & Hk & Ha). apply existsb_exists.
    exists (se_key en, se_alive en). split.
    + unfold dobs_of; cbn [ob_streams]. apply in_map_iff. exists en. auto.
    + cbn [fst snd]. rewrite Hk, Ha, skey_eqb_refl. reflexivity.
  - apply forallb_forall. intros [k al] Hp. cbn [fst snd]. destruct al; [|reflexivity].
    unfold dobs_of in Hp; cbn [ob_streams] in Hp. apply in_map_iff in Hp.
    destruct Hp as (en & Heq & Hin). injection Heq as Hk Ha.
    destruct (live_never_evicted _ _ _ _ _ Hinv H Hin Ha) as (en' & Hin' & Hk' & _).
    apply existsb_exists. exists (se_key en', se_alive en'). split.
    + unfold dobs_of; cbn [ob_streams]. apply in_map_iff. exists en'. auto.
    + cbn [fst]. rewrite Hk', Hk. apply skey_eqb_refl.
Qed.

Lemma c13_step_ok_model s o s' e :
  d_inv s -> dstep s o = (s', e) -> c13_step_ok (dstep_obs_of s e s') = true.
Proof.
  intros Hinv H. destruct (dstep_inv _ _ _ _ Hinv H) as [(_ & _ & J3 & J4 & _) _].
  unfold c13_step_ok, dstep_obs_of; cbn [so_pre so_post so_rsts].
  unfold dobs_of; cbn [ob_syns ob_ch].
  unfold ACCEPT_QUEUE_MAX_SYNS, ACCEPT_QUEUE_MAX_ACCEPTORS in *.
  replace (Z.of_nat (length (d_syns s')) <=? 32) with true by lia.
  replace (Z.of_nat (length (d_chan s')) <=? 32) with true by lia. cbn [andb].
  assert (Hfacts : count_rst e <= 1 /\ (0 < count_rst e -> Z.of_nat (length (d_syns s)) = 32) /\
     exists n, (n <= length (d_syns s))%nat /\
       (d_syns s' = skipn n (d_syns s) \/ exists y, d_syns s' = skipn n (d_syns s) ++ [y])).
  { destruct o as [pushes a|id|id|id|addr token|addr token|addr token|k1].
    - destruct (run_once_facts _ _ _ _ _ Hinv H) as (_ & B & C & D). auto.
    - quiet H Hs. cbn. split; [lia|]. split; [lia|].
      exists 0%nat. split; [lia|left; exact Hs].
    - quiet H Hs. cbn. split; [lia|]. split; [lia|].
      exists 0%nat. split; [lia|left; exact Hs].
    - quiet H Hs. cbn. split; [lia|]. split; [lia|].
      exists 0%nat. split; [lia|left; exact Hs].
    - quiet H Hs. cbn. split; [lia|]. split; [lia|].
      exists 0%nat. split; [lia|left; exact Hs].
    - quiet H Hs. cbn. split; [lia|]. split; [lia|].
      exists 0%nat. split; [lia|left; exact Hs].
    - quiet H Hs. cbn. split; [lia|]. split; [lia|].
      exists 0%nat. split; [lia|left; exact Hs].
    - quiet H Hs. cbn. split; [lia|]. split; [lia|].
      exists 0%nat. split; [lia|left; exact Hs]. }
  destruct Hfacts as (Hr1 & Hr2 & n & Hn & Hs).
  replace (count_rst e <=? 1) with true by lia. cbn [andb].
  apply andb_true_iff. split.
  - destruct (Z.ltb_spec 0 (count_rst e)); [|reflexivity]. apply Z.eqb_eq. auto.
  - destruct Hs as [->|[y ->]]; [apply suffix_plus_same|apply suffix_plus_app]; exact Hn.
Qed.

(* trace level: every step of every run from a fresh dispatcher *)
Fixpoint dobs_trace (s : dstate) (ops : list dop) : list dstep_obs :=
  match ops with
  | [] => []
  | o :: r => let '(s', e) := dstep s o in dstep_obs_of s e s' :: dobs_trace s' r
  end.

Lemma model_trace_c12_c13_ok max_streams : forall ops s,
  d_inv s -> d_max_streams s = max_streams ->
  forallb (c12_step_ok max_streams) (dobs_trace s ops) = true /\
  forallb c13_step_ok (dobs_trace s ops) = true.
Proof.
  induction ops as [|o r IH]; intros s Hinv Hmax; cbn [dobs_trace forallb]; [auto|].
  destruct (dstep s o) as [s1 e] eqn:E. cbn [forallb].
  destruct (dstep_inv _ _ _ _ Hinv E) as [Hinv1 Hmax1].
  destruct (IH s1 Hinv1 ltac:(congruence)) as [A B].
  rewrite <- Hmax at 1. rewrite (c12_step_ok_model _ _ _ _ Hinv E), (c13_step_ok_model _ _ _ _ Hinv E), A, B. auto.
Qed.

Lemma model_trace_ok max_streams random ops :
  forallb (c12_step_ok max_streams) (dobs_trace (dstate_new max_streams random) ops) = true /\
  forallb c13_step_ok (dobs_trace (dstate_new max_streams random) ops) = true.
Proof.
  apply (model_trace_c12_c13_ok max_streams); [apply new_inv|].
  unfold dstate_new. destruct random; reflexivity.
Qed.

(* The per-address connecting slots (ConnectingPerAddr) seen through `slots_of`: the four slots of
   an address, an absent HashMap entry being four empty slots.  Exact effect of insert / pop /
   pop_by_token and of the control messages on them.  Proofs only (shared by DispPending_Proofs,
   DispWiring_Proofs, DispRelease_Proofs). *)
From Utp Require Import Base.Prelude Wire.SeqNr Wire.Header Sock.Dispatcher Sock.Dispatcher_Proofs
  Sock.DispObs Sock.DispObs_Proofs Sock.DispFresh_Proofs.

(* ------------------------------------------------------------------ the slots of an address *)
Definition slots_of (s : dstate) (addr : Z) : list (option connecting) :=
  match get_slots s addr with Some x => x | None => empty_slots end.

(* the pending connects of an address, in slot order *)
Definition somes (l : list (option connecting)) : list connecting :=
  flat_map (fun x => match x with Some c => [c] | None => [] end) l.

Definition pending (s : dstate) (addr : Z) : list connecting := somes (slots_of s addr).

Lemma somes_app a b : somes (a ++ b) = somes a ++ somes b.
Proof. unfold somes. apply flat_map_app. Qed.

Lemma somes_length_le l : (length (somes l) <= length l)%nat.
Proof. induction l as [|[c|] r IH]; cbn [somes flat_map app length] in *; unfold somes in *; lia. Qed.

Lemma somes_all_some l : length (somes l) = length l -> Forall (fun x => x <> None) l.
Proof.
  induction l as [|[c|] r IH]; intro H; [constructor| |].
  - constructor; [discriminate|]. apply IH. cbn [somes flat_map app length] in H. unfold somes. lia.
  - exfalso. pose proof (somes_length_le r). cbn [somes flat_map app length] in H. unfold somes in *. lia.
Qed.

(* ---- insert ---- *)
Lemma slots_insert_some l c l' : slots_insert l c = Some l' ->
  exists l1 l2, l = l1 ++ None :: l2 /\ l' = l1 ++ Some c :: l2 /\ Forall (fun x => x <> None) l1.
Proof.
  revert l'. induction l as [|x r IH]; intros l'; cbn [slots_insert]; [discriminate|].
  destruct x as [x|].
  - destruct (slots_insert r c) as [r'|] eqn:E; [|discriminate]. intro H; injection H as <-.
    destruct (IH _ eq_refl) as (l1 & l2 & -> & -> & Hall).
    exists (Some x :: l1), l2. split; [reflexivity|]. split; [reflexivity|]. constructor; [discriminate|exact Hall].
  - intro H; injection H as <-. exists [], r. split; [reflexivity|]. split; [reflexivity|constructor].
Qed.

Lemma slots_insert_none l c : slots_insert l c = None <-> Forall (fun x => x <> None) l.
Proof.
  induction l as [|x r IH]; cbn [slots_insert].
  - split; [constructor|reflexivity].
  - destruct x as [x|].
    + destruct (slots_insert r c) eqn:E.
      * split; [discriminate|]. intro H. inversion H; subst. apply IH in H3. discriminate.
      * split; [|reflexivity]. intros _. constructor; [discriminate|]. apply IH. reflexivity.
    + split; [discriminate|]. intro H. inversion H; subst. congruence.
Qed.

Lemma all_some_somes_length l : Forall (fun x => x <> None) l -> length (somes l) = length l.
Proof.
  induction 1 as [|x r Hx Hr IH]; [reflexivity|]. destruct x as [c|]; [|congruence].
  cbn [somes flat_map app length]. unfold somes in IH. rewrite IH. reflexivity.
Qed.

(* a free slot exists iff fewer connects are pending than there are slots *)
Lemma slots_insert_succeeds l c : (length (somes l) < length l)%nat -> exists l', slots_insert l c = Some l'.
Proof.
  intro H. destruct (slots_insert l c) as [l'|] eqn:E; [eauto|]. exfalso.
  apply slots_insert_none in E. apply all_some_somes_length in E. lia.
Qed.

Lemma slots_insert_fails l c : slots_insert l c = None -> length (somes l) = length l.
Proof. intro E. apply slots_insert_none in E. apply all_some_somes_length. exact E. Qed.

Lemma slots_insert_somes l c l' : slots_insert l c = Some l' ->
  length (somes l') = S (length (somes l)) /\ (forall x, In x (somes l') <-> x = c \/ In x (somes l)).
Proof.
  intro H. destruct (slots_insert_some _ _ _ H) as (l1 & l2 & -> & -> & _).
  rewrite !somes_app. cbn [somes flat_map app]. fold (somes l2). rewrite !app_length. cbn [length].
  split; [lia|]. intro x. rewrite !in_app_iff. cbn [In]. intuition.
Qed.

(* ---- pop ---- *)
Lemma slots_pop_some p l c l' : slots_pop p l = Some (c, l') ->
  exists l1 l2, l = l1 ++ Some c :: l2 /\ l' = l1 ++ None :: l2 /\ p c = true /\
                forall x, In x (somes l1) -> p x = false.
Proof.
  revert c l'. induction l as [|x r IH]; intros c l'; cbn [slots_pop]; [discriminate|].
  destruct x as [x|].
  - destruct (p x) eqn:Ep.
    + intro H; injection H as <- <-. exists [], r. repeat split; auto. intros y [].
    + destruct (slots_pop p r) as [[c0 r']|] eqn:E; [|discriminate]. intro H; injection H as <- <-.
      destruct (IH _ _ eq_refl) as (l1 & l2 & -> & -> & Hp & Hno).
      exists (Some x :: l1), l2. repeat split; auto.
      intros y Hy. cbn [somes flat_map app In] in Hy. destruct Hy as [<-|Hy]; [exact Ep|apply Hno; exact Hy].
  - destruct (slots_pop p r) as [[c0 r']|] eqn:E; [|discriminate]. intro H; injection H as <- <-.
    destruct (IH _ _ eq_refl) as (l1 & l2 & -> & -> & Hp & Hno).
    exists (None :: l1), l2. repeat split; auto.
Qed.

Lemma slots_pop_none p l : slots_pop p l = None <-> forall x, In x (somes l) -> p x = false.
Proof.
  induction l as [|x r IH]; cbn [slots_pop].
  - split; [intros _ y []|reflexivity].
  - destruct x as [x|].
    + destruct (p x) eqn:Ep.
      * split; [discriminate|]. intro H. rewrite (H x) in Ep; [discriminate|]. left; reflexivity.
      * destruct (slots_pop p r) as [[c0 r']|] eqn:E.
        -- split; [discriminate|]. intro H. assert (Hn : Some (c0, r') = None); [|discriminate].
           apply IH. intros y Hy. apply H. right. exact Hy.
        -- split; [|reflexivity]. intros _ y Hy. cbn [somes flat_map app In] in Hy.
           destruct Hy as [<-|Hy]; [exact Ep|]. apply (proj1 IH eq_refl). exact Hy.
    + destruct (slots_pop p r) as [[c0 r']|] eqn:E.
      * split; [discriminate|]. intro H. assert (Hn : Some (c0, r') = None); [|discriminate].
        apply IH. exact H.
      * split; [|reflexivity]. intros _. apply (proj1 IH eq_refl).
Qed.

Lemma slots_pop_somes p l c l' : slots_pop p l = Some (c, l') ->
  exists m1 m2, somes l = m1 ++ c :: m2 /\ somes l' = m1 ++ m2 /\ p c = true /\
                (forall x, In x m1 -> p x = false) /\ S (length (somes l')) = length (somes l).
Proof.
  intro H. destruct (slots_pop_some _ _ _ _ H) as (l1 & l2 & -> & -> & Hp & Hno).
  exists (somes l1), (somes l2). rewrite !somes_app. cbn [somes flat_map app]. fold (somes l2).
  repeat split; auto. rewrite !app_length. cbn [length]. lia.
Qed.

(* ---- an entry with no pending connect is the same as no entry ---- *)
Lemma slots_empty_somes l : slots_empty l = true <-> somes l = [].
Proof.
  unfold slots_empty. induction l as [|[c|] r IH]; cbn [forallb somes flat_map app].
  - tauto.
  - split; discriminate.
  - exact IH.
Qed.

Lemma slots_empty_is_empty l : slots_empty l = true -> length l = MAX_CONNECTING_PER_ADDR -> l = empty_slots.
Proof.
  unfold empty_slots. intros He <-. unfold slots_empty in He.
  induction l as [|x r IH]; [reflexivity|]. cbn [forallb] in He. apply andb_true_iff in He.
  destruct He as [Hx Hr]. destruct x; [discriminate|]. cbn [length repeat]. f_equal. apply IH. exact Hr.
Qed.

Lemma somes_empty_slots : somes empty_slots = [].
Proof. reflexivity. Qed.

(* ---- the map ---- *)
Lemma get_slots_set_same l0 s addr sl : d_connecting s = set_slots l0 addr sl -> get_slots s addr = sl.
Proof.
  intro H. unfold get_slots. rewrite H. unfold set_slots.
  assert (Hnone : find (fun p => fst p =? addr) (filter (fun p => negb (fst p =? addr)) l0) = None).
  { clear. induction l0 as [|x r IH]; [reflexivity|]. cbn [filter]. destruct (fst x =? addr) eqn:E; cbn [negb]; [exact IH|].
    cbn [find]. rewrite E. exact IH. }
  destruct sl as [x|]; [|rewrite Hnone; reflexivity].
  assert (Hf : forall l1, find (fun p : Z * list (option connecting) => fst p =? addr) l1 = None ->
     find (fun p => fst p =? addr) (l1 ++ [(addr, x)]) = Some (addr, x)).
  { induction l1 as [|y r IH]; cbn [find app fst]; [rewrite Z.eqb_refl; reflexivity|].
    destruct (fst y =? addr); [discriminate|]. exact IH. }
  rewrite (Hf _ Hnone). reflexivity.
Qed.

Lemma get_slots_set_other l0 s s0 addr sl a : d_connecting s = set_slots l0 addr sl -> d_connecting s0 = l0 ->
  a <> addr -> get_slots s a = get_slots s0 a.
Proof.
  intros H H0 Hne. unfold get_slots. rewrite H, H0. unfold set_slots.
  assert (Hfil : find (fun p : Z * list (option connecting) => fst p =? a) (filter (fun p => negb (fst p =? addr)) l0)
                 = find (fun p => fst p =? a) l0).
  { clear - Hne. induction l0 as [|x r IH]; [reflexivity|]. cbn [filter find].
    destruct (fst x =? addr) eqn:E; cbn [negb].
    - apply Z.eqb_eq in E. destruct (Z.eqb_spec (fst x) a); [congruence|exact IH].
    - cbn [find]. destruct (fst x =? a); [reflexivity|exact IH]. }
  destruct sl as [x|]; [|rewrite Hfil; reflexivity].
  assert (Happ : forall l1, find (fun p : Z * list (option connecting) => fst p =? a) (l1 ++ [(addr, x)])
                            = find (fun p => fst p =? a) l1).
  { induction l1 as [|y r IH]; cbn [find app fst].
    - destruct (Z.eqb_spec addr a); [congruence|reflexivity].
    - destruct (fst y =? a); [reflexivity|exact IH]. }
  rewrite Happ, Hfil. reflexivity.
Qed.

Lemma slots_of_same_connecting s s' addr : d_connecting s' = d_connecting s -> slots_of s' addr = slots_of s addr.
Proof. intro H. unfold slots_of, get_slots. rewrite H. reflexivity. Qed.

Lemma slots_of_length s addr : d_inv s -> length (slots_of s addr) = MAX_CONNECTING_PER_ADDR.
Proof.
  intros (_ & _ & _ & _ & I5). unfold slots_of. destruct (get_slots s addr) eqn:E; [|reflexivity].
  eapply get_slots_length; eauto.
Qed.

Lemma pending_le_4 s addr : d_inv s -> (length (pending s addr) <= 4)%nat.
Proof.
  intro Hinv. unfold pending. pose proof (somes_length_le (slots_of s addr)) as H.
  rewrite (slots_of_length s addr Hinv) in H. exact H.
Qed.

(* writing back the slots of an address: an all-empty entry is removed, which is the same thing *)
Lemma slots_of_write s0 s addr sl' :
  length sl' = MAX_CONNECTING_PER_ADDR ->
  d_connecting s = set_slots (d_connecting s0) addr (if slots_empty sl' then None else Some sl') ->
  slots_of s addr = sl' /\ forall a, a <> addr -> slots_of s a = slots_of s0 a.
Proof.
  intros Hl H. split.
  - unfold slots_of. rewrite (get_slots_set_same _ _ _ _ H).
    destruct (slots_empty sl') eqn:E; [|reflexivity]. symmetry. apply slots_empty_is_empty; assumption.
  - intros a Hne. unfold slots_of. rewrite (get_slots_set_other _ _ s0 _ _ _ H eq_refl Hne). reflexivity.
Qed.

Lemma slots_of_write_some s0 s addr sl' :
  d_connecting s = set_slots (d_connecting s0) addr (Some sl') ->
  slots_of s addr = sl' /\ forall a, a <> addr -> slots_of s a = slots_of s0 a.
Proof.
  intros H. split.
  - unfold slots_of. rewrite (get_slots_set_same _ _ _ _ H). reflexivity.
  - intros a Hne. unfold slots_of. rewrite (get_slots_set_other _ _ s0 _ _ _ H eq_refl Hne). reflexivity.
Qed.

(* ------------------------------------------------------------------ the control messages, exactly *)
Definition peek_random (s : dstate) : Z := match d_random s with [] => 0 | x :: _ => x end.

(* the fields a control message about connects never touches *)
Definition ctl_frame (s s' : dstate) : Prop :=
  d_streams s' = d_streams s /\ d_syns s' = d_syns s /\ d_next_acc s' = d_next_acc s /\
  d_chan s' = d_chan s /\ d_control s' = d_control s /\ d_max_streams s' = d_max_streams s /\
  d_dead_acceptors s' = d_dead_acceptors s /\ d_handed s' = d_handed s /\
  d_next_sid s' = d_next_sid s /\ d_dead_connectors s' = d_dead_connectors s.

Lemma ctl_frame_refl s : ctl_frame s s.
Proof. unfold ctl_frame. repeat split. Qed.

Lemma slots_pop_empty p : slots_pop p empty_slots = None.
Proof. reflexivity. Qed.

Lemma next_random_peek s s' x : next_random s = (s', x) ->
  x = peek_random s /\ d_connecting s' = d_connecting s /\ d_results s' = d_results s /\
  d_next_conn_id s' = d_next_conn_id s /\ ctl_frame s s'.
Proof.
  unfold next_random, peek_random, ctl_frame.
  destruct (d_random s); intro H; injection H as <- <-; dsimpl; repeat split.
Qed.

Lemma on_control_connect_spec s addr token send s' e :
  d_inv s -> on_control s (CtlConnect addr token) send = (s', e) ->
  let cid := next_free_conn_id (S (length (d_streams s))) s addr (d_next_conn_id s) in
  let q := peek_random s in
  ctl_frame s s' /\
  if streams_full s then
    e = [EvConnectErr token] /\ d_results s' = d_results s ++ [(token, CrTooMany)] /\
    d_connecting s' = d_connecting s /\ d_next_conn_id s' = d_next_conn_id s
  else
    match send with
    | SynShort =>
        e = [EvConnectErr token] /\ d_results s' = d_results s ++ [(token, CrDead)] /\
        d_connecting s' = d_connecting s /\ d_next_conn_id s' = cid
    | SynErr =>
        e = [EvConnectErr token] /\ d_results s' = d_results s ++ [(token, CrSynErr)] /\
        d_connecting s' = d_connecting s /\ d_next_conn_id s' = cid
    | SynSent =>
        (forall a, a <> addr -> slots_of s' a = slots_of s a) /\
        if (length (pending s addr) <? 4)%nat then
          (* a slot is reserved: the request is not refused *)
          e = [EvSentSyn addr cid q] /\ d_results s' = d_results s /\ d_next_conn_id s' = wadd16 cid 2 /\
          exists l1 l2, slots_of s addr = l1 ++ None :: l2 /\
                        slots_of s' addr = l1 ++ Some {| cn_token := token; cn_seq := q |} :: l2 /\
                        Forall (fun x => x <> None) l1
        else
          (* all four slots of this address are taken *)
          e = [EvSentSyn addr cid q; EvConnectErr token] /\ d_results s' = d_results s ++ [(token, CrDead)] /\
          d_next_conn_id s' = cid /\ slots_of s' addr = slots_of s addr
    end.
Proof.
  intros Hinv. cbv zeta. unfold on_control.
  destruct (streams_full s) eqn:Ef.
  { intro H; injection H as <- <-. unfold ctl_frame; dsimpl. repeat split. }
  set (cid := next_free_conn_id _ s addr (d_next_conn_id s)).
  destruct (next_random (upd_conn_id s cid)) as [s2 q0] eqn:Er.
  destruct (next_random_peek _ _ _ Er) as (-> & R1 & R2 & R3 & R4).
  change (peek_random (upd_conn_id s cid)) with (peek_random s).
  assert (F : ctl_frame s s2) by (unfold ctl_frame in *; dsimpl; exact R4).
  dsimpl. clear R4.
  destruct send.
  - assert (Hsl : match get_slots s2 addr with Some x => x | None => empty_slots end = slots_of s addr).
    { unfold slots_of, get_slots. rewrite R1. reflexivity. }
    rewrite Hsl.
    pose proof (slots_of_length s addr Hinv) as Hl4. unfold MAX_CONNECTING_PER_ADDR in Hl4.
    destruct (slots_insert (slots_of s addr) _) as [sl'|] eqn:Ei; intro H; injection H as Hs He; subst e.
    + assert (Hc : d_connecting s' = set_slots (d_connecting s2) addr (Some sl')) by (rewrite <- Hs; reflexivity).
      destruct (slots_of_write_some s2 s' addr sl' Hc) as [W1 W2].
      split; [unfold ctl_frame in *; rewrite <- Hs; dsimpl; exact F|].
      split.
      { intros a Ha. rewrite (W2 a Ha). apply slots_of_same_connecting. exact R1. }
      destruct (slots_insert_somes _ _ _ Ei) as [Hlen _].
      pose proof (somes_length_le sl') as Hle. rewrite (slots_insert_length _ _ _ Ei), Hl4 in Hle.
      unfold pending.
      destruct (Nat.ltb_spec (length (somes (slots_of s addr))) 4) as [Hlt|Hge]; [|lia].
      split; [reflexivity|]. split; [rewrite <- Hs; dsimpl; exact R2|]. split; [rewrite <- Hs; reflexivity|].
      destruct (slots_insert_some _ _ _ Ei) as (l1 & l2 & E1 & E2 & Hall).
      exists l1, l2. rewrite W1. auto.
    + assert (Hc : d_connecting s' = set_slots (d_connecting s2) addr (Some (slots_of s addr))) by (rewrite <- Hs; reflexivity).
      destruct (slots_of_write_some s2 s' addr _ Hc) as [W1 W2].
      split; [unfold ctl_frame in *; rewrite <- Hs; dsimpl; exact F|].
      split.
      { intros a Ha. rewrite (W2 a Ha). apply slots_of_same_connecting. exact R1. }
      pose proof (slots_insert_fails _ _ Ei) as Hfull. rewrite Hl4 in Hfull.
      unfold pending. rewrite Hfull. cbn [Nat.ltb Nat.leb].
      split; [reflexivity|]. split; [rewrite <- Hs; dsimpl; rewrite R2; reflexivity|].
      split; [rewrite <- Hs; dsimpl; exact R3|exact W1].
  - intro H; injection H as <- <-. split; [unfold ctl_frame in *; dsimpl; exact F|]. dsimpl.
    split; [reflexivity|]. split; [rewrite R2; reflexivity|]. split; [exact R1|exact R3].
  - intro H; injection H as <- <-. split; [unfold ctl_frame in *; dsimpl; exact F|]. dsimpl.
    split; [reflexivity|]. split; [rewrite R2; reflexivity|]. split; [exact R1|exact R3].
Qed.

(* ConnectDropped: the first slot of the address holding this token is released; nothing else moves *)
Lemma on_control_dropped_spec s addr token send s' e :
  d_inv s -> on_control s (CtlConnectDropped addr token) send = (s', e) ->
  e = [] /\ ctl_frame s s' /\ d_results s' = d_results s /\ d_next_conn_id s' = d_next_conn_id s /\
  d_random s' = d_random s /\
  (forall a, a <> addr -> slots_of s' a = slots_of s a) /\
  match slots_pop (fun c => cn_token c =? token) (slots_of s addr) with
  | Some (_, sl') => slots_of s' addr = sl'
  | None => s' = s
  end.
Proof.
  intros Hinv. pose proof Hinv as (_ & _ & _ & _ & I5). unfold on_control.
  destruct (get_slots s addr) as [sl|] eqn:Eg.
  - pose proof (get_slots_length s addr sl I5 Eg) as Hl.
    assert (Hso : slots_of s addr = sl) by (unfold slots_of; rewrite Eg; reflexivity). rewrite Hso.
    destruct (slots_pop _ sl) as [[c0 sl']|] eqn:Ep; intro H; injection H as Hs <-.
    + pose proof (slots_pop_length _ _ _ _ Ep) as Hl'. rewrite Hl in Hl'.
      assert (Hc : d_connecting s' = set_slots (d_connecting s) addr (if slots_empty sl' then None else Some sl'))
        by (rewrite <- Hs; reflexivity).
      destruct (slots_of_write s s' addr sl' Hl' Hc) as [W1 W2].
      split; [reflexivity|]. split; [unfold ctl_frame; rewrite <- Hs; dsimpl; repeat split|].
      split; [rewrite <- Hs; reflexivity|]. split; [rewrite <- Hs; reflexivity|].
      split; [rewrite <- Hs; reflexivity|]. split; [exact W2|exact W1].
    + subst s'. split; [reflexivity|]. split; [apply ctl_frame_refl|]. repeat split.
  - assert (Hso : slots_of s addr = empty_slots) by (unfold slots_of; rewrite Eg; reflexivity).
    rewrite Hso, slots_pop_empty. intro H; injection H as <- <-.
    split; [reflexivity|]. split; [apply ctl_frame_refl|]. repeat split.
Qed.

(* the SYN-ACK of one of our connects *)
Lemma on_maybe_connect_ack_slots s addr m s' e :
  d_inv s -> find_stream s {| k_addr := addr; k_conn := dm_conn m |} = None ->
  on_maybe_connect_ack s addr m = (s', e) ->
  let k := {| k_addr := addr; k_conn := dm_conn m |} in
  if streams_full s then s' = s /\ e = [EvDropped]
  else
    match slots_pop (fun c => cn_seq c =? dm_ack m) (slots_of s addr) with
    | None => s' = s /\ e = [EvDropped]
    | Some (c, sl') =>
        slots_of s' addr = sl' /\ (forall a, a <> addr -> slots_of s' a = slots_of s a) /\
        d_next_conn_id s' = d_next_conn_id s /\ d_control s' = d_control s /\
        d_syns s' = d_syns s /\ d_chan s' = d_chan s /\ d_next_acc s' = d_next_acc s /\
        d_dead_connectors s' = d_dead_connectors s /\ d_handed s' = d_handed s /\
        if mem_z (cn_token c) (d_dead_connectors s)
        then e = [EvDropped] /\ d_streams s' = d_streams s /\ d_results s' = d_results s
        else e = [EvConnected (cn_token c) k] /\
             d_streams s' = d_streams s ++ [{| se_key := k; se_alive := true; se_id := d_next_sid s |}] /\
             d_results s' = d_results s ++ [(cn_token c, CrOk k)]
    end.
Proof.
  intros Hinv Hnone. pose proof Hinv as (_ & _ & _ & _ & I5). cbv zeta.
  unfold on_maybe_connect_ack.
  set (k := {| k_addr := addr; k_conn := dm_conn m |}) in *.
  destruct (streams_full s); [intro H; injection H as <- <-; auto|].
  destruct (get_slots s addr) as [sl|] eqn:Eg.
  2:{ assert (Hso : slots_of s addr = empty_slots) by (unfold slots_of; rewrite Eg; reflexivity).
      rewrite Hso, slots_pop_empty. intro H; injection H as <- <-; auto. }
  assert (Hso : slots_of s addr = sl) by (unfold slots_of; rewrite Eg; reflexivity). rewrite Hso.
  pose proof (get_slots_length s addr sl I5 Eg) as Hl.
  destruct (slots_pop _ sl) as [[c sl']|] eqn:Ep; [|intro H; injection H as <- <-; auto].
  pose proof (slots_pop_length _ _ _ _ Ep) as Hl'. rewrite Hl in Hl'.
  pose proof (find_none_not_in _ _ Hnone) as Hnotin. fold k in Hnotin.
  assert (Hins : insert_stream (d_streams s) k (d_next_sid s)
                 = d_streams s ++ [{| se_key := k; se_alive := true; se_id := d_next_sid s |}]).
  { unfold insert_stream. rewrite (remove_absent _ _ Hnotin). reflexivity. }
  dsimpl. rewrite Hins.
  destruct (mem_z (cn_token c) (d_dead_connectors s)) eqn:Em; intro H; injection H as Hs <-.
  - assert (Hc : d_connecting s' = set_slots (d_connecting s) addr (if slots_empty sl' then None else Some sl'))
      by (rewrite <- Hs; reflexivity).
    destruct (slots_of_write s s' addr sl' Hl' Hc) as [W1 W2].
    split; [exact W1|]. split; [exact W2|]. rewrite <- Hs. dsimpl. repeat (split; [reflexivity|]).
    split; [|reflexivity].
    unfold remove_stream. rewrite filter_app. cbn [filter se_key]. rewrite skey_eqb_refl. cbn [negb].
    rewrite app_nil_r. apply (remove_absent _ _ Hnotin).
  - assert (Hc : d_connecting s' = set_slots (d_connecting s) addr (if slots_empty sl' then None else Some sl'))
      by (rewrite <- Hs; reflexivity).
    destruct (slots_of_write s s' addr sl' Hl' Hc) as [W1 W2].
    split; [exact W1|]. split; [exact W2|]. rewrite <- Hs. dsimpl. repeat (split; [reflexivity|]). repeat split.
Qed.

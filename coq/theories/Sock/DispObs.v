(* What one step of the dispatcher-level correspondence shows, and C12 / C13 as boolean
   predicates over it (evaluated on the implementation's observations, proved of the model in
   DispObs_Proofs.v).  Model only. *)
From Utp Require Import Base.Prelude Wire.SeqNr Wire.Header Sock.Dispatcher.

Record dobs := {
  ob_streams : list (skey * bool);     (* key, inbox alive *)
  ob_syns : list syn;
  ob_na : bool;
  ob_ch : Z;
  ob_ct : Z;
}.

Definition dobs_of (s : dstate) : dobs :=
  {| ob_streams := map (fun e => (se_key e, se_alive e)) (d_streams s);
     ob_syns := d_syns s;
     ob_na := match d_next_acc s with Some _ => true | None => false end;
     ob_ch := Z.of_nat (length (d_chan s));
     ob_ct := Z.of_nat (length (d_control s)) |}.

Record dstep_obs := {
  so_pre : dobs;
  so_rsts : Z;                 (* number of ST_RESET datagrams sent in this step *)
  so_fwd : list skey;          (* keys datagrams were forwarded to *)
  so_post : dobs;
}.

Definition count_rst (e : list devent) : Z :=
  Z.of_nat (length (filter (fun x => match x with EvSentRst _ _ _ => true | _ => false end) e)).
Definition fwd_keys (e : list devent) : list skey :=
  flat_map (fun x => match x with EvForward k => [k] | _ => [] end) e.

Definition dstep_obs_of (s : dstate) (e : list devent) (s' : dstate) : dstep_obs :=
  {| so_pre := dobs_of s; so_rsts := count_rst e; so_fwd := fwd_keys e; so_post := dobs_of s' |}.

Fixpoint nodupb (l : list skey) : bool :=
  match l with
  | [] => true
  | x :: r => negb (existsb (skey_eqb x) r) && nodupb r
  end.

Definition syn_eqb (a b : syn) : bool :=
  (sy_addr a =? sy_addr b) && (sy_conn a =? sy_conn b) && (sy_seq a =? sy_seq b).
Fixpoint syns_eqb (a b : list syn) : bool :=
  match a, b with
  | [], [] => true
  | x :: xs, y :: ys => syn_eqb x y && syns_eqb xs ys
  | _, _ => false
  end.

(* post = suffix of pre, possibly with one more request appended *)
Definition is_suffix_plus (pre post : list syn) : bool :=
  existsb (fun n =>
             let suf := skipn n pre in
             syns_eqb post suf ||
             match rev post with
             | _ :: rinit => syns_eqb (rev rinit) suf
             | [] => false
             end)
          (seq 0 (S (length pre))).

(* C12: unique keys, limit, forwarding only to a live entry with exactly that key (forwarding
   changes nothing, so the entry is in the post-state), no live entry evicted *)
Definition c12_step_ok (max_streams : Z) (o : dstep_obs) : bool :=
  nodupb (map fst (ob_streams (so_post o))) &&
  (Z.of_nat (length (ob_streams (so_post o))) <=? Z.max 0 max_streams) &&
  forallb (fun k => existsb (fun p => skey_eqb (fst p) k && snd p) (ob_streams (so_post o))) (so_fwd o) &&
  forallb (fun p => if (snd p : bool)
                    then existsb (fun q => skey_eqb (fst q) (fst p)) (ob_streams (so_post o))
                    else true) (ob_streams (so_pre o)).

(* C13: bounded backlog, at most one reset per step and only with a full backlog, arrival order *)
Definition c13_step_ok (o : dstep_obs) : bool :=
  (Z.of_nat (length (ob_syns (so_post o))) <=? 32) && (ob_ch (so_post o) <=? 32) &&
  (so_rsts o <=? 1) &&
  (if 0 <? so_rsts o then Z.of_nat (length (ob_syns (so_pre o))) =? 32 else true) &&
  is_suffix_plus (ob_syns (so_pre o)) (ob_syns (so_post o)).

(* C12 "connection ids in use between one address pair are unique": the connection id a SYN announces (the id
   the new outgoing connection will RECEIVE on) is not the key of a connection that already exists *)
Definition syn_keys (e : list devent) : list skey :=
  flat_map (fun x => match x with EvSentSyn a c _ => [{| k_addr := a; k_conn := c |}] | _ => [] end) e.

Definition c12_syn_fresh_ok (pre : dobs) (syns : list skey) : bool :=
  forallb (fun k => negb (existsb (fun p => skey_eqb (fst p) k) (ob_streams pre))) syns.

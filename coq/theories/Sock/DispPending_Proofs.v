(* C12 "connection ids in use between one address pair are unique", the PENDING connects.
   The dispatcher does not record the id a pending connect announced (Rust `Connecting` and the
   model's `connecting` hold token and seq_nr only); uniqueness among pending connects rests on
   the counter next_connection_id alone, which only moves forward, in steps of 2, and by at most
   2 * max_active_streams per connect request.  What is true (window theorem), what is false
   (three `_refuted` witnesses), and what an outgoing connection's key really is.  Proofs only. *)
From Utp Require Import Base.Prelude Wire.SeqNr Wire.Header Sock.Dispatcher Sock.Dispatcher_Proofs
  Sock.DispObs Sock.DispObs_Proofs Sock.DispFresh_Proofs Sock.DispSlots_Proofs.

(* ------------------------------------------------------------------ the loop, once more *)
Lemma cand_mod cid j : cand cid j mod M16 = (cid + 2 * Z.of_nat j) mod M16.
Proof.
  unfold cand. destruct j as [|j]; [f_equal; lia|]. apply Zmod_mod.
Qed.

(* below the bound the loop stops at a free id after at most `table size` skips *)
Lemma next_free_cand s addr cid :
  NoDup (keys (d_streams s)) -> Z.of_nat (length (d_streams s)) < 32768 ->
  exists j, (j <= length (d_streams s))%nat /\
    next_free_conn_id (S (length (d_streams s))) s addr cid = cand cid j /\
    (forall i, (i < j)%nat -> has_stream s {| k_addr := addr; k_conn := cand cid i |} = true) /\
    has_stream s {| k_addr := addr; k_conn := cand cid j |} = false.
Proof.
  intros Hnd Hlen.
  destruct (next_free_spec (S (length (d_streams s))) s addr cid) as (j & Hj & Hr & Hall & Hstop).
  destruct (Nat.eq_dec j (S (length (d_streams s)))) as [->|Hne].
  - exfalso. exact (candidates_not_all_keys s addr cid Hnd Hlen Hall).
  - exists j. split; [lia|]. split; [exact Hr|]. split; [exact Hall|]. apply Hstop. lia.
Qed.

(* ------------------------------------------------------------------ a step that sends a SYN, exactly *)
Definition connect_step (e : list devent) : bool :=
  existsb (fun x => match x with EvSentSyn _ _ _ | EvConnectErr _ => true | _ => false end) e.

Lemma connect_step_app a b : connect_step (a ++ b) = connect_step a || connect_step b.
Proof. unfold connect_step. apply existsb_app. Qed.

Lemma all_accepted_not_connect e : all_accepted e -> connect_step e = false.
Proof.
  unfold all_accepted, connect_step. induction 1 as [|x l Hx Hl IH]; [reflexivity|].
  cbn [existsb]. rewrite IH. destruct x; try contradiction. reflexivity.
Qed.

(* what the part of run_once before the arm never touches *)
Definition keeps_nc (s s2 : dstate) : Prop :=
  d_next_conn_id s2 = d_next_conn_id s /\ d_max_streams s2 = d_max_streams s /\
  d_connecting s2 = d_connecting s /\ d_results s2 = d_results s /\
  d_dead_connectors s2 = d_dead_connectors s.

(* the state the connect request was handled in, and how *)
Lemma dstep_syn_exact s o s' e a cid q :
  d_inv s -> dstep s o = (s', e) -> In (EvSentSyn a cid q) e ->
  exists pushes token r s2 e1 e3,
    o = DoRunOnce pushes (ArmControl SynSent) /\ d_control s = CtlConnect a token :: r /\
    d_inv s2 /\ incl (d_streams s) (d_streams s2) /\ keeps_nc s s2 /\ d_control s2 = r /\
    streams_full s2 = false /\ all_accepted e1 /\ e = e1 ++ e3 /\ In (EvSentSyn a cid q) e3 /\
    on_control s2 (CtlConnect a token) SynSent = (s', e3).
Proof.
  intros Hinv H Hin.
  destruct o as [pushes ar|id|id|id|addr token|addr token|addr token|k1];
    try (quiet H Hs; destruct Hin).
  destruct (run_once_decomp _ _ _ _ _ Hinv H) as (s1 & e1 & e3 & Ec & Ea & -> & Hinv1 & Hacc & Hfr & Hinv2 & Hsame).
  pose proof (cleanup_keeps _ _ _ Ec) as K.
  destruct Hfr as [B1 B2 B3 B4 B5].
  destruct Hsame as (P1 & P2 & P3 & P4 & P5 & P6 & P7 & P8 & P9 & P10 & P11 & P12 & P13).
  set (s2 := fold_left push_acceptor pushes s1) in *.
  apply in_app_or in Hin. destruct Hin as [Hin|Hin].
  { exfalso. pose proof (all_accepted_no_syn _ Hacc) as Hn. rewrite Forall_forall in Hn. exact (Hn _ Hin). }
  unfold arm_step in Ea. destruct ar as [|send|addr [m|]].
  - exfalso. destruct (d_next_acc s2); [injection Ea as _ <-; destruct Hin|].
    destruct (d_chan s2); injection Ea as _ <-; destruct Hin.
  - destruct (d_control s2) as [|c r] eqn:Ectl; [injection Ea as _ <-; destruct Hin|].
    destruct (on_control_syn _ _ _ _ _ Ea _ _ _ Hin) as (S1 & S2 & -> & (token & ->) & S5). dsimpl.
    exists pushes, token, r, (upd_control s2 r), e1, e3.
    split; [reflexivity|]. split; [congruence|].
    split; [apply (d_inv_same_tables s2); dsimpl; auto; apply Hinv2|].
    dsimpl. split; [rewrite P1; exact B4|].
    split; [unfold keeps, keeps_nc in *; dsimpl; intuition congruence|].
    split; [reflexivity|]. split; [exact S2|]. split; [exact Hacc|]. auto.
  - exfalso. pose proof (on_recv_no_syn _ _ _ _ _ Hinv2 Ea) as Hn. rewrite Forall_forall in Hn. exact (Hn _ Hin).
  - exfalso. injection Ea as _ <-. destruct Hin as [Hx|[]]; discriminate.
Qed.

(* "the request was not refused": the step reports no connect error *)
Definition no_connect_err (e : list devent) : Prop := forall t, ~ In (EvConnectErr t) e.

(* every SYN: which id it carries, and what happens to the counter *)
Theorem syn_step_id s o s' e a cid q :
  d_inv s -> d_max_streams s <= 32768 -> dstep s o = (s', e) -> In (EvSentSyn a cid q) e ->
  (* the id is the first one, counting from the counter in steps of 2, that is not a key of the table *)
  (exists j, Z.of_nat j < Z.max 0 (d_max_streams s) /\ cid = cand (d_next_conn_id s) j /\
     (forall i, (i < j)%nat -> In {| k_addr := a; k_conn := cand (d_next_conn_id s) i |} (keys (d_streams s'))) /\
     ~ In {| k_addr := a; k_conn := cid |} (keys (d_streams s'))) /\
  (* a reserved slot moves the counter past it; a refused request leaves the counter on it *)
  (no_connect_err e -> d_next_conn_id s' = wadd16 cid 2) /\
  (~ no_connect_err e -> d_next_conn_id s' = cid).
Proof.
  intros Hinv Hmax H Hin.
  destruct (dstep_syn_exact _ _ _ _ _ _ _ Hinv H Hin)
    as (pushes & token & r & s2 & e1 & e3 & -> & Hctl & Hinv2 & Hincl & K & _ & Hnf & Hacc & -> & Hin3 & Hoc).
  destruct K as (K1 & K7 & _).
  pose proof (on_control_connect_spec _ _ _ _ _ _ Hinv2 Hoc) as Hspec. cbv zeta in Hspec.
  rewrite Hnf in Hspec. destruct Hspec as (F & _ & Hspec).
  destruct F as (F1 & _).
  destruct Hinv2 as (J1 & J2 & _).
  assert (Hb : Z.of_nat (length (d_streams s2)) < 32768) by (apply not_full_bound; [exact Hnf|lia]).
  destruct (next_free_cand s2 a (d_next_conn_id s2) J1 Hb) as (j & Hj & Hr & Hall & Hfree).
  unfold streams_full in Hnf. apply Z.leb_gt in Hnf.
  assert (Hcid : cid = next_free_conn_id (S (length (d_streams s2))) s2 a (d_next_conn_id s2) /\
                 ((no_connect_err (e1 ++ e3) -> d_next_conn_id s' = wadd16 cid 2) /\
                  (~ no_connect_err (e1 ++ e3) -> d_next_conn_id s' = cid))).
  { destruct (length (pending s2 a) <? 4)%nat.
    - destruct Hspec as (-> & _ & Hn & _). destruct Hin3 as [Hx|[]]. injection Hx as <- <-.
      split; [reflexivity|]. split; [intros _; exact Hn|]. intro Hne. exfalso. apply Hne.
      intros t Ht. apply in_app_or in Ht. destruct Ht as [Ht|[Ht|[]]]; [|discriminate].
      unfold all_accepted in Hacc. rewrite Forall_forall in Hacc. exact (Hacc _ Ht).
    - destruct Hspec as (-> & _ & Hn & _). destruct Hin3 as [Hx|[Hx|[]]]; [|discriminate]. injection Hx as <- <-.
      split; [reflexivity|]. split; [|intros _; exact Hn]. intro Hno. exfalso.
      apply (Hno token). apply in_or_app. right. right. left. reflexivity. }
  destruct Hcid as (Hcid & Hnext). split; [|exact Hnext].
  exists j. rewrite <- K1, <- K7. split; [lia|]. split; [congruence|].
  unfold keys in *. rewrite F1. split.
  - intros i Hi. apply has_stream_in. apply Hall. exact Hi.
  - rewrite Hcid, Hr. apply has_stream_false_not_in. exact Hfree.
Qed.

(* ------------------------------------------------------------------ the counter only moves forward, slowly *)
Lemma on_maybe_connect_ack_id s addr m s' e :
  on_maybe_connect_ack s addr m = (s', e) -> d_next_conn_id s' = d_next_conn_id s /\ connect_step e = false.
Proof.
  unfold on_maybe_connect_ack. destruct (streams_full s); [intro H; injection H as <- <-; auto|].
  destruct (get_slots s addr); [|intro H; injection H as <- <-; auto].
  destruct (slots_pop _ _) as [[c sl']|]; [|intro H; injection H as <- <-; auto].
  destruct (mem_z _ _); intro H; injection H as <- <-; auto.
Qed.

Lemma on_recv_id s addr m s' e :
  d_inv s -> on_recv s addr m = (s', e) -> d_next_conn_id s' = d_next_conn_id s /\ connect_step e = false.
Proof.
  intros Hinv H. pose proof Hinv as (I1 & I2 & I3 & I4 & I5). pose proof H as H0. unfold on_recv in H.
  destruct (find_stream s _) as [en|].
  - destruct (se_alive en); injection H as <- <-; auto.
  - destruct (dm_type m); try (injection H as <- <-; auto; fail).
    + eapply on_maybe_connect_ack_id; eauto.
    + split; [apply (on_syn_keeps _ _ _ _ H)|].
      assert (Hst : st_inv s) by (split; assumption).
      destruct (on_syn_spec _ _ _ _ Hst I3 H) as (_ & _ & _ & D & _).
      destruct D as [[Hacc _]|(e0 & Hacc & -> & _)]; [apply all_accepted_not_connect; exact Hacc|].
      rewrite connect_step_app, (all_accepted_not_connect _ Hacc). reflexivity.
Qed.

(* how far one control message moves the counter (in units of 2, modulo 2^16) *)
Lemma on_control_id s c send s' e :
  d_inv s -> d_max_streams s <= 32768 -> on_control s c send = (s', e) ->
  exists u, 0 <= u /\ u <= (if connect_step e then Z.max 0 (d_max_streams s) else 0) /\
            d_next_conn_id s' mod M16 = (d_next_conn_id s + 2 * u) mod M16.
Proof.
  intros Hinv Hmax H.
  assert (Hzero : d_next_conn_id s' = d_next_conn_id s ->
    exists u, 0 <= u /\ u <= (if connect_step e then Z.max 0 (d_max_streams s) else 0) /\
              d_next_conn_id s' mod M16 = (d_next_conn_id s + 2 * u) mod M16).
  { intros ->. exists 0. split; [lia|]. split; [destruct (connect_step e); lia|]. f_equal. lia. }
  destruct c as [addr token|addr token|k].
  - pose proof (on_control_connect_spec _ _ _ _ _ _ Hinv H) as Hspec. cbv zeta in Hspec.
    destruct Hspec as (_ & Hspec).
    destruct (streams_full s) eqn:Ef; [apply Hzero; apply Hspec|].
    destruct Hinv as (J1 & J2 & _).
    assert (Hb : Z.of_nat (length (d_streams s)) < 32768) by (apply not_full_bound; [exact Ef|lia]).
    destruct (next_free_cand s addr (d_next_conn_id s) J1 Hb) as (j & Hj & Hr & _ & _).
    unfold streams_full in Ef. apply Z.leb_gt in Ef.
    set (cid := next_free_conn_id _ s addr (d_next_conn_id s)) in *.
    assert (Hcm : cid mod M16 = (d_next_conn_id s + 2 * Z.of_nat j) mod M16) by (rewrite Hr; apply cand_mod).
    assert (Hcase : (d_next_conn_id s' = cid \/ d_next_conn_id s' = wadd16 cid 2) /\ connect_step e = true).
    { destruct send.
      - destruct Hspec as (_ & Hspec). destruct (length (pending s addr) <? 4)%nat.
        + destruct Hspec as (-> & _ & Hn & _). auto.
        + destruct Hspec as (-> & _ & Hn & _). auto.
      - destruct Hspec as (-> & _ & _ & Hn). auto.
      - destruct Hspec as (-> & _ & _ & Hn). auto. }
    destruct Hcase as [[Hn|Hn] ->]; rewrite Hn.
    + exists (Z.of_nat j). split; [lia|]. split; [lia|exact Hcm].
    + exists (Z.of_nat j + 1). split; [lia|]. split; [lia|].
      unfold wadd16. rewrite Zmod_mod, <- Zplus_mod_idemp_l, Hcm, Zplus_mod_idemp_l. f_equal. lia.
  - destruct (on_control_dropped_spec _ _ _ _ _ _ Hinv H) as (_ & _ & _ & Hn & _). apply Hzero. exact Hn.
  - apply Hzero. cbn [on_control] in H. destruct (find_stream s k) as [en|]; [destruct (se_alive en)|];
      injection H as <- _; reflexivity.
Qed.

Lemma dstep_id_advance s o s' e :
  d_inv s -> d_max_streams s <= 32768 -> dstep s o = (s', e) ->
  exists u, 0 <= u /\ u <= (if connect_step e then Z.max 0 (d_max_streams s) else 0) /\
            d_next_conn_id s' mod M16 = (d_next_conn_id s + 2 * u) mod M16.
Proof.
  intros Hinv Hmax H.
  assert (Hzero : d_next_conn_id s' = d_next_conn_id s ->
    exists u, 0 <= u /\ u <= (if connect_step e then Z.max 0 (d_max_streams s) else 0) /\
              d_next_conn_id s' mod M16 = (d_next_conn_id s + 2 * u) mod M16).
  { intros ->. exists 0. split; [lia|]. split; [destruct (connect_step e); lia|]. f_equal. lia. }
  destruct o as [pushes ar|id|id|id|addr token|addr token|addr token|k1];
    [|cbn [dstep] in H; try (apply Hzero; injection H as <- _; reflexivity)..].
  - clear Hzero.
    destruct (run_once_decomp _ _ _ _ _ Hinv H) as (s1 & e1 & e3 & Ec & Ea & -> & Hinv1 & Hacc & Hfr & Hinv2 & Hsame).
    destruct (cleanup_keeps _ _ _ Ec) as (K1 & _ & _ & _ & _ & _ & K7).
    destruct Hsame as (P1 & P2 & P3 & P4 & P5 & P6 & P7 & _).
    set (s2 := fold_left push_acceptor pushes s1) in *.
    rewrite connect_step_app, (all_accepted_not_connect _ Hacc). cbn [orb].
    rewrite <- K1, <- K7, <- P6, <- P7.
    assert (Hzero : d_next_conn_id s' = d_next_conn_id s2 -> connect_step e3 = false ->
      exists u, 0 <= u /\ u <= (if connect_step e3 then Z.max 0 (d_max_streams s2) else 0) /\
                d_next_conn_id s' mod M16 = (d_next_conn_id s2 + 2 * u) mod M16).
    { intros -> ->. exists 0. split; [lia|]. split; [lia|]. f_equal. lia. }
    unfold arm_step in Ea. destruct ar as [|send|addr [m|]].
    + destruct (d_next_acc s2); [injection Ea as <- <-; apply Hzero; reflexivity|].
      destruct (d_chan s2); injection Ea as <- <-; apply Hzero; reflexivity.
    + destruct (d_control s2) as [|c r] eqn:Ectl; [injection Ea as <- <-; apply Hzero; reflexivity|].
      assert (Hinv2' : d_inv (upd_control s2 r)) by (apply (d_inv_same_tables s2); dsimpl; auto; apply Hinv2).
      apply (on_control_id _ _ _ _ _ Hinv2' ltac:(dsimpl; lia) Ea).
    + destruct (on_recv_id _ _ _ _ _ Hinv2 Ea) as [A B]. apply Hzero; assumption.
    + injection Ea as <- <-. apply Hzero; reflexivity.
  - apply Hzero. injection H as <- _. unfold push_acceptor. destruct (_ <? _); reflexivity.
  - apply Hzero. destruct (find _ _) as [[x [k sid]]|]; injection H as <- _; reflexivity.
  - apply Hzero. injection H as <- _. destruct (existsb _ _); reflexivity.
Qed.

(* ------------------------------------------------------------------ over all op lists *)
Definition connect_steps (tr : list (dstate * dop * list devent * dstate)) : Z :=
  Z.of_nat (length (filter (fun x => match x with (_, _, e, _) => connect_step e end) tr)).

Lemma connect_steps_nonneg tr : 0 <= connect_steps tr.
Proof. unfold connect_steps. lia. Qed.

(* between two states of a run the counter has moved forward by at most
   2 * max_active_streams per connect request handled *)
Lemma drun_id_advance : forall ops s,
  d_inv s -> d_max_streams s <= 32768 ->
  exists U, 0 <= U /\ U <= connect_steps (dev_trace s ops) * Z.max 0 (d_max_streams s) /\
            d_next_conn_id (drun s ops) mod M16 = (d_next_conn_id s + 2 * U) mod M16.
Proof.
  induction ops as [|o r IH]; intros s Hinv Hmax; cbn [drun dev_trace].
  - exists 0. split; [lia|]. split; [unfold connect_steps; cbn [filter length]; lia|]. f_equal. lia.
  - destruct (dstep s o) as [s1 e] eqn:E. cbn [fst].
    destruct (dstep_inv _ _ _ _ Hinv E) as [Hinv1 Hmax1].
    destruct (dstep_id_advance _ _ _ _ Hinv Hmax E) as (u & Hu0 & Hu1 & Hu).
    destruct (IH s1 Hinv1 ltac:(lia)) as (U & HU0 & HU1 & HU). rewrite Hmax1 in HU1.
    exists (u + U). split; [clear - Hu0 HU0; lia|]. split.
    + clear - Hu1 HU1 Hu0 HU0. unfold connect_steps in *. cbn [filter].
      destruct (connect_step e); cbn [length]; [|lia]. rewrite Nat2Z.inj_succ. lia.
    + rewrite HU. rewrite <- Zplus_mod_idemp_l, Hu, Zplus_mod_idemp_l. f_equal. ring.
Qed.

(* THE WINDOW THEOREM.  A SYN that reserved a slot announced id c1.  Any later SYN of the same
   run (to any address, whether or not the first connect is still pending) announces a
   different id, as long as (connect requests handled in between + 1) * max_active_streams
   stays below 2^15.  In particular two pending connects to one address hold different ids
   within such a window. *)
Theorem syn_ids_distinct_in_window s o1 s1 e1 a c1 q1 mid o2 s3 e3 a' c2 q2 :
  d_inv s -> d_max_streams s <= 32768 ->
  dstep s o1 = (s1, e1) -> In (EvSentSyn a c1 q1) e1 -> no_connect_err e1 ->
  dstep (drun s1 mid) o2 = (s3, e3) -> In (EvSentSyn a' c2 q2) e3 ->
  (connect_steps (dev_trace s1 mid) + 1) * Z.max 1 (d_max_streams s) < 32768 ->
  c1 mod M16 <> c2 mod M16.
Proof.
  intros Hinv Hmax E1 Hin1 Hres E2 Hin2 Hwin.
  destruct (dstep_inv _ _ _ _ Hinv E1) as [Hinv1 Hmax1].
  destruct (syn_step_id _ _ _ _ _ _ _ Hinv Hmax E1 Hin1) as (_ & Hn1 & _). specialize (Hn1 Hres).
  destruct (drun_id_advance mid s1 Hinv1 ltac:(lia)) as (U & HU0 & HU1 & HU).
  destruct (drun_inv mid s1 Hinv1) as [Hinv2 Hmax2].
  destruct (syn_step_id _ _ _ _ _ _ _ Hinv2 ltac:(lia) E2 Hin2) as ((j & Hj & Hc2 & _) & _).
  pose proof (cand_mod (d_next_conn_id (drun s1 mid)) j) as Hcm. rewrite <- Hc2 in Hcm.
  rewrite Hmax2, Hmax1 in *.
  set (K := connect_steps (dev_trace s1 mid)) in *.
  pose proof (connect_steps_nonneg (dev_trace s1 mid)) as HK. fold K in HK.
  assert (HP : K * Z.max 0 (d_max_streams s) <= K * Z.max 1 (d_max_streams s))
    by (clear - HK; apply Z.mul_le_mono_nonneg_l; lia).
  rewrite Z.mul_add_distr_r in Hwin.
  set (P := K * Z.max 1 (d_max_streams s)) in *.
  set (n2 := d_next_conn_id (drun s1 mid)) in *. set (n1 := d_next_conn_id s1) in *.
  unfold wadd16, M16 in *. clearbody n1 n2 P K. lia.
Qed.

(* the hypothesis is satisfiable: the default limit, back-to-back connects *)
Example window_default : (connect_steps (dev_trace (dstate_new 128 [7]) []) + 1) * Z.max 1 128 < 32768.
Proof. reflexivity. Qed.

(* for every run from a fresh dispatcher *)
Corollary syn_ids_distinct_in_window_reachable max_streams random pre o1 s1 e1 a c1 q1 mid o2 s3 e3 a' c2 q2 :
  max_streams <= 32768 ->
  dstep (drun (dstate_new max_streams random) pre) o1 = (s1, e1) ->
  In (EvSentSyn a c1 q1) e1 -> no_connect_err e1 ->
  dstep (drun s1 mid) o2 = (s3, e3) -> In (EvSentSyn a' c2 q2) e3 ->
  (connect_steps (dev_trace s1 mid) + 1) * Z.max 1 max_streams < 32768 ->
  c1 mod M16 <> c2 mod M16.
Proof.
  intros Hmax E1 Hin1 Hres E2 Hin2 Hwin.
  destruct (drun_inv pre _ (new_inv max_streams random)) as [Hinv Hm].
  assert (Hm0 : d_max_streams (dstate_new max_streams random) = max_streams)
    by (unfold dstate_new; destruct random; reflexivity).
  rewrite Hm0 in Hm.
  eapply (syn_ids_distinct_in_window _ _ _ _ _ _ _ mid); eauto; rewrite Hm; assumption.
Qed.

(* ------------------------------------------------------------------ what is NOT guaranteed *)
Definition run_ctl : dop := DoRunOnce [] (ArmControl SynSent).
Definition pend_s0 : dstate := dstate_new 128 [7; 100; 200; 300].

(* (1) the documented boundary: the id of a pending connect is not reserved in the table, so an
   inbound SYN of the same peer can take the key first.  Connect to peer 5 announces id 7
   (slot held); the peer's own SYN with id 6 is accepted under key (5, 7); the SYN-ACK of our
   connect (id 7, ack 100) is then forwarded to THAT connection and the connect stays pending. *)
Definition pend_r1_ops : list dop :=
  [ DoConnect 5 1; run_ctl; DoPushAcceptor 9;
    DoRunOnce [] (ArmRecv 5 (Some {| dm_type := ST_SYN; dm_conn := 6; dm_seq := 4000; dm_ack := 0 |})) ].

Theorem pending_id_reserved_refuted :
  exists ops a cid q token synack,
    let s := drun pend_s0 ops in
    (* a SYN announcing (a, cid) was sent and its connect is still pending ... *)
    In [EvSentSyn a cid q] (map (fun x => match x with (_, _, e, _) => e end) (dev_trace pend_s0 ops)) /\
    In {| cn_token := token; cn_seq := q |} (pending s a) /\
    (* ... and (a, cid) is the key of a connection in the table *)
    In {| k_addr := a; k_conn := cid |} (keys (d_streams s)) /\
    (* the answer to our SYN goes to that connection; the connect is still pending afterwards *)
    dm_type synack = ST_STATE /\ dm_conn synack = cid /\ dm_ack synack = q /\
    let '(s', e') := dstep s (DoRunOnce [] (ArmRecv a (Some synack))) in
    e' = [EvForward {| k_addr := a; k_conn := cid |}] /\
    In {| cn_token := token; cn_seq := q |} (pending s' a).
Proof.
  exists pend_r1_ops, 5, 7, 100, 1, {| dm_type := ST_STATE; dm_conn := 7; dm_seq := 9000; dm_ack := 100 |}.
  vm_compute. repeat split; auto.
Qed.

(* (2) the key of an outgoing connection is the connection id of the SYN-ACK, which is matched
   to a pending connect by its ack_nr only (ConnectingPerAddr::pop: "TODO: use connection ID
   instead of sequence number"): it need not be the id our SYN announced *)
Theorem outgoing_key_is_announced_id_refuted :
  exists ops a cid q token synack k,
    let s := drun pend_s0 ops in
    In [EvSentSyn a cid q] (map (fun x => match x with (_, _, e, _) => e end) (dev_trace pend_s0 ops)) /\
    In {| cn_token := token; cn_seq := q |} (pending s a) /\
    snd (dstep s (DoRunOnce [] (ArmRecv a (Some synack)))) = [EvConnected token k] /\
    k_addr k = a /\ k_conn k <> cid.
Proof.
  exists [DoConnect 5 1; run_ctl], 5, 7, 100, 1,
    {| dm_type := ST_STATE; dm_conn := 999; dm_seq := 9000; dm_ack := 100 |}, {| k_addr := 5; k_conn := 999 |}.
  vm_compute. repeat split; auto. discriminate.
Qed.

(* (3) outside the window the counter wraps: a connect to peer 5 stays pending while 32767 other
   connects (to peer 6, each abandoned again) are handled; the next connect to peer 5 announces
   the same id 7 and both are pending *)
Definition pend_cycle : list dop := [DoConnect 6 1; run_ctl; DoDropConnect 6 1; run_ctl].
Definition pend_wrap_ops : list dop := Z.iter 32767 (fun l => pend_cycle ++ l) [].

Theorem pending_ids_distinct_refuted :
  let '(s1, e1) := dstep (drun pend_s0 [DoConnect 5 100]) run_ctl in
  let s2 := drun s1 pend_wrap_ops in
  let '(s3, e3) := dstep (drun s2 [DoConnect 5 101]) run_ctl in
  e1 = [EvSentSyn 5 7 100] /\ e3 = [EvSentSyn 5 7 0] /\
  pending s3 5 = [{| cn_token := 100; cn_seq := 100 |}; {| cn_token := 101; cn_seq := 0 |}] /\
  connect_steps (dev_trace s1 pend_wrap_ops) = 32767.
Proof. vm_compute. repeat split. Qed.

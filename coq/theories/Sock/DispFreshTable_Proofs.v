(* c12_syn_fresh_ok under a weaker, observable hypothesis: either the configured limit is at most
   32768, or the table plus the SYN backlog (all that cleanup_accept_queue can add before the
   connect request is handled) is below 32768 entries.  Proofs only. *)
From Utp Require Import Base.Prelude Wire.SeqNr Wire.Header Sock.Dispatcher Sock.Dispatcher_Proofs
  Sock.DispObs Sock.DispObs_Proofs Sock.DispFresh_Proofs Sock.DispSlots_Proofs Sock.DispWiring_Proofs.

(* every connection cleanup creates consumes a cached SYN *)
Lemma cleanup_loop_count : forall fuel s ev s' ev',
  cleanup_loop fuel s ev = (s', ev') ->
  (length (d_streams s') + length (d_syns s') <= length (d_streams s) + length (d_syns s))%nat.
Proof.
  induction fuel as [|fuel IH]; intros s ev s' ev'; cbn [cleanup_loop].
  { intro H; injection H as <- _. lia. }
  destruct (d_syns s) as [|y rest] eqn:Es; [intro H; injection H as <- _; rewrite Es; lia|].
  destruct (try_next_acceptor (upd_syns s rest)) as [s1 oa] eqn:Et.
  destruct (try_next_same_tabs _ _ _ Et) as [(T1 & _) T2]. dsimpl. cbn [length].
  destruct oa as [a|].
  - destruct (match_syn_with_accept s1 y a) as [[s2 r] e] eqn:Em.
    pose proof (match_syn_syns _ _ _ _ _ _ Em) as Hs2. rewrite T2 in Hs2.
    destruct (match_syn_exact _ _ _ _ _ _ Em) as (_ & M).
    destruct r; intro H.
    + destruct M as (_ & _ & _ & M1 & _). apply IH in H. rewrite M1, app_length, Hs2, T1 in H. cbn [length] in H. lia.
    + destruct M as (_ & M1 & _). injection H as <- _. dsimpl. rewrite M1, T1, Hs2. cbn [length]. lia.
    + destruct M as (_ & M1 & _). apply IH in H. dsimpl. rewrite M1, T1, Hs2 in H. lia.
    + destruct M as (_ & M1 & _). apply IH in H. dsimpl. rewrite M1, T1, Hs2 in H. cbn [length] in H. lia.
  - intro H; injection H as <- _. dsimpl. rewrite T1, T2. cbn [length]. lia.
Qed.

Lemma cleanup_count s s' e : cleanup_accept_queue s = (s', e) ->
  (length (d_streams s') <= length (d_streams s) + length (d_syns s))%nat.
Proof.
  unfold cleanup_accept_queue. destruct (streams_full s); [intro H; injection H as <- _; lia|].
  intro H. apply cleanup_loop_count in H. lia.
Qed.

(* the table a SYN-sending step ends with is at most the table plus the backlog it started with *)
Lemma dstep_syn_table_bound s o s' e a cid q :
  d_inv s -> dstep s o = (s', e) -> In (EvSentSyn a cid q) e ->
  (length (d_streams s') <= length (d_streams s) + length (d_syns s))%nat.
Proof.
  intros Hinv H Hin.
  destruct o as [pushes ar|id|id|id|addr token|addr token|addr token|k1];
    try (quiet H Hs; destruct Hin).
  destruct (run_once_decomp _ _ _ _ _ Hinv H) as (s1 & e1 & e3 & Ec & Ea & -> & Hinv1 & Hacc & Hfr & Hinv2 & Hsame).
  destruct Hsame as (P1 & _).
  set (s2 := fold_left push_acceptor pushes s1) in *.
  pose proof (cleanup_count _ _ _ Ec) as Hc.
  apply in_app_or in Hin. destruct Hin as [Hin|Hin].
  { exfalso. pose proof (all_accepted_no_syn _ Hacc) as Hn. rewrite Forall_forall in Hn. exact (Hn _ Hin). }
  unfold arm_step in Ea. destruct ar as [|send|addr [m|]].
  - exfalso. destruct (d_next_acc s2); [injection Ea as _ <-; destruct Hin|].
    destruct (d_chan s2); injection Ea as _ <-; destruct Hin.
  - destruct (d_control s2) as [|c r] eqn:Ectl; [injection Ea as _ <-; destruct Hin|].
    destruct (on_control_syn _ _ _ _ _ Ea _ _ _ Hin) as (S1 & _). dsimpl. rewrite S1, P1. exact Hc.
  - exfalso. pose proof (on_recv_no_syn _ _ _ _ _ Hinv2 Ea) as Hn. rewrite Forall_forall in Hn. exact (Hn _ Hin).
  - exfalso. injection Ea as _ <-. destruct Hin as [Hx|[]]; discriminate.
Qed.

(* the hypothesis, as a function of the configuration and of what the step observation shows *)
Definition conn_id_space_ok_obs (max_streams : Z) (pre : dobs) : bool :=
  (max_streams <=? 32768) ||
  (Z.of_nat (length (ob_streams pre)) + Z.of_nat (length (ob_syns pre)) <? 32768).

Theorem c12_syn_fresh_model_obs s o s' e :
  d_inv s -> conn_id_space_ok_obs (d_max_streams s) (dobs_of s) = true -> dstep s o = (s', e) ->
  c12_syn_fresh_ok (dobs_of s) (syn_keys e) = true.
Proof.
  intros Hinv Hok H. unfold conn_id_space_ok_obs in Hok. apply orb_true_iff in Hok.
  destruct Hok as [Hok|Hok]; [eapply c12_syn_fresh_model; eauto|].
  apply Z.ltb_lt in Hok. unfold dobs_of in Hok; cbn [ob_streams ob_syns] in Hok. rewrite map_length in Hok.
  unfold c12_syn_fresh_ok. apply forallb_forall. intros k Hk. apply negb_true_iff.
  destruct (existsb _ _) eqn:E; [|reflexivity]. exfalso.
  apply existsb_exists in E. destruct E as (p & Hp & Hpk). apply skey_eqb_eq in Hpk.
  destruct (in_syn_keys _ _ Hk) as [q Hq].
  pose proof (dstep_syn_table_bound _ _ _ _ _ _ _ Hinv H Hq) as Hlen.
  destruct (dstep_syn _ _ _ _ Hinv H _ _ _ Hq) as (s2 & Hinv2 & Hincl & Hs' & _ & _ & _ & Hcid).
  destruct Hinv2 as (J1 & _).
  assert (Hb : Z.of_nat (length (d_streams s2)) < 32768) by (rewrite <- Hs'; lia).
  pose proof (has_stream_false_not_in _ _ (next_free_conn_id_fresh s2 (k_addr k) (d_next_conn_id s2) J1 Hb)) as Hfree.
  rewrite <- Hcid in Hfree. apply Hfree. eapply incl_keys; [exact Hincl|].
  rewrite <- keys_obs. destruct k as [ka kc]. cbn [k_addr k_conn]. rewrite <- Hpk. apply in_map. exact Hp.
Qed.

(* every step of every run: wherever the hypothesis holds of the step, so does the predicate *)
Theorem c12_syn_fresh_trace_obs max_streams : forall ops s,
  d_inv s -> d_max_streams s = max_streams ->
  forallb (fun p => implb (conn_id_space_ok_obs max_streams (fst p)) (c12_syn_fresh_ok (fst p) (snd p)))
          (dfresh_trace s ops) = true.
Proof.
  intros ops s Hinv Hmax. unfold dfresh_trace. apply forallb_forall. intros p Hp.
  apply in_map_iff in Hp. destruct Hp as ([[[s0 o0] e0] s1] & <- & Hin).
  pose proof (dev_trace_inv ops s Hinv) as Hall. rewrite Forall_forall in Hall.
  destruct (Hall _ Hin) as (A & B & C). cbn [fst snd].
  destruct (conn_id_space_ok_obs max_streams (dobs_of s0)) eqn:E; [|reflexivity]. cbn [implb].
  eapply c12_syn_fresh_model_obs; eauto. rewrite B, Hmax. exact E.
Qed.

(* a configuration above the bound where the observable hypothesis still holds *)
Example conn_id_space_ok_obs_big_limit :
  conn_id_space_ok_obs 100000 (dobs_of (dstate_new 100000 [7])) = true.
Proof. reflexivity. Qed.

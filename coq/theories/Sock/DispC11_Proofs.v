(* C11 at the dispatcher tier: every ST_SYN / ST_RESET the dispatcher emits is a well-formed header with
   u16 ids and sequence numbers, for every op list (all interleavings of connects, accepts, datagrams);
   the ST_RESET carries the connection id and acknowledges the sequence number of the SYN it refuses.
   Invariant DI: next_connection_id, the pending random_u16 values and the ids / sequence numbers of the
   cached SYNs are u16.  Proofs only. *)
From Utp Require Import Base.Prelude Wire.SeqNr Wire.Header Wire.Header_Proofs Sock.Dispatcher
  Sock.Dispatcher_Proofs Sock.DispObs Sock.DispObs_Proofs Sock.DispFresh_Proofs Sock.DispC11_Pred.

Definition u16 (x : Z) : Prop := 0 <= x < 65536.

Lemma u16b_u16 x : u16b x = true <-> u16 x.
Proof. apply u16b_iff. Qed.

Lemma wadd16_u16 a b : u16 (wadd16 a b).
Proof. unfold u16, wadd16, M16. lia. Qed.

(* ------------------------------------------------------------------ the two headers *)
Lemma syn_header_ok conn seq ts : u16 conn -> u16 seq -> 0 <= ts < 4294967296 ->
  hdr_okb (syn_header conn seq ts) = true.
Proof.
  unfold u16. intros H1 H2 H3. unfold hdr_okb, fields_okb, ext_okb, syn_header, u16b, u32b, no_ext;
    cbn [h_conn h_ts h_tsdiff h_wnd h_seq h_ack h_ext e_sack e_close].
  repeat (apply andb_true_intro; split); lia.
Qed.

Lemma rst_header_ok conn ack : u16 conn -> u16 ack -> hdr_okb (rst_header conn ack) = true.
Proof.
  unfold u16. intros H1 H2. unfold hdr_okb, fields_okb, ext_okb, rst_header, u16b, u32b, no_ext;
    cbn [h_conn h_ts h_tsdiff h_wnd h_seq h_ack h_ext e_sack e_close].
  repeat (apply andb_true_intro; split); lia.
Qed.

Lemma syn_header_ok_inv conn seq ts : hdr_okb (syn_header conn seq ts) = true -> u16 conn /\ u16 seq.
Proof.
  unfold hdr_okb, fields_okb, syn_header, u16b, u32b, u16; cbn [h_conn h_ts h_tsdiff h_wnd h_seq h_ack h_ext].
  intro H. repeat (apply andb_prop in H; destruct H as [H ?]). lia.
Qed.

Lemma rst_header_ok_inv conn ack : hdr_okb (rst_header conn ack) = true -> u16 conn /\ u16 ack.
Proof.
  unfold hdr_okb, fields_okb, rst_header, u16b, u32b, u16; cbn [h_conn h_ts h_tsdiff h_wnd h_seq h_ack h_ext].
  intro H. repeat (apply andb_prop in H; destruct H as [H ?]). lia.
Qed.

Lemma syn_event_ok a conn seq : u16 conn -> u16 seq -> c11_devent_ok (EvSentSyn a conn seq) = true.
Proof.
  intros H1 H2. cbn [c11_devent_ok]. rewrite !syn_header_ok by (auto; lia). reflexivity.
Qed.

Lemma rst_event_ok a conn ack : u16 conn -> u16 ack -> c11_devent_ok (EvSentRst a conn ack) = true.
Proof. intros H1 H2. cbn [c11_devent_ok]. apply rst_header_ok; assumption. Qed.

(* the 20 bytes on the wire: version 1, the type nibble, and the parser of the other side reads the
   same header back *)
Lemma header20_on_the_wire h buflen :
  hdr_okb h = true -> h_ext h = no_ext -> 20 <= buflen ->
  exists bs, serialize h buflen = Some bs /\ Zlength bs = 20 /\ nth 0 bs 0 mod 16 = 1 /\
             nth 0 bs 0 / 16 = type_to_number (h_type h) /\ deserialize bs = Some (h, 20).
Proof.
  intros Hok Hext Hlen.
  assert (Hsl : ser_len h = 20) by (unfold ser_len; rewrite Hext; reflexivity).
  destruct (roundtrip h buflen [] Hok) as (bs & Hs & Hz & Hd); [lia|reflexivity|].
  rewrite app_nil_r, Hsl in Hd. rewrite Hsl in Hz.
  exists bs. split; [exact Hs|]. split; [exact Hz|].
  unfold serialize in Hs. destruct (buflen <? _); [discriminate|]. injection Hs as <-.
  unfold encode_packet, fixed_bytes. cbn [app nth].
  split; [apply typever_mod|]. split; [apply typever_div|exact Hd].
Qed.

(* ------------------------------------------------------------------ the invariant *)
Definition syn_ok (y : syn) : Prop := u16 (sy_conn y) /\ u16 (sy_seq y).

Definition DI (s : dstate) : Prop :=
  u16 (d_next_conn_id s) /\ Forall u16 (d_random s) /\ Forall syn_ok (d_syns s).

Definition evs_ok (e : list devent) : Prop := c11_dstep_ok e = true.

Lemma evs_ok_nil : evs_ok [].
Proof. reflexivity. Qed.

Lemma evs_ok_app a b : evs_ok a -> evs_ok b -> evs_ok (a ++ b).
Proof. unfold evs_ok, c11_dstep_ok. intros Ha Hb. rewrite forallb_app, Ha, Hb. reflexivity. Qed.

Lemma evs_ok_all_accepted e : all_accepted e -> evs_ok e.
Proof.
  unfold all_accepted, evs_ok, c11_dstep_ok. intro H. apply forallb_forall. intros x Hx.
  rewrite Forall_forall in H. specialize (H x Hx). destruct x; try contradiction; reflexivity.
Qed.

Lemma next_random_DI s s' x : next_random s = (s', x) -> DI s ->
  DI s' /\ u16 x /\ d_syns s' = d_syns s /\ d_next_conn_id s' = d_next_conn_id s.
Proof.
  unfold next_random. intros H D. destruct (d_random s) as [|r0 rs] eqn:Er.
  - injection H as <- <-. split; [exact D|]. split; [unfold u16; lia|]. split; reflexivity.
  - injection H as <- <-. destruct D as (D1 & D2 & D3). rewrite Er in D2. inversion D2; subst.
    split; [unfold DI; dsimpl; split; [exact D1|split; assumption]|].
    split; [assumption|]. split; reflexivity.
Qed.

Lemma try_next_acceptor_DI s s' oa : try_next_acceptor s = (s', oa) -> DI s ->
  DI s' /\ d_syns s' = d_syns s.
Proof.
  unfold try_next_acceptor. intros H D. destruct (d_next_acc s); [injection H as <- _; split; [exact D|reflexivity]|].
  destruct (d_chan s); injection H as <- _; split; try exact D; reflexivity.
Qed.

Lemma match_syn_DI s y a s' r e : match_syn_with_accept s y a = (s', r, e) -> DI s ->
  DI s' /\ d_syns s' = d_syns s /\ evs_ok e.
Proof.
  unfold match_syn_with_accept. intros H D.
  destruct (streams_full s); [injection H as <- _ <-; (split; [exact D|split; reflexivity])|].
  destruct (has_stream s _); [injection H as <- _ <-; (split; [exact D|split; reflexivity])|].
  destruct (next_random s) as [s1 x] eqn:En.
  destruct (next_random_DI _ _ _ En D) as (D1 & _ & Hs & _).
  destruct (mem_z a _); injection H as <- _ <-; (split; [exact D1|split; [exact Hs|reflexivity]]).
Qed.

Lemma DI_upd_syns s l : DI s -> Forall syn_ok l -> DI (upd_syns s l).
Proof. intros (D1 & D2 & _) Hl. unfold DI; dsimpl. auto. Qed.

Lemma DI_upd_acc s na ch : DI s -> DI (upd_acc s na ch).
Proof. intro D. exact D. Qed.

Lemma cleanup_loop_DI : forall fuel s ev s' ev',
  cleanup_loop fuel s ev = (s', ev') -> DI s -> evs_ok ev -> DI s' /\ evs_ok ev'.
Proof.
  induction fuel as [|fuel IH]; intros s ev s' ev' H D Hev; cbn [cleanup_loop] in H.
  - injection H as <- <-. auto.
  - destruct (d_syns s) as [|y rest] eqn:Es; [injection H as <- <-; auto|].
    assert (Hy : syn_ok y /\ Forall syn_ok rest).
    { destruct D as (_ & _ & D3). rewrite Es in D3. inversion D3; auto. }
    destruct Hy as [Hy Hrest].
    pose proof (DI_upd_syns s rest D Hrest) as D0.
    destruct (try_next_acceptor (upd_syns s rest)) as [s1 oa] eqn:Et.
    destruct (try_next_acceptor_DI _ _ _ Et D0) as [D1 S1]. dsimpl.
    destruct oa as [a|].
    + destruct (match_syn_with_accept s1 y a) as [[s2 r] e] eqn:Em.
      destruct (match_syn_DI _ _ _ _ _ _ Em D1) as (D2 & S2 & He).
      assert (Hback : DI (upd_syns s2 (y :: d_syns s2))).
      { apply DI_upd_syns; [exact D2|]. constructor; [exact Hy|]. rewrite S2, S1. exact Hrest. }
      destruct r.
      * eapply IH; [exact H|exact D2|apply evs_ok_app; assumption].
      * injection H as <- <-. split; [exact Hback|exact Hev].
      * eapply IH; [exact H|exact D2|exact Hev].
      * eapply IH; [exact H|exact Hback|exact Hev].
    + injection H as <- <-. split; [|exact Hev].
      apply DI_upd_syns; [exact D1|]. constructor; [exact Hy|]. rewrite S1. exact Hrest.
Qed.

Lemma cleanup_DI s s' e : cleanup_accept_queue s = (s', e) -> DI s -> DI s' /\ evs_ok e.
Proof.
  unfold cleanup_accept_queue. destruct (streams_full s); [intro H; injection H as <- <-; auto using evs_ok_nil|].
  intros H D. eapply cleanup_loop_DI; [exact H|exact D|exact evs_ok_nil].
Qed.

Lemma push_acceptors_DI : forall l s, DI s -> DI (fold_left push_acceptor l s).
Proof.
  induction l as [|x r IH]; intros s D; cbn [fold_left]; [exact D|]. apply IH.
  unfold push_acceptor. destruct (_ <? _); exact D.
Qed.

Lemma on_syn_loop_DI : forall fuel s y s' done e,
  on_syn_loop fuel s y = (s', done, e) -> DI s -> DI s' /\ d_syns s' = d_syns s /\ evs_ok e.
Proof.
  induction fuel as [|fuel IH]; intros s y s' done e H D; cbn [on_syn_loop] in H.
  - injection H as <- _ <-. split; [exact D|split; reflexivity].
  - destruct (try_next_acceptor s) as [s1 oa] eqn:Et.
    destruct (try_next_acceptor_DI _ _ _ Et D) as [D1 S1].
    destruct oa as [a|]; [|injection H as <- _ <-; split; [exact D1|split; [exact S1|reflexivity]]].
    destruct (match_syn_with_accept s1 y a) as [[s2 r] e2] eqn:Em.
    destruct (match_syn_DI _ _ _ _ _ _ Em D1) as (D2 & S2 & He).
    destruct r.
    + injection H as <- _ <-. split; [exact D2|split; [congruence|exact He]].
    + injection H as <- _ <-. split; [exact D2|split; [dsimpl; congruence|reflexivity]].
    + injection H as <- _ <-. split; [exact D2|split; [dsimpl; congruence|reflexivity]].
    + destruct (IH _ _ _ _ _ H D2) as (D3 & S3 & He3). split; [exact D3|split; [congruence|exact He3]].
Qed.

Lemma on_syn_DI s y s' e : on_syn s y = (s', e) -> DI s -> syn_ok y -> DI s' /\ evs_ok e.
Proof.
  unfold on_syn. intros H D Hy.
  assert (Hl : exists s1 done e1, (match d_syns s with
                | [] => on_syn_loop (length (d_chan s) + 2) s y
                | _ :: _ => (s, false, []) end) = (s1, done, e1) /\ DI s1 /\ evs_ok e1).
  { destruct (d_syns s).
    - destruct (on_syn_loop _ s y) as [[s1 done] e1] eqn:El.
      destruct (on_syn_loop_DI _ _ _ _ _ _ El D) as (D1 & _ & He). exists s1, done, e1.
      split; [reflexivity|split; assumption].
    - exists s, false, []. split; [reflexivity|split; [exact D|apply evs_ok_nil]]. }
  destruct Hl as (s1 & done & e1 & Heq & D1 & He1). rewrite Heq in H.
  destruct done; [injection H as <- <-; auto|].
  destruct (_ <? ACCEPT_QUEUE_MAX_SYNS).
  - injection H as <- <-. split; [|exact He1]. apply DI_upd_syns; [exact D1|].
    apply Forall_app. split; [exact (proj2 (proj2 D1))|constructor; [exact Hy|constructor]].
  - injection H as <- <-. split; [exact D1|]. apply evs_ok_app; [exact He1|].
    unfold evs_ok, c11_dstep_ok; cbn [forallb]. rewrite rst_event_ok; [reflexivity|exact (proj1 Hy)|exact (proj2 Hy)].
Qed.

Lemma next_free_conn_id_u16 : forall fuel s addr cid, u16 cid -> u16 (next_free_conn_id fuel s addr cid).
Proof.
  induction fuel as [|fuel IH]; intros s addr cid H; cbn [next_free_conn_id]; [exact H|].
  destruct (has_stream s _); [apply IH, wadd16_u16|exact H].
Qed.

Lemma on_control_DI s c send s' e : on_control s c send = (s', e) -> DI s -> DI s' /\ evs_ok e.
Proof.
  unfold on_control. intros H D. destruct c as [addr token|addr token|k].
  - destruct (streams_full s); [injection H as <- <-; split; [exact D|reflexivity]|].
    set (cid := next_free_conn_id _ s addr (d_next_conn_id s)) in *.
    assert (Hc : u16 cid) by (apply next_free_conn_id_u16; exact (proj1 D)).
    assert (D0 : DI (upd_conn_id s cid)) by (destruct D as (_ & D2 & D3); unfold DI; dsimpl; auto).
    destruct (next_random (upd_conn_id s cid)) as [s2 seq] eqn:En.
    destruct (next_random_DI _ _ _ En D0) as (D2 & Hq & _ & _).
    destruct send.
    + destruct (slots_insert _ _).
      * injection H as <- <-. split.
        -- destruct D2 as (_ & A2 & A3). unfold DI; dsimpl. split; [apply wadd16_u16|auto].
        -- unfold evs_ok, c11_dstep_ok; cbn [forallb]. rewrite syn_event_ok by assumption. reflexivity.
      * injection H as <- <-. split; [exact D2|].
        unfold evs_ok, c11_dstep_ok; cbn [forallb]. rewrite syn_event_ok by assumption. reflexivity.
    + injection H as <- <-. split; [exact D2|reflexivity].
    + injection H as <- <-. split; [exact D2|reflexivity].
  - destruct (get_slots s addr); [destruct (slots_pop _ _) as [[? ?]|]|]; injection H as <- <-;
      (split; [exact D|reflexivity]).
  - destruct (find_stream s k) as [en|]; [destruct (se_alive en)|]; injection H as <- <-;
      (split; [exact D|reflexivity]).
Qed.

Lemma on_maybe_connect_ack_DI s addr m s' e : on_maybe_connect_ack s addr m = (s', e) -> DI s ->
  DI s' /\ evs_ok e.
Proof.
  unfold on_maybe_connect_ack. intros H D.
  destruct (streams_full s); [injection H as <- <-; split; [exact D|reflexivity]|].
  destruct (get_slots s addr); [|injection H as <- <-; split; [exact D|reflexivity]].
  destruct (slots_pop _ _) as [[c sl']|]; [|injection H as <- <-; split; [exact D|reflexivity]].
  destruct (mem_z _ _); injection H as <- <-; (split; [exact D|reflexivity]).
Qed.

Lemma on_recv_DI s addr m s' e : on_recv s addr m = (s', e) -> DI s -> dmsg_okb m = true ->
  DI s' /\ evs_ok e.
Proof.
  unfold on_recv. intros H D Hm.
  destruct (find_stream s _) as [en|].
  - destruct (se_alive en); injection H as <- <-; (split; [exact D|reflexivity]).
  - destruct (dm_type m); try (injection H as <- <-; split; [exact D|reflexivity]).
    + exact (on_maybe_connect_ack_DI _ _ _ _ _ H D).
    + apply (on_syn_DI _ _ _ _ H D). unfold dmsg_okb in Hm.
      apply andb_prop in Hm. destruct Hm as [Hm _]. apply andb_prop in Hm. destruct Hm as [H1 H2].
      split; cbn [sy_conn sy_seq]; apply u16b_u16; assumption.
Qed.

Lemma arm_step_DI s2 a s' e : arm_step s2 a = (s', e) -> DI s2 ->
  match a with ArmRecv _ (Some m) => dmsg_okb m = true | _ => True end -> DI s' /\ evs_ok e.
Proof.
  unfold arm_step. intros H D Hm. destruct a as [|send|addr [m|]].
  - destruct (d_next_acc s2); [injection H as <- <-; split; [exact D|reflexivity]|].
    destruct (d_chan s2); injection H as <- <-; (split; [exact D|reflexivity]).
  - destruct (d_control s2) as [|c r]; [injection H as <- <-; split; [exact D|reflexivity]|].
    exact (on_control_DI _ _ _ _ _ H D).
  - exact (on_recv_DI _ _ _ _ _ H D Hm).
  - injection H as <- <-. split; [exact D|reflexivity].
Qed.

Theorem dstep_DI s o s' e : dstep s o = (s', e) -> DI s -> dop_okb o = true -> DI s' /\ evs_ok e.
Proof.
  intros H D Ho. destruct o as [pushes a|id|id|id|addr token|addr token|addr token|k].
  - rewrite dstep_run_once_eq in H.
    destruct (cleanup_accept_queue s) as [s1 e1] eqn:Ec.
    destruct (arm_step _ a) as [s3 e3] eqn:Ea. injection H as <- <-.
    destruct (cleanup_DI _ _ _ Ec D) as [D1 He1].
    destruct (arm_step_DI _ _ _ _ Ea (push_acceptors_DI pushes s1 D1)) as [D3 He3].
    { destruct a as [|send|addr [m|]]; try exact I. exact Ho. }
    split; [exact D3|apply evs_ok_app; assumption].
  - cbn [dstep] in H. injection H as <- <-. split; [|reflexivity]. unfold push_acceptor. destruct (_ <? _); exact D.
  - cbn [dstep] in H. destruct (find _ _) as [[x [k sid]]|]; injection H as <- <-; (split; [exact D|reflexivity]).
  - cbn [dstep] in H. injection H as <- <-. split; [exact D|reflexivity].
  - cbn [dstep] in H. injection H as <- <-. split; [exact D|reflexivity].
  - cbn [dstep] in H. injection H as <- <-. split; [exact D|reflexivity].
  - cbn [dstep] in H. injection H as <- <-. split; [|reflexivity]. destruct (existsb _ _); exact D.
  - cbn [dstep] in H. injection H as <- <-. split; [exact D|reflexivity].
Qed.

Lemma new_DI max_streams random : randoms_okb random = true -> DI (dstate_new max_streams random).
Proof.
  unfold randoms_okb. intro H.
  assert (HF : Forall u16 random).
  { apply Forall_forall. intros x Hx. apply u16b_u16. rewrite forallb_forall in H. exact (H x Hx). }
  unfold dstate_new. destruct random as [|r0 rs].
  - unfold DI; dsimpl. repeat split; try constructor; unfold u16; lia.
  - inversion HF; subst. unfold DI; dsimpl. repeat split; auto; try constructor; destruct H2; assumption.
Qed.

(* every op list: every emitted SYN / RESET is well-formed *)
Theorem dtrace_emitted_ok : forall ops s,
  DI s -> forallb dop_okb ops = true ->
  forallb (fun p => c11_dstep_ok (fst p)) (dtrace s ops) = true.
Proof.
  induction ops as [|o rest IH]; intros s D Hops; [reflexivity|].
  cbn [forallb] in Hops. apply andb_prop in Hops. destruct Hops as [Ho Hrest].
  cbn [dtrace]. destruct (dstep s o) as [s' e] eqn:E.
  destruct (dstep_DI _ _ _ _ E D Ho) as [D' He].
  cbn [forallb fst]. unfold evs_ok in He. rewrite He. cbn [andb]. apply IH; assumption.
Qed.

Theorem dispatcher_emitted_ok max_streams random ops :
  randoms_okb random = true -> forallb dop_okb ops = true ->
  forallb (fun p => c11_dstep_ok (fst p)) (dtrace (dstate_new max_streams random) ops) = true.
Proof. intros Hr Ho. apply dtrace_emitted_ok; [apply new_DI; exact Hr|exact Ho]. Qed.

(* ------------------------------------------------------------------ what an accepted event means on the wire *)
Theorem syn_event_on_the_wire a conn seq ts buflen :
  c11_devent_ok (EvSentSyn a conn seq) = true -> 0 <= ts < 4294967296 -> 20 <= buflen ->
  exists bs, serialize (syn_header conn seq ts) buflen = Some bs /\ Zlength bs = 20 /\
             nth 0 bs 0 mod 16 = 1 /\ nth 0 bs 0 / 16 = 4 /\
             deserialize bs = Some (syn_header conn seq ts, 20).
Proof.
  cbn [c11_devent_ok]. intros H Hts Hlen. apply andb_prop in H. destruct H as [H _].
  destruct (syn_header_ok_inv _ _ _ H) as [H1 H2].
  exact (header20_on_the_wire (syn_header conn seq ts) buflen (syn_header_ok _ _ _ H1 H2 Hts) eq_refl Hlen).
Qed.

Theorem rst_event_on_the_wire a conn ack buflen :
  c11_devent_ok (EvSentRst a conn ack) = true -> 20 <= buflen ->
  exists bs, serialize (rst_header conn ack) buflen = Some bs /\ Zlength bs = 20 /\
             nth 0 bs 0 mod 16 = 1 /\ nth 0 bs 0 / 16 = 3 /\
             deserialize bs = Some (rst_header conn ack, 20).
Proof.
  cbn [c11_devent_ok]. intros H Hlen.
  exact (header20_on_the_wire (rst_header conn ack) buflen H eq_refl Hlen).
Qed.

(* ------------------------------------------------------------------ the ids: ST_RESET
   a reset is the answer to the SYN datagram being handled in this very step: it goes back to the SYN's
   address, carries the SYN's connection id (the id the refused initiator receives on) and acknowledges
   the SYN's sequence number *)
Definition no_rst (e : list devent) : Prop := forall a c k, ~ In (EvSentRst a c k) e.

Lemma no_rst_nil : no_rst [].
Proof. intros a c k []. Qed.

Lemma no_rst_app x y : no_rst x -> no_rst y -> no_rst (x ++ y).
Proof. intros Hx Hy a c k Hin. apply in_app_or in Hin. destruct Hin; [eapply Hx|eapply Hy]; eassumption. Qed.

Lemma match_syn_no_rst s y acc s' r e : match_syn_with_accept s y acc = (s', r, e) -> no_rst e.
Proof.
  unfold match_syn_with_accept. intro H.
  destruct (streams_full s); [injection H as _ _ <-; apply no_rst_nil|].
  destruct (has_stream s _); [injection H as _ _ <-; apply no_rst_nil|].
  destruct (next_random s) as [s1 x].
  destruct (mem_z acc _); injection H as _ _ <-; [apply no_rst_nil|].
  intros a c k [Hx|[]]. discriminate Hx.
Qed.

Lemma cleanup_loop_no_rst : forall fuel s ev s' ev',
  cleanup_loop fuel s ev = (s', ev') -> no_rst ev -> no_rst ev'.
Proof.
  induction fuel as [|fuel IH]; intros s ev s' ev' H Hev; cbn [cleanup_loop] in H.
  - injection H as _ <-. exact Hev.
  - destruct (d_syns s) as [|y rest]; [injection H as _ <-; exact Hev|].
    destruct (try_next_acceptor _) as [s1 oa]. destruct oa as [acc|]; [|injection H as _ <-; exact Hev].
    destruct (match_syn_with_accept s1 y acc) as [[s2 r] e] eqn:Em.
    pose proof (match_syn_no_rst _ _ _ _ _ _ Em) as He.
    destruct r.
    + eapply IH; [exact H|apply no_rst_app; assumption].
    + injection H as _ <-. exact Hev.
    + eapply IH; [exact H|exact Hev].
    + eapply IH; [exact H|exact Hev].
Qed.

Lemma cleanup_no_rst s s' e : cleanup_accept_queue s = (s', e) -> no_rst e.
Proof.
  unfold cleanup_accept_queue. destruct (streams_full s); [intro H; injection H as _ <-; apply no_rst_nil|].
  intro H. eapply cleanup_loop_no_rst; [exact H|apply no_rst_nil].
Qed.

Lemma on_syn_loop_no_rst : forall fuel s y s' done e,
  on_syn_loop fuel s y = (s', done, e) -> no_rst e.
Proof.
  induction fuel as [|fuel IH]; intros s y s' done e H; cbn [on_syn_loop] in H.
  - injection H as _ _ <-. apply no_rst_nil.
  - destruct (try_next_acceptor s) as [s1 oa]. destruct oa as [acc|]; [|injection H as _ _ <-; apply no_rst_nil].
    destruct (match_syn_with_accept s1 y acc) as [[s2 r] e2] eqn:Em.
    pose proof (match_syn_no_rst _ _ _ _ _ _ Em) as He.
    destruct r.
    + injection H as _ _ <-. exact He.
    + injection H as _ _ <-. apply no_rst_nil.
    + injection H as _ _ <-. apply no_rst_nil.
    + exact (IH _ _ _ _ _ H).
Qed.

Lemma on_syn_rst s y s' e a c k : on_syn s y = (s', e) -> In (EvSentRst a c k) e ->
  a = sy_addr y /\ c = sy_conn y /\ k = sy_seq y.
Proof.
  unfold on_syn. intros H Hin.
  assert (Hl : exists s1 done e1, (match d_syns s with
                | [] => on_syn_loop (length (d_chan s) + 2) s y
                | _ :: _ => (s, false, []) end) = (s1, done, e1) /\ no_rst e1).
  { destruct (d_syns s).
    - destruct (on_syn_loop _ s y) as [[s1 done] e1] eqn:El.
      exists s1, done, e1. split; [reflexivity|exact (on_syn_loop_no_rst _ _ _ _ _ _ El)].
    - exists s, false, []. split; [reflexivity|apply no_rst_nil]. }
  destruct Hl as (s1 & done & e1 & Heq & Hn). rewrite Heq in H.
  destruct done; [injection H as _ <-; exfalso; exact (Hn _ _ _ Hin)|].
  destruct (_ <? ACCEPT_QUEUE_MAX_SYNS); injection H as _ <-; [exfalso; exact (Hn _ _ _ Hin)|].
  apply in_app_or in Hin. destruct Hin as [Hin|[Hx|[]]]; [exfalso; exact (Hn _ _ _ Hin)|].
  injection Hx as <- <- <-. auto.
Qed.

Theorem rst_event_facts s o s' e a c k :
  dstep s o = (s', e) -> In (EvSentRst a c k) e ->
  exists pushes m, o = DoRunOnce pushes (ArmRecv a (Some m)) /\ dm_type m = ST_SYN /\
                   c = dm_conn m /\ k = dm_seq m.
Proof.
  intros H Hin. destruct o as [pushes ar|id|id|id|addr token|addr token|addr token|k1];
    try (quiet H Hs; destruct Hin).
  rewrite dstep_run_once_eq in H.
  destruct (cleanup_accept_queue s) as [s1 e1] eqn:Ec.
  destruct (arm_step _ ar) as [s3 e3] eqn:Ea. injection H as <- <-.
  apply in_app_or in Hin. destruct Hin as [Hin|Hin]; [exfalso; exact (cleanup_no_rst _ _ _ Ec _ _ _ Hin)|].
  unfold arm_step in Ea. destruct ar as [|send|addr [m|]].
  - exfalso. destruct (d_next_acc _); [injection Ea as _ <-; destruct Hin|].
    destruct (d_chan _); injection Ea as _ <-; destruct Hin.
  - exfalso. destruct (d_control _) as [|c0 r]; [injection Ea as _ <-; destruct Hin|].
    exact (on_control_events _ _ _ _ _ Ea _ Hin).
  - unfold on_recv in Ea. destruct (find_stream _ _) as [en|].
    { exfalso. destruct (se_alive en); injection Ea as _ <-; destruct Hin as [Hx|[]]; discriminate. }
    destruct (dm_type m) eqn:Et; try (exfalso; injection Ea as _ <-; destruct Hin as [Hx|[]]; discriminate).
    + exfalso. unfold on_maybe_connect_ack in Ea.
      destruct (streams_full _); [injection Ea as _ <-; destruct Hin as [Hx|[]]; discriminate|].
      destruct (get_slots _ _); [|injection Ea as _ <-; destruct Hin as [Hx|[]]; discriminate].
      destruct (slots_pop _ _) as [[c1 sl']|]; [|injection Ea as _ <-; destruct Hin as [Hx|[]]; discriminate].
      destruct (mem_z _ _); injection Ea as _ <-; destruct Hin as [Hx|[]]; discriminate.
    + destruct (on_syn_rst _ _ _ _ _ _ _ Ea Hin) as (-> & -> & ->). cbn [sy_addr sy_conn sy_seq].
      exists pushes, m. auto.
  - exfalso. injection Ea as _ <-. destruct Hin as [Hx|[]]; discriminate.
Qed.

(* ------------------------------------------------------------------ the ids: ST_SYN
   "the connection created by a connect() receives on the id its SYN announced" is FALSE of the model
   (and of socket.rs on_maybe_connect_ack, which matches a SYN-ACK to a pending connect by (address, ack_nr)
   only: `Connecting` does not even store the announced id): a ST_STATE from the right address that
   acknowledges the SYN's sequence number but carries ANOTHER connection id completes the connect, and the
   new connection receives on (and, + 1, sends with) that other id. *)
Definition all_events (tr : list (list devent * dstate)) : list devent := flat_map fst tr.

Definition syn_id_ops : list dop :=
  [DoConnect 7 1; DoRunOnce [] (ArmControl SynSent);
   DoRunOnce [] (ArmRecv 7 (Some {| dm_type := ST_STATE; dm_conn := 999; dm_seq := 50; dm_ack := 200 |}))].

Lemma syn_ack_conn_id_unchecked_refuted :
  exists max_streams random ops a c q t k,
    randoms_okb random = true /\ forallb dop_okb ops = true /\
    all_events (dtrace (dstate_new max_streams random) ops) = [EvSentSyn a c q; EvConnected t k] /\
    k_addr k = a /\ k_conn k <> c.
Proof.
  exists 10, [100; 200], syn_id_ops, 7, 100, 200, 1, {| k_addr := 7; k_conn := 999 |}.
  vm_compute. repeat split; try reflexivity. intro H; discriminate H.
Qed.

(* the true form: the connector's key is the id of the acknowledging datagram (connected_event_facts,
   DispWiring_Proofs); it is the announced id exactly when the peer echoes it, as BEP 29 prescribes *)

(* non-vacuity of the hypotheses and of the RESET clause: 33 SYNs without an acceptor; the last one is
   refused with a ST_RESET carrying its id and acknowledging its sequence number *)
Definition syn_msg (i : Z) : dmsg := {| dm_type := ST_SYN; dm_conn := 1000 + i; dm_seq := 500 + i; dm_ack := 0 |}.
Definition rst_ops : list dop :=
  map (fun i => DoRunOnce [] (ArmRecv 9 (Some (syn_msg (Z.of_nat i))))) (seq 0 33).

Lemma rst_nonvacuous :
  randoms_okb [100; 200] = true /\ forallb dop_okb (syn_id_ops ++ rst_ops) = true /\
  all_events (dtrace (dstate_new 10 [100; 200]) rst_ops) = [EvSentRst 9 1032 532] /\
  forallb (fun p => c11_dstep_ok (fst p)) (dtrace (dstate_new 10 [100; 200]) (syn_id_ops ++ rst_ops)) = true.
Proof. vm_compute. repeat split; reflexivity. Qed.

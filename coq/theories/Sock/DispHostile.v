(* C10, socket half: raw datagrams into the dispatcher.  The recv arm of `run_once`
   (src/socket.rs) is `UtpMessage::deserialize(&read_buf[..len])` followed, if it parsed, by
   `on_recv(addr, message)`; if it did not parse the arm returns Ok(()) at once.  This file is
   the composition of the wire model (Wire/Header.v, `msg_deserialize`) with the dispatcher model
   (Sock/Dispatcher.v) - exactly what driver/c_disp.ml does for the `G` op of the `disp_hostile`
   component - the op alphabet "raw datagrams + everything else", and the boolean predicate
   over one observed step that states C10's socket clauses.  Model only, no proofs. *)
From Utp Require Import Base.Prelude Wire.SeqNr Wire.Header Sock.Dispatcher Sock.DispObs.

(* what the dispatcher looks at in a parsed message *)
Definition dmsg_of_header (h : header) : dmsg :=
  {| dm_type := h_type h; dm_conn := h_conn h; dm_seq := h_seq h; dm_ack := h_ack h |}.

Inductive raw_parse :=
| RpPanic                 (* UtpMessage::deserialize panicked (slice index) *)
| RpGarbage               (* returned None *)
| RpMsg (m : dmsg).

Definition parse_raw (bs : list Z) : raw_parse :=
  match msg_deserialize bs with
  | MsgPanic => RpPanic
  | MsgNone => RpGarbage
  | MsgSome h _ => RpMsg (dmsg_of_header h)
  end.

(* ---- the recv arm on raw bytes: parse, then HandleRecv ---- *)
Inductive raw_out :=
| RoPanic
| RoOk (s' : dstate) (e : list devent).

Definition handle_recv_raw (s : dstate) (addr : Z) (bs : list Z) : raw_out :=
  match parse_raw bs with
  | RpPanic => RoPanic
  | RpGarbage => RoOk s [EvDropped]
  | RpMsg m => let '(s', e) := on_recv s addr m in RoOk s' e
  end.

(* ---- op lists with raw datagrams ---- *)
Inductive rop :=
| RopRaw (parked_pushes : list Z) (addr : Z) (bs : list Z)   (* one run_once whose recv arm fires with these bytes *)
| RopOp (o : dop).                                           (* anything else, incl. already parsed datagrams *)

(* None = the parser panicked *)
Definition rop_dop (o : rop) : option dop :=
  match o with
  | RopOp d => Some d
  | RopRaw pushes addr bs =>
      match parse_raw bs with
      | RpPanic => None
      | RpGarbage => Some (DoRunOnce pushes (ArmRecv addr None))
      | RpMsg m => Some (DoRunOnce pushes (ArmRecv addr (Some m)))
      end
  end.

Definition rstep (s : dstate) (o : rop) : option (dstate * list devent) :=
  match rop_dop o with
  | Some d => Some (dstep s d)
  | None => None
  end.

Fixpoint rrun (s : dstate) (ops : list rop) : option dstate :=
  match ops with
  | [] => Some s
  | o :: r => match rstep s o with Some (s', _) => rrun s' r | None => None end
  end.

(* ---- the observable clauses of one run_once whose recv arm fired ---- *)
(* key an incoming connection answering SYN y is registered under (receive id = SYN's id + 1) *)
Definition hk_syn_key (y : syn) : skey := {| k_addr := sy_addr y; k_conn := wadd16 (sy_conn y) 1 |}.
Definition hk_syn_of (addr : Z) (m : dmsg) : syn := {| sy_addr := addr; sy_conn := dm_conn m; sy_seq := dm_seq m |}.

Definition obs_has (l : list (skey * bool)) (p : skey * bool) : bool :=
  existsb (fun q => skey_eqb (fst q) (fst p) && Bool.eqb (snd q) (snd p)) l.

Definition is_own_key (addr : Z) (om : option dmsg) (k : skey) : bool :=
  match om with
  | Some m => skey_eqb k {| k_addr := addr; k_conn := dm_conn m |}
  | None => false
  end.

(* the key a datagram that was NOT forwarded may create an entry under *)
Definition may_create (addr : Z) (om : option dmsg) (k : skey) : bool :=
  match om with
  | Some m =>
      match dm_type m with
      | ST_SYN => skey_eqb k (hk_syn_key (hk_syn_of addr m))
      | ST_STATE => skey_eqb k {| k_addr := addr; k_conn := dm_conn m |}
      | _ => false
      end
  | None => false
  end.

Definition is_syn (om : option dmsg) : bool :=
  match om with Some m => ptype_eqb (dm_type m) ST_SYN | None => false end.

(* post = a suffix of pre (cleanup serves from the front), or - for a SYN only - that suffix
   with exactly this SYN appended *)
Definition backlog_ok (addr : Z) (om : option dmsg) (pre post : list syn) : bool :=
  existsb (fun n =>
             let suf := skipn n pre in
             syns_eqb post suf ||
             match om with
             | Some m => is_syn om && syns_eqb post (suf ++ [hk_syn_of addr m])
             | None => false
             end)
          (seq 0 (S (length pre))).

(* `om` = what the datagram of this step parsed to (None = garbage); `o` = the observation of
   the whole run_once (cleanup_accept_queue, then the recv arm).
   1 forwarded to at most one connection, and only to the one keyed (addr, connection id);
     garbage is forwarded nowhere
   2 every entry with another key is in the table afterwards, unchanged (garbage: every entry)
   3 a key that is new in the table is the datagram's own (SYN: id + 1; ST_STATE: id) or the
     key of a SYN that was waiting in the backlog (served by cleanup); garbage, data, FIN and
     RESET create nothing of their own
   4 the backlog only loses SYNs from the front and gains at most this SYN
   5 a reset is sent only for a SYN, at most one
   6 the control channel is not touched *)
Definition c10_disp_step_ok (addr : Z) (om : option dmsg) (o : dstep_obs) : bool :=
  let pre := so_pre o in
  let post := so_post o in
  forallb (is_own_key addr om) (so_fwd o) && (Z.of_nat (length (so_fwd o)) <=? 1) &&
  forallb (fun p => is_own_key addr om (fst p) || obs_has (ob_streams post) p) (ob_streams pre) &&
  forallb (fun q => existsb (fun p => skey_eqb (fst p) (fst q)) (ob_streams pre) ||
                    existsb (fun y => skey_eqb (fst q) (hk_syn_key y)) (ob_syns pre) ||
                    may_create addr om (fst q)) (ob_streams post) &&
  backlog_ok addr om (ob_syns pre) (ob_syns post) &&
  (if is_syn om then so_rsts o <=? 1 else so_rsts o =? 0) &&
  (ob_ct post =? ob_ct pre).

(* the static bounds of the dispatcher's own state, on one observation *)
Definition c10_disp_bounds_ok (max_streams : Z) (o : dobs) : bool :=
  nodupb (map fst (ob_streams o)) &&
  (Z.of_nat (length (ob_streams o)) <=? Z.max 0 max_streams) &&
  (Z.of_nat (length (ob_syns o)) <=? ACCEPT_QUEUE_MAX_SYNS) &&
  (ob_ch o <=? ACCEPT_QUEUE_MAX_ACCEPTORS).

(* the raw-op trace: per step, what the datagram parsed to (for a raw step) and the observation *)
Fixpoint rtrace (s : dstate) (ops : list rop) : list (option (Z * option dmsg) * dstep_obs) :=
  match ops with
  | [] => []
  | o :: r =>
      match rop_dop o with
      | None => []
      | Some d =>
          let '(s', e) := dstep s d in
          let tag := match d with
                     | DoRunOnce _ (ArmRecv addr om) => Some (addr, om)
                     | _ => None
                     end in
          (tag, dstep_obs_of s e s') :: rtrace s' r
      end
  end.

Definition c10_disp_trace_ok (max_streams : Z) (tr : list (option (Z * option dmsg) * dstep_obs)) : bool :=
  forallb (fun x =>
             c10_disp_bounds_ok max_streams (so_post (snd x)) &&
             match fst x with
             | Some (addr, om) => c10_disp_step_ok addr om (snd x)
             | None => true
             end) tr.

From Utp Require Import Base.Prelude Wire.SeqNr Wire.Header Sock.Dispatcher.

Definition keys (l : list sentry) : list skey := map se_key l.

Lemma skey_eqb_eq a b : skey_eqb a b = true <-> a = b.
Proof.
  unfold skey_eqb. destruct a as [a1 a2], b as [b1 b2]; cbn [k_addr k_conn].
  rewrite andb_true_iff, !Z.eqb_eq. split; [intros [-> ->]; reflexivity|intro H; injection H; auto].
Qed.

Lemma skey_eqb_refl a : skey_eqb a a = true.
Proof. apply skey_eqb_eq. reflexivity. Qed.

(* ------------------------------------------------------------------ the table invariant *)
Definition d_inv (s : dstate) : Prop :=
  NoDup (keys (d_streams s)) /\
  Z.of_nat (length (d_streams s)) <= Z.max 0 (d_max_streams s) /\
  Z.of_nat (length (d_syns s)) <= ACCEPT_QUEUE_MAX_SYNS /\
  Z.of_nat (length (d_chan s)) <= ACCEPT_QUEUE_MAX_ACCEPTORS /\
  Forall (fun p => length (snd p) = MAX_CONNECTING_PER_ADDR) (d_connecting s).

Lemma remove_stream_keys l k : keys (remove_stream l k) = filter (fun x => negb (skey_eqb x k)) (keys l).
Proof.
  unfold keys, remove_stream. induction l as [|e r IH]; cbn [filter map]; [reflexivity|].
  destruct (skey_eqb (se_key e) k); cbn [negb map]; rewrite IH; reflexivity.
Qed.

Lemma NoDup_filter {A} (f : A -> bool) l : NoDup l -> NoDup (filter f l).
Proof.
  induction 1 as [|x l Hn Hd IH]; cbn [filter]; [constructor|].
  destruct (f x); [constructor; [|exact IH]|exact IH].
  intro Hin. apply filter_In in Hin. tauto.
Qed.

Lemma remove_stream_nodup l k : NoDup (keys l) -> NoDup (keys (remove_stream l k)).
Proof. intro H. rewrite remove_stream_keys. apply NoDup_filter. exact H. Qed.

Lemma remove_stream_not_in l k : ~ In k (keys (remove_stream l k)).
Proof.
  rewrite remove_stream_keys. intro H. apply filter_In in H. destruct H as [_ H].
  rewrite skey_eqb_refl in H. discriminate.
Qed.

Lemma remove_stream_length l k : (length (remove_stream l k) <= length l)%nat.
Proof.
  unfold remove_stream. induction l as [|e r IH]; cbn [filter length]; [lia|].
  destruct (negb _); cbn [length]; lia.
Qed.

Lemma find_none_not_in l k :
  find (fun e => skey_eqb (se_key e) k) l = None -> ~ In k (keys l).
Proof.
  intros Hf Hin. unfold keys in Hin. apply in_map_iff in Hin. destruct Hin as (e & <- & He).
  pose proof (find_none _ _ Hf e He) as H. cbn in H. rewrite skey_eqb_refl in H. discriminate.
Qed.

Lemma remove_absent l k : ~ In k (keys l) -> remove_stream l k = l.
Proof.
  unfold remove_stream, keys. induction l as [|e r IH]; cbn [filter map In]; intro H; [reflexivity|].
  destruct (skey_eqb (se_key e) k) eqn:E.
  - exfalso. apply H. left. apply skey_eqb_eq. exact E.
  - cbn [negb]. f_equal. apply IH. tauto.
Qed.

Lemma insert_absent_keys l k sid : ~ In k (keys l) -> keys (insert_stream l k sid) = keys l ++ [k].
Proof.
  intro H. unfold insert_stream. rewrite (remove_absent l k H). unfold keys. rewrite map_app. reflexivity.
Qed.

Lemma NoDup_app_single {A} (l : list A) x : NoDup l -> ~ In x l -> NoDup (l ++ [x]).
Proof.
  intros Hn Hx. induction Hn as [|y l Hy Hn IH]; cbn [app]; [constructor; [tauto|constructor]|].
  constructor.
  - intro Hin. apply in_app_or in Hin. destruct Hin as [Hin|[<-|[]]]; [tauto|]. apply Hx. left; reflexivity.
  - apply IH. intro Hin. apply Hx. right; exact Hin.
Qed.

(* ------------------------------------------------------------------ small-step facts *)
Ltac dsimpl := cbn [d_streams d_connecting d_syns d_next_acc d_chan d_control d_next_conn_id
  d_max_streams d_random d_dead_acceptors d_handed d_next_sid d_dead_connectors d_results
  upd_streams upd_connecting upd_syns upd_acc upd_control upd_conn_id upd_random upd_ends bump_sid] in *.

(* the parts of the invariant that do not involve syns/chan/connecting *)
Definition st_inv (s : dstate) : Prop :=
  NoDup (keys (d_streams s)) /\ Z.of_nat (length (d_streams s)) <= Z.max 0 (d_max_streams s).

Lemma next_random_same s s' x : next_random s = (s', x) ->
  d_streams s' = d_streams s /\ d_max_streams s' = d_max_streams s /\ d_syns s' = d_syns s /\
  d_chan s' = d_chan s /\ d_next_acc s' = d_next_acc s /\ d_connecting s' = d_connecting s /\
  d_control s' = d_control s.
Proof.
  unfold next_random. destruct (d_random s); intro H; injection H as <- _; dsimpl; repeat split.
Qed.

Lemma match_syn_spec s y a s' r e :
  st_inv s -> match_syn_with_accept s y a = (s', r, e) ->
  st_inv s' /\ d_max_streams s' = d_max_streams s /\ d_syns s' = d_syns s /\ d_chan s' = d_chan s /\
  d_next_acc s' = d_next_acc s /\ d_connecting s' = d_connecting s /\ d_control s' = d_control s /\
  (* nothing is ever removed or replaced *)
  incl (d_streams s) (d_streams s') /\
  match r with
  | MrMatched =>
      e = [EvAccepted a {| k_addr := sy_addr y; k_conn := wadd16 (sy_conn y) 1 |}] /\
      keys (d_streams s') = keys (d_streams s) ++ [{| k_addr := sy_addr y; k_conn := wadd16 (sy_conn y) 1 |}] /\
      ~ In a (d_dead_acceptors s)
  | MrReceiverDead => e = [] /\ d_streams s' = d_streams s /\ In a (d_dead_acceptors s)
  | MrFull => e = [] /\ s' = s /\ streams_full s = true
  | MrSynInvalid => e = [] /\ s' = s
  end.
Proof.
  intros [Hn Hl]. unfold match_syn_with_accept.
  destruct (streams_full s) eqn:Ef.
  { intro H; injection H as <- <- <-. repeat split; auto using incl_refl. }
  set (k := {| k_addr := sy_addr y; k_conn := wadd16 (sy_conn y) 1 |}).
  unfold has_stream, find_stream. destruct (find _ (d_streams s)) eqn:Efind.
  { intro H; injection H as <- <- <-. repeat split; auto using incl_refl. }
  destruct (next_random s) as [s1 x] eqn:Er.
  destruct (next_random_same _ _ _ Er) as (R1 & R2 & R3 & R4 & R5 & R6 & R7).
  pose proof (find_none_not_in _ _ Efind) as Hnotin.
  destruct (mem_z a (d_dead_acceptors s1)) eqn:Em.
  { intro H; injection H as <- <- <-.
    assert (Hdead : In a (d_dead_acceptors s)).
    { unfold next_random in Er. unfold mem_z in Em. apply existsb_exists in Em.
      destruct Em as (z & Hz & Hez). apply Z.eqb_eq in Hez. subst z.
      destruct (d_random s); injection Er as <- _; dsimpl; exact Hz. }
    unfold st_inv. rewrite ?R1, ?R2. repeat split; auto using incl_refl. }
  intro H; injection H as <- <- <-. unfold st_inv; dsimpl. rewrite R1, R2 in *.
  rewrite (insert_absent_keys _ _ _ Hnotin).
  assert (Hlen : length (insert_stream (d_streams s) k (d_next_sid s1)) = S (length (d_streams s))).
  { unfold insert_stream. rewrite (remove_absent _ _ Hnotin), app_length. cbn. lia. }
  unfold streams_full in Ef. apply Z.leb_gt in Ef.
  repeat split; auto.
  - apply NoDup_app_single; assumption.
  - rewrite Hlen. lia.
  - unfold insert_stream. rewrite (remove_absent _ _ Hnotin). apply incl_appl. apply incl_refl.
  - unfold mem_z in Em. intro Hin. assert (Hx : existsb (Z.eqb a) (d_dead_acceptors s1) = true).
    { apply existsb_exists. exists a. split; [|apply Z.eqb_refl].
      unfold next_random in Er. destruct (d_random s); injection Er as <- _; dsimpl; exact Hin. }
    congruence.
Qed.

Lemma try_next_acceptor_spec s s' oa :
  try_next_acceptor s = (s', oa) ->
  d_streams s' = d_streams s /\ d_max_streams s' = d_max_streams s /\ d_syns s' = d_syns s /\
  d_connecting s' = d_connecting s /\ d_control s' = d_control s /\ d_next_acc s' = None /\
  (length (d_chan s') <= length (d_chan s))%nat /\
  match oa with
  | Some a => (d_next_acc s = Some a /\ d_chan s' = d_chan s) \/
              (d_next_acc s = None /\ d_chan s = a :: d_chan s')
  | None => d_next_acc s = None /\ d_chan s = [] /\ s' = s
  end.
Proof.
  unfold try_next_acceptor. destruct (d_next_acc s) as [a|] eqn:En.
  - intro H; injection H as <- <-. dsimpl. repeat split; auto.
  - destruct (d_chan s) as [|a r] eqn:Ec; intro H; injection H as <- <-; dsimpl.
    + rewrite Ec. repeat split; auto.
    + repeat split; auto. cbn. lia.
Qed.

(* ------------------------------------------------------------------ accept queue *)
Definition all_accepted (e : list devent) : Prop :=
  Forall (fun x => match x with EvAccepted _ _ => True | _ => False end) e.

(* what cleanup / on_syn may change, and what they never do *)
Record frame (s s' : dstate) : Prop := {
  fr_max : d_max_streams s' = d_max_streams s;
  fr_conn : d_connecting s' = d_connecting s;
  fr_ctl : d_control s' = d_control s;
  fr_keep : incl (d_streams s) (d_streams s');
  fr_chan : (length (d_chan s') <= length (d_chan s))%nat;
}.

Lemma frame_of_eq s s' :
  d_max_streams s' = d_max_streams s -> d_connecting s' = d_connecting s ->
  d_control s' = d_control s -> d_streams s' = d_streams s ->
  (length (d_chan s') <= length (d_chan s))%nat -> frame s s'.
Proof. intros A B C D E. constructor; auto. rewrite D. apply incl_refl. Qed.

Lemma frame_refl s : frame s s.
Proof. constructor; auto using incl_refl. Qed.

Lemma frame_trans a b c : frame a b -> frame b c -> frame a c.
Proof.
  intros [A1 A2 A3 A4 A5] [B1 B2 B3 B4 B5]. constructor; try congruence; [eapply incl_tran; eauto|lia].
Qed.

Lemma cleanup_loop_spec : forall fuel s ev s' ev',
  st_inv s -> all_accepted ev -> cleanup_loop fuel s ev = (s', ev') ->
  st_inv s' /\ all_accepted ev' /\ frame s s' /\ (length (d_syns s') <= length (d_syns s))%nat.
Proof.
  induction fuel as [|fuel IH]; intros s ev s' ev' Hst Hev; cbn [cleanup_loop].
  { intro H; injection H as <- <-. auto using frame_refl. }
  destruct (d_syns s) as [|y rest] eqn:Es.
  { intro H; injection H as <- <-. rewrite Es. auto using frame_refl. }
  destruct (try_next_acceptor (upd_syns s rest)) as [s1 oa] eqn:Et.
  destruct (try_next_acceptor_spec _ _ _ Et) as (T1 & T2 & T3 & T4 & T5 & T6 & T7 & T8). dsimpl.
  assert (Hst1 : st_inv s1) by (unfold st_inv in *; rewrite T1, T2; exact Hst).
  assert (Hf1 : frame s s1) by (apply frame_of_eq; dsimpl; congruence || exact T7).
  destruct oa as [a|].
  - destruct (match_syn_with_accept s1 y a) as [[s2 r] e] eqn:Em.
    destruct (match_syn_spec _ _ _ _ _ _ Hst1 Em) as (M0 & M1 & M2 & M3 & M4 & M5 & M6 & M7 & M8).
    assert (Hf2 : frame s s2).
    { eapply frame_trans; [exact Hf1|]. constructor; try congruence; auto. rewrite M3. lia. }
    destruct r.
    + (* matched *)
      destruct M8 as (-> & _ & _). intro H. apply IH in H; [|exact M0|].
      * destruct H as (A & B & C & D). split; [exact A|]. split; [exact B|].
        split; [eapply frame_trans; eauto|]. rewrite M2, T3 in D. cbn [length]. lia.
      * apply Forall_app. split; [exact Hev|]. constructor; [exact I|constructor].
    + (* full: put both back and stop *)
      destruct M8 as (-> & -> & _). intro H; injection H as <- <-. dsimpl.
      split; [unfold st_inv in *; dsimpl; exact Hst1|]. split; [exact Hev|].
      split; [apply frame_of_eq; dsimpl; congruence || exact T7|].
      rewrite T3. cbn [length]. lia.
    + (* the SYN clashes with an existing stream: it is dropped, the acceptor is kept *)
      destruct M8 as (-> & ->). intro H. apply IH in H.
      * destruct H as (A & B & C & D). dsimpl. split; [exact A|]. split; [exact B|].
        split; [eapply frame_trans; [|exact C]; apply frame_of_eq; dsimpl; congruence || exact T7|].
        rewrite T3 in D. cbn [length]. lia.
      * unfold st_inv in *; dsimpl. exact Hst1.
      * exact Hev.
    + (* the acceptor is dead: it is dropped, the SYN is kept *)
      destruct M8 as (-> & Hs & _). intro H. apply IH in H.
      * destruct H as (A & B & C & D). dsimpl. split; [exact A|]. split; [exact B|].
        split; [eapply frame_trans; [|exact C]; apply frame_of_eq; dsimpl; try congruence;
                rewrite M3; exact T7|].
        rewrite M2, T3 in D. cbn [length] in *. lia.
      * unfold st_inv in *; dsimpl. exact M0.
      * exact Hev.
  - destruct T8 as (_ & _ & ->). intro H; injection H as <- <-. dsimpl.
    split; [exact Hst|]. split; [exact Hev|].
    split; [apply frame_of_eq; dsimpl; auto|]. cbn [length]. lia.
Qed.

Lemma cleanup_spec s s' e :
  st_inv s -> cleanup_accept_queue s = (s', e) ->
  st_inv s' /\ all_accepted e /\ frame s s' /\ (length (d_syns s') <= length (d_syns s))%nat.
Proof.
  intros Hst. unfold cleanup_accept_queue. destruct (streams_full s).
  - intro H; injection H as <- <-. split; [exact Hst|]. split; [constructor|]. split; [apply frame_refl|lia].
  - intro H. eapply cleanup_loop_spec; eauto. constructor.
Qed.

Lemma on_syn_loop_spec : forall fuel s y s' done e,
  st_inv s -> on_syn_loop fuel s y = (s', done, e) ->
  st_inv s' /\ all_accepted e /\ frame s s' /\ d_syns s' = d_syns s.
Proof.
  induction fuel as [|fuel IH]; intros s y s' done e Hst; cbn [on_syn_loop].
  { intro H; injection H as <- <- <-. split; [exact Hst|]. split; [constructor|]. split; [apply frame_refl|reflexivity]. }
  destruct (try_next_acceptor s) as [s1 oa] eqn:Et.
  destruct (try_next_acceptor_spec _ _ _ Et) as (T1 & T2 & T3 & T4 & T5 & T6 & T7 & T8).
  assert (Hst1 : st_inv s1) by (unfold st_inv in *; rewrite T1, T2; exact Hst).
  assert (Hf1 : frame s s1) by (apply frame_of_eq; congruence || exact T7).
  destruct oa as [a|].
  - destruct (match_syn_with_accept s1 y a) as [[s2 r] e2] eqn:Em.
    destruct (match_syn_spec _ _ _ _ _ _ Hst1 Em) as (M0 & M1 & M2 & M3 & M4 & M5 & M6 & M7 & M8).
    assert (Hf2 : frame s s2).
    { eapply frame_trans; [exact Hf1|]. constructor; try congruence; auto. rewrite M3. lia. }
    destruct r.
    + destruct M8 as (-> & _ & _). intro H; injection H as <- <- <-.
      split; [exact M0|]. split; [constructor; [exact I|constructor]|]. split; [exact Hf2|congruence].
    + destruct M8 as (-> & -> & _). intro H; injection H as <- <- <-. dsimpl.
      split; [unfold st_inv in *; dsimpl; exact Hst1|]. split; [constructor|].
      split; [apply frame_of_eq; dsimpl; congruence || exact T7|congruence].
    + destruct M8 as (-> & ->). intro H; injection H as <- <- <-. dsimpl.
      split; [unfold st_inv in *; dsimpl; exact Hst1|]. split; [constructor|].
      split; [apply frame_of_eq; dsimpl; congruence || exact T7|congruence].
    + destruct M8 as (-> & Hs & _). intro H. apply IH in H; [|exact M0].
      destruct H as (A & B & C & D). split; [exact A|]. split; [exact B|].
      split; [eapply frame_trans; eauto|congruence].
  - destruct T8 as (_ & _ & ->). intro H; injection H as <- <- <-.
    split; [exact Hst|]. split; [constructor|]. split; [apply frame_refl|reflexivity].
Qed.

(* backlog: at most 32 cached SYNs; a SYN that cannot be served or cached gets exactly one RST;
   a SYN is served directly only when no older SYN is queued *)
Lemma on_syn_spec s y s' e :
  st_inv s -> Z.of_nat (length (d_syns s)) <= ACCEPT_QUEUE_MAX_SYNS -> on_syn s y = (s', e) ->
  st_inv s' /\ frame s s' /\ Z.of_nat (length (d_syns s')) <= ACCEPT_QUEUE_MAX_SYNS /\
  ((all_accepted e /\ (d_syns s' = d_syns s \/ d_syns s' = d_syns s ++ [y])) \/
   (exists e0, all_accepted e0 /\ e = e0 ++ [EvSentRst (sy_addr y) (sy_conn y) (sy_seq y)] /\
               d_syns s' = d_syns s /\ Z.of_nat (length (d_syns s)) = ACCEPT_QUEUE_MAX_SYNS)) /\
  (d_syns s <> [] -> d_streams s' = d_streams s /\ d_handed s' = d_handed s /\
                     (e = [] \/ e = [EvSentRst (sy_addr y) (sy_conn y) (sy_seq y)])).
Proof.
  intros Hst Hlen. unfold on_syn.
  assert (Hloop : exists s1 done e1,
     match d_syns s with [] => on_syn_loop (length (d_chan s) + 2) s y | _ :: _ => (s, false, []) end
       = (s1, done, e1) /\
     st_inv s1 /\ all_accepted e1 /\ frame s s1 /\ d_syns s1 = d_syns s /\
     (d_syns s <> [] -> s1 = s /\ done = false /\ e1 = [])).
  { destruct (d_syns s) as [|y0 r0] eqn:Es.
    - destruct (on_syn_loop _ s y) as [[s1 done] e1] eqn:El.
      destruct (on_syn_loop_spec _ _ _ _ _ _ Hst El) as (A & B & C & D).
      exists s1, done, e1. split; [reflexivity|]. split; [exact A|]. split; [exact B|]. split; [exact C|].
      split; [congruence|]. intro Hn. exfalso. apply Hn. reflexivity.
    - exists s, false, []. split; [reflexivity|]. split; [exact Hst|]. split; [constructor|].
      split; [apply frame_refl|]. split; [exact Es|]. intros _. auto. }
  destruct Hloop as (s1 & done & e1 & -> & A & B & C & D & E).
  destruct done.
  - intro H; injection H as <- <-. split; [exact A|]. split; [exact C|]. split; [rewrite D; exact Hlen|].
    split; [left; split; [exact B|left; exact D]|].
    intro Hne. destruct (E Hne) as (_ & Hd & _). discriminate.
  - destruct (Z.ltb_spec (Z.of_nat (length (d_syns s1))) ACCEPT_QUEUE_MAX_SYNS) as [Hlt|Hge];
    intro H; injection H as <- <-.
    + dsimpl. split; [unfold st_inv in *; dsimpl; exact A|].
      split; [destruct C; constructor; dsimpl; auto|].
      split; [rewrite app_length; cbn [length]; lia|].
      split; [left; split; [exact B|right; rewrite D; reflexivity]|].
      intro Hne. destruct (E Hne) as (-> & _ & ->). dsimpl. auto.
    + split; [exact A|]. split; [exact C|]. split; [rewrite D; exact Hlen|].
      split; [right; exists e1; repeat split; auto; rewrite D in Hge; lia|].
      intro Hne. destruct (E Hne) as (-> & _ & ->). auto.
Qed.

(* ------------------------------------------------------------------ connecting slots *)
Lemma slots_insert_length l c l' : slots_insert l c = Some l' -> length l' = length l.
Proof.
  revert l'; induction l as [|x r IH]; intros l'; cbn [slots_insert]; [discriminate|].
  destruct x.
  - destruct (slots_insert r c) eqn:E; [|discriminate]. intro H; injection H as <-.
    cbn [length]. f_equal. apply IH. reflexivity.
  - intro H; injection H as <-. reflexivity.
Qed.

Lemma slots_pop_length p l : forall c l', slots_pop p l = Some (c, l') -> length l' = length l.
Proof.
  induction l as [|x r IH]; intros c l'; cbn [slots_pop]; [discriminate|].
  destruct x as [x|].
  - destruct (p x); [intro H; injection H as _ <-; reflexivity|].
    destruct (slots_pop p r) as [[c0 r']|] eqn:E; [|discriminate].
    intro H; injection H as _ <-. cbn [length]. f_equal. eapply IH. reflexivity.
  - destruct (slots_pop p r) as [[c0 r']|] eqn:E; [|discriminate].
    intro H; injection H as _ <-. cbn [length]. f_equal. eapply IH. reflexivity.
Qed.

Definition conn_inv (l : list (Z * list (option connecting))) : Prop :=
  Forall (fun p => length (snd p) = MAX_CONNECTING_PER_ADDR) l.

Lemma get_slots_length s addr sl : conn_inv (d_connecting s) -> get_slots s addr = Some sl ->
  length sl = MAX_CONNECTING_PER_ADDR.
Proof.
  unfold get_slots, conn_inv. intros Hc. destruct (find _ _) as [p|] eqn:E; [|discriminate].
  intro H; injection H as <-. apply find_some in E. rewrite Forall_forall in Hc. apply Hc. tauto.
Qed.

Lemma set_slots_inv l addr sl :
  conn_inv l -> match sl with Some x => length x = MAX_CONNECTING_PER_ADDR | None => True end ->
  conn_inv (set_slots l addr sl).
Proof.
  unfold conn_inv, set_slots. intros Hc Hs.
  assert (Hf : Forall (fun p => length (snd p) = MAX_CONNECTING_PER_ADDR)
                      (filter (fun p => negb (fst p =? addr)) l)).
  { rewrite Forall_forall in *. intros p Hp. apply filter_In in Hp. apply Hc. tauto. }
  destruct sl; [apply Forall_app; split; [exact Hf|constructor; [exact Hs|constructor]]|exact Hf].
Qed.

(* ------------------------------------------------------------------ control messages *)
Lemma d_inv_same_tables s s' :
  d_inv s -> d_streams s' = d_streams s -> d_max_streams s' = d_max_streams s ->
  d_syns s' = d_syns s -> d_chan s' = d_chan s -> conn_inv (d_connecting s') -> d_inv s'.
Proof.
  intros (I1 & I2 & I3 & I4 & I5) A B C D E. unfold d_inv. rewrite A, B, C, D. repeat split; auto.
Qed.

Lemma on_control_spec s c send s' e :
  d_inv s -> on_control s c send = (s', e) ->
  d_inv s' /\ d_max_streams s' = d_max_streams s /\
  match c with
  | CtlShutdown k =>
      e = [] /\
      match find_stream s k with
      | Some en =>
          if se_alive en then s' = s      (* the key was re-used by a live connection: untouched *)
          else
            (* exactly this key is released, nothing else is touched *)
            keys (d_streams s') = filter (fun x => negb (skey_eqb x k)) (keys (d_streams s)) /\
            ~ In k (keys (d_streams s')) /\
            (forall en', In en' (d_streams s) -> se_key en' <> k -> In en' (d_streams s'))
      | None => s' = s
      end
  | _ => d_streams s' = d_streams s
  end.
Proof.
  intros Hinv. pose proof Hinv as (I1 & I2 & I3 & I4 & I5).
  destruct c as [addr token|addr token|k]; cbn [on_control].
  - destruct (streams_full s).
    { intro H; injection H as <- <-. split; [|split; reflexivity].
      apply (d_inv_same_tables s); dsimpl; auto. }
    set (cid := next_free_conn_id _ s addr (d_next_conn_id s)).
    destruct (next_random (upd_conn_id s cid)) as [s2 seq] eqn:Er.
    destruct (next_random_same _ _ _ Er) as (R1 & R2 & R3 & R4 & R5 & R6 & R7). dsimpl.
    assert (Hc2 : conn_inv (d_connecting s2)) by (rewrite R6; exact I5).
    destruct send.
    + set (sl := match get_slots s2 addr with Some x => x | None => empty_slots end).
      assert (Hl : length sl = MAX_CONNECTING_PER_ADDR).
      { unfold sl. destruct (get_slots s2 addr) eqn:Eg; [eapply get_slots_length; eauto|reflexivity]. }
      destruct (slots_insert sl _) as [sl'|] eqn:Ei; intro H; injection H as <- <-;
        (split; [|split; dsimpl; congruence]);
        apply (d_inv_same_tables s); dsimpl; try congruence.
      * apply (set_slots_inv (d_connecting s2) addr (Some sl') Hc2).
        rewrite (slots_insert_length _ _ _ Ei). exact Hl.
      * apply (set_slots_inv (d_connecting s2) addr (Some sl) Hc2). exact Hl.
    + intro H; injection H as <- <-. split; [|split; dsimpl; congruence].
      apply (d_inv_same_tables s); dsimpl; try congruence; auto.
    + intro H; injection H as <- <-. split; [|split; dsimpl; congruence].
      apply (d_inv_same_tables s); dsimpl; try congruence; auto.
  - destruct (get_slots s addr) as [sl|] eqn:Eg;
      [|intro H; injection H as <- <-; split; [exact Hinv|split; reflexivity]].
    pose proof (get_slots_length s addr sl I5 Eg) as Hl.
    destruct (slots_pop _ sl) as [[c0 sl']|] eqn:Ep; intro H; injection H as <- <-;
      [|split; [exact Hinv|split; reflexivity]].
    split; [|split; reflexivity].
    apply (d_inv_same_tables s); dsimpl; auto.
    apply (set_slots_inv (d_connecting s) addr (if slots_empty sl' then None else Some sl') I5).
    destruct (slots_empty sl'); [exact I|]. rewrite (slots_pop_length _ _ _ _ Ep). exact Hl.
  - destruct (find_stream s k) as [en|] eqn:Ef; [|intro H; injection H as <- <-; auto].
    destruct (se_alive en); intro H; injection H as <- <-; [auto|].
    unfold d_inv; dsimpl.
    split; [|split; [reflexivity|split; [reflexivity|]]].
    + repeat split; auto; [apply remove_stream_nodup; exact I1|].
      pose proof (remove_stream_length (d_streams s) k). lia.
    + split; [apply remove_stream_keys|]. split; [apply remove_stream_not_in|].
      intros en' Hin Hne. unfold remove_stream. apply filter_In. split; [exact Hin|].
      destruct (skey_eqb (se_key en') k) eqn:E; [apply skey_eqb_eq in E; contradiction|reflexivity].
Qed.

Lemma incl_keys l l' k : incl l l' -> In k (keys l) -> In k (keys l').
Proof.
  unfold keys. intros Hi Hk. apply in_map_iff in Hk. destruct Hk as (en & <- & Hen).
  apply in_map. apply Hi. exact Hen.
Qed.

(* ------------------------------------------------------------------ datagrams *)
Lemma on_maybe_connect_ack_spec s addr m s' e :
  d_inv s -> find_stream s {| k_addr := addr; k_conn := dm_conn m |} = None ->
  on_maybe_connect_ack s addr m = (s', e) ->
  d_inv s' /\ d_max_streams s' = d_max_streams s /\
  incl (d_streams s) (d_streams s') /\
  (forall k, In k (keys (d_streams s')) ->
     In k (keys (d_streams s)) \/ k = {| k_addr := addr; k_conn := dm_conn m |}) /\
  Forall (fun x => match x with EvConnected _ k => k = {| k_addr := addr; k_conn := dm_conn m |}
                              | EvDropped => True | _ => False end) e.
Proof.
  intros Hinv Hnone. pose proof Hinv as (I1 & I2 & I3 & I4 & I5). unfold on_maybe_connect_ack.
  set (k := {| k_addr := addr; k_conn := dm_conn m |}) in *.
  assert (Hkeep : d_inv s /\ d_max_streams s = d_max_streams s /\
     incl (d_streams s) (d_streams s) /\
     (forall k0, In k0 (keys (d_streams s)) -> In k0 (keys (d_streams s)) \/ k0 = k) /\
     Forall (fun x => match x with EvConnected _ k0 => k0 = k | EvDropped => True | _ => False end) [EvDropped]).
  { split; [exact Hinv|]. split; [reflexivity|]. split; [apply incl_refl|]. split; [auto|].
    constructor; [exact I|constructor]. }
  destruct (streams_full s) eqn:Ef; [intro H; injection H as <- <-; exact Hkeep|].
  destruct (get_slots s addr) as [sl|] eqn:Eg; [|intro H; injection H as <- <-; exact Hkeep].
  destruct (slots_pop _ sl) as [[c sl']|] eqn:Ep; [|intro H; injection H as <- <-; exact Hkeep].
  pose proof (get_slots_length s addr sl I5 Eg) as Hl.
  pose proof (find_none_not_in _ _ Hnone) as Hnotin. fold k in Hnotin.
  assert (Hconn : conn_inv (set_slots (d_connecting s) addr (if slots_empty sl' then None else Some sl'))).
  { apply set_slots_inv; [exact I5|]. destruct (slots_empty sl'); [exact I|].
    rewrite (slots_pop_length _ _ _ _ Ep). exact Hl. }
  unfold streams_full in Ef. apply Z.leb_gt in Ef.
  destruct (mem_z (cn_token c) _) eqn:Em; intro H; injection H as <- <-; dsimpl.
  - (* the requester is gone: the new entry is removed again *)
    assert (Hrem : remove_stream (insert_stream (d_streams s) k (d_next_sid s)) k = d_streams s).
    { unfold insert_stream. rewrite (remove_absent _ _ Hnotin). unfold remove_stream.
      rewrite filter_app. cbn [filter se_key]. rewrite skey_eqb_refl. cbn [negb]. rewrite app_nil_r.
      apply (remove_absent _ _ Hnotin). }
    split; [apply (d_inv_same_tables s); dsimpl; auto|].
    rewrite Hrem. split; [reflexivity|]. split; [apply incl_refl|]. split; [auto|].
    constructor; [exact I|constructor].
  - split.
    { unfold d_inv; dsimpl. rewrite (insert_absent_keys _ _ _ Hnotin).
      unfold insert_stream. rewrite (remove_absent _ _ Hnotin), app_length. cbn [length].
      repeat split; auto; [apply NoDup_app_single; assumption|lia]. }
    split; [reflexivity|].
    split; [unfold insert_stream; rewrite (remove_absent _ _ Hnotin); apply incl_appl; apply incl_refl|].
    rewrite (insert_absent_keys _ _ _ Hnotin).
    split; [intros k0 Hk0; apply in_app_or in Hk0; destruct Hk0 as [Hk0|[<-|[]]]; auto|].
    constructor; [reflexivity|constructor].
Qed.

(* demultiplexing: a datagram is forwarded only to the connection whose (peer address,
   connection id) it names, and only if that connection's inbox is alive; it never creates,
   replaces or removes any OTHER entry *)
Lemma on_recv_spec s addr m s' e :
  d_inv s -> on_recv s addr m = (s', e) ->
  d_inv s' /\ d_max_streams s' = d_max_streams s /\
  (forall k, In (EvForward k) e ->
     k = {| k_addr := addr; k_conn := dm_conn m |} /\
     exists en, find_stream s k = Some en /\ se_alive en = true /\ s' = s /\ e = [EvForward k]) /\
  (* entries with another key are untouched *)
  (forall k, k <> {| k_addr := addr; k_conn := dm_conn m |} ->
     In k (keys (d_streams s)) -> In k (keys (d_streams s'))) /\
  (* a live entry with this key is kept too *)
  (forall en, find_stream s {| k_addr := addr; k_conn := dm_conn m |} = Some en ->
     se_alive en = true -> s' = s).
Proof.
  intros Hinv. pose proof Hinv as (I1 & I2 & I3 & I4 & I5). unfold on_recv.
  set (k := {| k_addr := addr; k_conn := dm_conn m |}).
  destruct (find_stream s k) as [en|] eqn:Ef.
  - destruct (se_alive en) eqn:Ea; intro H; injection H as <- <-.
    + split; [exact Hinv|]. split; [reflexivity|]. split.
      { intros k0 [Hk0|[]]. injection Hk0 as <-. split; [reflexivity|]. exists en. auto. }
      split; [auto|]. intros; reflexivity.
    + split.
      { unfold d_inv; dsimpl. repeat split; auto; [apply remove_stream_nodup; exact I1|].
        pose proof (remove_stream_length (d_streams s) k). lia. }
      split; [reflexivity|]. split; [intros k0 [Hk0|[]]; discriminate|].
      split.
      { intros k0 Hne Hin. dsimpl. rewrite remove_stream_keys. apply filter_In. split; [exact Hin|].
        destruct (skey_eqb k0 k) eqn:E; [apply skey_eqb_eq in E; contradiction|reflexivity]. }
      intros en0 He0 Ha0. injection He0 as <-. congruence.
  - assert (Hnofwd : forall e0, Forall (fun x => match x with EvForward _ => False | _ => True end) e0 ->
              forall k0, In (EvForward k0) e0 -> False).
    { intros e0 Hf k0 Hin. rewrite Forall_forall in Hf. apply (Hf _ Hin). }
    destruct (dm_type m) eqn:Et.
    + intro H; injection H as <- <-. split; [exact Hinv|]. split; [reflexivity|].
      split; [intros k0 [Hk0|[]]; discriminate|]. split; [auto|discriminate].
    + intro H; injection H as <- <-. split; [exact Hinv|]. split; [reflexivity|].
      split; [intros k0 [Hk0|[]]; discriminate|]. split; [auto|discriminate].
    + intro H. destruct (on_maybe_connect_ack_spec _ _ _ _ _ Hinv Ef H) as (A & B & C & D & E).
      split; [exact A|]. split; [exact B|]. split.
      { intros k0 Hin. exfalso. rewrite Forall_forall in E. specialize (E _ Hin). exact E. }
      split; [intros; eapply incl_keys; eauto|discriminate].
    + intro H; injection H as <- <-. split; [exact Hinv|]. split; [reflexivity|].
      split; [intros k0 [Hk0|[]]; discriminate|]. split; [auto|discriminate].
    + intro H.
      assert (Hst : st_inv s) by (split; assumption).
      destruct (on_syn_spec _ _ _ _ Hst I3 H) as (A & B & C & D & _).
      destruct A as [A1 A2]. destruct B as [B1 B2 B3 B4 B5].
      split; [unfold d_inv; rewrite B1, B2; repeat split; auto; lia|].
      split; [exact B1|]. split.
      { intros k0 Hin. exfalso.
        destruct D as [[Hacc _]|(e0 & Hacc & -> & _)].
        - unfold all_accepted in Hacc. rewrite Forall_forall in Hacc. exact (Hacc _ Hin).
        - apply in_app_or in Hin. destruct Hin as [Hin|[Hin|[]]]; [|discriminate].
          unfold all_accepted in Hacc. rewrite Forall_forall in Hacc. exact (Hacc _ Hin). }
      split; [intros; eapply incl_keys; eauto|discriminate].
Qed.

(* ------------------------------------------------------------------ every step keeps the invariant *)
Lemma push_acceptor_inv s id : d_inv s -> d_inv (push_acceptor s id).
Proof.
  intros (I1 & I2 & I3 & I4 & I5). unfold push_acceptor.
  destruct (Z.ltb_spec (Z.of_nat (length (d_chan s))) ACCEPT_QUEUE_MAX_ACCEPTORS); [|repeat split; auto].
  unfold d_inv; dsimpl. rewrite app_length. cbn [length]. repeat split; auto. lia.
Qed.

Lemma push_acceptors_inv : forall l s, d_inv s -> d_inv (fold_left push_acceptor l s).
Proof. induction l as [|x r IH]; intros s H; cbn [fold_left]; [exact H|]. apply IH. apply push_acceptor_inv. exact H. Qed.

Lemma push_acceptors_max : forall l s, d_max_streams (fold_left push_acceptor l s) = d_max_streams s.
Proof.
  induction l as [|x r IH]; intros s; cbn [fold_left]; [reflexivity|]. rewrite IH.
  unfold push_acceptor. destruct (_ <? _); reflexivity.
Qed.

Lemma kill_stream_keys l sid : keys (kill_stream l sid) = keys l.
Proof.
  unfold keys, kill_stream. rewrite map_map. apply map_ext. intro e. destruct (se_id e =? sid); reflexivity.
Qed.

Lemma dstep_inv s o s' e : d_inv s -> dstep s o = (s', e) -> d_inv s' /\ d_max_streams s' = d_max_streams s.
Proof.
  intros Hinv. pose proof Hinv as (I1 & I2 & I3 & I4 & I5).
  destruct o as [pushes a|id|id|id|addr token|addr token|addr token|k]; cbn [dstep].
  - destruct (cleanup_accept_queue s) as [s1 e1] eqn:Ec.
    assert (Hst : st_inv s) by (split; assumption).
    destruct (cleanup_spec _ _ _ Hst Ec) as ([A1 A2] & _ & [B1 B2 B3 B4 B5] & C).
    assert (Hinv1 : d_inv s1) by (unfold d_inv; rewrite B1, B2; repeat split; auto; lia).
    pose proof (push_acceptors_inv pushes s1 Hinv1) as Hinv2.
    pose proof (push_acceptors_max pushes s1) as Hmax2.
    set (s2 := fold_left push_acceptor pushes s1) in *.
    destruct a as [|send|addr om].
    + destruct (d_next_acc s2) eqn:En; [intro H; injection H as <- <-; split; [exact Hinv2|congruence]|].
      destruct (d_chan s2) as [|x r] eqn:Ech; intro H; injection H as <- <-; [split; [exact Hinv2|congruence]|].
      split; [|dsimpl; congruence].
      destruct Hinv2 as (J1 & J2 & J3 & J4 & J5). unfold d_inv; dsimpl. rewrite Ech in J4. cbn [length] in J4.
      repeat split; auto. lia.
    + destruct (d_control s2) as [|c r] eqn:Ectl; [intro H; injection H as <- <-; split; [exact Hinv2|congruence]|].
      destruct (on_control (upd_control s2 r) c send) as [s3 e3] eqn:Eoc.
      intro H; injection H as <- <-.
      assert (Hinv2' : d_inv (upd_control s2 r)) by (apply (d_inv_same_tables s2); dsimpl; auto; apply Hinv2).
      destruct (on_control_spec _ _ _ _ _ Hinv2' Eoc) as (A & B & _). dsimpl. split; [exact A|congruence].
    + destruct om as [m|].
      * destruct (on_recv s2 addr m) as [s3 e3] eqn:Er. intro H; injection H as <- <-.
        destruct (on_recv_spec _ _ _ _ _ Hinv2 Er) as (A & B & _). split; [exact A|congruence].
      * intro H; injection H as <- <-. split; [exact Hinv2|congruence].
  - intro H; injection H as <- <-. split; [apply push_acceptor_inv; exact Hinv|].
    unfold push_acceptor. destruct (_ <? _); reflexivity.
  - destruct (find _ (d_handed s)) as [[x [k sid]]|]; intro H; injection H as <- <-; (split; [|reflexivity]).
    + unfold d_inv; dsimpl. rewrite kill_stream_keys. unfold kill_stream. rewrite map_length. repeat split; auto.
    + apply (d_inv_same_tables s); dsimpl; auto.
  - intro H; injection H as <- <-. split; [apply (d_inv_same_tables s); dsimpl; auto|reflexivity].
  - intro H; injection H as <- <-. split; [apply (d_inv_same_tables s); dsimpl; auto|reflexivity].
  - intro H; injection H as <- <-. split; [apply (d_inv_same_tables s); dsimpl; auto|reflexivity].
  - intro H; injection H as <- <-. split; [|destruct (existsb _ _); reflexivity].
    destruct (existsb _ _); apply (d_inv_same_tables s); dsimpl; auto.
  - intro H; injection H as <- <-. split; [apply (d_inv_same_tables s); dsimpl; auto|reflexivity].
Qed.

Lemma new_inv max_streams random : d_inv (dstate_new max_streams random).
Proof.
  unfold dstate_new. destruct random as [|x r]; unfold d_inv, keys, ACCEPT_QUEUE_MAX_SYNS,
    ACCEPT_QUEUE_MAX_ACCEPTORS; dsimpl; cbn [map length];
  (split; [constructor|]); (split; [lia|]); (split; [lia|]); (split; [lia|constructor]).
Qed.

Lemma drun_inv : forall ops s, d_inv s -> d_inv (drun s ops) /\ d_max_streams (drun s ops) = d_max_streams s.
Proof.
  induction ops as [|o r IH]; intros s H; cbn [drun]; [auto|].
  destruct (dstep s o) as [s1 e] eqn:E. cbn [fst].
  destruct (dstep_inv _ _ _ _ H E) as [A B]. destruct (IH s1 A) as [C D]. split; [exact C|congruence].
Qed.

(* C12 limit + unique keys + C13 backlog bounds, for every reachable state *)
Lemma reachable_bounds max_streams random ops :
  let s := drun (dstate_new max_streams random) ops in
  NoDup (keys (d_streams s)) /\
  Z.of_nat (length (d_streams s)) <= Z.max 0 max_streams /\
  Z.of_nat (length (d_syns s)) <= 32 /\ Z.of_nat (length (d_chan s)) <= 32 /\
  Forall (fun p => length (snd p) = 4%nat) (d_connecting s).
Proof.
  cbv zeta. destruct (drun_inv ops _ (new_inv max_streams random)) as [(A & B & C & D & E) F].
  rewrite F in B. unfold dstate_new in B. destruct random; cbn [d_max_streams] in B; repeat split; auto.
Qed.

(* ------------------------------------------------------------------ a live connection is never evicted *)
Lemma push_acceptors_streams : forall l s, d_streams (fold_left push_acceptor l s) = d_streams s.
Proof.
  induction l as [|x r IH]; intros s; cbn [fold_left]; [reflexivity|]. rewrite IH.
  unfold push_acceptor. destruct (_ <? _); reflexivity.
Qed.

Lemma on_recv_keeps_live s addr m s' e en :
  d_inv s -> on_recv s addr m = (s', e) -> In en (d_streams s) -> se_alive en = true -> In en (d_streams s').
Proof.
  intros Hinv H Hin Ha. pose proof Hinv as (I1 & I2 & I3 & I4 & I5). unfold on_recv in H.
  set (k := {| k_addr := addr; k_conn := dm_conn m |}) in *.
  destruct (find_stream s k) as [en0|] eqn:Ef.
  - destruct (se_alive en0) eqn:Ea0; injection H as <- _; [exact Hin|]. dsimpl.
    unfold remove_stream. apply filter_In. split; [exact Hin|].
    destruct (skey_eqb (se_key en) k) eqn:E; [|reflexivity]. exfalso.
    (* en would be the entry found for k, which is dead *)
    apply skey_eqb_eq in E. unfold find_stream in Ef. apply find_some in Ef. destruct Ef as [Hin0 Hk0].
    apply skey_eqb_eq in Hk0.
    assert (en = en0); [|congruence].
    assert (Hk : se_key en = se_key en0) by congruence.
    clear - I1 Hin Hin0 Hk. unfold keys in I1. revert I1 Hin Hin0 Hk.
    induction (d_streams s) as [|x r IH]; cbn [map In]; [tauto|].
    intros Hnd [->|Hin] [->|Hin0] Hk; auto.
    + inversion Hnd as [|? ? Hnotin _]; subst. exfalso. apply Hnotin. rewrite Hk. apply in_map. exact Hin0.
    + inversion Hnd as [|? ? Hnotin _]; subst. exfalso. apply Hnotin. rewrite <- Hk. apply in_map. exact Hin.
    + inversion Hnd; subst. apply IH; assumption.
  - destruct (dm_type m); try (injection H as <- _; exact Hin).
    + destruct (on_maybe_connect_ack_spec _ _ _ _ _ Hinv Ef H) as (_ & _ & C & _). apply C. exact Hin.
    + assert (Hst : st_inv s) by (split; assumption).
      destruct (on_syn_spec _ _ _ _ Hst I3 H) as (_ & [_ _ _ B4 _] & _). apply B4. exact Hin.
Qed.

(* every step: a connection that is in the table and alive stays in the table (same object);
   the only thing that can happen to it is its own death (its acceptor dropped before pick-up) *)
Lemma live_never_evicted s o s' e en :
  d_inv s -> dstep s o = (s', e) -> In en (d_streams s) -> se_alive en = true ->
  exists en', In en' (d_streams s') /\ se_key en' = se_key en /\ se_id en' = se_id en.
Proof.
  intros Hinv H Hin Ha. pose proof Hinv as (I1 & I2 & I3 & I4 & I5).
  assert (Hsame : In en (d_streams s') -> exists en', In en' (d_streams s') /\ se_key en' = se_key en /\ se_id en' = se_id en)
    by (intro; exists en; auto).
  destruct o as [pushes a|id|id|id|addr token|addr token|addr token|k]; cbn [dstep] in H.
  - destruct (cleanup_accept_queue s) as [s1 e1] eqn:Ec.
    assert (Hst : st_inv s) by (split; assumption).
    destruct (cleanup_spec _ _ _ Hst Ec) as ([A1 A2] & _ & [B1 B2 B3 B4 B5] & C).
    assert (Hinv1 : d_inv s1) by (unfold d_inv; rewrite B1, B2; repeat split; auto; lia).
    pose proof (push_acceptors_inv pushes s1 Hinv1) as Hinv2.
    pose proof (push_acceptors_streams pushes s1) as Hstr2.
    set (s2 := fold_left push_acceptor pushes s1) in *.
    assert (Hin2 : In en (d_streams s2)) by (rewrite Hstr2; apply B4; exact Hin).
    apply Hsame. destruct a as [|send|addr om].
    + destruct (d_next_acc s2); [injection H as <- _; exact Hin2|].
      destruct (d_chan s2); injection H as <- _; exact Hin2.
    + destruct (d_control s2) as [|c r] eqn:Ectl; [injection H as <- _; exact Hin2|].
      destruct (on_control (upd_control s2 r) c send) as [s3 e3] eqn:Eoc. injection H as <- _.
      assert (Hinv2' : d_inv (upd_control s2 r)) by (apply (d_inv_same_tables s2); dsimpl; auto; apply Hinv2).
      destruct (on_control_spec _ _ _ _ _ Hinv2' Eoc) as (_ & _ & Hc).
      destruct c as [a0 t0|a0 t0|k0]; [rewrite Hc; exact Hin2|rewrite Hc; exact Hin2|].
      destruct Hc as [_ Hc]. unfold find_stream in Hc. dsimpl.
      destruct (find _ (d_streams s2)) as [en0|] eqn:Ef; [|rewrite Hc; exact Hin2].
      destruct (se_alive en0) eqn:Ea0; [rewrite Hc; exact Hin2|].
      destruct Hc as (_ & _ & Hkeep). apply Hkeep; [exact Hin2|].
      intro Hk. apply find_some in Ef. destruct Ef as [Hin0 Hk0]. apply skey_eqb_eq in Hk0.
      (* the entry found for k0 is dead, en is alive: different entries with the same key *)
      assert (en = en0); [|congruence].
      destruct Hinv2 as (J1 & _). assert (Hkk : se_key en = se_key en0) by congruence.
      clear - J1 Hin2 Hin0 Hkk. unfold keys in J1. revert J1 Hin2 Hin0 Hkk.
      induction (d_streams s2) as [|x r0 IH]; cbn [map In]; [tauto|].
      intros Hnd [->|Hi] [->|Hi0] Hkk; auto.
      * inversion Hnd as [|? ? Hnotin _]; subst. exfalso. apply Hnotin. rewrite Hkk. apply in_map. exact Hi0.
      * inversion Hnd as [|? ? Hnotin _]; subst. exfalso. apply Hnotin. rewrite <- Hkk. apply in_map. exact Hi.
      * inversion Hnd; subst. apply IH; assumption.
    + destruct om as [m|]; [|injection H as <- _; exact Hin2].
      destruct (on_recv s2 addr m) as [s3 e3] eqn:Er. injection H as <- _.
      eapply on_recv_keeps_live; eauto.
  - injection H as <- _. apply Hsame. unfold push_acceptor. destruct (_ <? _); exact Hin.
  - destruct (find _ (d_handed s)) as [[x [k sid]]|]; injection H as <- _; dsimpl; [|apply Hsame; exact Hin].
    exists (if se_id en =? sid then {| se_key := se_key en; se_alive := false; se_id := se_id en |} else en).
    split; [unfold kill_stream; apply in_map_iff; exists en; split; [reflexivity|exact Hin]|].
    destruct (se_id en =? sid); auto.
  - injection H as <- _. apply Hsame. exact Hin.
  - injection H as <- _. apply Hsame. exact Hin.
  - injection H as <- _. apply Hsame. exact Hin.
  - injection H as <- _. apply Hsame. destruct (existsb _ _); exact Hin.
  - injection H as <- _. apply Hsame. exact Hin.
Qed.

(* ------------------------------------------------------------------ regression examples of the two repaired ordering defects *)
(* D11 (fixed in /repo 20e33c8): the Shutdown that a dead connection's drop guard enqueued is
   handled after the same (address, connection id) was re-used by a new connection *)
Definition d11_ops : list dop :=
  [ DoPushAcceptor 1;
    DoRunOnce [] (ArmRecv 5 (Some {| dm_type := ST_SYN; dm_conn := 50; dm_seq := 1000; dm_ack := 0 |}));
    DoDropAcceptor 1;                       (* connection object 0 dies; Shutdown (5,51) is enqueued *)
    DoRunOnce [] (ArmRecv 5 (Some {| dm_type := ST_DATA; dm_conn := 51; dm_seq := 1001; dm_ack := 0 |}));
                                            (* the peer still talks to it: dead entry removed, datagram dropped *)
    DoPushAcceptor 2;
    DoRunOnce [] (ArmRecv 5 (Some {| dm_type := ST_SYN; dm_conn := 50; dm_seq := 3000; dm_ack := 0 |}));
                                            (* the peer reconnects with the same id: a NEW connection (5,51) *)
    DoPickupAccept 2;
    DoRunOnce [] (ArmControl SynSent) ].    (* the old Shutdown (5,51) is handled now *)

Lemma late_shutdown_keeps_new_connection :
  let s_after := drun (dstate_new 128 [7; 100; 200]) d11_ops in
  exists en, find_stream s_after {| k_addr := 5; k_conn := 51 |} = Some en /\ se_alive en = true /\ se_id en = 1.
Proof. cbv zeta. vm_compute. eexists; repeat split. Qed.

(* D12 (fixed in /repo 205f51f): with a SYN cached (no acceptor was waiting), an accept() call and a
   NEW SYN both arrive while the dispatcher is parked in select! and the recv arm runs first *)
Definition d12_ops : list dop :=
  [ DoRunOnce [] (ArmRecv 5 (Some {| dm_type := ST_SYN; dm_conn := 50; dm_seq := 1000; dm_ack := 0 |}));
    DoRunOnce [1] (ArmRecv 6 (Some {| dm_type := ST_SYN; dm_conn := 60; dm_seq := 2000; dm_ack := 0 |}));
    DoRunOnce [] (ArmAccept) ].

Lemma new_syn_queues_behind_cached :
  let s1 := drun (dstate_new 128 [7; 100; 200]) (removelast d12_ops) in
  let s2 := drun (dstate_new 128 [7; 100; 200]) d12_ops in
  d_syns s1 = [{| sy_addr := 5; sy_conn := 50; sy_seq := 1000 |}; {| sy_addr := 6; sy_conn := 60; sy_seq := 2000 |}] /\
  d_handed s1 = [] /\
  (* the next run_once hands the acceptor to the OLDER request *)
  map fst (d_handed s2) = [1] /\ keys (d_streams s2) = [{| k_addr := 5; k_conn := 51 |}] /\
  d_syns s2 = [{| sy_addr := 6; sy_conn := 60; sy_seq := 2000 |}].
Proof. vm_compute. repeat split. Qed.

(* within one cleanup the order IS first-in first-out: the oldest cached SYN that can be served
   goes to the oldest live acceptor *)
Lemma cleanup_fifo_example :
  let s0 := drun (dstate_new 128 [7; 100; 200; 300])
              [ DoRunOnce [] (ArmRecv 5 (Some {| dm_type := ST_SYN; dm_conn := 50; dm_seq := 1; dm_ack := 0 |}));
                DoRunOnce [] (ArmRecv 6 (Some {| dm_type := ST_SYN; dm_conn := 60; dm_seq := 2; dm_ack := 0 |}));
                DoPushAcceptor 1; DoPushAcceptor 2;
                DoRunOnce [] (ArmControl SynSent) ] in
  d_handed s0 = [(1, ({| k_addr := 5; k_conn := 51 |}, 0)); (2, ({| k_addr := 6; k_conn := 61 |}, 1))] /\ d_syns s0 = [].
Proof. vm_compute. repeat split. Qed.

(* cleanup serves the queue strictly from the front: what remains is a suffix of the queue,
   so requests are handed to accept calls in arrival order *)
Lemma cleanup_loop_suffix : forall fuel s ev s' ev',
  cleanup_loop fuel s ev = (s', ev') -> exists n, d_syns s' = skipn n (d_syns s).
Proof.
  induction fuel as [|fuel IH]; intros s ev s' ev'; cbn [cleanup_loop].
  { intro H; injection H as <- <-. exists 0%nat. reflexivity. }
  destruct (d_syns s) as [|y rest] eqn:Es.
  { intro H; injection H as <- <-. exists 0%nat. rewrite Es. reflexivity. }
  destruct (try_next_acceptor (upd_syns s rest)) as [s1 oa] eqn:Et.
  destruct (try_next_acceptor_spec _ _ _ Et) as (T1 & T2 & T3 & _). dsimpl.
  destruct oa as [a|].
  - destruct (match_syn_with_accept s1 y a) as [[s2 r] e] eqn:Em.
    assert (Hs2 : d_syns s2 = rest).
    { unfold match_syn_with_accept in Em. destruct (streams_full s1); [injection Em as <- _ _; exact T3|].
      destruct (has_stream s1 _); [injection Em as <- _ _; exact T3|].
      destruct (next_random s1) as [s1' x] eqn:Er.
      destruct (next_random_same _ _ _ Er) as (_ & _ & R3 & _).
      destruct (mem_z a _); injection Em as <- _ _; dsimpl; congruence. }
    destruct r.
    + intro H. apply IH in H. destruct H as [n Hn]. exists (S n). rewrite Hn, Hs2. reflexivity.
    + intro H; injection H as <- <-. dsimpl. exists 0%nat. rewrite Hs2. reflexivity.
    + intro H. apply IH in H. destruct H as [n Hn]. dsimpl. exists (S n). rewrite Hn, Hs2. reflexivity.
    + intro H. apply IH in H. destruct H as [n Hn]. dsimpl. exists n. rewrite Hn, Hs2. reflexivity.
  - intro H; injection H as <- <-. dsimpl. exists 0%nat. rewrite T3. reflexivity.
Qed.

Lemma cleanup_serves_from_front s s' e :
  cleanup_accept_queue s = (s', e) -> exists n, d_syns s' = skipn n (d_syns s).
Proof.
  unfold cleanup_accept_queue. destruct (streams_full s).
  - intro H; injection H as <- <-. exists 0%nat. reflexivity.
  - apply cleanup_loop_suffix.
Qed.

(* M4: src/socket.rs — the socket Dispatcher: stream table, connecting slots, accept queue,
   one `run_once` at a time, with the channels it shares with other tasks explicit so that
   "all interleavings of concurrent connects/accepts/datagrams" is "all op lists".  Model only.
   Addresses, tokens and acceptor ids are integers. *)
From Utp Require Import Base.Prelude Wire.SeqNr Wire.Header.

Record skey := { k_addr : Z; k_conn : Z }.
Definition skey_eqb (a b : skey) : bool := (k_addr a =? k_addr b) && (k_conn a =? k_conn b).

(* an entry of `streams`: the key and whether the connection's inbox receiver is still alive *)
Record sentry := { se_key : skey; se_alive : bool; se_id : Z (* which connection object *) }.

Record connecting := { cn_token : Z; cn_seq : Z }.

Record syn := { sy_addr : Z; sy_conn : Z; sy_seq : Z }.

Inductive control :=
| CtlConnect (addr token : Z)
| CtlConnectDropped (addr token : Z)
| CtlShutdown (k : skey).

Definition MAX_CONNECTING_PER_ADDR : nat := 4.
Definition ACCEPT_QUEUE_MAX_ACCEPTORS : Z := 32.
Definition ACCEPT_QUEUE_MAX_SYNS : Z := 32.

(* what a connect() future will find in its oneshot *)
Inductive cresult := CrOk (k : skey) | CrTooMany | CrSynErr | CrDead.

Record dstate := {
  d_streams : list sentry;
  d_connecting : list (Z * list (option connecting));   (* per address: 4 slots *)
  d_syns : list syn;                                    (* cached SYNs, oldest first *)
  d_next_acc : option Z;                                (* next_available_acceptor (its id) *)
  d_chan : list Z;                                      (* accept requests in the mpsc(32), oldest first *)
  d_control : list control;                             (* control channel, oldest first *)
  d_next_conn_id : Z;
  d_max_streams : Z;
  d_random : list Z;                                    (* what env.random_u16() will return *)
  (* the other ends of the oneshots / channels *)
  d_dead_acceptors : list Z;                            (* accept futures dropped before being served *)
  d_handed : list (Z * (skey * Z));                     (* acceptor id -> (key, connection object) handed over, not yet picked up *)
  d_next_sid : Z;                                       (* ghost: next connection-object id *)
  d_dead_connectors : list Z;                           (* connect futures dropped *)
  d_results : list (Z * cresult);                       (* connect token -> result, not yet picked up *)
}.

Definition dstate_new (max_streams : Z) (random : list Z) : dstate :=
  let '(r0, rest) := match random with [] => (0, []) | x :: r => (x, r) end in
  {| d_streams := []; d_connecting := []; d_syns := []; d_next_acc := None; d_chan := [];
     d_control := []; d_next_conn_id := r0; d_max_streams := max_streams; d_random := rest;
     d_dead_acceptors := []; d_handed := []; d_next_sid := 0; d_dead_connectors := []; d_results := [] |}.

Inductive devent :=
| EvSentSyn (addr conn seq : Z)
| EvSentRst (addr conn ack : Z)
| EvForward (k : skey)                        (* the datagram was pushed into this connection's inbox *)
| EvAccepted (acceptor : Z) (k : skey)        (* incoming connection created and handed to an acceptor *)
| EvConnected (token : Z) (k : skey)          (* outgoing connection created and handed to the connector *)
| EvConnectErr (token : Z)
| EvDropped.

(* ---- record update helpers ---- *)
Definition upd_streams (s : dstate) (x : list sentry) : dstate :=
  {| d_streams := x; d_connecting := d_connecting s; d_syns := d_syns s; d_next_acc := d_next_acc s;
     d_chan := d_chan s; d_control := d_control s; d_next_conn_id := d_next_conn_id s;
     d_max_streams := d_max_streams s; d_random := d_random s;
     d_dead_acceptors := d_dead_acceptors s; d_handed := d_handed s; d_next_sid := d_next_sid s;
     d_dead_connectors := d_dead_connectors s; d_results := d_results s |}.
Definition upd_connecting (s : dstate) (x : list (Z * list (option connecting))) : dstate :=
  {| d_streams := d_streams s; d_connecting := x; d_syns := d_syns s; d_next_acc := d_next_acc s;
     d_chan := d_chan s; d_control := d_control s; d_next_conn_id := d_next_conn_id s;
     d_max_streams := d_max_streams s; d_random := d_random s;
     d_dead_acceptors := d_dead_acceptors s; d_handed := d_handed s; d_next_sid := d_next_sid s;
     d_dead_connectors := d_dead_connectors s; d_results := d_results s |}.
Definition upd_syns (s : dstate) (x : list syn) : dstate :=
  {| d_streams := d_streams s; d_connecting := d_connecting s; d_syns := x; d_next_acc := d_next_acc s;
     d_chan := d_chan s; d_control := d_control s; d_next_conn_id := d_next_conn_id s;
     d_max_streams := d_max_streams s; d_random := d_random s;
     d_dead_acceptors := d_dead_acceptors s; d_handed := d_handed s; d_next_sid := d_next_sid s;
     d_dead_connectors := d_dead_connectors s; d_results := d_results s |}.
Definition upd_acc (s : dstate) (na : option Z) (ch : list Z) : dstate :=
  {| d_streams := d_streams s; d_connecting := d_connecting s; d_syns := d_syns s; d_next_acc := na;
     d_chan := ch; d_control := d_control s; d_next_conn_id := d_next_conn_id s;
     d_max_streams := d_max_streams s; d_random := d_random s;
     d_dead_acceptors := d_dead_acceptors s; d_handed := d_handed s; d_next_sid := d_next_sid s;
     d_dead_connectors := d_dead_connectors s; d_results := d_results s |}.
Definition upd_control (s : dstate) (x : list control) : dstate :=
  {| d_streams := d_streams s; d_connecting := d_connecting s; d_syns := d_syns s; d_next_acc := d_next_acc s;
     d_chan := d_chan s; d_control := x; d_next_conn_id := d_next_conn_id s;
     d_max_streams := d_max_streams s; d_random := d_random s;
     d_dead_acceptors := d_dead_acceptors s; d_handed := d_handed s; d_next_sid := d_next_sid s;
     d_dead_connectors := d_dead_connectors s; d_results := d_results s |}.
Definition upd_conn_id (s : dstate) (x : Z) : dstate :=
  {| d_streams := d_streams s; d_connecting := d_connecting s; d_syns := d_syns s; d_next_acc := d_next_acc s;
     d_chan := d_chan s; d_control := d_control s; d_next_conn_id := x;
     d_max_streams := d_max_streams s; d_random := d_random s;
     d_dead_acceptors := d_dead_acceptors s; d_handed := d_handed s; d_next_sid := d_next_sid s;
     d_dead_connectors := d_dead_connectors s; d_results := d_results s |}.
Definition upd_random (s : dstate) (x : list Z) : dstate :=
  {| d_streams := d_streams s; d_connecting := d_connecting s; d_syns := d_syns s; d_next_acc := d_next_acc s;
     d_chan := d_chan s; d_control := d_control s; d_next_conn_id := d_next_conn_id s;
     d_max_streams := d_max_streams s; d_random := x;
     d_dead_acceptors := d_dead_acceptors s; d_handed := d_handed s; d_next_sid := d_next_sid s;
     d_dead_connectors := d_dead_connectors s; d_results := d_results s |}.
Definition upd_ends (s : dstate) (da : list Z) (h : list (Z * (skey * Z))) (dc : list Z)
  (r : list (Z * cresult)) : dstate :=
  {| d_streams := d_streams s; d_connecting := d_connecting s; d_syns := d_syns s; d_next_acc := d_next_acc s;
     d_chan := d_chan s; d_control := d_control s; d_next_conn_id := d_next_conn_id s;
     d_max_streams := d_max_streams s; d_random := d_random s;
     d_dead_acceptors := da; d_handed := h; d_next_sid := d_next_sid s; d_dead_connectors := dc; d_results := r |}.

(* ---- small helpers ---- *)
Definition streams_full (s : dstate) : bool :=
  d_max_streams s <=? Z.of_nat (length (d_streams s)).

Definition find_stream (s : dstate) (k : skey) : option sentry :=
  find (fun e => skey_eqb (se_key e) k) (d_streams s).

Definition has_stream (s : dstate) (k : skey) : bool :=
  match find_stream s k with Some _ => true | None => false end.

Definition remove_stream (l : list sentry) (k : skey) : list sentry :=
  filter (fun e => negb (skey_eqb (se_key e) k)) l.

(* HashMap::insert: replaces an existing entry with the same key *)
Definition insert_stream (l : list sentry) (k : skey) (sid : Z) : list sentry :=
  remove_stream l k ++ [{| se_key := k; se_alive := true; se_id := sid |}].

Definition bump_sid (s : dstate) : dstate :=
  {| d_streams := d_streams s; d_connecting := d_connecting s; d_syns := d_syns s; d_next_acc := d_next_acc s;
     d_chan := d_chan s; d_control := d_control s; d_next_conn_id := d_next_conn_id s;
     d_max_streams := d_max_streams s; d_random := d_random s;
     d_dead_acceptors := d_dead_acceptors s; d_handed := d_handed s; d_next_sid := d_next_sid s + 1;
     d_dead_connectors := d_dead_connectors s; d_results := d_results s |}.

Definition next_random (s : dstate) : dstate * Z :=
  match d_random s with
  | [] => (s, 0)
  | x :: r => (upd_random s r, x)
  end.

Definition mem_z (x : Z) (l : list Z) : bool := existsb (Z.eqb x) l.

(* try_next_acceptor *)
Definition try_next_acceptor (s : dstate) : dstate * option Z :=
  match d_next_acc s with
  | Some a => (upd_acc s None (d_chan s), Some a)
  | None =>
      match d_chan s with
      | [] => (s, None)
      | a :: r => (upd_acc s None r, Some a)
      end
  end.

Inductive match_res := MrMatched | MrFull | MrSynInvalid | MrReceiverDead.

(* match_syn_with_accept *)
Definition match_syn_with_accept (s : dstate) (y : syn) (acc : Z) : dstate * match_res * list devent :=
  if streams_full s then (s, MrFull, [])
  else
    let k := {| k_addr := sy_addr y; k_conn := wadd16 (sy_conn y) 1 |} in
    if has_stream s k then (s, MrSynInvalid, [])
    else
      let '(s1, _) := next_random s in
      if mem_z acc (d_dead_acceptors s1) then (s1, MrReceiverDead, [])
      else
        (bump_sid (upd_ends (upd_streams s1 (insert_stream (d_streams s1) k (d_next_sid s1)))
                  (d_dead_acceptors s1) (d_handed s1 ++ [(acc, (k, d_next_sid s1))]) (d_dead_connectors s1)
                  (d_results s1)),
         MrMatched, [EvAccepted acc k]).

(* cleanup_accept_queue; fuel bounds the loop (each iteration consumes a SYN or an acceptor) *)
Fixpoint cleanup_loop (fuel : nat) (s : dstate) (ev : list devent) : dstate * list devent :=
  match fuel with
  | O => (s, ev)
  | S fuel' =>
      match d_syns s with
      | [] => (s, ev)
      | y :: rest =>
          let s0 := upd_syns s rest in
          let '(s1, oa) := try_next_acceptor s0 in
          match oa with
          | None => (upd_syns s1 (y :: d_syns s1), ev)
          | Some a =>
              let '(s2, r, e) := match_syn_with_accept s1 y a in
              match r with
              | MrMatched => cleanup_loop fuel' s2 (ev ++ e)
              | MrSynInvalid => cleanup_loop fuel' (upd_acc s2 (Some a) (d_chan s2)) ev
              | MrReceiverDead => cleanup_loop fuel' (upd_syns s2 (y :: d_syns s2)) ev
              | MrFull => (upd_acc (upd_syns s2 (y :: d_syns s2)) (Some a) (d_chan s2), ev)
              end
          end
      end
  end.

Definition cleanup_accept_queue (s : dstate) : dstate * list devent :=
  if streams_full s then (s, [])
  else cleanup_loop (length (d_syns s) + length (d_chan s) + 2) s [].

(* on_syn *)
Fixpoint on_syn_loop (fuel : nat) (s : dstate) (y : syn) : dstate * bool (* done *) * list devent :=
  match fuel with
  | O => (s, false, [])
  | S fuel' =>
      let '(s1, oa) := try_next_acceptor s in
      match oa with
      | None => (s1, false, [])
      | Some a =>
          let '(s2, r, e) := match_syn_with_accept s1 y a in
          match r with
          | MrMatched => (s2, true, e)
          | MrSynInvalid => (upd_acc s2 (Some a) (d_chan s2), true, [])
          | MrReceiverDead => on_syn_loop fuel' s2 y
          | MrFull => (upd_acc s2 (Some a) (d_chan s2), false, [])
          end
      end
  end.

Definition on_syn (s : dstate) (y : syn) : dstate * list devent :=
  let '(s1, done, e) :=
    match d_syns s with
    | [] => on_syn_loop (length (d_chan s) + 2) s y
    | _ :: _ => (s, false, [])      (* older SYNs are queued: queue behind them *)
    end in
  if done then (s1, e)
  else if Z.of_nat (length (d_syns s1)) <? ACCEPT_QUEUE_MAX_SYNS
       then (upd_syns s1 (d_syns s1 ++ [y]), e)
       else (s1, e ++ [EvSentRst (sy_addr y) (sy_conn y) (sy_seq y)]).

(* ConnectingPerAddr *)
Fixpoint slots_insert (l : list (option connecting)) (c : connecting) : option (list (option connecting)) :=
  match l with
  | [] => None
  | None :: r => Some (Some c :: r)
  | Some x :: r => match slots_insert r c with Some r' => Some (Some x :: r') | None => None end
  end.

Fixpoint slots_pop (p : connecting -> bool) (l : list (option connecting))
  : option (connecting * list (option connecting)) :=
  match l with
  | [] => None
  | Some x :: r => if p x then Some (x, None :: r)
                   else match slots_pop p r with Some (c, r') => Some (c, Some x :: r') | None => None end
  | None :: r => match slots_pop p r with Some (c, r') => Some (c, None :: r') | None => None end
  end.

Definition slots_empty (l : list (option connecting)) : bool :=
  forallb (fun x => match x with None => true | Some _ => false end) l.

Definition empty_slots : list (option connecting) := repeat None MAX_CONNECTING_PER_ADDR.

Definition get_slots (s : dstate) (addr : Z) : option (list (option connecting)) :=
  match find (fun p => fst p =? addr) (d_connecting s) with Some p => Some (snd p) | None => None end.

Definition set_slots (l : list (Z * list (option connecting))) (addr : Z)
  (sl : option (list (option connecting))) : list (Z * list (option connecting)) :=
  let l' := filter (fun p => negb (fst p =? addr)) l in
  match sl with Some x => l' ++ [(addr, x)] | None => l' end.

(* get_next_free_conn_id: bounded by the number of streams + 1 *)
Fixpoint next_free_conn_id (fuel : nat) (s : dstate) (addr cid : Z) : Z :=
  match fuel with
  | O => cid
  | S fuel' => if has_stream s {| k_addr := addr; k_conn := cid |}
               then next_free_conn_id fuel' s addr (wadd16 cid 2) else cid
  end.

(* what the transport answers to the SYN send_to *)
Inductive syn_send := SynSent | SynShort | SynErr.

Definition on_control (s : dstate) (c : control) (send : syn_send) : dstate * list devent :=
  match c with
  | CtlConnect addr token =>
      if streams_full s then
        (upd_ends s (d_dead_acceptors s) (d_handed s) (d_dead_connectors s) (d_results s ++ [(token, CrTooMany)]),
         [EvConnectErr token])
      else
        let cid := next_free_conn_id (S (length (d_streams s))) s addr (d_next_conn_id s) in
        let s1 := upd_conn_id s cid in
        let '(s2, seq) := next_random s1 in
        match send with
        | SynShort =>
            (* "did not send full length, dropping": the requester is dropped with the request *)
            (upd_ends s2 (d_dead_acceptors s2) (d_handed s2) (d_dead_connectors s2)
                      (d_results s2 ++ [(token, CrDead)]), [EvConnectErr token])
        | SynErr =>
            (upd_ends s2 (d_dead_acceptors s2) (d_handed s2) (d_dead_connectors s2)
                      (d_results s2 ++ [(token, CrSynErr)]), [EvConnectErr token])
        | SynSent =>
            let sl := match get_slots s2 addr with Some x => x | None => empty_slots end in
            match slots_insert sl {| cn_token := token; cn_seq := seq |} with
            | Some sl' =>
                (upd_conn_id (upd_connecting s2 (set_slots (d_connecting s2) addr (Some sl')))
                             (wadd16 cid 2),
                 [EvSentSyn addr cid seq])
            | None =>
                (* too many concurrent connects to this address: the requester is dropped *)
                (upd_ends (upd_connecting s2 (set_slots (d_connecting s2) addr (Some sl)))
                          (d_dead_acceptors s2) (d_handed s2) (d_dead_connectors s2)
                          (d_results s2 ++ [(token, CrDead)]),
                 [EvSentSyn addr cid seq; EvConnectErr token])
            end
        end
  | CtlConnectDropped addr token =>
      match get_slots s addr with
      | None => (s, [])
      | Some sl =>
          match slots_pop (fun c => cn_token c =? token) sl with
          | Some (_, sl') =>
              (upd_connecting s (set_slots (d_connecting s) addr
                                           (if slots_empty sl' then None else Some sl')), [])
          | None => (s, [])
          end
      end
  | CtlShutdown k =>
      (* only an entry whose connection is gone is removed: the key may have been re-used *)
      match find_stream s k with
      | Some en => if se_alive en then (s, []) else (upd_streams s (remove_stream (d_streams s) k), [])
      | None => (s, [])
      end
  end.

(* a parsed datagram as the dispatcher sees it *)
Record dmsg := { dm_type : ptype; dm_conn : Z; dm_seq : Z; dm_ack : Z }.

Definition on_maybe_connect_ack (s : dstate) (addr : Z) (m : dmsg) : dstate * list devent :=
  if streams_full s then (s, [EvDropped])
  else
    match get_slots s addr with
    | None => (s, [EvDropped])
    | Some sl =>
        match slots_pop (fun c => cn_seq c =? dm_ack m) sl with
        | None => (s, [EvDropped])
        | Some (c, sl') =>
            let s1 := upd_connecting s (set_slots (d_connecting s) addr
                                                  (if slots_empty sl' then None else Some sl')) in
            let k := {| k_addr := addr; k_conn := dm_conn m |} in
            let s2 := bump_sid (upd_streams s1 (insert_stream (d_streams s1) k (d_next_sid s1))) in
            if mem_z (cn_token c) (d_dead_connectors s2) then
              (upd_streams s2 (remove_stream (d_streams s2) k), [EvDropped])
            else
              (upd_ends s2 (d_dead_acceptors s2) (d_handed s2) (d_dead_connectors s2)
                        (d_results s2 ++ [(cn_token c, CrOk k)]),
               [EvConnected (cn_token c) k])
        end
    end.

Definition on_recv (s : dstate) (addr : Z) (m : dmsg) : dstate * list devent :=
  let k := {| k_addr := addr; k_conn := dm_conn m |} in
  match find_stream s k with
  | Some e =>
      if se_alive e then (s, [EvForward k])
      else (upd_streams s (remove_stream (d_streams s) k), [EvDropped])
  | None =>
      match dm_type m with
      | ST_STATE => on_maybe_connect_ack s addr m
      | ST_SYN => on_syn s {| sy_addr := addr; sy_conn := dm_conn m; sy_seq := dm_seq m |}
      | _ => (s, [EvDropped])
      end
  end.

(* ---- the op alphabet: dispatcher steps and the other tasks' steps ---- *)
Inductive arm :=
| ArmAccept                               (* accept = rx.recv(), if next_available_acceptor.is_none() *)
| ArmControl (send : syn_send)            (* the head of the control channel *)
| ArmRecv (addr : Z) (m : option dmsg).   (* a datagram; None = it did not parse *)

Inductive dop :=
(* one run_once: cleanup, then [other tasks push these acceptors while the dispatcher is parked
   in select!], then the chosen arm *)
| DoRunOnce (parked_pushes : list Z) (a : arm)
(* other tasks *)
| DoPushAcceptor (id : Z)                 (* an accept() call reaches the channel *)
| DoDropAcceptor (id : Z)                 (* an accept() future is dropped *)
| DoPickupAccept (id : Z)                 (* an accept() future completes and starts its stream *)
| DoConnect (addr token : Z)              (* a connect() call enqueues its request *)
| DoDropConnect (addr token : Z)          (* a connect() future is dropped *)
| DoPickupConnect (addr token : Z)        (* a connect() future completes *)
| DoShutdown (k : skey).                  (* a connection's drop guard fires *)

Definition push_acceptor (s : dstate) (id : Z) : dstate :=
  if Z.of_nat (length (d_chan s)) <? ACCEPT_QUEUE_MAX_ACCEPTORS
  then upd_acc s (d_next_acc s) (d_chan s ++ [id]) else s.

Definition kill_stream (l : list sentry) (sid : Z) : list sentry :=
  map (fun e => if se_id e =? sid then {| se_key := se_key e; se_alive := false; se_id := se_id e |} else e) l.

Definition dstep (s : dstate) (o : dop) : dstate * list devent :=
  match o with
  | DoRunOnce pushes a =>
      let '(s1, e1) := cleanup_accept_queue s in
      let s2 := fold_left push_acceptor pushes s1 in
      match a with
      | ArmAccept =>
          match d_next_acc s2, d_chan s2 with
          | None, x :: r => (upd_acc s2 (Some x) r, e1)
          | _, _ => (s2, e1)
          end
      | ArmControl send =>
          match d_control s2 with
          | [] => (s2, e1)
          | c :: r => let '(s3, e3) := on_control (upd_control s2 r) c send in (s3, e1 ++ e3)
          end
      | ArmRecv addr None => (s2, e1 ++ [EvDropped])
      | ArmRecv addr (Some m) => let '(s3, e3) := on_recv s2 addr m in (s3, e1 ++ e3)
      end
  | DoPushAcceptor id => (push_acceptor s id, [])
  | DoDropAcceptor id =>
      (* dropped before being served: the oneshot receiver is gone; dropped after a stream was
         handed over but before pick-up: the starter is dropped, the connection dies and its
         drop guard enqueues Shutdown(key) *)
      match find (fun p => fst p =? id) (d_handed s) with
      | Some (_, (k, sid)) =>
          (upd_control
             (upd_ends (upd_streams s (kill_stream (d_streams s) sid)) (d_dead_acceptors s)
                       (filter (fun p => negb (fst p =? id)) (d_handed s))
                       (d_dead_connectors s) (d_results s))
             (d_control s ++ [CtlShutdown k]), [])
      | None =>
          (upd_ends s (id :: d_dead_acceptors s) (d_handed s) (d_dead_connectors s) (d_results s), [])
      end
  | DoPickupAccept id =>
      (upd_ends s (d_dead_acceptors s) (filter (fun p => negb (fst p =? id)) (d_handed s))
                (d_dead_connectors s) (d_results s), [])
  | DoConnect addr token => (upd_control s (d_control s ++ [CtlConnect addr token]), [])
  | DoDropConnect addr token =>
      (upd_control
         (upd_ends s (d_dead_acceptors s) (d_handed s) (token :: d_dead_connectors s)
                   (filter (fun p => negb (fst p =? token)) (d_results s)))
         (d_control s ++ [CtlConnectDropped addr token]), [])
  | DoPickupConnect addr token =>
      (* if the dispatcher dropped the requester (no value in the oneshot) connect() returns
         DispatcherDead through `?` with its ConnectDropped guard still armed *)
      let dead := existsb (fun p => (fst p =? token) && match snd p with CrDead => true | _ => false end)
                          (d_results s) in
      let s1 := upd_ends s (d_dead_acceptors s) (d_handed s) (d_dead_connectors s)
                         (filter (fun p => negb (fst p =? token)) (d_results s)) in
      (if dead then upd_control s1 (d_control s1 ++ [CtlConnectDropped addr token]) else s1, [])
  | DoShutdown k => (upd_control s (d_control s ++ [CtlShutdown k]), [])
  end.

Fixpoint drun (s : dstate) (ops : list dop) : dstate :=
  match ops with [] => s | o :: r => drun (fst (dstep s o)) r end.

Fixpoint dtrace (s : dstate) (ops : list dop) : list (list devent * dstate) :=
  match ops with
  | [] => []
  | o :: r => let '(s', e) := dstep s o in (e, s') :: dtrace s' r
  end.

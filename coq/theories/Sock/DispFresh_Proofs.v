(* C12 "connection ids in use between one address pair are unique", SYN side:
   the id get_next_free_conn_id returns is never the key of an existing stream entry.
   The Rust loop is unbounded; the model runs it with fuel = number of streams + 1.  The
   candidates cid, cid+2, cid+4, ... (mod 2^16) are pairwise distinct as long as there are at most
   32768 of them, so with a table of fewer than 32768 entries the fuel is never exhausted
   (pigeonhole) and the model loop is the Rust loop.  Proofs only. *)
From Utp Require Import Base.Prelude Wire.SeqNr Wire.Header Sock.Dispatcher Sock.Dispatcher_Proofs
  Sock.DispObs Sock.DispObs_Proofs.

(* ------------------------------------------------------------------ the candidates of the loop *)
(* the i-th connection id the loop looks at, starting from cid *)
Definition cand (cid : Z) (i : nat) : Z :=
  match i with O => cid | S _ => (cid + 2 * Z.of_nat i) mod M16 end.

Lemma cand_shift cid i : cand (wadd16 cid 2) i = cand cid (S i).
Proof.
  unfold cand, wadd16. destruct i as [|i].
  - f_equal; lia.
  - rewrite Zplus_mod_idemp_l. f_equal; lia.
Qed.

Lemma cand_inj cid i j : (i < j)%nat -> Z.of_nat j < 32768 -> cand cid i <> cand cid j.
Proof.
  intros Hij Hj. unfold cand, M16. destruct j as [|j]; [lia|]. destruct i as [|i]; lia.
Qed.

(* what the bounded loop returns: the first candidate that is not a key, or, when the fuel runs
   out, the candidate after the last one it looked at (unchecked) *)
Lemma next_free_spec : forall fuel s addr cid,
  exists j, (j <= fuel)%nat /\
    next_free_conn_id fuel s addr cid = cand cid j /\
    (forall i, (i < j)%nat -> has_stream s {| k_addr := addr; k_conn := cand cid i |} = true) /\
    ((j < fuel)%nat -> has_stream s {| k_addr := addr; k_conn := cand cid j |} = false).
Proof.
  induction fuel as [|fuel IH]; intros s addr cid; cbn [next_free_conn_id].
  - exists 0%nat. split; [lia|]. split; [reflexivity|]. split; intros; lia.
  - destruct (has_stream s {| k_addr := addr; k_conn := cid |}) eqn:Eh.
    + destruct (IH s addr (wadd16 cid 2)) as (j & Hj & Hr & Hall & Hstop).
      exists (S j). split; [lia|]. split; [rewrite Hr; apply cand_shift|]. split.
      * intros i Hi. destruct i as [|i]; [exact Eh|]. rewrite <- cand_shift. apply Hall. lia.
      * intro Hlt. rewrite <- cand_shift. apply Hstop. lia.
    + exists 0%nat. split; [lia|]. split; [reflexivity|]. split; [intros; lia|]. intros _. exact Eh.
Qed.

Lemma has_stream_in s k : has_stream s k = true -> In k (keys (d_streams s)).
Proof.
  unfold has_stream, find_stream. destruct (find _ _) as [en|] eqn:E; [|discriminate]. intros _.
  apply find_some in E. destruct E as [Hin Hk]. apply skey_eqb_eq in Hk. subst k.
  unfold keys. apply in_map. exact Hin.
Qed.

Lemma has_stream_false_not_in s k : has_stream s k = false -> ~ In k (keys (d_streams s)).
Proof.
  unfold has_stream, find_stream. destruct (find _ _) as [en|] eqn:E; [discriminate|]. intros _.
  apply find_none_not_in. exact E.
Qed.

Lemma not_in_has_stream_false s k : ~ In k (keys (d_streams s)) -> has_stream s k = false.
Proof.
  intro H. destruct (has_stream s k) eqn:E; [|reflexivity]. destruct (H (has_stream_in _ _ E)).
Qed.

Lemma NoDup_map_seq {A} (f : nat -> A) : forall m a,
  (forall i j, (a <= i)%nat -> (i < j)%nat -> (j < a + m)%nat -> f i <> f j) -> NoDup (map f (seq a m)).
Proof.
  induction m as [|m IH]; intros a Hinj; cbn [seq map]; [constructor|]. constructor.
  - intro Hin. apply in_map_iff in Hin. destruct Hin as (j & Hfj & Hj). apply in_seq in Hj.
    apply (Hinj a j); [lia|lia|lia|]. symmetry. exact Hfj.
  - apply IH. intros i j Hi Hij Hj. apply Hinj; lia.
Qed.

(* pigeonhole: a table of n entries with pairwise distinct keys cannot contain n+1 distinct candidates *)
Lemma candidates_not_all_keys s addr cid :
  NoDup (keys (d_streams s)) -> Z.of_nat (length (d_streams s)) < 32768 ->
  ~ (forall i, (i < S (length (d_streams s)))%nat ->
       has_stream s {| k_addr := addr; k_conn := cand cid i |} = true).
Proof.
  intros Hnd Hlen Hall.
  set (n := length (d_streams s)) in *.
  set (f := fun i => {| k_addr := addr; k_conn := cand cid i |}).
  assert (Hnd' : NoDup (map f (seq 0 (S n)))).
  { apply NoDup_map_seq. intros i j _ Hij Hj Heq. unfold f in Heq. injection Heq as Heq.
    apply (cand_inj cid i j); [exact Hij|lia|exact Heq]. }
  assert (Hincl : incl (map f (seq 0 (S n))) (keys (d_streams s))).
  { intros k Hk. apply in_map_iff in Hk. destruct Hk as (i & <- & Hi). apply in_seq in Hi.
    apply has_stream_in. apply Hall. lia. }
  pose proof (NoDup_incl_length Hnd' Hincl) as Hle.
  rewrite map_length, seq_length in Hle. unfold keys in Hle. rewrite map_length in Hle. fold n in Hle. lia.
Qed.

(* the fuel is never exhausted: the bounded loop returns an id that is not in use, i.e. it is
   the unbounded Rust loop *)
Lemma next_free_conn_id_fresh s addr cid :
  NoDup (keys (d_streams s)) -> Z.of_nat (length (d_streams s)) < 32768 ->
  has_stream s {| k_addr := addr;
                  k_conn := next_free_conn_id (S (length (d_streams s))) s addr cid |} = false.
Proof.
  intros Hnd Hlen.
  destruct (next_free_spec (S (length (d_streams s))) s addr cid) as (j & Hj & Hr & Hall & Hstop).
  rewrite Hr. destruct (Nat.eq_dec j (S (length (d_streams s)))) as [->|Hne].
  - exfalso. exact (candidates_not_all_keys s addr cid Hnd Hlen Hall).
  - apply Hstop. lia.
Qed.

(* all the ids it skipped are in use: it returns the FIRST free id at or after cid (step 2) *)
Lemma next_free_conn_id_first s addr cid :
  exists j, (j <= S (length (d_streams s)))%nat /\
    next_free_conn_id (S (length (d_streams s))) s addr cid = cand cid j /\
    forall i, (i < j)%nat -> has_stream s {| k_addr := addr; k_conn := cand cid i |} = true.
Proof.
  destruct (next_free_spec (S (length (d_streams s))) s addr cid) as (j & Hj & Hr & Hall & _).
  exists j. auto.
Qed.

(* ------------------------------------------------------------------ the structure of one run_once *)
(* the arm chosen by select!, after cleanup and the parked pushes *)
Definition arm_step (s2 : dstate) (a : arm) : dstate * list devent :=
  match a with
  | ArmAccept =>
      match d_next_acc s2, d_chan s2 with
      | None, x :: r => (upd_acc s2 (Some x) r, [])
      | _, _ => (s2, [])
      end
  | ArmControl send =>
      match d_control s2 with
      | [] => (s2, [])
      | c :: r => on_control (upd_control s2 r) c send
      end
  | ArmRecv addr None => (s2, [EvDropped])
  | ArmRecv addr (Some m) => on_recv s2 addr m
  end.

Lemma dstep_run_once_eq s pushes a :
  dstep s (DoRunOnce pushes a) =
  let '(s1, e1) := cleanup_accept_queue s in
  let '(s3, e3) := arm_step (fold_left push_acceptor pushes s1) a in (s3, e1 ++ e3).
Proof.
  cbn [dstep]. destruct (cleanup_accept_queue s) as [s1 e1]. unfold arm_step.
  destruct a as [|send|addr [m|]].
  - destruct (d_next_acc _); [rewrite app_nil_r; reflexivity|].
    destruct (d_chan _); rewrite app_nil_r; reflexivity.
  - destruct (d_control _) as [|c r]; [rewrite app_nil_r; reflexivity|].
    destruct (on_control _ c send); reflexivity.
  - destruct (on_recv _ addr m); reflexivity.
  - reflexivity.
Qed.

(* pushing acceptors touches the channel only *)
Definition same_but_chan (s s' : dstate) : Prop :=
  d_streams s' = d_streams s /\ d_connecting s' = d_connecting s /\ d_syns s' = d_syns s /\
  d_next_acc s' = d_next_acc s /\ d_control s' = d_control s /\ d_next_conn_id s' = d_next_conn_id s /\
  d_max_streams s' = d_max_streams s /\ d_random s' = d_random s /\
  d_dead_acceptors s' = d_dead_acceptors s /\ d_handed s' = d_handed s /\ d_next_sid s' = d_next_sid s /\
  d_dead_connectors s' = d_dead_connectors s /\ d_results s' = d_results s.

Lemma push_acceptor_same s id : same_but_chan s (push_acceptor s id).
Proof. unfold push_acceptor, same_but_chan. destruct (_ <? _); dsimpl; repeat split. Qed.

Lemma push_acceptors_same : forall l s, same_but_chan s (fold_left push_acceptor l s).
Proof.
  induction l as [|x r IH]; intros s; cbn [fold_left]; [unfold same_but_chan; repeat split|].
  pose proof (push_acceptor_same s x) as H1. pose proof (IH (push_acceptor s x)) as H2.
  unfold same_but_chan in *. repeat split; intuition congruence.
Qed.

(* everything the later proofs need about the state the arm runs in *)
Lemma run_once_decomp s pushes a s' e :
  d_inv s -> dstep s (DoRunOnce pushes a) = (s', e) ->
  exists s1 e1 e3,
    cleanup_accept_queue s = (s1, e1) /\
    arm_step (fold_left push_acceptor pushes s1) a = (s', e3) /\ e = e1 ++ e3 /\
    d_inv s1 /\ all_accepted e1 /\ frame s s1 /\
    d_inv (fold_left push_acceptor pushes s1) /\ same_but_chan s1 (fold_left push_acceptor pushes s1).
Proof.
  intros Hinv H. rewrite dstep_run_once_eq in H.
  destruct (cleanup_accept_queue s) as [s1 e1] eqn:Ec.
  destruct (arm_step _ a) as [s3 e3] eqn:Ea. injection H as <- <-.
  pose proof Hinv as (I1 & I2 & I3 & I4 & I5).
  assert (Hst : st_inv s) by (split; assumption).
  destruct (cleanup_spec _ _ _ Hst Ec) as ([A1 A2] & Hacc & Hfr & C).
  pose proof Hfr as [B1 B2 B3 B4 B5].
  assert (Hinv1 : d_inv s1) by (unfold d_inv; rewrite B1, B2; repeat split; auto; lia).
  exists s1, e1, e3.
  split; [reflexivity|]. split; [exact Ea|]. split; [reflexivity|]. split; [exact Hinv1|].
  split; [exact Hacc|]. split; [exact Hfr|].
  split; [apply push_acceptors_inv; exact Hinv1|apply push_acceptors_same].
Qed.

(* ------------------------------------------------------------------ where SYNs come from *)
Lemma syn_keys_app a b : syn_keys (a ++ b) = syn_keys a ++ syn_keys b.
Proof. unfold syn_keys. apply flat_map_app. Qed.

Definition no_syn_event (x : devent) : Prop := match x with EvSentSyn _ _ _ => False | _ => True end.

Lemma syn_keys_nil e : Forall no_syn_event e -> syn_keys e = [].
Proof.
  induction 1 as [|x l Hx Hl IH]; [reflexivity|]. unfold syn_keys in *. cbn [flat_map]. rewrite IH.
  destruct x; try reflexivity. destruct Hx.
Qed.

Lemma all_accepted_no_syn e : all_accepted e -> Forall no_syn_event e.
Proof. unfold all_accepted. apply Forall_impl. intros x; destruct x; cbn; tauto. Qed.

Lemma on_recv_no_syn s addr m s' e : d_inv s -> on_recv s addr m = (s', e) -> Forall no_syn_event e.
Proof.
  intros Hinv H. pose proof Hinv as (I1 & I2 & I3 & I4 & I5). unfold on_recv in H.
  set (k := {| k_addr := addr; k_conn := dm_conn m |}) in *.
  destruct (find_stream s k) as [en|] eqn:Ef.
  - destruct (se_alive en); injection H as _ <-; repeat constructor.
  - destruct (dm_type m); try (injection H as _ <-; repeat constructor).
    + destruct (on_maybe_connect_ack_spec _ _ _ _ _ Hinv Ef H) as (_ & _ & _ & _ & Hev).
      revert Hev. apply Forall_impl. intros x; destruct x; cbn; tauto.
    + assert (Hst : st_inv s) by (split; assumption).
      destruct (on_syn_spec _ _ _ _ Hst I3 H) as (_ & _ & _ & D & _).
      destruct D as [[Hacc _]|(e0 & Hacc & -> & _)].
      * apply all_accepted_no_syn; exact Hacc.
      * apply Forall_app. split; [apply all_accepted_no_syn; exact Hacc|repeat constructor].
Qed.

(* a SYN is sent only by a connect request, below the limit, with the id the loop returned;
   the table is not touched *)
Lemma on_control_syn s c send s' e :
  on_control s c send = (s', e) ->
  forall a cid q, In (EvSentSyn a cid q) e ->
    d_streams s' = d_streams s /\
    streams_full s = false /\ send = SynSent /\ (exists token, c = CtlConnect a token) /\
    cid = next_free_conn_id (S (length (d_streams s))) s a (d_next_conn_id s).
Proof.
  unfold on_control. destruct c as [a0 t0|a0 t0|k1].
  - destruct (streams_full s) eqn:Ef.
    { intro H; injection H as <- <-. intros a cid q [Hx|[]]; discriminate. }
    set (cid0 := next_free_conn_id _ s a0 (d_next_conn_id s)).
    destruct (next_random (upd_conn_id s cid0)) as [s2 q0] eqn:Er.
    destruct (next_random_same _ _ _ Er) as (R1 & _). dsimpl.
    destruct send.
    + destruct (slots_insert _ _) as [sl'|]; intro H; injection H as <- <-; dsimpl;
        intros a cid q Hin; cbn [In] in Hin.
      * destruct Hin as [Hx|[]]. injection Hx as <- <- <-. repeat split; eauto.
      * destruct Hin as [Hx|[Hx|[]]]; [|discriminate]. injection Hx as <- <- <-. repeat split; eauto.
    + intro H; injection H as <- <-. intros a cid q [Hx|[]]; discriminate.
    + intro H; injection H as <- <-. intros a cid q [Hx|[]]; discriminate.
  - destruct (get_slots s a0); [destruct (slots_pop _ _) as [[? ?]|]|]; intro H; injection H as <- <-;
      intros a cid q [].
  - destruct (find_stream s k1) as [en|]; [destruct (se_alive en)|]; intro H; injection H as <- <-;
      intros a cid q [].
Qed.

(* ------------------------------------------------------------------ what cleanup / on_syn never touch *)
Definition keeps (s s' : dstate) : Prop :=
  d_next_conn_id s' = d_next_conn_id s /\ d_dead_connectors s' = d_dead_connectors s /\
  d_results s' = d_results s /\ d_dead_acceptors s' = d_dead_acceptors s /\
  d_connecting s' = d_connecting s /\ d_control s' = d_control s /\ d_max_streams s' = d_max_streams s.

Lemma keeps_refl s : keeps s s.
Proof. unfold keeps. repeat split. Qed.

Lemma keeps_trans a b c : keeps a b -> keeps b c -> keeps a c.
Proof. unfold keeps. intros H1 H2. repeat split; intuition congruence. Qed.

Lemma next_random_keeps s s' x : next_random s = (s', x) ->
  keeps s s' /\ d_handed s' = d_handed s /\ d_next_sid s' = d_next_sid s /\ d_streams s' = d_streams s.
Proof.
  unfold next_random, keeps. destruct (d_random s); intro H; injection H as <- _; dsimpl; repeat split.
Qed.

Lemma match_syn_keeps s y a s' r e : match_syn_with_accept s y a = (s', r, e) -> keeps s s'.
Proof.
  unfold match_syn_with_accept. destruct (streams_full s); [intro H; injection H as <- _ _; apply keeps_refl|].
  destruct (has_stream s _); [intro H; injection H as <- _ _; apply keeps_refl|].
  destruct (next_random s) as [s1 x] eqn:Er. destruct (next_random_keeps _ _ _ Er) as [K _].
  destruct (mem_z a _); intro H; injection H as <- _ _; [exact K|].
  unfold keeps in *; dsimpl. exact K.
Qed.

Lemma try_next_keeps s s' oa : try_next_acceptor s = (s', oa) -> keeps s s'.
Proof.
  unfold try_next_acceptor. destruct (d_next_acc s).
  - intro H; injection H as <- _. unfold keeps; dsimpl. repeat split.
  - destruct (d_chan s); intro H; injection H as <- _; unfold keeps; dsimpl; repeat split.
Qed.

Lemma keeps_upd_syns s x : keeps s (upd_syns s x).
Proof. unfold keeps; dsimpl. repeat split. Qed.
Lemma keeps_upd_acc s na ch : keeps s (upd_acc s na ch).
Proof. unfold keeps; dsimpl. repeat split. Qed.

Lemma cleanup_loop_keeps : forall fuel s ev s' ev', cleanup_loop fuel s ev = (s', ev') -> keeps s s'.
Proof.
  induction fuel as [|fuel IH]; intros s ev s' ev'; cbn [cleanup_loop].
  { intro H; injection H as <- _. apply keeps_refl. }
  destruct (d_syns s) as [|y rest]; [intro H; injection H as <- _; apply keeps_refl|].
  destruct (try_next_acceptor (upd_syns s rest)) as [s1 oa] eqn:Et.
  assert (K1 : keeps s s1) by (eapply keeps_trans; [apply keeps_upd_syns|eapply try_next_keeps; exact Et]).
  destruct oa as [a|].
  - destruct (match_syn_with_accept s1 y a) as [[s2 r] e] eqn:Em.
    assert (K2 : keeps s s2) by (eapply keeps_trans; [exact K1|eapply match_syn_keeps; exact Em]).
    destruct r; intro H.
    + eapply keeps_trans; [exact K2|eapply IH; exact H].
    + injection H as <- _. eapply keeps_trans; [exact K2|].
      eapply keeps_trans; [apply keeps_upd_syns|apply keeps_upd_acc].
    + eapply keeps_trans; [|eapply IH; exact H]. eapply keeps_trans; [exact K2|apply keeps_upd_acc].
    + eapply keeps_trans; [|eapply IH; exact H]. eapply keeps_trans; [exact K2|apply keeps_upd_syns].
  - intro H; injection H as <- _. eapply keeps_trans; [exact K1|apply keeps_upd_syns].
Qed.

Lemma cleanup_keeps s s' e : cleanup_accept_queue s = (s', e) -> keeps s s'.
Proof.
  unfold cleanup_accept_queue. destruct (streams_full s); [intro H; injection H as <- _; apply keeps_refl|].
  apply cleanup_loop_keeps.
Qed.

Lemma on_syn_loop_keeps : forall fuel s y s' done e, on_syn_loop fuel s y = (s', done, e) -> keeps s s'.
Proof.
  induction fuel as [|fuel IH]; intros s y s' done e; cbn [on_syn_loop].
  { intro H; injection H as <- _ _. apply keeps_refl. }
  destruct (try_next_acceptor s) as [s1 oa] eqn:Et. pose proof (try_next_keeps _ _ _ Et) as K1.
  destruct oa as [a|]; [|intro H; injection H as <- _ _; exact K1].
  destruct (match_syn_with_accept s1 y a) as [[s2 r] e2] eqn:Em.
  assert (K2 : keeps s s2) by (eapply keeps_trans; [exact K1|eapply match_syn_keeps; exact Em]).
  destruct r; intro H.
  - injection H as <- _ _. exact K2.
  - injection H as <- _ _. eapply keeps_trans; [exact K2|apply keeps_upd_acc].
  - injection H as <- _ _. eapply keeps_trans; [exact K2|apply keeps_upd_acc].
  - eapply keeps_trans; [exact K2|eapply IH; exact H].
Qed.

Lemma on_syn_keeps s y s' e : on_syn s y = (s', e) -> keeps s s'.
Proof.
  unfold on_syn.
  assert (Hl : forall s1 done e1,
    match d_syns s with [] => on_syn_loop (length (d_chan s) + 2) s y | _ :: _ => (s, false, []) end
      = (s1, done, e1) -> keeps s s1).
  { intros s1 done e1. destruct (d_syns s); [apply on_syn_loop_keeps|].
    intro H; injection H as <- _ _. apply keeps_refl. }
  destruct (match d_syns s with [] => _ | _ :: _ => _ end) as [[s1 done] e1].
  specialize (Hl _ _ _ eq_refl). destruct done; [intro H; injection H as <- _; exact Hl|].
  destruct (_ <? _); intro H; injection H as <- _; [|exact Hl].
  eapply keeps_trans; [exact Hl|apply keeps_upd_syns].
Qed.

(* ------------------------------------------------------------------ item 1: the id a SYN announces is free *)
(* every SYN a step sends: the state the connect request was handled in *)
Lemma dstep_syn s o s' e :
  d_inv s -> dstep s o = (s', e) ->
  forall a cid q, In (EvSentSyn a cid q) e ->
    exists s2,
      d_inv s2 /\ incl (d_streams s) (d_streams s2) /\ d_streams s' = d_streams s2 /\
      d_max_streams s2 = d_max_streams s /\ streams_full s2 = false /\
      d_next_conn_id s2 = d_next_conn_id s /\
      cid = next_free_conn_id (S (length (d_streams s2))) s2 a (d_next_conn_id s2).
Proof.
  intros Hinv H a cid q Hin.
  destruct o as [pushes ar|id|id|id|addr token|addr token|addr token|k1];
    try (quiet H Hs; destruct Hin).
  destruct (run_once_decomp _ _ _ _ _ Hinv H) as (s1 & e1 & e3 & Ec & Ea & -> & Hinv1 & Hacc & Hfr & Hinv2 & Hsame).
  pose proof (cleanup_keeps _ _ _ Ec) as (K1 & _).
  destruct Hfr as [B1 B2 B3 B4 B5].
  destruct Hsame as (P1 & P2 & P3 & P4 & P5 & P6 & P7 & _).
  set (s2 := fold_left push_acceptor pushes s1) in *.
  apply in_app_or in Hin. destruct Hin as [Hin|Hin].
  { exfalso. pose proof (all_accepted_no_syn _ Hacc) as Hn. rewrite Forall_forall in Hn. exact (Hn _ Hin). }
  unfold arm_step in Ea. destruct ar as [|send|addr [m|]].
  - exfalso. destruct (d_next_acc s2); [injection Ea as _ <-; destruct Hin|].
    destruct (d_chan s2); injection Ea as _ <-; destruct Hin.
  - destruct (d_control s2) as [|c r] eqn:Ectl; [injection Ea as _ <-; destruct Hin|].
    destruct (on_control_syn _ _ _ _ _ Ea _ _ _ Hin) as (S1 & S2 & _ & _ & S5). dsimpl.
    exists (upd_control s2 r).
    split; [apply (d_inv_same_tables s2); dsimpl; auto; apply Hinv2|].
    dsimpl. split; [rewrite P1; exact B4|]. split; [exact S1|]. split; [congruence|].
    split; [exact S2|]. split; [congruence|exact S5].
  - exfalso. pose proof (on_recv_no_syn _ _ _ _ _ Hinv2 Ea) as Hn. rewrite Forall_forall in Hn. exact (Hn _ Hin).
  - exfalso. injection Ea as _ <-. destruct Hin as [Hx|[]]; discriminate.
Qed.

(* the bound on the table that the pigeonhole argument needs: the configured limit *)
Definition conn_id_space_ok (max_streams : Z) : bool := max_streams <=? 32768.

Lemma not_full_bound s : streams_full s = false -> d_max_streams s <= 32768 ->
  Z.of_nat (length (d_streams s)) < 32768.
Proof. unfold streams_full. intros H Hm. apply Z.leb_gt in H. lia. Qed.

(* the id a SYN announces is not the key of an entry of the table, neither before nor after the step *)
Lemma syn_id_not_in_use s o s' e :
  d_inv s -> d_max_streams s <= 32768 -> dstep s o = (s', e) ->
  forall a cid q, In (EvSentSyn a cid q) e ->
    ~ In {| k_addr := a; k_conn := cid |} (keys (d_streams s)) /\
    ~ In {| k_addr := a; k_conn := cid |} (keys (d_streams s')).
Proof.
  intros Hinv Hmax H a cid q Hin.
  destruct (dstep_syn _ _ _ _ Hinv H _ _ _ Hin) as (s2 & Hinv2 & Hincl & Hs' & Hm2 & Hnf & _ & ->).
  destruct Hinv2 as (J1 & _).
  assert (Hb : Z.of_nat (length (d_streams s2)) < 32768) by (apply not_full_bound; [exact Hnf|lia]).
  pose proof (has_stream_false_not_in _ _ (next_free_conn_id_fresh s2 a (d_next_conn_id s2) J1 Hb)) as Hfree.
  split.
  - intro Hk. apply Hfree. eapply incl_keys; eauto.
  - unfold keys in *. rewrite Hs'. exact Hfree.
Qed.

Lemma in_syn_keys k e : In k (syn_keys e) -> exists q, In (EvSentSyn (k_addr k) (k_conn k) q) e.
Proof.
  unfold syn_keys. intro H. apply in_flat_map in H. destruct H as (x & Hx & Hk).
  destruct x; try contradiction. destruct Hk as [<-|[]]. cbn [k_addr k_conn]. eauto.
Qed.

Theorem c12_syn_fresh_model s o s' e :
  d_inv s -> conn_id_space_ok (d_max_streams s) = true -> dstep s o = (s', e) ->
  c12_syn_fresh_ok (dobs_of s) (syn_keys e) = true.
Proof.
  intros Hinv Hmax H. unfold conn_id_space_ok in Hmax. apply Z.leb_le in Hmax.
  unfold c12_syn_fresh_ok. apply forallb_forall. intros k Hk. apply negb_true_iff.
  destruct (existsb _ _) eqn:E; [|reflexivity]. exfalso.
  apply existsb_exists in E. destruct E as (p & Hp & Hpk). apply skey_eqb_eq in Hpk.
  destruct (in_syn_keys _ _ Hk) as [q Hq].
  destruct (syn_id_not_in_use _ _ _ _ Hinv Hmax H _ _ _ Hq) as [Hfree _].
  apply Hfree. rewrite <- keys_obs. destruct k as [ka kc]. cbn [k_addr k_conn]. rewrite <- Hpk.
  apply in_map. exact Hp.
Qed.

(* ---- trace level: a trace function that keeps the events ---- *)
Fixpoint dev_trace (s : dstate) (ops : list dop) : list (dstate * dop * list devent * dstate) :=
  match ops with
  | [] => []
  | o :: r => let '(s', e) := dstep s o in (s, o, e, s') :: dev_trace s' r
  end.

(* what the check evaluates c12_syn_fresh_ok on, step by step: the table before the step and the
   (address, connection id) of the SYNs the step sent *)
Definition dfresh_trace (s : dstate) (ops : list dop) : list (dobs * list skey) :=
  map (fun x => match x with (s0, _, e, _) => (dobs_of s0, syn_keys e) end) (dev_trace s ops).

(* it is the observation trace of DispObs_Proofs with the events kept *)
Lemma dev_trace_obs : forall ops s,
  map (fun x => match x with (s0, _, e, s1) => dstep_obs_of s0 e s1 end) (dev_trace s ops) = dobs_trace s ops.
Proof.
  induction ops as [|o r IH]; intros s; cbn [dev_trace dobs_trace map]; [reflexivity|].
  destruct (dstep s o) as [s1 e]. cbn [map]. rewrite IH. reflexivity.
Qed.

Lemma dev_trace_inv : forall ops s, d_inv s ->
  Forall (fun x => match x with (s0, o, e, s1) =>
            d_inv s0 /\ d_max_streams s0 = d_max_streams s /\ dstep s0 o = (s1, e) end) (dev_trace s ops).
Proof.
  induction ops as [|o r IH]; intros s Hinv; cbn [dev_trace]; [constructor|].
  destruct (dstep s o) as [s1 e] eqn:E. destruct (dstep_inv _ _ _ _ Hinv E) as [Hinv1 Hmax1].
  constructor; [auto|]. specialize (IH s1 Hinv1). revert IH. apply Forall_impl.
  intros [[[s0 o0] e0] s2] (A & B & C). split; [exact A|]. split; [congruence|exact C].
Qed.

Theorem c12_syn_fresh_trace max_streams : forall ops s,
  d_inv s -> d_max_streams s = max_streams -> conn_id_space_ok max_streams = true ->
  forallb (fun p => c12_syn_fresh_ok (fst p) (snd p)) (dfresh_trace s ops) = true.
Proof.
  intros ops s Hinv Hmax Hok. unfold dfresh_trace. apply forallb_forall. intros p Hp.
  apply in_map_iff in Hp. destruct Hp as ([[[s0 o0] e0] s1] & <- & Hin).
  pose proof (dev_trace_inv ops s Hinv) as Hall. rewrite Forall_forall in Hall.
  destruct (Hall _ Hin) as (A & B & C). cbn [fst snd].
  eapply c12_syn_fresh_model; eauto. rewrite B, Hmax. exact Hok.
Qed.

Theorem c12_syn_fresh_trace_new max_streams random ops :
  conn_id_space_ok max_streams = true ->
  forallb (fun p => c12_syn_fresh_ok (fst p) (snd p)) (dfresh_trace (dstate_new max_streams random) ops) = true.
Proof.
  intro Hok. apply (c12_syn_fresh_trace max_streams); [apply new_inv| |exact Hok].
  unfold dstate_new. destruct random; reflexivity.
Qed.

(* the hypothesis is satisfiable: the default configuration (128) is far below the bound *)
Example conn_id_space_ok_default : conn_id_space_ok 128 = true.
Proof. reflexivity. Qed.

(* ------------------------------------------------------------------ the bound is needed *)
(* Without it the fuel CAN run out: a table of 32768 entries to one address holding every even
   connection id (possible only with max_active_streams > 32768).  The model loop then returns
   an id that is in use (the Rust loop would not terminate).  The witness is described by a
   generator and handled by lemmas, not by computation. *)
Lemma in_keys_has_stream s k : In k (keys (d_streams s)) -> has_stream s k = true.
Proof.
  intro H. destruct (has_stream s k) eqn:E; [reflexivity|]. destruct (has_stream_false_not_in _ _ E H).
Qed.

Lemma cleanup_no_syns s : d_syns s = [] -> cleanup_accept_queue s = (s, []).
Proof.
  intro Hs. unfold cleanup_accept_queue. destruct (streams_full s); [reflexivity|].
  rewrite Hs. cbn [length Nat.add]. rewrite Nat.add_comm. cbn [Nat.add cleanup_loop]. rewrite Hs. reflexivity.
Qed.

Lemma on_control_connect_syn s addr token s' e :
  streams_full s = false -> on_control s (CtlConnect addr token) SynSent = (s', e) ->
  exists q rest,
    e = EvSentSyn addr (next_free_conn_id (S (length (d_streams s))) s addr (d_next_conn_id s)) q :: rest.
Proof.
  intros Hnf. unfold on_control. rewrite Hnf. destruct (next_random _) as [s2 q].
  destruct (slots_insert _ _); intro H; injection H as _ <-; eauto.
Qed.

(* the failure for ANY table that holds every even id of address 0 (32768 entries) *)
Lemma fresh_fails_when_all_even_taken s :
  d_inv s -> d_max_streams s = 32769 -> Z.of_nat (length (d_streams s)) = 32768 ->
  (forall c, 0 <= c < 32768 -> In {| k_addr := 0; k_conn := 2 * c |} (keys (d_streams s))) ->
  d_syns s = [] -> d_control s = [CtlConnect 0 0] -> d_next_conn_id s = 0 ->
  c12_syn_fresh_ok (dobs_of s) (syn_keys (snd (dstep s (DoRunOnce [] (ArmControl SynSent))))) = false.
Proof.
  intros Hinv Hmax Hlen Hall Hsyns Hctl Hnext.
  assert (Hcands : forall i, has_stream s {| k_addr := 0; k_conn := cand 0 i |} = true).
  { intro i. apply in_keys_has_stream. unfold cand. destruct i as [|i].
    - apply (Hall 0). lia.
    - replace ((0 + 2 * Z.of_nat (S i)) mod M16) with (2 * (Z.of_nat (S i) mod 32768)) by (unfold M16; lia).
      apply Hall. lia. }
  assert (Hnf : next_free_conn_id (S (length (d_streams s))) s 0 0 = 2).
  { destruct (next_free_spec (S (length (d_streams s))) s 0 0) as (j & Hj & Hr & _ & Hstop).
    rewrite Hr. destruct (Nat.eq_dec j (S (length (d_streams s)))) as [->|Hne].
    - unfold cand. rewrite Nat2Z.inj_succ, Hlen. reflexivity.
    - rewrite Hcands in Hstop. assert (Hlt : (j < S (length (d_streams s)))%nat) by lia.
      specialize (Hstop Hlt). discriminate. }
  assert (Hfull : streams_full s = false) by (unfold streams_full; rewrite Hmax, Hlen; reflexivity).
  rewrite dstep_run_once_eq, (cleanup_no_syns s Hsyns).
  cbn [fold_left arm_step]. rewrite Hctl.
  destruct (on_control (upd_control s []) (CtlConnect 0 0) SynSent) as [s3 e3] eqn:Eoc.
  destruct (on_control_connect_syn (upd_control s []) _ _ _ _ Hfull Eoc) as (q & rest & ->).
  cbn [d_streams d_next_conn_id upd_control]. rewrite Hnext.
  assert (Hnf' : next_free_conn_id (S (length (d_streams s))) (upd_control s []) 0 0 = 2).
  { rewrite <- Hnf. generalize (S (length (d_streams s))). intro fuel.
    generalize 0 at 2 4. induction fuel as [|fuel IH]; intro c; cbn [next_free_conn_id]; [reflexivity|].
    change (has_stream (upd_control s []) {| k_addr := 0; k_conn := c |})
      with (has_stream s {| k_addr := 0; k_conn := c |}).
    destruct (has_stream s _); [apply IH|reflexivity]. }
  rewrite Hnf'. cbn [snd app syn_keys flat_map]. unfold c12_syn_fresh_ok. cbn [forallb].
  apply andb_false_iff. left. apply negb_false_iff. apply existsb_exists.
  pose proof (Hall 1 ltac:(lia)) as Hin. unfold keys in Hin. apply in_map_iff in Hin.
  destruct Hin as (en & Hk & Hen). exists (se_key en, se_alive en). split.
  - unfold dobs_of; cbn [ob_streams]. apply in_map_iff. exists en. auto.
  - cbn [fst]. rewrite Hk. apply skey_eqb_refl.
Qed.

(* such a table, with max_active_streams = 32769 *)
Definition wit_n : nat := Z.to_nat 32768.
Definition wit_entry (i : nat) : sentry :=
  {| se_key := {| k_addr := 0; k_conn := 2 * Z.of_nat i |}; se_alive := true; se_id := Z.of_nat i |}.
Definition wit_streams : list sentry := map wit_entry (seq 0 wit_n).
Definition wit_state : dstate :=
  {| d_streams := wit_streams; d_connecting := []; d_syns := []; d_next_acc := None;
     d_chan := []; d_control := [CtlConnect 0 0]; d_next_conn_id := 0; d_max_streams := 32769;
     d_random := []; d_dead_acceptors := []; d_handed := []; d_next_sid := 32768;
     d_dead_connectors := []; d_results := [] |}.

Lemma wit_n_Z : Z.of_nat wit_n = 32768.
Proof. unfold wit_n. apply Z2Nat.id. lia. Qed.

Lemma wit_length : length wit_streams = wit_n.
Proof. unfold wit_streams. rewrite map_length, seq_length. reflexivity. Qed.

Lemma wit_keys c : 0 <= c < 32768 -> In {| k_addr := 0; k_conn := 2 * c |} (keys wit_streams).
Proof.
  intro Hc. unfold keys, wit_streams. rewrite map_map. apply in_map_iff.
  exists (Z.to_nat c). split.
  - cbn [wit_entry se_key]. rewrite Z2Nat.id by lia. reflexivity.
  - apply in_seq. pose proof wit_n_Z. lia.
Qed.

Lemma wit_nodup : NoDup (keys wit_streams).
Proof.
  unfold keys, wit_streams. rewrite map_map. apply NoDup_map_seq. intros i j _ Hij _ Heq.
  cbn [wit_entry se_key] in Heq. apply (f_equal k_conn) in Heq. cbn [k_conn] in Heq. lia.
Qed.

Lemma wit_inv : d_inv wit_state.
Proof.
  unfold d_inv. change (d_streams wit_state) with wit_streams.
  change (d_max_streams wit_state) with 32769. change (d_syns wit_state) with (@nil syn).
  change (d_chan wit_state) with (@nil Z). change (d_connecting wit_state) with (@nil (Z * list (option connecting))).
  rewrite wit_length, wit_n_Z. cbn [length]. unfold ACCEPT_QUEUE_MAX_SYNS, ACCEPT_QUEUE_MAX_ACCEPTORS.
  split; [exact wit_nodup|]. split; [lia|]. split; [lia|]. split; [lia|constructor].
Qed.

Theorem c12_syn_fresh_needs_bound :
  exists s o, d_inv s /\ d_max_streams s = 32769 /\
    c12_syn_fresh_ok (dobs_of s) (syn_keys (snd (dstep s o))) = false.
Proof.
  exists wit_state, (DoRunOnce [] (ArmControl SynSent)).
  split; [exact wit_inv|]. split; [reflexivity|].
  apply fresh_fails_when_all_even_taken.
  - exact wit_inv.
  - reflexivity.
  - change (d_streams wit_state) with wit_streams. rewrite wit_length. exact wit_n_Z.
  - exact wit_keys.
  - reflexivity.
  - reflexivity.
  - reflexivity.
Qed.

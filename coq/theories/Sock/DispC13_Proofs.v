(* C13 "every pending connect is accounted for": c13_pending_ok holds of every step of the model from every
   state satisfying d_inv (hence every reachable one) and of every op list; c13_no_empty_entry_ok is an
   invariant of every reachable state.  Proofs only. *)
From Utp Require Import Base.Prelude Wire.SeqNr Wire.Header Sock.Dispatcher Sock.Dispatcher_Proofs
  Sock.DispObs Sock.DispObs_Proofs Sock.DispFresh_Proofs Sock.DispSlots_Proofs Sock.DispPending_Proofs
  Sock.DispWiring_Proofs Sock.DispRelease_Proofs Sock.DispC13_Pred.

(* ------------------------------------------------------------------ the boolean pieces *)
Lemma pslots_slots_of s a : pslots (d_connecting s) a = slots_of s a.
Proof. unfold pslots, slots_of, get_slots. destruct (find _ _); reflexivity. Qed.

Lemma conn_eqb_refl c : conn_eqb c c = true.
Proof. unfold conn_eqb. rewrite !Z.eqb_refl. reflexivity. Qed.

Lemma slot_eqb_refl x : slot_eqb x x = true.
Proof. destruct x; [apply conn_eqb_refl|reflexivity]. Qed.

Lemma slots_eqb_refl l : slots_eqb l l = true.
Proof. induction l as [|x l IH]; [reflexivity|]. cbn [slots_eqb]. rewrite slot_eqb_refl, IH. reflexivity. Qed.

Lemma one_filled_app l1 l2 c :
  one_filled (l1 ++ None :: l2) (l1 ++ Some c :: l2) (cn_seq c) = true.
Proof.
  induction l1 as [|x l1 IH]; cbn [app one_filled].
  - rewrite Z.eqb_refl, slots_eqb_refl. reflexivity.
  - destruct x as [d|]; cbn [slot_eqb]; [rewrite conn_eqb_refl|]; rewrite IH; reflexivity.
Qed.

Lemma one_freed_pop p : forall l c l', slots_pop p l = Some (c, l') -> one_freed l l' = true.
Proof.
  induction l as [|x l IH]; intros c l' H; [discriminate|].
  cbn [slots_pop] in H. destruct x as [d|].
  - destruct (p d).
    + injection H as _ <-. cbn [one_freed]. apply slots_eqb_refl.
    + destruct (slots_pop p l) as [[c0 r']|] eqn:E; [|discriminate]. injection H as _ <-.
      cbn [one_freed slot_eqb]. rewrite conn_eqb_refl, (IH _ _ eq_refl). reflexivity.
  - destruct (slots_pop p l) as [[c0 r']|] eqn:E; [|discriminate]. injection H as _ <-.
    cbn [one_freed slot_eqb]. rewrite (IH _ _ eq_refl). reflexivity.
Qed.

Lemma pcount_somes l : pcount l = Z.of_nat (length (somes l)).
Proof.
  unfold pcount, somes. f_equal. induction l as [|x l IH]; [reflexivity|].
  cbn [filter flat_map]. destruct x; cbn [length app]; rewrite IH; reflexivity.
Qed.

Lemma psyns_app a b : psyns (a ++ b) = psyns a ++ psyns b.
Proof. unfold psyns. apply flat_map_app. Qed.

Lemma psyns_nil e : Forall no_syn_event e -> psyns e = [].
Proof.
  induction 1 as [|x l Hx Hl IH]; [reflexivity|]. unfold psyns in *. cbn [flat_map]. rewrite IH.
  destruct x; try reflexivity. destruct Hx.
Qed.

(* ------------------------------------------------------------------ what a step does to the slots *)
Definition slots_same (s s' : dstate) : Prop := forall a, slots_of s' a = slots_of s a.

Inductive slots_effect (s : dstate) (o : dop) (e : list devent) (s' : dstate) : Prop :=
| SeSame : slots_same s s' -> psyns e = [] -> slots_effect s o e s'
| SeRefused addr q : slots_same s s' -> kind_of o = 2 -> psyns e = [(addr, q)] ->
    length (pending s addr) = 4%nat -> slots_effect s o e s'
| SeFilled addr l1 l2 c : kind_of o = 2 -> psyns e = [(addr, cn_seq c)] ->
    (forall a, a <> addr -> slots_of s' a = slots_of s a) ->
    slots_of s addr = l1 ++ None :: l2 -> slots_of s' addr = l1 ++ Some c :: l2 ->
    slots_effect s o e s'
| SeFreed addr p c sl' : 2 <= kind_of o -> psyns e = [] ->
    (forall a, a <> addr -> slots_of s' a = slots_of s a) ->
    slots_pop p (slots_of s addr) = Some (c, sl') -> slots_of s' addr = sl' ->
    slots_effect s o e s'.

Lemma slots_effect_prefix s o e1 e3 s' :
  psyns e1 = [] -> slots_effect s o e3 s' -> slots_effect s o (e1 ++ e3) s'.
Proof.
  intros H1 H. assert (He : psyns (e1 ++ e3) = psyns e3) by (rewrite psyns_app, H1; reflexivity).
  destruct H as [A B|addr q A B C D|addr l1 l2 c A B C D E|addr p c sl' A B C D E].
  - apply SeSame; [exact A|rewrite He; exact B].
  - apply (SeRefused _ _ _ _ addr q); [exact A|exact B|rewrite He; exact C|exact D].
  - apply (SeFilled _ _ _ _ addr l1 l2 c); [exact A|rewrite He; exact B|exact C|exact D|exact E].
  - apply (SeFreed _ _ _ _ addr p c sl'); [exact A|rewrite He; exact B|exact C|exact D|exact E].
Qed.

Lemma dstep_slots_effect s o s' e : d_inv s -> dstep s o = (s', e) -> slots_effect s o e s'.
Proof.
  intros Hinv H.
  assert (Hsame : forall s0, d_connecting s0 = d_connecting s -> d_connecting s' = d_connecting s0 ->
            slots_same s s').
  { intros s0 H0 H1 a. apply slots_of_same_connecting. congruence. }
  destruct o as [pushes ar|id|id|id|addr token|addr token|addr token|k1];
    [|cbn [dstep] in H..].
  - destruct (run_once_decomp _ _ _ _ _ Hinv H) as (s1 & e1 & e3 & Ec & Ea & -> & Hinv1 & Hacc & Hfr & Hinv2 & Hsm).
    destruct Hfr as [_ B2 _ _ _]. destruct Hsm as (_ & P2 & _).
    set (s2 := fold_left push_acceptor pushes s1) in *.
    assert (Hc2 : d_connecting s2 = d_connecting s) by congruence.
    assert (He1 : psyns e1 = []) by (apply psyns_nil, all_accepted_no_syn, Hacc).
    apply slots_effect_prefix; [exact He1|].
    unfold arm_step in Ea. destruct ar as [|send|addr [m|]].
    + assert (e3 = [] /\ d_connecting s' = d_connecting s2) as [-> Hc].
      { destruct (d_next_acc s2); [injection Ea as <- <-; auto|].
        destruct (d_chan s2); injection Ea as <- <-; auto. }
      apply SeSame; [apply (Hsame s2 Hc2 Hc)|reflexivity].
    + destruct (d_control s2) as [|c r] eqn:Ectl.
      { injection Ea as <- <-. apply SeSame; [apply (Hsame s2 Hc2 eq_refl)|reflexivity]. }
      assert (Hinv2' : d_inv (upd_control s2 r)) by (apply (d_inv_same_tables s2); dsimpl; auto; apply Hinv2).
      assert (Hs2 : forall b, slots_of (upd_control s2 r) b = slots_of s b)
        by (intro b; apply slots_of_same_connecting; exact Hc2).
      assert (Hp2 : forall b, pending (upd_control s2 r) b = pending s b)
        by (intro b; apply pending_same_connecting; exact Hc2).
      destruct c as [a0 t0|a0 t0|k0].
      * pose proof (on_control_connect_spec _ _ _ _ _ _ Hinv2' Ea) as Hspec. cbv zeta in Hspec.
        destruct Hspec as (_ & Hspec).
        destruct (streams_full (upd_control s2 r)).
        { destruct Hspec as (-> & _ & C & _). apply SeSame; [apply (Hsame (upd_control s2 r) Hc2 C)|reflexivity]. }
        destruct send;
          [|destruct Hspec as (-> & _ & C & _); apply SeSame; [apply (Hsame (upd_control s2 r) Hc2 C)|reflexivity]..].
        destruct Hspec as (Hoth & Hspec).
        rewrite Hp2 in Hspec. destruct (Nat.ltb_spec (length (pending s a0)) 4) as [Hlt|Hge].
        -- destruct Hspec as (-> & _ & _ & l1 & l2 & E1 & E2 & _).
           eapply (SeFilled _ _ _ _ a0 l1 l2 {| cn_token := t0; cn_seq := peek_random (upd_control s2 r) |});
             [reflexivity|reflexivity| |rewrite <- Hs2; exact E1|exact E2].
           intros a Ha. rewrite (Hoth a Ha). apply Hs2.
        -- destruct Hspec as (-> & _ & _ & E).
           eapply (SeRefused _ _ _ _ a0); [|reflexivity|reflexivity|].
           ++ intro a. destruct (Z.eq_dec a a0) as [->|Hne]; [rewrite E|rewrite (Hoth a Hne)]; apply Hs2.
           ++ pose proof (pending_le_4 s a0 Hinv). lia.
      * destruct (on_control_dropped_spec _ _ _ _ _ _ Hinv2' Ea) as (-> & _ & _ & _ & _ & Hoth & Hpop).
        destruct (slots_pop _ (slots_of (upd_control s2 r) a0)) as [[c sl']|] eqn:Ep.
        -- eapply (SeFreed _ _ _ _ a0 _ c sl'); [cbn [kind_of]; lia|reflexivity| | |exact Hpop].
           ++ intros a Ha. rewrite (Hoth a Ha). apply Hs2.
           ++ rewrite <- Hs2. exact Ep.
        -- subst s'. apply SeSame; [exact Hs2|reflexivity].
      * cbn [on_control] in Ea.
        assert (e3 = [] /\ d_connecting s' = d_connecting (upd_control s2 r)) as [-> Hc].
        { destruct (find_stream _ k0) as [en|]; [destruct (se_alive en)|]; injection Ea as <- <-; auto. }
        apply SeSame; [apply (Hsame (upd_control s2 r) Hc2 Hc)|reflexivity].
    + pose proof (on_recv_no_syn _ _ _ _ _ Hinv2 Ea) as Hn. apply psyns_nil in Hn.
      unfold on_recv in Ea. destruct (find_stream s2 _) as [en|] eqn:Ef.
      { apply SeSame; [|exact Hn]. apply (Hsame s2 Hc2). destruct (se_alive en); injection Ea as <- _; reflexivity. }
      assert (Hs2 : forall b, slots_of s2 b = slots_of s b)
        by (intro b; apply slots_of_same_connecting; exact Hc2).
      destruct (dm_type m); try (apply SeSame; [|exact Hn]; apply (Hsame s2 Hc2); injection Ea as <- _; reflexivity).
      * pose proof (on_maybe_connect_ack_slots _ _ _ _ _ Hinv2 Ef Ea) as Hsl. cbv zeta in Hsl.
        destruct (streams_full s2); [destruct Hsl as [-> _]; apply SeSame; [exact Hs2|exact Hn]|].
        destruct (slots_pop _ (slots_of s2 addr)) as [[c sl']|] eqn:Ep;
          [|destruct Hsl as [-> _]; apply SeSame; [exact Hs2|exact Hn]].
        destruct Hsl as (S1 & Hoth & _).
        eapply (SeFreed _ _ _ _ addr _ c sl'); [cbn [kind_of]; lia|exact Hn| | |exact S1].
        -- intros a Ha. rewrite (Hoth a Ha). apply Hs2.
        -- rewrite <- Hs2. exact Ep.
      * apply SeSame; [|exact Hn]. apply (Hsame s2 Hc2). apply (on_syn_keeps _ _ _ _ Ea).
    + injection Ea as <- <-. apply SeSame; [apply (Hsame s2 Hc2 eq_refl)|reflexivity].
  - injection H as <- <-. apply SeSame; [|reflexivity]. apply (Hsame s eq_refl).
    unfold push_acceptor. destruct (_ <? _); reflexivity.
  - apply SeSame; [apply (Hsame s eq_refl)|];
      destruct (find _ _) as [[x [k sid]]|]; injection H as <- <-; reflexivity.
  - injection H as <- <-. apply SeSame; [apply (Hsame s eq_refl)|]; reflexivity.
  - injection H as <- <-. apply SeSame; [apply (Hsame s eq_refl)|]; reflexivity.
  - injection H as <- <-. apply SeSame; [apply (Hsame s eq_refl)|]; reflexivity.
  - injection H as <- <-. apply SeSame; [apply (Hsame s eq_refl)|]; [destruct (existsb _ _)|]; reflexivity.
  - injection H as <- <-. apply SeSame; [apply (Hsame s eq_refl)|]; reflexivity.
Qed.

(* ------------------------------------------------------------------ the predicate, every step *)
Lemma post_shape s a : d_inv s ->
  (Z.of_nat (length (slots_of s a)) =? 4) && (pcount (slots_of s a) <=? 4) = true.
Proof.
  intro Hinv. pose proof (slots_of_length s a Hinv) as Hl. unfold MAX_CONNECTING_PER_ADDR in Hl.
  pose proof (pending_le_4 s a Hinv) as Hp. unfold pending in Hp.
  rewrite pcount_somes, Hl. apply andb_true_intro. split; [reflexivity|]. apply Z.leb_le. lia.
Qed.

Lemma changed_only s o e s' addr :
  (forall a, a <> addr -> slots_of s' a = slots_of s a) ->
  forall a, changed (pobs_of s o e s') a = true -> a = addr.
Proof.
  intros Hoth a Hc. destruct (Z.eq_dec a addr) as [|Hne]; [assumption|exfalso].
  unfold changed, pobs_of in Hc. cbn [po_pre po_post] in Hc. rewrite !pslots_slots_of, (Hoth a Hne), slots_eqb_refl in Hc.
  discriminate.
Qed.

Lemma pairs_ok (o : pobs) (l : list Z) addr :
  (forall a, changed o a = true -> a = addr) ->
  forallb (fun a => forallb (fun b => implb (changed o a && changed o b) (a =? b)) l) l = true.
Proof.
  intro H. apply forallb_forall. intros a _. apply forallb_forall. intros b _.
  destruct (changed o a) eqn:Ea; [|reflexivity]. destruct (changed o b) eqn:Eb; [|reflexivity].
  cbn [andb implb]. rewrite (H a Ea), (H b Eb). apply Z.eqb_refl.
Qed.

Lemma syn_to_single addr q a : syn_to [(addr, q)] a = if addr =? a then Some q else None.
Proof. unfold syn_to. cbn [find fst snd]. destruct (addr =? a); reflexivity. Qed.

Theorem c13_pending_ok_model s o s' e :
  d_inv s -> dstep s o = (s', e) -> c13_pending_ok (pobs_of s o e s') = true.
Proof.
  intros Hinv H.
  destruct (dstep_inv _ _ _ _ Hinv H) as [Hinv' _].
  pose proof (dstep_slots_effect _ _ _ _ Hinv H) as Heff.
  unfold c13_pending_ok. set (ob := pobs_of s o e s').
  set (l := map fst (po_pre ob) ++ map fst (po_post ob)).
  assert (Hshape : forall a, (Z.of_nat (length (pslots (po_post ob) a)) =? 4) && (pcount (pslots (po_post ob) a) <=? 4) = true).
  { intro a. unfold ob, pobs_of. cbn [po_post]. rewrite pslots_slots_of. apply post_shape, Hinv'. }
  assert (Hpre : forall a, pslots (po_pre ob) a = slots_of s a) by (intro a; apply pslots_slots_of).
  assert (Hpost : forall a, pslots (po_post ob) a = slots_of s' a) by (intro a; apply pslots_slots_of).
  assert (Hsy : po_syns ob = psyns e) by reflexivity.
  assert (Hk : po_kind ob = kind_of o) by reflexivity.
  destruct Heff as [Hs Hn|addr q Hs Hkd Hn H4|addr l1 l2 c Hkd Hn Hoth E1 E2|addr p c sl' Hkd Hn Hoth Ep E2].
  - rewrite Hsy, Hn. cbn [length Z.of_nat Z.leb andb].
    apply andb_true_intro. split.
    + apply forallb_forall. intros a _. unfold addr_ok. rewrite Hshape, Hsy, Hn. cbn [syn_to find andb].
      rewrite Hpre, Hpost, (Hs a), slots_eqb_refl. reflexivity.
    + apply (pairs_ok ob l 0). intros a Hc. exfalso. unfold changed in Hc.
      rewrite Hpre, Hpost, (Hs a), slots_eqb_refl in Hc. discriminate.
  - rewrite Hsy, Hn, Hk, Hkd. cbn [length Z.of_nat Z.leb andb Z.eqb Pos.eqb].
    apply andb_true_intro. split.
    + apply forallb_forall. intros a _. unfold addr_ok. rewrite Hshape, Hsy, Hn, syn_to_single. cbn [andb].
      rewrite Hpre, Hpost, (Hs a), slots_eqb_refl.
      destruct (Z.eqb_spec addr a) as [<-|Hne]; [|reflexivity].
      rewrite pcount_somes. fold (pending s addr). rewrite H4. cbn. apply orb_true_r.
    + apply (pairs_ok ob l 0). intros a Hc. exfalso. unfold changed in Hc.
      rewrite Hpre, Hpost, (Hs a), slots_eqb_refl in Hc. discriminate.
  - rewrite Hsy, Hn, Hk, Hkd. cbn [length Z.of_nat Z.leb andb Z.eqb Pos.eqb].
    apply andb_true_intro. split.
    + apply forallb_forall. intros a _. unfold addr_ok. rewrite Hshape, Hsy, Hn, syn_to_single. cbn [andb].
      rewrite Hpre, Hpost.
      destruct (Z.eqb_spec addr a) as [<-|Hne].
      * rewrite E1, E2, one_filled_app. reflexivity.
      * rewrite (Hoth a) by congruence. rewrite slots_eqb_refl. reflexivity.
    + apply (pairs_ok ob l addr). apply (changed_only s o e s' addr Hoth).
  - rewrite Hsy, Hn. cbn [length Z.of_nat Z.leb andb].
    apply andb_true_intro. split.
    + apply forallb_forall. intros a _. unfold addr_ok. rewrite Hshape, Hsy, Hn. cbn [syn_to find andb].
      rewrite Hpre, Hpost, Hk.
      destruct (Z.eq_dec a addr) as [->|Hne].
      * rewrite E2, (one_freed_pop _ _ _ _ Ep). apply Z.leb_le in Hkd. rewrite Hkd. apply orb_true_r.
      * rewrite (Hoth a Hne), slots_eqb_refl. reflexivity.
    + apply (pairs_ok ob l addr). apply (changed_only s o e s' addr Hoth).
Qed.

(* ------------------------------------------------------------------ every op list *)
Fixpoint pobs_trace (s : dstate) (ops : list dop) : list pobs :=
  match ops with
  | [] => []
  | o :: r => let '(s', e) := dstep s o in pobs_of s o e s' :: pobs_trace s' r
  end.

Lemma pobs_trace_ok : forall ops s, d_inv s -> forallb c13_pending_ok (pobs_trace s ops) = true.
Proof.
  induction ops as [|o r IH]; intros s Hinv; [reflexivity|].
  cbn [pobs_trace]. destruct (dstep s o) as [s' e] eqn:E. cbn [forallb].
  rewrite (c13_pending_ok_model _ _ _ _ Hinv E). cbn [andb].
  apply IH. apply (dstep_inv _ _ _ _ Hinv E).
Qed.

Theorem c13_pending_trace_ok max_streams random ops :
  forallb c13_pending_ok (pobs_trace (dstate_new max_streams random) ops) = true.
Proof. apply pobs_trace_ok, new_inv. Qed.

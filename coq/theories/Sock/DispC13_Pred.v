(* C13 "every pending connect is accounted for": a boolean predicate over what one dispatcher step shows of
   the per-address connecting slots (ConnectingPerAddr).  The snapshot exposes, per address, the four slots
   with the (token, SYN sequence number) of every pending connect (digest field cn=); the step shows which
   run_once arm fired and the SYNs it sent.  Model only. *)
From Utp Require Import Base.Prelude Wire.SeqNr Wire.Header Sock.Dispatcher.

Definition ctable := list (Z * list (option connecting)).

Record pobs := {
  po_kind : Z;                  (* 0 = a step of another task, 1 / 2 / 3 = run_once took the accept / control / recv arm *)
  po_syns : list (Z * Z);       (* (address, sequence number) of every ST_SYN sent in this step *)
  po_pre : ctable;              (* the connecting table before the step *)
  po_post : ctable;             (* and after it *)
}.

(* the four slots of an address; an absent entry is four empty slots *)
Definition pslots (t : ctable) (a : Z) : list (option connecting) :=
  match find (fun p => fst p =? a) t with Some p => snd p | None => empty_slots end.

Definition conn_eqb (a b : connecting) : bool := (cn_token a =? cn_token b) && (cn_seq a =? cn_seq b).
Definition slot_eqb (x y : option connecting) : bool :=
  match x, y with
  | None, None => true
  | Some a, Some b => conn_eqb a b
  | _, _ => false
  end.
Fixpoint slots_eqb (p q : list (option connecting)) : bool :=
  match p, q with
  | [], [] => true
  | x :: p', y :: q' => slot_eqb x y && slots_eqb p' q'
  | _, _ => false
  end.

(* q = p with exactly one EMPTY slot filled, by a connect whose SYN carried `seq`; every other slot - in
   particular every occupied one - is what it was *)
Fixpoint one_filled (p q : list (option connecting)) (seq : Z) : bool :=
  match p, q with
  | None :: p', Some c :: q' => (cn_seq c =? seq) && slots_eqb p' q'
  | x :: p', y :: q' => slot_eqb x y && one_filled p' q' seq
  | _, _ => false
  end.

(* q = p with exactly one occupied slot released; every other slot is what it was *)
Fixpoint one_freed (p q : list (option connecting)) : bool :=
  match p, q with
  | Some _ :: p', None :: q' => slots_eqb p' q'
  | x :: p', y :: q' => slot_eqb x y && one_freed p' q'
  | _, _ => false
  end.

(* number of pending connects = number of occupied slots *)
Definition pcount (l : list (option connecting)) : Z :=
  Z.of_nat (length (filter (fun x => match x with Some _ => true | None => false end) l)).

Definition syn_to (syns : list (Z * Z)) (a : Z) : option Z :=
  match find (fun p => fst p =? a) syns with Some p => Some (snd p) | None => None end.

(* one address:
   - four slots, at most four pending connects;
   - a SYN went to this address in this step (a Connect request was handled): either the request was
     granted - one empty slot now holds a connect with that sequence number and NOTHING else moved (no pending
     connect is overwritten or lost) - or it was refused, nothing moved, and then four connects were pending;
   - no SYN went to this address: nothing moved, or exactly one pending connect left (completed by its SYN-ACK:
     recv arm; released by its ConnectDropped: control arm) in a run_once step that sent no SYN at all *)
Definition addr_ok (o : pobs) (a : Z) : bool :=
  let p := pslots (po_pre o) a in
  let q := pslots (po_post o) a in
  (Z.of_nat (length q) =? 4) && (pcount q <=? 4) &&
  match syn_to (po_syns o) a with
  | Some seq => one_filled p q seq || (slots_eqb p q && (pcount p =? 4))
  | None => slots_eqb p q ||
            (one_freed p q && (2 <=? po_kind o) && match po_syns o with [] => true | _ :: _ => false end)
  end.

Definition changed (o : pobs) (a : Z) : bool :=
  negb (slots_eqb (pslots (po_pre o) a) (pslots (po_post o) a)).

(* every address of the table before or after the step is accounted for; at most one SYN per step and only by the
   control arm; the slots of at most one address change in a step *)
Definition c13_pending_ok (o : pobs) : bool :=
  let l := map fst (po_pre o) ++ map fst (po_post o) in
  (Z.of_nat (length (po_syns o)) <=? 1) &&
  (match po_syns o with [] => true | _ :: _ => po_kind o =? 2 end) &&
  forallb (addr_ok o) l &&
  forallb (fun a => forallb (fun b => implb (changed o a && changed o b) (a =? b)) l) l.

(* the only place ConnectingPerAddr.len is visible (the snapshot does not expose it): an entry is removed from
   the table exactly when is_empty() = (len == 0), so an entry that stays in the table with no occupied slot
   means len over-counts *)
Definition c13_no_empty_entry_ok (t : ctable) : bool :=
  forallb (fun p => negb (slots_empty (snd p))) t.

(* ---- what the model shows ---- *)
Definition kind_of (o : dop) : Z :=
  match o with
  | DoRunOnce _ ArmAccept => 1
  | DoRunOnce _ (ArmControl _) => 2
  | DoRunOnce _ (ArmRecv _ _) => 3
  | _ => 0
  end.

Definition psyns (e : list devent) : list (Z * Z) :=
  flat_map (fun x => match x with EvSentSyn a _ q => [(a, q)] | _ => [] end) e.

Definition pobs_of (s : dstate) (o : dop) (e : list devent) (s' : dstate) : pobs :=
  {| po_kind := kind_of o; po_syns := psyns e; po_pre := d_connecting s; po_post := d_connecting s' |}.

(* C10, socket half: arbitrary datagrams into the dispatcher never crash it, never touch another
   connection's table entry, and never drive its own state beyond its static bounds.
   The composition "UtpMessage::deserialize, then on_recv" is Sock/DispHostile.v.  Proofs only. *)
From Utp Require Import Base.Prelude Wire.SeqNr Wire.Header Wire.Header_Proofs Sock.Dispatcher
  Sock.Dispatcher_Proofs Sock.DispObs Sock.DispObs_Proofs Sock.DispFresh_Proofs Sock.DispSlots_Proofs
  Sock.DispPending_Proofs Sock.DispWiring_Proofs Sock.DispRelease_Proofs Sock.DispHostile.

(* ================================================================== 1. parsing is total *)
Lemma parse_raw_no_panic bs : parse_raw bs <> RpPanic.
Proof.
  unfold parse_raw. pose proof (no_panic bs) as H.
  destruct (msg_deserialize bs); [congruence|discriminate|discriminate].
Qed.

Lemma parse_raw_cases bs :
  (parse_raw bs = RpGarbage /\ msg_deserialize bs = MsgNone) \/
  (exists h p, msg_deserialize bs = MsgSome h p /\ parse_raw bs = RpMsg (dmsg_of_header h)).
Proof.
  unfold parse_raw. pose proof (no_panic bs) as H.
  destruct (msg_deserialize bs) as [| |h p]; [congruence|left; auto|right; eauto].
Qed.

Lemma parse_raw_garbage_iff bs : parse_raw bs = RpGarbage <-> msg_deserialize bs = MsgNone.
Proof.
  unfold parse_raw. destruct (msg_deserialize bs); split; intro H; congruence || discriminate || reflexivity.
Qed.

(* which datagrams are garbage: exactly those the C11 wire theorems reject *)
Lemma parse_raw_garbage_spec bs : bytes_okb bs = true ->
  (parse_raw bs = RpGarbage <->
   match deserialize bs with
   | None => True
   | Some (h, n) => ~ (skipn (Z.to_nat n) bs <> [] <-> h_type h = ST_DATA)
   end).
Proof. intro Hb. rewrite parse_raw_garbage_iff. apply msg_rejects_iff. exact Hb. Qed.

Lemma short_is_garbage bs : Zlength bs < 20 -> parse_raw bs = RpGarbage.
Proof.
  intro H. apply parse_raw_garbage_iff. unfold msg_deserialize, deserialize.
  destruct (Z.ltb_spec (Zlength bs) UTP_HEADER) as [_|Hge]; [reflexivity|]. unfold UTP_HEADER in Hge. lia.
Qed.

Lemma bad_version_is_garbage bs : nth 0 bs 0 mod 16 <> 1 -> parse_raw bs = RpGarbage.
Proof.
  intro H. apply parse_raw_garbage_iff. unfold msg_deserialize, deserialize.
  destruct (Zlength bs <? UTP_HEADER); [reflexivity|].
  destruct (Z.eqb_spec (nth 0 bs 0 mod 16) 1) as [E|_]; [contradiction|reflexivity].
Qed.

(* what a parsed datagram carries is what the header says, in range *)
Lemma parse_raw_msg_fields bs m : bytes_okb bs = true -> parse_raw bs = RpMsg m ->
  20 <= Zlength bs /\
  dm_conn m = of_be16 (nth 2 bs 0) (nth 3 bs 0) /\ 0 <= dm_conn m < 65536 /\
  dm_seq m = of_be16 (nth 16 bs 0) (nth 17 bs 0) /\
  dm_ack m = of_be16 (nth 18 bs 0) (nth 19 bs 0) /\
  type_to_number (dm_type m) = nth 0 bs 0 / 16.
Proof.
  intros Hb H. destruct (parse_raw_cases bs) as [[Hg _]|(h & p & Hm & Hp)]; [congruence|].
  rewrite Hp in H. injection H as <-.
  apply (msg_payload_rule bs h p Hb) in Hm. destruct Hm as (n & Hd & _ & _).
  apply (accepts_iff bs h n Hb) in Hd. destruct Hd as (exts & W1 & W2 & W3 & W4 & W5 & W6 & W7 & W8 & W9 & W10 & W11 & W12 & W13).
  unfold dmsg_of_header; cbn [dm_conn dm_seq dm_ack dm_type].
  split; [exact W1|]. split; [exact W7|]. split.
  { rewrite W7. apply of_be16_range; apply bytes_okb_nth; exact Hb. }
  auto.
Qed.

(* ------------------------------------------------------------------ the recv arm on raw bytes *)
(* never a panic; the invariant is kept; garbage changes nothing at all *)
Lemma disp_total s addr bs :
  d_inv s ->
  exists s' e, handle_recv_raw s addr bs = RoOk s' e /\
    d_inv s' /\ d_max_streams s' = d_max_streams s /\
    (parse_raw bs = RpGarbage -> s' = s /\ e = [EvDropped]) /\
    (forall m, parse_raw bs = RpMsg m -> on_recv s addr m = (s', e)).
Proof.
  intro Hinv. unfold handle_recv_raw. pose proof (parse_raw_no_panic bs) as Hnp.
  destruct (parse_raw bs) as [| |m] eqn:Ep; [congruence| |].
  - exists s, [EvDropped]. split; [reflexivity|]. split; [exact Hinv|]. split; [reflexivity|].
    split; [auto|]. intros m H; discriminate H.
  - destruct (on_recv s addr m) as [s' e] eqn:Er.
    destruct (on_recv_spec _ _ _ _ _ Hinv Er) as (A & B & _).
    exists s', e. split; [reflexivity|]. split; [exact A|]. split; [exact B|].
    split; [discriminate|]. intros m0 H0. injection H0 as <-. exact Er.
Qed.

(* the whole run_once *)
Lemma disp_total_run_once s pushes addr bs :
  d_inv s ->
  exists d s' e,
    rop_dop (RopRaw pushes addr bs) = Some d /\ rstep s (RopRaw pushes addr bs) = Some (s', e) /\
    dstep s d = (s', e) /\ d_inv s' /\ d_max_streams s' = d_max_streams s /\
    (parse_raw bs = RpGarbage ->
       d = DoRunOnce pushes (ArmRecv addr None) /\
       (* exactly cleanup_accept_queue and the parked pushes, which run whatever arm fires *)
       let '(s1, e1) := cleanup_accept_queue s in
       s' = fold_left push_acceptor pushes s1 /\ e = e1 ++ [EvDropped]).
Proof.
  intro Hinv. unfold rstep. cbn [rop_dop]. pose proof (parse_raw_no_panic bs) as Hnp.
  destruct (parse_raw bs) as [| |m] eqn:Ep; [congruence| |].
  - destruct (dstep s (DoRunOnce pushes (ArmRecv addr None))) as [s' e] eqn:Ed.
    destruct (dstep_inv _ _ _ _ Hinv Ed) as [A B].
    exists (DoRunOnce pushes (ArmRecv addr None)), s', e.
    split; [reflexivity|]. split; [reflexivity|]. split; [exact Ed|]. split; [exact A|]. split; [exact B|].
    intros _. split; [reflexivity|]. cbn [dstep] in Ed.
    destruct (cleanup_accept_queue s) as [s1 e1]. injection Ed as <- <-. auto.
  - destruct (dstep s (DoRunOnce pushes (ArmRecv addr (Some m)))) as [s' e] eqn:Ed.
    destruct (dstep_inv _ _ _ _ Hinv Ed) as [A B].
    exists (DoRunOnce pushes (ArmRecv addr (Some m))), s', e.
    split; [reflexivity|]. split; [reflexivity|]. split; [exact Ed|]. split; [exact A|]. split; [exact B|].
    intro H; discriminate H.
Qed.

(* ================================================================== 2. isolation: exact effects *)
Lemma hk_syn_key_eq y : hk_syn_key y = syn_key y.
Proof. reflexivity. Qed.
Lemma hk_syn_of_eq addr m : hk_syn_of addr m = syn_of addr m.
Proof. reflexivity. Qed.

(* ---- a SYN that no connection claimed ---- *)
(* exactly one of: a new connection for a waiting acceptor / ignored (its key is in use) /
   queued / refused with one reset; whatever happens, acceptors found abandoned are swept *)
Definition syn_effect (s : dstate) (y : syn) (s' : dstate) (e : list devent) : Prop :=
  keeps s s' /\ (length (d_chan s') <= length (d_chan s))%nat /\
  ((exists a, e = [EvAccepted a (syn_key y)] /\
      d_streams s' = d_streams s ++ [live_entry (syn_key y) (d_next_sid s)] /\
      d_handed s' = d_handed s ++ [(a, (syn_key y, d_next_sid s))] /\
      d_syns s' = d_syns s /\ d_syns s = [] /\
      ~ In (syn_key y) (keys (d_streams s)) /\ ~ In a (d_dead_acceptors s)) \/
   (e = [] /\ d_streams s' = d_streams s /\ d_handed s' = d_handed s /\ d_syns s' = d_syns s /\
      d_syns s = [] /\ In (syn_key y) (keys (d_streams s))) \/
   (e = [] /\ d_streams s' = d_streams s /\ d_handed s' = d_handed s /\ d_syns s' = d_syns s ++ [y] /\
      Z.of_nat (length (d_syns s)) < ACCEPT_QUEUE_MAX_SYNS) \/
   (e = [EvSentRst (sy_addr y) (sy_conn y) (sy_seq y)] /\
      d_streams s' = d_streams s /\ d_handed s' = d_handed s /\ d_syns s' = d_syns s /\
      ACCEPT_QUEUE_MAX_SYNS <= Z.of_nat (length (d_syns s)))).

Inductive loop_res (s : dstate) (y : syn) (s' : dstate) (done : bool) (e : list devent) : Prop :=
| LrAccepted a :
    done = true -> e = [EvAccepted a (syn_key y)] ->
    d_streams s' = d_streams s ++ [live_entry (syn_key y) (d_next_sid s)] ->
    d_handed s' = d_handed s ++ [(a, (syn_key y, d_next_sid s))] ->
    ~ In (syn_key y) (keys (d_streams s)) -> ~ In a (d_dead_acceptors s) -> loop_res s y s' done e
| LrClash :
    done = true -> e = [] -> same_tabs s s' -> In (syn_key y) (keys (d_streams s)) -> loop_res s y s' done e
| LrNone :
    done = false -> e = [] -> same_tabs s s' -> loop_res s y s' done e.

Lemma match_syn_invalid_clash s y a s' e :
  match_syn_with_accept s y a = (s', MrSynInvalid, e) -> In (syn_key y) (keys (d_streams s)).
Proof.
  unfold match_syn_with_accept. fold (syn_key y).
  destruct (streams_full s); [discriminate|].
  destruct (has_stream s (syn_key y)) eqn:Eh; [intros _; apply has_stream_in; exact Eh|].
  destruct (next_random s) as [s1 x]. destruct (mem_z a _); discriminate.
Qed.

Lemma match_syn_chan s y a s' r e : match_syn_with_accept s y a = (s', r, e) -> d_chan s' = d_chan s.
Proof.
  unfold match_syn_with_accept. destruct (streams_full s); [intro H; injection H as <- _ _; reflexivity|].
  destruct (has_stream s _); [intro H; injection H as <- _ _; reflexivity|].
  destruct (next_random s) as [s1 x] eqn:Er. destruct (next_random_same _ _ _ Er) as (_ & _ & _ & R4 & _).
  destruct (mem_z a _); intro H; injection H as <- _ _; dsimpl; exact R4.
Qed.

Lemma on_syn_loop_exact : forall fuel s y s' done e,
  on_syn_loop fuel s y = (s', done, e) ->
  loop_res s y s' done e /\ d_syns s' = d_syns s /\ (length (d_chan s') <= length (d_chan s))%nat.
Proof.
  induction fuel as [|fuel IH]; intros s y s' done e; cbn [on_syn_loop].
  { intro H; injection H as <- <- <-. split; [apply LrNone; auto using same_tabs_refl|auto]. }
  destruct (try_next_acceptor s) as [s1 oa] eqn:Et.
  destruct (try_next_same_tabs _ _ _ Et) as [T1 T2].
  destruct (try_next_acceptor_spec _ _ _ Et) as (_ & _ & _ & _ & _ & _ & T7 & _).
  destruct oa as [a|].
  2:{ intro H; injection H as <- <- <-. split; [apply LrNone; auto|auto]. }
  destruct (match_syn_with_accept s1 y a) as [[s2 r] e2] eqn:Em.
  destruct (match_syn_exact _ _ _ _ _ _ Em) as (D & M).
  pose proof (match_syn_syns _ _ _ _ _ _ Em) as Hsy.
  pose proof (match_syn_chan _ _ _ _ _ _ Em) as Hch.
  assert (Hlen : (length (d_chan s2) <= length (d_chan s))%nat) by (rewrite Hch; exact T7).
  destruct T1 as (U1 & U2 & U3 & U4).
  destruct r; intro H.
  - injection H as <- <- <-. destruct M as (-> & M1 & M2 & M3 & M4 & _).
    split; [|split; [congruence|lia]].
    apply (LrAccepted _ _ _ _ _ a); auto; congruence.
  - injection H as <- <- <-. destruct M as (-> & M1 & M2 & M3). dsimpl.
    split; [|split; [congruence|lia]].
    apply LrNone; auto. unfold same_tabs; dsimpl. repeat split; congruence.
  - injection H as <- <- <-. destruct M as (-> & M1 & M2 & M3). dsimpl.
    split; [|split; [congruence|lia]].
    apply LrClash; auto.
    + unfold same_tabs; dsimpl. repeat split; congruence.
    + rewrite <- U1. eapply match_syn_invalid_clash; exact Em.
  - destruct M as (-> & M1 & M2 & M3).
    destruct (IH _ _ _ _ _ H) as (L & S1 & S2).
    assert (Hst : same_tabs s s2) by (unfold same_tabs; repeat split; congruence).
    destruct Hst as (V1 & V2 & V3 & V4).
    split; [|split; [congruence|lia]].
    destruct L as [a0 L1 L2 L3 L4 L5 L6|L1 L2 L3 L4|L1 L2 L3].
    + apply (LrAccepted _ _ _ _ _ a0); auto; try congruence.
    + apply LrClash; auto; [|congruence]. eapply same_tabs_trans; [|exact L3].
      unfold same_tabs; repeat split; congruence.
    + apply LrNone; auto. eapply same_tabs_trans; [|exact L3].
      unfold same_tabs; repeat split; congruence.
Qed.

Lemma on_syn_exact s y s' e : on_syn s y = (s', e) -> syn_effect s y s' e.
Proof.
  intro H. pose proof (on_syn_keeps _ _ _ _ H) as K. unfold syn_effect. split; [exact K|].
  unfold on_syn in H.
  destruct (d_syns s) as [|y0 r0] eqn:Es.
  - destruct (on_syn_loop (length (d_chan s) + 2) s y) as [[s1 done] e1] eqn:El.
    destruct (on_syn_loop_exact _ _ _ _ _ _ El) as (L & S1 & S2). rewrite Es in S1.
    destruct L as [a L1 L2 L3 L4 L5 L6|L1 L2 L3 L4|L1 L2 L3]; subst done e1.
    + injection H as <- <-. split; [exact S2|]. left. exists a. repeat split; auto.
    + injection H as <- <-. split; [exact S2|]. right; left.
      destruct L3 as (V1 & V2 & _). repeat split; auto.
    + destruct L3 as (V1 & V2 & _). rewrite S1 in H. cbn [length app] in H.
      destruct (Z.ltb_spec (Z.of_nat 0) ACCEPT_QUEUE_MAX_SYNS) as [Hlt|Hge].
      * injection H as <- <-. dsimpl. split; [exact S2|]. right; right; left.
        repeat split; auto.
      * exfalso. unfold ACCEPT_QUEUE_MAX_SYNS in Hge. cbn in Hge. lia.
  - cbv beta iota in H. rewrite !Es in H.
    destruct (Z.ltb_spec (Z.of_nat (length (y0 :: r0))) ACCEPT_QUEUE_MAX_SYNS) as [Hlt|Hge];
      injection H as <- <-; dsimpl; (split; [lia|]).
    + right; right; left. repeat split; auto.
    + right; right; right. repeat split; auto.
Qed.

(* ---- a ST_STATE that no connection claimed ---- *)
(* nothing, or the completion of exactly the first pending connect to this address whose SYN
   carried the acknowledged sequence number *)
Definition ack_effect (s : dstate) (addr : Z) (m : dmsg) (s' : dstate) (e : list devent) : Prop :=
  let k := {| k_addr := addr; k_conn := dm_conn m |} in
  (s' = s /\ e = [EvDropped]) \/
  (exists c m1 m2,
     streams_full s = false /\
     pending s addr = m1 ++ c :: m2 /\ cn_seq c = dm_ack m /\
     (forall x, In x m1 -> cn_seq x <> dm_ack m) /\
     pending s' addr = m1 ++ m2 /\ (forall a, a <> addr -> pending s' a = pending s a) /\
     d_next_conn_id s' = d_next_conn_id s /\ d_control s' = d_control s /\ d_syns s' = d_syns s /\
     d_chan s' = d_chan s /\ d_next_acc s' = d_next_acc s /\
     d_dead_connectors s' = d_dead_connectors s /\ d_handed s' = d_handed s /\
     ((In (cn_token c) (d_dead_connectors s) /\ e = [EvDropped] /\
       d_streams s' = d_streams s /\ d_results s' = d_results s) \/
      (~ In (cn_token c) (d_dead_connectors s) /\ e = [EvConnected (cn_token c) k] /\
       d_streams s' = d_streams s ++ [live_entry k (d_next_sid s)] /\
       d_results s' = d_results s ++ [(cn_token c, CrOk k)]))).

Lemma mem_z_true_in x l : mem_z x l = true -> In x l.
Proof.
  unfold mem_z. intro H. apply existsb_exists in H. destruct H as (y & Hy & E).
  apply Z.eqb_eq in E. congruence.
Qed.

Lemma on_ack_exact s addr m s' e :
  d_inv s -> find_stream s {| k_addr := addr; k_conn := dm_conn m |} = None ->
  on_maybe_connect_ack s addr m = (s', e) -> ack_effect s addr m s' e.
Proof.
  intros Hinv Hnone H. pose proof (on_maybe_connect_ack_slots _ _ _ _ _ Hinv Hnone H) as Hsl.
  cbv zeta in Hsl. unfold ack_effect.
  destruct (streams_full s) eqn:Ef; [left; exact Hsl|].
  destruct (slots_pop _ (slots_of s addr)) as [[c sl']|] eqn:Ep; [|left; exact Hsl].
  right. destruct Hsl as (S1 & S2 & S3 & S4 & S5 & S6 & S7 & S8 & S9 & S10).
  destruct (slots_pop_somes _ _ _ _ Ep) as (m1 & m2 & Q1 & Q2 & Q3 & Q4 & _).
  exists c, m1, m2. split; [reflexivity|]. split; [exact Q1|]. split; [apply Z.eqb_eq; exact Q3|].
  split; [intros x Hx; apply Z.eqb_neq; apply Q4; exact Hx|].
  split; [unfold pending; rewrite S1; exact Q2|].
  split; [intros a Ha; unfold pending; rewrite (S2 a Ha); reflexivity|].
  repeat (split; [assumption|]).
  destruct (mem_z (cn_token c) (d_dead_connectors s)) eqn:Em.
  - left. split; [apply mem_z_true_in; exact Em|exact S10].
  - right. split; [apply mem_z_false; exact Em|exact S10].
Qed.

(* ---- every datagram, exactly ---- *)
Definition recv_effect (s : dstate) (addr : Z) (m : dmsg) (s' : dstate) (e : list devent) : Prop :=
  let k := {| k_addr := addr; k_conn := dm_conn m |} in
  match find_stream s k with
  | Some en =>
      if se_alive en then s' = s /\ e = [EvForward k]
      else s' = upd_streams s (remove_stream (d_streams s) k) /\ e = [EvDropped]
  | None =>
      match dm_type m with
      | ST_SYN => syn_effect s (syn_of addr m) s' e
      | ST_STATE => ack_effect s addr m s' e
      | _ => s' = s /\ e = [EvDropped]
      end
  end.

Lemma on_recv_exact s addr m s' e :
  d_inv s -> on_recv s addr m = (s', e) -> recv_effect s addr m s' e.
Proof.
  intros Hinv H. unfold recv_effect. unfold on_recv in H.
  destruct (find_stream s _) as [en|] eqn:Ef.
  - destruct (se_alive en); injection H as <- <-; auto.
  - destruct (dm_type m); try (injection H as <- <-; auto; fail).
    + apply on_ack_exact; assumption.
    + apply on_syn_exact. exact H.
Qed.

(* ------------------------------------------------------------------ isolation, spelled out *)
Lemma remove_stream_keeps_others l k en : In en l -> se_key en <> k -> In en (remove_stream l k).
Proof.
  intros Hin Hne. unfold remove_stream. apply filter_In. split; [exact Hin|].
  destruct (skey_eqb (se_key en) k) eqn:E; [apply skey_eqb_eq in E; contradiction|reflexivity].
Qed.

Lemma remove_stream_incl l k : incl (remove_stream l k) l.
Proof. intros en H. unfold remove_stream in H. apply filter_In in H. tauto. Qed.

Definition iso_concl (s : dstate) (addr : Z) (m : dmsg) (s' : dstate) (e : list devent) : Prop :=
  let k := {| k_addr := addr; k_conn := dm_conn m |} in
  (* forwarded to no other connection, and then nothing else happens *)
  (forall k0, In (EvForward k0) e -> k0 = k /\ e = [EvForward k] /\ s' = s) /\
  (* every entry under another key is still there, the very same entry (object, liveness) *)
  (forall en, In en (d_streams s) -> se_key en <> k -> In en (d_streams s')) /\
  (* at most one entry is created: by a SYN under (addr, id + 1), by a ST_STATE under (addr, id),
     only when no connection claimed the datagram, only under a key that was free *)
  (forall en, In en (d_streams s') -> In en (d_streams s) \/
     (find_stream s k = None /\ d_streams s' = d_streams s ++ [en] /\ se_alive en = true /\
      ~ In (se_key en) (keys (d_streams s)) /\
      ((dm_type m = ST_SYN /\ se_key en = syn_key (syn_of addr m)) \/
       (dm_type m = ST_STATE /\ se_key en = k)))) /\
  (* at most this SYN is queued, and then nothing else happens to table or wire *)
  (d_syns s' = d_syns s \/
   (dm_type m = ST_SYN /\ find_stream s k = None /\ d_syns s' = d_syns s ++ [syn_of addr m] /\
    d_streams s' = d_streams s /\ e = [])) /\
  (* at most one reply: the reset refusing this SYN, and then nothing else happens *)
  (forall a c q, In (EvSentRst a c q) e ->
     dm_type m = ST_SYN /\ find_stream s k = None /\ e = [EvSentRst addr (dm_conn m) (dm_seq m)] /\
     d_streams s' = d_streams s /\ d_syns s' = d_syns s) /\
  (forall a c q, ~ In (EvSentSyn a c q) e) /\
  (* pending connects: at most one is completed, of this address, by a ST_STATE acknowledging its SYN *)
  (forall a, pending s' a = pending s a \/
     (a = addr /\ dm_type m = ST_STATE /\ find_stream s k = None /\
      exists c m1 m2, pending s a = m1 ++ c :: m2 /\ cn_seq c = dm_ack m /\ pending s' a = m1 ++ m2)) /\
  d_control s' = d_control s /\ d_next_conn_id s' = d_next_conn_id s /\
  d_max_streams s' = d_max_streams s /\ d_dead_connectors s' = d_dead_connectors s /\
  d_dead_acceptors s' = d_dead_acceptors s.

Ltac iso_single :=
  match goal with
  | |- forall k0, In (EvForward k0) [EvForward _] -> _ =>
      let H := fresh in intros ? [H|[]]; injection H as <-; auto
  | |- forall k0, In _ [_] -> _ => let H := fresh in intros ? [H|[]]; discriminate H
  | |- forall k0, In _ [] -> _ => intros ? []
  | |- forall a c q, In _ [_] -> _ => let H := fresh in intros ? ? ? [H|[]]; discriminate H
  | |- forall a c q, In _ [] -> _ => intros ? ? ? []
  | |- forall a c q, ~ In _ [_] => let H := fresh in intros ? ? ? [H|[]]; discriminate H
  | |- forall a c q, ~ In _ [] => intros ? ? ? []
  end.

Lemma in_app_single {A} (l : list A) x y : In y (l ++ [x]) -> In y l \/ y = x.
Proof. intro H. apply in_app_or in H. destruct H as [H|[H|[]]]; auto. Qed.

Theorem disp_isolation s addr m s' e :
  d_inv s -> on_recv s addr m = (s', e) -> iso_concl s addr m s' e.
Proof.
  intros Hinv H. pose proof (on_recv_exact _ _ _ _ _ Hinv H) as Heff.
  unfold recv_effect in Heff. unfold iso_concl. cbv zeta in *.
  set (k := {| k_addr := addr; k_conn := dm_conn m |}) in *.
  assert (Hquiet : forall x, (forall k0, x <> EvForward k0 \/ x = EvForward k) ->
            (forall a c q, x <> EvSentRst a c q) -> (forall a c q, x <> EvSentSyn a c q) ->
            s' = s -> e = [x] ->
            (forall k0, In (EvForward k0) e -> k0 = k /\ e = [EvForward k] /\ s' = s) /\
            (forall en, In en (d_streams s) -> se_key en <> k -> In en (d_streams s')) /\
            (forall en, In en (d_streams s') -> In en (d_streams s) \/
               (find_stream s k = None /\ d_streams s' = d_streams s ++ [en] /\ se_alive en = true /\
                ~ In (se_key en) (keys (d_streams s)) /\
                ((dm_type m = ST_SYN /\ se_key en = syn_key (syn_of addr m)) \/
                 (dm_type m = ST_STATE /\ se_key en = k)))) /\
            (d_syns s' = d_syns s \/
             (dm_type m = ST_SYN /\ find_stream s k = None /\ d_syns s' = d_syns s ++ [syn_of addr m] /\
              d_streams s' = d_streams s /\ e = [])) /\
            (forall a c q, In (EvSentRst a c q) e ->
               dm_type m = ST_SYN /\ find_stream s k = None /\ e = [EvSentRst addr (dm_conn m) (dm_seq m)] /\
               d_streams s' = d_streams s /\ d_syns s' = d_syns s) /\
            (forall a c q, ~ In (EvSentSyn a c q) e) /\
            (forall a, pending s' a = pending s a \/
               (a = addr /\ dm_type m = ST_STATE /\ find_stream s k = None /\
                exists c m1 m2, pending s a = m1 ++ c :: m2 /\ cn_seq c = dm_ack m /\ pending s' a = m1 ++ m2)) /\
            d_control s' = d_control s /\ d_next_conn_id s' = d_next_conn_id s /\
            d_max_streams s' = d_max_streams s /\ d_dead_connectors s' = d_dead_connectors s /\
            d_dead_acceptors s' = d_dead_acceptors s).
  { intros x Hf Hr Hsy -> ->.
    split.
    { intros k0 [Hx|[]]. destruct (Hf k0) as [Hne|Heq]; [congruence|].
      rewrite Heq in Hx. injection Hx as <-. rewrite Heq. auto. }
    split; [auto|]. split; [auto|]. split; [auto|].
    split; [intros a c q [Hx|[]]; exfalso; exact (Hr a c q Hx)|].
    split; [intros a c q [Hx|[]]; exact (Hsy a c q Hx)|].
    split; [auto|]. repeat split. }
  destruct (find_stream s k) as [en0|] eqn:Ef.
  - destruct (se_alive en0) eqn:Ea; destruct Heff as [Hs He].
    + apply (Hquiet (EvForward k)); auto; try discriminate.
    + subst s' e. dsimpl.
      split; [iso_single|].
      split; [intros en Hin Hne; apply remove_stream_keeps_others; assumption|].
      split; [intros en Hin; left; eapply remove_stream_incl; exact Hin|].
      split; [auto|]. split; [iso_single|]. split; [iso_single|].
      split; [intro a; left; apply pending_same_connecting; reflexivity|]. repeat split.
  - destruct (dm_type m) eqn:Et;
      try (destruct Heff as [Hs He]; apply (Hquiet EvDropped); auto; try discriminate; intros; left; discriminate).
    + (* ST_STATE *)
      destruct Heff as [[Hs He]|(c & m1 & m2 & _ & P1 & P2 & P3 & P4 & P5 & F1 & F2 & F3 & F4 & F5 & F6 & F7 & Hcase)].
      { apply (Hquiet EvDropped); auto; try discriminate. intros; left; discriminate. }
      assert (Hpend : forall a, pending s' a = pending s a \/
               (a = addr /\ ST_STATE = ST_STATE /\ @None sentry = None /\
                exists c m1 m2, pending s a = m1 ++ c :: m2 /\ cn_seq c = dm_ack m /\ pending s' a = m1 ++ m2)).
      { intro a. destruct (Z.eq_dec a addr) as [->|Hne]; [|left; apply P5; exact Hne].
        right. split; [reflexivity|]. split; [reflexivity|]. split; [reflexivity|].
        exists c, m1, m2. auto. }
      assert (Hmax : d_max_streams s' = d_max_streams s /\ d_dead_acceptors s' = d_dead_acceptors s).
      { destruct (on_maybe_connect_ack_spec _ _ _ _ _ Hinv Ef ltac:(unfold on_recv in H; fold k in H; rewrite Ef, Et in H; exact H))
          as (_ & B & _).
        split; [exact B|].
        unfold on_recv in H. fold k in H. rewrite Ef, Et in H.
        exact (proj2 (on_maybe_connect_ack_handed _ _ _ _ _ H)). }
      destruct Hmax as [Hmax Hda].
      destruct Hcase as [(Hd & -> & S1 & S2)|(Hd & -> & S1 & S2)].
      * split; [iso_single|]. split; [intros en Hin _; rewrite S1; exact Hin|].
        split; [intros en Hin; left; rewrite <- S1; exact Hin|].
        split; [left; exact F3|]. split; [iso_single|]. split; [iso_single|].
        split; [exact Hpend|]. repeat split; assumption.
      * split; [iso_single|].
        split; [intros en Hin _; rewrite S1; apply in_or_app; left; exact Hin|].
        split.
        { intros en Hin. rewrite S1 in Hin. apply in_app_single in Hin. destruct Hin as [Hin| ->]; [left; exact Hin|].
          right. split; [reflexivity|]. split; [exact S1|]. split; [reflexivity|].
          split; [exact (find_none_not_in _ _ Ef)|]. right. split; reflexivity. }
        split; [left; exact F3|]. split; [iso_single|]. split; [iso_single|].
        split; [exact Hpend|]. repeat split; assumption.
    + (* ST_SYN *)
      destruct Heff as (K & _ & Hcase). destruct K as (K1 & K2 & K3 & K4 & K5 & K6 & K7).
      assert (Hpend : forall a, pending s' a = pending s a \/
               (a = addr /\ ST_SYN = ST_STATE /\ @None sentry = None /\
                exists c m1 m2, pending s a = m1 ++ c :: m2 /\ cn_seq c = dm_ack m /\ pending s' a = m1 ++ m2))
        by (intro a; left; apply pending_same_connecting; exact K5).
      destruct Hcase as [(a & -> & S1 & S2 & S3 & S4 & S5 & S6)|[(-> & S1 & S2 & S3 & S4 & S5)|
                         [(-> & S1 & S2 & S3 & S4)|(-> & S1 & S2 & S3 & S4)]]].
      * split; [iso_single|].
        split; [intros en Hin _; rewrite S1; apply in_or_app; left; exact Hin|].
        split.
        { intros en Hin. rewrite S1 in Hin. apply in_app_single in Hin. destruct Hin as [Hin| ->]; [left; exact Hin|].
          right. split; [reflexivity|]. split; [exact S1|]. split; [reflexivity|].
          split; [exact S5|]. left. split; reflexivity. }
        split; [left; exact S3|]. split; [iso_single|]. split; [iso_single|].
        split; [exact Hpend|]. repeat split; assumption.
      * split; [iso_single|]. split; [intros en Hin _; rewrite S1; exact Hin|].
        split; [intros en Hin; left; rewrite <- S1; exact Hin|].
        split; [left; exact S3|]. split; [iso_single|]. split; [iso_single|].
        split; [exact Hpend|]. repeat split; assumption.
      * split; [iso_single|]. split; [intros en Hin _; rewrite S1; exact Hin|].
        split; [intros en Hin; left; rewrite <- S1; exact Hin|].
        split; [right; auto|]. split; [iso_single|]. split; [iso_single|].
        split; [exact Hpend|]. repeat split; assumption.
      * split; [iso_single|]. split; [intros en Hin _; rewrite S1; exact Hin|].
        split; [intros en Hin; left; rewrite <- S1; exact Hin|].
        split; [left; exact S3|].
        split; [intros a c q [Hx|[]]; injection Hx as <- <- <-; auto|]. split; [iso_single|].
        split; [exact Hpend|]. repeat split; assumption.
Qed.

(* ================================================================== the whole run_once whose recv arm fires *)
(* cleanup_accept_queue creates entries only for SYNs that were waiting in the backlog *)
Definition only_syn_keys (s s' : dstate) (syns : list syn) : Prop :=
  forall en, In en (d_streams s') ->
    In en (d_streams s) \/ exists y, In y syns /\ se_key en = syn_key y.

Lemma only_syn_keys_same s s' syns : d_streams s' = d_streams s -> only_syn_keys s s' syns.
Proof. intros E en Hin. left. rewrite <- E. exact Hin. Qed.

Lemma cleanup_loop_only_new : forall fuel s ev s' ev',
  cleanup_loop fuel s ev = (s', ev') -> only_syn_keys s s' (d_syns s).
Proof.
  induction fuel as [|fuel IH]; intros s ev s' ev'; cbn [cleanup_loop].
  { intro H; injection H as <- _. apply only_syn_keys_same. reflexivity. }
  destruct (d_syns s) as [|y rest] eqn:Es.
  { intro H; injection H as <- _. apply only_syn_keys_same. reflexivity. }
  destruct (try_next_acceptor (upd_syns s rest)) as [s1 oa] eqn:Et.
  destruct (try_next_same_tabs _ _ _ Et) as [(T1 & _) T2]. dsimpl.
  destruct oa as [a|].
  2:{ intro H; injection H as <- _. apply only_syn_keys_same. dsimpl. exact T1. }
  destruct (match_syn_with_accept s1 y a) as [[s2 r] e] eqn:Em.
  destruct (match_syn_exact _ _ _ _ _ _ Em) as (_ & M).
  pose proof (match_syn_syns _ _ _ _ _ _ Em) as Hsy. rewrite T2 in Hsy.
  destruct r; intro H.
  - destruct M as (_ & _ & _ & M1 & _). apply IH in H. rewrite Hsy in H.
    intros en Hin. destruct (H en Hin) as [Hin2|(y' & Hy' & Hk)].
    + rewrite M1, T1 in Hin2. apply in_app_single in Hin2. destruct Hin2 as [Hin2| ->]; [left; exact Hin2|].
      right. exists y. split; [left; reflexivity|reflexivity].
    + right. exists y'. split; [right; exact Hy'|exact Hk].
  - destruct M as (_ & M1 & _). injection H as <- _. apply only_syn_keys_same. dsimpl. congruence.
  - destruct M as (_ & M1 & _). apply IH in H. unfold only_syn_keys in H. dsimpl. rewrite Hsy in H.
    intros en Hin. destruct (H en Hin) as [Hin2|(y' & Hy' & Hk)].
    + left. rewrite M1, T1 in Hin2. exact Hin2.
    + right. exists y'. split; [right; exact Hy'|exact Hk].
  - destruct M as (_ & M1 & _). apply IH in H. unfold only_syn_keys in H. dsimpl.
    intros en Hin. destruct (H en Hin) as [Hin2|(y' & Hy' & Hk)].
    + left. rewrite M1, T1 in Hin2. exact Hin2.
    + right. exists y'. split; [rewrite Hsy in Hy'; exact Hy'|exact Hk].
Qed.

Lemma cleanup_only_new s s' e : cleanup_accept_queue s = (s', e) -> only_syn_keys s s' (d_syns s).
Proof.
  unfold cleanup_accept_queue. destruct (streams_full s).
  - intro H; injection H as <- _. apply only_syn_keys_same. reflexivity.
  - apply cleanup_loop_only_new.
Qed.

Lemma fwd_keys_app a b : fwd_keys (a ++ b) = fwd_keys a ++ fwd_keys b.
Proof. unfold fwd_keys. apply flat_map_app. Qed.

Lemma in_fwd_keys k e : In k (fwd_keys e) -> In (EvForward k) e.
Proof.
  unfold fwd_keys. intro H. apply in_flat_map in H. destruct H as (x & Hx & Hk).
  destruct x; cbn in Hk; try contradiction. destruct Hk as [<-|[]]. exact Hx.
Qed.

Lemma all_accepted_fwd e : all_accepted e -> fwd_keys e = [].
Proof.
  intro H. destruct (fwd_keys e) as [|k r] eqn:E; [reflexivity|]. exfalso.
  assert (Hin : In (EvForward k) e) by (apply in_fwd_keys; rewrite E; left; reflexivity).
  unfold all_accepted in H. rewrite Forall_forall in H. exact (H _ Hin).
Qed.

Lemma count_rst_app a b : count_rst (a ++ b) = count_rst a + count_rst b.
Proof. unfold count_rst. rewrite filter_app, app_length. lia. Qed.

Lemma all_accepted_rst e : all_accepted e -> count_rst e = 0.
Proof.
  unfold count_rst. intro H. induction H as [|x l Hx Hl IH]; [reflexivity|]. cbn [filter].
  destruct x; try contradiction; exact IH.
Qed.

Lemma count_rst_pos_in e : 0 < count_rst e -> exists a c q, In (EvSentRst a c q) e.
Proof.
  unfold count_rst. induction e as [|x l IH]; cbn [filter length]; [cbn; lia|].
  destruct x; try (intro H; destruct (IH H) as (a & c & q & Hin); exists a, c, q; right; exact Hin).
  intros _. eexists _, _, _. left. reflexivity.
Qed.

Lemma count_rst_nonneg e : 0 <= count_rst e.
Proof. unfold count_rst. lia. Qed.

Lemma is_own_key_iff addr om k :
  is_own_key addr om k = true <-> exists m, om = Some m /\ k = {| k_addr := addr; k_conn := dm_conn m |}.
Proof.
  unfold is_own_key. destruct om as [m|].
  - rewrite skey_eqb_eq. split; [intros ->; eauto|intros (m0 & E & ->); injection E as <-; reflexivity].
  - split; [discriminate|intros (m0 & E & _); discriminate].
Qed.

Lemma is_syn_iff om : is_syn om = true <-> exists m, om = Some m /\ dm_type m = ST_SYN.
Proof.
  unfold is_syn. destruct om as [m|].
  - rewrite ptype_eqb_iff. split; [eauto|intros (m0 & E & H); injection E as <-; exact H].
  - split; [discriminate|intros (m0 & E & _); discriminate].
Qed.

(* everything the step predicate looks at, in plain terms *)
Lemma run_once_recv_facts s pushes addr om s' e :
  d_inv s -> dstep s (DoRunOnce pushes (ArmRecv addr om)) = (s', e) ->
  (forall k0, In k0 (fwd_keys e) -> is_own_key addr om k0 = true) /\
  (length (fwd_keys e) <= 1)%nat /\
  (forall en, In en (d_streams s) -> is_own_key addr om (se_key en) = false -> In en (d_streams s')) /\
  (forall en, In en (d_streams s') ->
     In (se_key en) (keys (d_streams s)) \/ (exists y, In y (d_syns s) /\ se_key en = syn_key y) \/
     may_create addr om (se_key en) = true) /\
  (exists n, (n <= length (d_syns s))%nat /\
     (d_syns s' = skipn n (d_syns s) \/
      exists m, om = Some m /\ dm_type m = ST_SYN /\ d_syns s' = skipn n (d_syns s) ++ [syn_of addr m])) /\
  count_rst e <= 1 /\ (0 < count_rst e -> is_syn om = true) /\
  d_control s' = d_control s.
Proof.
  intros Hinv H.
  destruct (run_once_decomp _ _ _ _ _ Hinv H) as (s1 & e1 & e3 & Ec & Ea & -> & Hinv1 & Hacc & Hfr & Hinv2 & Hsame).
  destruct (cleanup_keeps _ _ _ Ec) as (_ & _ & _ & _ & _ & K6 & _).
  pose proof (cleanup_only_new _ _ _ Ec) as Honly.
  destruct (cleanup_serves_from_front _ _ _ Ec) as [n0 Hn0].
  destruct (skipn_clip n0 (d_syns s)) as (n & Hn & Hclip). rewrite Hclip in Hn0.
  destruct Hfr as [B1 B2 B3 B4 B5].
  destruct Hsame as (P1 & P2 & P3 & P4 & P5 & _).
  set (s2 := fold_left push_acceptor pushes s1) in *.
  rewrite fwd_keys_app, (all_accepted_fwd _ Hacc), count_rst_app, (all_accepted_rst _ Hacc). cbn [app].
  unfold arm_step in Ea. destruct om as [m|].
  2:{ injection Ea as <- <-. cbn [fwd_keys flat_map app In length].
      split; [intros k0 []|]. split; [lia|].
      split; [intros en Hin _; rewrite P1; apply B4; exact Hin|].
      split.
      { intros en Hin. rewrite P1 in Hin. destruct (Honly en Hin) as [Hin0|Hy]; [left; apply in_map; exact Hin0|right; left; exact Hy]. }
      split; [exists n; split; [exact Hn|left; congruence]|].
      split; [cbn; lia|]. split; [cbn; lia|]. congruence. }
  destruct (disp_isolation _ _ _ _ _ Hinv2 Ea) as (J1 & J2 & J3 & J4 & J5 & J6 & J7 & J8 & _).
  set (k := {| k_addr := addr; k_conn := dm_conn m |}) in *.
  split.
  { intros k0 Hin. apply in_fwd_keys in Hin. destruct (J1 _ Hin) as (-> & _). apply is_own_key_iff. eauto. }
  split.
  { destruct (fwd_keys e3) as [|k0 r] eqn:E; [cbn; lia|].
    assert (Hin : In (EvForward k0) e3) by (apply in_fwd_keys; rewrite E; left; reflexivity).
    destruct (J1 _ Hin) as (_ & He3 & _). rewrite He3 in E. cbn in E. injection E as _ <-. cbn. lia. }
  split.
  { intros en Hin Hown. apply J2; [rewrite P1; apply B4; exact Hin|].
    intro Hk. assert (Ht : is_own_key addr (Some m) (se_key en) = true) by (apply is_own_key_iff; eauto). congruence. }
  split.
  { intros en Hin. destruct (J3 en Hin) as [Hin2|(Hnone & _ & _ & _ & Hcase)].
    - rewrite P1 in Hin2. destruct (Honly en Hin2) as [Hin0|Hy]; [left; apply in_map; exact Hin0|right; left; exact Hy].
    - right; right. unfold may_create. destruct Hcase as [[Ht Hk]|[Ht Hk]]; rewrite Ht, Hk; apply skey_eqb_refl. }
  split.
  { exists n. split; [exact Hn|]. destruct J4 as [Hs|(Ht & _ & Hs & _)].
    - left. congruence.
    - right. exists m. split; [reflexivity|]. split; [exact Ht|]. rewrite Hs. congruence. }
  split.
  { destruct (Z.ltb_spec 0 (count_rst e3)) as [Hpos|Hle]; [|lia].
    destruct (count_rst_pos_in _ Hpos) as (a & c & q & Hin). destruct (J5 _ _ _ Hin) as (_ & _ & -> & _). cbn. lia. }
  split.
  { intro Hpos. destruct (count_rst_pos_in e3 ltac:(lia)) as (a & c & q & Hin).
    destruct (J5 _ _ _ Hin) as (Ht & _). apply is_syn_iff. eauto. }
  congruence.
Qed.

(* ------------------------------------------------------------------ the extracted predicate holds of every model step *)
Lemma obs_has_in s en : In en (d_streams s) -> obs_has (ob_streams (dobs_of s)) (se_key en, se_alive en) = true.
Proof.
  intro Hin. unfold obs_has, dobs_of; cbn [ob_streams]. apply existsb_exists.
  exists (se_key en, se_alive en). split; [apply in_map_iff; exists en; auto|].
  cbn [fst snd]. rewrite skey_eqb_refl, Bool.eqb_reflx. reflexivity.
Qed.

Lemma backlog_ok_suffix addr om pre n : (n <= length pre)%nat -> backlog_ok addr om pre (skipn n pre) = true.
Proof.
  intro Hn. unfold backlog_ok. apply existsb_exists. exists n. split; [apply in_seq; lia|].
  rewrite syns_eqb_refl. reflexivity.
Qed.

Lemma backlog_ok_plus addr m pre n : (n <= length pre)%nat -> dm_type m = ST_SYN ->
  backlog_ok addr (Some m) pre (skipn n pre ++ [syn_of addr m]) = true.
Proof.
  intros Hn Ht. unfold backlog_ok. apply existsb_exists. exists n. split; [apply in_seq; lia|].
  assert (Hs : is_syn (Some m) = true) by (apply is_syn_iff; eauto). rewrite Hs.
  cbv beta. change (hk_syn_of addr m) with (syn_of addr m). rewrite syns_eqb_refl. cbn [andb]. apply orb_true_r.
Qed.

Theorem c10_disp_step_ok_model s pushes addr om s' e :
  d_inv s -> dstep s (DoRunOnce pushes (ArmRecv addr om)) = (s', e) ->
  c10_disp_step_ok addr om (dstep_obs_of s e s') = true.
Proof.
  intros Hinv H.
  destruct (run_once_recv_facts _ _ _ _ _ _ Hinv H) as (F1 & F2 & F3 & F4 & (n & Hn & F5) & F6 & F7 & F8).
  unfold c10_disp_step_ok, dstep_obs_of; cbn [so_pre so_post so_fwd so_rsts].
  repeat (apply andb_true_iff; split).
  - apply forallb_forall. exact F1.
  - apply Z.leb_le. lia.
  - apply forallb_forall. intros p Hp. unfold dobs_of in Hp; cbn [ob_streams] in Hp.
    apply in_map_iff in Hp. destruct Hp as (en & <- & Hin). cbn [fst].
    destruct (is_own_key addr om (se_key en)) eqn:Eo; [reflexivity|]. cbn [orb].
    apply obs_has_in. apply F3; assumption.
  - apply forallb_forall. intros q Hq. unfold dobs_of in Hq; cbn [ob_streams] in Hq.
    apply in_map_iff in Hq. destruct Hq as (en & <- & Hin). cbn [fst].
    destruct (F4 en Hin) as [Hk|[(y & Hy & Hk)|Hc]].
    + apply orb_true_iff; left. apply orb_true_iff; left. apply existsb_exists.
      unfold keys in Hk. apply in_map_iff in Hk. destruct Hk as (en0 & Hk0 & Hin0).
      exists (se_key en0, se_alive en0). split; [unfold dobs_of; cbn [ob_streams]; apply in_map_iff; exists en0; auto|].
      cbn [fst]. apply skey_eqb_eq. exact Hk0.
    + apply orb_true_iff; left. apply orb_true_iff; right. apply existsb_exists.
      exists y. split; [exact Hy|]. rewrite hk_syn_key_eq. apply skey_eqb_eq. exact Hk.
    + apply orb_true_iff; right. exact Hc.
  - cbn [dobs_of ob_syns]. destruct F5 as [->|(m & -> & Ht & ->)];
      [apply backlog_ok_suffix; exact Hn|apply backlog_ok_plus; assumption].
  - destruct (is_syn om) eqn:Es.
    + apply Z.leb_le. exact F6.
    + apply Z.eqb_eq. pose proof (count_rst_nonneg e).
      destruct (Z.ltb_spec 0 (count_rst e)) as [Hpos|Hle]; [|lia]. apply F7 in Hpos. congruence.
  - cbn [dobs_of ob_ct]. rewrite F8. apply Z.eqb_refl.
Qed.

Lemma c10_disp_bounds_ok_model s : d_inv s ->
  c10_disp_bounds_ok (d_max_streams s) (dobs_of s) = true.
Proof.
  intros (I1 & I2 & I3 & I4 & _). unfold c10_disp_bounds_ok.
  repeat (apply andb_true_iff; split).
  - rewrite keys_obs. apply nodupb_true. exact I1.
  - unfold dobs_of; cbn [ob_streams]. rewrite map_length. apply Z.leb_le. exact I2.
  - cbn [dobs_of ob_syns]. apply Z.leb_le. exact I3.
  - cbn [dobs_of ob_ch]. apply Z.leb_le. exact I4.
Qed.

(* ================================================================== 3. all raw op lists *)
Lemma rop_dop_total o : exists d, rop_dop o = Some d.
Proof.
  destruct o as [pushes addr bs|d]; cbn [rop_dop]; [|eauto].
  pose proof (parse_raw_no_panic bs) as Hnp. destruct (parse_raw bs); [congruence|eauto|eauto].
Qed.

Lemma rstep_total s o : exists s' e, rstep s o = Some (s', e).
Proof.
  unfold rstep. destruct (rop_dop_total o) as [d ->]. destruct (dstep s d) as [s' e]. eauto.
Qed.

(* every raw op list runs to the end (no panic), and is an ordinary op list of the model *)
Lemma rrun_is_drun : forall ops s, exists dops,
  length dops = length ops /\ rrun s ops = Some (drun s dops).
Proof.
  induction ops as [|o r IH]; intros s; cbn [rrun].
  - exists []. auto.
  - unfold rstep. destruct (rop_dop_total o) as [d Hd]. rewrite Hd.
    destruct (dstep s d) as [s1 e] eqn:Ed. destruct (IH s1) as (dops & Hl & Hr).
    exists (d :: dops). split; [cbn [length]; congruence|]. cbn [drun]. rewrite Ed. exact Hr.
Qed.

Lemma rrun_inv : forall ops s, d_inv s ->
  exists s', rrun s ops = Some s' /\ d_inv s' /\ d_max_streams s' = d_max_streams s.
Proof.
  intros ops s Hinv. destruct (rrun_is_drun ops s) as (dops & _ & Hr).
  destruct (drun_inv dops s Hinv) as [A B]. eauto.
Qed.

Lemma accq_length s : (length (accq s) <= S (length (d_chan s)))%nat.
Proof. unfold accq. rewrite app_length. destruct (d_next_acc s); cbn [length]; lia. Qed.

Lemma dstate_new_max max_streams random : d_max_streams (dstate_new max_streams random) = max_streams.
Proof. unfold dstate_new. destruct random; reflexivity. Qed.

(* the static bounds, from any state satisfying the invariant ... *)
Theorem disp_bounded_from s ops :
  d_inv s ->
  exists s', rrun s ops = Some s' /\ d_inv s' /\ d_max_streams s' = d_max_streams s /\
    NoDup (keys (d_streams s')) /\
    Z.of_nat (length (d_streams s')) <= Z.max 0 (d_max_streams s) /\
    Z.of_nat (length (d_syns s')) <= ACCEPT_QUEUE_MAX_SYNS /\
    Z.of_nat (length (d_chan s')) <= ACCEPT_QUEUE_MAX_ACCEPTORS /\
    Z.of_nat (length (accq s')) <= ACCEPT_QUEUE_MAX_ACCEPTORS + 1 /\
    (forall a, (length (pending s' a) <= MAX_CONNECTING_PER_ADDR)%nat) /\
    Forall (fun p => length (snd p) = MAX_CONNECTING_PER_ADDR) (d_connecting s').
Proof.
  intro Hinv. destruct (rrun_inv ops s Hinv) as (s' & Hr & Hinv' & Hmax).
  exists s'. split; [exact Hr|]. split; [exact Hinv'|]. split; [exact Hmax|].
  pose proof Hinv' as (I1 & I2 & I3 & I4 & I5). rewrite Hmax in I2.
  split; [exact I1|]. split; [exact I2|]. split; [exact I3|]. split; [exact I4|].
  split; [pose proof (accq_length s'); lia|].
  split; [intro a; apply (pending_le_4 s' a Hinv')|exact I5].
Qed.

(* ... and from a fresh dispatcher *)
Theorem disp_bounded max_streams random ops :
  exists s, rrun (dstate_new max_streams random) ops = Some s /\ d_inv s /\
    d_max_streams s = max_streams /\
    NoDup (keys (d_streams s)) /\
    Z.of_nat (length (d_streams s)) <= Z.max 0 max_streams /\
    Z.of_nat (length (d_syns s)) <= 32 /\
    Z.of_nat (length (d_chan s)) <= 32 /\
    Z.of_nat (length (accq s)) <= 33 /\
    (forall a, (length (pending s a) <= 4)%nat) /\
    Forall (fun p => length (snd p) = 4%nat) (d_connecting s).
Proof.
  destruct (disp_bounded_from (dstate_new max_streams random) ops (new_inv max_streams random))
    as (s & A & B & C & D). rewrite dstate_new_max in C, D. exists s. auto.
Qed.

(* a raw datagram never grows what only local calls may grow: the control channel, the pending
   connects, the connection-id counter; and it never makes the dispatcher send a SYN *)
Theorem raw_step_local_state s pushes addr bs s' e :
  d_inv s -> rstep s (RopRaw pushes addr bs) = Some (s', e) ->
  d_control s' = d_control s /\ d_next_conn_id s' = d_next_conn_id s /\
  d_dead_connectors s' = d_dead_connectors s /\
  (forall a, (length (pending s' a) <= length (pending s a))%nat) /\
  (forall a c q, ~ In (EvSentSyn a c q) e) /\ (forall t, ~ In (EvConnectErr t) e).
Proof.
  intros Hinv H.
  assert (Hex : exists om, dstep s (DoRunOnce pushes (ArmRecv addr om)) = (s', e)).
  { unfold rstep in H. cbn [rop_dop] in H. destruct (parse_raw bs) as [| |m]; [discriminate| |];
      injection H as H; [exists None|exists (Some m)]; exact H. }
  destruct Hex as [om Hd].
  destruct (run_once_decomp _ _ _ _ _ Hinv Hd) as (s1 & e1 & e3 & Ec & Ea & -> & Hinv1 & Hacc & Hfr & Hinv2 & Hsame).
  destruct (cleanup_keeps _ _ _ Ec) as (K1 & K2 & _ & _ & K5 & K6 & _).
  destruct Hsame as (_ & P2 & _ & _ & P5 & P6 & _ & _ & _ & _ & _ & P12 & _).
  set (s2 := fold_left push_acceptor pushes s1) in *.
  assert (Harm : d_control s' = d_control s2 /\ d_next_conn_id s' = d_next_conn_id s2 /\
                 d_dead_connectors s' = d_dead_connectors s2 /\
                 (forall a, (length (pending s' a) <= length (pending s2 a))%nat) /\
                 (forall a c q, ~ In (EvSentSyn a c q) e3) /\ (forall t, ~ In (EvConnectErr t) e3)).
  { unfold arm_step in Ea. destruct om as [m|].
    - destruct (disp_isolation _ _ _ _ _ Hinv2 Ea) as (J1 & _ & _ & _ & J5 & J6 & J7 & J8 & J9 & _ & J11 & _).
      split; [exact J8|]. split; [exact J9|]. split; [exact J11|]. split.
      { intro a. destruct (J7 a) as [->|(_ & _ & _ & c & m1 & m2 & -> & _ & ->)]; [lia|].
        rewrite !app_length. cbn [length]. lia. }
      split; [exact J6|].
      intros t Hin. pose proof (on_recv_exact _ _ _ _ _ Hinv2 Ea) as Heff. unfold recv_effect in Heff.
      destruct (find_stream s2 _) as [en|].
      + destruct (se_alive en); destruct Heff as [_ ->]; destruct Hin as [Hx|[]]; discriminate.
      + destruct (dm_type m); try (destruct Heff as [_ ->]; destruct Hin as [Hx|[]]; discriminate).
        * destruct Heff as [[_ ->]|(c & m1 & m2 & _ & _ & _ & _ & _ & _ & _ & _ & _ & _ & _ & _ & _ & [(_ & -> & _)|(_ & -> & _)])];
            destruct Hin as [Hx|[]]; discriminate.
        * destruct Heff as (_ & _ & [(a & -> & _)|[(-> & _)|[(-> & _)|(-> & _)]]]);
            try destruct Hin as [Hx|[]]; try discriminate; destruct Hin.
    - injection Ea as <- <-. repeat split; auto.
      + intros a c q [Hx|[]]; discriminate.
      + intros t [Hx|[]]; discriminate. }
  destruct Harm as (A1 & A2 & A3 & A4 & A5 & A6).
  split; [congruence|]. split; [congruence|]. split; [congruence|].
  split.
  { intro a. rewrite <- (pending_same_connecting s s2 a) by congruence. apply A4. }
  split.
  - intros a c q Hin. apply in_app_or in Hin. destruct Hin as [Hin|Hin]; [|exact (A5 a c q Hin)].
    pose proof (all_accepted_no_syn _ Hacc) as Hn. rewrite Forall_forall in Hn. exact (Hn _ Hin).
  - intros t Hin. apply in_app_or in Hin. destruct Hin as [Hin|Hin]; [|exact (A6 t Hin)].
    exact (all_accepted_no_err _ Hacc _ Hin).
Qed.

(* ------------------------------------------------------------------ the extracted predicate, every raw trace *)
Lemma rtrace_ok max_streams : forall ops s,
  d_inv s -> d_max_streams s = max_streams ->
  c10_disp_trace_ok max_streams (rtrace s ops) = true /\ length (rtrace s ops) = length ops.
Proof.
  induction ops as [|o r IH]; intros s Hinv Hmax; cbn [rtrace]; [split; reflexivity|].
  destruct (rop_dop_total o) as [d Hd]. rewrite Hd.
  destruct (dstep s d) as [s1 e] eqn:Ed.
  destruct (dstep_inv _ _ _ _ Hinv Ed) as [Hinv1 Hmax1].
  destruct (IH s1 Hinv1 ltac:(congruence)) as [IH1 IH2].
  split; [|cbn [length]; congruence].
  unfold c10_disp_trace_ok in *. cbn [forallb fst snd]. rewrite IH1, andb_true_r.
  apply andb_true_iff. split.
  - unfold dstep_obs_of; cbn [so_post]. rewrite <- Hmax, <- Hmax1. apply c10_disp_bounds_ok_model. exact Hinv1.
  - destruct d as [pushes [| |addr om]| | | | | | |]; try reflexivity.
    eapply c10_disp_step_ok_model; eauto.
Qed.

Theorem c10_disp_trace_ok_model max_streams random ops :
  c10_disp_trace_ok max_streams (rtrace (dstate_new max_streams random) ops) = true /\
  length (rtrace (dstate_new max_streams random) ops) = length ops.
Proof. apply rtrace_ok; [apply new_inv|apply dstate_new_max]. Qed.

(* ================================================================== cross-contamination, every step of every op list *)
(* whatever the op: a datagram reaches a connection's inbox only if it came from that
   connection's peer address and carries that connection's id *)
Theorem forward_only_own s o s' e k :
  d_inv s -> dstep s o = (s', e) -> In (EvForward k) e ->
  exists pushes m, o = DoRunOnce pushes (ArmRecv (k_addr k) (Some m)) /\ dm_conn m = k_conn k /\
    exists en, In en (d_streams s') /\ se_key en = k /\ se_alive en = true.
Proof.
  intros Hinv H Hin.
  destruct o as [pushes ar|id|id|id|addr token|addr token|addr token|k1];
    try (quiet H Hs; destruct Hin).
  destruct (run_once_facts _ _ _ _ _ Hinv H) as (Hf & _).
  destruct (run_once_decomp _ _ _ _ _ Hinv H) as (s1 & e1 & e3 & Ec & Ea & -> & Hinv1 & Hacc & Hfr & Hinv2 & Hsame).
  apply in_app_or in Hin. destruct Hin as [Hin1|Hin3].
  { exfalso. unfold all_accepted in Hacc. rewrite Forall_forall in Hacc. exact (Hacc _ Hin1). }
  unfold arm_step in Ea. destruct ar as [|send|addr [m|]].
  - exfalso. destruct (d_next_acc _); [injection Ea as _ <-; destruct Hin3|].
    destruct (d_chan _); injection Ea as _ <-; destruct Hin3.
  - exfalso. destruct (d_control _) as [|c r]; [injection Ea as _ <-; destruct Hin3|].
    exact (on_control_events _ _ _ _ _ Ea _ Hin3).
  - destruct (on_recv_spec _ _ _ _ _ Hinv2 Ea) as (_ & _ & Hfw & _).
    destruct (Hfw _ Hin3) as (-> & _). cbn [k_addr k_conn].
    exists pushes, m. split; [reflexivity|]. split; [reflexivity|].
    apply Hf. apply in_or_app. right. exact Hin3.
  - exfalso. injection Ea as _ <-. destruct Hin3 as [Hx|[]]; discriminate.
Qed.

(* a live connection's table entry (same object, still alive) survives every step except the
   drop of the accept future that still holds it *)
Lemma dstep_keeps_live_entry s o s' e en :
  d_inv s -> dstep s o = (s', e) -> In en (d_streams s) -> se_alive en = true ->
  (forall id, o <> DoDropAcceptor id) -> In en (d_streams s').
Proof.
  intros Hinv H Hin Ha Hne.
  destruct o as [pushes ar|id|id|id|addr token|addr token|addr token|k1].
  - destruct (run_once_decomp _ _ _ _ _ Hinv H) as (s1 & e1 & e3 & Ec & Ea & -> & Hinv1 & Hacc & Hfr & Hinv2 & Hsame).
    destruct Hfr as [_ _ _ B4 _]. destruct Hsame as (P1 & _).
    destruct (arm_step_keeps _ _ _ _ Hinv2 Ea) as (_ & _ & A3).
    apply A3; [rewrite P1; apply B4; exact Hin|exact Ha].
  - cbn [dstep] in H. injection H as <- _. unfold push_acceptor. destruct (_ <? _); exact Hin.
  - exfalso. exact (Hne id eq_refl).
  - cbn [dstep] in H. injection H as <- _. exact Hin.
  - cbn [dstep] in H. injection H as <- _. exact Hin.
  - cbn [dstep] in H. injection H as <- _. exact Hin.
  - cbn [dstep] in H. injection H as <- _. destruct (existsb _ _); exact Hin.
  - cbn [dstep] in H. injection H as <- _. exact Hin.
Qed.

Definition no_accept_drop (o : rop) : bool :=
  match o with RopOp (DoDropAcceptor _) => false | _ => true end.

(* ALL RAW OP LISTS: a second, legitimate connection is unaffected by whatever else arrives *)
Theorem live_connection_unaffected : forall ops s en,
  d_inv s -> In en (d_streams s) -> se_alive en = true -> forallb no_accept_drop ops = true ->
  exists s', rrun s ops = Some s' /\ d_inv s' /\ In en (d_streams s').
Proof.
  induction ops as [|o r IH]; intros s en Hinv Hin Ha Hops; cbn [rrun]; [eauto|].
  cbn [forallb] in Hops. apply andb_true_iff in Hops. destruct Hops as [Ho Hr].
  unfold rstep. destruct (rop_dop_total o) as [d Hd]. rewrite Hd.
  destruct (dstep s d) as [s1 e] eqn:Ed.
  destruct (dstep_inv _ _ _ _ Hinv Ed) as [Hinv1 _].
  apply IH; auto. apply (dstep_keeps_live_entry s d s1 e en Hinv Ed Hin Ha).
  intros id ->. destruct o as [pushes addr bs|d0]; cbn [rop_dop] in Hd.
  - destruct (parse_raw bs); discriminate.
  - injection Hd as ->. discriminate.
Qed.

(* ================================================================== never wedged *)
(* after ANY raw op list the dispatcher still serves: the service theorems of C13 need only the
   invariant.  Two of them, instantiated at every state reached by raw datagrams and other ops. *)
Theorem hostile_then_connect_served max_streams random ops :
  exists s, rrun (dstate_new max_streams random) ops = Some s /\
    forall pushes addr token r s' e,
      d_control s = CtlConnect addr token :: r -> (length (pending s addr) < 4)%nat ->
      dstep s (DoRunOnce pushes (ArmControl SynSent)) = (s', e) ->
      (In (EvConnectErr token) e /\ d_results s' = d_results s ++ [(token, CrTooMany)] /\
       forall a, pending s' a = pending s a) \/
      (no_connect_err e /\ d_results s' = d_results s /\
       exists cid q, In (EvSentSyn addr cid q) e /\
         In {| cn_token := token; cn_seq := q |} (pending s' addr) /\
         length (pending s' addr) = S (length (pending s addr)) /\
         forall a, a <> addr -> pending s' a = pending s a).
Proof.
  destruct (rrun_inv ops _ (new_inv max_streams random)) as (s & Hr & Hinv & _).
  exists s. split; [exact Hr|]. intros. eapply connect_not_starved; eauto.
Qed.

Theorem hostile_then_accept_served max_streams random ops :
  exists s, rrun (dstate_new max_streams random) ops = Some s /\
    forall pushes addr m dead a rest s' e,
      d_syns s = [] -> dm_type m = ST_SYN ->
      find_stream s {| k_addr := addr; k_conn := dm_conn m |} = None ->
      serve_cond s (syn_of addr m) dead a rest ->
      dstep s (DoRunOnce pushes (ArmRecv addr (Some m))) = (s', e) ->
      e = [EvAccepted a (syn_key (syn_of addr m))] /\ d_syns s' = [] /\ exists ext, accq s' = rest ++ ext.
Proof.
  destruct (rrun_inv ops _ (new_inv max_streams random)) as (s & Hr & Hinv & _).
  exists s. split; [exact Hr|]. intros. eapply live_acceptor_served_by_next_syn; eauto.
Qed.

(* ================================================================== witnesses *)
Definition syn_bytes (c q : Z) : list Z :=
  [65; 0; c / 256; c mod 256; 0; 0; 0; 0; 0; 0; 0; 0; 0; 0; 0; 0; q / 256; q mod 256; 0; 0].
Definition data_bytes (c q : Z) : list Z :=
  [1; 0; c / 256; c mod 256; 0; 0; 0; 0; 0; 0; 0; 0; 0; 0; 0; 0; q / 256; q mod 256; 0; 0; 170].

Example parse_examples :
  parse_raw (syn_bytes 50 1000) = RpMsg {| dm_type := ST_SYN; dm_conn := 50; dm_seq := 1000; dm_ack := 0 |} /\
  parse_raw (data_bytes 51 1001) = RpMsg {| dm_type := ST_DATA; dm_conn := 51; dm_seq := 1001; dm_ack := 0 |} /\
  parse_raw [] = RpGarbage /\
  parse_raw (removelast (syn_bytes 50 1000)) = RpGarbage /\                     (* 19 bytes *)
  parse_raw (66 :: tl (syn_bytes 50 1000)) = RpGarbage /\                       (* version 2 *)
  parse_raw (81 :: tl (syn_bytes 50 1000)) = RpGarbage /\                       (* type 5 *)
  parse_raw (removelast (data_bytes 51 1001)) = RpGarbage /\                    (* ST_DATA without payload *)
  parse_raw (syn_bytes 50 1000 ++ [7]) = RpGarbage /\                           (* ST_SYN with payload *)
  parse_raw (65 :: 1 :: skipn 2 (syn_bytes 50 1000) ++ [0; 200; 1]) = RpGarbage. (* extension longer than the datagram *)
Proof. vm_compute. repeat split. Qed.

(* the hypotheses are met by reachable states, and every clause of the predicate is exercised:
   accepted, forwarded, foreign address with the same id (dropped), garbage (dropped) *)
Example hostile_trace_example :
  let ops := [RopOp (DoPushAcceptor 1);
              RopRaw [] 5 (syn_bytes 50 1000);
              RopRaw [] 5 (data_bytes 51 1001);
              RopRaw [] 6 (data_bytes 51 1001);
              RopRaw [] 5 [1; 2; 3]] in
  map (fun x => (so_fwd (snd x), ob_streams (so_post (snd x)))) (rtrace (dstate_new 128 [7; 100]) ops) =
  [([], []);
   ([], [({| k_addr := 5; k_conn := 51 |}, true)]);
   ([{| k_addr := 5; k_conn := 51 |}], [({| k_addr := 5; k_conn := 51 |}, true)]);
   ([], [({| k_addr := 5; k_conn := 51 |}, true)]);
   ([], [({| k_addr := 5; k_conn := 51 |}, true)])].
Proof. vm_compute. reflexivity. Qed.

(* BOUNDARY 1.  Read literally, "a datagram from (addr, id) changes no table entry other than the
   one keyed (addr, id)" is false: a SYN with connection id c creates the entry (addr, c + 1)
   (BEP 29: the acceptor receives on the initiator's id + 1).  The theorem disp_isolation states
   the true form: no EXISTING entry under another key is touched, and the one entry a SYN may
   create is keyed (addr, id + 1) and was free. *)
Theorem isolation_literal_refuted :
  exists s addr m s' e en,
    d_inv s /\ on_recv s addr m = (s', e) /\
    In en (d_streams s') /\ ~ In en (d_streams s) /\
    se_key en <> {| k_addr := addr; k_conn := dm_conn m |}.
Proof.
  exists (drun (dstate_new 128 [7; 100; 200]) [DoPushAcceptor 1]), 5,
         {| dm_type := ST_SYN; dm_conn := 50; dm_seq := 1000; dm_ack := 0 |}.
  eexists _, _, {| se_key := {| k_addr := 5; k_conn := 51 |}; se_alive := true; se_id := 0 |}.
  split; [apply reachable_inv|]. split; [vm_compute; reflexivity|].
  split; [left; reflexivity|]. split; [intros []|discriminate].
Qed.

(* BOUNDARY 2.  The SYN backlog is a shared, bounded resource with no expiry: 32 SYNs from one
   (possibly spoofed) address while no accept() call is waiting fill it, and the next SYN of a
   legitimate peer is refused with a reset (state unchanged).  Bounded as C13 states; not
   isolated per peer.  The 32 requests stay queued until accept() calls consume them. *)
Definition hostile_syns : list rop :=
  map (fun i => RopRaw [] 9 (syn_bytes (2 * Z.of_nat i) 7)) (seq 0 32).

Theorem backlog_exhaustion_boundary :
  exists s, rrun (dstate_new 128 [7]) hostile_syns = Some s /\
    length (d_syns s) = 32%nat /\ d_streams s = [] /\
    Forall (fun y => sy_addr y = 9) (d_syns s) /\
    rstep s (RopRaw [] 5 (syn_bytes 50 1000)) = Some (s, [EvSentRst 5 50 1000]).
Proof.
  eexists. split; [vm_compute; reflexivity|]. split; [reflexivity|]. split; [reflexivity|].
  split; [repeat constructor|vm_compute; reflexivity].
Qed.

(* ------------------------------------------------------------------ the connecting map itself never grows by a datagram *)
Lemma filter_len_le {A} (f : A -> bool) l : (length (filter f l) <= length l)%nat.
Proof. induction l as [|x r IH]; cbn [filter length]; [lia|]. destruct (f x); cbn [length]; lia. Qed.

Lemma filter_len_lt {A} (f : A -> bool) l x : In x l -> f x = false -> (length (filter f l) < length l)%nat.
Proof.
  induction l as [|y r IH]; cbn [filter length In]; [tauto|].
  intros [->|Hin] Hf.
  - rewrite Hf. pose proof (filter_len_le f r). lia.
  - specialize (IH Hin Hf). destruct (f y); cbn [length]; lia.
Qed.

Lemma set_slots_length_le s addr sl x : get_slots s addr = Some sl ->
  (length (set_slots (d_connecting s) addr x) <= length (d_connecting s))%nat.
Proof.
  unfold get_slots, set_slots. destruct (find _ (d_connecting s)) as [p|] eqn:Ef; [|discriminate]. intros _.
  apply find_some in Ef. destruct Ef as [Hin Hp].
  assert (Hlt : (length (filter (fun p0 : Z * list (option connecting) => negb (fst p0 =? addr)%Z) (d_connecting s)) < length (d_connecting s))%nat).
  { apply (filter_len_lt _ _ p Hin). cbv beta. rewrite Hp. reflexivity. }
  destruct x; [rewrite app_length; cbn [length]; lia|lia].
Qed.

Lemma on_recv_connecting_size s addr m s' e :
  on_recv s addr m = (s', e) -> (length (d_connecting s') <= length (d_connecting s))%nat.
Proof.
  unfold on_recv. destruct (find_stream s _) as [en|].
  - destruct (se_alive en); intro H; injection H as <- _; dsimpl; lia.
  - destruct (dm_type m); try (intro H; injection H as <- _; lia).
    + unfold on_maybe_connect_ack. destruct (streams_full s); [intro H; injection H as <- _; lia|].
      destruct (get_slots s addr) as [sl|] eqn:Eg; [|intro H; injection H as <- _; lia].
      destruct (slots_pop _ sl) as [[c sl']|]; [|intro H; injection H as <- _; lia].
      destruct (mem_z _ _); intro H; injection H as <- _; dsimpl; eapply set_slots_length_le; exact Eg.
    + intro H. destruct (on_syn_keeps _ _ _ _ H) as (_ & _ & _ & _ & K5 & _). rewrite K5. lia.
Qed.

Theorem raw_step_connecting_size s pushes addr bs s' e :
  d_inv s -> rstep s (RopRaw pushes addr bs) = Some (s', e) ->
  (length (d_connecting s') <= length (d_connecting s))%nat.
Proof.
  intros Hinv H.
  assert (Hex : exists om, dstep s (DoRunOnce pushes (ArmRecv addr om)) = (s', e)).
  { unfold rstep in H. cbn [rop_dop] in H. destruct (parse_raw bs) as [| |m]; [discriminate| |];
      injection H as H; [exists None|exists (Some m)]; exact H. }
  destruct Hex as [om Hd].
  destruct (run_once_decomp _ _ _ _ _ Hinv Hd) as (s1 & e1 & e3 & Ec & Ea & -> & _ & _ & _ & _ & Hsame).
  destruct (cleanup_keeps _ _ _ Ec) as (_ & _ & _ & _ & K5 & _).
  destruct Hsame as (_ & P2 & _).
  unfold arm_step in Ea. destruct om as [m|].
  - pose proof (on_recv_connecting_size _ _ _ _ _ Ea). rewrite P2, K5 in *. lia.
  - injection Ea as <- _. rewrite P2, K5. lia.
Qed.

(* ------------------------------------------------------------------ the predicate is not vacuous: what it rejects *)
Definition obs0 (streams : list (skey * bool)) (syns : list syn) : dobs :=
  {| ob_streams := streams; ob_syns := syns; ob_na := false; ob_ch := 0; ob_ct := 0 |}.
Definition k551 : skey := {| k_addr := 5; k_conn := 51 |}.
Definition k661 : skey := {| k_addr := 6; k_conn := 61 |}.
Definition m_data51 : dmsg := {| dm_type := ST_DATA; dm_conn := 51; dm_seq := 1; dm_ack := 0 |}.
Definition m_syn50 : dmsg := {| dm_type := ST_SYN; dm_conn := 50; dm_seq := 1000; dm_ack := 0 |}.

Example step_ok_rejects :
  let two := [(k551, true); (k661, true)] in
  let mk pre rsts fwd post := {| so_pre := pre; so_rsts := rsts; so_fwd := fwd; so_post := post |} in
  (* accepted: data for (5,51) forwarded to (5,51) *)
  c10_disp_step_ok 5 (Some m_data51) (mk (obs0 two []) 0 [k551] (obs0 two [])) = true /\
  (* forwarded to another connection *)
  c10_disp_step_ok 5 (Some m_data51) (mk (obs0 two []) 0 [k661] (obs0 two [])) = false /\
  (* garbage forwarded *)
  c10_disp_step_ok 5 None (mk (obs0 two []) 0 [k551] (obs0 two [])) = false /\
  (* another connection's entry evicted *)
  c10_disp_step_ok 5 (Some m_data51) (mk (obs0 two []) 0 [k551] (obs0 [(k551, true)] [])) = false /\
  (* another connection's entry killed *)
  c10_disp_step_ok 5 (Some m_data51) (mk (obs0 two []) 0 [k551] (obs0 [(k551, true); (k661, false)] [])) = false /\
  (* garbage creates an entry *)
  c10_disp_step_ok 5 None (mk (obs0 [] []) 0 [] (obs0 [(k551, true)] [])) = false /\
  (* a SYN creates an entry under a key that is not (addr, id + 1) *)
  c10_disp_step_ok 5 (Some m_syn50) (mk (obs0 [] []) 0 [] (obs0 [(k661, true)] [])) = false /\
  (* ... under (addr, id + 1): accepted *)
  c10_disp_step_ok 5 (Some m_syn50) (mk (obs0 [] []) 0 [] (obs0 [(k551, true)] [])) = true /\
  (* data queued as if it were a SYN *)
  c10_disp_step_ok 5 (Some m_data51) (mk (obs0 [] []) 0 [] (obs0 [] [hk_syn_of 5 m_data51])) = false /\
  (* a SYN queues some other request *)
  c10_disp_step_ok 5 (Some m_syn50) (mk (obs0 [] []) 0 [] (obs0 [] [hk_syn_of 6 m_syn50])) = false /\
  (* a reset for something that is not a SYN *)
  c10_disp_step_ok 5 (Some m_data51) (mk (obs0 [] []) 1 [] (obs0 [] [])) = false /\
  (* two resets for one SYN *)
  c10_disp_step_ok 5 (Some m_syn50) (mk (obs0 [] []) 2 [] (obs0 [] [])) = false.
Proof. vm_compute. repeat split. Qed.

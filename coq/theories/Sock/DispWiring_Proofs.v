(* C13 "the two are wired to each other": what an EvAccepted / EvConnected event of the model
   says about the connection that was created, for every step of every op list.
   The dispatcher model carries the RECEIVE connection id only (as k_conn of the table key); see
   the note at `sargs` below for exactly which StreamArgs fields it does not carry.  Proofs only. *)
From Utp Require Import Base.Prelude Wire.SeqNr Wire.Header Sock.Dispatcher Sock.Dispatcher_Proofs
  Sock.DispObs Sock.DispObs_Proofs Sock.DispFresh_Proofs Sock.DispSlots_Proofs.

(* the key an incoming connection answering SYN y is registered under *)
Definition syn_key (y : syn) : skey := {| k_addr := sy_addr y; k_conn := wadd16 (sy_conn y) 1 |}.

Definition live_entry (k : skey) (sid : Z) : sentry := {| se_key := k; se_alive := true; se_id := sid |}.

(* ------------------------------------------------------------------ one match, exactly *)
Lemma match_syn_exact s y a s' r e :
  match_syn_with_accept s y a = (s', r, e) ->
  d_dead_acceptors s' = d_dead_acceptors s /\
  match r with
  | MrMatched =>
      e = [EvAccepted a (syn_key y)] /\ ~ In (syn_key y) (keys (d_streams s)) /\
      ~ In a (d_dead_acceptors s) /\
      d_streams s' = d_streams s ++ [live_entry (syn_key y) (d_next_sid s)] /\
      d_handed s' = d_handed s ++ [(a, (syn_key y, d_next_sid s))] /\
      d_next_sid s' = d_next_sid s + 1
  | _ => e = [] /\ d_streams s' = d_streams s /\ d_handed s' = d_handed s /\ d_next_sid s' = d_next_sid s
  end.
Proof.
  unfold match_syn_with_accept. fold (syn_key y).
  destruct (streams_full s); [intro H; injection H as <- <- <-; repeat split|].
  destruct (has_stream s (syn_key y)) eqn:Eh; [intro H; injection H as <- <- <-; repeat split|].
  destruct (next_random s) as [s1 x] eqn:Er.
  destruct (next_random_keeps _ _ _ Er) as ((_ & _ & _ & K4 & _) & R1 & R2 & R3).
  destruct (mem_z a (d_dead_acceptors s1)) eqn:Em; intro H; injection H as <- <- <-; dsimpl.
  - repeat split; assumption.
  - split; [exact K4|]. split; [reflexivity|].
    pose proof (has_stream_false_not_in _ _ Eh) as Hnotin.
    split; [exact Hnotin|]. split.
    { intro Hin. unfold mem_z in Em. assert (Hx : existsb (Z.eqb a) (d_dead_acceptors s1) = true); [|congruence].
      apply existsb_exists. exists a. split; [rewrite K4; exact Hin|apply Z.eqb_refl]. }
    rewrite R1, R2, R3. unfold insert_stream. rewrite (remove_absent _ _ Hnotin). repeat split.
Qed.

(* steps that do not touch the table, the hand-over list or the dead acceptors *)
Definition same_tabs (s s' : dstate) : Prop :=
  d_streams s' = d_streams s /\ d_handed s' = d_handed s /\ d_dead_acceptors s' = d_dead_acceptors s /\
  d_next_sid s' = d_next_sid s.

Lemma same_tabs_refl s : same_tabs s s.
Proof. unfold same_tabs. repeat split. Qed.

Lemma same_tabs_trans a b c : same_tabs a b -> same_tabs b c -> same_tabs a c.
Proof. unfold same_tabs. intros H1 H2. repeat split; intuition congruence. Qed.

Lemma same_tabs_upd_syns s x : same_tabs s (upd_syns s x).
Proof. unfold same_tabs; dsimpl. repeat split. Qed.
Lemma same_tabs_upd_acc s na ch : same_tabs s (upd_acc s na ch).
Proof. unfold same_tabs; dsimpl. repeat split. Qed.

Lemma try_next_same_tabs s s' oa : try_next_acceptor s = (s', oa) -> same_tabs s s' /\ d_syns s' = d_syns s.
Proof.
  unfold try_next_acceptor. destruct (d_next_acc s).
  - intro H; injection H as <- _. split; [apply same_tabs_upd_acc|reflexivity].
  - destruct (d_chan s); intro H; injection H as <- _; (split; [|reflexivity]);
      [apply same_tabs_refl|apply same_tabs_upd_acc].
Qed.

(* the table and the hand-over list only grow, the dead acceptors stay *)
Definition grows (s s' : dstate) : Prop :=
  incl (d_streams s) (d_streams s') /\ incl (d_handed s) (d_handed s') /\
  d_dead_acceptors s' = d_dead_acceptors s.

Lemma grows_refl s : grows s s.
Proof. unfold grows. auto using incl_refl. Qed.

Lemma grows_trans a b c : grows a b -> grows b c -> grows a c.
Proof.
  unfold grows. intros (A1 & A2 & A3) (B1 & B2 & B3).
  split; [eapply incl_tran; eauto|]. split; [eapply incl_tran; eauto|congruence].
Qed.

Lemma same_tabs_grows s s' : same_tabs s s' -> grows s s'.
Proof. unfold same_tabs, grows. intros (A & B & C & _). rewrite A, B, C. auto using incl_refl. Qed.

Lemma match_syn_grows s y a s' r e : match_syn_with_accept s y a = (s', r, e) -> grows s s'.
Proof.
  intro H. destruct (match_syn_exact _ _ _ _ _ _ H) as (D & M). unfold grows.
  destruct r.
  - destruct M as (_ & _ & _ & M1 & M2 & _). rewrite M1, M2. auto using incl_appl, incl_refl.
  - destruct M as (_ & M1 & M2 & _). rewrite M1, M2. auto using incl_refl.
  - destruct M as (_ & M1 & M2 & _). rewrite M1, M2. auto using incl_refl.
  - destruct M as (_ & M1 & M2 & _). rewrite M1, M2. auto using incl_refl.
Qed.

(* every EvAccepted of `ev` answers a SYN of `syns`, under a key that was free in s0, and the
   connection is in the table of s' and in the hands of exactly that (live) acceptor *)
Definition acc_ok (s0 s' : dstate) (syns : list syn) (ev : list devent) : Prop :=
  forall acc k, In (EvAccepted acc k) ev ->
    exists y sid, In y syns /\ k = syn_key y /\ ~ In k (keys (d_streams s0)) /\
      In (acc, (k, sid)) (d_handed s') /\ In (live_entry k sid) (d_streams s') /\
      ~ In acc (d_dead_acceptors s0).

Lemma acc_ok_nil s0 s' syns : acc_ok s0 s' syns [].
Proof. intros acc k []. Qed.

(* weaken: an earlier reference state, more SYNs, a later final state *)
Lemma acc_ok_mono s0 s1 s' s'' syns syns' ev :
  acc_ok s1 s' syns ev -> grows s0 s1 -> grows s' s'' -> incl syns syns' -> acc_ok s0 s'' syns' ev.
Proof.
  intros H (G1 & _ & G3) (G1' & G2' & _) Hsy acc k Hin.
  destruct (H acc k Hin) as (y & sid & A & B & C & D & E & F).
  exists y, sid. split; [apply Hsy; exact A|]. split; [exact B|].
  split; [intro Hk; apply C; eapply incl_keys; eauto|].
  split; [apply G2'; exact D|]. split; [apply G1'; exact E|]. rewrite <- G3. exact F.
Qed.

Lemma acc_ok_app s0 s' syns a b : acc_ok s0 s' syns a -> acc_ok s0 s' syns b -> acc_ok s0 s' syns (a ++ b).
Proof. intros Ha Hb acc k Hin. apply in_app_or in Hin. destruct Hin; auto. Qed.

(* the event of one successful match *)
Lemma acc_ok_match s y a s' e :
  match_syn_with_accept s y a = (s', MrMatched, e) -> acc_ok s s' [y] e.
Proof.
  intro H. destruct (match_syn_exact _ _ _ _ _ _ H) as (D & -> & Hfree & Hlive & M1 & M2 & _).
  intros acc k [Hx|[]]. injection Hx as <- <-.
  exists y, (d_next_sid s). split; [left; reflexivity|]. split; [reflexivity|]. split; [exact Hfree|].
  split; [rewrite M2; apply in_or_app; right; left; reflexivity|].
  split; [rewrite M1; apply in_or_app; right; left; reflexivity|exact Hlive].
Qed.

Lemma match_syn_syns s y a s' r e : match_syn_with_accept s y a = (s', r, e) -> d_syns s' = d_syns s.
Proof.
  unfold match_syn_with_accept. destruct (streams_full s); [intro H; injection H as <- _ _; reflexivity|].
  destruct (has_stream s _); [intro H; injection H as <- _ _; reflexivity|].
  destruct (next_random s) as [s1 x] eqn:Er. destruct (next_random_same _ _ _ Er) as (_ & _ & R3 & _).
  destruct (mem_z a _); intro H; injection H as <- _ _; dsimpl; exact R3.
Qed.

(* ------------------------------------------------------------------ cleanup_accept_queue *)
Lemma cleanup_loop_acc : forall fuel s ev s' ev',
  cleanup_loop fuel s ev = (s', ev') ->
  exists evn, ev' = ev ++ evn /\ acc_ok s s' (d_syns s) evn /\ grows s s'.
Proof.
  induction fuel as [|fuel IH]; intros s ev s' ev'; cbn [cleanup_loop].
  { intro H; injection H as <- <-. exists []. rewrite app_nil_r. auto using acc_ok_nil, grows_refl. }
  destruct (d_syns s) as [|y rest] eqn:Es.
  { intro H; injection H as <- <-. exists []. rewrite app_nil_r. auto using acc_ok_nil, grows_refl. }
  destruct (try_next_acceptor (upd_syns s rest)) as [s1 oa] eqn:Et.
  destruct (try_next_same_tabs _ _ _ Et) as [T1 T2]. dsimpl.
  assert (G1 : grows s s1).
  { apply same_tabs_grows. eapply same_tabs_trans; [apply same_tabs_upd_syns|exact T1]. }
  destruct oa as [a|].
  - destruct (match_syn_with_accept s1 y a) as [[s2 r] e] eqn:Em.
    pose proof (match_syn_grows _ _ _ _ _ _ Em) as G2.
    assert (Hs2 : d_syns s2 = rest).
    { rewrite (match_syn_syns _ _ _ _ _ _ Em). exact T2. }
    destruct r; intro H.
    + (* matched *)
      destruct (IH _ _ _ _ H) as (evn & -> & Hok & G3). rewrite Hs2 in Hok.
      exists (e ++ evn). split; [rewrite app_assoc; reflexivity|]. split.
      * apply acc_ok_app.
        -- eapply acc_ok_mono; [apply (acc_ok_match _ _ _ _ _ Em)|exact G1|exact G3|].
           intros z [<-|[]]. left; reflexivity.
        -- eapply acc_ok_mono; [exact Hok|eapply grows_trans; eauto|apply grows_refl|].
           intros z Hz. right; exact Hz.
      * eapply grows_trans; [exact G1|]. eapply grows_trans; eauto.
    + injection H as <- <-. exists []. rewrite app_nil_r. split; [reflexivity|]. split; [apply acc_ok_nil|].
      eapply grows_trans; [exact G1|]. eapply grows_trans; [exact G2|].
      apply same_tabs_grows. eapply same_tabs_trans; [apply same_tabs_upd_syns|apply same_tabs_upd_acc].
    + destruct (IH _ _ _ _ H) as (evn & -> & Hok & G3). dsimpl. rewrite Hs2 in Hok.
      assert (G4 : grows s (upd_acc s2 (Some a) (d_chan s2))).
      { eapply grows_trans; [exact G1|]. eapply grows_trans; [exact G2|].
        apply same_tabs_grows. apply same_tabs_upd_acc. }
      exists evn. split; [reflexivity|]. split.
      * eapply acc_ok_mono; [exact Hok|exact G4|apply grows_refl|]. intros z Hz. right; exact Hz.
      * eapply grows_trans; eauto.
    + destruct (IH _ _ _ _ H) as (evn & -> & Hok & G3). dsimpl. rewrite Hs2 in Hok.
      assert (G4 : grows s (upd_syns s2 (y :: rest))).
      { eapply grows_trans; [exact G1|]. eapply grows_trans; [exact G2|].
        apply same_tabs_grows. apply same_tabs_upd_syns. }
      exists evn. split; [reflexivity|]. split.
      * eapply acc_ok_mono; [exact Hok|exact G4|apply grows_refl|apply incl_refl].
      * eapply grows_trans; eauto.
  - intro H; injection H as <- <-. exists []. rewrite app_nil_r. split; [reflexivity|]. split; [apply acc_ok_nil|].
    eapply grows_trans; [exact G1|]. apply same_tabs_grows. apply same_tabs_upd_syns.
Qed.

Lemma cleanup_acc s s' e :
  cleanup_accept_queue s = (s', e) -> acc_ok s s' (d_syns s) e /\ grows s s'.
Proof.
  unfold cleanup_accept_queue. destruct (streams_full s).
  - intro H; injection H as <- <-. auto using acc_ok_nil, grows_refl.
  - intro H. destruct (cleanup_loop_acc _ _ _ _ _ H) as (evn & -> & Hok & G). auto.
Qed.

(* ------------------------------------------------------------------ on_syn *)
Lemma on_syn_loop_acc : forall fuel s y s' done e,
  on_syn_loop fuel s y = (s', done, e) -> acc_ok s s' [y] e /\ grows s s'.
Proof.
  induction fuel as [|fuel IH]; intros s y s' done e; cbn [on_syn_loop].
  { intro H; injection H as <- _ <-. auto using acc_ok_nil, grows_refl. }
  destruct (try_next_acceptor s) as [s1 oa] eqn:Et.
  destruct (try_next_same_tabs _ _ _ Et) as [T1 T2].
  pose proof (same_tabs_grows _ _ T1) as G1.
  destruct oa as [a|]; [|intro H; injection H as <- _ <-; auto using acc_ok_nil].
  destruct (match_syn_with_accept s1 y a) as [[s2 r] e2] eqn:Em.
  pose proof (match_syn_grows _ _ _ _ _ _ Em) as G2.
  destruct r; intro H.
  - injection H as <- _ <-. split; [|eapply grows_trans; eauto].
    eapply acc_ok_mono; [apply (acc_ok_match _ _ _ _ _ Em)|exact G1|apply grows_refl|apply incl_refl].
  - injection H as <- _ <-. split; [apply acc_ok_nil|].
    eapply grows_trans; [exact G1|]. eapply grows_trans; [exact G2|]. apply same_tabs_grows, same_tabs_upd_acc.
  - injection H as <- _ <-. split; [apply acc_ok_nil|].
    eapply grows_trans; [exact G1|]. eapply grows_trans; [exact G2|]. apply same_tabs_grows, same_tabs_upd_acc.
  - destruct (IH _ _ _ _ _ H) as [Hok G3].
    assert (G4 : grows s s2) by (eapply grows_trans; eauto).
    split; [|eapply grows_trans; eauto].
    eapply acc_ok_mono; [exact Hok|exact G4|apply grows_refl|apply incl_refl].
Qed.

Lemma on_syn_acc s y s' e : on_syn s y = (s', e) -> acc_ok s s' [y] e /\ grows s s'.
Proof.
  unfold on_syn.
  assert (Hl : forall s1 done e1,
    match d_syns s with [] => on_syn_loop (length (d_chan s) + 2) s y | _ :: _ => (s, false, []) end
      = (s1, done, e1) -> acc_ok s s1 [y] e1 /\ grows s s1).
  { intros s1 done e1. destruct (d_syns s); [apply on_syn_loop_acc|].
    intro H; injection H as <- _ <-. auto using acc_ok_nil, grows_refl. }
  destruct (match d_syns s with [] => _ | _ :: _ => _ end) as [[s1 done] e1].
  destruct (Hl _ _ _ eq_refl) as [Hok G]. destruct done; [intro H; injection H as <- <-; auto|].
  destruct (_ <? _); intro H; injection H as <- <-.
  - assert (G' : grows s1 (upd_syns s1 (d_syns s1 ++ [y]))) by apply same_tabs_grows, same_tabs_upd_syns.
    split; [|eapply grows_trans; eauto].
    eapply acc_ok_mono; [exact Hok|apply grows_refl|exact G'|apply incl_refl].
  - split; [|exact G]. intros acc k Hin. apply in_app_or in Hin. destruct Hin as [Hin|[Hx|[]]]; [|discriminate].
    exact (Hok acc k Hin).
Qed.

(* ------------------------------------------------------------------ what the arm keeps *)
Lemma nodup_keys_same_entry l a b :
  NoDup (keys l) -> In a l -> In b l -> se_key a = se_key b -> a = b.
Proof.
  unfold keys. induction l as [|x r IH]; cbn [map In]; [tauto|].
  intros Hnd [->|Ha] [->|Hb] Hk; auto.
  - inversion Hnd as [|? ? Hnotin _]; subst. exfalso. apply Hnotin. rewrite Hk. apply in_map. exact Hb.
  - inversion Hnd as [|? ? Hnotin _]; subst. exfalso. apply Hnotin. rewrite <- Hk. apply in_map. exact Ha.
  - inversion Hnd; subst. apply IH; assumption.
Qed.

Lemma on_maybe_connect_ack_handed s addr m s' e :
  on_maybe_connect_ack s addr m = (s', e) ->
  d_handed s' = d_handed s /\ d_dead_acceptors s' = d_dead_acceptors s.
Proof.
  unfold on_maybe_connect_ack. destruct (streams_full s); [intro H; injection H as <- _; auto|].
  destruct (get_slots s addr); [|intro H; injection H as <- _; auto].
  destruct (slots_pop _ _) as [[c sl']|]; [|intro H; injection H as <- _; auto].
  destruct (mem_z _ _); intro H; injection H as <- _; auto.
Qed.

Lemma on_recv_handed s addr m s' e :
  on_recv s addr m = (s', e) ->
  incl (d_handed s) (d_handed s') /\ d_dead_acceptors s' = d_dead_acceptors s.
Proof.
  unfold on_recv. destruct (find_stream s _) as [en|].
  - destruct (se_alive en); intro H; injection H as <- _; auto using incl_refl.
  - destruct (dm_type m); try (intro H; injection H as <- _; auto using incl_refl; fail).
    + intro H. destruct (on_maybe_connect_ack_handed _ _ _ _ _ H) as [-> ->]. auto using incl_refl.
    + intro H. destruct (on_syn_acc _ _ _ _ H) as [_ (_ & G2 & G3)]. auto.
Qed.

Lemma arm_step_keeps s2 a s' e3 :
  d_inv s2 -> arm_step s2 a = (s', e3) ->
  incl (d_handed s2) (d_handed s') /\ d_dead_acceptors s' = d_dead_acceptors s2 /\
  forall en, In en (d_streams s2) -> se_alive en = true -> In en (d_streams s').
Proof.
  intros Hinv H. unfold arm_step in H. destruct a as [|send|addr [m|]].
  - destruct (d_next_acc s2); [injection H as <- _; auto using incl_refl|].
    destruct (d_chan s2); injection H as <- _; auto using incl_refl.
  - destruct (d_control s2) as [|c r] eqn:Ectl; [injection H as <- _; auto using incl_refl|].
    assert (Hinv' : d_inv (upd_control s2 r)) by (apply (d_inv_same_tables s2); dsimpl; auto; apply Hinv).
    destruct c as [a0 t0|a0 t0|k0].
    + destruct (on_control_connect_spec _ _ _ _ _ _ Hinv' H) as ((F1 & _ & _ & _ & _ & _ & F7 & F8 & _) & _).
      dsimpl. rewrite F1, F7, F8. auto using incl_refl.
    + destruct (on_control_dropped_spec _ _ _ _ _ _ Hinv' H) as (_ & (F1 & _ & _ & _ & _ & _ & F7 & F8 & _) & _).
      dsimpl. rewrite F1, F7, F8. auto using incl_refl.
    + cbn [on_control] in H. unfold find_stream in H. dsimpl.
      destruct (find _ (d_streams s2)) as [en0|] eqn:Ef; [|injection H as <- _; dsimpl; auto using incl_refl].
      destruct (se_alive en0) eqn:Ea0; injection H as <- _; dsimpl; [auto using incl_refl|].
      split; [apply incl_refl|]. split; [reflexivity|]. intros en Hin Ha.
      unfold remove_stream. apply filter_In. split; [exact Hin|].
      destruct (skey_eqb (se_key en) k0) eqn:E; [|reflexivity]. exfalso.
      apply skey_eqb_eq in E. apply find_some in Ef. destruct Ef as [Hin0 Hk0]. apply skey_eqb_eq in Hk0.
      destruct Hinv as (J1 & _).
      assert (en = en0) by (apply (nodup_keys_same_entry _ _ _ J1 Hin Hin0); congruence). congruence.
  - destruct (on_recv_handed _ _ _ _ _ H) as [A B]. split; [exact A|]. split; [exact B|].
    intros en Hin Ha. eapply on_recv_keeps_live; eauto.
  - injection H as <- _. auto using incl_refl.
Qed.

(* ------------------------------------------------------------------ EvAccepted, every step *)
Definition syn_of (addr : Z) (m : dmsg) : syn := {| sy_addr := addr; sy_conn := dm_conn m; sy_seq := dm_seq m |}.

Theorem accepted_event_facts s o s' e acc k :
  d_inv s -> dstep s o = (s', e) -> In (EvAccepted acc k) e ->
  exists y sid,
    (* the SYN it answers: one that was waiting in the backlog, or the datagram being handled *)
    (In y (d_syns s) \/
     exists pushes addr m, o = DoRunOnce pushes (ArmRecv addr (Some m)) /\ dm_type m = ST_SYN /\ y = syn_of addr m) /\
    (* the acceptor side receives on the SYN's connection id + 1, from the SYN's address *)
    k = syn_key y /\
    (* under a key that was not in use, without replacing anything *)
    ~ In k (keys (d_streams s)) /\
    (* the connection object registered under k is the one handed to this acceptor, which is alive *)
    In (acc, (k, sid)) (d_handed s') /\ In (live_entry k sid) (d_streams s') /\
    ~ In acc (d_dead_acceptors s).
Proof.
  intros Hinv H Hin.
  destruct o as [pushes ar|id|id|id|addr token|addr token|addr token|k1];
    try (quiet H Hs; destruct Hin).
  destruct (run_once_decomp _ _ _ _ _ Hinv H) as (s1 & e1 & e3 & Ec & Ea & -> & Hinv1 & Hacc & Hfr & Hinv2 & Hsame).
  destruct (cleanup_acc _ _ _ Ec) as [Hok1 G1].
  destruct Hsame as (P1 & P2 & P3 & P4 & P5 & P6 & P7 & P8 & P9 & P10 & P11 & P12 & P13).
  set (s2 := fold_left push_acceptor pushes s1) in *.
  destruct (arm_step_keeps _ _ _ _ Hinv2 Ea) as (A1 & A2 & A3).
  assert (G12 : grows s1 s2) by (unfold grows; rewrite P1, P9, P10; auto using incl_refl).
  apply in_app_or in Hin. destruct Hin as [Hin|Hin].
  - destruct (Hok1 acc k Hin) as (y & sid & B1 & B2 & B3 & B4 & B5 & B6).
    exists y, sid. split; [left; exact B1|]. split; [exact B2|]. split; [exact B3|].
    split; [apply A1; rewrite P10; exact B4|]. split; [|exact B6].
    apply A3; [rewrite P1; exact B5|reflexivity].
  - unfold arm_step in Ea. destruct ar as [|send|addr [m|]].
    + exfalso. destruct (d_next_acc s2); [injection Ea as _ <-; destruct Hin|].
      destruct (d_chan s2); injection Ea as _ <-; destruct Hin.
    + exfalso. destruct (d_control s2) as [|c r]; [injection Ea as _ <-; destruct Hin|].
      exact (on_control_events _ _ _ _ _ Ea _ Hin).
    + unfold on_recv in Ea. destruct (find_stream s2 _) as [en|] eqn:Ef.
      { exfalso. destruct (se_alive en); injection Ea as _ <-; destruct Hin as [Hx|[]]; discriminate. }
      destruct (dm_type m) eqn:Et; try (exfalso; injection Ea as _ <-; destruct Hin as [Hx|[]]; discriminate).
      * exfalso. destruct (on_maybe_connect_ack_spec _ _ _ _ _ Hinv2 Ef Ea) as (_ & _ & _ & _ & Hev).
        rewrite Forall_forall in Hev. exact (Hev _ Hin).
      * destruct (on_syn_acc _ _ _ _ Ea) as [Hok3 G3].
        destruct (Hok3 acc k Hin) as (y & sid & B1 & B2 & B3 & B4 & B5 & B6).
        destruct B1 as [<-|[]].
        exists (syn_of addr m), sid. split; [right; exists pushes, addr, m; auto|]. split; [exact B2|].
        destruct G1 as (G1a & _ & G1c). destruct G12 as (G2a & _ & G2c).
        split; [intro Hk; apply B3; eapply incl_keys; [|exact Hk]; eapply incl_tran; eauto|].
        split; [exact B4|]. split; [exact B5|]. rewrite <- G1c, <- G2c. exact B6.
    + exfalso. injection Ea as _ <-. destruct Hin as [Hx|[]]; discriminate.
Qed.

(* ------------------------------------------------------------------ EvConnected, every step *)
Lemma mem_z_false x l : mem_z x l = false -> ~ In x l.
Proof.
  unfold mem_z. intros H Hin. assert (Ht : existsb (Z.eqb x) l = true); [|congruence].
  apply existsb_exists. exists x. split; [exact Hin|apply Z.eqb_refl].
Qed.

Theorem connected_event_facts s o s' e t k :
  d_inv s -> dstep s o = (s', e) -> In (EvConnected t k) e ->
  exists pushes addr m c m1 m2 sid,
    (* it is a ST_STATE datagram that no existing connection claimed *)
    o = DoRunOnce pushes (ArmRecv addr (Some m)) /\ dm_type m = ST_STATE /\
    (* the connector side receives on the connection id of that datagram, from its address *)
    k = {| k_addr := addr; k_conn := dm_conn m |} /\
    (* it is paired with the FIRST pending connect to that address whose SYN carried the
       sequence number the datagram acknowledges; that connect's slot is released *)
    pending s addr = m1 ++ c :: m2 /\ cn_token c = t /\ cn_seq c = dm_ack m /\
    (forall x, In x m1 -> cn_seq x <> dm_ack m) /\ pending s' addr = m1 ++ m2 /\
    (* under a key that was not in use; the connection object goes to that connector, which is alive *)
    ~ In k (keys (d_streams s)) /\ In (live_entry k sid) (d_streams s') /\
    In (t, CrOk k) (d_results s') /\ ~ In t (d_dead_connectors s).
Proof.
  intros Hinv H Hin.
  destruct o as [pushes ar|id|id|id|addr token|addr token|addr token|k1];
    try (quiet H Hs; destruct Hin).
  destruct (run_once_decomp _ _ _ _ _ Hinv H) as (s1 & e1 & e3 & Ec & Ea & -> & Hinv1 & Hacc & Hfr & Hinv2 & Hsame).
  destruct (cleanup_keeps _ _ _ Ec) as (_ & K2 & _).
  destruct Hfr as [B1 B2 B3 B4 B5].
  destruct Hsame as (P1 & P2 & P3 & P4 & P5 & P6 & P7 & P8 & P9 & P10 & P11 & P12 & P13).
  set (s2 := fold_left push_acceptor pushes s1) in *.
  apply in_app_or in Hin. destruct Hin as [Hin|Hin].
  { exfalso. unfold all_accepted in Hacc. rewrite Forall_forall in Hacc. exact (Hacc _ Hin). }
  unfold arm_step in Ea. destruct ar as [|send|addr [m|]].
  - exfalso. destruct (d_next_acc s2); [injection Ea as _ <-; destruct Hin|].
    destruct (d_chan s2); injection Ea as _ <-; destruct Hin.
  - exfalso. destruct (d_control s2) as [|c r]; [injection Ea as _ <-; destruct Hin|].
    exact (on_control_events _ _ _ _ _ Ea _ Hin).
  - unfold on_recv in Ea. destruct (find_stream s2 _) as [en|] eqn:Ef.
    { exfalso. destruct (se_alive en); injection Ea as _ <-; destruct Hin as [Hx|[]]; discriminate. }
    destruct (dm_type m) eqn:Et; try (exfalso; injection Ea as _ <-; destruct Hin as [Hx|[]]; discriminate).
    + pose proof (on_maybe_connect_ack_slots _ _ _ _ _ Hinv2 Ef Ea) as Hsl. cbv zeta in Hsl.
      destruct (streams_full s2); [exfalso; destruct Hsl as [_ ->]; destruct Hin as [Hx|[]]; discriminate|].
      assert (Hpend : slots_of s2 addr = slots_of s addr)
        by (apply slots_of_same_connecting; congruence).
      rewrite Hpend in Hsl.
      destruct (slots_pop _ (slots_of s addr)) as [[c sl']|] eqn:Ep;
        [|exfalso; destruct Hsl as [_ ->]; destruct Hin as [Hx|[]]; discriminate].
      destruct Hsl as (S1 & _ & _ & _ & _ & _ & _ & _ & _ & Hsl).
      destruct (mem_z (cn_token c) (d_dead_connectors s2)) eqn:Em;
        [exfalso; destruct Hsl as [-> _]; destruct Hin as [Hx|[]]; discriminate|].
      destruct Hsl as (-> & S2 & S3). destruct Hin as [Hx|[]]. injection Hx as <- <-.
      destruct (slots_pop_somes _ _ _ _ Ep) as (m1 & m2 & Q1 & Q2 & Q3 & Q4 & _).
      exists pushes, addr, m, c, m1, m2, (d_next_sid s2).
      split; [reflexivity|]. split; [exact Et|]. split; [reflexivity|].
      split; [exact Q1|]. split; [reflexivity|]. split; [apply Z.eqb_eq; exact Q3|].
      split; [intros x Hx; apply Z.eqb_neq; apply Q4; exact Hx|].
      split; [unfold pending; rewrite S1; exact Q2|].
      split.
      { intro Hk. apply (find_none_not_in _ _ Ef). eapply incl_keys; [|exact Hk]. rewrite P1. exact B4. }
      split; [rewrite S2; apply in_or_app; right; left; reflexivity|].
      split; [rewrite S3; apply in_or_app; right; left; reflexivity|].
      apply mem_z_false in Em. rewrite P12, K2 in Em. exact Em.
    + exfalso. assert (Hst2 : st_inv s2) by (destruct Hinv2 as (J1 & J2 & _); split; assumption).
      assert (Hlen2 : Z.of_nat (length (d_syns s2)) <= ACCEPT_QUEUE_MAX_SYNS) by (destruct Hinv2 as (_ & _ & J3 & _); exact J3).
      destruct (on_syn_spec _ _ _ _ Hst2 Hlen2 Ea) as (_ & _ & _ & D & _).
      destruct D as [[Hacc3 _]|(e0 & Hacc0 & -> & _)].
      * unfold all_accepted in Hacc3. rewrite Forall_forall in Hacc3. exact (Hacc3 _ Hin).
      * apply in_app_or in Hin. destruct Hin as [Hin|[Hx|[]]]; [|discriminate].
        unfold all_accepted in Hacc0. rewrite Forall_forall in Hacc0. exact (Hacc0 _ Hin).
  - exfalso. injection Ea as _ <-. destruct Hin as [Hx|[]]; discriminate.
Qed.

(* ------------------------------------------------------------------ the two ends *)
(* Dispatcher A (seen by B as address pa) connects to dispatcher B (seen by A as address pb).
   The SYN on the wire carries the id c A announced; B's acceptor side is registered under
   (pa, c + 1).  B's connection sends with connection id c (StreamArgs::new_incoming:
   conn_id_send = remote_syn.connection_id, a field the dispatcher model does not carry, hence
   the hypothesis dm_conn mA = c); A's connector side is then registered under (pb, c).
   So: A receives on c, B receives on c + 1. *)
Theorem wiring_cross_keys c :
  forall sB pushesB pa mB sB' eB acc kB,
    d_inv sB -> d_syns sB = [] -> dm_type mB = ST_SYN -> dm_conn mB = c ->
    dstep sB (DoRunOnce pushesB (ArmRecv pa (Some mB))) = (sB', eB) -> In (EvAccepted acc kB) eB ->
  forall sA pushesA pb mA sA' eA t kA,
    d_inv sA -> dm_conn mA = c ->
    dstep sA (DoRunOnce pushesA (ArmRecv pb (Some mA))) = (sA', eA) -> In (EvConnected t kA) eA ->
  kB = {| k_addr := pa; k_conn := wadd16 c 1 |} /\ kA = {| k_addr := pb; k_conn := c |} /\
  k_conn kB = wadd16 (k_conn kA) 1.
Proof.
  intros sB pushesB pa mB sB' eB acc kB HinvB HsynB HtB HcB EB HinB
         sA pushesA pb mA sA' eA t kA HinvA HcA EA HinA.
  destruct (accepted_event_facts _ _ _ _ _ _ HinvB EB HinB) as (y & sid & Hy & -> & _).
  destruct Hy as [Hy|(p & a0 & m0 & Ho & _ & ->)]; [rewrite HsynB in Hy; destruct Hy|].
  injection Ho as _ <- <-.
  destruct (connected_event_facts _ _ _ _ _ _ HinvA EA HinA)
    as (p' & a1 & m1 & c1 & l1 & l2 & sid' & Ho' & _ & -> & _).
  injection Ho' as _ <- <-.
  unfold syn_key, syn_of; cbn [sy_addr sy_conn k_conn]. rewrite HcB, HcA. auto.
Qed.

(* ------------------------------------------------------------------ StreamArgs *)
(* NOT part of the frozen dispatcher model.  The model records of Sock/Dispatcher.v carry, of
   the StreamArgs the Rust code builds in match_syn_with_accept / on_maybe_connect_ack, only
   conn_id_recv (as k_conn of the key in EvAccepted / EvConnected, `sentry`, d_handed, CrOk):
     - `devent.EvAccepted (acceptor, k)`, `devent.EvConnected (token, k)`, `sentry`, the
       payload (skey * Z) of `d_handed` and `cresult.CrOk k` have no field for conn_id_send,
       seq_nr, last_sent_seq_nr, last_consumed_remote_seq_nr, last_sent_ack_nr, rtt,
       remote_window, last_remote_timestamp;
     - match_syn_with_accept draws the acceptor's initial sequence number and discards it
       (`let '(s1, _) := next_random s`);
     - `dmsg` has no timestamp / wnd_size, `connecting` has no `start`.
   The record below is a transcription (by inspection, not differentially checked at this tier)
   of the id / sequence-number fields of StreamArgs::new_incoming / new_outgoing
   (src/stream_dispatch.rs); Conn/VSockRun.v `vsock_new` has the same formulas at the
   connection tier (v_conn_id_send, v_seq_nr, v_last_sent_seq_nr, v_last_consumed) where they
   ARE differentially checked.  The lemma only records that the two transcriptions fit together
   when the SYN-ACK echoes what new_incoming prescribes. *)
Record sargs := {
  sa_conn_id_recv : Z; sa_conn_id_send : Z; sa_seq_nr : Z; sa_last_sent_seq_nr : Z;
  sa_last_consumed_remote_seq_nr : Z; sa_last_sent_ack_nr : Z }.

Definition sargs_incoming (next_seq_nr : Z) (y : syn) : sargs :=
  {| sa_conn_id_recv := wadd16 (sy_conn y) 1; sa_conn_id_send := sy_conn y;
     sa_seq_nr := next_seq_nr; sa_last_sent_seq_nr := wsub16 next_seq_nr 1;
     sa_last_consumed_remote_seq_nr := sy_seq y; sa_last_sent_ack_nr := sy_seq y |}.

Definition sargs_outgoing (m : dmsg) : sargs :=
  {| sa_conn_id_recv := dm_conn m; sa_conn_id_send := wadd16 (dm_conn m) 1;
     sa_seq_nr := wadd16 (dm_ack m) 1; sa_last_sent_seq_nr := dm_ack m;
     sa_last_consumed_remote_seq_nr := wsub16 (dm_seq m) 1; sa_last_sent_ack_nr := wsub16 (dm_seq m) 1 |}.

Lemma sargs_cross (isn : Z) (y : syn) (m : dmsg) :
  let b := sargs_incoming isn y in
  (* the SYN-ACK B's connection sends: its conn_id_send, its seq_nr, acking the SYN *)
  dm_conn m = sa_conn_id_send b -> dm_seq m = sa_seq_nr b -> dm_ack m = sa_last_sent_ack_nr b ->
  let a := sargs_outgoing m in
  sa_conn_id_recv a = sa_conn_id_send b /\ sa_conn_id_send a = sa_conn_id_recv b /\
  (* the keys the model registers are the receive ids *)
  k_conn (syn_key y) = sa_conn_id_recv b /\
  (* A's SYN carried seq_nr = sy_seq y: A continues after it, B has consumed exactly it *)
  sa_last_sent_seq_nr a = sy_seq y /\ sa_last_consumed_remote_seq_nr b = sa_last_sent_seq_nr a /\
  (* B's next packet has seq_nr isn: A pretends to have consumed isn - 1 *)
  sa_last_consumed_remote_seq_nr a = sa_last_sent_seq_nr b.
Proof.
  cbv zeta. unfold sargs_incoming, sargs_outgoing, syn_key;
    cbn [sa_conn_id_recv sa_conn_id_send sa_seq_nr sa_last_sent_seq_nr sa_last_consumed_remote_seq_nr
         sa_last_sent_ack_nr k_conn].
  intros -> -> ->. repeat split.
Qed.

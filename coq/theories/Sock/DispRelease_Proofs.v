(* C13 "abandoned connect or accept calls release whatever they reserved, so later calls are
   not starved".  Connect side: the four per-address slots.  Accept side: dead acceptors in the
   queue.  Step-level statements for every state satisfying d_inv (hence every reachable one)
   and statements over all op lists.  Proofs only. *)
From Utp Require Import Base.Prelude Wire.SeqNr Wire.Header Sock.Dispatcher Sock.Dispatcher_Proofs
  Sock.DispObs Sock.DispObs_Proofs Sock.DispFresh_Proofs Sock.DispSlots_Proofs Sock.DispPending_Proofs
  Sock.DispWiring_Proofs.

(* ------------------------------------------------------------------ the control arm of run_once *)
(* the state the control message is handled in *)
Lemma run_ctl_decomp s pushes send c r s' e :
  d_inv s -> d_control s = c :: r -> dstep s (DoRunOnce pushes (ArmControl send)) = (s', e) ->
  exists s2 e1 e3,
    d_inv s2 /\ keeps_nc s s2 /\ d_control s2 = r /\ incl (d_streams s) (d_streams s2) /\
    all_accepted e1 /\ e = e1 ++ e3 /\ on_control s2 c send = (s', e3).
Proof.
  intros Hinv Hctl H.
  destruct (run_once_decomp _ _ _ _ _ Hinv H) as (s1 & e1 & e3 & Ec & Ea & -> & Hinv1 & Hacc & Hfr & Hinv2 & Hsame).
  pose proof (cleanup_keeps _ _ _ Ec) as K.
  destruct Hfr as [B1 B2 B3 B4 B5].
  destruct Hsame as (P1 & P2 & P3 & P4 & P5 & P6 & P7 & P8 & P9 & P10 & P11 & P12 & P13).
  set (s2 := fold_left push_acceptor pushes s1) in *.
  unfold arm_step in Ea. assert (Hc2 : d_control s2 = c :: r) by congruence. rewrite Hc2 in Ea.
  exists (upd_control s2 r), e1, e3.
  split; [apply (d_inv_same_tables s2); dsimpl; auto; apply Hinv2|].
  split; [unfold keeps, keeps_nc in *; dsimpl; intuition congruence|].
  dsimpl. split; [reflexivity|]. split; [rewrite P1; exact B4|]. auto.
Qed.

Lemma pending_same_connecting s s' a : d_connecting s' = d_connecting s -> pending s' a = pending s a.
Proof. intro H. unfold pending. rewrite (slots_of_same_connecting _ _ _ H). reflexivity. Qed.

Lemma all_accepted_no_err e : all_accepted e -> forall t, ~ In (EvConnectErr t) e.
Proof. unfold all_accepted. rewrite Forall_forall. intros H t Hin. exact (H _ Hin). Qed.

(* ------------------------------------------------------------------ connect: not starved *)
(* A connect request to an address with fewer than four pending connects is never refused for
   lack of a slot: either the table limit refuses it (TooManyActiveConnections), or the SYN goes
   out and the request holds a slot afterwards. *)
Theorem connect_not_starved s pushes addr token r s' e :
  d_inv s -> d_control s = CtlConnect addr token :: r ->
  (length (pending s addr) < 4)%nat ->
  dstep s (DoRunOnce pushes (ArmControl SynSent)) = (s', e) ->
  (In (EvConnectErr token) e /\ d_results s' = d_results s ++ [(token, CrTooMany)] /\
   forall a, pending s' a = pending s a) \/
  (no_connect_err e /\ d_results s' = d_results s /\
   exists cid q, In (EvSentSyn addr cid q) e /\
     In {| cn_token := token; cn_seq := q |} (pending s' addr) /\
     length (pending s' addr) = S (length (pending s addr)) /\
     forall a, a <> addr -> pending s' a = pending s a).
Proof.
  intros Hinv Hctl Hlt H.
  destruct (run_ctl_decomp _ _ _ _ _ _ _ Hinv Hctl H) as (s2 & e1 & e3 & Hinv2 & K & _ & _ & Hacc & -> & Hoc).
  destruct K as (_ & _ & K3 & K4 & _).
  pose proof (on_control_connect_spec _ _ _ _ _ _ Hinv2 Hoc) as Hspec. cbv zeta in Hspec.
  destruct Hspec as (_ & Hspec).
  destruct (streams_full s2).
  - left. destruct Hspec as (-> & R & C & _). split; [apply in_or_app; right; left; reflexivity|].
    split; [rewrite R, K4; reflexivity|]. intro a. rewrite <- (pending_same_connecting s s2 a K3).
    apply pending_same_connecting. exact C.
  - right. destruct Hspec as (Hoth & Hspec).
    rewrite (pending_same_connecting s s2 addr K3) in Hspec.
    destruct (Nat.ltb_spec (length (pending s addr)) 4) as [_|Hge]; [|lia].
    destruct Hspec as (-> & R & _ & l1 & l2 & E1 & E2 & _).
    split.
    { intros t Ht. apply in_app_or in Ht. destruct Ht as [Ht|[Ht|[]]]; [|discriminate].
      exact (all_accepted_no_err _ Hacc _ Ht). }
    split; [rewrite R, K4; reflexivity|].
    exists (next_free_conn_id (S (length (d_streams s2))) s2 addr (d_next_conn_id s2)), (peek_random s2).
    split; [apply in_or_app; right; left; reflexivity|].
    assert (Hp : pending s addr = somes l1 ++ somes l2).
    { unfold pending. rewrite <- (slots_of_same_connecting s s2 addr K3), E1, somes_app. reflexivity. }
    assert (Hp' : pending s' addr = somes l1 ++ {| cn_token := token; cn_seq := peek_random s2 |} :: somes l2).
    { unfold pending. rewrite E2, somes_app. reflexivity. }
    split; [rewrite Hp'; apply in_or_app; right; left; reflexivity|].
    split; [rewrite Hp, Hp', !app_length; cbn [length]; lia|].
    intros a Ha. unfold pending. rewrite (Hoth a Ha). apply (f_equal somes).
    apply slots_of_same_connecting. exact K3.
Qed.

(* conversely the slot limit is the only other reason: with four pending connects to the
   address the SYN still goes out but the requester is dropped (it sees DispatcherDead) *)
Theorem connect_refused_when_four_pending s pushes addr token r s' e :
  d_inv s -> d_control s = CtlConnect addr token :: r ->
  length (pending s addr) = 4%nat ->
  dstep s (DoRunOnce pushes (ArmControl SynSent)) = (s', e) ->
  In (EvConnectErr token) e /\ (forall a, pending s' a = pending s a) /\
  (d_results s' = d_results s ++ [(token, CrTooMany)] \/ d_results s' = d_results s ++ [(token, CrDead)]).
Proof.
  intros Hinv Hctl Hfour H.
  destruct (run_ctl_decomp _ _ _ _ _ _ _ Hinv Hctl H) as (s2 & e1 & e3 & Hinv2 & K & _ & _ & Hacc & -> & Hoc).
  destruct K as (_ & _ & K3 & K4 & _).
  pose proof (on_control_connect_spec _ _ _ _ _ _ Hinv2 Hoc) as Hspec. cbv zeta in Hspec.
  destruct Hspec as (_ & Hspec).
  destruct (streams_full s2).
  - destruct Hspec as (-> & R & C & _). split; [apply in_or_app; right; left; reflexivity|].
    split; [|left; rewrite R, K4; reflexivity].
    intro a. rewrite <- (pending_same_connecting s s2 a K3). apply pending_same_connecting. exact C.
  - destruct Hspec as (Hoth & Hspec).
    rewrite (pending_same_connecting s s2 addr K3), Hfour in Hspec. cbn [Nat.ltb Nat.leb] in Hspec.
    destruct Hspec as (-> & R & _ & Hsame).
    split; [apply in_or_app; right; right; left; reflexivity|].
    split; [|right; rewrite R, K4; reflexivity].
    intro a. unfold pending. destruct (Z.eq_dec a addr) as [->|Hne].
    + rewrite Hsame. apply (f_equal somes). apply slots_of_same_connecting. exact K3.
    + rewrite (Hoth a Hne). apply (f_equal somes). apply slots_of_same_connecting. exact K3.
Qed.

(* ------------------------------------------------------------------ an abandoned connect releases its slot *)
(* Handling ConnectDropped(addr, token): the first pending connect to addr with this token
   leaves; nothing else changes. *)
Theorem connect_dropped_frees_slot s pushes send addr token r s' e :
  d_inv s -> d_control s = CtlConnectDropped addr token :: r ->
  dstep s (DoRunOnce pushes (ArmControl send)) = (s', e) ->
  no_connect_err e /\ d_results s' = d_results s /\
  (forall a, a <> addr -> pending s' a = pending s a) /\
  ((pending s' addr = pending s addr /\ forall x, In x (pending s addr) -> cn_token x <> token) \/
   exists c m1 m2, pending s addr = m1 ++ c :: m2 /\ cn_token c = token /\
                   (forall x, In x m1 -> cn_token x <> token) /\ pending s' addr = m1 ++ m2).
Proof.
  intros Hinv Hctl H.
  destruct (run_ctl_decomp _ _ _ _ _ _ _ Hinv Hctl H) as (s2 & e1 & e3 & Hinv2 & K & _ & _ & Hacc & -> & Hoc).
  destruct K as (_ & _ & K3 & K4 & _).
  destruct (on_control_dropped_spec _ _ _ _ _ _ Hinv2 Hoc) as (-> & _ & R & _ & _ & Hoth & Hpop).
  rewrite app_nil_r. split; [intros t Ht; exact (all_accepted_no_err _ Hacc _ Ht)|].
  split; [congruence|]. split.
  { intros a Ha. unfold pending. rewrite (Hoth a Ha). apply (f_equal somes).
    apply slots_of_same_connecting. exact K3. }
  rewrite (slots_of_same_connecting s s2 addr K3) in Hpop.
  destruct (slots_pop _ (slots_of s addr)) as [[c sl']|] eqn:Ep.
  - right. destruct (slots_pop_somes _ _ _ _ Ep) as (m1 & m2 & Q1 & Q2 & Q3 & Q4 & _).
    exists c, m1, m2. split; [exact Q1|]. split; [apply Z.eqb_eq; exact Q3|].
    split; [intros x Hx; apply Z.eqb_neq; apply Q4; exact Hx|]. unfold pending. rewrite Hpop. exact Q2.
  - left. subst s'. split; [apply pending_same_connecting; exact K3|].
    intros x Hx. apply Z.eqb_neq. apply (proj1 (slots_pop_none _ _) Ep). exact Hx.
Qed.

(* so: once the ConnectDropped of a pending connect has been handled, a slot of that address is
   free and the next connect to it is not refused for lack of a slot *)
Corollary connect_after_drop_not_starved s pushes send addr token r s1 e1 pushes' token' r' s2 e2 :
  d_inv s -> d_control s = CtlConnectDropped addr token :: r ->
  (exists c, In c (pending s addr) /\ cn_token c = token) ->
  dstep s (DoRunOnce pushes (ArmControl send)) = (s1, e1) ->
  d_control s1 = CtlConnect addr token' :: r' ->
  dstep s1 (DoRunOnce pushes' (ArmControl SynSent)) = (s2, e2) ->
  d_results s2 = d_results s1 ++ [(token', CrTooMany)] \/
  (no_connect_err e2 /\ exists q, In {| cn_token := token'; cn_seq := q |} (pending s2 addr)).
Proof.
  intros Hinv Hctl (c & Hc & Ht) H1 Hctl1 H2.
  destruct (dstep_inv _ _ _ _ Hinv H1) as [Hinv1 _].
  destruct (connect_dropped_frees_slot _ _ _ _ _ _ _ _ Hinv Hctl H1) as (_ & _ & _ & Hd).
  assert (Hlt : (length (pending s1 addr) < 4)%nat).
  { pose proof (pending_le_4 s addr Hinv) as H4.
    destruct Hd as [[_ Hno]|(c0 & m1 & m2 & Q1 & _ & _ & Q2)]; [destruct (Hno c Hc Ht)|].
    rewrite Q1 in H4. rewrite Q2. rewrite app_length in *. cbn [length] in H4. lia. }
  destruct (connect_not_starved _ _ _ _ _ _ _ Hinv1 Hctl1 Hlt H2) as [(_ & R & _)|(A & _ & cid & q & _ & B & _)].
  - left. exact R.
  - right. split; [exact A|]. exists q. exact B.
Qed.

(* ------------------------------------------------------------------ the control channel is first-in first-out *)
Definition is_ctl_arm (o : dop) : bool :=
  match o with DoRunOnce _ (ArmControl _) => true | _ => false end.
Definition ctl_arms (ops : list dop) : nat := length (filter is_ctl_arm ops).

Lemma on_control_keeps_control s c send s' e : on_control s c send = (s', e) -> d_control s' = d_control s.
Proof.
  unfold on_control. destruct c as [a0 t0|a0 t0|k1].
  - destruct (streams_full s); [intro H; injection H as <- _; reflexivity|].
    destruct (next_random _) as [s2 q] eqn:Er. destruct (next_random_same _ _ _ Er) as (_ & _ & _ & _ & _ & _ & R7).
    dsimpl. destruct send; [destruct (slots_insert _ _)| |]; intro H; injection H as <- _; dsimpl; exact R7.
  - destruct (get_slots s a0); [destruct (slots_pop _ _) as [[? ?]|]|]; intro H; injection H as <- _; reflexivity.
  - destruct (find_stream s k1) as [en|]; [destruct (se_alive en)|]; intro H; injection H as <- _; reflexivity.
Qed.

Lemma on_maybe_connect_ack_control s addr m s' e :
  on_maybe_connect_ack s addr m = (s', e) -> d_control s' = d_control s.
Proof.
  unfold on_maybe_connect_ack. destruct (streams_full s); [intro H; injection H as <- _; auto|].
  destruct (get_slots s addr); [|intro H; injection H as <- _; auto].
  destruct (slots_pop _ _) as [[c sl']|]; [|intro H; injection H as <- _; auto].
  destruct (mem_z _ _); intro H; injection H as <- _; auto.
Qed.

Lemma on_recv_control s addr m s' e : on_recv s addr m = (s', e) -> d_control s' = d_control s.
Proof.
  unfold on_recv. destruct (find_stream s _) as [en|].
  - destruct (se_alive en); intro H; injection H as <- _; reflexivity.
  - destruct (dm_type m); try (intro H; injection H as <- _; reflexivity).
    + apply on_maybe_connect_ack_control.
    + intro H. apply (on_syn_keeps _ _ _ _ H).
Qed.

(* a step that is not the control arm only appends to the channel *)
Lemma dstep_control_other s o s' e :
  d_inv s -> is_ctl_arm o = false -> dstep s o = (s', e) -> exists suf, d_control s' = d_control s ++ suf.
Proof.
  intros Hinv Hno H.
  assert (Hsame : d_control s' = d_control s -> exists suf, d_control s' = d_control s ++ suf)
    by (intros ->; exists []; rewrite app_nil_r; reflexivity).
  destruct o as [pushes ar|id|id|id|addr token|addr token|addr token|k1].
  - apply Hsame.
    destruct (run_once_decomp _ _ _ _ _ Hinv H) as (s1 & e1 & e3 & Ec & Ea & -> & Hinv1 & Hacc & Hfr & Hinv2 & Hsm).
    destruct Hfr as [_ _ B3 _ _]. destruct Hsm as (_ & _ & _ & _ & P5 & _).
    set (s2 := fold_left push_acceptor pushes s1) in *. rewrite <- B3, <- P5.
    unfold arm_step in Ea. destruct ar as [|send|addr [m|]]; [| discriminate Hno | |].
    + destruct (d_next_acc s2); [injection Ea as <- _; reflexivity|].
      destruct (d_chan s2); injection Ea as <- _; reflexivity.
    + apply (on_recv_control _ _ _ _ _ Ea).
    + injection Ea as <- _. reflexivity.
  - cbn [dstep] in H. injection H as <- _. apply Hsame. unfold push_acceptor. destruct (_ <? _); reflexivity.
  - cbn [dstep] in H. destruct (find _ _) as [[x [k sid]]|]; injection H as <- _; dsimpl; [eauto|apply Hsame; reflexivity].
  - cbn [dstep] in H. injection H as <- _. apply Hsame. reflexivity.
  - cbn [dstep] in H. injection H as <- _. dsimpl. eauto.
  - cbn [dstep] in H. injection H as <- _. dsimpl. eauto.
  - cbn [dstep] in H. injection H as <- _. destruct (existsb _ _); dsimpl; [eauto|apply Hsame; reflexivity].
  - cbn [dstep] in H. injection H as <- _. dsimpl. eauto.
Qed.

(* the control arm takes exactly the head *)
Lemma dstep_control_head s pushes send c r s' e :
  d_inv s -> d_control s = c :: r -> dstep s (DoRunOnce pushes (ArmControl send)) = (s', e) ->
  d_control s' = r.
Proof.
  intros Hinv Hctl H.
  destruct (run_ctl_decomp _ _ _ _ _ _ _ Hinv Hctl H) as (s2 & e1 & e3 & _ & _ & Hr & _ & _ & _ & Hoc).
  rewrite (on_control_keeps_control _ _ _ _ _ Hoc). exact Hr.
Qed.

(* FAIRNESS => SERVICE, over all op lists: the message at position n of the control channel is
   the head of the channel when the (n+1)-th control arm of the run fires, whatever else the
   dispatcher and the other tasks do in between *)
Theorem control_fifo : forall ops s n c,
  d_inv s -> nth_error (d_control s) n = Some c -> (n < ctl_arms ops)%nat ->
  exists pre pushes send post r,
    ops = pre ++ DoRunOnce pushes (ArmControl send) :: post /\ ctl_arms pre = n /\
    d_control (drun s pre) = c :: r.
Proof.
  induction ops as [|o rest IH]; intros s n c Hinv Hn Hlt; [cbn in Hlt; lia|].
  destruct (dstep s o) as [s1 e] eqn:E. destruct (dstep_inv _ _ _ _ Hinv E) as [Hinv1 _].
  destruct (is_ctl_arm o) eqn:Eo.
  - destruct o as [pushes [|send|addr om]|id|id|id|addr token|addr token|addr token|k1]; try discriminate Eo.
    destruct (d_control s) as [|c0 r0] eqn:Ectl; [destruct n; discriminate Hn|].
    destruct n as [|n'].
    + cbn [nth_error] in Hn. injection Hn as ->.
      exists [], pushes, send, rest, r0. split; [reflexivity|]. split; [reflexivity|]. exact Ectl.
    + cbn [nth_error] in Hn. pose proof (dstep_control_head _ _ _ _ _ _ _ Hinv Ectl E) as Hc1.
      unfold ctl_arms in Hlt. cbn [filter is_ctl_arm length] in Hlt.
      destruct (IH s1 n' c Hinv1 ltac:(rewrite Hc1; exact Hn) ltac:(unfold ctl_arms; lia))
        as (pre & pushes' & send' & post & r & -> & Hpre & Hd).
      exists (DoRunOnce pushes (ArmControl send) :: pre), pushes', send', post, r.
      split; [reflexivity|]. split; [unfold ctl_arms in *; cbn [filter is_ctl_arm length]; lia|].
      cbn [drun]. rewrite E. exact Hd.
  - destruct (dstep_control_other _ _ _ _ Hinv Eo E) as [suf Hsuf].
    assert (Hn1 : nth_error (d_control s1) n = Some c).
    { rewrite Hsuf, nth_error_app1; [exact Hn|]. apply nth_error_Some. congruence. }
    assert (Hlt1 : (n < ctl_arms rest)%nat) by (unfold ctl_arms in *; cbn [filter] in Hlt; rewrite Eo in Hlt; exact Hlt).
    destruct (IH s1 n c Hinv1 Hn1 Hlt1) as (pre & pushes' & send' & post & r & -> & Hpre & Hd).
    exists (o :: pre), pushes', send', post, r.
    split; [reflexivity|]. split; [unfold ctl_arms in *; cbn [filter]; rewrite Eo; exact Hpre|].
    cbn [drun]. rewrite E. exact Hd.
Qed.

(* an abandoned connect releases what it reserved, eventually: after connect()'s future is
   dropped, in EVERY continuation in which the control arm fires more often than there were
   messages queued before it, there is a step that handles its ConnectDropped, and that step
   removes the first pending connect with this token (if there still is one) *)
Theorem dropped_connect_eventually_released s addr token ops :
  d_inv s ->
  let s0 := fst (dstep s (DoDropConnect addr token)) in
  (length (d_control s) < ctl_arms ops)%nat ->
  exists pre pushes send post,
    ops = pre ++ DoRunOnce pushes (ArmControl send) :: post /\
    let sb := drun s0 pre in
    let sa := fst (dstep sb (DoRunOnce pushes (ArmControl send))) in
    (forall a, a <> addr -> pending sa a = pending sb a) /\
    ((pending sa addr = pending sb addr /\ forall x, In x (pending sb addr) -> cn_token x <> token) \/
     exists c m1 m2, pending sb addr = m1 ++ c :: m2 /\ cn_token c = token /\
                     (forall x, In x m1 -> cn_token x <> token) /\ pending sa addr = m1 ++ m2).
Proof.
  intros Hinv s0 Hlt.
  destruct (dstep s (DoDropConnect addr token)) as [s0' e0] eqn:E0. cbn [fst] in s0. subst s0.
  destruct (dstep_inv _ _ _ _ Hinv E0) as [Hinv0 _].
  assert (Hc0 : d_control s0' = d_control s ++ [CtlConnectDropped addr token]).
  { cbn [dstep] in E0. injection E0 as <- _. reflexivity. }
  assert (Hn : nth_error (d_control s0') (length (d_control s)) = Some (CtlConnectDropped addr token)).
  { rewrite Hc0, nth_error_app2 by lia. rewrite Nat.sub_diag. reflexivity. }
  destruct (control_fifo ops s0' _ _ Hinv0 Hn Hlt) as (pre & pushes & send & post & r & -> & _ & Hd).
  exists pre, pushes, send, post. split; [reflexivity|]. cbv zeta.
  destruct (drun_inv pre s0' Hinv0) as [Hinvb _].
  destruct (dstep (drun s0' pre) (DoRunOnce pushes (ArmControl send))) as [sa e] eqn:E. cbn [fst].
  destruct (connect_dropped_frees_slot _ _ _ _ _ _ _ _ Hinvb Hd E) as (_ & _ & A & B). auto.
Qed.

(* ------------------------------------------------------------------ accept side: dead acceptors *)
(* the acceptors waiting, oldest first: next_available_acceptor, then the channel *)
Definition accq (s : dstate) : list Z :=
  (match d_next_acc s with Some a => [a] | None => [] end) ++ d_chan s.

(* the fields that decide whether a SYN can be matched *)
Definition same_core (s s' : dstate) : Prop :=
  d_streams s' = d_streams s /\ d_max_streams s' = d_max_streams s /\
  d_dead_acceptors s' = d_dead_acceptors s /\ d_syns s' = d_syns s.

Lemma same_core_refl s : same_core s s.
Proof. unfold same_core. repeat split. Qed.
Lemma same_core_trans a b c : same_core a b -> same_core b c -> same_core a c.
Proof. unfold same_core. intros H1 H2. repeat split; intuition congruence. Qed.

Lemma same_core_full s s' : same_core s s' -> streams_full s' = streams_full s.
Proof. intros (A & B & _). unfold streams_full. rewrite A, B. reflexivity. Qed.
Lemma same_core_has s s' k : same_core s s' -> has_stream s' k = has_stream s k.
Proof. intros (A & _). unfold has_stream, find_stream. rewrite A. reflexivity. Qed.

Lemma try_next_accq s x q : accq s = x :: q ->
  exists s1, try_next_acceptor s = (s1, Some x) /\ accq s1 = q /\ same_core s s1.
Proof.
  unfold accq, try_next_acceptor. destruct (d_next_acc s) as [a|] eqn:En; cbn [app].
  - intro H; injection H as -> Hq. exists (upd_acc s None (d_chan s)). split; [reflexivity|].
    dsimpl. split; [exact Hq|]. unfold same_core; dsimpl. repeat split.
  - intro H. rewrite H. exists (upd_acc s None q). split; [reflexivity|]. dsimpl.
    split; [reflexivity|]. unfold same_core; dsimpl. repeat split.
Qed.

Lemma mem_z_true x l : In x l -> mem_z x l = true.
Proof. intro H. unfold mem_z. apply existsb_exists. exists x. split; [exact H|apply Z.eqb_refl]. Qed.

Lemma mem_z_false_iff x l : ~ In x l -> mem_z x l = false.
Proof.
  intro H. destruct (mem_z x l) eqn:E; [|reflexivity]. exfalso. apply H.
  unfold mem_z in E. apply existsb_exists in E. destruct E as (y & Hy & Hxy). apply Z.eqb_eq in Hxy. congruence.
Qed.

Lemma next_random_core s : same_core s (fst (next_random s)) /\ accq (fst (next_random s)) = accq s.
Proof.
  unfold next_random, same_core, accq. destruct (d_random s); cbn [fst]; dsimpl; repeat split.
Qed.

(* a dead acceptor is dropped and consumes no request *)
Lemma match_syn_dead s y a :
  streams_full s = false -> has_stream s (syn_key y) = false -> In a (d_dead_acceptors s) ->
  match_syn_with_accept s y a = (fst (next_random s), MrReceiverDead, []).
Proof.
  intros Hf Hh Hd. unfold match_syn_with_accept. fold (syn_key y). rewrite Hf, Hh.
  destruct (next_random s) as [s1 x] eqn:Er. cbn [fst].
  destruct (next_random_keeps _ _ _ Er) as ((_ & _ & _ & K4 & _) & _).
  rewrite (mem_z_true a (d_dead_acceptors s1)) by (rewrite K4; exact Hd). reflexivity.
Qed.

(* a live one gets the connection *)
Lemma match_syn_live s y a :
  streams_full s = false -> has_stream s (syn_key y) = false -> ~ In a (d_dead_acceptors s) ->
  exists s2, match_syn_with_accept s y a = (s2, MrMatched, [EvAccepted a (syn_key y)]) /\
             accq s2 = accq s /\ d_syns s2 = d_syns s.
Proof.
  intros Hf Hh Hd. unfold match_syn_with_accept. fold (syn_key y). rewrite Hf, Hh.
  destruct (next_random s) as [s1 x] eqn:Er.
  destruct (next_random_keeps _ _ _ Er) as ((_ & _ & _ & K4 & _) & _).
  destruct (next_random_same _ _ _ Er) as (_ & _ & R3 & R4 & R5 & _).
  rewrite (mem_z_false_iff a (d_dead_acceptors s1)) by (rewrite K4; exact Hd).
  eexists. split; [reflexivity|]. unfold accq; dsimpl. rewrite R4, R5. auto.
Qed.

(* what "a is the oldest live acceptor and SYN y can be served" means *)
Definition serve_cond (s : dstate) (y : syn) (dead : list Z) (a : Z) (rest : list Z) : Prop :=
  accq s = dead ++ a :: rest /\ (forall x, In x dead -> In x (d_dead_acceptors s)) /\
  ~ In a (d_dead_acceptors s) /\ streams_full s = false /\ has_stream s (syn_key y) = false.

Lemma serve_cond_core s s' y dead a rest q :
  serve_cond s y dead a rest -> same_core s s' -> accq s' = q -> forall dead', q = dead' ++ a :: rest ->
  (forall x, In x dead' -> In x dead) -> serve_cond s' y dead' a rest.
Proof.
  intros (C1 & C2 & C3 & C4 & C5) Hc Hq dead' -> Hsub. pose proof Hc as (_ & _ & D & _).
  unfold serve_cond. rewrite (same_core_full _ _ Hc), (same_core_has _ _ _ Hc), D. auto.
Qed.

(* on_syn: the SYN skips every dead acceptor ahead and goes to the oldest live one *)
Lemma on_syn_loop_serves y a rest : forall dead s fuel,
  serve_cond s y dead a rest -> (length dead < fuel)%nat ->
  exists s', on_syn_loop fuel s y = (s', true, [EvAccepted a (syn_key y)]) /\
             accq s' = rest /\ d_syns s' = d_syns s.
Proof.
  induction dead as [|x dead IH]; intros s fuel Hc Hfuel; (destruct fuel as [|fuel]; [cbn in Hfuel; lia|]);
    cbn [on_syn_loop]; pose proof Hc as (C1 & C2 & C3 & C4 & C5); cbn [app] in C1.
  - destruct (try_next_accq _ _ _ C1) as (s1 & -> & Hq & Hcore).
    assert (D4 : streams_full s1 = false) by (rewrite (same_core_full _ _ Hcore); exact C4).
    assert (D5 : has_stream s1 (syn_key y) = false) by (rewrite (same_core_has _ _ _ Hcore); exact C5).
    assert (D3 : ~ In a (d_dead_acceptors s1)) by (destruct Hcore as (_ & _ & -> & _); exact C3).
    destruct (match_syn_live s1 y a D4 D5 D3) as (s2 & -> & Hq2 & Hs2).
    exists s2. split; [reflexivity|]. destruct Hcore as (_ & _ & _ & Hs1). split; congruence.
  - destruct (try_next_accq _ _ _ C1) as (s1 & -> & Hq & Hcore).
    assert (Hx : In x (d_dead_acceptors s1)).
    { destruct Hcore as (_ & _ & -> & _). apply C2. left; reflexivity. }
    pose proof Hcore as Hcore0.
    destruct Hcore as (E1 & E2 & E3 & E4).
    assert (F1 : streams_full s1 = false) by (rewrite (same_core_full _ _ Hcore0); exact C4).
    assert (F2 : has_stream s1 (syn_key y) = false) by (rewrite (same_core_has _ _ _ Hcore0); exact C5).
    rewrite (match_syn_dead s1 y x F1 F2 Hx).
    destruct (next_random_core s1) as [Hcore2 Hq2].
    assert (Hc' : serve_cond (fst (next_random s1)) y dead a rest).
    { apply (serve_cond_core s _ y (x :: dead) a rest (dead ++ a :: rest) Hc).
      - eapply same_core_trans; eauto.
      - congruence.
      - reflexivity.
      - intros z Hz. right; exact Hz. }
    destruct (IH _ fuel Hc' ltac:(cbn in Hfuel; lia)) as (s' & -> & A & B).
    exists s'. split; [reflexivity|]. split; [exact A|].
    destruct Hcore2 as (_ & _ & _ & G4). congruence.
Qed.

Lemma serve_cond_len s y dead a rest : serve_cond s y dead a rest -> (length dead <= length (d_chan s))%nat.
Proof.
  intros (C1 & _). assert (H : length (accq s) = (length dead + S (length rest))%nat)
    by (rewrite C1, app_length; reflexivity).
  unfold accq in H. rewrite app_length in H. destruct (d_next_acc s); cbn [length] in H; lia.
Qed.

Lemma on_syn_serves_live s y dead a rest :
  d_syns s = [] -> serve_cond s y dead a rest ->
  exists s', on_syn s y = (s', [EvAccepted a (syn_key y)]) /\ accq s' = rest /\ d_syns s' = [].
Proof.
  intros Hs Hc. unfold on_syn. rewrite Hs.
  pose proof (serve_cond_len _ _ _ _ _ Hc) as Hlen.
  destruct (on_syn_loop_serves y a rest dead s (length (d_chan s) + 2) Hc ltac:(lia)) as (s' & -> & A & B).
  exists s'. split; [reflexivity|]. split; [exact A|congruence].
Qed.

Lemma push_acceptors_accq : forall l s, exists ext, accq (fold_left push_acceptor l s) = accq s ++ ext.
Proof.
  induction l as [|x r IH]; intros s; cbn [fold_left]; [exists []; rewrite app_nil_r; reflexivity|].
  destruct (IH (push_acceptor s x)) as [ext Hext]. rewrite Hext.
  unfold push_acceptor, accq. destruct (_ <? _); dsimpl.
  - exists ([x] ++ ext). rewrite !app_assoc. reflexivity.
  - exists ext. reflexivity.
Qed.

(* A LIVE ACCEPTOR IS SERVED BY THE NEXT SYN WHEN NO OLDER LIVE ACCEPTOR EXISTS: nothing is
   cached, every acceptor ahead of a was abandoned, the table has room and the SYN's key is
   free.  The run_once that receives the SYN hands the connection to a; the abandoned acceptors
   ahead of it are gone from the queue and consumed no request. *)
Theorem live_acceptor_served_by_next_syn s pushes addr m dead a rest s' e :
  d_inv s -> d_syns s = [] -> dm_type m = ST_SYN ->
  find_stream s {| k_addr := addr; k_conn := dm_conn m |} = None ->
  serve_cond s (syn_of addr m) dead a rest ->
  dstep s (DoRunOnce pushes (ArmRecv addr (Some m))) = (s', e) ->
  e = [EvAccepted a (syn_key (syn_of addr m))] /\ d_syns s' = [] /\
  exists ext, accq s' = rest ++ ext.
Proof.
  intros Hinv Hs Ht Hfind Hc H.
  rewrite dstep_run_once_eq, (cleanup_no_syns s Hs) in H.
  set (s2 := fold_left push_acceptor pushes s) in *.
  destruct (push_acceptors_accq pushes s) as [ext Hext]. fold s2 in Hext.
  destruct (push_acceptors_same pushes s) as (P1 & _ & P3 & _ & _ & _ & P7 & _ & P9 & _). fold s2 in P1, P3, P7, P9.
  assert (Hcore : same_core s s2) by (unfold same_core; auto).
  pose proof Hc as (C1 & C2 & C3 & C4 & C5).
  assert (Hc2 : serve_cond s2 (syn_of addr m) dead a (rest ++ ext)).
  { unfold serve_cond. rewrite (same_core_full _ _ Hcore), (same_core_has _ _ _ Hcore), P9, Hext, C1.
    rewrite <- app_assoc. cbn [app]. auto. }
  cbn [arm_step] in H. unfold on_recv in H.
  assert (Hf2 : find_stream s2 {| k_addr := addr; k_conn := dm_conn m |} = None)
    by (unfold find_stream; rewrite P1; exact Hfind).
  rewrite Hf2, Ht in H. fold (syn_of addr m) in H.
  destruct (on_syn_serves_live s2 _ _ _ _ ltac:(congruence) Hc2) as (s3 & Hon & A & B).
  rewrite Hon in H. injection H as <- <-. cbn [app]. split; [reflexivity|]. split; [exact B|]. eauto.
Qed.

(* the same from the backlog: the oldest cached SYN goes to the oldest live acceptor at the next
   run_once, whatever arm fires *)
Lemma cleanup_loop_serves y ys a rest : forall dead s fuel ev0,
  d_syns s = y :: ys -> serve_cond s y dead a rest -> (length dead < fuel)%nat ->
  exists s' evn, cleanup_loop fuel s ev0 = (s', ev0 ++ EvAccepted a (syn_key y) :: evn).
Proof.
  induction dead as [|x dead IH]; intros s fuel ev0 Hs Hc Hfuel; (destruct fuel as [|fuel]; [cbn in Hfuel; lia|]);
    cbn [cleanup_loop]; rewrite Hs; pose proof Hc as (C1 & C2 & C3 & C4 & C5); cbn [app] in C1.
  - assert (Hq0 : accq (upd_syns s ys) = a :: rest) by exact C1.
    destruct (try_next_accq _ _ _ Hq0) as (s1 & -> & Hq & Hcore).
    assert (Hcore0 : same_core s s1 \/ True) by (right; exact I).
    destruct Hcore as (E1 & E2 & E3 & E4). dsimpl.
    assert (F1 : streams_full s1 = false) by (unfold streams_full in *; rewrite E1, E2; exact C4).
    assert (F2 : has_stream s1 (syn_key y) = false) by (unfold has_stream, find_stream in *; rewrite E1; exact C5).
    destruct (match_syn_live s1 y a F1 F2 ltac:(rewrite E3; exact C3)) as (s2 & -> & _ & _).
    destruct (cleanup_loop fuel s2 (ev0 ++ [EvAccepted a (syn_key y)])) as [s' ev'] eqn:El.
    destruct (cleanup_loop_acc _ _ _ _ _ El) as (evn & -> & _).
    exists s', evn. rewrite <- app_assoc. reflexivity.
  - assert (Hq0 : accq (upd_syns s ys) = x :: dead ++ a :: rest) by exact C1.
    destruct (try_next_accq _ _ _ Hq0) as (s1 & -> & Hq & Hcore).
    destruct Hcore as (E1 & E2 & E3 & E4). dsimpl.
    assert (F1 : streams_full s1 = false) by (unfold streams_full in *; rewrite E1, E2; exact C4).
    assert (F2 : has_stream s1 (syn_key y) = false) by (unfold has_stream, find_stream in *; rewrite E1; exact C5).
    assert (Hx : In x (d_dead_acceptors s1)) by (rewrite E3; apply C2; left; reflexivity).
    rewrite (match_syn_dead s1 y x F1 F2 Hx).
    destruct (next_random_core s1) as [(G1 & G2 & G3 & G4) Hq2].
    set (s3 := fst (next_random s1)) in *.
    assert (Hs3 : d_syns (upd_syns s3 (y :: d_syns s3)) = y :: ys) by (dsimpl; congruence).
    assert (Hc3 : serve_cond (upd_syns s3 (y :: d_syns s3)) y dead a rest).
    { unfold serve_cond.
      change (accq (upd_syns s3 (y :: d_syns s3))) with (accq s3).
      change (d_dead_acceptors (upd_syns s3 (y :: d_syns s3))) with (d_dead_acceptors s3).
      change (streams_full (upd_syns s3 (y :: d_syns s3))) with (streams_full s3).
      change (has_stream (upd_syns s3 (y :: d_syns s3)) (syn_key y)) with (has_stream s3 (syn_key y)).
      rewrite Hq2, Hq, G3, E3.
      split; [reflexivity|]. split; [intros z Hz; apply C2; right; exact Hz|]. split; [exact C3|].
      split; [unfold streams_full; rewrite G1, G2; exact F1|unfold has_stream, find_stream; rewrite G1; exact F2]. }
    destruct (IH _ fuel ev0 Hs3 Hc3 ltac:(cbn in Hfuel; lia)) as (s' & evn & ->).
    exists s', evn. reflexivity.
Qed.

Theorem live_acceptor_served_from_backlog s pushes arm0 y ys dead a rest s' e :
  d_inv s -> d_syns s = y :: ys -> serve_cond s y dead a rest ->
  dstep s (DoRunOnce pushes arm0) = (s', e) ->
  exists ev, e = EvAccepted a (syn_key y) :: ev.
Proof.
  intros Hinv Hs Hc H. rewrite dstep_run_once_eq in H.
  pose proof Hc as (_ & _ & _ & C4 & _).
  pose proof (serve_cond_len _ _ _ _ _ Hc) as Hlen.
  unfold cleanup_accept_queue in H. rewrite C4 in H.
  destruct (cleanup_loop_serves y ys a rest dead s (length (d_syns s) + length (d_chan s) + 2) [] Hs Hc ltac:(lia))
    as (s1 & evn & Hcl).
  rewrite Hcl in H. destruct (arm_step _ arm0) as [s3 e3]. injection H as _ <-.
  cbn [app]. eauto.
Qed.

(* ---- only abandoned acceptors are waiting: the next SYN sweeps them all and is cached ---- *)
Lemma try_next_accq_nil s : accq s = [] -> try_next_acceptor s = (s, None).
Proof.
  unfold accq, try_next_acceptor. destruct (d_next_acc s); cbn [app]; [discriminate|].
  intros ->. reflexivity.
Qed.

Lemma on_syn_loop_all_dead y : forall dead s fuel,
  accq s = dead -> (forall x, In x dead -> In x (d_dead_acceptors s)) ->
  streams_full s = false -> has_stream s (syn_key y) = false -> (length dead <= fuel)%nat ->
  exists s', on_syn_loop fuel s y = (s', false, []) /\ accq s' = [] /\ same_core s s'.
Proof.
  induction dead as [|x dead IH]; intros s fuel Hq Hd Hf Hh Hfuel.
  - destruct fuel as [|fuel]; cbn [on_syn_loop].
    + exists s. auto using same_core_refl.
    + rewrite (try_next_accq_nil s Hq). exists s. auto using same_core_refl.
  - destruct fuel as [|fuel]; [cbn in Hfuel; lia|]. cbn [on_syn_loop].
    destruct (try_next_accq _ _ _ Hq) as (s1 & -> & Hq1 & Hcore).
    assert (Hx : In x (d_dead_acceptors s1)).
    { destruct Hcore as (_ & _ & -> & _). apply Hd. left; reflexivity. }
    assert (F1 : streams_full s1 = false) by (rewrite (same_core_full _ _ Hcore); exact Hf).
    assert (F2 : has_stream s1 (syn_key y) = false) by (rewrite (same_core_has _ _ _ Hcore); exact Hh).
    rewrite (match_syn_dead s1 y x F1 F2 Hx).
    destruct (next_random_core s1) as [Hcore2 Hq2].
    assert (Hcore3 : same_core s (fst (next_random s1))) by (eapply same_core_trans; eauto).
    destruct (IH (fst (next_random s1)) fuel) as (s' & -> & A & B).
    + congruence.
    + intros z Hz. destruct Hcore3 as (_ & _ & -> & _). apply Hd. right; exact Hz.
    + rewrite (same_core_full _ _ Hcore3). exact Hf.
    + rewrite (same_core_has _ _ _ Hcore3). exact Hh.
    + cbn in Hfuel. lia.
    + exists s'. split; [reflexivity|]. split; [exact A|]. eapply same_core_trans; eauto.
Qed.

(* every waiting acceptor was abandoned: the SYN sweeps them all out of the queue in this one
   step, is itself cached for the next accept call, and nothing is refused *)
Theorem dead_acceptors_swept_by_next_syn s addr m s' e :
  d_inv s -> d_syns s = [] -> dm_type m = ST_SYN ->
  find_stream s {| k_addr := addr; k_conn := dm_conn m |} = None ->
  (forall x, In x (accq s) -> In x (d_dead_acceptors s)) ->
  streams_full s = false -> has_stream s (syn_key (syn_of addr m)) = false ->
  dstep s (DoRunOnce [] (ArmRecv addr (Some m))) = (s', e) ->
  e = [] /\ d_syns s' = [syn_of addr m] /\ accq s' = [] /\ d_streams s' = d_streams s.
Proof.
  intros Hinv Hs Ht Hfind Hd Hf Hh H.
  rewrite dstep_run_once_eq, (cleanup_no_syns s Hs) in H. cbn [fold_left arm_step] in H.
  unfold on_recv in H. rewrite Hfind, Ht in H. fold (syn_of addr m) in H.
  assert (Hlen : (length (accq s) <= length (d_chan s) + 2)%nat).
  { unfold accq. rewrite app_length. destruct (d_next_acc s); cbn [length]; lia. }
  destruct (on_syn_loop_all_dead (syn_of addr m) (accq s) s _ eq_refl Hd Hf Hh Hlen) as (s1 & Hl & A & B).
  unfold on_syn in H. rewrite Hs, Hl in H.
  destruct B as (B1 & B2 & B3 & B4). rewrite B4, Hs in H.
  cbn [length app] in H. change (Z.of_nat 0 <? ACCEPT_QUEUE_MAX_SYNS) with true in H.
  injection H as <- <-. dsimpl. unfold accq in *. dsimpl. auto.
Qed.

(* ---- the channel position of an abandoned accept call is released only by the sweep ---- *)
(* An abandoned accept call does NOT give its channel position back at once: it stays queued
   until the next SYN (or cached SYN) sweeps it.  32 accept calls are queued and abandoned; the
   33rd cannot enter the channel (in Rust: its `send().await` stays pending).  The next SYN
   sweeps all 32 in one run_once and is cached; the 33rd call then gets in and the following
   run_once serves it. *)
Definition full_dead_ops : list dop :=
  map DoPushAcceptor (map Z.of_nat (seq 1 32)) ++ map DoDropAcceptor (map Z.of_nat (seq 1 32)).
Definition a_syn : dmsg := {| dm_type := ST_SYN; dm_conn := 50; dm_seq := 1000; dm_ack := 0 |}.

Theorem dead_acceptor_position_held_until_sweep :
  let s1 := drun (dstate_new 128 [7; 100; 200]) full_dead_ops in
  let s2 := drun s1 [DoPushAcceptor 33] in
  let '(s3, e3) := dstep s2 (DoRunOnce [] (ArmRecv 5 (Some a_syn))) in
  let s4 := drun s3 [DoPushAcceptor 33] in
  let '(s5, e5) := dstep s4 (DoRunOnce [] ArmAccept) in
  length (d_chan s1) = 32%nat /\ d_chan s2 = d_chan s1 /\          (* refused: no room *)
  e3 = [] /\ d_chan s3 = [] /\ length (d_syns s3) = 1%nat /\       (* swept, SYN cached *)
  d_chan s4 = [33] /\                                              (* now it gets in *)
  e5 = [EvAccepted 33 {| k_addr := 5; k_conn := 51 |}].            (* and is served *)
Proof. vm_compute. repeat split. Qed.

(* ------------------------------------------------------------------ slots never leak *)
(* every step, every address: the number of pending connects grows only by a connect request
   that was granted a slot (and then by exactly one) *)
Theorem pending_grows_only_by_connect s o s' e a :
  d_inv s -> dstep s o = (s', e) ->
  (length (pending s' a) <= length (pending s a))%nat \/
  (no_connect_err e /\ length (pending s' a) = S (length (pending s a)) /\
   exists cid q, In (EvSentSyn a cid q) e).
Proof.
  intros Hinv H.
  assert (Hsame : forall s0, d_connecting s0 = d_connecting s -> d_connecting s' = d_connecting s0 ->
            (length (pending s' a) <= length (pending s a))%nat).
  { intros s0 H0 H1. rewrite (pending_same_connecting s s' a) by congruence. lia. }
  destruct o as [pushes ar|id|id|id|addr token|addr token|addr token|k1];
    [|left; apply (Hsame s eq_refl); cbn [dstep] in H..].
  - destruct (run_once_decomp _ _ _ _ _ Hinv H) as (s1 & e1 & e3 & Ec & Ea & -> & Hinv1 & Hacc & Hfr & Hinv2 & Hsm).
    destruct Hfr as [_ B2 _ _ _]. destruct Hsm as (_ & P2 & _).
    set (s2 := fold_left push_acceptor pushes s1) in *.
    assert (Hc2 : d_connecting s2 = d_connecting s) by congruence.
    unfold arm_step in Ea. destruct ar as [|send|addr [m|]].
    + left. apply (Hsame s2 Hc2). destruct (d_next_acc s2); [injection Ea as <- _; reflexivity|].
      destruct (d_chan s2); injection Ea as <- _; reflexivity.
    + destruct (d_control s2) as [|c r] eqn:Ectl; [left; apply (Hsame s2 Hc2); injection Ea as <- _; reflexivity|].
      assert (Hinv2' : d_inv (upd_control s2 r)) by (apply (d_inv_same_tables s2); dsimpl; auto; apply Hinv2).
      assert (Hp2 : forall b, pending (upd_control s2 r) b = pending s b)
        by (intro b; apply pending_same_connecting; exact Hc2).
      destruct c as [a0 t0|a0 t0|k0].
      * pose proof (on_control_connect_spec _ _ _ _ _ _ Hinv2' Ea) as Hspec. cbv zeta in Hspec.
        destruct Hspec as (_ & Hspec).
        destruct (streams_full (upd_control s2 r)).
        { left. destruct Hspec as (_ & _ & C & _). apply (Hsame (upd_control s2 r) Hc2 C). }
        destruct send; [|left; destruct Hspec as (_ & _ & C & _); apply (Hsame (upd_control s2 r) Hc2 C)..].
        destruct Hspec as (Hoth & Hspec).
        destruct (Z.eq_dec a a0) as [->|Hne].
        2:{ left. unfold pending at 1. rewrite (Hoth a Hne). fold (pending (upd_control s2 r) a). rewrite Hp2. lia. }
        rewrite Hp2 in Hspec. destruct (Nat.ltb_spec (length (pending s a0)) 4) as [Hlt|Hge].
        -- right. destruct Hspec as (-> & _ & _ & l1 & l2 & E1 & E2 & _).
           split.
           { intros t Ht. apply in_app_or in Ht. destruct Ht as [Ht|[Ht|[]]]; [|discriminate].
             exact (all_accepted_no_err _ Hacc _ Ht). }
           split.
           { unfold pending at 1. rewrite E2. rewrite <- (Hp2 a0). unfold pending. rewrite E1.
             rewrite !somes_app, !app_length. cbn [somes flat_map app length]. lia. }
           eexists _, _. apply in_or_app. right. left. reflexivity.
        -- left. destruct Hspec as (_ & _ & _ & E). unfold pending at 1. rewrite E.
           fold (pending (upd_control s2 r) a0). rewrite Hp2. lia.
      * left. destruct (on_control_dropped_spec _ _ _ _ _ _ Hinv2' Ea) as (_ & _ & _ & _ & _ & Hoth & Hpop).
        destruct (Z.eq_dec a a0) as [->|Hne].
        2:{ unfold pending at 1. rewrite (Hoth a Hne). fold (pending (upd_control s2 r) a). rewrite Hp2. lia. }
        destruct (slots_pop _ (slots_of (upd_control s2 r) a0)) as [[c sl']|] eqn:Ep.
        -- destruct (slots_pop_somes _ _ _ _ Ep) as (m1 & m2 & Q1 & Q2 & _ & _ & Q5).
           unfold pending at 1. rewrite Hpop. rewrite <- (Hp2 a0). unfold pending. lia.
        -- subst s'. rewrite Hp2. lia.
      * left. apply (Hsame (upd_control s2 r) Hc2). cbn [on_control] in Ea.
        destruct (find_stream _ k0) as [en|]; [destruct (se_alive en)|]; injection Ea as <- _; reflexivity.
    + left. unfold on_recv in Ea. destruct (find_stream s2 _) as [en|] eqn:Ef.
      { apply (Hsame s2 Hc2). destruct (se_alive en); injection Ea as <- _; reflexivity. }
      destruct (dm_type m); try (apply (Hsame s2 Hc2); injection Ea as <- _; reflexivity).
      * pose proof (on_maybe_connect_ack_slots _ _ _ _ _ Hinv2 Ef Ea) as Hsl. cbv zeta in Hsl.
        assert (Hp2 : forall b, pending s2 b = pending s b) by (intro b; apply pending_same_connecting; exact Hc2).
        destruct (streams_full s2); [destruct Hsl as [-> _]; rewrite Hp2; lia|].
        destruct (slots_pop _ (slots_of s2 addr)) as [[c sl']|] eqn:Ep; [|destruct Hsl as [-> _]; rewrite Hp2; lia].
        destruct Hsl as (S1 & Hoth & _).
        destruct (Z.eq_dec a addr) as [->|Hne].
        2:{ unfold pending at 1. rewrite (Hoth a Hne). fold (pending s2 a). rewrite Hp2. lia. }
        destruct (slots_pop_somes _ _ _ _ Ep) as (m1 & m2 & Q1 & Q2 & _ & _ & Q5).
        unfold pending at 1. rewrite S1. rewrite <- (Hp2 addr). unfold pending. lia.
      * apply (Hsame s2 Hc2). apply (on_syn_keeps _ _ _ _ Ea).
    + left. apply (Hsame s2 Hc2). injection Ea as <- _. reflexivity.
  - injection H as <- _. unfold push_acceptor. destruct (_ <? _); reflexivity.
  - destruct (find _ _) as [[x [k sid]]|]; injection H as <- _; reflexivity.
  - injection H as <- _. reflexivity.
  - injection H as <- _. reflexivity.
  - injection H as <- _. reflexivity.
  - injection H as <- _. destruct (existsb _ _); reflexivity.
  - injection H as <- _. reflexivity.
Qed.

(* ------------------------------------------------------------------ every reachable state *)
Lemma reachable_inv max_streams random ops : d_inv (drun (dstate_new max_streams random) ops).
Proof. apply drun_inv. apply new_inv. Qed.

(* ------------------------------------------------------------------ the hypotheses are satisfiable *)
(* serve_cond on a reachable state: acceptor 1 queued and abandoned, acceptor 2 queued and alive *)
Example serve_cond_reachable :
  let s := drun (dstate_new 128 [7; 100; 200]) [DoPushAcceptor 1; DoPushAcceptor 2; DoDropAcceptor 1] in
  d_syns s = [] /\ find_stream s {| k_addr := 5; k_conn := dm_conn a_syn |} = None /\
  serve_cond s (syn_of 5 a_syn) [1] 2 [] /\
  snd (dstep s (DoRunOnce [] (ArmRecv 5 (Some a_syn)))) = [EvAccepted 2 {| k_addr := 5; k_conn := 51 |}].
Proof.
  cbv zeta. unfold serve_cond. vm_compute. repeat split; auto.
  intros [H|[]]. discriminate H.
Qed.

(* four pending connects to one address: the fifth is refused (its requester is dropped), the
   SYN still goes out; after one of the four is abandoned and its ConnectDropped handled, the
   next one gets the slot *)
Example four_pending_reachable :
  let cn t := [DoConnect 5 t; DoRunOnce [] (ArmControl SynSent)] in
  let s4 := drun (dstate_new 128 [7; 100; 200; 300; 400; 500; 600]) (cn 1 ++ cn 2 ++ cn 3 ++ cn 4) in
  let '(s5, e5) := dstep (drun s4 [DoConnect 5 5]) (DoRunOnce [] (ArmControl SynSent)) in
  let s6 := drun s5 [DoDropConnect 5 2; DoRunOnce [] (ArmControl SynSent)] in
  let '(s7, e7) := dstep (drun s6 [DoConnect 5 6]) (DoRunOnce [] (ArmControl SynSent)) in
  map cn_token (pending s4 5) = [1; 2; 3; 4] /\
  e5 = [EvSentSyn 5 15 500; EvConnectErr 5] /\ d_results s5 = [(5, CrDead)] /\
  map cn_token (pending s6 5) = [1; 3; 4] /\
  e7 = [EvSentSyn 5 15 600] /\ map cn_token (pending s7 5) = [1; 6; 3; 4].
Proof. vm_compute. repeat split. Qed.

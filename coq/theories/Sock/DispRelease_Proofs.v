(* C13 "abandoned connect or accept calls release whatever they reserved, so later calls are
   not starved".  Connect side: the four per-address slots.  Accept side: dead acceptors in the
   queue.  Step-level statements for every state satisfying d_inv (hence every reachable one)
   and statements over all op lists.  Proofs only. *)
From Utp Require Import Base.Prelude Wire.SeqNr Wire.Header Sock.Dispatcher Sock.Dispatcher_Proofs
  Sock.DispObs Sock.DispObs_Proofs Sock.DispFresh_Proofs Sock.DispSlots_Proofs Sock.DispPending_Proofs
  Sock.DispWiring_Proofs.

(* ------------------------------------------------------------------ the control arm of run_once *)
(* the state the control message is handled in *)
Lemma run_ctl_decomp s pushes send c r s' e :
  d_inv s -> d_control s = c :: r -> dstep s (DoRunOnce pushes (ArmControl send)) = (s', e) ->
  exists s2 e1 e3,
    d_inv s2 /\ keeps_nc s s2 /\ d_control s2 = r /\ incl (d_streams s) (d_streams s2) /\
    all_accepted e1 /\ e = e1 ++ e3 /\ on_control s2 c send = (s', e3).
Proof.
  intros Hinv Hctl H.
  destruct (run_once_decomp _ _ _ _ _ Hinv H) as (s1 & e1 & e3 & Ec & Ea & -> & Hinv1 & Hacc & Hfr & Hinv2 & Hsame).
  pose proof (cleanup_keeps _ _ _ Ec) as K.
  destruct Hfr as [B1 B2 B3 B4 B5].
  destruct Hsame as (P1 & P2 & P3 & P4 & P5 & P6 & P7 & P8 & P9 & P10 & P11 & P12 & P13).
  set (s2 := fold_left push_acceptor pushes s1) in *.
  unfold arm_step in Ea. assert (Hc2 : d_control s2 = c :: r) by congruence. rewrite Hc2 in Ea.
  exists (upd_control s2 r), e1, e3.
  split; [apply (d_inv_same_tables s2); dsimpl; auto; apply Hinv2|].
  split; [unfold keeps, keeps_nc in *; dsimpl; intuition congruence|].
  dsimpl. split; [reflexivity|]. split; [rewrite P1; exact B4|]. auto.
Qed.

Lemma pending_same_connecting s s' a : d_connecting s' = d_connecting s -> pending s' a = pending s a.
Proof. intro H. unfold pending. rewrite (slots_of_same_connecting _ _ _ H). reflexivity. Qed.

Lemma all_accepted_no_err e : all_accepted e -> forall t, ~ In (EvConnectErr t) e.
Proof. unfold all_accepted. rewrite Forall_forall. intros H t Hin. exact (H _ Hin). Qed.

(* ------------------------------------------------------------------ connect: not starved *)
(* A connect request to an address with fewer than four pending connects is never refused for
   lack of a slot: either the table limit refuses it (TooManyActiveConnections), or the SYN goes
   out and the request holds a slot afterwards. *)
Theorem connect_not_starved s pushes addr token r s' e :
  d_inv s -> d_control s = CtlConnect addr token :: r ->
  (length (pending s addr) < 4)%nat ->
  dstep s (DoRunOnce pushes (ArmControl SynSent)) = (s', e) ->
  (In (EvConnectErr token) e /\ d_results s' = d_results s ++ [(token, CrTooMany)] /\
   forall a, pending s' a = pending s a) \/
  (no_connect_err e /\ d_results s' = d_results s /\
   exists cid q, In (EvSentSyn addr cid q) e /\
     In {| cn_token := token; cn_seq := q |} (pending s' addr) /\
     length (pending s' addr) = S (length (pending s addr)) /\
     forall a, a <> addr -> pending s' a = pending s a).
Proof.
  intros Hinv Hctl Hlt H.
  destruct (run_ctl_decomp _ _ _ _ _ _ _ Hinv Hctl H) as (s2 & e1 & e3 & Hinv2 & K & _ & _ & Hacc & -> & Hoc).
  destruct K as (_ & _ & K3 & K4 & _).
  pose proof (on_control_connect_spec _ _ _ _ _ _ Hinv2 Hoc) as Hspec. cbv zeta in Hspec.
  destruct Hspec as (_ & Hspec).
  destruct (streams_full s2).
  - left. destruct Hspec as (-> & R & C & _). split; [apply in_or_app; right; left; reflexivity|].
    split; [rewrite R, K4; reflexivity|]. intro a. rewrite <- (pending_same_connecting s s2 a K3).
    apply pending_same_connecting. exact C.
  - right. destruct Hspec as (Hoth & Hspec).
    rewrite (pending_same_connecting s s2 addr K3) in Hspec.
    destruct (Nat.ltb_spec (length (pending s addr)) 4) as [_|Hge]; [|lia].
    destruct Hspec as (-> & R & _ & l1 & l2 & E1 & E2 & _).
    split.
    { intros t Ht. apply in_app_or in Ht. destruct Ht as [Ht|[Ht|[]]]; [|discriminate].
      exact (all_accepted_no_err _ Hacc _ Ht). }
    split; [rewrite R, K4; reflexivity|].
    exists (next_free_conn_id (S (length (d_streams s2))) s2 addr (d_next_conn_id s2)), (peek_random s2).
    split; [apply in_or_app; right; left; reflexivity|].
    assert (Hp : pending s addr = somes l1 ++ somes l2).
    { unfold pending. rewrite <- (slots_of_same_connecting s s2 addr K3), E1, somes_app. reflexivity. }
    assert (Hp' : pending s' addr = somes l1 ++ {| cn_token := token; cn_seq := peek_random s2 |} :: somes l2).
    { unfold pending. rewrite E2, somes_app. reflexivity. }
    split; [rewrite Hp'; apply in_or_app; right; left; reflexivity|].
    split; [rewrite Hp, Hp', !app_length; cbn [length]; lia|].
    intros a Ha. unfold pending. rewrite (Hoth a Ha). apply (f_equal somes).
    apply slots_of_same_connecting. exact K3.
Qed.

(* conversely the slot limit is the only other reason: with four pending connects to the
   address the SYN still goes out but the requester is dropped (it sees DispatcherDead) *)
Theorem connect_refused_when_four_pending s pushes addr token r s' e :
  d_inv s -> d_control s = CtlConnect addr token :: r ->
  length (pending s addr) = 4%nat ->
  dstep s (DoRunOnce pushes (ArmControl SynSent)) = (s', e) ->
  In (EvConnectErr token) e /\ (forall a, pending s' a = pending s a) /\
  (d_results s' = d_results s ++ [(token, CrTooMany)] \/ d_results s' = d_results s ++ [(token, CrDead)]).
Proof.
  intros Hinv Hctl Hfour H.
  destruct (run_ctl_decomp _ _ _ _ _ _ _ Hinv Hctl H) as (s2 & e1 & e3 & Hinv2 & K & _ & _ & Hacc & -> & Hoc).
  destruct K as (_ & _ & K3 & K4 & _).
  pose proof (on_control_connect_spec _ _ _ _ _ _ Hinv2 Hoc) as Hspec. cbv zeta in Hspec.
  destruct Hspec as (_ & Hspec).
  destruct (streams_full s2).
  - destruct Hspec as (-> & R & C & _). split; [apply in_or_app; right; left; reflexivity|].
    split; [|left; rewrite R, K4; reflexivity].
    intro a. rewrite <- (pending_same_connecting s s2 a K3). apply pending_same_connecting. exact C.
  - destruct Hspec as (Hoth & Hspec).
    rewrite (pending_same_connecting s s2 addr K3), Hfour in Hspec. cbn [Nat.ltb Nat.leb] in Hspec.
    destruct Hspec as (-> & R & _ & Hsame).
    split; [apply in_or_app; right; right; left; reflexivity|].
    split; [|right; rewrite R, K4; reflexivity].
    intro a. unfold pending. destruct (Z.eq_dec a addr) as [->|Hne].
    + rewrite Hsame. apply (f_equal somes). apply slots_of_same_connecting. exact K3.
    + rewrite (Hoth a Hne). apply (f_equal somes). apply slots_of_same_connecting. exact K3.
Qed.

(* ------------------------------------------------------------------ an abandoned connect releases its slot *)
(* Handling ConnectDropped(addr, token): the first pending connect to addr with this token
   leaves; nothing else changes. *)
Theorem connect_dropped_frees_slot s pushes send addr token r s' e :
  d_inv s -> d_control s = CtlConnectDropped addr token :: r ->
  dstep s (DoRunOnce pushes (ArmControl send)) = (s', e) ->
  no_connect_err e /\ d_results s' = d_results s /\
  (forall a, a <> addr -> pending s' a = pending s a) /\
  ((pending s' addr = pending s addr /\ forall x, In x (pending s addr) -> cn_token x <> token) \/
   exists c m1 m2, pending s addr = m1 ++ c :: m2 /\ cn_token c = token /\
                   (forall x, In x m1 -> cn_token x <> token) /\ pending s' addr = m1 ++ m2).
Proof.
  intros Hinv Hctl H.
  destruct (run_ctl_decomp _ _ _ _ _ _ _ Hinv Hctl H) as (s2 & e1 & e3 & Hinv2 & K & _ & _ & Hacc & -> & Hoc).
  destruct K as (_ & _ & K3 & K4 & _).
  destruct (on_control_dropped_spec _ _ _ _ _ _ Hinv2 Hoc) as (-> & _ & R & _ & _ & Hoth & Hpop).
  rewrite app_nil_r. split; [intros t Ht; exact (all_accepted_no_err _ Hacc _ Ht)|].
  split; [congruence|]. split.
  { intros a Ha. unfold pending. rewrite (Hoth a Ha). apply (f_equal somes).
    apply slots_of_same_connecting. exact K3. }
  rewrite (slots_of_same_connecting s s2 addr K3) in Hpop.
  destruct (slots_pop _ (slots_of s addr)) as [[c sl']|] eqn:Ep.
  - right. destruct (slots_pop_somes _ _ _ _ Ep) as (m1 & m2 & Q1 & Q2 & Q3 & Q4 & _).
    exists c, m1, m2. split; [exact Q1|]. split; [apply Z.eqb_eq; exact Q3|].
    split; [intros x Hx; apply Z.eqb_neq; apply Q4; exact Hx|]. unfold pending. rewrite Hpop. exact Q2.
  - left. subst s'. split; [apply pending_same_connecting; exact K3|].
    intros x Hx. apply Z.eqb_neq. apply (proj1 (slots_pop_none _ _) Ep). exact Hx.
Qed.

(* so: once the ConnectDropped of a pending connect has been handled, a slot of that address is
   free and the next connect to it is not refused for lack of a slot *)
Corollary connect_after_drop_not_starved s pushes send addr token r s1 e1 pushes' token' r' s2 e2 :
  d_inv s -> d_control s = CtlConnectDropped addr token :: r ->
  (exists c, In c (pending s addr) /\ cn_token c = token) ->
  dstep s (DoRunOnce pushes (ArmControl send)) = (s1, e1) ->
  d_control s1 = CtlConnect addr token' :: r' ->
  dstep s1 (DoRunOnce pushes' (ArmControl SynSent)) = (s2, e2) ->
  d_results s2 = d_results s1 ++ [(token', CrTooMany)] \/
  (no_connect_err e2 /\ exists q, In {| cn_token := token'; cn_seq := q |} (pending s2 addr)).
Proof.
  intros Hinv Hctl (c & Hc & Ht) H1 Hctl1 H2.
  destruct (dstep_inv _ _ _ _ Hinv H1) as [Hinv1 _].
  destruct (connect_dropped_frees_slot _ _ _ _ _ _ _ _ Hinv Hctl H1) as (_ & _ & _ & Hd).
  assert (Hlt : (length (pending s1 addr) < 4)%nat).
  { pose proof (pending_le_4 s addr Hinv) as H4.
    destruct Hd as [[_ Hno]|(c0 & m1 & m2 & Q1 & _ & _ & Q2)]; [destruct (Hno c Hc Ht)|].
    rewrite Q1 in H4. rewrite Q2. rewrite app_length in *. cbn [length] in H4. lia. }
  destruct (connect_not_starved _ _ _ _ _ _ _ Hinv1 Hctl1 Hlt H2) as [(_ & R & _)|(A & _ & cid & q & _ & B & _)].
  - left. exact R.
  - right. split; [exact A|]. exists q. exact B.
Qed.

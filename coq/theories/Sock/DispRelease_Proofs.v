(* C13 "abandoned connect or accept calls release whatever they reserved, so later calls are
   not starved".  Connect side: the four per-address slots.  Accept side: dead acceptors in the
   queue.  Step-level statements for every state satisfying d_inv (hence every reachable one)
   and statements over all op lists.  Proofs only. *)
From Utp Require Import Base.Prelude Wire.SeqNr Wire.Header Sock.Dispatcher Sock.Dispatcher_Proofs
  Sock.DispObs Sock.DispObs_Proofs Sock.DispFresh_Proofs Sock.DispSlots_Proofs Sock.DispPending_Proofs
  Sock.DispWiring_Proofs.

(* ------------------------------------------------------------------ the control arm of run_once *)
(* the state the control message is handled in *)
Lemma run_ctl_decomp s pushes send c r s' e :
  d_inv s -> d_control s = c :: r -> dstep s (DoRunOnce pushes (ArmControl send)) = (s', e) ->
  exists s2 e1 e3,
    d_inv s2 /\ keeps_nc s s2 /\ d_control s2 = r /\ incl (d_streams s) (d_streams s2) /\
    all_accepted e1 /\ e = e1 ++ e3 /\ on_control s2 c send = (s', e3).
Proof.
  intros Hinv Hctl H.
  destruct (run_once_decomp _ _ _ _ _ Hinv H) as (s1 & e1 & e3 & Ec & Ea & -> & Hinv1 & Hacc & Hfr & Hinv2 & Hsame).
  pose proof (cleanup_keeps _ _ _ Ec) as K.
  destruct Hfr as [B1 B2 B3 B4 B5].
  destruct Hsame as (P1 & P2 & P3 & P4 & P5 & P6 & P7 & P8 & P9 & P10 & P11 & P12 & P13).
  set (s2 := fold_left push_acceptor pushes s1) in *.
  unfold arm_step in Ea. assert (Hc2 : d_control s2 = c :: r) by congruence. rewrite Hc2 in Ea.
  exists (upd_control s2 r), e1, e3.
  split; [apply (d_inv_same_tables s2); dsimpl; auto; apply Hinv2|].
  split; [unfold keeps, keeps_nc in *; dsimpl; intuition congruence|].
  dsimpl. split; [reflexivity|]. split; [rewrite P1; exact B4|]. auto.
Qed.

Lemma pending_same_connecting s s' a : d_connecting s' = d_connecting s -> pending s' a = pending s a.
Proof. intro H. unfold pending. rewrite (slots_of_same_connecting _ _ _ H). reflexivity. Qed.

Lemma all_accepted_no_err e : all_accepted e -> forall t, ~ In (EvConnectErr t) e.
Proof. unfold all_accepted. rewrite Forall_forall. intros H t Hin. exact (H _ Hin). Qed.

(* ------------------------------------------------------------------ connect: not starved *)
(* A connect request to an address with fewer than four pending connects is never refused for
   lack of a slot: either the table limit refuses it (TooManyActiveConnections), or the SYN goes
   out and the request holds a slot afterwards. *)
Theorem connect_not_starved s pushes addr token r s' e :
  d_inv s -> d_control s = CtlConnect addr token :: r ->
  (length (pending s addr) < 4)%nat ->
  dstep s (DoRunOnce pushes (ArmControl SynSent)) = (s', e) ->
  (In (EvConnectErr token) e /\ d_results s' = d_results s ++ [(token, CrTooMany)] /\
   forall a, pending s' a = pending s a) \/
  (no_connect_err e /\ d_results s' = d_results s /\
   exists cid q, In (EvSentSyn addr cid q) e /\
     In {| cn_token := token; cn_seq := q |} (pending s' addr) /\
     length (pending s' addr) = S (length (pending s addr)) /\
     forall a, a <> addr -> pending s' a = pending s a).
Proof.
  intros Hinv Hctl Hlt H.
  destruct (run_ctl_decomp _ _ _ _ _ _ _ Hinv Hctl H) as (s2 & e1 & e3 & Hinv2 & K & _ & _ & Hacc & -> & Hoc).
  destruct K as (_ & _ & K3 & K4 & _).
  pose proof (on_control_connect_spec _ _ _ _ _ _ Hinv2 Hoc) as Hspec. cbv zeta in Hspec.
  destruct Hspec as (_ & Hspec).
  destruct (streams_full s2).
  - left. destruct Hspec as (-> & R & C & _). split; [apply in_or_app; right; left; reflexivity|].
    split; [rewrite R, K4; reflexivity|]. intro a. rewrite <- (pending_same_connecting s s2 a K3).
    apply pending_same_connecting. exact C.
  - right. destruct Hspec as (Hoth & Hspec).
    rewrite (pending_same_connecting s s2 addr K3) in Hspec.
    destruct (Nat.ltb_spec (length (pending s addr)) 4) as [_|Hge]; [|lia].
    destruct Hspec as (-> & R & _ & l1 & l2 & E1 & E2 & _).
    split.
    { intros t Ht. apply in_app_or in Ht. destruct Ht as [Ht|[Ht|[]]]; [|discriminate].
      exact (all_accepted_no_err _ Hacc _ Ht). }
    split; [rewrite R, K4; reflexivity|].
    exists (next_free_conn_id (S (length (d_streams s2))) s2 addr (d_next_conn_id s2)), (peek_random s2).
    split; [apply in_or_app; right; left; reflexivity|].
    assert (Hp : pending s addr = somes l1 ++ somes l2).
    { unfold pending. rewrite <- (slots_of_same_connecting s s2 addr K3), E1, somes_app. reflexivity. }
    assert (Hp' : pending s' addr = somes l1 ++ {| cn_token := token; cn_seq := peek_random s2 |} :: somes l2).
    { unfold pending. rewrite E2, somes_app. reflexivity. }
    split; [rewrite Hp'; apply in_or_app; right; left; reflexivity|].
    split; [rewrite Hp, Hp', !app_length; cbn [length]; lia|].
    intros a Ha. unfold pending. rewrite (Hoth a Ha). apply (f_equal somes).
    apply slots_of_same_connecting. exact K3.
Qed.

(* conversely the slot limit is the only other reason: with four pending connects to the
   address the SYN still goes out but the requester is dropped (it sees DispatcherDead) *)
Theorem connect_refused_when_four_pending s pushes addr token r s' e :
  d_inv s -> d_control s = CtlConnect addr token :: r ->
  length (pending s addr) = 4%nat ->
  dstep s (DoRunOnce pushes (ArmControl SynSent)) = (s', e) ->
  In (EvConnectErr token) e /\ (forall a, pending s' a = pending s a) /\
  (d_results s' = d_results s ++ [(token, CrTooMany)] \/ d_results s' = d_results s ++ [(token, CrDead)]).
Proof.
  intros Hinv Hctl Hfour H.
  destruct (run_ctl_decomp _ _ _ _ _ _ _ Hinv Hctl H) as (s2 & e1 & e3 & Hinv2 & K & _ & _ & Hacc & -> & Hoc).
  destruct K as (_ & _ & K3 & K4 & _).
  pose proof (on_control_connect_spec _ _ _ _ _ _ Hinv2 Hoc) as Hspec. cbv zeta in Hspec.
  destruct Hspec as (_ & Hspec).
  destruct (streams_full s2).
  - destruct Hspec as (-> & R & C & _). split; [apply in_or_app; right; left; reflexivity|].
    split; [|left; rewrite R, K4; reflexivity].
    intro a. rewrite <- (pending_same_connecting s s2 a K3). apply pending_same_connecting. exact C.
  - destruct Hspec as (Hoth & Hspec).
    rewrite (pending_same_connecting s s2 addr K3), Hfour in Hspec. cbn [Nat.ltb Nat.leb] in Hspec.
    destruct Hspec as (-> & R & _ & Hsame).
    split; [apply in_or_app; right; right; left; reflexivity|].
    split; [|right; rewrite R, K4; reflexivity].
    intro a. unfold pending. destruct (Z.eq_dec a addr) as [->|Hne].
    + rewrite Hsame. apply (f_equal somes). apply slots_of_same_connecting. exact K3.
    + rewrite (Hoth a Hne). apply (f_equal somes). apply slots_of_same_connecting. exact K3.
Qed.

(* ------------------------------------------------------------------ an abandoned connect releases its slot *)
(* Handling ConnectDropped(addr, token): the first pending connect to addr with this token
   leaves; nothing else changes. *)
Theorem connect_dropped_frees_slot s pushes send addr token r s' e :
  d_inv s -> d_control s = CtlConnectDropped addr token :: r ->
  dstep s (DoRunOnce pushes (ArmControl send)) = (s', e) ->
  no_connect_err e /\ d_results s' = d_results s /\
  (forall a, a <> addr -> pending s' a = pending s a) /\
  ((pending s' addr = pending s addr /\ forall x, In x (pending s addr) -> cn_token x <> token) \/
   exists c m1 m2, pending s addr = m1 ++ c :: m2 /\ cn_token c = token /\
                   (forall x, In x m1 -> cn_token x <> token) /\ pending s' addr = m1 ++ m2).
Proof.
  intros Hinv Hctl H.
  destruct (run_ctl_decomp _ _ _ _ _ _ _ Hinv Hctl H) as (s2 & e1 & e3 & Hinv2 & K & _ & _ & Hacc & -> & Hoc).
  destruct K as (_ & _ & K3 & K4 & _).
  destruct (on_control_dropped_spec _ _ _ _ _ _ Hinv2 Hoc) as (-> & _ & R & _ & _ & Hoth & Hpop).
  rewrite app_nil_r. split; [intros t Ht; exact (all_accepted_no_err _ Hacc _ Ht)|].
  split; [congruence|]. split.
  { intros a Ha. unfold pending. rewrite (Hoth a Ha). apply (f_equal somes).
    apply slots_of_same_connecting. exact K3. }
  rewrite (slots_of_same_connecting s s2 addr K3) in Hpop.
  destruct (slots_pop _ (slots_of s addr)) as [[c sl']|] eqn:Ep.
  - right. destruct (slots_pop_somes _ _ _ _ Ep) as (m1 & m2 & Q1 & Q2 & Q3 & Q4 & _).
    exists c, m1, m2. split; [exact Q1|]. split; [apply Z.eqb_eq; exact Q3|].
    split; [intros x Hx; apply Z.eqb_neq; apply Q4; exact Hx|]. unfold pending. rewrite Hpop. exact Q2.
  - left. subst s'. split; [apply pending_same_connecting; exact K3|].
    intros x Hx. apply Z.eqb_neq. apply (proj1 (slots_pop_none _ _) Ep). exact Hx.
Qed.

(* so: once the ConnectDropped of a pending connect has been handled, a slot of that address is
   free and the next connect to it is not refused for lack of a slot *)
Corollary connect_after_drop_not_starved s pushes send addr token r s1 e1 pushes' token' r' s2 e2 :
  d_inv s -> d_control s = CtlConnectDropped addr token :: r ->
  (exists c, In c (pending s addr) /\ cn_token c = token) ->
  dstep s (DoRunOnce pushes (ArmControl send)) = (s1, e1) ->
  d_control s1 = CtlConnect addr token' :: r' ->
  dstep s1 (DoRunOnce pushes' (ArmControl SynSent)) = (s2, e2) ->
  d_results s2 = d_results s1 ++ [(token', CrTooMany)] \/
  (no_connect_err e2 /\ exists q, In {| cn_token := token'; cn_seq := q |} (pending s2 addr)).
Proof.
  intros Hinv Hctl (c & Hc & Ht) H1 Hctl1 H2.
  destruct (dstep_inv _ _ _ _ Hinv H1) as [Hinv1 _].
  destruct (connect_dropped_frees_slot _ _ _ _ _ _ _ _ Hinv Hctl H1) as (_ & _ & _ & Hd).
  assert (Hlt : (length (pending s1 addr) < 4)%nat).
  { pose proof (pending_le_4 s addr Hinv) as H4.
    destruct Hd as [[_ Hno]|(c0 & m1 & m2 & Q1 & _ & _ & Q2)]; [destruct (Hno c Hc Ht)|].
    rewrite Q1 in H4. rewrite Q2. rewrite app_length in *. cbn [length] in H4. lia. }
  destruct (connect_not_starved _ _ _ _ _ _ _ Hinv1 Hctl1 Hlt H2) as [(_ & R & _)|(A & _ & cid & q & _ & B & _)].
  - left. exact R.
  - right. split; [exact A|]. exists q. exact B.
Qed.

(* ------------------------------------------------------------------ the control channel is first-in first-out *)
Definition is_ctl_arm (o : dop) : bool :=
  match o with DoRunOnce _ (ArmControl _) => true | _ => false end.
Definition ctl_arms (ops : list dop) : nat := length (filter is_ctl_arm ops).

Lemma on_control_keeps_control s c send s' e : on_control s c send = (s', e) -> d_control s' = d_control s.
Proof.
  unfold on_control. destruct c as [a0 t0|a0 t0|k1].
  - destruct (streams_full s); [intro H; injection H as <- _; reflexivity|].
    destruct (next_random _) as [s2 q] eqn:Er. destruct (next_random_same _ _ _ Er) as (_ & _ & _ & _ & _ & _ & R7).
    dsimpl. destruct send; [destruct (slots_insert _ _)| |]; intro H; injection H as <- _; dsimpl; exact R7.
  - destruct (get_slots s a0); [destruct (slots_pop _ _) as [[? ?]|]|]; intro H; injection H as <- _; reflexivity.
  - destruct (find_stream s k1) as [en|]; [destruct (se_alive en)|]; intro H; injection H as <- _; reflexivity.
Qed.

Lemma on_maybe_connect_ack_control s addr m s' e :
  on_maybe_connect_ack s addr m = (s', e) -> d_control s' = d_control s.
Proof.
  unfold on_maybe_connect_ack. destruct (streams_full s); [intro H; injection H as <- _; auto|].
  destruct (get_slots s addr); [|intro H; injection H as <- _; auto].
  destruct (slots_pop _ _) as [[c sl']|]; [|intro H; injection H as <- _; auto].
  destruct (mem_z _ _); intro H; injection H as <- _; auto.
Qed.

Lemma on_recv_control s addr m s' e : on_recv s addr m = (s', e) -> d_control s' = d_control s.
Proof.
  unfold on_recv. destruct (find_stream s _) as [en|].
  - destruct (se_alive en); intro H; injection H as <- _; reflexivity.
  - destruct (dm_type m); try (intro H; injection H as <- _; reflexivity).
    + apply on_maybe_connect_ack_control.
    + intro H. apply (on_syn_keeps _ _ _ _ H).
Qed.

(* a step that is not the control arm only appends to the channel *)
Lemma dstep_control_other s o s' e :
  d_inv s -> is_ctl_arm o = false -> dstep s o = (s', e) -> exists suf, d_control s' = d_control s ++ suf.
Proof.
  intros Hinv Hno H.
  assert (Hsame : d_control s' = d_control s -> exists suf, d_control s' = d_control s ++ suf)
    by (intros ->; exists []; rewrite app_nil_r; reflexivity).
  destruct o as [pushes ar|id|id|id|addr token|addr token|addr token|k1].
  - apply Hsame.
    destruct (run_once_decomp _ _ _ _ _ Hinv H) as (s1 & e1 & e3 & Ec & Ea & -> & Hinv1 & Hacc & Hfr & Hinv2 & Hsm).
    destruct Hfr as [_ _ B3 _ _]. destruct Hsm as (_ & _ & _ & _ & P5 & _).
    set (s2 := fold_left push_acceptor pushes s1) in *. rewrite <- B3, <- P5.
    unfold arm_step in Ea. destruct ar as [|send|addr [m|]]; [| discriminate Hno | |].
    + destruct (d_next_acc s2); [injection Ea as <- _; reflexivity|].
      destruct (d_chan s2); injection Ea as <- _; reflexivity.
    + apply (on_recv_control _ _ _ _ _ Ea).
    + injection Ea as <- _. reflexivity.
  - cbn [dstep] in H. injection H as <- _. apply Hsame. unfold push_acceptor. destruct (_ <? _); reflexivity.
  - cbn [dstep] in H. destruct (find _ _) as [[x [k sid]]|]; injection H as <- _; dsimpl; [eauto|apply Hsame; reflexivity].
  - cbn [dstep] in H. injection H as <- _. apply Hsame. reflexivity.
  - cbn [dstep] in H. injection H as <- _. dsimpl. eauto.
  - cbn [dstep] in H. injection H as <- _. dsimpl. eauto.
  - cbn [dstep] in H. injection H as <- _. destruct (existsb _ _); dsimpl; [eauto|apply Hsame; reflexivity].
  - cbn [dstep] in H. injection H as <- _. dsimpl. eauto.
Qed.

(* the control arm takes exactly the head *)
Lemma dstep_control_head s pushes send c r s' e :
  d_inv s -> d_control s = c :: r -> dstep s (DoRunOnce pushes (ArmControl send)) = (s', e) ->
  d_control s' = r.
Proof.
  intros Hinv Hctl H.
  destruct (run_ctl_decomp _ _ _ _ _ _ _ Hinv Hctl H) as (s2 & e1 & e3 & _ & _ & Hr & _ & _ & _ & Hoc).
  rewrite (on_control_keeps_control _ _ _ _ _ Hoc). exact Hr.
Qed.

(* FAIRNESS => SERVICE, over all op lists: the message at position n of the control channel is
   the head of the channel when the (n+1)-th control arm of the run fires, whatever else the
   dispatcher and the other tasks do in between *)
Theorem control_fifo : forall ops s n c,
  d_inv s -> nth_error (d_control s) n = Some c -> (n < ctl_arms ops)%nat ->
  exists pre pushes send post r,
    ops = pre ++ DoRunOnce pushes (ArmControl send) :: post /\ ctl_arms pre = n /\
    d_control (drun s pre) = c :: r.
Proof.
  induction ops as [|o rest IH]; intros s n c Hinv Hn Hlt; [cbn in Hlt; lia|].
  destruct (dstep s o) as [s1 e] eqn:E. destruct (dstep_inv _ _ _ _ Hinv E) as [Hinv1 _].
  destruct (is_ctl_arm o) eqn:Eo.
  - destruct o as [pushes [|send|addr om]|id|id|id|addr token|addr token|addr token|k1]; try discriminate Eo.
    destruct (d_control s) as [|c0 r0] eqn:Ectl; [destruct n; discriminate Hn|].
    destruct n as [|n'].
    + cbn [nth_error] in Hn. injection Hn as ->.
      exists [], pushes, send, rest, r0. split; [reflexivity|]. split; [reflexivity|]. exact Ectl.
    + cbn [nth_error] in Hn. pose proof (dstep_control_head _ _ _ _ _ _ _ Hinv Ectl E) as Hc1.
      unfold ctl_arms in Hlt. cbn [filter is_ctl_arm length] in Hlt.
      destruct (IH s1 n' c Hinv1 ltac:(rewrite Hc1; exact Hn) ltac:(unfold ctl_arms; lia))
        as (pre & pushes' & send' & post & r & -> & Hpre & Hd).
      exists (DoRunOnce pushes (ArmControl send) :: pre), pushes', send', post, r.
      split; [reflexivity|]. split; [unfold ctl_arms in *; cbn [filter is_ctl_arm length]; lia|].
      cbn [drun]. rewrite E. exact Hd.
  - destruct (dstep_control_other _ _ _ _ Hinv Eo E) as [suf Hsuf].
    assert (Hn1 : nth_error (d_control s1) n = Some c).
    { rewrite Hsuf, nth_error_app1; [exact Hn|]. apply nth_error_Some. congruence. }
    assert (Hlt1 : (n < ctl_arms rest)%nat) by (unfold ctl_arms in *; cbn [filter] in Hlt; rewrite Eo in Hlt; exact Hlt).
    destruct (IH s1 n c Hinv1 Hn1 Hlt1) as (pre & pushes' & send' & post & r & -> & Hpre & Hd).
    exists (o :: pre), pushes', send', post, r.
    split; [reflexivity|]. split; [unfold ctl_arms in *; cbn [filter]; rewrite Eo; exact Hpre|].
    cbn [drun]. rewrite E. exact Hd.
Qed.

(* an abandoned connect releases what it reserved, eventually: after connect()'s future is
   dropped, in EVERY continuation in which the control arm fires more often than there were
   messages queued before it, there is a step that handles its ConnectDropped, and that step
   removes the first pending connect with this token (if there still is one) *)
Theorem dropped_connect_eventually_released s addr token ops :
  d_inv s ->
  let s0 := fst (dstep s (DoDropConnect addr token)) in
  (length (d_control s) < ctl_arms ops)%nat ->
  exists pre pushes send post,
    ops = pre ++ DoRunOnce pushes (ArmControl send) :: post /\
    let sb := drun s0 pre in
    let sa := fst (dstep sb (DoRunOnce pushes (ArmControl send))) in
    (forall a, a <> addr -> pending sa a = pending sb a) /\
    ((pending sa addr = pending sb addr /\ forall x, In x (pending sb addr) -> cn_token x <> token) \/
     exists c m1 m2, pending sb addr = m1 ++ c :: m2 /\ cn_token c = token /\
                     (forall x, In x m1 -> cn_token x <> token) /\ pending sa addr = m1 ++ m2).
Proof.
  intros Hinv s0 Hlt.
  destruct (dstep s (DoDropConnect addr token)) as [s0' e0] eqn:E0. cbn [fst] in s0. subst s0.
  destruct (dstep_inv _ _ _ _ Hinv E0) as [Hinv0 _].
  assert (Hc0 : d_control s0' = d_control s ++ [CtlConnectDropped addr token]).
  { cbn [dstep] in E0. injection E0 as <- _. reflexivity. }
  assert (Hn : nth_error (d_control s0') (length (d_control s)) = Some (CtlConnectDropped addr token)).
  { rewrite Hc0, nth_error_app2 by lia. rewrite Nat.sub_diag. reflexivity. }
  destruct (control_fifo ops s0' _ _ Hinv0 Hn Hlt) as (pre & pushes & send & post & r & -> & _ & Hd).
  exists pre, pushes, send, post. split; [reflexivity|]. cbv zeta.
  destruct (drun_inv pre s0' Hinv0) as [Hinvb _].
  destruct (dstep (drun s0' pre) (DoRunOnce pushes (ArmControl send))) as [sa e] eqn:E. cbn [fst].
  destruct (connect_dropped_frees_slot _ _ _ _ _ _ _ _ Hinvb Hd E) as (_ & _ & A & B). auto.
Qed.

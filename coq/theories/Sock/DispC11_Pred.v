(* C11 at the socket-dispatcher tier: the datagrams the dispatcher itself emits — the ST_SYN of a
   connect() (socket.rs on_control, ConnectRequest) and the ST_RESET that answers a SYN it cannot
   queue (socket.rs try_send_rst).  The dispatcher model (Sock/Dispatcher.v) records them as events
   EvSentSyn addr conn seq / EvSentRst addr conn ack; the header values below are the UtpHeader
   literals of the Rust code with those fields filled in.  Model only (no proofs). *)
From Utp Require Import Base.Prelude Wire.SeqNr Wire.Header Sock.Dispatcher.

(* on_control: htype ST_SYN, connection_id conn_id, timestamp (now - created) as u32,
   timestamp_difference 0, wnd_size 0, seq_nr random_u16, ack_nr 0, no extensions *)
Definition syn_header (conn seq ts : Z) : header :=
  {| h_type := ST_SYN; h_conn := conn; h_ts := ts; h_tsdiff := 0; h_wnd := 0; h_seq := seq; h_ack := 0;
     h_ext := no_ext |}.

(* try_send_rst: htype ST_RESET, connection_id syn.connection_id, seq_nr 0, ack_nr syn.seq_nr,
   ..Default::default() *)
Definition rst_header (conn ack : Z) : header :=
  {| h_type := ST_RESET; h_conn := conn; h_ts := 0; h_tsdiff := 0; h_wnd := 0; h_seq := 0; h_ack := ack;
     h_ext := no_ext |}.

(* one event: the datagram it stands for is a header `serialize` accepts (for every u32 timestamp) *)
Definition c11_devent_ok (e : devent) : bool :=
  match e with
  | EvSentSyn _ conn seq => hdr_okb (syn_header conn seq 0) && hdr_okb (syn_header conn seq 4294967295)
  | EvSentRst _ conn ack => hdr_okb (rst_header conn ack)
  | _ => true
  end.

(* one dispatcher step: everything it emitted *)
Definition c11_dstep_ok (e : list devent) : bool := forallb c11_devent_ok e.

(* what the environment may feed: the fields of a parsed datagram and the values of random_u16 are u16 *)
Definition dmsg_okb (m : dmsg) : bool := u16b (dm_conn m) && u16b (dm_seq m) && u16b (dm_ack m).
Definition dop_okb (o : dop) : bool :=
  match o with
  | DoRunOnce _ (ArmRecv _ (Some m)) => dmsg_okb m
  | _ => true
  end.
Definition randoms_okb (l : list Z) : bool := forallb u16b l.

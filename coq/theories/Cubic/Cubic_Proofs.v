(* Proofs about the Cubic model (Cubic.v) over Flocq binary64.
   Library axioms (Coq Reals / Flocq): ClassicalDedekindReals.sig_forall_dec, sig_not_dec,
   FunctionalExtensionality.functional_extensionality_dep, Classical_Prop.classic.
   cbrt / powf3 are Section variables without hypotheses wherever they occur. *)
From Coq Require Import Reals Lra Lia ZArith Psatz.
From Coq Require Import Floats.SpecFloat.
From Flocq Require Import Core BinarySingleNaN Relative.
From Utp Require Import Base.Prelude Cubic.F64 Cubic.Cubic.
Open Scope R_scope.

Definition rnd (x : R) : R := round radix2 (SpecFloat.fexp 53 1024) (round_mode mode_NE) x.
Notation fexp64 := (FLT_exp (-1074) 53).

Lemma rnd_FLT : forall x, rnd x = round radix2 fexp64 ZnearestE x.
Proof. reflexivity. Qed.

Global Instance f64_prec : Prec_gt_0 53 := f64_prec_gt_0.

Lemma rnd_le : forall x y, x <= y -> rnd x <= rnd y.
Proof. intros x y H. rewrite !rnd_FLT. apply round_le; auto with typeclass_instances. Qed.

Lemma rnd_generic : forall x, generic_format radix2 fexp64 x -> rnd x = x.
Proof. intros x H. rewrite rnd_FLT. apply round_generic; auto with typeclass_instances. Qed.

Lemma rnd_0 : rnd 0 = 0.
Proof. rewrite rnd_FLT. apply round_0; auto with typeclass_instances. Qed.

Lemma fmt_Z : forall z, (Z.abs z <= 2 ^ 53)%Z -> generic_format radix2 fexp64 (IZR z).
Proof.
  intros z Hz.
  destruct (Z.eq_dec (Z.abs z) (2 ^ 53)) as [E|NE].
  - assert (Hp : generic_format radix2 fexp64 (bpow radix2 53)).
    { apply generic_format_FLT_bpow; [auto with typeclass_instances | lia]. }
    destruct (Z.abs_eq_or_opp z) as [A|A]; rewrite A in E.
    + rewrite E. exact Hp.
    + assert (z = - 2 ^ 53)%Z as -> by lia. rewrite opp_IZR. apply generic_format_opp. exact Hp.
  - apply generic_format_FLT. apply (FLT_spec radix2 (-1074) 53 (IZR z) (Float radix2 z 0)).
    + unfold F2R. cbn [Fnum Fexp bpow]. lra.
    + cbn [Fnum]. change (Zpower radix2 53) with (2 ^ 53)%Z. lia.
    + cbn [Fexp]. lia.
Qed.

Lemma fmt_B2R : forall x : f64, generic_format radix2 fexp64 (B2R x).
Proof. intros x. apply (generic_format_B2R 53 1024). Qed.

Lemma rnd_abs_le : forall x y, generic_format radix2 fexp64 y -> Rabs x <= y -> Rabs (rnd x) <= y.
Proof. intros x y Hy H. rewrite rnd_FLT. apply abs_round_le_generic; auto with typeclass_instances. Qed.

Lemma bpow_1000_lt : bpow radix2 1000 < bpow radix2 1024.
Proof. apply bpow_lt. lia. Qed.

Lemma no_overflow : forall x, Rabs x <= bpow radix2 1000 ->
  Rlt_bool (Rabs (rnd x)) (bpow radix2 1024) = true.
Proof.
  intros x H. apply Rlt_bool_true. apply Rle_lt_trans with (bpow radix2 1000); [|exact bpow_1000_lt].
  apply rnd_abs_le; [|exact H]. apply generic_format_FLT_bpow; [auto with typeclass_instances | lia].
Qed.

Lemma f64_of_Z_correct : forall z, (0 <= z <= 2 ^ 53)%Z ->
  is_finite (f64_of_Z z) = true /\ B2R (f64_of_Z z) = IZR z.
Proof.
  intros z Hz. unfold f64_of_Z.
  pose proof (binary_normalize_correct 53 1024 f64_prec_gt_0 f64_prec_lt_emax mode_NE z 0 false) as H.
  cbv zeta in H. fold (rnd (F2R (Float radix2 z 0))) in H.
  assert (E : F2R (Float radix2 z 0) = IZR z) by (unfold F2R; cbn [Fnum Fexp bpow]; lra).
  rewrite E in H. rewrite (rnd_generic (IZR z)) in H by (apply fmt_Z; lia).
  rewrite Rlt_bool_true in H.
  - destruct H as (H1 & H2 & _). split; assumption.
  - rewrite Rabs_pos_eq by (apply IZR_le; lia).
    apply Rle_lt_trans with (bpow radix2 53); [|apply bpow_lt; lia].
    change (bpow radix2 53) with (IZR (2 ^ 53)). apply IZR_le. lia.
Qed.

Lemma fmul_correct : forall x y : f64, is_finite x = true -> is_finite y = true ->
  Rabs (B2R x * B2R y) <= bpow radix2 1000 ->
  is_finite (fmul x y) = true /\ B2R (fmul x y) = rnd (B2R x * B2R y).
Proof.
  intros x y Fx Fy Hb. unfold fmul.
  pose proof (Bmult_correct 53 1024 f64_prec_gt_0 f64_prec_lt_emax mode_NE x y) as H.
  fold (rnd (B2R x * B2R y)) in H. rewrite (no_overflow _ Hb) in H.
  destruct H as (H1 & H2 & _). rewrite Fx, Fy in H2. split; assumption.
Qed.

Lemma fdiv_correct : forall x y : f64, is_finite x = true -> B2R y <> 0 ->
  Rabs (B2R x / B2R y) <= bpow radix2 1000 ->
  is_finite (fdiv x y) = true /\ B2R (fdiv x y) = rnd (B2R x / B2R y).
Proof.
  intros x y Fx Hy Hb. unfold fdiv.
  pose proof (Bdiv_correct 53 1024 f64_prec_gt_0 f64_prec_lt_emax mode_NE x y Hy) as H.
  fold (rnd (B2R x / B2R y)) in H. rewrite (no_overflow _ Hb) in H.
  destruct H as (H1 & H2 & _). rewrite Fx in H2. split; assumption.
Qed.

Lemma rnd_rel : forall x, bpow radix2 (-1022) <= Rabs x ->
  exists eps, Rabs eps <= bpow radix2 (-53) /\ rnd x = x * (1 + eps).
Proof.
  intros x Hx.
  destruct (relative_error_N_FLT_ex radix2 (-1074) 53 f64_prec_gt_0 (fun n => negb (Z.even n)) x Hx)
    as (eps & He & Hr).
  exists eps. split; [|exact Hr].
  replace (bpow radix2 (-53)) with (/ 2 * bpow radix2 (- (53) + 1)); [exact He|].
  change (- (53) + 1)%Z with (-53 + 1)%Z. rewrite bpow_plus. change (bpow radix2 1) with 2. field.
Qed.

Lemma usize_of_finite : forall x : f64, is_finite x = true ->
  usize_of_f64 x = Z.min USIZE_MAX (Z.max 0 (Ztrunc (B2R x))).
Proof.
  intros x Fx.
  assert (T : IZR (Btrunc x) = IZR (Ztrunc (B2R x))).
  { rewrite (Btrunc_correct 53 1024 f64_prec_lt_emax). apply round_FIX_IZR. }
  apply eq_IZR in T.
  destruct x as [s|s| |s m e B]; try discriminate Fx.
  - cbn [usize_of_f64 B2R]. rewrite Ztrunc_IZR. reflexivity.
  - unfold usize_of_f64. rewrite T. reflexivity.
Qed.
Lemma f64_2_correct : is_finite f64_2 = true /\ B2R f64_2 = 2.
Proof. apply (f64_of_Z_correct 2). lia. Qed.
Lemma f64_1_correct : is_finite f64_1 = true /\ B2R f64_1 = 1.
Proof. apply (f64_of_Z_correct 1). lia. Qed.

Lemma Bltb_finite : forall a b : f64, is_finite a = true -> is_finite b = true ->
  Bltb a b = Rlt_bool (B2R a) (B2R b).
Proof. intros. apply (Bltb_correct 53 1024); assumption. Qed.

Lemma rust_max_finite : forall a b : f64, is_finite a = true -> is_finite b = true ->
  is_finite (rust_max a b) = true /\ B2R (rust_max a b) = Rmax (B2R a) (B2R b).
Proof.
  intros a b Fa Fb.
  assert (E : rust_max a b = if Bltb a b then b else a).
  { destruct a; try discriminate Fa; destruct b; try discriminate Fb; reflexivity. }
  rewrite E, (Bltb_finite a b Fa Fb).
  destruct (Rlt_bool_spec (B2R a) (B2R b)) as [H|H].
  - split; [exact Fb|]. rewrite Rmax_right; lra.
  - split; [exact Fa|]. rewrite Rmax_left; lra.
Qed.

Lemma rust_min_finite : forall a b : f64, is_finite a = true -> is_finite b = true ->
  is_finite (rust_min a b) = true /\ B2R (rust_min a b) = Rmin (B2R a) (B2R b).
Proof.
  intros a b Fa Fb.
  assert (E : rust_min a b = if Bltb b a then b else a).
  { destruct a; try discriminate Fa; destruct b; try discriminate Fb; reflexivity. }
  rewrite E, (Bltb_finite b a Fb Fa).
  destruct (Rlt_bool_spec (B2R b) (B2R a)) as [H|H].
  - split; [exact Fb|]. rewrite Rmin_right; lra.
  - split; [exact Fa|]. rewrite Rmin_left; lra.
Qed.

Lemma rust_max_nan_l : forall b : f64, rust_max B754_nan b = b.
Proof. intros b. destruct b; reflexivity. Qed.
Lemma rust_max_pinf_l : forall b : f64, is_finite b = true -> rust_max (B754_infinity false) b = B754_infinity false.
Proof. intros b Fb. destruct b; try discriminate Fb; reflexivity. Qed.
Lemma rust_max_ninf_l : forall b : f64, is_finite b = true -> rust_max (B754_infinity true) b = b.
Proof. intros b Fb. destruct b; try discriminate Fb; reflexivity. Qed.
Lemma rust_min_pinf_l : forall b : f64, is_finite b = true -> rust_min (B754_infinity false) b = b.
Proof. intros b Fb. destruct b; try discriminate Fb; reflexivity. Qed.

(* The clamp of window() in MSS units, as a real number, for EVERY float cwnd. *)
Definition clampR (c : f64) (rho : R) : R :=
  match c with
  | B754_nan => Rmin 2 rho
  | B754_infinity false => rho
  | B754_infinity true => Rmin 2 rho
  | _ => Rmin (Rmax (B2R c) 2) rho
  end.

Lemma eff_exact : forall c rw : f64, is_finite rw = true ->
  is_finite (rust_min (rust_max c f64_2) rw) = true /\
  B2R (rust_min (rust_max c f64_2) rw) = clampR c (B2R rw).
Proof.
  intros c rw Frw. destruct f64_2_correct as [F2 V2].
  destruct c as [s|[|]| |s m e B].
  - destruct (rust_max_finite (B754_zero s) f64_2 eq_refl F2) as [F V].
    destruct (rust_min_finite _ rw F Frw) as [F' V']. split; [exact F'|].
    rewrite V', V, V2. reflexivity.
  - rewrite (rust_max_ninf_l _ F2). destruct (rust_min_finite f64_2 rw F2 Frw) as [F' V'].
    split; [exact F'|]. rewrite V', V2. reflexivity.
  - rewrite (rust_max_pinf_l _ F2), (rust_min_pinf_l _ Frw). split; [exact Frw|reflexivity].
  - rewrite rust_max_nan_l. destruct (rust_min_finite f64_2 rw F2 Frw) as [F' V'].
    split; [exact F'|]. rewrite V', V2. reflexivity.
  - destruct (rust_max_finite (B754_finite s m e B) f64_2 eq_refl F2) as [F V].
    destruct (rust_min_finite _ rw F Frw) as [F' V']. split; [exact F'|].
    rewrite V', V, V2. reflexivity.
Qed.

Lemma clampR_bounds : forall c rho, 0 <= rho -> Rmin 2 rho <= clampR c rho <= rho.
Proof.
  intros c rho Hr. unfold clampR.
  destruct c as [s|[|]| |s m e B]; try generalize (B2R (B754_finite s m e B)); try intros x;
    cbn [B2R]; unfold Rmin, Rmax; repeat destruct (Rle_dec _ _); lra.
Qed.

Definition mss_ok (m : Z) : Prop := (1 <= m < 65536)%Z.
Definition rwnd_ok (rw : f64) : Prop := is_finite rw = true /\ 0 <= B2R rw <= 4294967296.

Lemma pow48_fmt : generic_format radix2 fexp64 281474976710656.
Proof. apply (fmt_Z 281474976710656). lia. Qed.

Lemma mss_correct : forall m, mss_ok m -> is_finite (f64_of_Z m) = true /\ B2R (f64_of_Z m) = IZR m.
Proof. intros m Hm. apply f64_of_Z_correct. unfold mss_ok in Hm. lia. Qed.

Lemma le_bpow_1000 : forall x, x <= 18446744073709551616 -> x <= bpow radix2 1000.
Proof.
  intros x H. apply Rle_trans with (bpow radix2 64); [|apply bpow_le; lia].
  change (bpow radix2 64) with (IZR (2 ^ 64)). exact H.
Qed.

Lemma window_val : forall s, mss_ok (mss s) -> rwnd_ok (rwnd s) ->
  cubic_window s = Ztrunc (rnd (clampR (cwnd s) (B2R (rwnd s)) * IZR (mss s))) /\
  0 <= rnd (clampR (cwnd s) (B2R (rwnd s)) * IZR (mss s)) <= 281474976710656.
Proof.
  intros s Hm [Frw Hrw]. unfold cubic_window, cubic_eff.
  destruct (eff_exact (cwnd s) (rwnd s) Frw) as [Fe Ve].
  destruct (mss_correct _ Hm) as [Fm Vm].
  pose proof (clampR_bounds (cwnd s) (B2R (rwnd s)) (proj1 Hrw)) as Hc.
  set (v := clampR (cwnd s) (B2R (rwnd s))) in *.
  assert (Hm' : 1 <= IZR (mss s) <= 65536).
  { unfold mss_ok in Hm. split; apply IZR_le; lia. }
  assert (Hv0 : 0 <= v).
  { apply Rle_trans with (Rmin 2 (B2R (rwnd s))); [|apply Hc]. apply Rmin_glb; lra. }
  assert (Hp : 0 <= v * IZR (mss s) <= 281474976710656) by nra.
  destruct (fmul_correct _ _ Fe Fm) as [Fp Vp].
  { rewrite Ve, Vm. fold v. rewrite Rabs_pos_eq by lra. apply le_bpow_1000. lra. }
  rewrite Ve, Vm in Vp. fold v in Vp.
  assert (Hr : 0 <= rnd (v * IZR (mss s)) <= 281474976710656).
  { split.
    - rewrite <- rnd_0. apply rnd_le. lra.
    - rewrite <- (rnd_generic _ pow48_fmt). apply rnd_le. lra. }
  split; [|exact Hr].
  rewrite (usize_of_finite _ Fp), Vp.
  assert (0 <= Ztrunc (rnd (v * IZR (mss s))) <= 281474976710656)%Z.
  { split.
    - rewrite <- (Ztrunc_IZR 0). apply Ztrunc_le. lra.
    - rewrite <- (Ztrunc_IZR 281474976710656). apply Ztrunc_le. lra. }
  unfold USIZE_MAX, M64. lia.
Qed.
Lemma eps_val : bpow radix2 (-53) = / 9007199254740992.
Proof. reflexivity. Qed.

Lemma tiny_le : forall x, / 65536 <= x -> bpow radix2 (-1022) <= Rabs x.
Proof.
  intros x H. rewrite Rabs_pos_eq by lra.
  apply Rle_trans with (bpow radix2 (-16)); [apply bpow_le; lia|].
  replace (bpow radix2 (-16)) with (/ 65536) by reflexivity. exact H.
Qed.

Lemma pow32_fmt : generic_format radix2 fexp64 4294967296.
Proof. apply (fmt_Z 4294967296). lia. Qed.

Lemma set_rw_ok : forall m win, mss_ok m -> (0 <= win < 2 ^ 32)%Z ->
  rwnd_ok (fdiv (f64_of_Z win) (f64_of_Z m)) /\
  B2R (fdiv (f64_of_Z win) (f64_of_Z m)) = rnd (IZR win / IZR m).
Proof.
  intros m win Hm Hw.
  destruct (mss_correct _ Hm) as [Fm Vm].
  destruct (f64_of_Z_correct win) as [Fw Vw]; [lia|].
  assert (Hm' : 1 <= IZR m <= 65536) by (unfold mss_ok in Hm; split; apply IZR_le; lia).
  assert (Hw' : 0 <= IZR win <= 4294967296) by (split; apply IZR_le; lia).
  assert (Hq : 0 <= IZR win / IZR m <= 4294967296).
  { split.
    - apply Rmult_le_pos; [lra|]. apply Rlt_le, Rinv_0_lt_compat. lra.
    - apply Rle_trans with (IZR win / 1); [|lra].
      unfold Rdiv. apply Rmult_le_compat_l; [lra|]. apply Rinv_le_contravar; lra. }
  destruct (fdiv_correct (f64_of_Z win) (f64_of_Z m) Fw) as [Fd Vd].
  - rewrite Vm. lra.
  - rewrite Vw, Vm, Rabs_pos_eq by lra. apply le_bpow_1000. lra.
  - rewrite Vw, Vm in Vd. split; [|exact Vd]. split; [exact Fd|]. rewrite Vd. split.
    + rewrite <- rnd_0. apply rnd_le. lra.
    + rewrite <- (rnd_generic _ pow32_fmt). apply rnd_le. lra.
Qed.

Lemma roundtrip : forall m win, mss_ok m -> (0 <= win < 2 ^ 32)%Z ->
  IZR win - 1 < rnd (rnd (IZR win / IZR m) * IZR m) < IZR win + 1.
Proof.
  intros m win Hm Hw.
  assert (Hm' : 1 <= IZR m <= 65536) by (unfold mss_ok in Hm; split; apply IZR_le; lia).
  destruct (Z.eq_dec win 0) as [->|Hnz].
  - unfold Rdiv. rewrite Rmult_0_l, rnd_0, Rmult_0_l, rnd_0. lra.
  - assert (Hw' : 1 <= IZR win <= 4294967296) by (split; apply IZR_le; lia).
    assert (Hinv : / 65536 <= / IZR m <= 1).
    { split; [apply Rinv_le_contravar; lra|]. rewrite <- Rinv_1. apply Rinv_le_contravar; lra. }
    destruct (rnd_rel (IZR win / IZR m)) as (e1 & He1 & E1).
    { apply tiny_le. unfold Rdiv. nra. }
    rewrite E1.
    replace (IZR win / IZR m * (1 + e1) * IZR m) with (IZR win * (1 + e1)) by (field; lra).
    rewrite eps_val in He1. apply Rabs_le_inv in He1.
    destruct (rnd_rel (IZR win * (1 + e1))) as (e2 & He2 & E2).
    { apply tiny_le. nra. }
    rewrite E2. rewrite eps_val in He2. apply Rabs_le_inv in He2.
    assert (Ha : - / 1024 <= IZR win * e1 <= / 1024) by (split; nra).
    assert (Hb : - / 1024 <= IZR win * e2 <= / 1024) by (split; nra).
    assert (Hc : - / 1024 <= (IZR win * e1) * e2 <= / 1024) by (split; nra).
    replace (IZR win * (1 + e1) * (1 + e2))
      with (IZR win + IZR win * e1 + IZR win * e2 + (IZR win * e1) * e2) by ring.
    split; lra.
Qed.

Lemma Ztrunc_lt_succ : forall x n, 0 <= x -> x < IZR n + 1 -> (Ztrunc x <= n)%Z.
Proof.
  intros x n H0 H. rewrite Ztrunc_floor by exact H0.
  assert (Zfloor x < n + 1)%Z; [|lia].
  apply lt_IZR. rewrite plus_IZR. apply Rle_lt_trans with x; [apply Zfloor_lb|exact H].
Qed.

Lemma Ztrunc_ge_pred : forall x n, 0 <= x -> IZR n - 1 < x -> (n - 1 <= Ztrunc x)%Z.
Proof.
  intros x n H0 H. rewrite Ztrunc_floor by exact H0.
  apply Zfloor_lub. rewrite minus_IZR. lra.
Qed.

(* window bounds for every state whose stored peer window is fl(win/mss) *)
Lemma window_bounds_sem : forall (s : cubic) (win : Z),
  mss_ok (mss s) -> (0 <= win < 2 ^ 32)%Z ->
  is_finite (rwnd s) = true -> B2R (rwnd s) = rnd (IZR win / IZR (mss s)) ->
  (cubic_window s <= win)%Z /\ (Z.min (2 * mss s) win - 1 <= cubic_window s)%Z /\
  (0 <= cubic_window s)%Z.
Proof.
  intros s win Hm Hw Frw Vrw.
  assert (Hok : rwnd_ok (rwnd s)).
  { split; [exact Frw|]. rewrite Vrw. destruct (set_rw_ok _ _ Hm Hw) as [[_ H] V].
    rewrite V in H. exact H. }
  destruct (window_val s Hm Hok) as [Ew Hr]. rewrite Ew.
  rewrite Vrw in *.
  set (rho := rnd (IZR win / IZR (mss s))) in *.
  assert (Hrho : 0 <= rho <= 4294967296) by (destruct Hok as [_ H]; try rewrite Vrw in H; exact H).
  pose proof (clampR_bounds (cwnd s) rho (proj1 Hrho)) as Hc.
  set (v := clampR (cwnd s) rho) in *.
  pose proof (roundtrip _ _ Hm Hw) as RT. fold rho in RT.
  assert (Hm' : 1 <= IZR (mss s) <= 65536) by (unfold mss_ok in Hm; split; apply IZR_le; lia).
  assert (Hup : rnd (v * IZR (mss s)) <= rnd (rho * IZR (mss s))) by (apply rnd_le; nra).
  split; [|split].
  - apply Ztrunc_lt_succ; lra.
  - destruct (Rle_dec 2 rho) as [H2|H2].
    + assert (2 <= v) by (rewrite Rmin_left in Hc by exact H2; lra).
      assert (IZR (2 * mss s) <= rnd (v * IZR (mss s))).
      { rewrite <- (rnd_generic (IZR (2 * mss s))).
        - apply rnd_le. rewrite mult_IZR. nra.
        - apply fmt_Z. unfold mss_ok in Hm. lia. }
      assert (2 * mss s <= Ztrunc (rnd (v * IZR (mss s))))%Z.
      { rewrite <- (Ztrunc_IZR (2 * mss s)). apply Ztrunc_le. exact H0. }
      lia.
    + assert (v = rho) by (rewrite Rmin_right in Hc by lra; lra).
      rewrite H. assert (win - 1 <= Ztrunc (rnd (rho * IZR (mss s))))%Z.
      { apply Ztrunc_ge_pred; [rewrite <- H; lra | lra]. }
      lia.
  - rewrite <- (Ztrunc_IZR 0). apply Ztrunc_le. lra.
Qed.

(* c15_window_bounds: EVERY float state (NaN, +-inf included in cwnd and all other fields) *)
Lemma window_bounds : forall (s : cubic) (win : Z),
  mss_ok (mss s) -> (0 <= win < 2 ^ 32)%Z ->
  let w := cubic_window (cubic_set_remote_window s win) in
  (w <= win)%Z /\ (Z.min (2 * mss s) win - 1 <= w)%Z /\ (0 <= w)%Z.
Proof.
  intros s win Hm Hw. cbv zeta.
  destruct (set_rw_ok _ _ Hm Hw) as [[Frw _] Vrw].
  exact (window_bounds_sem (cubic_set_remote_window s win) win Hm Hw Frw Vrw).
Qed.
(* ---- constants *)
Lemma BETA_finite : is_finite BETA_CUBIC = true.
Proof. vm_compute. reflexivity. Qed.

Lemma BETA_val : B2R BETA_CUBIC = 6305039478318694 / 9007199254740992.
Proof.
  rewrite <- (SF2R_B2SF 53 1024).
  replace (B2SF BETA_CUBIC) with (S754_finite false 6305039478318694 (-53)) by (vm_compute; reflexivity).
  unfold SF2R, F2R. cbn [cond_Zopp Fnum Fexp]. rewrite eps_val. reflexivity.
Qed.

Lemma BETA_range : 0 < B2R BETA_CUBIC < 1.
Proof. rewrite BETA_val. lra. Qed.

Lemma finite_sign : forall x : f64, is_finite x = true -> 0 < B2R x ->
  exists m e B, x = B754_finite false m e B.
Proof.
  intros x Fx Hx. destruct x as [s|s| |s m e B]; try discriminate Fx.
  - cbn [B2R] in Hx. lra.
  - destruct s.
    + exfalso. cbn [B2R cond_Zopp] in Hx.
      assert (F2R (Float radix2 (Z.neg m) e) < 0) by (apply F2R_lt_0; cbn [Fnum]; lia). 
      change (- Z.pos m)%Z with (Z.neg m) in Hx. lra.
    + exists m, e, B. reflexivity.
Qed.

Lemma BETA_shape : exists m e B, BETA_CUBIC = B754_finite false m e B.
Proof. apply finite_sign; [exact BETA_finite | apply BETA_range]. Qed.

Lemma clampR_finite : forall c rho, is_finite c = true -> clampR c rho = Rmin (Rmax (B2R c) 2) rho.
Proof. intros c rho F. destruct c; try discriminate F; reflexivity. Qed.

Lemma fmul_correct_le : forall x y z : f64, is_finite x = true -> is_finite y = true ->
  Rabs (B2R x * B2R y) <= Rabs (B2R z) ->
  is_finite (fmul x y) = true /\ B2R (fmul x y) = rnd (B2R x * B2R y).
Proof.
  intros x y z Fx Fy Hb. unfold fmul.
  pose proof (Bmult_correct 53 1024 f64_prec_gt_0 f64_prec_lt_emax mode_NE x y) as H.
  fold (rnd (B2R x * B2R y)) in H. rewrite Rlt_bool_true in H.
  - destruct H as (H1 & H2 & _). rewrite Fx, Fy in H2. split; assumption.
  - apply Rle_lt_trans with (Rabs (B2R z)); [|apply (abs_B2R_lt_emax 53 1024)].
    apply rnd_abs_le; [|exact Hb]. apply generic_format_abs. apply fmt_B2R.
Qed.

Lemma Rmin_Rmax_mono : forall x y rho, x <= y -> Rmin (Rmax x 2) rho <= Rmin (Rmax y 2) rho.
Proof. intros. unfold Rmin, Rmax. repeat destruct (Rle_dec _ _); lra. Qed.

(* on_enter_recovery: cwnd *= BETA_CUBIC never increases the clamped cwnd, for EVERY float cwnd *)
Lemma beta_clamp_le : forall (c : f64) rho, 0 <= rho ->
  clampR (fmul c BETA_CUBIC) rho <= clampR c rho.
Proof.
  intros c rho Hr. destruct BETA_shape as (mb & eb & Bb & EB).
  pose proof BETA_range as Hbeta. pose proof BETA_finite as Fbeta.
  assert (Fin : forall x : f64, is_finite x = true ->
            clampR (fmul x BETA_CUBIC) rho <= clampR x rho).
  { intros x Fx.
    destruct (fmul_correct_le x BETA_CUBIC x Fx Fbeta) as [Fp Vp].
    { rewrite Rabs_mult. rewrite (Rabs_pos_eq (B2R BETA_CUBIC)) by lra.
      pose proof (Rabs_pos (B2R x)). nra. }
    rewrite (clampR_finite _ _ Fp), (clampR_finite _ _ Fx), Vp.
    destruct (Rle_dec 0 (B2R x)) as [Hx|Hx].
    - apply Rmin_Rmax_mono. rewrite <- (rnd_generic (B2R x)) at 2 by apply fmt_B2R.
      apply rnd_le. nra.
    - assert (rnd (B2R x * B2R BETA_CUBIC) <= 0).
      { rewrite <- rnd_0. apply rnd_le. nra. }
      rewrite !Rmax_right by lra. lra. }
  destruct c as [s|[|]| |s m e B].
  - apply Fin. reflexivity.
  - rewrite EB. cbn. lra.
  - rewrite EB. cbn. lra.
  - cbn. lra.
  - apply Fin. reflexivity.
Qed.

Lemma one_clamp_le : forall (c : f64) rho, 0 <= rho -> clampR f64_1 rho <= clampR c rho.
Proof.
  intros c rho Hr. destruct f64_1_correct as [F1 V1].
  rewrite (clampR_finite _ _ F1), V1, Rmax_right by lra. apply clampR_bounds. exact Hr.
Qed.

Lemma window_mono : forall s s', mss s' = mss s -> rwnd s' = rwnd s ->
  mss_ok (mss s) -> rwnd_ok (rwnd s) ->
  clampR (cwnd s') (B2R (rwnd s)) <= clampR (cwnd s) (B2R (rwnd s)) ->
  (cubic_window s' <= cubic_window s)%Z.
Proof.
  intros s s' Em Er Hm Hok Hc.
  destruct (window_val s Hm Hok) as [E _].
  assert (Hm' : mss_ok (mss s')) by (rewrite Em; exact Hm).
  assert (Hok' : rwnd_ok (rwnd s')) by (rewrite Er; exact Hok).
  destruct (window_val s' Hm' Hok') as [E' _].
  rewrite E, E', Em, Er. apply Ztrunc_le, rnd_le.
  assert (1 <= IZR (mss s)) by (apply IZR_le; unfold mss_ok in Hm; lia). nra.
Qed.

(* c15_loss_never_increases, byte windows *)
Lemma rto_window_le : forall s, mss_ok (mss s) -> rwnd_ok (rwnd s) ->
  (cubic_window (cubic_on_retransmission_timeout s) <= cubic_window s)%Z.
Proof.
  intros s Hm Hok. apply window_mono; try reflexivity; try assumption.
  apply one_clamp_le. apply Hok.
Qed.
Section WithLibm.
Variable cbrt : f64 -> f64.
Variable powf3 : f64 -> f64.

Lemma enter_recovery_window_le : forall s now, mss_ok (mss s) -> rwnd_ok (rwnd s) ->
  (cubic_window (cubic_on_enter_recovery cbrt s now) <= cubic_window s)%Z.
Proof.
  intros s now Hm Hok. apply window_mono; try reflexivity; try assumption.
  cbn [cubic_on_enter_recovery cwnd]. apply beta_clamp_le. apply Hok.
Qed.

(* cwnd itself (MSS units, finite cwnd >= 0): on_enter_recovery does not increase it *)
Lemma enter_recovery_cwnd_le : forall s now, is_finite (cwnd s) = true -> 0 <= B2R (cwnd s) ->
  let s' := cubic_on_enter_recovery cbrt s now in
  is_finite (cwnd s') = true /\
  B2R (cwnd s') = rnd (B2R (cwnd s) * B2R BETA_CUBIC) /\
  0 <= B2R (cwnd s') <= B2R (cwnd s) /\
  ssthresh s' = rust_max (cwnd s') f64_2 /\
  B2R (ssthresh s') = Rmax (rnd (B2R (cwnd s) * B2R BETA_CUBIC)) 2.
Proof.
  intros s now Fc Hc. cbv zeta. cbn [cubic_on_enter_recovery cwnd ssthresh].
  pose proof BETA_range as Hb.
  destruct (fmul_correct_le (cwnd s) BETA_CUBIC (cwnd s) Fc BETA_finite) as [Fp Vp].
  { rewrite Rabs_mult, (Rabs_pos_eq (B2R BETA_CUBIC)) by lra. pose proof (Rabs_pos (B2R (cwnd s))). nra. }
  split; [exact Fp|]. split; [exact Vp|]. split; [|split; [reflexivity|]].
  - rewrite Vp. split.
    + rewrite <- rnd_0. apply rnd_le. nra.
    + rewrite <- (rnd_generic (B2R (cwnd s))) at 2 by apply fmt_B2R. apply rnd_le. nra.
  - destruct (rust_max_finite _ f64_2 Fp (proj1 f64_2_correct)) as [_ V].
    rewrite V, Vp, (proj2 f64_2_correct). reflexivity.
Qed.
End WithLibm.

(* on_retransmission_timeout: cwnd = 1; the clamped cwnd max(cwnd,2) never increases for any
   state; cwnd itself does not increase when cwnd >= 1 (cwnd < 1 is reachable only through
   set_mss rescaling and is invisible in window(), which clamps at 2). *)
Lemma rto_cwnd : forall s, is_finite (cwnd s) = true -> 0 <= B2R (cwnd s) ->
  let s' := cubic_on_retransmission_timeout s in
  cwnd s' = f64_1 /\
  Rmax (B2R (cwnd s')) 2 <= Rmax (B2R (cwnd s)) 2 /\
  (1 <= B2R (cwnd s) -> B2R (cwnd s') <= B2R (cwnd s)) /\
  ssthresh s' = rust_max (fmul (cwnd s) BETA_CUBIC) f64_2 /\
  B2R (ssthresh s') = Rmax (rnd (B2R (cwnd s) * B2R BETA_CUBIC)) 2.
Proof.
  intros s Fc Hc. cbv zeta. cbn [cubic_on_retransmission_timeout cwnd ssthresh].
  destruct f64_1_correct as [F1 V1]. pose proof BETA_range as Hb.
  split; [reflexivity|]. rewrite V1. split; [|split; [|split; [reflexivity|]]].
  - rewrite (Rmax_right 1 2) by lra. apply Rmax_r.
  - intros H. exact H.
  - destruct (fmul_correct_le (cwnd s) BETA_CUBIC (cwnd s) Fc BETA_finite) as [Fp Vp].
    { rewrite Rabs_mult, (Rabs_pos_eq (B2R BETA_CUBIC)) by lra. pose proof (Rabs_pos (B2R (cwnd s))). nra. }
    destruct (rust_max_finite _ f64_2 Fp (proj1 f64_2_correct)) as [_ V].
    rewrite V, Vp, (proj2 f64_2_correct). reflexivity.
Qed.

(* ssthresh = max(x, 2.) for ANY float x gives sshthresh() >= 2 mss *)
Lemma mss_shape : forall m, mss_ok m -> exists mm e B, f64_of_Z m = B754_finite false mm e B.
Proof.
  intros m Hm. destruct (mss_correct m Hm) as [F V]. apply finite_sign; [exact F|].
  rewrite V. apply IZR_lt. unfold mss_ok in Hm. lia.
Qed.

Lemma usize_ge_of_real : forall (x : f64) n, is_finite x = true -> (0 <= n <= USIZE_MAX)%Z ->
  IZR n <= B2R x -> (n <= usize_of_f64 x)%Z.
Proof.
  intros x n Fx Hn H. rewrite (usize_of_finite x Fx).
  assert (n <= Ztrunc (B2R x))%Z by (rewrite <- (Ztrunc_IZR n); apply Ztrunc_le; exact H).
  lia.
Qed.

Lemma sshthresh_ge_2mss : forall (x : f64) m, mss_ok m ->
  (2 * m <= usize_of_f64 (fmul (rust_max x f64_2) (f64_of_Z m)))%Z.
Proof.
  intros x m Hm. destruct f64_2_correct as [F2 V2].
  destruct (mss_correct m Hm) as [Fm Vm]. destruct (mss_shape m Hm) as (mm & em & Bm & Em).
  assert (Hm' : 1 <= IZR m <= 65536) by (unfold mss_ok in Hm; split; apply IZR_le; lia).
  assert (Hn : (0 <= 2 * m <= USIZE_MAX)%Z) by (unfold mss_ok in Hm; unfold USIZE_MAX, M64; lia).
  assert (Fin : forall X : f64, is_finite X = true -> 2 <= B2R X ->
            (2 * m <= usize_of_f64 (fmul X (f64_of_Z m)))%Z).
  { intros X FX HX.
    destruct (finite_sign X FX) as (mx & ex & Bx & EX); [lra|].
    pose proof (Bmult_correct 53 1024 f64_prec_gt_0 f64_prec_lt_emax mode_NE X (f64_of_Z m)) as H.
    fold (rnd (B2R X * B2R (f64_of_Z m))) in H. fold (fmul X (f64_of_Z m)) in H.
    set (P := fmul X (f64_of_Z m)) in *.
    assert (SX : Bsign X = false) by (rewrite EX; reflexivity).
    assert (SM : Bsign (f64_of_Z m) = false) by (rewrite Em; reflexivity).
    destruct (Rlt_bool (Rabs (rnd (B2R X * B2R (f64_of_Z m)))) (bpow radix2 1024)).
    - destruct H as (V & F & _). rewrite FX, Fm in F.
      apply usize_ge_of_real; [exact F | exact Hn |]. rewrite V, Vm.
      rewrite <- (rnd_generic (IZR (2 * m))).
      + apply rnd_le. rewrite mult_IZR. nra.
      + apply fmt_Z. unfold mss_ok in Hm. lia.
    - rewrite SX, SM in H. cbn in H.
      destruct P as [s|s| |s m' e' B']; try discriminate H.
      cbn in H. injection H as ->. cbn. exact (proj2 Hn). }
  destruct x as [s|[|]| |s mx ex Bx].
  - destruct (rust_max_finite (B754_zero s) f64_2 eq_refl F2) as [F V].
    apply Fin; [exact F|]. rewrite V, V2. apply Rmax_r.
  - rewrite (rust_max_ninf_l _ F2). apply Fin; [exact F2 | lra].
  - rewrite (rust_max_pinf_l _ F2), Em. cbn. exact (proj2 Hn).
  - rewrite rust_max_nan_l. apply Fin; [exact F2 | lra].
  - destruct (rust_max_finite (B754_finite s mx ex Bx) f64_2 eq_refl F2) as [F V].
    apply Fin; [exact F|]. rewrite V, V2. apply Rmax_r.
Qed.
(* ---- the observable predicate (rounding-independent clauses) holds on every model trace *)
Definition inv (s : cubic) (a : c15_acc) : Prop :=
  mss s = a_mss a /\ mss_ok (mss s) /\ rwnd_ok (rwnd s) /\ (0 <= last_congestion_event s)%Z /\
  (a_fresh a = true ->
     (0 <= a_win a < 2 ^ 32)%Z /\ B2R (rwnd s) = rnd (IZR (a_win a) / IZR (mss s))) /\
  a_w a = cubic_window s /\ a_ss a = cubic_sshthresh s.

Lemma bounds_ok_true : forall m win w, (w <= win)%Z -> (Z.min (2 * m) win - 1 <= w)%Z -> (0 <= w)%Z ->
  c15_bounds_ok m win w = true.
Proof. intros. unfold c15_bounds_ok. lia. Qed.

Lemma fresh_bounds : forall s a, inv s a ->
  (if a_fresh a then c15_bounds_ok (a_mss a) (a_win a) (cubic_window s) else true) = true.
Proof.
  intros s a (Em & Hm & Hok & _ & Hf & _). destruct (a_fresh a); [|reflexivity].
  destruct (Hf eq_refl) as [Hw Vrw].
  destruct (window_bounds_sem s (a_win a) Hm Hw (proj1 Hok) Vrw) as (B1 & B2 & B3).
  rewrite <- Em. apply bounds_ok_true; assumption.
Qed.

Lemma mss_ok_b : forall m, c15_mss_ok m = true -> mss_ok m.
Proof. intros m H. unfold c15_mss_ok in H. unfold mss_ok. lia. Qed.

Section Trace.
Variable cbrt : f64 -> f64.
Variable powf3 : f64 -> f64.

Lemma on_ack_shape : forall s now len rtt,
  (0 <= last_congestion_event s)%Z -> (0 <= now < M64)%Z -> (0 <= rtt <= C15_RTT_MAX)%Z ->
  exists s', cubic_on_ack powf3 s now len rtt = Some s' /\
    mss s' = mss s /\ rwnd s' = rwnd s /\ ssthresh s' = ssthresh s /\
    last_congestion_event s' = last_congestion_event s /\ (len = 0%Z -> s' = s).
Proof.
  intros s now len rtt Hl Hn Hr. unfold cubic_on_ack.
  destruct (len =? 0)%Z eqn:El.
  { exists s. repeat split; reflexivity. }
  destruct (fge (cwnd s) (rwnd s)).
  { exists s. repeat split; reflexivity. }
  assert (Hadd : exists t2, cu_dur_add (sat_sub now (last_congestion_event s)) rtt = Some t2).
  { unfold cu_dur_add, sat_sub, CU_DUR_MAX, CU_NS_PER_SEC, C15_RTT_MAX, CU_NS_PER_SEC, M64 in *.
    match goal with |- context [if ?c then _ else _] => destruct c eqn:Ec end.
    - eexists. reflexivity.
    - exfalso. lia. }
  destruct Hadd as [t2 Ht2]. rewrite Ht2. cbn [bind].
  destruct (flt (cwnd s) (ssthresh s)); [|destruct (flt _ _)];
    (eexists; split; [reflexivity|]; repeat split; try reflexivity; intros ->; discriminate El).
Qed.

Lemma step_ok : forall s a o, inv s a -> c15_op_dom o = true ->
  exists s', cubic_step cbrt powf3 s o = Some s' /\
    c15_check false a o (cubic_window s') (cubic_sshthresh s') (cubic_smss s') = true /\
    inv s' (c15_next a o (cubic_window s') (cubic_sshthresh s') (cubic_smss s')).
Proof.
  intros s a o Hinv Hd. pose proof Hinv as (Em & Hm & Hok & Hl & Hf & Ew & Es).
  destruct o as [win|now len rtt| |now|cb sb|m']; unfold c15_op_dom in Hd.
  - (* SetRemoteWindow *)
    eexists. split; [reflexivity|].
    assert (Hw : (0 <= win < 2 ^ 32)%Z) by (unfold c15_u32, M32 in Hd; lia).
    destruct (set_rw_ok _ _ Hm Hw) as [Hok' Vrw'].
    destruct (window_bounds s win Hm Hw) as (B1 & B2 & B3). cbv zeta in B1, B2, B3.
    split.
    + unfold c15_check. cbv iota beta. rewrite <- Em.
      rewrite (bounds_ok_true _ _ _ B1 B2 B3).
      change (cubic_smss (cubic_set_remote_window s win)) with (mss s).
      change (cubic_sshthresh (cubic_set_remote_window s win)) with (cubic_sshthresh s).
      rewrite Es. rewrite !Z.eqb_refl. reflexivity.
    + unfold c15_next, inv. cbn [a_mss a_win a_fresh a_w a_ss].
      refine (conj Em (conj Hm (conj Hok' (conj Hl (conj _ (conj eq_refl eq_refl)))))).
      intros _. split; [exact Hw | exact Vrw'].
  - (* OnAck *)
    assert (Hn : (0 <= now < M64)%Z) by lia.
    assert (Hr : (0 <= rtt <= C15_RTT_MAX)%Z) by lia.
    destruct (on_ack_shape s now len rtt Hl Hn Hr) as (s' & E & Em' & Er' & Et' & El' & Hz).
    exists s'. split; [exact E|].
    assert (Ess : cubic_sshthresh s' = cubic_sshthresh s)
      by (unfold cubic_sshthresh; rewrite Et', Em'; reflexivity).
    assert (Hinv' : inv s' (c15_next a (OnAck now len rtt) (cubic_window s') (cubic_sshthresh s') (cubic_smss s'))).
    { unfold c15_next, inv. cbn [a_mss a_win a_fresh a_w a_ss]. rewrite Em', Er', El'.
      exact (conj Em (conj Hm (conj Hok (conj Hl (conj Hf (conj eq_refl eq_refl)))))). }
    split; [|exact Hinv'].
    unfold c15_check. cbv iota beta. cbn [andb].
    pose proof (fresh_bounds s' _ Hinv') as FB. unfold c15_next in FB. cbn [a_mss a_win a_fresh] in FB.
    rewrite FB. unfold cubic_smss. rewrite Em', Em, Ess, Es, !Z.eqb_refl. cbn [andb].
    destruct (len =? 0)%Z eqn:El0; [|reflexivity].
    rewrite (Hz (proj1 (Z.eqb_eq _ _) El0)), Ew, Z.eqb_refl. reflexivity.
  - (* OnRto *)
    eexists. split; [reflexivity|]. set (s' := cubic_on_retransmission_timeout s).
    assert (Hinv' : inv s' (c15_next a OnRto (cubic_window s') (cubic_sshthresh s') (cubic_smss s'))).
    { unfold c15_next, inv. cbn [a_mss a_win a_fresh a_w a_ss].
      exact (conj Em (conj Hm (conj Hok (conj Hl (conj Hf (conj eq_refl eq_refl)))))). }
    split; [|exact Hinv'].
    unfold c15_check. cbv iota beta. cbn [andb].
    pose proof (fresh_bounds s' _ Hinv') as FB. unfold c15_next in FB. cbn [a_mss a_win a_fresh] in FB.
    rewrite FB. change (cubic_smss s') with (mss s). rewrite Em, Z.eqb_refl. cbn [andb].
    pose proof (rto_window_le s Hm Hok) as WL. fold s' in WL.
    pose proof (sshthresh_ge_2mss (fmul (cwnd s) BETA_CUBIC) (mss s) Hm) as SG.
    change (usize_of_f64 _) with (cubic_sshthresh s') in SG.
    rewrite Ew, <- Em. lia.
  - (* OnEnterRecovery *)
    eexists. split; [reflexivity|]. set (s' := cubic_on_enter_recovery cbrt s now).
    assert (Hinv' : inv s' (c15_next a (OnEnterRecovery now) (cubic_window s') (cubic_sshthresh s') (cubic_smss s'))).
    { unfold c15_next, inv. cbn [a_mss a_win a_fresh a_w a_ss].
      refine (conj Em (conj Hm (conj Hok (conj _ (conj Hf (conj eq_refl eq_refl)))))).
      cbn [s' cubic_on_enter_recovery last_congestion_event]. lia. }
    split; [|exact Hinv'].
    unfold c15_check. cbv iota beta. cbn [andb].
    pose proof (fresh_bounds s' _ Hinv') as FB. unfold c15_next in FB. cbn [a_mss a_win a_fresh] in FB.
    rewrite FB. change (cubic_smss s') with (mss s). rewrite Em, Z.eqb_refl. cbn [andb].
    pose proof (enter_recovery_window_le cbrt s now Hm Hok) as WL. fold s' in WL.
    pose proof (sshthresh_ge_2mss (fmul (cwnd s) BETA_CUBIC) (mss s) Hm) as SG.
    change (usize_of_f64 _) with (cubic_sshthresh s') in SG.
    rewrite Ew, <- Em. lia.
  - (* OnRecovered *)
    eexists. split; [reflexivity|]. set (s' := cubic_on_recovered s cb sb).
    assert (Hinv' : inv s' (c15_next a (OnRecovered cb sb) (cubic_window s') (cubic_sshthresh s') (cubic_smss s'))).
    { unfold c15_next, inv. cbn [a_mss a_win a_fresh a_w a_ss].
      exact (conj Em (conj Hm (conj Hok (conj Hl (conj Hf (conj eq_refl eq_refl)))))). }
    split; [|exact Hinv'].
    unfold c15_check. cbv iota beta.
    pose proof (fresh_bounds s' _ Hinv') as FB. unfold c15_next in FB. cbn [a_mss a_win a_fresh] in FB.
    rewrite FB. change (cubic_smss s') with (mss s). rewrite Em, Z.eqb_refl. reflexivity.
  - (* SetMss *)
    eexists. split; [reflexivity|]. unfold cubic_set_mss. rewrite Em.
    unfold c15_check, c15_next. cbv iota beta. rewrite (Z.eqb_sym m' (a_mss a)).
    destruct (a_mss a =? m')%Z eqn:Eq.
    + apply Z.eqb_eq in Eq. unfold cubic_smss. rewrite Em, Eq, Ew, Es, !Z.eqb_refl.
      split; [reflexivity|]. unfold inv. cbn [a_mss a_win a_fresh a_w a_ss].
      rewrite <- Eq.
      exact (conj Em (conj Hm (conj Hok (conj Hl (conj Hf (conj eq_refl eq_refl)))))).
    + cbn [cubic_smss mss]. rewrite Z.eqb_refl. split; [reflexivity|].
      unfold inv. cbn [a_mss a_win a_fresh a_w a_ss mss rwnd last_congestion_event].
      refine (conj eq_refl (conj (mss_ok_b _ Hd) (conj Hok (conj Hl (conj _ (conj eq_refl eq_refl)))))).
      intros F. discriminate F.
Qed.

Lemma trace_core_go : forall ops s a, inv s a ->
  c15_obs_go false a ops (cubic_trace cbrt powf3 s ops) = true.
Proof.
  induction ops as [|o ops IH]; intros s a Hinv; [reflexivity|].
  cbn [cubic_trace].
  destruct (a_dom a && c15_op_dom o) eqn:Ed.
  - pose proof Ed as Ed'. apply andb_true_iff in Ed'. destruct Ed' as [_ Ed'].
    destruct (step_ok s a o Hinv Ed') as (s' & E & Hc & Hi). rewrite E.
    unfold cubic_obs. cbn [c15_obs_go]. rewrite Ed, Hc. apply IH. exact Hi.
  - destruct (cubic_step cbrt powf3 s o) as [s'|]; unfold cubic_obs; cbn [c15_obs_go];
      rewrite Ed; reflexivity.
Qed.
End Trace.
Lemma window_new : forall mss0, mss_ok mss0 -> cubic_window (cubic_new 0 mss0) = 0%Z.
Proof.
  intros m Hm.
  assert (Hok : rwnd_ok (rwnd (cubic_new 0 m))).
  { split; [reflexivity|]. cbn [cubic_new rwnd f64_zero B2R]. lra. }
  destruct (window_val (cubic_new 0 m) Hm Hok) as [E _]. rewrite E.
  cbn [cubic_new cwnd rwnd mss f64_zero B2R].
  rewrite (clampR_finite _ _ (proj1 f64_2_correct)), (proj2 f64_2_correct).
  rewrite Rmin_right by (rewrite Rmax_left; lra). rewrite Rmult_0_l, rnd_0. apply (Ztrunc_IZR 0).
Qed.

Lemma sshthresh_new : forall mss0, mss_ok mss0 -> cubic_sshthresh (cubic_new 0 mss0) = USIZE_MAX.
Proof.
  intros m Hm. destruct (mss_shape m Hm) as (mm & e & B & E).
  unfold cubic_sshthresh. cbn [cubic_new ssthresh mss]. rewrite E. reflexivity.
Qed.

Lemma inv_init : forall mss0, c15_mss_ok mss0 = true -> inv (cubic_new 0 mss0) (c15_acc0 mss0).
Proof.
  intros m Hb. pose proof (mss_ok_b m Hb) as Hm. unfold inv, c15_acc0.
  cbn [a_mss a_win a_fresh a_w a_ss].
  refine (conj eq_refl (conj Hm (conj _ (conj _ (conj _ (conj _ _)))))).
  - split; [reflexivity|]. cbn [cubic_new rwnd f64_zero B2R]. lra.
  - cbn [cubic_new last_congestion_event]. lia.
  - intros _. split; [lia|]. cbn [cubic_new rwnd mss f64_zero B2R].
    unfold Rdiv. rewrite Rmult_0_l, rnd_0. reflexivity.
  - symmetry. apply window_new. exact Hm.
  - symmetry. apply sshthresh_new. exact Hm.
Qed.

Lemma obs_go_out_of_dom : forall cbrt powf3 fine a ops s, a_dom a = false ->
  c15_obs_go fine a ops (cubic_trace cbrt powf3 s ops) = true.
Proof.
  intros cbrt powf3 fine a ops s Hd. destruct ops as [|o ops]; [reflexivity|].
  cbn [cubic_trace]. destruct (cubic_step cbrt powf3 s o); unfold cubic_obs; cbn [c15_obs_go];
    rewrite Hd; reflexivity.
Qed.

Lemma model_trace_core_ok : forall (cbrt powf3 : f64 -> f64) mss0 ops,
  c15_obs_core mss0 ops (cubic_trace cbrt powf3 (cubic_new 0 mss0) ops) = true.
Proof.
  intros cbrt powf3 mss0 ops. unfold c15_obs_core.
  destruct (c15_mss_ok mss0) eqn:Hb.
  - apply trace_core_go. apply inv_init. exact Hb.
  - apply obs_go_out_of_dom. unfold c15_acc0. cbn [a_dom]. exact Hb.
Qed.

(* ---- set_mss *)
Lemma tiny_le' : forall x, / 2417851639229258349412352 <= x -> bpow radix2 (-1022) <= Rabs x.
Proof.
  intros x H. assert (0 < / 2417851639229258349412352) by (apply Rinv_0_lt_compat; lra).
  rewrite Rabs_pos_eq by lra.
  apply Rle_trans with (bpow radix2 (-81)); [apply bpow_le; lia|].
  replace (bpow radix2 (-81)) with (/ 2417851639229258349412352) by reflexivity. exact H.
Qed.

Lemma set_mss_rescales : forall s m', mss_ok (mss s) -> mss_ok m' -> mss s <> m' ->
  is_finite (cwnd s) = true ->
  / 18446744073709551616 <= B2R (cwnd s) <= 18446744073709551616 ->
  let s' := cubic_set_mss s m' in
  cwnd s' = fmul (cwnd s) (fdiv (f64_of_Z (mss s)) (f64_of_Z m')) /\ mss s' = m' /\
  rwnd s' = rwnd s /\ is_finite (cwnd s') = true /\
  exists d, Rabs d <= 3 * bpow radix2 (-53) /\
    B2R (cwnd s') * IZR m' = B2R (cwnd s) * IZR (mss s) * (1 + d).
Proof.
  intros s m' Hm Hm' Hne Fc Hc. cbv zeta. unfold cubic_set_mss.
  destruct (Z.eqb_spec (mss s) m') as [E|_]; [contradiction|]. cbn [cwnd mss rwnd].
  split; [reflexivity|]. split; [reflexivity|]. split; [reflexivity|].
  destruct (mss_correct _ Hm) as [F1 V1]. destruct (mss_correct _ Hm') as [F2 V2].
  assert (H1 : 1 <= IZR (mss s) <= 65536) by (unfold mss_ok in Hm; split; apply IZR_le; lia).
  assert (H2 : 1 <= IZR m' <= 65536) by (unfold mss_ok in Hm'; split; apply IZR_le; lia).
  assert (Hinv : / 65536 <= / IZR m' <= 1).
  { split; [apply Rinv_le_contravar; lra|]. rewrite <- Rinv_1. apply Rinv_le_contravar; lra. }
  assert (Hq : / 65536 <= IZR (mss s) / IZR m' <= 65536) by (unfold Rdiv; split; nra).
  destruct (fdiv_correct (f64_of_Z (mss s)) (f64_of_Z m') F1) as [Fr Vr].
  { rewrite V2. lra. }
  { rewrite V1, V2, Rabs_pos_eq by lra. apply le_bpow_1000. lra. }
  rewrite V1, V2 in Vr.
  destruct (rnd_rel (IZR (mss s) / IZR m')) as (e1 & He1 & E1); [apply tiny_le; lra|].
  rewrite eps_val in He1. apply Rabs_le_inv in He1.
  set (r := fdiv (f64_of_Z (mss s)) (f64_of_Z m')) in *.
  assert (Hr : / 131072 <= B2R r <= 131072).
  { rewrite Vr, E1. split; nra. }
  assert (H64 : 0 < / 18446744073709551616) by (apply Rinv_0_lt_compat; lra).
  assert (Hp : / 2417851639229258349412352 <= B2R (cwnd s) * B2R r <= 2417851639229258349412352).
  { replace (/ 2417851639229258349412352) with (/ 18446744073709551616 * / 131072) by (field_simplify; lra).
    replace 2417851639229258349412352 with (18446744073709551616 * 131072) by lra.
    split; apply Rmult_le_compat; lra. }
  destruct (fmul_correct (cwnd s) r Fc Fr) as [Fp Vp].
  { rewrite Rabs_pos_eq by lra. apply Rle_trans with (bpow radix2 81); [|apply bpow_le; lia].
    change (bpow radix2 81) with (IZR (2 ^ 81)). apply Hp. }
  split; [exact Fp|].
  destruct (rnd_rel (B2R (cwnd s) * B2R r)) as (e2 & He2 & E2); [apply tiny_le'; lra|].
  exists (e1 + e2 + e1 * e2). split.
  - rewrite eps_val in *. apply Rabs_le_inv in He2. apply Rabs_le. split; nra.
  - rewrite Vp, E2, Vr, E1. field. lra.
Qed.
(* ---- slow start *)
Lemma fadd_correct : forall x y : f64, is_finite x = true -> is_finite y = true ->
  Rabs (B2R x + B2R y) <= bpow radix2 1000 ->
  is_finite (fadd x y) = true /\ B2R (fadd x y) = rnd (B2R x + B2R y).
Proof.
  intros x y Fx Fy Hb. unfold fadd.
  pose proof (Bplus_correct 53 1024 f64_prec_gt_0 f64_prec_lt_emax mode_NE x y Fx Fy) as H.
  fold (rnd (B2R x + B2R y)) in H. rewrite (no_overflow _ Hb) in H.
  destruct H as (H1 & H2 & _). split; assumption.
Qed.

Section SlowStart.
Variable powf3 : f64 -> f64.

(* one ACK in slow start, in MSS units: cwnd' = max(min(fl(cwnd + fl(len/mss)), rwnd), 2) *)
Lemma slow_start_mss_units : forall s now len rtt,
  mss_ok (mss s) -> rwnd_ok (rwnd s) -> (0 < len < 2 ^ 32)%Z ->
  is_finite (cwnd s) = true -> 0 <= B2R (cwnd s) ->
  fge (cwnd s) (rwnd s) = false -> flt (cwnd s) (ssthresh s) = true ->
  exists s', cubic_on_ack powf3 s now len rtt = Some s' /\
    cwnd s' = rust_max (rust_min (fadd (cwnd s) (fdiv (f64_of_Z len) (f64_of_Z (mss s)))) (rwnd s)) f64_2 /\
    is_finite (cwnd s') = true /\
    B2R (cwnd s') =
      Rmax (Rmin (rnd (B2R (cwnd s) + rnd (IZR len / IZR (mss s)))) (B2R (rwnd s))) 2 /\
    B2R (cwnd s') <= Rmax 2 (rnd (B2R (cwnd s) + rnd (IZR len / IZR (mss s)))) /\
    ssthresh s' = ssthresh s /\ mss s' = mss s /\ rwnd s' = rwnd s.
Proof.
  intros s now len rtt Hm [Frw Hrw] Hl Fc Hc Hge Hlt.
  unfold cubic_on_ack. destruct (Z.eqb_spec len 0) as [E|_]; [lia|]. rewrite Hge, Hlt.
  eexists. split; [reflexivity|]. cbn [cubic_with_cwnd cwnd ssthresh mss rwnd].
  split; [reflexivity|].
  assert (Hlen : (0 <= len < 2 ^ 32)%Z) by lia.
  destruct (set_rw_ok _ _ Hm Hlen) as [[Fd Hd] Vd].
  assert (Hcr : B2R (cwnd s) < B2R (rwnd s)).
  { unfold fge in Hge. rewrite (Bleb_correct 53 1024 _ _ Frw Fc) in Hge.
    destruct (Rle_bool_spec (B2R (rwnd s)) (B2R (cwnd s))); [discriminate|assumption]. }
  destruct (fadd_correct (cwnd s) _ Fc Fd) as [Fa Va].
  { rewrite Rabs_pos_eq by lra. apply le_bpow_1000. lra. }
  destruct (rust_min_finite _ (rwnd s) Fa Frw) as [Fmn Vmn].
  destruct (rust_max_finite _ f64_2 Fmn (proj1 f64_2_correct)) as [Fmx Vmx].
  rewrite Vmx, Vmn, Va, Vd, (proj2 f64_2_correct).
  split; [exact Fmx|]. split; [reflexivity|]. split; [|repeat split].
  unfold Rmax, Rmin. repeat destruct (Rle_dec _ _); lra.
Qed.
End SlowStart.

(* ---- non-vacuity and tightness, by computation on concrete states *)
Definition ex_state (c : f64) (m : Z) : cubic :=
  {| cwnd := c; ssthresh := f64_inf; k := f64_zero; w_max := f64_zero; w_max_last := f64_zero;
     mss := m; last_congestion_event := 0; rwnd := f64_nan |}.

(* the -1 of the lower bound is tight: win 5, mss 1232 -> window 4 *)
Example window_bounds_tight :
  cubic_window (cubic_set_remote_window (ex_state f64_2 1232) 5) = 4%Z.
Proof. vm_compute. reflexivity. Qed.
Example window_bounds_61_7 :
  cubic_window (cubic_set_remote_window (ex_state (f64_of_Z 100) 7) 61) = 60%Z.
Proof. vm_compute. reflexivity. Qed.
(* NaN / infinite cwnd states still give a window within the bounds *)
Example window_bounds_nan :
  cubic_window (cubic_set_remote_window (ex_state f64_nan 1500) 1000000) = 3000%Z /\
  cubic_window (cubic_set_remote_window (ex_state f64_inf 1500) 1000000) = 1000000%Z /\
  cubic_window (cubic_set_remote_window (ex_state (B754_infinity true) 1500) 1000000) = 3000%Z.
Proof. vm_compute. repeat split; reflexivity. Qed.

Definition ex_run (ops : list cubic_op) : list (option (Z * Z * Z)) :=
  cubic_trace (fun x => x) (fun x => x) (cubic_new 0 1500) ops.

(* loss: 10 segments -> RTO: window 2 segments, ssthresh 7 segments; enter recovery: 7 and 7 *)
Example loss_example :
  ex_run [SetRemoteWindow 1000000; OnRecovered 15000 1000000; OnRto] =
    [Some (3000, 18446744073709551615, 1500); Some (15000, 1000000, 1500); Some (3000, 10500, 1500)]%Z /\
  ex_run [SetRemoteWindow 1000000; OnRecovered 15000 1000000; OnEnterRecovery 5] =
    [Some (3000, 18446744073709551615, 1500); Some (15000, 1000000, 1500); Some (10500, 10500, 1500)]%Z.
Proof. vm_compute. split; reflexivity. Qed.

(* slow start: +len bytes per ACK; set_mss keeps the bytes (15000) instead of resetting to 2 segments *)
Example slow_start_and_mss_example :
  ex_run [SetRemoteWindow 1000000; OnAck 1 1500 1000; OnAck 2 700 1000; SetMss 1000; SetRemoteWindow 1000000] =
    [Some (3000, 18446744073709551615, 1500); Some (4500, 18446744073709551615, 1500);
     Some (5200, 18446744073709551615, 1500); Some (5200, 18446744073709551615, 1000);
     Some (5200, 18446744073709551615, 1000)]%Z.
Proof. vm_compute. reflexivity. Qed.

(* Observation: between set_mss and the next set_remote_window the stored peer window (MSS units) is
   stale, and after an MSS increase window() exceeds the peer window (10000): model and code agree. *)
Example stale_rwnd_after_mss_increase :
  ex_run [SetRemoteWindow 10000; SetMss 9000; SetRemoteWindow 10000] =
    [Some (3000, 18446744073709551615, 1500); Some (18000, 18446744073709551615, 9000);
     Some (10000, 18446744073709551615, 9000)]%Z.
Proof. vm_compute. reflexivity. Qed.

(* Observation (model = real code, see tools/check): on byte windows one slow-start ACK can show a
   growth of len + 1 (here 100664 -> 139257 for len 38592) because the PREVIOUS window() was
   truncated down (77184 + 23481 = 100665 was observed as 100664).  The cumulative bound
   (initial + sum of len) is met exactly; in MSS units growth is exactly fl(len/mss).  This is why
   c15_obs_ok allows len + 1 and why the byte-level statement is kept `_partial`. *)
Example slow_start_bytes_len_plus_one :
  cubic_trace (fun x => x) (fun x => x) (cubic_new 0 38592)
    [SetRemoteWindow 3384378025; OnAck 1 23481 1000; OnAck 2 38592 1000] =
    [Some (77184, 18446744073709551615, 38592); Some (100664, 18446744073709551615, 38592);
     Some (139257, 18446744073709551615, 38592)]%Z.
Proof. vm_compute. reflexivity. Qed.

(* Observation: on_retransmission_timeout sets cwnd = 1, which is larger than a cwnd < 1 (reachable
   through set_mss rescaling); invisible in window(), which clamps at 2. *)
Example rto_raw_cwnd_can_increase :
  let s := cubic_set_mss (cubic_new 0 100) 1000 in
  Bltb (cwnd s) (cwnd (cubic_on_retransmission_timeout s)) = true.
Proof. vm_compute. reflexivity. Qed.

Example obs_pred_nonvacuous :
  c15_obs_ok 1500 [SetRemoteWindow 1000000; OnAck 1 1500 1000; OnRto]
    [Some (3000, 18446744073709551615, 1500); Some (4500, 18446744073709551615, 1500);
     Some (3000, 3150, 1500)]%Z = true /\
  (* a window growing on RTO, or an ssthresh of 1.7 x window, is rejected *)
  c15_obs_ok 1500 [SetRemoteWindow 1000000; OnAck 1 1500 1000; OnRto]
    [Some (3000, 18446744073709551615, 1500); Some (4500, 18446744073709551615, 1500);
     Some (4501, 3150, 1500)]%Z = false /\
  c15_obs_ok 1500 [SetRemoteWindow 1000000; OnAck 1 1500 1000; OnRto]
    [Some (3000, 18446744073709551615, 1500); Some (4500, 18446744073709551615, 1500);
     Some (3000, 7650, 1500)]%Z = false.
Proof. vm_compute. repeat split; reflexivity. Qed.


(* ---- statements in the shape used by Props/C15.v *)
Lemma loss_never_increases : forall (cbrt : f64 -> f64) s now,
  mss_ok (mss s) -> rwnd_ok (rwnd s) ->
  let s1 := cubic_on_retransmission_timeout s in
  let s2 := cubic_on_enter_recovery cbrt s now in
  (cubic_window s1 <= cubic_window s)%Z /\ (cubic_window s2 <= cubic_window s)%Z /\
  ssthresh s1 = rust_max (fmul (cwnd s) BETA_CUBIC) f64_2 /\
  ssthresh s2 = rust_max (fmul (cwnd s) BETA_CUBIC) f64_2 /\
  (2 * mss s <= cubic_sshthresh s1)%Z /\ (2 * mss s <= cubic_sshthresh s2)%Z /\
  clampR (cwnd s1) (B2R (rwnd s)) <= clampR (cwnd s) (B2R (rwnd s)) /\
  clampR (cwnd s2) (B2R (rwnd s)) <= clampR (cwnd s) (B2R (rwnd s)).
Proof.
  intros cbrt s now Hm Hok. cbv zeta.
  split; [apply rto_window_le; assumption|].
  split; [apply enter_recovery_window_le; assumption|].
  split; [reflexivity|]. split; [reflexivity|].
  split; [exact (sshthresh_ge_2mss (fmul (cwnd s) BETA_CUBIC) (mss s) Hm)|].
  split; [exact (sshthresh_ge_2mss (fmul (cwnd s) BETA_CUBIC) (mss s) Hm)|].
  split; [apply one_clamp_le; apply Hok|].
  cbn [cubic_on_enter_recovery cwnd]. apply beta_clamp_le. apply Hok.
Qed.

Lemma loss_cwnd_mss_units : forall (cbrt : f64 -> f64) s now,
  is_finite (cwnd s) = true -> 0 <= B2R (cwnd s) ->
  let s1 := cubic_on_retransmission_timeout s in
  let s2 := cubic_on_enter_recovery cbrt s now in
  cwnd s1 = f64_1 /\ (1 <= B2R (cwnd s) -> B2R (cwnd s1) <= B2R (cwnd s)) /\
  Rmax (B2R (cwnd s1)) 2 <= Rmax (B2R (cwnd s)) 2 /\
  B2R (ssthresh s1) = Rmax (rnd (B2R (cwnd s) * B2R BETA_CUBIC)) 2 /\
  is_finite (cwnd s2) = true /\ B2R (cwnd s2) = rnd (B2R (cwnd s) * B2R BETA_CUBIC) /\
  0 <= B2R (cwnd s2) <= B2R (cwnd s) /\
  B2R (ssthresh s2) = Rmax (rnd (B2R (cwnd s) * B2R BETA_CUBIC)) 2 /\
  B2R BETA_CUBIC = 6305039478318694 / 9007199254740992.
Proof.
  intros cbrt s now Fc Hc. cbv zeta.
  destruct (rto_cwnd s Fc Hc) as (A1 & A2 & A3 & _ & A5).
  destruct (enter_recovery_cwnd_le cbrt s now Fc Hc) as (B1 & B2 & B3 & _ & B5).
  repeat split; try assumption; try apply B3.
Qed.

(* C15, second predicate file.  MODEL ONLY (no proofs).
   The rounding-sensitive clauses of c15_obs_ok (Cubic.v) are theorems of every model trace in
   which no more than PEND_MAX set_mss calls are consecutive: the clause that compares the byte
   window before a run of MSS changes with the one after the peer window is re-applied accumulates
   one rescaling error (3 * 2^-53 relative) per effective set_mss, so its +-1 byte tolerance is a
   theorem only for boundedly many of them.  c15_obs_ok_b is c15_obs_ok on such op lists and the
   rounding-independent c15_obs_core on the others; it holds on EVERY model trace
   (Cubic_Bytes_Proofs.model_trace_ok_b). *)
From Utp Require Import Base.Prelude Cubic.F64 Cubic.Cubic.

Definition PEND_MAX : Z := 65536.

(* n = number of set_mss calls immediately before the head of ops *)
Fixpoint setmss_run_go (n : Z) (ops : list cubic_op) : bool :=
  match ops with
  | [] => true
  | SetMss _ :: r => (n <? PEND_MAX) && setmss_run_go (n + 1) r
  | _ :: r => setmss_run_go 0 r
  end.

Definition setmss_runs_ok (ops : list cubic_op) : bool := setmss_run_go 0 ops.

Definition c15_obs_ok_b (mss0 : Z) (ops : list cubic_op) (obs : list (option (Z * Z * Z))) : bool :=
  if setmss_runs_ok ops then c15_obs_ok mss0 ops obs else c15_obs_core mss0 ops obs.

(* the clauses that c15_check true adds to c15_check false *)
Definition c15_fine_extra (a : c15_acc) (o : cubic_op) (w ss m : Z) : bool :=
  match o with
  | SetRemoteWindow win =>
      match a_pend a with
      | Some (wb, mb) =>
          if (win =? a_win a) && (2 * mb + 1 <? wb) && (wb + 1 <? win) then
            let expect := Z.max wb (Z.min (2 * a_mss a) win) in
            (expect - 1 <=? w) && (w <=? expect + 1)
          else true
      | None => true
      end
  | OnAck _ len _ => if a_w a <? a_ss a then w <=? a_w a + len + 1 else true
  | OnRto | OnEnterRecovery _ =>
      c15_ss_lower_ok (a_mss a) (a_w a) ss &&
      (if a_tight a && a_fresh a then c15_ss_upper_ok (a_mss a) (a_w a) ss else true)
  | OnRecovered _ _ => true
  | SetMss _ => true
  end.

(* ---- the cumulative slow-start bound (C05): before any loss event the byte window is at most
   2 * (largest MSS so far) + (bytes acknowledged so far).  ss_only: no loss / recovery operation. *)
Definition ss_only (o : cubic_op) : bool :=
  match o with SetRemoteWindow _ | OnAck _ _ _ | SetMss _ => true | _ => false end.

(* (largest MSS, acknowledged bytes) after ops, from (mm, acked) *)
Fixpoint ss_acc (mm acked : Z) (ops : list cubic_op) : Z * Z :=
  match ops with
  | [] => (mm, acked)
  | SetMss m' :: r => ss_acc (Z.max mm m') acked r
  | OnAck _ len _ :: r => ss_acc mm (acked + len) r
  | _ :: r => ss_acc mm acked r
  end.

Definition SS_OPS_MAX : Z := 262144.   (* 2^18 operations *)

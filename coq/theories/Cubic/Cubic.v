(* M1: src/congestion/cubic.rs (struct Cubic and its CongestionController impl).
   MODEL ONLY.  Function names are the Rust method names prefixed with `cubic_`.
   Instants are nanosecond offsets (Z >= 0) from an arbitrary base Instant; Durations are
   total nanoseconds.  `cbrt` and `powf(.,3.)` are libm calls that IEEE 754 does not
   define: Section variables without any hypothesis. *)
From Utp Require Import Base.Prelude Cubic.F64.
From Flocq Require Import IEEE754.BinarySingleNaN.

Record cubic := {
  cwnd : f64;            (* all window fields in MSS units *)
  ssthresh : f64;
  k : f64;
  w_max : f64;
  w_max_last : f64;
  mss : Z;               (* usize *)
  last_congestion_event : Z;   (* Instant, ns offset *)
  rwnd : f64
}.

(* Cubic::new(now, mss) *)
Definition cubic_new (now mss0 : Z) : cubic :=
  {| cwnd := f64_2; ssthresh := f64_inf; k := f64_zero; w_max := f64_zero;
     w_max_last := f64_zero; mss := mss0; last_congestion_event := now; rwnd := f64_zero |}.

(* the clamp of window(): cwnd.max(2.).min(rwnd), in MSS units *)
Definition cubic_eff (s : cubic) : f64 := rust_min (rust_max (cwnd s) f64_2) (rwnd s).

Definition cubic_window (s : cubic) : Z :=
  usize_of_f64 (fmul (cubic_eff s) (f64_of_Z (mss s))).

Definition cubic_sshthresh (s : cubic) : Z :=
  usize_of_f64 (fmul (ssthresh s) (f64_of_Z (mss s))).

Definition cubic_smss (s : cubic) : Z := mss s.

Definition cubic_on_retransmission_timeout (s : cubic) : cubic :=
  {| cwnd := f64_1;
     ssthresh := rust_max (fmul (cwnd s) BETA_CUBIC) f64_2;
     k := k s; w_max := cwnd s; w_max_last := w_max_last s; mss := mss s;
     last_congestion_event := last_congestion_event s; rwnd := rwnd s |}.

Definition cubic_on_recovered (s : cubic) (new_cwnd_bytes new_sshthresh : Z) : cubic :=
  let rec_cwnd := fdiv (f64_of_Z new_cwnd_bytes) (f64_of_Z (mss s)) in
  {| cwnd := rust_max (rust_min rec_cwnd (rwnd s)) f64_2;
     ssthresh := fdiv (f64_of_Z new_sshthresh) (f64_of_Z (mss s));
     k := k s; w_max := w_max s; w_max_last := w_max_last s; mss := mss s;
     last_congestion_event := last_congestion_event s; rwnd := rwnd s |}.

Definition cubic_set_remote_window (s : cubic) (win : Z) : cubic :=
  {| cwnd := cwnd s; ssthresh := ssthresh s; k := k s; w_max := w_max s;
     w_max_last := w_max_last s; mss := mss s;
     last_congestion_event := last_congestion_event s;
     rwnd := fdiv (f64_of_Z win) (f64_of_Z (mss s)) |}.

Definition cubic_set_mss (s : cubic) (new_mss : Z) : cubic :=
  if mss s =? new_mss then s else
  let rescale := fdiv (f64_of_Z (mss s)) (f64_of_Z new_mss) in
  {| cwnd := fmul (cwnd s) rescale; ssthresh := fmul (ssthresh s) rescale; k := k s;
     w_max := fmul (w_max s) rescale; w_max_last := fmul (w_max_last s) rescale;
     mss := new_mss; last_congestion_event := last_congestion_event s; rwnd := rwnd s |}.

Inductive cubic_op :=
| SetRemoteWindow (win : Z)
| OnAck (now_ns len rtt_ns : Z)
| OnRto
| OnEnterRecovery (now_ns : Z)
| OnRecovered (cwnd_bytes ssthresh_bytes : Z)
| SetMss (new_mss : Z).

Section Libm.
Variable cbrt : f64 -> f64.     (* f64::cbrt *)
Variable powf3 : f64 -> f64.    (* x.powf(3.) *)

Definition calc_k (w_max_in_mss_units : f64) : f64 :=
  cbrt (fmul w_max_in_mss_units K_FACTOR).

Definition w_cubic (t : Z) (k0 w_max0 : f64) : f64 :=
  fadd (fmul C_CUBIC (powf3 (fsub (as_secs_f64 t) k0))) w_max0.

Definition w_est (t rtt : Z) (w_max0 : f64) : f64 :=
  fadd (fmul w_max0 BETA_CUBIC) (fmul W_EST_FACTOR (fdiv (as_secs_f64 t) (as_secs_f64 rtt))).

Definition cubic_on_enter_recovery (s : cubic) (now : Z) : cubic :=
  let w_max1 := cwnd s in
  let cwnd1 := fmul (cwnd s) BETA_CUBIC in
  let w_max2 := if flt w_max1 (w_max_last s) then fmul w_max1 FAST_CONV_FACTOR else w_max1 in
  {| cwnd := cwnd1; ssthresh := rust_max cwnd1 f64_2; k := calc_k w_max2; w_max := w_max2;
     w_max_last := w_max1; mss := mss s; last_congestion_event := now; rwnd := rwnd s |}.

Definition cubic_with_cwnd (s : cubic) (c : f64) : cubic :=
  {| cwnd := c; ssthresh := ssthresh s; k := k s; w_max := w_max s;
     w_max_last := w_max_last s; mss := mss s;
     last_congestion_event := last_congestion_event s; rwnd := rwnd s |}.

(* None = panic (`t + rtt` overflowing Duration). `now - last_congestion_event` on
   Instants saturates to zero. *)
Definition cubic_on_ack (s : cubic) (now len rtt : Z) : option cubic :=
  if len =? 0 then Some s else
  if fge (cwnd s) (rwnd s) then Some s else
  let finish (c : f64) := Some (cubic_with_cwnd s (rust_max (rust_min c (rwnd s)) f64_2)) in
  if flt (cwnd s) (ssthresh s) then
    finish (fadd (cwnd s) (fdiv (f64_of_Z len) (f64_of_Z (mss s))))
  else
    let t := sat_sub now (last_congestion_event s) in
    let w_cubic_v := w_cubic t (k s) (w_max s) in
    let w_est_v := w_est t rtt (w_max s) in
    if flt w_cubic_v w_est_v then finish w_est_v
    else
      do t2 <- cu_dur_add t rtt;
      finish (fadd (cwnd s) (fdiv (fsub (w_cubic t2 (k s) (w_max s)) (cwnd s)) (cwnd s))).

Definition cubic_step (s : cubic) (o : cubic_op) : option cubic :=
  match o with
  | SetRemoteWindow win => Some (cubic_set_remote_window s win)
  | OnAck now len rtt => cubic_on_ack s now len rtt
  | OnRto => Some (cubic_on_retransmission_timeout s)
  | OnEnterRecovery now => Some (cubic_on_enter_recovery s now)
  | OnRecovered c t => Some (cubic_on_recovered s c t)
  | SetMss m => Some (cubic_set_mss s m)
  end.

Fixpoint cubic_run (s : cubic) (ops : list cubic_op) : option cubic :=
  match ops with
  | [] => Some s
  | o :: rest => do s' <- cubic_step s o; cubic_run s' rest
  end.

Definition cubic_obs (s : cubic) : Z * Z * Z := (cubic_window s, cubic_sshthresh s, cubic_smss s).

(* (window, sshthresh, smss) after each op; None marks a panic and ends the trace. *)
Fixpoint cubic_trace (s : cubic) (ops : list cubic_op) : list (option (Z * Z * Z)) :=
  match ops with
  | [] => []
  | o :: rest =>
      match cubic_step s o with
      | Some s' => Some (cubic_obs s') :: cubic_trace s' rest
      | None => [None]
      end
  end.
End Libm.

(* ---- C15 as a boolean predicate over (initial mss, ops, observed integer trace).
   Everything is phrased on the three observable integers.  The predicate keeps:
     a_mss    current MSS
     a_win    last peer window given to set_remote_window (0 initially)
     a_fresh  the peer window has been (re-)applied since the last effective MSS change
     a_w,a_ss previous window()/sshthresh()
     a_tight  cwnd <= max(rwnd, 2) is known (so that window() reflects cwnd whenever it is
              not clamped): needed for the two-sided ssthresh check
     a_pend   Some (window, mss) recorded before an MSS change, while only set_mss calls
              have happened since: checked when the same peer window is re-applied
   Clauses are only demanded inside the domain of the theorems (1 <= mss < 2^16,
   win < 2^32, len/bytes < 2^32); outside it the predicate stops checking (a_dom). *)
Record c15_acc := {
  a_mss : Z; a_win : Z; a_fresh : bool; a_w : Z; a_ss : Z; a_tight : bool;
  a_pend : option (Z * Z); a_dom : bool
}.

Definition c15_mss_ok (m : Z) : bool := (1 <=? m) && (m <? 65536).
Definition c15_u32 (x : Z) : bool := (0 <=? x) && (x <? M32).

Definition c15_acc0 (mss0 : Z) : c15_acc :=
  {| a_mss := mss0; a_win := 0; a_fresh := true; a_w := 0; a_ss := USIZE_MAX; a_tight := true;
     a_pend := None; a_dom := c15_mss_ok mss0 |}.

(* window bounds after the peer window is in force *)
Definition c15_bounds_ok (m win w : Z) : bool :=
  (0 <=? w) && (w <=? win) && (Z.min (2 * m) win - 1 <=? w).

(* sshthresh after a loss event, from the window before it *)
Definition c15_ss_lower_ok (m w_prev ss : Z) : bool :=
  7 * w_prev <=? 10 * (ss + 1).
Definition c15_ss_upper_ok (m w_prev ss : Z) : bool :=
  ss <=? Z.max (2 * m) ((7 * (w_prev + 1)) / 10 + 1).

(* `fine = false` keeps the clauses that do not depend on float rounding (proved true of
   every model trace: Cubic_Proofs.c15_model_trace_core_ok); `fine = true` adds the
   rounding-sensitive ones (validated on model and implementation traces by tools/check). *)
Definition c15_check (fine : bool) (a : c15_acc) (o : cubic_op) (w ss m : Z) : bool :=
  (m =? (match o with SetMss m' => m' | _ => a_mss a end)) &&
  match o with
  | SetRemoteWindow win =>
      c15_bounds_ok (a_mss a) win w && (ss =? a_ss a) &&
      (if fine then
        match a_pend a with
        | Some (wb, mb) =>
            (* MSS changed, same peer window re-applied, old window strictly unclamped:
               same bytes (up to one unit of truncation) or the new two-segment floor *)
            if (win =? a_win a) && (2 * mb + 1 <? wb) && (wb + 1 <? win) then
              let expect := Z.max wb (Z.min (2 * a_mss a) win) in
              (expect - 1 <=? w) && (w <=? expect + 1)
            else true
        | None => true
        end
       else true)
  | OnAck _ len _ =>
      (if a_fresh a then c15_bounds_ok (a_mss a) (a_win a) w else true) &&
      (ss =? a_ss a) &&
      (if len =? 0 then w =? a_w a else true) &&
      (* slow start (window below ssthresh): growth by at most the acknowledged bytes,
         plus one unit of float-to-integer truncation *)
      (if fine && (a_w a <? a_ss a) then w <=? a_w a + len + 1 else true)
  | OnRto | OnEnterRecovery _ =>
      (if a_fresh a then c15_bounds_ok (a_mss a) (a_win a) w else true) &&
      (w <=? a_w a) && (2 * a_mss a <=? ss) &&
      (if fine then c15_ss_lower_ok (a_mss a) (a_w a) ss else true) &&
      (if fine && a_tight a && a_fresh a then c15_ss_upper_ok (a_mss a) (a_w a) ss else true)
  | OnRecovered _ _ =>
      (if a_fresh a then c15_bounds_ok (a_mss a) (a_win a) w else true)
  | SetMss m' => if m' =? a_mss a then (w =? a_w a) && (ss =? a_ss a) else true
  end.

(* 2^60 s in ns: the bound under which RttEstimator::sample does not overflow (C16) *)
Definition C15_RTT_MAX : Z := 1152921504606846976 * CU_NS_PER_SEC.

Definition c15_op_dom (o : cubic_op) : bool :=
  match o with
  | SetRemoteWindow win => c15_u32 win
  | OnAck now len rtt => (0 <=? now) && (now <? M64) && c15_u32 len && (0 <=? rtt) && (rtt <=? C15_RTT_MAX)
  | OnRto => true
  | OnEnterRecovery now => (0 <=? now) && (now <? M64)
  | OnRecovered c t => c15_u32 c && c15_u32 t
  | SetMss m => c15_mss_ok m
  end.

Definition c15_next (a : c15_acc) (o : cubic_op) (w ss m : Z) : c15_acc :=
  let dom := a_dom a && c15_op_dom o in
  match o with
  | SetRemoteWindow win =>
      {| a_mss := a_mss a; a_win := win; a_fresh := true; a_w := w; a_ss := ss;
         a_tight := a_tight a && a_fresh a && (a_win a <=? win); a_pend := None; a_dom := dom |}
  | OnAck _ _ _ =>
      {| a_mss := a_mss a; a_win := a_win a; a_fresh := a_fresh a; a_w := w; a_ss := ss;
         a_tight := a_tight a; a_pend := None; a_dom := dom |}
  | OnRto =>
      {| a_mss := a_mss a; a_win := a_win a; a_fresh := a_fresh a; a_w := w; a_ss := ss;
         a_tight := true; a_pend := None; a_dom := dom |}
  | OnEnterRecovery _ =>
      {| a_mss := a_mss a; a_win := a_win a; a_fresh := a_fresh a; a_w := w; a_ss := ss;
         a_tight := a_tight a; a_pend := None; a_dom := dom |}
  | OnRecovered _ _ =>
      {| a_mss := a_mss a; a_win := a_win a; a_fresh := a_fresh a; a_w := w; a_ss := ss;
         a_tight := true; a_pend := None; a_dom := dom |}
  | SetMss m' =>
      if m' =? a_mss a then
        {| a_mss := a_mss a; a_win := a_win a; a_fresh := a_fresh a; a_w := w; a_ss := ss;
           a_tight := a_tight a; a_pend := a_pend a; a_dom := dom |}
      else
        {| a_mss := m'; a_win := a_win a; a_fresh := false; a_w := w; a_ss := ss;
           a_tight := false;
           a_pend := (match a_pend a with
                      | Some p => Some p
                      | None => if a_fresh a && a_tight a then Some (a_w a, a_mss a) else None
                      end);
           a_dom := dom |}
  end.

Fixpoint c15_obs_go (fine : bool) (a : c15_acc) (ops : list cubic_op)
         (obs : list (option (Z * Z * Z))) : bool :=
  match ops, obs with
  | [], [] => true
  | o :: ops', Some (w, ss, m) :: obs' =>
      if a_dom a && c15_op_dom o then
        c15_check fine a o w ss m && c15_obs_go fine (c15_next a o w ss m) ops' obs'
      else true   (* outside the domain of the theorems: nothing is demanded from here on *)
  | o :: _, None :: _ =>
      (* the only panic of the model is the Duration overflow of t + rtt, impossible inside
         the domain; a panic inside the domain is a failure *)
      negb (a_dom a && c15_op_dom o)
  | _, _ => false
  end.

Definition c15_obs_ok (mss0 : Z) (ops : list cubic_op) (obs : list (option (Z * Z * Z))) : bool :=
  c15_obs_go true (c15_acc0 mss0) ops obs.
Definition c15_obs_core (mss0 : Z) (ops : list cubic_op) (obs : list (option (Z * Z * Z))) : bool :=
  c15_obs_go false (c15_acc0 mss0) ops obs.

(* Byte-level proofs about the Cubic model (Cubic.v) over Flocq binary64: the slow-start bound on
   window() in bytes, the rounding-sensitive clauses of c15_obs_ok on every model trace, and the
   byte-level form of set_mss rescaling.
   Library axioms (Coq Reals / Flocq) as in Cubic_Proofs.v.  cbrt / powf3 are Section variables
   without hypotheses wherever they occur. *)
From Coq Require Import Reals Lra Lia ZArith Psatz.
From Coq Require Import Floats.SpecFloat.
From Flocq Require Import Core BinarySingleNaN Relative.
From Utp Require Import Base.Prelude Cubic.F64 Cubic.Cubic Cubic.C15_Pred2 Cubic.Cubic_Proofs.
Open Scope R_scope.

(* ---- absolute rounding error: |x| <= 2^e  ->  |fl(x) - x| <= 2^(e-54)  (half an ulp) *)
Lemma abs_err : forall x e, (-1021 <= e)%Z -> Rabs x <= bpow radix2 e ->
  Rabs (rnd x - x) <= bpow radix2 (e - 54).
Proof.
  intros x e He Hx.
  destruct (Req_dec x 0) as [->|Nz].
  { rewrite rnd_0, Rminus_0_r, Rabs_R0. apply bpow_ge_0. }
  destruct Hx as [Hlt|Heq].
  - rewrite rnd_FLT. eapply Rle_trans; [apply error_le_half_ulp; auto with typeclass_instances|].
    rewrite ulp_neq_0 by exact Nz. unfold cexp.
    assert (Hm : (mag radix2 x <= e)%Z) by (apply mag_le_bpow; assumption).
    replace (bpow radix2 (e - 54)) with (/ 2 * bpow radix2 (e - 53)).
    + apply Rmult_le_compat_l; [lra|]. apply bpow_le. unfold FLT_exp. lia.
    + replace (e - 53)%Z with (1 + (e - 54))%Z by lia. rewrite bpow_plus.
      change (bpow radix2 1) with 2. field.
  - rewrite rnd_generic.
    + unfold Rminus. rewrite Rplus_opp_r, Rabs_R0. apply bpow_ge_0.
    + apply generic_format_abs_inv. rewrite Heq.
      apply generic_format_FLT_bpow; [auto with typeclass_instances | lia].
Qed.

Lemma err_2_48 : forall x, 0 <= x <= 281474976710656 -> Rabs (rnd x - x) <= / 64.
Proof.
  intros x H. replace (/ 64) with (bpow radix2 (48 - 54)) by reflexivity.
  apply abs_err; [lia|]. rewrite Rabs_pos_eq by lra.
  change (bpow radix2 48) with (IZR (2 ^ 48)). apply H.
Qed.

Lemma err_2_33 : forall x, 0 <= x <= 8589934592 -> Rabs (rnd x - x) <= / 2097152.
Proof.
  intros x H. replace (/ 2097152) with (bpow radix2 (33 - 54)) by reflexivity.
  apply abs_err; [lia|]. rewrite Rabs_pos_eq by lra.
  change (bpow radix2 33) with (IZR (2 ^ 33)). apply H.
Qed.

Lemma err_2_32 : forall x, 0 <= x <= 4294967296 -> Rabs (rnd x - x) <= / 4194304.
Proof.
  intros x H. replace (/ 4194304) with (bpow radix2 (32 - 54)) by reflexivity.
  apply abs_err; [lia|]. rewrite Rabs_pos_eq by lra.
  change (bpow radix2 32) with (IZR (2 ^ 32)). apply H.
Qed.

Lemma rnd_ge_0 : forall x, 0 <= x -> 0 <= rnd x.
Proof. intros x H. rewrite <- rnd_0. apply rnd_le. exact H. Qed.

Lemma rnd_le_fmt : forall x y, generic_format radix2 fexp64 y -> x <= y -> rnd x <= y.
Proof. intros x y Hy H. rewrite <- (rnd_generic y Hy). apply rnd_le. exact H. Qed.

Lemma rnd_ge_fmt : forall x y, generic_format radix2 fexp64 y -> y <= x -> y <= rnd x.
Proof. intros x y Hy H. rewrite <- (rnd_generic y Hy). apply rnd_le. exact H. Qed.

(* the clamp of window() on reals: monotone and 1-Lipschitz *)
Definition clamp (c rho : R) : R := Rmin (Rmax c 2) rho.

Lemma clamp_mono_lip : forall c a rho, c <= a ->
  clamp c rho <= clamp a rho <= clamp c rho + (a - c).
Proof. unfold clamp, Rmin, Rmax; intros; repeat destruct (Rle_dec _ _); lra. Qed.

Lemma clamp_idem : forall a rho, clamp (Rmax (Rmin a rho) 2) rho = clamp a rho.
Proof. unfold clamp, Rmin, Rmax; intros; repeat destruct (Rle_dec _ _); lra. Qed.

Lemma clamp_range : forall c rho, 0 <= rho -> 0 <= clamp c rho <= rho.
Proof. unfold clamp, Rmin, Rmax; intros; repeat destruct (Rle_dec _ _); lra. Qed.

Lemma clamp_small_rho : forall c rho, rho <= 2 -> clamp c rho = rho.
Proof. unfold clamp, Rmin, Rmax; intros; repeat destruct (Rle_dec _ _); lra. Qed.

Lemma Ztrunc_add_le : forall P P' n, 0 <= P -> 0 <= P' -> P' <= P + IZR n + / 2 ->
  (Ztrunc P' <= Ztrunc P + n + 1)%Z.
Proof.
  intros P P' n H0 H0' H. apply Ztrunc_lt_succ; [exact H0'|].
  rewrite (Ztrunc_floor P H0). rewrite !plus_IZR.
  pose proof (Zfloor_ub P). lra.
Qed.

Lemma mss_R : forall m, mss_ok m -> 1 <= IZR m <= 65535.
Proof. intros m H. unfold mss_ok in H. split; apply IZR_le; lia. Qed.

Lemma window_val_fin : forall s, mss_ok (mss s) -> rwnd_ok (rwnd s) -> is_finite (cwnd s) = true ->
  cubic_window s = Ztrunc (rnd (clamp (B2R (cwnd s)) (B2R (rwnd s)) * IZR (mss s))).
Proof.
  intros s Hm Hok Fc. destruct (window_val s Hm Hok) as [E _]. rewrite E, (clampR_finite _ _ Fc).
  reflexivity.
Qed.

(* ---- (1) slow start, bytes: one on_ack changes window() by at least 0 and at most len + 1 *)
Section SlowStartBytes.
Variable powf3 : f64 -> f64.

Lemma slow_start_bytes : forall s now len rtt,
  mss_ok (mss s) -> rwnd_ok (rwnd s) -> (0 <= len < 2 ^ 32)%Z ->
  is_finite (cwnd s) = true -> 0 <= B2R (cwnd s) ->
  flt (cwnd s) (ssthresh s) = true ->
  exists s', cubic_on_ack powf3 s now len rtt = Some s' /\
    mss s' = mss s /\ rwnd s' = rwnd s /\ ssthresh s' = ssthresh s /\
    last_congestion_event s' = last_congestion_event s /\
    (cubic_window s <= cubic_window s' <= cubic_window s + len + 1)%Z.
Proof.
  intros s now len rtt Hm Hok Hl Fc Hc Hlt.
  destruct (Z.eq_dec len 0) as [->|Hnz].
  { exists s. unfold cubic_on_ack. cbn [Z.eqb]. repeat split; try reflexivity; lia. }
  destruct (fge (cwnd s) (rwnd s)) eqn:Hge.
  { exists s. unfold cubic_on_ack. destruct (Z.eqb_spec len 0) as [E|_]; [contradiction|].
    rewrite Hge. repeat split; try reflexivity; lia. }
  assert (Hl' : (0 < len < 2 ^ 32)%Z) by lia.
  destruct (slow_start_mss_units powf3 s now len rtt Hm Hok Hl' Fc Hc Hge Hlt)
    as (s' & E & Ec' & Fc' & Vc' & _ & Es & Em & Er).
  exists s'. split; [exact E|]. split; [exact Em|]. split; [exact Er|]. split; [exact Es|].
  split. { clear Ec' Vc' Fc'. unfold cubic_on_ack in E.
           destruct (Z.eqb_spec len 0) as [E0|_]; [contradiction|]. rewrite Hge, Hlt in E.
           injection E as <-. reflexivity. }
  assert (Hm' : mss_ok (mss s')) by (rewrite Em; exact Hm).
  assert (Hok' : rwnd_ok (rwnd s')) by (rewrite Er; exact Hok).
  rewrite (window_val_fin s Hm Hok Fc), (window_val_fin s' Hm' Hok' Fc'), Em, Er, Vc'.
  destruct Hok as [Frw Hrw].
  assert (Hcr : B2R (cwnd s) < B2R (rwnd s)).
  { unfold fge in Hge. rewrite (Bleb_correct 53 1024 _ _ Frw Fc) in Hge.
    destruct (Rle_bool_spec (B2R (rwnd s)) (B2R (cwnd s))); [discriminate|assumption]. }
  pose proof (mss_R _ Hm) as HM.
  set (rho := B2R (rwnd s)) in *. set (c := B2R (cwnd s)) in *. set (M := IZR (mss s)) in *.
  set (L := IZR len).
  assert (HL : 1 <= L <= 4294967296) by (unfold L; split; apply IZR_le; lia).
  assert (Hinv : / 65536 <= / M <= 1).
  { split; [apply Rinv_le_contravar; lra|]. rewrite <- Rinv_1. apply Rinv_le_contravar; lra. }
  assert (HLM : 0 <= L / M <= 4294967296) by (unfold Rdiv; split; nra).
  set (q := rnd (L / M)).
  assert (Hq : Rabs (q - L / M) <= / 4194304) by (apply err_2_32; exact HLM).
  apply Rabs_le_inv in Hq.
  assert (Hq0 : 0 <= q) by (apply rnd_ge_0; lra).
  assert (Hq1 : q <= 4294967296) by (apply rnd_le_fmt; [exact pow32_fmt | lra]).
  set (a := rnd (c + q)).
  assert (Ha : Rabs (a - (c + q)) <= / 2097152) by (apply err_2_33; lra).
  apply Rabs_le_inv in Ha.
  assert (Hac : c <= a) by (apply rnd_ge_fmt; [apply fmt_B2R | lra]).
  rewrite clamp_idem.
  destruct (clamp_mono_lip c a rho Hac) as [V1 V2].
  destruct (clamp_range c rho (proj1 Hrw)) as [V3 V4].
  destruct (clamp_range a rho (proj1 Hrw)) as [V5 V6].
  set (v := clamp c rho) in *. set (v' := clamp a rho) in *.
  assert (Hx : 0 <= v * M <= 281474976710656) by (split; nra).
  assert (Hx' : 0 <= v' * M <= 281474976710656) by (split; nra).
  assert (Hd : (a - c) * M <= L + 3 / 64).
  { assert ((a - c) <= L / M + 3 / 4194304) by lra.
    assert (L / M * M = L) by (field; lra). nra. }
  assert (Hxx : v' * M <= v * M + L + 3 / 64) by nra.
  pose proof (err_2_48 _ Hx) as HP. apply Rabs_le_inv in HP.
  pose proof (err_2_48 _ Hx') as HP'. apply Rabs_le_inv in HP'.
  split.
  - apply Ztrunc_le, rnd_le. nra.
  - apply Ztrunc_add_le; [apply rnd_ge_0; lra | apply rnd_ge_0; lra | fold L; lra].
Qed.
End SlowStartBytes.

(* ---- (2) invariants of every reachable state that the rounding-sensitive clauses need *)

(* cwnd (and ssthresh) are never NaN, never negative, never -inf: +inf or finite >= 0 *)
Definition cwnd_ok (c : f64) : Prop :=
  c = B754_infinity false \/ (is_finite c = true /\ 0 <= B2R c).

Lemma rust_min_ninf_l : forall b : f64, is_finite b = true ->
  rust_min (B754_infinity true) b = B754_infinity true.
Proof. intros b Fb. destruct b as [s|s| |s m e B]; try discriminate Fb; reflexivity. Qed.

(* the common tail of on_ack / on_recovered: max(min(X, rwnd), 2.) for ANY float X *)
Lemma finish_ok : forall X rw : f64, is_finite rw = true ->
  is_finite (rust_max (rust_min X rw) f64_2) = true /\
  2 <= B2R (rust_max (rust_min X rw) f64_2) <= Rmax (B2R rw) 2.
Proof.
  intros X rw Frw. destruct f64_2_correct as [F2 V2].
  assert (Fin : forall Y : f64, is_finite Y = true -> B2R Y <= B2R rw ->
            is_finite (rust_max Y f64_2) = true /\
            2 <= B2R (rust_max Y f64_2) <= Rmax (B2R rw) 2).
  { intros Y FY HY. destruct (rust_max_finite Y f64_2 FY F2) as [F V]. split; [exact F|].
    rewrite V, V2. unfold Rmax. repeat destruct (Rle_dec _ _); lra. }
  destruct X as [s|[|]| |s m e B].
  - destruct (rust_min_finite (B754_zero s) rw eq_refl Frw) as [F V].
    apply Fin; [exact F|]. rewrite V. apply Rmin_r.
  - rewrite (rust_min_ninf_l _ Frw), (rust_max_ninf_l _ F2). split; [exact F2|].
    rewrite V2. split; [lra|apply Rmax_r].
  - rewrite (rust_min_pinf_l _ Frw). apply Fin; [exact Frw | lra].
  - change (rust_min B754_nan rw) with rw. apply Fin; [exact Frw | lra].
  - destruct (rust_min_finite (B754_finite s m e B) rw eq_refl Frw) as [F V].
    apply Fin; [exact F|]. rewrite V. apply Rmin_r.
Qed.

Lemma finish_cwnd_ok : forall X rw : f64, is_finite rw = true ->
  cwnd_ok (rust_max (rust_min X rw) f64_2).
Proof. intros X rw Frw. destruct (finish_ok X rw Frw) as [F [H _]]. right. split; [exact F | lra]. Qed.

(* multiplication by a positive finite float keeps cwnd_ok, overflow included *)
Lemma fmul_pos_ok : forall c r : f64, cwnd_ok c -> is_finite r = true -> 0 < B2R r ->
  cwnd_ok (fmul c r).
Proof.
  intros c r Hc Fr Hr. destruct (finite_sign r Fr Hr) as (mr & er & Br & Er).
  destruct Hc as [->|[Fc Hc]].
  { left. rewrite Er. reflexivity. }
  destruct (Req_dec (B2R c) 0) as [Z|NZ].
  - destruct (fmul_correct c r Fc Fr) as [F V].
    { rewrite Z, Rmult_0_l, Rabs_R0. apply bpow_ge_0. }
    right. split; [exact F|]. rewrite V, Z, Rmult_0_l, rnd_0. lra.
  - destruct (finite_sign c Fc) as (mc & ec & Bc & Ec); [lra|].
    pose proof (Bmult_correct 53 1024 f64_prec_gt_0 f64_prec_lt_emax mode_NE c r) as H.
    fold (rnd (B2R c * B2R r)) in H. fold (fmul c r) in H.
    set (P := fmul c r) in *.
    assert (SC : Bsign c = false) by (rewrite Ec; reflexivity).
    assert (SR : Bsign r = false) by (rewrite Er; reflexivity).
    destruct (Rlt_bool (Rabs (rnd (B2R c * B2R r))) (bpow radix2 1024)).
    + destruct H as (V & F & _). rewrite Fc, Fr in F. right. split; [exact F|].
      rewrite V. apply rnd_ge_0. nra.
    + rewrite SC, SR in H. cbn in H. left.
      destruct P as [s|s| |s m' e' B']; try discriminate H.
      cbn in H. injection H as ->. reflexivity.
Qed.

Lemma BETA_pos : 0 < B2R BETA_CUBIC.
Proof. apply BETA_range. Qed.

Lemma rescale_ok : forall m m', mss_ok m -> mss_ok m' ->
  is_finite (fdiv (f64_of_Z m) (f64_of_Z m')) = true /\
  0 < B2R (fdiv (f64_of_Z m) (f64_of_Z m')).
Proof.
  intros m m' Hm Hm'. destruct (mss_correct _ Hm) as [F1 V1]. destruct (mss_correct _ Hm') as [F2 V2].
  pose proof (mss_R _ Hm) as H1. pose proof (mss_R _ Hm') as H2.
  assert (Hinv : / 65536 <= / IZR m' <= 1).
  { split; [apply Rinv_le_contravar; lra|]. rewrite <- Rinv_1. apply Rinv_le_contravar; lra. }
  assert (Hq : / 65536 <= IZR m / IZR m' <= 65536) by (unfold Rdiv; split; nra).
  destruct (fdiv_correct (f64_of_Z m) (f64_of_Z m') F1) as [Fr Vr].
  { rewrite V2. lra. }
  { rewrite V1, V2, Rabs_pos_eq by lra. apply le_bpow_1000. lra. }
  split; [exact Fr|]. rewrite Vr, V1, V2.
  apply Rlt_le_trans with (/ 65536); [apply Rinv_0_lt_compat; lra|].
  apply rnd_ge_fmt; [|lra].
  replace (/ 65536) with (bpow radix2 (-16)) by reflexivity.
  apply generic_format_FLT_bpow; [auto with typeclass_instances | lia].
Qed.

Lemma f64_1_ok : cwnd_ok f64_1.
Proof. right. destruct f64_1_correct as [F V]. split; [exact F|]. rewrite V. lra. Qed.

Lemma rust_max_2_ok : forall x : f64, cwnd_ok x -> cwnd_ok (rust_max x f64_2).
Proof.
  intros x [->|[F H]]; destruct f64_2_correct as [F2 V2].
  - left. apply rust_max_pinf_l. exact F2.
  - destruct (rust_max_finite x f64_2 F F2) as [F' V']. right. split; [exact F'|].
    rewrite V', V2. apply Rle_trans with 2; [lra | apply Rmax_r].
Qed.

Section Steps.
Variable cbrt : f64 -> f64.
Variable powf3 : f64 -> f64.

Lemma on_ack_cases : forall s now len rtt s', cubic_on_ack powf3 s now len rtt = Some s' ->
  s' = s \/ exists X, s' = cubic_with_cwnd s (rust_max (rust_min X (rwnd s)) f64_2).
Proof.
  intros s now len rtt s' E. unfold cubic_on_ack in E.
  destruct (len =? 0)%Z; [injection E as <-; left; reflexivity|].
  destruct (fge (cwnd s) (rwnd s)); [injection E as <-; left; reflexivity|].
  destruct (flt (cwnd s) (ssthresh s)); [injection E as <-; right; eexists; reflexivity|].
  destruct (flt _ _); [injection E as <-; right; eexists; reflexivity|].
  destruct (cu_dur_add _ _); cbn [bind] in E; [|discriminate E].
  injection E as <-; right; eexists; reflexivity.
Qed.

(* cwnd and ssthresh stay +inf-or-finite-nonnegative under every operation *)
Lemma step_cwnd_ok : forall s o s', mss_ok (mss s) -> is_finite (rwnd s) = true ->
  c15_op_dom o = true -> cwnd_ok (cwnd s) -> cwnd_ok (ssthresh s) ->
  cubic_step cbrt powf3 s o = Some s' -> cwnd_ok (cwnd s') /\ cwnd_ok (ssthresh s').
Proof.
  intros s o s' Hm Frw Hd Hc Hs E.
  destruct o as [win|now len rtt| |now|cb sb|m']; cbn [cubic_step] in E.
  - injection E as <-. split; assumption.
  - destruct (on_ack_cases _ _ _ _ _ E) as [->|[X ->]]; [split; assumption|].
    cbn [cubic_with_cwnd cwnd ssthresh]. split; [apply finish_cwnd_ok; exact Frw | exact Hs].
  - injection E as <-. cbn [cubic_on_retransmission_timeout cwnd ssthresh].
    split; [exact f64_1_ok|]. apply rust_max_2_ok, fmul_pos_ok; [exact Hc | exact BETA_finite | exact BETA_pos].
  - injection E as <-. cbn [cubic_on_enter_recovery cwnd ssthresh].
    assert (cwnd_ok (fmul (cwnd s) BETA_CUBIC))
      by (apply fmul_pos_ok; [exact Hc | exact BETA_finite | exact BETA_pos]).
    split; [assumption | apply rust_max_2_ok; assumption].
  - injection E as <-. cbn [cubic_on_recovered cwnd ssthresh].
    split; [apply finish_cwnd_ok; exact Frw|].
    unfold c15_op_dom in Hd. apply andb_true_iff in Hd. destruct Hd as [_ Hd].
    assert (Hsb : (0 <= sb < 2 ^ 32)%Z) by (unfold c15_u32, M32 in Hd; lia).
    destruct (set_rw_ok _ _ Hm Hsb) as [[F H] _]. right. split; [exact F | apply H].
  - injection E as <-. unfold cubic_set_mss. destruct (mss s =? m')%Z; [split; assumption|].
    cbn [cwnd ssthresh]. unfold c15_op_dom in Hd. apply mss_ok_b in Hd.
    destruct (rescale_ok _ _ Hm Hd) as [Fr Hr].
    split; apply fmul_pos_ok; assumption.
Qed.
End Steps.

(* ---- sshthresh() as a real number *)
Lemma sshthresh_val : forall (S : f64) m, mss_ok m -> is_finite S = true ->
  0 <= B2R S <= 8589934592 ->
  usize_of_f64 (fmul S (f64_of_Z m)) = Ztrunc (rnd (B2R S * IZR m)).
Proof.
  intros S m Hm FS HS. destruct (mss_correct _ Hm) as [Fm Vm]. pose proof (mss_R _ Hm) as HM.
  assert (Hp : 0 <= B2R S * IZR m <= 562949953421312) by (split; nra).
  destruct (fmul_correct S (f64_of_Z m) FS Fm) as [Fp Vp].
  { rewrite Vm, Rabs_pos_eq by lra. apply le_bpow_1000. lra. }
  rewrite (usize_of_finite _ Fp), Vp, Vm.
  assert (0 <= Ztrunc (rnd (B2R S * IZR m)) <= 562949953421312)%Z.
  { split.
    - rewrite <- (Ztrunc_IZR 0). apply Ztrunc_le. apply rnd_ge_0. lra.
    - rewrite <- (Ztrunc_IZR 562949953421312). apply Ztrunc_le.
      apply rnd_le_fmt; [apply (fmt_Z 562949953421312); lia | lra]. }
  unfold USIZE_MAX, M64. lia.
Qed.

(* lower bound on usize(X * mss) that survives overflow of the product to +inf *)
Lemma usize_fmul_ge : forall (X : f64) m n, mss_ok m -> is_finite X = true -> 0 < B2R X ->
  (0 <= n <= USIZE_MAX)%Z -> IZR n <= rnd (B2R X * IZR m) ->
  (n <= usize_of_f64 (fmul X (f64_of_Z m)))%Z.
Proof.
  intros X m n Hm FX HX Hn H.
  destruct (mss_correct m Hm) as [Fm Vm]. destruct (mss_shape m Hm) as (mm & em & Bm & Em).
  destruct (finite_sign X FX HX) as (mx & ex & Bx & EX).
  pose proof (Bmult_correct 53 1024 f64_prec_gt_0 f64_prec_lt_emax mode_NE X (f64_of_Z m)) as HB.
  fold (rnd (B2R X * B2R (f64_of_Z m))) in HB. fold (fmul X (f64_of_Z m)) in HB.
  set (P := fmul X (f64_of_Z m)) in *.
  assert (SX : Bsign X = false) by (rewrite EX; reflexivity).
  assert (SM : Bsign (f64_of_Z m) = false) by (rewrite Em; reflexivity).
  destruct (Rlt_bool (Rabs (rnd (B2R X * B2R (f64_of_Z m)))) (bpow radix2 1024)).
  - destruct HB as (V & F & _). rewrite FX, Fm in F.
    apply usize_ge_of_real; [exact F | exact Hn |]. rewrite V, Vm. exact H.
  - rewrite SX, SM in HB. cbn in HB.
    destruct P as [s|s| |s m' e' B']; try discriminate HB.
    cbn in HB. injection HB as ->. cbn. exact (proj2 Hn).
Qed.

Lemma BETA_exact : B2R BETA_CUBIC = 7 / 10 - 4 / 10 * / 9007199254740992.
Proof. rewrite BETA_val. field. Qed.

Lemma window_range : forall s, mss_ok (mss s) -> rwnd_ok (rwnd s) ->
  (0 <= cubic_window s <= 281474976710656)%Z.
Proof.
  intros s Hm Hok. destruct (window_val s Hm Hok) as [E [H0 H1]]. rewrite E. split.
  - rewrite <- (Ztrunc_IZR 0). apply Ztrunc_le. exact H0.
  - rewrite <- (Ztrunc_IZR 281474976710656). apply Ztrunc_le. exact H1.
Qed.

Lemma Ztrunc_le_self : forall x, 0 <= x -> IZR (Ztrunc x) <= x.
Proof. intros x H. rewrite Ztrunc_floor by exact H. apply Zfloor_lb. Qed.

Lemma Ztrunc_gt_pred : forall x, 0 <= x -> x < IZR (Ztrunc x) + 1.
Proof. intros x H. rewrite Ztrunc_floor by exact H. apply Zfloor_ub. Qed.

(* the real-number core of the lower ssthresh clause: 0.7 * window <= sshthresh + 1 *)
Lemma ss_lower_real : forall v M, 0 <= v <= 4294967296 -> 1 <= M <= 65535 ->
  let R0 := rnd (rnd (v * B2R BETA_CUBIC) * M) in
  0 <= R0 /\ (7 * Ztrunc (rnd (v * M)) <= 10 * (Ztrunc R0 + 1))%Z.
Proof.
  intros v M Hv HM R0. pose proof BETA_exact as Eb.
  assert (Hb : 0 <= v * B2R BETA_CUBIC <= 4294967296) by (rewrite Eb; split; nra).
  pose proof (err_2_32 _ Hb) as E1. apply Rabs_le_inv in E1.
  set (S0 := rnd (v * B2R BETA_CUBIC)) in *.
  assert (HS0 : 0 <= S0) by (apply rnd_ge_0; lra).
  assert (Hx : 0 <= v * M <= 281474976710656) by (split; nra).
  assert (HvbM : v * B2R BETA_CUBIC * M = 7 / 10 * (v * M) - 4 / 10 * / 9007199254740992 * (v * M))
    by (rewrite Eb; ring).
  assert (HSM : 0 <= S0 * M <= 281474976710656).
  { split; [nra|].
    assert (S0 * M <= v * B2R BETA_CUBIC * M + / 4194304 * M) by nra. nra. }
  pose proof (err_2_48 _ HSM) as E2. apply Rabs_le_inv in E2. fold R0 in E2.
  pose proof (err_2_48 _ Hx) as E3. apply Rabs_le_inv in E3.
  assert (HR0 : 0 <= R0) by (apply rnd_ge_0; lra).
  split; [exact HR0|].
  set (W := rnd (v * M)) in *.
  assert (HW : 0 <= W) by (apply rnd_ge_0; lra).
  pose proof (Ztrunc_le_self W HW) as Hw. pose proof (Ztrunc_gt_pred R0 HR0) as Hn.
  set (w := Ztrunc W) in *. set (n := Ztrunc R0) in *.
  assert (Hlow : S0 * M >= v * B2R BETA_CUBIC * M - / 64) by nra.
  assert (Hfin : IZR (7 * w - 1) < IZR (10 * (n + 1))).
  { rewrite minus_IZR, !mult_IZR, plus_IZR. nra. }
  apply lt_IZR in Hfin. lia.
Qed.

(* RTO / enter-recovery: 7 * window_before <= 10 * (sshthresh_after + 1), every reachable state *)
Lemma ss_lower : forall s, mss_ok (mss s) -> rwnd_ok (rwnd s) -> cwnd_ok (cwnd s) ->
  (7 * cubic_window s <=
   10 * (usize_of_f64 (fmul (rust_max (fmul (cwnd s) BETA_CUBIC) f64_2) (f64_of_Z (mss s))) + 1))%Z.
Proof.
  intros s Hm Hok Hc. destruct f64_2_correct as [F2 V2].
  pose proof (window_range s Hm Hok) as Hwr.
  destruct Hc as [Ec|[Fc Hc]].
  - rewrite Ec. destruct BETA_shape as (mb & eb & Bb & EB). rewrite EB.
    change (fmul (B754_infinity false) (B754_finite false mb eb Bb)) with f64_inf.
    unfold f64_inf.
    rewrite (rust_max_pinf_l _ F2). destruct (mss_shape _ Hm) as (mm & em & Bm & Em). rewrite Em.
    assert (EU : usize_of_f64 (fmul f64_inf (B754_finite false mm em Bm)) = USIZE_MAX) by reflexivity.
    unfold f64_inf in EU. rewrite EU.
    unfold USIZE_MAX, M64. lia.
  - pose proof BETA_range as Hbeta.
    destruct (fmul_correct_le (cwnd s) BETA_CUBIC (cwnd s) Fc BETA_finite) as [Ft Vt].
    { rewrite Rabs_mult, (Rabs_pos_eq (B2R BETA_CUBIC)) by lra. pose proof (Rabs_pos (B2R (cwnd s))). nra. }
    destruct (rust_max_finite _ f64_2 Ft F2) as [FS VS]. rewrite Vt, V2 in VS.
    set (S := rust_max (fmul (cwnd s) BETA_CUBIC) f64_2) in *.
    rewrite (window_val_fin s Hm Hok Fc). destruct Hok as [Frw Hrw].
    destruct (clamp_range (B2R (cwnd s)) (B2R (rwnd s)) (proj1 Hrw)) as [V0 V1].
    set (c := B2R (cwnd s)) in *. set (rho := B2R (rwnd s)) in *. set (v := clamp c rho) in *.
    pose proof (mss_R _ Hm) as HM.
    assert (Hv : 0 <= v <= 4294967296) by lra.
    destruct (ss_lower_real v (IZR (mss s)) Hv HM) as [HR0 Hmain]. cbv zeta in HR0, Hmain.
    set (R0 := rnd (rnd (v * B2R BETA_CUBIC) * IZR (mss s))) in *.
    assert (HS0 : rnd (v * B2R BETA_CUBIC) <= B2R S).
    { rewrite VS. destruct (Rle_dec v c) as [L|L].
      - apply Rle_trans with (rnd (c * B2R BETA_CUBIC)); [apply rnd_le; nra | apply Rmax_l].
      - assert (v <= 2) by (unfold v, clamp, Rmin, Rmax in *; repeat destruct (Rle_dec _ _); lra).
        apply Rle_trans with 2; [|apply Rmax_r].
        apply rnd_le_fmt; [apply (fmt_Z 2); lia | nra]. }
    assert (HSpos : 0 < B2R S) by (rewrite VS; apply Rlt_le_trans with 2; [lra | apply Rmax_r]).
    assert (Hn : (0 <= Ztrunc R0 <= USIZE_MAX)%Z).
    { split; [rewrite <- (Ztrunc_IZR 0); apply Ztrunc_le; exact HR0|].
      assert (Ztrunc R0 <= 281474976710656)%Z; [|unfold USIZE_MAX, M64; lia].
      rewrite <- (Ztrunc_IZR 281474976710656). apply Ztrunc_le. unfold R0.
      apply rnd_le_fmt; [exact pow48_fmt|].
      assert (0 <= v * B2R BETA_CUBIC <= 4294967296) by (split; nra).
      assert (rnd (v * B2R BETA_CUBIC) <= 4294967296) by (apply rnd_le_fmt; [exact pow32_fmt | lra]).
      assert (0 <= rnd (v * B2R BETA_CUBIC)) by (apply rnd_ge_0; lra). nra. }
    assert (Hge : (Ztrunc R0 <= usize_of_f64 (fmul S (f64_of_Z (mss s))))%Z).
    { apply usize_fmul_ge; [exact Hm | exact FS | exact HSpos | exact Hn |].
      apply Rle_trans with R0; [apply Ztrunc_le_self; exact HR0|].
      unfold R0. apply rnd_le.
      assert (0 <= rnd (v * B2R BETA_CUBIC)) by (apply rnd_ge_0; nra). nra. }
    lia.
Qed.

(* the stored peer window fl(win/mss), back in bytes *)
Lemma rho_bytes : forall m win, mss_ok m -> (0 <= win < 2 ^ 32)%Z ->
  let rho := rnd (IZR win / IZR m) in
  0 <= rho <= 4294967296 /\ IZR win - / 64 <= rho * IZR m <= IZR win + / 64.
Proof.
  intros m win Hm Hw rho. pose proof (mss_R _ Hm) as HM.
  assert (Hw' : 0 <= IZR win <= 4294967295) by (split; apply IZR_le; lia).
  assert (Hinv : / 65536 <= / IZR m <= 1).
  { split; [apply Rinv_le_contravar; lra|]. rewrite <- Rinv_1. apply Rinv_le_contravar; lra. }
  assert (Hq : 0 <= IZR win / IZR m <= 4294967296) by (unfold Rdiv; split; nra).
  pose proof (err_2_32 _ Hq) as E. apply Rabs_le_inv in E. fold rho in E.
  assert (Em : IZR win / IZR m * IZR m = IZR win) by (field; lra).
  split.
  - split; [apply rnd_ge_0; lra | apply rnd_le_fmt; [exact pow32_fmt | lra]].
  - split; nra.
Qed.

(* RTO / enter-recovery, upper clause: with the peer window in force and cwnd <= max(rwnd, 2) *)
Lemma ss_upper : forall s win, mss_ok (mss s) -> (0 <= win < 2 ^ 32)%Z ->
  is_finite (rwnd s) = true -> B2R (rwnd s) = rnd (IZR win / IZR (mss s)) ->
  is_finite (cwnd s) = true -> 0 <= B2R (cwnd s) <= Rmax (B2R (rwnd s)) 2 ->
  (usize_of_f64 (fmul (rust_max (fmul (cwnd s) BETA_CUBIC) f64_2) (f64_of_Z (mss s)))
   <= Z.max (2 * mss s) ((7 * (cubic_window s + 1)) / 10 + 1))%Z.
Proof.
  intros s win Hm Hw Frw Vrw Fc Hc. destruct f64_2_correct as [F2 V2].
  destruct (rho_bytes _ _ Hm Hw) as [Hrho HrM]. cbv zeta in Hrho, HrM. rewrite <- Vrw in Hrho, HrM.
  assert (Hok : rwnd_ok (rwnd s)) by (split; assumption).
  pose proof BETA_range as Hbeta. pose proof BETA_exact as Eb. pose proof (mss_R _ Hm) as HM.
  destruct (fmul_correct_le (cwnd s) BETA_CUBIC (cwnd s) Fc BETA_finite) as [Ft Vt].
  { rewrite Rabs_mult, (Rabs_pos_eq (B2R BETA_CUBIC)) by lra. pose proof (Rabs_pos (B2R (cwnd s))). nra. }
  destruct (rust_max_finite _ f64_2 Ft F2) as [FS VS]. rewrite Vt, V2 in VS.
  set (S := rust_max (fmul (cwnd s) BETA_CUBIC) f64_2) in *.
  rewrite (window_val_fin s Hm Hok Fc).
  set (c := B2R (cwnd s)) in *. set (rho := B2R (rwnd s)) in *. set (M := IZR (mss s)) in *.
  set (t := rnd (c * B2R BETA_CUBIC)) in *.
  assert (Ht0 : 0 <= t) by (apply rnd_ge_0; nra).
  assert (Htc : t <= c) by (apply rnd_le_fmt; [apply fmt_B2R | nra]).
  assert (Hcmax : c <= 4294967296) by (destruct Hc as [_ Hc]; unfold Rmax in Hc; destruct (Rle_dec _ _); lra).
  assert (HS : 0 <= B2R S <= 8589934592).
  { rewrite VS. unfold Rmax. destruct (Rle_dec _ _); lra. }
  rewrite (sshthresh_val S _ Hm FS HS), VS. fold M.
  destruct (Rle_dec t 2) as [L|L].
  - rewrite Rmax_right by exact L.
    replace (2 * M) with (IZR (2 * mss s)) by (rewrite mult_IZR; reflexivity).
    rewrite rnd_generic by (apply fmt_Z; unfold mss_ok in Hm; lia).
    rewrite Ztrunc_IZR. lia.
  - rewrite Rmax_left by lra.
    assert (Hc2 : 2 < c) by lra.
    assert (Hcr : c <= rho) by (destruct Hc as [_ Hc]; unfold Rmax in Hc; destruct (Rle_dec _ _); lra).
    assert (Ev : clamp c rho = c) by (unfold clamp, Rmin, Rmax; repeat destruct (Rle_dec _ _); lra).
    rewrite Ev.
    assert (Hx : 0 <= c * M <= 4294967296).
    { split; [nra|]. assert (IZR win <= 4294967295) by (apply IZR_le; lia). nra. }
    assert (Hcb : 0 <= c * B2R BETA_CUBIC <= 4294967296) by (split; nra).
    pose proof (err_2_32 _ Hcb) as E1. apply Rabs_le_inv in E1. fold t in E1.
    assert (HtM : 0 <= t * M <= 8589934592) by (split; nra).
    pose proof (err_2_33 _ HtM) as E2. apply Rabs_le_inv in E2.
    assert (Hx' : 0 <= c * M <= 8589934592) by lra.
    pose proof (err_2_33 _ Hx') as E3. apply Rabs_le_inv in E3.
    set (R := rnd (t * M)) in *. set (W := rnd (c * M)) in *.
    assert (HR : 0 <= R) by (apply rnd_ge_0; lra).
    assert (HW : 0 <= W) by (apply rnd_ge_0; lra).
    pose proof (Ztrunc_le_self R HR) as Hss. pose proof (Ztrunc_gt_pred W HW) as Hw1.
    set (ss := Ztrunc R) in *. set (w := Ztrunc W) in *.
    assert (HtM' : t * M <= 7 / 10 * (c * M) + / 64).
    { assert (t * M <= c * B2R BETA_CUBIC * M + / 4194304 * M) by nra.
      assert (c * B2R BETA_CUBIC * M <= 7 / 10 * (c * M)) by (rewrite Eb; nra). nra. }
    assert (Hfin : IZR (10 * ss) < IZR (7 * (w + 1) + 1)).
    { rewrite plus_IZR, !mult_IZR, plus_IZR. lra. }
    apply lt_IZR in Hfin. lia.
Qed.

Lemma clampR_small : forall (c : f64) rho, 0 <= rho <= 2 -> clampR c rho = rho.
Proof.
  intros c rho H. unfold clampR.
  destruct c as [s|[|]| |s m e B]; try generalize (B2R (B754_finite s m e B)); try intros x;
    cbn [B2R]; unfold Rmin, Rmax; repeat destruct (Rle_dec _ _); lra.
Qed.

Section AckFine.
Variable powf3 : f64 -> f64.

(* on_ack outside slow start (cwnd >= ssthresh as floats): either the byte window cannot move
   (peer window below two segments) or sshthresh() <= window(), so the guard of the clause is off *)
Lemma ack_tail_fine : forall s (X : f64) len,
  mss_ok (mss s) -> rwnd_ok (rwnd s) -> is_finite (cwnd s) = true -> 0 <= B2R (cwnd s) ->
  cwnd_ok (ssthresh s) -> (0 <= len)%Z ->
  fge (cwnd s) (rwnd s) = false -> flt (cwnd s) (ssthresh s) = false ->
  (cubic_window s < cubic_sshthresh s)%Z ->
  (cubic_window (cubic_with_cwnd s (rust_max (rust_min X (rwnd s)) f64_2))
   <= cubic_window s + len + 1)%Z.
Proof.
  intros s X len Hm Hok Fc Hc0 Hs Hl Hge Hlt Hguard.
  set (s' := cubic_with_cwnd s (rust_max (rust_min X (rwnd s)) f64_2)).
  pose proof Hok as [Frw Hrw].
  assert (Hcr : B2R (cwnd s) < B2R (rwnd s)).
  { unfold fge in Hge. rewrite (Bleb_correct 53 1024 _ _ Frw Fc) in Hge.
    destruct (Rle_bool_spec (B2R (rwnd s)) (B2R (cwnd s))); [discriminate|assumption]. }
  destruct (Rle_dec (B2R (rwnd s)) 2) as [Small|Big].
  - destruct (window_val s Hm Hok) as [E _].
    destruct (window_val s' Hm Hok) as [E' _].
    rewrite E, E'. change (rwnd s') with (rwnd s). change (mss s') with (mss s).
    rewrite !clampR_small by lra. lia.
  - exfalso. destruct Hs as [Es|[Fs Hs0]].
    + unfold flt in Hlt. rewrite Es in Hlt. destruct (cwnd s); try discriminate Fc; discriminate Hlt.
    + unfold flt in Hlt. rewrite (Bltb_finite _ _ Fc Fs) in Hlt.
      destruct (Rlt_bool_spec (B2R (cwnd s)) (B2R (ssthresh s))) as [|Hts]; [discriminate|].
      unfold cubic_sshthresh in Hguard.
      rewrite (sshthresh_val (ssthresh s) _ Hm Fs) in Hguard by lra.
      rewrite (window_val_fin s Hm Hok Fc) in Hguard.
      pose proof (mss_R _ Hm) as HM.
      assert (Hv : B2R (cwnd s) <= clamp (B2R (cwnd s)) (B2R (rwnd s)))
        by (unfold clamp, Rmin, Rmax; repeat destruct (Rle_dec _ _); lra).
      assert (Ztrunc (rnd (B2R (ssthresh s) * IZR (mss s)))
              <= Ztrunc (rnd (clamp (B2R (cwnd s)) (B2R (rwnd s)) * IZR (mss s))))%Z
        by (apply Ztrunc_le, rnd_le; nra).
      lia.
Qed.

Lemma on_ack_fine : forall s now len rtt s',
  mss_ok (mss s) -> rwnd_ok (rwnd s) -> cwnd_ok (cwnd s) -> cwnd_ok (ssthresh s) ->
  (0 <= len < 2 ^ 32)%Z -> cubic_on_ack powf3 s now len rtt = Some s' ->
  (cubic_window s < cubic_sshthresh s)%Z ->
  (cubic_window s' <= cubic_window s + len + 1)%Z.
Proof.
  intros s now len rtt s' Hm Hok Hc Hs Hl E Hguard.
  destruct Hc as [Ec|[Fc Hc0]].
  - unfold cubic_on_ack in E. destruct (len =? 0)%Z; [injection E as <-; lia|].
    assert (Hge : fge (cwnd s) (rwnd s) = true).
    { rewrite Ec. destruct Hok as [Frw _]. destruct (rwnd s); try discriminate Frw; reflexivity. }
    rewrite Hge in E. injection E as <-. lia.
  - destruct (flt (cwnd s) (ssthresh s)) eqn:Hlt.
    + destruct (slow_start_bytes powf3 s now len rtt Hm Hok Hl Fc Hc0 Hlt) as (s'' & E' & _ & _ & _ & _ & Hb).
      rewrite E in E'. injection E' as <-. lia.
    + unfold cubic_on_ack in E. destruct (len =? 0)%Z; [injection E as <-; lia|].
      destruct (fge (cwnd s) (rwnd s)) eqn:Hge; [injection E as <-; lia|].
      rewrite Hlt in E.
      destruct (flt _ _).
      * injection E as <-. apply ack_tail_fine; try assumption; lia.
      * destruct (cu_dur_add _ _); cbn [bind] in E; [|discriminate E].
        injection E as <-. apply ack_tail_fine; try assumption; lia.
Qed.
End AckFine.

(* ---- a_tight: cwnd <= max(rwnd, 2) is known *)
Definition tight_inv (s : cubic) (a : c15_acc) : Prop :=
  a_tight a = true -> is_finite (cwnd s) = true /\ B2R (cwnd s) <= Rmax (B2R (rwnd s)) 2.

Lemma cwnd_ok_fin : forall c : f64, cwnd_ok c -> is_finite c = true -> 0 <= B2R c.
Proof. intros c [->|[_ H]] F; [discriminate F | exact H]. Qed.

Section Tight.
Variable cbrt : f64 -> f64.
Variable powf3 : f64 -> f64.

Lemma step_tight : forall s a o s' w ss m, inv s a -> cwnd_ok (cwnd s) -> tight_inv s a ->
  c15_op_dom o = true -> cubic_step cbrt powf3 s o = Some s' ->
  tight_inv s' (c15_next a o w ss m).
Proof.
  intros s a o s' w ss m (Em & Hm & Hok & Hl & Hf & Ew & Es) Hc Ht Hd E.
  pose proof Hok as [Frw Hrw]. destruct f64_2_correct as [F2 V2].
  destruct o as [win|now len rtt| |now|cb sb|m']; cbn [cubic_step] in E; unfold tight_inv, c15_next.
  - injection E as <-. cbn [a_tight cubic_set_remote_window cwnd rwnd]. intros T.
    apply andb_true_iff in T. destruct T as [T T3]. apply andb_true_iff in T. destruct T as [T1 T2].
    destruct (Ht T1) as [Fc Hle]. split; [exact Fc|].
    destruct (Hf T2) as [Hw Vrw].
    unfold c15_op_dom in Hd. assert (Hwin : (0 <= win < 2 ^ 32)%Z) by (unfold c15_u32, M32 in Hd; lia).
    destruct (set_rw_ok _ _ Hm Hwin) as [_ V']. rewrite V'.
    apply Rle_trans with (1 := Hle). apply Rle_max_compat_r. rewrite Vrw. apply rnd_le.
    pose proof (mss_R _ Hm) as HM. apply Z.leb_le in T3.
    assert (IZR (a_win a) <= IZR win) by (apply IZR_le; exact T3).
    assert (0 < / IZR (mss s)) by (apply Rinv_0_lt_compat; lra). unfold Rdiv. nra.
  - cbn [a_tight]. destruct (on_ack_cases _ _ _ _ _ _ E) as [->|[X ->]]; [exact Ht|].
    intros _. cbn [cubic_with_cwnd cwnd rwnd]. destruct (finish_ok X (rwnd s) Frw) as [F [_ H]].
    split; assumption.
  - injection E as <-. cbn [a_tight cubic_on_retransmission_timeout cwnd rwnd]. intros _.
    destruct f64_1_correct as [F1 V1]. split; [exact F1|]. rewrite V1.
    apply Rle_trans with 2; [lra | apply Rmax_r].
  - injection E as <-. cbn [a_tight]. intros T. destruct (Ht T) as [Fc Hle].
    destruct (enter_recovery_cwnd_le cbrt s now Fc (cwnd_ok_fin _ Hc Fc)) as (F' & _ & [_ H'] & _).
    split; [exact F'|]. cbn [cubic_on_enter_recovery rwnd] in *. lra.
  - injection E as <-. cbn [a_tight cubic_on_recovered cwnd rwnd]. intros _.
    destruct (finish_ok (fdiv (f64_of_Z cb) (f64_of_Z (mss s))) (rwnd s) Frw) as [F [_ H]].
    split; assumption.
  - injection E as <-. unfold cubic_set_mss. rewrite Em, (Z.eqb_sym (a_mss a) m').
    destruct (m' =? a_mss a)%Z; cbn [a_tight]; [exact Ht | intros T; discriminate T].
Qed.
End Tight.

(* ---- a_pend: the byte window recorded before a run of set_mss calls *)
Definition u53 : R := / 9007199254740992.

(* cwnd * mss is x0 up to k accumulated rescaling errors; x0 is the unclamped real window
   whose truncation was recorded as wb *)
Definition pend_facts (k : Z) (wb : Z) (s : cubic) (x0 D : R) : Prop :=
  2 <= x0 /\ IZR wb - / 1024 <= x0 <= IZR wb + 1 + / 1024 /\
  is_finite (cwnd s) = true /\
  B2R (cwnd s) * IZR (mss s) = x0 * (1 + D) /\ Rabs D <= IZR k * (4 * u53).

(* Why a bound on the number of consecutive set_mss calls (PEND_MAX, C15_Pred2.v): every effective
   set_mss multiplies cwnd * mss by (1 + d), |d| <= 3 * 2^-53, and the errors can add up in one
   direction.  NOT machine-checked (the chain is too long to evaluate inside Coq; observed on the
   real code through harness `cubic` and in an IEEE-double simulation of the model):
     cubic 17555 w4294967295 r4000000000,4294967295 (m40744 m17555) x 1687000 w4294967295
   gives window() 4000000000 before the 3374000 MSS changes and 3999999998 after the same peer
   window is re-applied (sshthresh() 4294967295 -> 4294967293): two bytes lost, so the +-1 byte
   clause of c15_obs_ok fails there and `forall ops, c15_obs_ok ... = true` is false without the
   bound.  With at most 65536 consecutive calls the drift is below 1/4 byte (pend_check). *)
Definition pend_inv (n : Z) (s : cubic) (a : c15_acc) : Prop :=
  forall wb mb, a_pend a = Some (wb, mb) ->
    (2 * mb + 1 < wb)%Z -> (wb + 1 < a_win a)%Z -> (a_win a < 2 ^ 32)%Z ->
    exists (k : Z) (x0 D : R), (0 <= k <= n)%Z /\ pend_facts k wb s x0 D.

(* creation: peer window in force, cwnd <= max(rwnd,2), recorded window strictly above 2 mss *)
Lemma pend_init : forall s win, mss_ok (mss s) -> (0 <= win < 2 ^ 32)%Z ->
  is_finite (rwnd s) = true -> B2R (rwnd s) = rnd (IZR win / IZR (mss s)) ->
  is_finite (cwnd s) = true -> 0 <= B2R (cwnd s) <= Rmax (B2R (rwnd s)) 2 ->
  (2 * mss s + 1 < cubic_window s)%Z ->
  pend_facts 0 (cubic_window s) s (B2R (cwnd s) * IZR (mss s)) 0.
Proof.
  intros s win Hm Hw Frw Vrw Fc Hc Hgt.
  destruct (rho_bytes _ _ Hm Hw) as [Hrho HrM]. cbv zeta in Hrho, HrM. rewrite <- Vrw in Hrho, HrM.
  assert (Hok : rwnd_ok (rwnd s)) by (split; assumption).
  pose proof (mss_R _ Hm) as HM.
  rewrite (window_val_fin s Hm Hok Fc) in *.
  set (c := B2R (cwnd s)) in *. set (rho := B2R (rwnd s)) in *. set (M := IZR (mss s)) in *.
  destruct (clamp_range c rho (proj1 Hrho)) as [V0 V1].
  assert (HvM : 0 <= clamp c rho * M) by nra.
  assert (HP : 0 <= rnd (clamp c rho * M)) by (apply rnd_ge_0; exact HvM).
  pose proof (Ztrunc_le_self _ HP) as Hlo. pose proof (Ztrunc_gt_pred _ HP) as Hhi.
  set (wb := Ztrunc (rnd (clamp c rho * M))) in *.
  assert (Hwb : IZR (2 * mss s) + 2 <= IZR wb).
  { replace 2 with (IZR 2) at 2 by reflexivity. rewrite <- plus_IZR. apply IZR_le. lia. }
  rewrite mult_IZR in Hwb. fold M in Hwb.
  assert (Hv2 : 2 < clamp c rho).
  { destruct (Rlt_dec 2 (clamp c rho)) as [|N]; [assumption|]. exfalso.
    assert (rnd (clamp c rho * M) <= IZR (2 * mss s)).
    { apply rnd_le_fmt; [apply fmt_Z; unfold mss_ok in Hm; lia|]. rewrite mult_IZR. fold M. nra. }
    rewrite mult_IZR in H. fold M in H. lra. }
  assert (Hc2 : 2 < c) by (unfold clamp, Rmin, Rmax in Hv2; repeat destruct (Rle_dec _ _); lra).
  assert (Hcr : c <= rho) by (destruct Hc as [_ Hc]; unfold Rmax in Hc; destruct (Rle_dec _ _); lra).
  assert (Ev : clamp c rho = c) by (unfold clamp, Rmin, Rmax; repeat destruct (Rle_dec _ _); lra).
  rewrite Ev in *.
  assert (Hx : 0 <= c * M <= 8589934592).
  { split; [nra|]. assert (IZR win <= 4294967295) by (apply IZR_le; lia). nra. }
  pose proof (err_2_33 _ Hx) as E. apply Rabs_le_inv in E.
  unfold pend_facts. split; [nra|]. split; [split; lra|]. split; [exact Fc|]. split; [unfold c, M; ring|].
  rewrite Rabs_R0. unfold u53. lra.
Qed.

(* one effective set_mss: one more rescaling error *)
Lemma pend_step : forall s m' k wb x0 D, mss_ok (mss s) -> mss_ok m' -> mss s <> m' ->
  (0 <= k < PEND_MAX)%Z -> (wb < 2 ^ 32)%Z ->
  pend_facts k wb s x0 D ->
  exists D', pend_facts (k + 1) wb (cubic_set_mss s m') x0 D'.
Proof.
  intros s m' k wb x0 D Hm Hm' Hne Hk Hwb (H2 & Hx0 & Fc & Eq & HD).
  pose proof (mss_R _ Hm) as HM. pose proof (mss_R _ Hm') as HM'.
  assert (Hk' : 0 <= IZR k <= 65535) by (unfold PEND_MAX in Hk; split; apply IZR_le; lia).
  assert (Hwb' : IZR wb <= 4294967295) by (apply IZR_le; lia).
  unfold u53 in HD. apply Rabs_le_inv in HD.
  assert (HD' : - / 34359738368 <= D <= / 34359738368) by (split; nra).
  assert (Hy : 1 <= B2R (cwnd s) * IZR (mss s) <= 8589934592) by (rewrite Eq; split; nra).
  assert (Hinv : / 65536 <= / IZR (mss s) <= 1).
  { split; [apply Rinv_le_contravar; lra|]. rewrite <- Rinv_1. apply Rinv_le_contravar; lra. }
  assert (Hc : / 65536 <= B2R (cwnd s) <= 8589934592).
  { assert (Ec : B2R (cwnd s) = B2R (cwnd s) * IZR (mss s) * / IZR (mss s)) by (field; lra).
    rewrite Ec. split; nra. }
  destruct (set_mss_rescales s m' Hm Hm' Hne Fc) as (_ & Em' & _ & Fc' & d & Hd & Eq').
  { split; [|lra]. apply Rle_trans with (/ 65536); [|lra]. apply Rinv_le_contravar; lra. }
  cbv zeta in Em', Fc', Eq'. rewrite eps_val in Hd. apply Rabs_le_inv in Hd.
  exists (D + d + D * d). unfold pend_facts.
  split; [exact H2|]. split; [exact Hx0|]. split; [exact Fc'|]. split.
  - rewrite Em', Eq', Eq. ring.
  - unfold u53. rewrite plus_IZR. apply Rabs_le. split; nra.
Qed.

(* the peer window is re-applied after at most PEND_MAX effective MSS changes *)
Lemma pend_check : forall s win k wb x0 D, mss_ok (mss s) -> (0 <= win < 2 ^ 32)%Z ->
  (0 <= k <= PEND_MAX)%Z -> (wb + 1 < win)%Z ->
  pend_facts k wb s x0 D ->
  let w := cubic_window (cubic_set_remote_window s win) in
  let expect := Z.max wb (Z.min (2 * mss s) win) in
  (expect - 1 <= w <= expect + 1)%Z.
Proof.
  intros s win k wb x0 D Hm Hw Hk Hlt (H2 & Hx0 & Fc & Eq & HD). cbv zeta.
  pose proof (mss_R _ Hm) as HM.
  assert (Hk' : 0 <= IZR k <= 65536) by (unfold PEND_MAX in Hk; split; apply IZR_le; lia).
  assert (Hwin : IZR wb + 2 <= IZR win).
  { replace 2 with (IZR 2) by reflexivity. rewrite <- plus_IZR. apply IZR_le. lia. }
  assert (Hwin' : IZR win <= 4294967295) by (apply IZR_le; lia).
  unfold u53 in HD. apply Rabs_le_inv in HD.
  assert (HD' : - / 34359738368 <= D <= / 34359738368) by (split; nra).
  destruct (window_bounds s win Hm Hw) as (B1 & B2 & B3). cbv zeta in B1, B2, B3.
  set (s1 := cubic_set_remote_window s win) in *.
  destruct (set_rw_ok _ _ Hm Hw) as [Hok1 V1].
  destruct (rho_bytes _ _ Hm Hw) as [Hrho HrM]. cbv zeta in Hrho, HrM. rewrite <- V1 in Hrho, HrM.
  change (fdiv (f64_of_Z win) (f64_of_Z (mss s))) with (rwnd s1) in Hok1, V1, Hrho, HrM.
  assert (E1 : cubic_window s1 = Ztrunc (rnd (clamp (B2R (cwnd s)) (B2R (rwnd s1)) * IZR (mss s))))
    by (apply (window_val_fin s1 Hm Hok1 Fc)).
  set (c := B2R (cwnd s)) in *. set (rho := B2R (rwnd s1)) in *. set (M := IZR (mss s)) in *.
  assert (Hy : IZR wb - 1 / 4 - / 1024 <= c * M <= IZR wb + 1 + 1 / 4 + / 1024) by (rewrite Eq; split; nra).
  assert (Hy0 : 1 <= c * M) by (rewrite Eq; nra).
  assert (Hc0 : 0 <= c) by nra.
  destruct (Rle_dec 2 c) as [C2|C2].
  - assert (Hcr : c < rho).
    { destruct (Rlt_dec c rho) as [|N]; [assumption|]. exfalso. assert (rho * M <= c * M) by nra. lra. }
    assert (Ev : clamp c rho = c) by (unfold clamp, Rmin, Rmax; repeat destruct (Rle_dec _ _); lra).
    rewrite Ev in E1.
    assert (Hx : 0 <= c * M <= 8589934592) by lra.
    pose proof (err_2_33 _ Hx) as E. apply Rabs_le_inv in E.
    set (P := rnd (c * M)) in *.
    assert (HP : 0 <= P) by (apply rnd_ge_0; lra).
    assert (L1 : (wb - 1 <= Ztrunc P)%Z) by (apply Ztrunc_ge_pred; lra).
    assert (L2 : (Ztrunc P <= wb + 1)%Z) by (apply Ztrunc_lt_succ; [exact HP | rewrite plus_IZR; lra]).
    assert (L3 : (2 * mss s <= wb + 1)%Z).
    { assert (IZR (2 * mss s) < IZR (wb + 2)); [|apply lt_IZR in H; lia].
      rewrite mult_IZR, plus_IZR. fold M. nra. }
    assert (L4 : (2 * mss s <= Ztrunc P)%Z).
    { rewrite <- (Ztrunc_IZR (2 * mss s)). apply Ztrunc_le.
      apply rnd_ge_fmt; [apply fmt_Z; unfold mss_ok in Hm; lia|]. rewrite mult_IZR. fold M. nra. }
    rewrite E1. lia.
  - assert (Hv2 : clamp c rho <= 2) by (unfold clamp, Rmin, Rmax; repeat destruct (Rle_dec _ _); lra).
    destruct (clamp_range c rho (proj1 Hrho)) as [V0 _].
    assert (L4 : (cubic_window s1 <= 2 * mss s)%Z).
    { rewrite E1, <- (Ztrunc_IZR (2 * mss s)). apply Ztrunc_le.
      apply rnd_le_fmt; [apply fmt_Z; unfold mss_ok in Hm; lia|]. rewrite mult_IZR. fold M. nra. }
    assert (L3 : (wb <= 2 * mss s)%Z).
    { assert (IZR wb < IZR (2 * mss s + 1)); [|apply lt_IZR in H; lia].
      rewrite plus_IZR, mult_IZR. fold M. nra. }
    lia.
Qed.

(* ---- assembling: c15_check true = c15_check false + the extra clauses *)
Lemma check_fine_split : forall a o w ss m,
  c15_check true a o w ss m = c15_check false a o w ss m && c15_fine_extra a o w ss m.
Proof.
  intros a o w ss m. destruct o; unfold c15_check, c15_fine_extra; cbn [andb];
    rewrite ?andb_true_r, ?andb_assoc; reflexivity.
Qed.

Definition next_n (n : Z) (o : cubic_op) : Z := match o with SetMss _ => (n + 1)%Z | _ => 0%Z end.

Definition inv2 (n : Z) (s : cubic) (a : c15_acc) : Prop :=
  inv s a /\ (0 <= n <= PEND_MAX)%Z /\ cwnd_ok (cwnd s) /\ cwnd_ok (ssthresh s) /\
  tight_inv s a /\ pend_inv n s a.

Section FineTrace.
Variable cbrt : f64 -> f64.
Variable powf3 : f64 -> f64.

Lemma step_pend : forall n s a o s', inv2 n s a -> c15_op_dom o = true ->
  (match o with SetMss _ => (n < PEND_MAX)%Z | _ => True end) ->
  cubic_step cbrt powf3 s o = Some s' ->
  pend_inv (next_n n o) s' (c15_next a o (cubic_window s') (cubic_sshthresh s') (cubic_smss s')).
Proof.
  intros n s a o s' (Hinv & Hn & Hc & Hs & Ht & Hp) Hd Hlim E.
  pose proof Hinv as (Em & Hm & Hok & Hl & Hf & Ew & Es).
  destruct o as [win|now len rtt| |now|cb sb|m']; unfold pend_inv, c15_next;
    try (cbn [a_pend]; intros wb mb Ep; discriminate Ep).
  cbn [cubic_step] in E. injection E as <-. cbn [next_n]. unfold c15_op_dom in Hd. apply mss_ok_b in Hd.
  destruct (Z.eqb_spec m' (a_mss a)) as [Eq|Ne].
  - assert (Es' : cubic_set_mss s m' = s)
      by (unfold cubic_set_mss; rewrite Em, Eq, Z.eqb_refl; reflexivity).
    rewrite Es'. cbn [a_pend a_win]. intros wb mb Ep H1 H2 H3.
    destruct (Hp wb mb Ep H1 H2 H3) as (k & x0 & D & Hk & Hfacts).
    exists k, x0, D. split; [lia | exact Hfacts].
  - cbn [a_pend a_win]. intros wb mb Ep H1 H2 H3.
    assert (Hne : mss s <> m') by (rewrite Em; intros C; apply Ne; symmetry; exact C).
    destruct (a_pend a) as [[wb0 mb0]|] eqn:Epa.
    + injection Ep as -> ->.
      destruct (Hp wb mb Epa H1 H2 H3) as (k & x0 & D & Hk & Hfacts).
      destruct (pend_step s m' k wb x0 D Hm Hd Hne) as [D' Hfacts']; [lia | lia | exact Hfacts |].
      exists (k + 1)%Z, x0, D'. split; [lia | exact Hfacts'].
    + destruct (a_fresh a) eqn:Ef; [|discriminate Ep]. destruct (a_tight a) eqn:Et; [|discriminate Ep].
      cbn [andb] in Ep. injection Ep as <- <-.
      destruct (Hf eq_refl) as [Hw Vrw]. destruct (Ht Et) as [Fc Hle].
      rewrite Ew, <- Em in *.
      pose proof (pend_init s (a_win a) Hm Hw (proj1 Hok) Vrw Fc (conj (cwnd_ok_fin _ Hc Fc) Hle) H1) as H0.
      destruct (pend_step s m' 0 (cubic_window s) (B2R (cwnd s) * IZR (mss s)) 0 Hm Hd Hne) as [D' Hfacts'];
        [unfold PEND_MAX; lia | lia | exact H0 |].
      exists 1%Z, (B2R (cwnd s) * IZR (mss s)), D'. split; [lia | exact Hfacts'].
Qed.

Lemma step_extra : forall n s a o s', inv2 n s a -> c15_op_dom o = true ->
  cubic_step cbrt powf3 s o = Some s' ->
  c15_fine_extra a o (cubic_window s') (cubic_sshthresh s') (cubic_smss s') = true.
Proof.
  intros n s a o s' (Hinv & Hn & Hc & Hs & Ht & Hp) Hd E.
  pose proof Hinv as (Em & Hm & Hok & Hl & Hf & Ew & Es).
  destruct o as [win|now len rtt| |now|cb sb|m']; cbn [cubic_step] in E; unfold c15_fine_extra;
    try reflexivity.
  - (* SetRemoteWindow: the pend clause *)
    injection E as <-.
    destruct (a_pend a) as [[wb mb]|] eqn:Ep; [|reflexivity].
    destruct ((win =? a_win a)%Z && (2 * mb + 1 <? wb)%Z && (wb + 1 <? win)%Z) eqn:G; [|reflexivity].
    apply andb_true_iff in G. destruct G as [G G3]. apply andb_true_iff in G. destruct G as [G1 G2].
    apply Z.eqb_eq in G1. apply Z.ltb_lt in G2. apply Z.ltb_lt in G3.
    unfold c15_op_dom in Hd. assert (Hw : (0 <= win < 2 ^ 32)%Z) by (unfold c15_u32, M32 in Hd; lia).
    destruct (Hp wb mb Ep G2) as (k & x0 & D & Hk & Hfacts); [lia | lia |].
    pose proof (pend_check s win k wb x0 D Hm Hw) as PC. cbv zeta in PC. rewrite <- Em.
    assert (Hk' : (0 <= k <= PEND_MAX)%Z) by lia.
    specialize (PC Hk' G3 Hfacts). cbv zeta.
    apply andb_true_iff. split; apply Z.leb_le; lia.
  - (* OnAck *)
    destruct (a_w a <? a_ss a)%Z eqn:G; [|reflexivity]. apply Z.ltb_lt in G. rewrite Ew, Es in G.
    unfold c15_op_dom in Hd. assert (Hlen : (0 <= len < 2 ^ 32)%Z) by (unfold c15_u32, M32 in Hd; lia).
    apply Z.leb_le. rewrite Ew.
    exact (on_ack_fine powf3 s now len rtt s' Hm Hok Hc Hs Hlen E G).
  - (* OnRto *)
    injection E as <-. rewrite Ew, <- Em.
    unfold cubic_sshthresh. cbn [cubic_on_retransmission_timeout ssthresh mss].
    apply andb_true_iff. split.
    + unfold c15_ss_lower_ok. apply Z.leb_le. exact (ss_lower s Hm Hok Hc).
    + destruct (a_tight a) eqn:Et; [|reflexivity]. destruct (a_fresh a) eqn:Ef; [|reflexivity].
      cbn [andb]. destruct (Hf eq_refl) as [Hw Vrw]. destruct (Ht Et) as [Fc Hle].
      unfold c15_ss_upper_ok. apply Z.leb_le.
      exact (ss_upper s (a_win a) Hm Hw (proj1 Hok) Vrw Fc (conj (cwnd_ok_fin _ Hc Fc) Hle)).
  - (* OnEnterRecovery *)
    injection E as <-. rewrite Ew, <- Em.
    unfold cubic_sshthresh. cbn [cubic_on_enter_recovery ssthresh mss].
    apply andb_true_iff. split.
    + unfold c15_ss_lower_ok. apply Z.leb_le. exact (ss_lower s Hm Hok Hc).
    + destruct (a_tight a) eqn:Et; [|reflexivity]. destruct (a_fresh a) eqn:Ef; [|reflexivity].
      cbn [andb]. destruct (Hf eq_refl) as [Hw Vrw]. destruct (Ht Et) as [Fc Hle].
      unfold c15_ss_upper_ok. apply Z.leb_le.
      exact (ss_upper s (a_win a) Hm Hw (proj1 Hok) Vrw Fc (conj (cwnd_ok_fin _ Hc Fc) Hle)).
Qed.

Lemma step_fine : forall n s a o, inv2 n s a -> c15_op_dom o = true ->
  (match o with SetMss _ => (n < PEND_MAX)%Z | _ => True end) ->
  exists s', cubic_step cbrt powf3 s o = Some s' /\
    c15_check true a o (cubic_window s') (cubic_sshthresh s') (cubic_smss s') = true /\
    inv2 (next_n n o) s' (c15_next a o (cubic_window s') (cubic_sshthresh s') (cubic_smss s')).
Proof.
  intros n s a o Hinv2 Hd Hlim. pose proof Hinv2 as (Hinv & Hn & Hc & Hs & Ht & Hp).
  destruct (step_ok cbrt powf3 s a o Hinv Hd) as (s' & E & Hchk & Hinv').
  exists s'. split; [exact E|]. split.
  - rewrite check_fine_split, Hchk. cbn [andb]. exact (step_extra n s a o s' Hinv2 Hd E).
  - pose proof Hinv as (Em & Hm & Hok & _).
    destruct (step_cwnd_ok cbrt powf3 s o s' Hm (proj1 Hok) Hd Hc Hs E) as [Hc' Hs'].
    refine (conj Hinv' (conj _ (conj Hc' (conj Hs' (conj _ _))))).
    + destruct o; cbn [next_n]; unfold PEND_MAX in *; lia.
    + exact (step_tight cbrt powf3 s a o s' _ _ _ Hinv Hc Ht Hd E).
    + exact (step_pend n s a o s' Hinv2 Hd Hlim E).
Qed.

Lemma run_go_step : forall n o r, setmss_run_go n (o :: r) = true ->
  (match o with SetMss _ => (n < PEND_MAX)%Z | _ => True end) /\ setmss_run_go (next_n n o) r = true.
Proof.
  intros n o r H. destruct o; cbn [setmss_run_go next_n] in *; try (split; [exact I | exact H]).
  apply andb_true_iff in H. destruct H as [H1 H2]. apply Z.ltb_lt in H1. split; assumption.
Qed.

Lemma trace_fine_go : forall ops s a n, inv2 n s a -> setmss_run_go n ops = true ->
  c15_obs_go true a ops (cubic_trace cbrt powf3 s ops) = true.
Proof.
  induction ops as [|o ops IH]; intros s a n Hinv Hrun; [reflexivity|].
  cbn [cubic_trace]. destruct (run_go_step n o ops Hrun) as [Hlim Hrun'].
  destruct (a_dom a && c15_op_dom o) eqn:Ed.
  - pose proof Ed as Ed'. apply andb_true_iff in Ed'. destruct Ed' as [_ Ed'].
    destruct (step_fine n s a o Hinv Ed' Hlim) as (s' & E & Hc & Hi). rewrite E.
    unfold cubic_obs. cbn [c15_obs_go]. rewrite Ed, Hc. exact (IH _ _ _ Hi Hrun').
  - destruct (cubic_step cbrt powf3 s o) as [s'|]; unfold cubic_obs; cbn [c15_obs_go];
      rewrite Ed; reflexivity.
Qed.
End FineTrace.

Lemma inv2_init : forall mss0, c15_mss_ok mss0 = true -> inv2 0 (cubic_new 0 mss0) (c15_acc0 mss0).
Proof.
  intros m Hb. destruct f64_2_correct as [F2 V2].
  refine (conj (inv_init m Hb) (conj _ (conj _ (conj _ (conj _ _))))).
  - unfold PEND_MAX. lia.
  - right. cbn [cubic_new cwnd]. split; [exact F2 | rewrite V2; lra].
  - left. reflexivity.
  - intros _. cbn [cubic_new cwnd rwnd]. split; [exact F2|]. rewrite V2. apply Rmax_r.
  - intros wb mb Ep. discriminate Ep.
Qed.

(* (2) every clause of c15_obs_ok, rounding-sensitive ones included, on every model trace in which
   at most PEND_MAX = 65536 set_mss calls are consecutive; for every cbrt / powf3 *)
Lemma model_trace_fine_ok : forall (cbrt powf3 : f64 -> f64) mss0 ops,
  setmss_runs_ok ops = true ->
  c15_obs_ok mss0 ops (cubic_trace cbrt powf3 (cubic_new 0 mss0) ops) = true.
Proof.
  intros cbrt powf3 mss0 ops Hrun. unfold c15_obs_ok.
  destruct (c15_mss_ok mss0) eqn:Hb.
  - apply (trace_fine_go cbrt powf3 ops _ _ 0%Z); [apply inv2_init; exact Hb | exact Hrun].
  - apply obs_go_out_of_dom. unfold c15_acc0. cbn [a_dom]. exact Hb.
Qed.

(* unconditional form, on the predicate of C15_Pred2.v *)
Lemma model_trace_ok_b : forall (cbrt powf3 : f64 -> f64) mss0 ops,
  c15_obs_ok_b mss0 ops (cubic_trace cbrt powf3 (cubic_new 0 mss0) ops) = true.
Proof.
  intros cbrt powf3 mss0 ops. unfold c15_obs_ok_b.
  destruct (setmss_runs_ok ops) eqn:Hrun.
  - apply model_trace_fine_ok. exact Hrun.
  - apply model_trace_core_ok.
Qed.

(* ---- the float-state invariant of every reachable state, without the predicate accumulator *)
Definition reach_inv (s : cubic) : Prop :=
  mss_ok (mss s) /\ rwnd_ok (rwnd s) /\ cwnd_ok (cwnd s) /\ cwnd_ok (ssthresh s).

Lemma reach_new : forall now mss0, mss_ok mss0 -> reach_inv (cubic_new now mss0).
Proof.
  intros now m Hm. destruct f64_2_correct as [F2 V2]. split; [exact Hm|]. split; [|split].
  - split; [reflexivity|]. cbn [cubic_new rwnd f64_zero B2R]. lra.
  - right. cbn [cubic_new cwnd]. split; [exact F2 | rewrite V2; lra].
  - left. reflexivity.
Qed.

Section Reach.
Variable cbrt : f64 -> f64.
Variable powf3 : f64 -> f64.

Lemma reach_step : forall s o s', reach_inv s -> c15_op_dom o = true ->
  cubic_step cbrt powf3 s o = Some s' -> reach_inv s'.
Proof.
  intros s o s' (Hm & Hok & Hc & Hs) Hd E.
  destruct (step_cwnd_ok cbrt powf3 s o s' Hm (proj1 Hok) Hd Hc Hs E) as [Hc' Hs'].
  assert (Hmr : mss_ok (mss s') /\ rwnd_ok (rwnd s')); [|destruct Hmr as [A B]; exact (conj A (conj B (conj Hc' Hs')))].
  destruct o as [win|now len rtt| |now|cb sb|m']; cbn [cubic_step] in E.
  - injection E as <-. cbn [cubic_set_remote_window mss rwnd]. split; [exact Hm|].
    unfold c15_op_dom in Hd. apply set_rw_ok; [exact Hm | unfold c15_u32, M32 in Hd; lia].
  - destruct (on_ack_cases _ _ _ _ _ _ E) as [->|[X ->]]; split; assumption.
  - injection E as <-. split; assumption.
  - injection E as <-. split; assumption.
  - injection E as <-. split; assumption.
  - injection E as <-. unfold cubic_set_mss. destruct (Z.eqb_spec (mss s) m'); [split; assumption|].
    cbn [mss rwnd]. split; [apply mss_ok_b; exact Hd | exact Hok].
Qed.

Lemma reach_run : forall ops s s', reach_inv s -> forallb c15_op_dom ops = true ->
  cubic_run cbrt powf3 s ops = Some s' -> reach_inv s'.
Proof.
  induction ops as [|o ops IH]; intros s s' Hr Hd E; cbn [cubic_run] in E.
  - injection E as <-. exact Hr.
  - cbn [forallb] in Hd. apply andb_true_iff in Hd. destruct Hd as [Hd1 Hd2].
    destruct (cubic_step cbrt powf3 s o) as [s1|] eqn:E1; cbn [bind] in E; [|discriminate E].
    exact (IH s1 s' (reach_step s o s1 Hr Hd1 E1) Hd2 E).
Qed.

(* (1) on every reachable state: while window() < sshthresh() one ACK of len bytes raises
   window() by at most len + 1 (and in slow start proper it never lowers it: slow_start_bytes) *)
Lemma slow_start_bytes_reachable : forall mss0 ops s now len rtt s',
  mss_ok mss0 -> forallb c15_op_dom ops = true ->
  cubic_run cbrt powf3 (cubic_new 0 mss0) ops = Some s ->
  (0 <= len < 2 ^ 32)%Z -> cubic_on_ack powf3 s now len rtt = Some s' ->
  (cubic_window s < cubic_sshthresh s)%Z ->
  (cubic_window s' <= cubic_window s + len + 1)%Z.
Proof.
  intros mss0 ops s now len rtt s' Hm Hd E Hl Ea Hg.
  destruct (reach_run ops _ s (reach_new 0 mss0 Hm) Hd E) as (Hm' & Hok & Hc & Hs).
  exact (on_ack_fine powf3 s now len rtt s' Hm' Hok Hc Hs Hl Ea Hg).
Qed.
End Reach.

Lemma reachable_state_invariant : forall (cbrt powf3 : f64 -> f64) mss0 ops s,
  mss_ok mss0 -> forallb c15_op_dom ops = true ->
  cubic_run cbrt powf3 (cubic_new 0 mss0) ops = Some s -> reach_inv s.
Proof.
  intros cbrt powf3 mss0 ops s Hm Hd E.
  exact (reach_run cbrt powf3 ops _ s (reach_new 0 mss0 Hm) Hd E).
Qed.

(* ---- (3) set_mss in bytes: a run of MSS changes, then the same peer window re-applied *)
Lemma set_mss_mss : forall s m', mss (cubic_set_mss s m') = m'.
Proof.
  intros s m'. unfold cubic_set_mss. destruct (Z.eqb_spec (mss s) m') as [E|_]; [exact E | reflexivity].
Qed.

Lemma pend_chain : forall ms s k wb x0 D, mss_ok (mss s) -> forallb c15_mss_ok ms = true ->
  (0 <= k)%Z -> (k + Z.of_nat (length ms) <= PEND_MAX)%Z -> (wb < 2 ^ 32)%Z ->
  pend_facts k wb s x0 D ->
  exists k' D', (k <= k' <= k + Z.of_nat (length ms))%Z /\
    mss_ok (mss (fold_left cubic_set_mss ms s)) /\
    pend_facts k' wb (fold_left cubic_set_mss ms s) x0 D'.
Proof.
  induction ms as [|m' ms IH]; intros s k wb x0 D Hm Hall Hk Hlen Hwb Hf.
  - exists k, D. cbn [fold_left length Z.of_nat]. split; [lia|]. split; assumption.
  - cbn [forallb] in Hall. apply andb_true_iff in Hall. destruct Hall as [Hm1 Hall].
    apply mss_ok_b in Hm1. cbn [fold_left]. cbn [length] in *. rewrite Nat2Z.inj_succ in *.
    assert (Hm' : mss_ok (mss (cubic_set_mss s m'))) by (rewrite set_mss_mss; exact Hm1).
    destruct (Z.eq_dec (mss s) m') as [Eq|Ne].
    + assert (Es : cubic_set_mss s m' = s) by (unfold cubic_set_mss; rewrite Eq, Z.eqb_refl; reflexivity).
      rewrite Es in *.
      destruct (IH s k wb x0 D Hm Hall Hk) as (k' & D' & Hk' & R); [lia | exact Hwb | exact Hf |].
      exists k', D'. split; [lia | exact R].
    + destruct (pend_step s m' k wb x0 D Hm Hm1 Ne) as [D1 Hf1]; [unfold PEND_MAX in *; lia | exact Hwb | exact Hf |].
      destruct (IH (cubic_set_mss s m') (k + 1)%Z wb x0 D1 Hm' Hall) as (k' & D' & Hk' & R);
        [lia | lia | exact Hwb | exact Hf1 |].
      exists k', D'. split; [lia | exact R].
Qed.

(* peer window win in force, cwnd <= max(rwnd, 2), byte window strictly between 2 mss + 1 and
   win - 1; then up to 65536 set_mss calls and set_remote_window win again: the byte window is the
   old one (or the new two-segment floor), up to one byte: set_mss rescales, it never resets *)
Lemma set_mss_chain_bytes : forall s win ms,
  mss_ok (mss s) -> (0 <= win < 2 ^ 32)%Z ->
  is_finite (rwnd s) = true -> B2R (rwnd s) = rnd (IZR win / IZR (mss s)) ->
  is_finite (cwnd s) = true -> 0 <= B2R (cwnd s) <= Rmax (B2R (rwnd s)) 2 ->
  (2 * mss s + 1 < cubic_window s)%Z -> (cubic_window s + 1 < win)%Z ->
  forallb c15_mss_ok ms = true -> (Z.of_nat (length ms) <= PEND_MAX)%Z ->
  let s1 := fold_left cubic_set_mss ms s in
  let w := cubic_window (cubic_set_remote_window s1 win) in
  let expect := Z.max (cubic_window s) (Z.min (2 * mss s1) win) in
  (expect - 1 <= w <= expect + 1)%Z.
Proof.
  intros s win ms Hm Hw Frw Vrw Fc Hc H1 H2 Hall Hlen. cbv zeta.
  pose proof (pend_init s win Hm Hw Frw Vrw Fc Hc H1) as H0.
  destruct (pend_chain ms s 0 (cubic_window s) (B2R (cwnd s) * IZR (mss s)) 0 Hm Hall)
    as (k' & D' & Hk' & Hm1 & Hf1);
    [lia | lia | lia | exact H0 |].
  apply (pend_check _ win k' (cubic_window s) (B2R (cwnd s) * IZR (mss s)) D' Hm1 Hw);
    [lia | exact H2 | exact Hf1].
Qed.

(* ---- non-vacuity of the hypotheses, by computation on reachable states *)
Definition ex_reach (ops : list cubic_op) : option cubic :=
  cubic_run (fun x => x) (fun x => x) (cubic_new 0 1500) ops.

(* slow_start_bytes: a reachable slow-start state (finite cwnd, below ssthresh and below rwnd) *)
Example slow_start_bytes_hyps_sat :
  match ex_reach [SetRemoteWindow 1000000; OnAck 1 1500 1000] with
  | Some s => is_finite (cwnd s) = true /\ flt (cwnd s) (ssthresh s) = true /\
              fge (cwnd s) (rwnd s) = false /\ is_finite (rwnd s) = true /\
              (cubic_window s < cubic_sshthresh s)%Z
  | None => False
  end.
Proof. vm_compute. repeat split; reflexivity. Qed.

(* set_mss_chain_bytes: 15000 bytes at mss 1500 under a 1000000-byte peer window; two MSS changes;
   same peer window again: still 15000 bytes *)
Example set_mss_chain_example :
  match ex_reach [SetRemoteWindow 1000000; OnRecovered 15000 1000000] with
  | Some s =>
      (2 * mss s + 1 <? cubic_window s)%Z = true /\ (cubic_window s + 1 <? 1000000)%Z = true /\
      Bleb (cwnd s) (rwnd s) = true /\
      cubic_window (cubic_set_remote_window (fold_left cubic_set_mss [1000; 1234]%Z s) 1000000) = 15000%Z
  | None => False
  end.
Proof. vm_compute. repeat split; reflexivity. Qed.

Example setmss_runs_ok_sat :
  setmss_runs_ok [SetRemoteWindow 1000000; SetMss 1000; SetMss 1234; SetRemoteWindow 1000000] = true.
Proof. vm_compute. reflexivity. Qed.

(* ---- cumulative slow-start bound: window() <= 2 * mss_max + acked bytes before any loss *)
Definition ss_J (n : Z) (s : cubic) (mm acked : Z) : Prop :=
  mss_ok (mss s) /\ (mss s <= mm)%Z /\ rwnd_ok (rwnd s) /\ ssthresh s = B754_infinity false /\
  is_finite (cwnd s) = true /\
  2 - IZR n * / 524288 <= B2R (cwnd s) * IZR (mss s) <= IZR (2 * mm + acked) + IZR n * / 524288.

Lemma flt_fin_inf : forall c : f64, is_finite c = true -> flt c (B754_infinity false) = true.
Proof. intros c F. destruct c as [s|s| |s m e B]; try discriminate F; destruct s; reflexivity. Qed.

Lemma ss_acc_mono : forall ops mm acked, forallb c15_op_dom ops = true ->
  (mm <= fst (ss_acc mm acked ops) /\ acked <= snd (ss_acc mm acked ops))%Z.
Proof.
  induction ops as [|o ops IH]; intros mm acked Hd; [cbn; lia|].
  cbn [forallb] in Hd. apply andb_true_iff in Hd. destruct Hd as [Hd1 Hd2].
  destruct o as [win|now len rtt| |now|cb sb|m']; cbn [ss_acc].
  - apply IH; exact Hd2.
  - destruct (IH mm (acked + len)%Z Hd2) as [H1 H2]. unfold c15_op_dom, c15_u32 in Hd1. split; lia.
  - apply IH; exact Hd2.
  - apply IH; exact Hd2.
  - apply IH; exact Hd2.
  - destruct (IH (Z.max mm m') acked Hd2) as [H1 H2]. split; lia.
Qed.

Section Cumulative.
Variable cbrt : f64 -> f64.
Variable powf3 : f64 -> f64.

(* one effective slow-start ack, as a real inequality on cwnd * mss *)
Lemma ss_ack_real : forall B L e1 e2, 0 <= B <= 4294967297 -> 0 <= L <= 4294967296 ->
  Rabs e1 <= / 9007199254740992 -> Rabs e2 <= / 9007199254740992 ->
  (B + L * (1 + e1)) * (1 + e2) <= B + L + / 524288.
Proof.
  intros B L e1 e2 HB HL H1 H2. apply Rabs_le_inv in H1. apply Rabs_le_inv in H2.
  assert (T1 : - / 2097152 <= L * e1 <= / 2097152) by (split; nra).
  assert (HX : -1 <= B + L + L * e1 <= 8589934594) by lra.
  assert (T2 : (B + L + L * e1) * e2 <= 8589934594 * / 9007199254740992).
  { destruct (Rle_dec 0 e2) as [P|N]; nra. }
  replace ((B + L * (1 + e1)) * (1 + e2)) with ((B + L + L * e1) + (B + L + L * e1) * e2) by ring.
  lra.
Qed.

Lemma ss_step : forall n s mm acked o s', ss_J n s mm acked ->
  ss_only o = true -> c15_op_dom o = true ->
  (0 <= n < SS_OPS_MAX)%Z -> (0 <= acked)%Z ->
  (2 * fst (ss_acc mm acked [o]) + snd (ss_acc mm acked [o]) <= 4294967295)%Z ->
  cubic_step cbrt powf3 s o = Some s' ->
  ss_J (n + 1) s' (fst (ss_acc mm acked [o])) (snd (ss_acc mm acked [o])).
Proof.
  intros n s mm acked o s' (Hm & Hmm & Hok & Es & Fc & HB) Hss Hd Hn Ha Htot E.
  pose proof (mss_R _ Hm) as HM.
  assert (Hn' : 0 <= IZR n <= 262143) by (unfold SS_OPS_MAX in Hn; split; apply IZR_le; lia).
  assert (Hn1 : IZR (n + 1) = IZR n + 1) by (rewrite plus_IZR; reflexivity).
  destruct o as [win|now len rtt| |now|cb sb|m']; try discriminate Hss;
    cbn [cubic_step] in E; cbn [ss_acc fst snd] in *.
  - (* SetRemoteWindow *)
    injection E as <-. unfold ss_J. cbn [cubic_set_remote_window mss rwnd ssthresh cwnd].
    unfold c15_op_dom in Hd.
    refine (conj Hm (conj Hmm (conj _ (conj Es (conj Fc _))))).
    + apply set_rw_ok; [exact Hm | unfold c15_u32, M32 in Hd; lia].
    + rewrite Hn1. split; lra.
  - (* OnAck *)
    unfold c15_op_dom in Hd. assert (Hlen : (0 <= len < 2 ^ 32)%Z) by (unfold c15_u32, M32 in Hd; lia).
    assert (HL : 0 <= IZR len <= 4294967296) by (split; apply IZR_le; lia).
    assert (Hsame : ss_J (n + 1) s mm (acked + len)).
    { unfold ss_J. refine (conj Hm (conj Hmm (conj Hok (conj Es (conj Fc _))))).
      rewrite Hn1. replace (2 * mm + (acked + len))%Z with ((2 * mm + acked) + len)%Z by ring.
      rewrite (plus_IZR (2 * mm + acked)). split; lra. }
    destruct (Z.eq_dec len 0) as [E0|Hnz].
    { unfold cubic_on_ack in E. rewrite E0 in E. cbn [Z.eqb] in E. injection E as <-. exact Hsame. }
    destruct (fge (cwnd s) (rwnd s)) eqn:Hge.
    { unfold cubic_on_ack in E. destruct (Z.eqb_spec len 0) as [C|_]; [contradiction|].
      rewrite Hge in E. injection E as <-. exact Hsame. }
    assert (Hc0 : 0 <= B2R (cwnd s)).
    { assert (0 <= B2R (cwnd s) * IZR (mss s)) by lra.
      destruct (Rle_dec 0 (B2R (cwnd s))) as [|N]; [assumption|]. exfalso. nra. }
    assert (Hlt : flt (cwnd s) (ssthresh s) = true) by (rewrite Es; apply flt_fin_inf; exact Fc).
    assert (Hl' : (0 < len < 2 ^ 32)%Z) by lia.
    destruct (slow_start_mss_units powf3 s now len rtt Hm Hok Hl' Fc Hc0 Hge Hlt)
      as (s'' & E' & _ & Fc' & Vc' & _ & Es' & Em' & Er').
    rewrite E in E'. injection E' as <-.
    unfold ss_J. rewrite Em', Er', Es'.
    refine (conj Hm (conj Hmm (conj Hok (conj Es (conj Fc' _))))).
    rewrite Vc', Hn1.
    set (c := B2R (cwnd s)) in *. set (M := IZR (mss s)) in *. set (L := IZR len) in *.
    assert (HL1 : 1 <= L) by (unfold L; apply IZR_le; lia).
    assert (Hinv : / 65536 <= / M <= 1).
    { split; [apply Rinv_le_contravar; lra|]. rewrite <- Rinv_1. apply Rinv_le_contravar; lra. }
    assert (HLM : / 65536 <= L / M) by (unfold Rdiv; nra).
    destruct (rnd_rel (L / M)) as (e1 & He1 & E1); [apply tiny_le; exact HLM|].
    assert (Hq : / 65536 <= rnd (L / M)).
    { apply rnd_ge_fmt; [|exact HLM]. replace (/ 65536) with (bpow radix2 (-16)) by reflexivity.
      apply generic_format_FLT_bpow; [auto with typeclass_instances | lia]. }
    destruct (rnd_rel (c + rnd (L / M))) as (e2 & He2 & E2); [apply tiny_le; lra|].
    rewrite eps_val in He1, He2.
    set (a := rnd (c + rnd (L / M))) in *.
    assert (HaM : a * M = (c * M + L * (1 + e1)) * (1 + e2)).
    { rewrite E2, E1. field. lra. }
    assert (Htot' : IZR (2 * mm + (acked + len)) <= 4294967295) by (apply IZR_le; lia).
    replace (2 * mm + (acked + len))%Z with ((2 * mm + acked) + len)%Z in * by ring.
    rewrite (plus_IZR (2 * mm + acked)) in *. fold L in Htot' |- *.
    assert (HBup : 0 <= c * M <= 4294967297) by lra.
    pose proof (ss_ack_real (c * M) L e1 e2 HBup (conj (proj1 HL) (proj2 HL)) He1 He2) as Hack.
    rewrite <- HaM in Hack.
    assert (Hmm' : 2 * M <= IZR (2 * mm + acked)).
    { rewrite plus_IZR, mult_IZR. assert (M <= IZR mm) by (apply IZR_le; exact Hmm).
      assert (0 <= IZR acked) by (apply IZR_le; exact Ha). lra. }
    assert (Hcw : 2 <= Rmax (Rmin a (B2R (rwnd s))) 2 <= Rmax a 2)
      by (unfold Rmax, Rmin; repeat destruct (Rle_dec _ _); lra).
    set (c' := Rmax (Rmin a (B2R (rwnd s))) 2) in *.
    split; [nra|].
    assert (c' * M <= Rmax (a * M) (2 * M)).
    { unfold Rmax in *. destruct (Rle_dec a 2); destruct (Rle_dec (a * M) (2 * M)); nra. }
    assert (Rmax (a * M) (2 * M) <= IZR (2 * mm + acked) + L + (IZR n + 1) * / 524288).
    { apply Rmax_lub; lra. }
    lra.
  - (* SetMss *)
    injection E as <-. unfold c15_op_dom in Hd. apply mss_ok_b in Hd.
    assert (Hmax : IZR (2 * mm + acked) <= IZR (2 * Z.max mm m' + acked)) by (apply IZR_le; lia).
    destruct (Z.eq_dec (mss s) m') as [Eq|Ne].
    + assert (Es' : cubic_set_mss s m' = s) by (unfold cubic_set_mss; rewrite Eq, Z.eqb_refl; reflexivity).
      rewrite Es'. unfold ss_J. refine (conj Hm (conj _ (conj Hok (conj Es (conj Fc _))))); [lia|].
      rewrite Hn1. split; lra.
    + assert (Htot' : IZR (2 * Z.max mm m' + acked) <= 4294967295) by (apply IZR_le; lia).
      assert (HBr : 1 <= B2R (cwnd s) * IZR (mss s) <= 4294967296) by (split; lra).
      assert (Hinv : / 65536 <= / IZR (mss s) <= 1).
      { split; [apply Rinv_le_contravar; lra|]. rewrite <- Rinv_1. apply Rinv_le_contravar; lra. }
      assert (Hc : / 65536 <= B2R (cwnd s) <= 4294967296).
      { assert (Ec : B2R (cwnd s) = B2R (cwnd s) * IZR (mss s) * / IZR (mss s)) by (field; lra).
        rewrite Ec. split; nra. }
      destruct (set_mss_rescales s m' Hm Hd Ne Fc) as (_ & Em' & Er' & Fc' & d & Hdd & Eq').
      { split; [|lra]. apply Rle_trans with (/ 65536); [|lra]. apply Rinv_le_contravar; lra. }
      cbv zeta in Em', Er', Fc', Eq'. rewrite eps_val in Hdd. apply Rabs_le_inv in Hdd.
      assert (Ess : ssthresh (cubic_set_mss s m') = B754_infinity false).
      { unfold cubic_set_mss. destruct (Z.eqb_spec (mss s) m') as [C|_]; [contradiction|].
        cbn [ssthresh]. rewrite Es. destruct (rescale_ok _ _ Hm Hd) as [Fr Hr].
        destruct (finite_sign _ Fr Hr) as (mr & er & Br & Er). rewrite Er. reflexivity. }
      unfold ss_J. rewrite Em', Er'.
      refine (conj Hd (conj _ (conj Hok (conj Ess (conj Fc' _))))); [lia|].
      rewrite Eq', Hn1.
      set (B := B2R (cwnd s) * IZR (mss s)) in *.
      assert (- / 524288 <= B * d <= / 524288) by (split; nra).
      split; lra.
Qed.

Lemma ss_run : forall ops n s mm acked s', ss_J n s mm acked ->
  forallb ss_only ops = true -> forallb c15_op_dom ops = true ->
  (0 <= n)%Z -> (n + Z.of_nat (length ops) <= SS_OPS_MAX)%Z -> (0 <= acked)%Z ->
  (2 * fst (ss_acc mm acked ops) + snd (ss_acc mm acked ops) <= 4294967295)%Z ->
  cubic_run cbrt powf3 s ops = Some s' ->
  ss_J (n + Z.of_nat (length ops)) s' (fst (ss_acc mm acked ops)) (snd (ss_acc mm acked ops)).
Proof.
  induction ops as [|o ops IH]; intros n s mm acked s' HJ Hss Hd Hn Hlen Ha Htot E.
  - cbn [cubic_run] in E. injection E as <-. cbn [length Z.of_nat ss_acc fst snd].
    rewrite Z.add_0_r. exact HJ.
  - cbn [forallb] in Hss, Hd. apply andb_true_iff in Hss. destruct Hss as [Hss1 Hss2].
    apply andb_true_iff in Hd. destruct Hd as [Hd1 Hd2].
    cbn [length] in *. rewrite Nat2Z.inj_succ in *.
    cbn [cubic_run] in E.
    destruct (cubic_step cbrt powf3 s o) as [s1|] eqn:E1; cbn [bind] in E; [|discriminate E].
    assert (Hsplit : ss_acc mm acked (o :: ops) =
                     ss_acc (fst (ss_acc mm acked [o])) (snd (ss_acc mm acked [o])) ops)
      by (destruct o; reflexivity).
    rewrite Hsplit in *.
    set (mm1 := fst (ss_acc mm acked [o])) in *. set (a1 := snd (ss_acc mm acked [o])) in *.
    destruct (ss_acc_mono ops mm1 a1 Hd2) as [Hmono1 Hmono2].
    assert (Ha1 : (0 <= a1)%Z).
    { unfold a1. destruct o; cbn [ss_acc snd]; try lia.
      unfold c15_op_dom, c15_u32 in Hd1. lia. }
    assert (HJ1 : ss_J (n + 1) s1 mm1 a1).
    { apply (ss_step n s mm acked o s1 HJ Hss1 Hd1); [unfold SS_OPS_MAX in *; lia | exact Ha | | exact E1].
      fold mm1 a1. lia. }
    replace (n + Z.succ (Z.of_nat (length ops)))%Z with ((n + 1) + Z.of_nat (length ops))%Z by lia.
    apply (IH (n + 1)%Z s1 mm1 a1 s' HJ1 Hss2 Hd2); [lia | lia | exact Ha1 | exact Htot | exact E].
Qed.

Lemma ss_J_window : forall n s mm acked, ss_J n s mm acked -> (0 <= n <= SS_OPS_MAX)%Z ->
  (0 <= acked)%Z -> (2 * mm + acked <= 4294967295)%Z ->
  (cubic_window s <= 2 * mm + acked)%Z.
Proof.
  intros n s mm acked (Hm & Hmm & Hok & Es & Fc & HB) Hn Ha Htot.
  pose proof (mss_R _ Hm) as HM.
  assert (Hn' : 0 <= IZR n <= 262144) by (unfold SS_OPS_MAX in Hn; split; apply IZR_le; lia).
  assert (Htot' : IZR (2 * mm + acked) <= 4294967295) by (apply IZR_le; exact Htot).
  rewrite (window_val_fin s Hm Hok Fc).
  destruct (clamp_range (B2R (cwnd s)) (B2R (rwnd s)) (proj1 (proj2 Hok))) as [V0 V1].
  assert (Hv : clamp (B2R (cwnd s)) (B2R (rwnd s)) <= Rmax (B2R (cwnd s)) 2)
    by (unfold clamp; apply Rmin_l).
  set (v := clamp (B2R (cwnd s)) (B2R (rwnd s))) in *.
  set (c := B2R (cwnd s)) in *. set (M := IZR (mss s)) in *.
  assert (Hmm' : 2 * M <= IZR (2 * mm + acked)).
  { rewrite plus_IZR, mult_IZR. assert (M <= IZR mm) by (apply IZR_le; exact Hmm).
    assert (0 <= IZR acked) by (apply IZR_le; exact Ha). lra. }
  assert (HvM : v * M <= IZR (2 * mm + acked) + / 2).
  { assert (v * M <= Rmax (c * M) (2 * M)).
    { unfold Rmax in *. destruct (Rle_dec c 2); destruct (Rle_dec (c * M) (2 * M)); nra. }
    assert (Rmax (c * M) (2 * M) <= IZR (2 * mm + acked) + / 2) by (apply Rmax_lub; lra).
    lra. }
  assert (Hx : 0 <= v * M <= 4294967296) by (split; nra).
  pose proof (err_2_32 _ Hx) as Er. apply Rabs_le_inv in Er.
  apply Ztrunc_lt_succ; [apply rnd_ge_0; lra | lra].
Qed.

(* C05 slow-start clause at the congestion controller: from Cubic::new, any sequence of at most 2^18
   set_remote_window / on_ack / set_mss operations (no loss event) whose bound 2 mss_max + acked is
   below 2^32: window() <= 2 * mss_max + acked bytes, EXACTLY (all float error absorbed). *)
Lemma slow_start_cumulative : forall now0 mss0 ops s,
  mss_ok mss0 -> forallb ss_only ops = true -> forallb c15_op_dom ops = true ->
  (Z.of_nat (length ops) <= SS_OPS_MAX)%Z ->
  (2 * fst (ss_acc mss0 0 ops) + snd (ss_acc mss0 0 ops) <= 4294967295)%Z ->
  cubic_run cbrt powf3 (cubic_new now0 mss0) ops = Some s ->
  (cubic_window s <= 2 * fst (ss_acc mss0 0 ops) + snd (ss_acc mss0 0 ops))%Z.
Proof.
  intros now0 mss0 ops s Hm Hss Hd Hlen Htot E.
  destruct f64_2_correct as [F2 V2]. pose proof (mss_R _ Hm) as HM.
  assert (HJ0 : ss_J 0 (cubic_new now0 mss0) mss0 0).
  { unfold ss_J. cbn [cubic_new mss rwnd ssthresh cwnd].
    refine (conj Hm (conj (Z.le_refl _) (conj _ (conj eq_refl (conj F2 _))))).
    - split; [reflexivity|]. cbn [f64_zero B2R]. lra.
    - rewrite V2, Z.add_0_r, mult_IZR. lra. }
  destruct (ss_acc_mono ops mss0 0 Hd) as [M1 M2].
  pose proof (ss_run ops 0 _ mss0 0 s HJ0 Hss Hd (Z.le_refl 0)) as HJ.
  cbn [Z.add] in HJ. specialize (HJ Hlen (Z.le_refl 0) Htot E).
  apply (ss_J_window _ s _ _ HJ); [lia | lia | exact Htot].
Qed.
End Cumulative.

Example slow_start_cumulative_sat :
  let ops := [SetRemoteWindow 1000000; OnAck 1 1500 1000; SetMss 1400; OnAck 2 700 1000] in
  forallb ss_only ops = true /\ forallb c15_op_dom ops = true /\
  ss_acc 1500 0 ops = (1500, 2200)%Z /\
  option_map cubic_window (ex_reach ops) = Some 5200%Z.
Proof. vm_compute. repeat split; reflexivity. Qed.
